/-
  UnytModel.Persist — persisting quantities, arrays, units and registries, and what the restored
  object does afterwards (C11).

  Models, per route (`PersistCfg.Route`), the state that travels and the state that is rebuilt:
    unyt/array.py           `unyt_array.__reduce__` / `__setstate__` (units as `str(units)` + the whole
                            `registry.lut`; `_correct_old_unit_registry` re-adds missing default symbols;
                            a NEW registry, `unit_system` not passed), `copy`, `__deepcopy__`,
                            `savetxt` / `loadtxt` (`str(units)` header, default registry on load)
    unyt/unit_object.py     `Unit.copy` (`Unit(str(expr), base_value, base_offset, deepcopy(dimensions),
                            copy|deepcopy(registry))`), `__deepcopy__`, default slot pickling of `Unit`
    unyt/unit_registry.py   `to_json` / `from_json`, `__deepcopy__` (`type(self)(lut=deepcopy(lut))`: the
                            default symbols are written over the copied table), `_correct_old_unit_registry`
  The state is: the numbers (opaque, with dtype and class), the unit (`UnitV`: expression, scale,
  offset, dimension and the `canon` bit — "its dimension object is built from the library's singleton
  symbols", which the code tests with `is angle` / `is temperature` / `is logarithmic`), and the
  registry (every row of `lut` with ITS `canon` bit, and `unit_system`).

  WHICH of these a route carries is not written here: `restore` is a function of a `RouteCfg`, and the
  table of configurations is regenerated from the live code (`Generated/PersistRoutes.lean`).

  The follow-up operations (`follow`) are the existing models — `Ufunc.dispatch` (trigonometric
  functions of angles, the K/R guard, temperature rules, multiply), `UnitV.mul` / `UnitV.pow`
  (logarithmic and offset guards), `UnitSystem.inBase`, `Convert.inUnits` — applied to that state
  and to nothing else.  The sympy parser is outside the model: unit strings travel as expressions
  (`UExpr`), and the only string effect modelled is the one unyt adds itself, the display names
  `Δ°C` / `Δ°F` of `Unit.__str__`, which `parse_unyt_expr` cannot read back.
-/
import UnytModel.Ufunc
import UnytModel.UnitSystem
import UnytModel.PersistCfg

namespace Unyt.Persist
open Unyt

deriving instance DecidableEq for Unyt.UExpr
deriving instance DecidableEq for Unyt.Entry
deriving instance DecidableEq for Unyt.UnitV

/-! ## the persisted state -/

/-- one row of `registry.lut` together with the identity status of its `dimensions` object -/
structure PRow (K : Type) where
  e : Entry K
  canon : Bool := true
deriving DecidableEq, Repr

abbrev PLut (K : Type) := List (String × PRow K)

namespace PLut
variable {K : Type}

def find? (t : PLut K) (k : String) : Option (PRow K) :=
  match t with
  | [] => none
  | (k', r) :: rest => if k' = k then some r else find? rest k

def hasKey (t : PLut K) (k : String) : Bool := t.any (·.1 == k)

/-- the table as the unit machinery reads it -/
def lut (t : PLut K) : Lut K := t.map fun p => (p.1, p.2.e)

end PLut

/-- a registry: the table (user rows, modified default rows, written-back prefixed rows) and
    `registry.unit_system` -/
structure PReg (K : Type) where
  rows : PLut K
  usys : String := "mks"
deriving DecidableEq, Repr

/-- a quantity / array (a bare `Unit` is the same with no numbers) -/
structure PObj (K : Type) where
  vals : List K
  dtype : String := "float64"
  isQuantity : Bool := false
  unit : UnitV K
  reg : PReg K
deriving DecidableEq, Repr

section
variable {K : Type} [Add K] [Sub K] [Mul K] [Div K] [OfNat K 0] [OfNat K 1] [BEq K] [RPow K]

/-! ## units out of a registry -/

/-- identity status of the dimension object a symbol resolves to: its own row's, or — for an
    SI-prefixed symbol — the row of the symbol without the prefix (`_lookup_unit_symbol` hands the
    very same `dimensions` object on) -/
def rowCanon (pre : Prefixes K) (t : PLut K) (s : String) : Bool :=
  match t.find? s with
  | some r => r.canon
  | none =>
    let sp := splitPrefix pre t.lut s
    if sp.1 = "" then true
    else match t.find? sp.2 with
      | some r => r.canon
      | none => true

/-- every symbol of the expression resolves to a row whose dimension object is canonical
    (for a product sympy may hand back a cached canonical object anyway — observed, not modelled;
    the harness compares this bit for atomic units only) -/
def exprCanon (pre : Prefixes K) (t : PLut K) (e : UExpr K) : Bool :=
  (UExpr.normF e.factors).all fun p => rowCanon pre t p.1

/-- `Unit(expr, registry=R)` with nothing cached: data from the table, identity from the rows -/
def unitFromReg (pre : Prefixes K) (R : PReg K) (e : UExpr K) : Except Err (UnitV K) :=
  match mkUnit pre R.rows.lut e with
  | .error err => .error err
  | .ok u => .ok { u with canon := exprCanon pre R.rows e }

/-! ## restoring -/

/-- the row holds the default row's value, offset and dimensions (so it can differ from it in the
    SI-prefixability flag only — `tex_repr` is not part of the modelled state) -/
def sameData (a b : Entry K) : Bool := a.scale == b.scale && a.offset == b.offset && a.dim == b.dim

/-- a row keyed by a default symbol travels as it is (else: the default row is what comes back):
    the route carries modified default rows, and — when the row differs from the default in the
    prefixable flag only — it also carries those -/
def keepsRow (cfg : RouteCfg) (e d : Entry K) : Bool :=
  cfg.keepsModifiedDefault && (cfg.keepsFlagOnlyDefault || !(sameData e d))

/-- what happens to one row of the table -/
def restoreRow (cfg : RouteCfg) (dflt : Lut K) (p : String × PRow K) : Option (String × PRow K) :=
  match dflt.find? p.1 with
  | some d =>
    some (p.1, ⟨if keepsRow cfg p.2.e d then p.2.e else d, cfg.dfltRowCanon.apply p.2.canon⟩)
  | none =>
    if cfg.keepsAdded then some (p.1, ⟨p.2.e, cfg.userRowCanon.apply p.2.canon⟩) else none

/-- the default symbols that are missing from the table and come back on load
    (`_correct_old_unit_registry`, `UnitRegistry(lut=…)` with `add_default_symbols`) -/
def resurrected (cfg : RouteCfg) (dflt : Lut K) (t : PLut K) : PLut K :=
  if cfg.keepsRemoved then []
  else (dflt.filter fun p => !(t.hasKey p.1)).map fun p => (p.1, ⟨p.2, true⟩)

/-- what the route does to the identity bit of one row (rows keyed by a default symbol / user rows) -/
def rowCanonEff (cfg : RouteCfg) (dflt : Lut K) (p : String × PRow K) : Bool :=
  match dflt.find? p.1 with
  | some _ => cfg.dfltRowCanon.apply p.2.canon
  | none => cfg.userRowCanon.apply p.2.canon

/-- the table of the restored object's registry.  On a route that shares the `lut` dict the rows are
    the original's; their identity bits still follow the route's effect (`copy.copy(registry)` goes
    through `UnitRegistry.__setstate__`, which re-interns the rows of the SHARED table in place) -/
def restoreRows (cfg : RouteCfg) (dflt : Lut K) (t : PLut K) : PLut K :=
  if cfg.regSame then t.map fun p => (p.1, ⟨p.2.e, rowCanonEff cfg dflt p⟩)
  else t.filterMap (restoreRow cfg dflt) ++ resurrected cfg dflt t

def restoreReg (cfg : RouteCfg) (dflt : Lut K) (R : PReg K) : PReg K :=
  ⟨restoreRows cfg dflt R.rows, if cfg.regSame || cfg.keepsUnitSystem then R.usys else "mks"⟩

/-- `str(unit)` is one of the two display names the parser cannot read back -/
def isDeltaDisplay (u : UnitV K) : Bool :=
  match UnitV.atomName u with
  | some s => s == "delta_degC" || s == "delta_degF"
  | none => false

/-- the unit of the restored object, given the restored registry -/
def restoreUnit (cfg : RouteCfg) (pre : Prefixes K) (R' : PReg K) (u : UnitV K) : Except Err (UnitV K) :=
  if cfg.unitSame then .ok u
  else if cfg.unitByDisplayStr && isDeltaDisplay u then .error .UnitParseError
  else if cfg.unitDataCarried then .ok { u with canon := cfg.unitCanon.apply u.canon }
  else unitFromReg pre R' u.expr

/-- persist on a route with configuration `cfg`, load back -/
def restore (cfg : RouteCfg) (pre : Prefixes K) (dflt : Lut K) (x : PObj K) : Except Err (PObj K) :=
  let R' := restoreReg cfg dflt x.reg
  match restoreUnit cfg pre R' x.unit with
  | .error e => .error e
  | .ok u =>
    .ok { vals := if cfg.keepsValues then x.vals else [],
          dtype := if cfg.keepsDtype then x.dtype else "float64",
          isQuantity := if cfg.keepsClass then x.isQuantity else false,
          unit := u, reg := R' }

/-! ## the guard under which the round trip is exact -/

/-- the equality tests the guard is evaluated with: `decide (· = ·)` at a lawful carrier, the bit
    patterns at `Float` (the theorems ask only that a positive answer means equality) -/
structure EqTests (K : Type) where
  entry : Entry K → Entry K → Bool
  unit : UnitV K → UnitV K → Bool

/-- every row comes back as it was, and nothing comes back that was not there -/
def rowsGuard (E : EqTests K) (cfg : RouteCfg) (dflt : Lut K) (t : PLut K) : Bool :=
  if cfg.regSame then t.all fun p => rowCanonEff cfg dflt p == p.2.canon
  else
  (t.all (fun p =>
      match dflt.find? p.1 with
      | some d => (keepsRow cfg p.2.e d || E.entry p.2.e d) && cfg.dfltRowCanon.apply p.2.canon == p.2.canon
      | none => cfg.keepsAdded && cfg.userRowCanon.apply p.2.canon == p.2.canon)
    && (cfg.keepsRemoved || dflt.all fun p => t.hasKey p.1))

def regGuard (E : EqTests K) (cfg : RouteCfg) (dflt : Lut K) (R : PReg K) : Bool :=
  rowsGuard E cfg dflt R.rows && (cfg.regSame || cfg.keepsUnitSystem || R.usys == "mks")

/-- the unit comes back as it was: same object; or carried with its identity status kept; or
    recomputed and the object IS what its registry resolves its expression to (not a unit created
    before a `modify`, expression in normal form) — and its name is readable -/
def unitGuard (E : EqTests K) (cfg : RouteCfg) (pre : Prefixes K) (R : PReg K) (u : UnitV K) : Bool :=
  cfg.unitSame ||
  (!(cfg.unitByDisplayStr && isDeltaDisplay u) &&
    (if cfg.unitDataCarried then cfg.unitCanon.apply u.canon == u.canon
     else match unitFromReg pre R u.expr with
       | .ok v => E.unit v u
       | .error _ => false))

def restoreGuard (E : EqTests K) (cfg : RouteCfg) (pre : Prefixes K) (dflt : Lut K) (x : PObj K) : Bool :=
  (cfg.keepsValues || x.vals.isEmpty) && (cfg.keepsDtype || x.dtype == "float64")
    && (cfg.keepsClass || !x.isQuantity) && regGuard E cfg dflt x.reg && unitGuard E cfg pre x.reg x.unit

/-! ## follow-up operations: functions of the state -/

/-- everything a follow-up reads besides the object itself (module-level tables; the numeric
    kernels are a parameter) -/
structure FCtx (K : Type) where
  T : Ufunc.Tables
  pre : Prefixes K
  ueq : UnitV K → UnitV K → Bool
  simp : UnitV K → K × UnitV K
  em : EmTable K
  systems : List (USys K)
  /-- the numeric kernel of a unary ufunc -/
  kern : String → K → K

/-- the dispatcher's context for an object: the object's OWN registry table -/
def FCtx.ufunc (C : FCtx K) (R : PReg K) : Ufunc.Ctx K :=
  { T := C.T, pre := C.pre, lut := R.rows.lut, ueq := C.ueq, simp := C.simp }

/-- `repr(unit)` as far as the dispatcher inspects it (`"K"`, `"R"`, `"degC"`, `delta_…`): the symbol
    of an atomic unit, the factor list otherwise (never equal to one of those names) -/
def reprOf (u : UnitV K) : String :=
  match UnitV.atomName u with
  | some s => s
  | none => Factors.str (UExpr.normF u.expr.factors)

def PObj.operand (x : PObj K) : Ufunc.Operand K :=
  .unyt (if x.isQuantity then .quantity else .array) ⟨x.unit, reprOf x.unit⟩
    { shape := if x.isQuantity then [] else [x.vals.length], allZero := x.vals.all (· == 0) }

/-- the follow-up operations of the battery -/
inductive FollowOp (K : Type)
  /-- `np.<f>(x)` for a unary ufunc (`sin`, `cos`, `tan`, …, also `sqrt`, `negative`) -/
  | unary (f : String)
  /-- `np.<f>(x, unyt_quantity(v, e, registry=x.units.registry))` (`add`, `subtract`, `multiply`, `less`, …) -/
  | binaryQ (f : String) (e : UExpr K) (v : K)
  /-- `np.<f>(x, x)` -/
  | binarySelf (f : String)
  /-- `x.units * Unit(e, registry=…)` -/
  | mulUnit (e : UExpr K)
  /-- `x.units ** p` -/
  | powUnit (p : Rat)
  /-- `x.in_base(sys)`; `none` = `x.in_base()` — the registry's own unit system -/
  | inBase (sys : Option String)
  /-- `x.to(Unit(e, registry=x.units.registry))` -/
  | toUnit (e : UExpr K)

/-- what comes back: numbers and a unit (`none` = a plain ndarray / bool array) -/
structure Res (K : Type) where
  vals : List K
  unit : Option (UnitV K)
deriving Repr

/-- run one ufunc call of the dispatcher model on the object and read the outcome off -/
def viaDispatch (C : FCtx K) (x : PObj K) (f : String) (inputs : List (Ufunc.Operand K))
    (num : Ufunc.Outcome K → K → K) : Except Err (Res K) :=
  let call : Ufunc.Call K :=
    { ufunc := f, inputs := inputs, kernelShape := if x.isQuantity then [] else [x.vals.length] }
  match (Ufunc.dispatch (C.ufunc x.reg) call).result with
  | .error e => .error e
  | .ok o => .ok ⟨x.vals.map (num o), o.unit⟩

/-- one follow-up operation on the object `x` — a function of `C`, the operation and `x` only -/
def follow (C : FCtx K) (op : FollowOp K) (x : PObj K) : Except Err (Res K) :=
  match op with
  | .unary f =>
    -- `inp.in_units("radian")` for a trigonometric function of an angle: the dispatcher model records
    -- that (and by which factor) the operand is converted; the numbers also take the offset (lat, lon)
    let toRad : K → K :=
      match Ufunc.tableUnit x.reg.rows.lut "rad" with
      | none => fun v => v
      | some rad =>
        match getConversionFactor C.pre x.reg.rows.lut x.unit rad with
        | .ok fo => applyFactor fo
        | .error _ => fun v => v
    viaDispatch C x f [x.operand] fun o v =>
      C.kern f (match o.factor with | some _ => toRad v | none => v) * o.mul
  | .binaryQ f e v =>
    match unitFromReg C.pre x.reg e with
    | .error err => .error err
    | .ok u1 =>
      viaDispatch C x f [x.operand, .unyt .quantity ⟨u1, reprOf u1⟩ { shape := [], allZero := v == 0 }]
        fun o a => ((match o.factorFirst with | some k => a * k | none => a)
                      + (match o.factor with | some k => v * k | none => v)) * o.mul
  | .binarySelf f =>
    viaDispatch C x f [x.operand, x.operand] fun o a => (a + a) * o.mul
  | .mulUnit e =>
    match unitFromReg C.pre x.reg e with
    | .error err => .error err
    | .ok u1 => (x.unit.mul u1).map fun u => ⟨x.vals, some u⟩
  | .powUnit p => (x.unit.pow p).map fun u => ⟨x.vals, some u⟩
  | .inBase sys =>
    let name := sys.getD x.reg.usys
    match C.systems.find? (·.name == name) with
    | none => .error .KeyError
    | some S =>
      match inBase C.pre x.reg.rows.lut C.em S x.unit 0 with
      | .error e => .error e
      | .ok (_, u) =>
        .ok ⟨x.vals.map (fun v =>
               match inBase C.pre x.reg.rows.lut C.em S x.unit v with
               | .ok (y, _) => y
               | .error _ => v),
             some { u with canon := exprCanon C.pre x.reg.rows u.expr }⟩
  | .toUnit e =>
    match unitFromReg C.pre x.reg e with
    | .error err => .error err
    | .ok target =>
      match getConversionFactor C.pre x.reg.rows.lut x.unit target with
      | .error err => .error err
      | .ok fo => .ok ⟨x.vals.map (applyFactor fo), some target⟩

/-- the object a result is, for the next step of a program -/
def Res.toObj (x : PObj K) (r : Res K) : Except Err (PObj K) :=
  match r.unit with
  | some u => .ok { x with vals := r.vals, unit := u }
  | none => .error .Other

/-- a program: operations applied one after the other to the running object, then a last one
    whose result is the outcome -/
def runProg (C : FCtx K) : List (FollowOp K) → FollowOp K → PObj K → Except Err (Res K)
  | [], last, x => follow C last x
  | op :: ops, last, x =>
    match follow C op x with
    | .error e => .error e
    | .ok r =>
      match r.toObj x with
      | .error e => .error e
      | .ok y => runProg C ops last y

/-! ## which follow-ups look at the identity bit -/

def Dim.isBase3 (d : Dim) : Bool := d == Dim.dAngle || d == Dim.dTemperature || d == Dim.dLogarithmic

/-- forget the identity status of the object's own unit (what pickle / deepcopy do) -/
def PObj.loseCanon (x : PObj K) : PObj K := { x with unit := { x.unit with canon := false } }

/-- the configuration that differs from `cfg` only in keeping every identity bit -/
def keepIdentity (cfg : RouteCfg) : RouteCfg :=
  { cfg with unitCanon := .keep, userRowCanon := .keep, dfltRowCanon := .keep }

/-- the state with every identity bit set aside (unit and rows) -/
def eraseRow (p : String × PRow K) : String × PRow K := (p.1, { p.2 with canon := true })
def PReg.erase (R : PReg K) : PReg K := { R with rows := R.rows.map eraseRow }
def PObj.erase (x : PObj K) : PObj K :=
  { x with unit := { x.unit with canon := true }, reg := x.reg.erase }

/-- the unit, as far as equality of units / outcomes goes (identity status set aside) -/
def UnitV.noCanon (u : UnitV K) : UnitV K := { u with canon := true }

def Res.noCanon (r : Res K) : Res K := ⟨r.vals, r.unit.map UnitV.noCanon⟩

end

/-- the tests at a carrier with decidable equality -/
def EqTests.decide (K : Type) [DecidableEq K] : EqTests K :=
  ⟨fun a b => Decidable.decide (a = b), fun a b => Decidable.decide (a = b)⟩

/-- the tests the driver runs at `Float`: bit patterns -/
def EqTests.float : EqTests Float :=
  ⟨fun a b => a.scale.toBits == b.scale.toBits && a.offset.toBits == b.offset.toBits && a.dim == b.dim
      && a.prefixable == b.prefixable,
   fun a b => a.scale.toBits == b.scale.toBits && a.offset.toBits == b.offset.toBits && a.dim == b.dim
      && a.canon == b.canon && a.expr.coeff.toBits == b.expr.coeff.toBits && a.expr.factors == b.expr.factors⟩

end Unyt.Persist
