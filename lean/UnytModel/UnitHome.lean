/-
  UnytModel.UnitHome — `Unit` OBJECTS as mutable heap objects that point at a registry (C13).

  A `Unit` carries its registry in the plain attribute `registry`; unit objects are SHARED: a registry's
  `_unit_object_cache` hands the same object to everybody who asks for the same string
  (`Unit.__new__`: `if unit_expr in registry._unit_object_cache: return …`), and the names exported by
  the `unyt` namespace (`unyt.m`, `unyt.km`, …) are objects held in the default registry's cache.
  "Which registry does this unit resolve through" is therefore state that an assignment to
  `unit.registry` changes for every holder of the object.

  Models
    unyt/unit_object.py  `Unit.__new__` — string branch (cache hit: the cached object; miss: a new object
                         of the given registry, stored under the string), explicit-data branch used by
                         `__mul__/__truediv__` (`registry=self.registry`, a new object)
    unyt/array.py        `unyt_array.__new__` — `bypass_validation=True`: `obj.units = units` and
                         `if registry is not None: obj.units.registry = registry` (an assignment on the object
                         it was GIVEN); validated path: `Unit(str(units), registry=registry)` when the
                         registries differ
                         `_sanitize_units_convert` (string → `Unit(s, registry=self.units.registry)`, a Unit
                         object is used as it is), `in_units` / `to` / `convert_to_units` /
                         `unyt_array(x, u)` — the converted data are labelled with the target object itself
    unyt/unit_registry.py `add/modify/remove` empty the string cache

  What the conversion entry points hand to the constructor (`registry=` or not) and whether the fast path
  assigns in place are NOT written here: `Cfg` is regenerated from the live code on every run
  (`tools/extract.d/c13_conv.py` → `Generated/C13Conv.lean`, measured with a recording subclass).
-/
namespace Unyt.UnitHome

/-- functional update -/
def upd {β : Type} (f : Nat → β) (i : Nat) (v : β) : Nat → β := fun j => if j = i then v else f j

/-- the heap of `Unit` objects (addresses `0 … n-1`) and the string caches of the registries -/
structure Heap where
  n : Nat := 0
  /-- the registry object `unit.registry` points at -/
  home : Nat → Nat := fun _ => 0
  /-- the spelling (`str(unit)`) -/
  key : Nat → String := fun _ => ""
  /-- `registry._unit_object_cache`: string → address of the cached object -/
  cache : Nat → List (String × Nat) := fun _ => []

structure Cfg where
  /-- per conversion entry point: the constructor call that labels the converted data is given
      `registry=<the data's registry>` together with `bypass_validation=True` -/
  passes : String → Bool
  /-- the fast path of `unyt_array.__new__` implements `registry=` as `obj.units.registry = registry` -/
  fastAssigns : Bool
  /-- per conversion entry point: a target unit OBJECT of another registry is not used as the label; the data
      are labelled with a NEW unit (same spelling) of the data's registry (the candidate repair
      `fixes/C13-02-…`; `false` for every entry point of the unrepaired library) -/
  relabels : String → Bool

inductive Target where
  /-- the target was written as a string -/
  | str (s : String)
  /-- the target is the `Unit` object at this address -/
  | obj (a : Nat)
deriving DecidableEq, Repr

inductive HOp where
  /-- `Unit(s, registry=r)` -/
  | lookup (r : Nat) (s : String)
  /-- an edit through `r` (`add/modify/remove`): its string cache is emptied -/
  | clear (r : Nat)
  /-- `u_x * u_y` (`/`): `Unit(expr, …, registry=self.registry)`, a new object -/
  | arith (x y : Nat) (key : String)
  /-- user-level `unyt_array(values, u, registry=reg, bypass_validation=bypass)` -/
  | construct (u : Nat) (reg : Option Nat) (bypass : Bool)
  /-- `data.ep(target)` where the data's unit is the object at `x` -/
  | convert (ep : String) (x : Nat) (t : Target)
deriving DecidableEq, Repr

/-- a new object -/
def alloc (h : Heap) (key : String) (home : Nat) : Heap × Nat :=
  ({ h with n := h.n + 1, home := upd h.home h.n home, key := upd h.key h.n key }, h.n)

def find (c : List (String × Nat)) (s : String) : Option Nat :=
  match c with
  | [] => none
  | (k, a) :: rest => if k = s then some a else find rest s

/-- unit_object.py `Unit.__new__`, string branch -/
def lookup (h : Heap) (r : Nat) (s : String) : Heap × Nat :=
  match find (h.cache r) s with
  | some a => (h, a)
  | none =>
    let c := (s, h.n) :: h.cache r
    ({ n := h.n + 1, home := upd h.home h.n r, key := upd h.key h.n s, cache := upd h.cache r c }, h.n)

/-- array.py `unyt_array.__new__` given the unit object at `u`: the address of the unit the array carries -/
def construct (cfg : Cfg) (h : Heap) (u : Nat) (reg : Option Nat) (bypass : Bool) : Heap × Nat :=
  match reg with
  | none => (h, u)
  | some g =>
    if bypass then
      (if cfg.fastAssigns then { h with home := upd h.home u g } else h, u)
    else if g = h.home u then (h, u)
    else lookup h g (h.key u)

/-- array.py `_sanitize_units_convert` -/
def sanitize (cfg : Cfg) (ep : String) (h : Heap) (x : Nat) : Target → Heap × Nat
  | .str s => lookup h (h.home x) s
  | .obj a => if cfg.relabels ep && h.home a != h.home x then alloc h (h.key a) (h.home x) else (h, a)

def step (cfg : Cfg) (h : Heap) : HOp → Heap × Nat
  | .lookup r s => lookup h r s
  | .clear r => ({ h with cache := upd h.cache r [] }, 0)
  | .arith x _ key => alloc h key (h.home x)
  | .construct u reg b => construct cfg h u reg b
  | .convert ep x t =>
    let r := sanitize cfg ep h x t
    construct cfg r.1 r.2 (if cfg.passes ep then some (r.1.home x) else none) true

def run (cfg : Cfg) (h : Heap) (ops : List HOp) : Heap := ops.foldl (fun h o => (step cfg h o).1) h

/-- the operation assigns the `registry` attribute of an object that belongs to another registry -/
def writes (cfg : Cfg) (h : Heap) : HOp → Bool
  | .construct u (some g) true => cfg.fastAssigns && g != h.home u
  | .convert ep x (.obj a) => cfg.passes ep && cfg.fastAssigns && !cfg.relabels ep && h.home x != h.home a
  | _ => false

/-- every address the operation mentions is allocated -/
def HOp.InRange (h : Heap) : HOp → Prop
  | .lookup _ _ => True
  | .clear _ => True
  | .arith x y _ => x < h.n ∧ y < h.n
  | .construct u _ _ => u < h.n
  | .convert _ x (.obj a) => x < h.n ∧ a < h.n
  | .convert _ x (.str _) => x < h.n

/-- the user-level constructor with BOTH `registry=` and `bypass_validation=True` (documented as skipping
    every check) is the one call that is entitled to re-label the unit it is given -/
def HOp.userRehomes : HOp → Bool
  | .construct _ (some _) true => true
  | _ => false

/-- every registry's string cache hands out units of that registry -/
def Homed (h : Heap) : Prop := ∀ r s a, find (h.cache r) s = some a → a < h.n ∧ h.home a = r

end Unyt.UnitHome
