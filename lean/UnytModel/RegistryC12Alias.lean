/-
  UnytModel.RegistryC12Alias — several registry OBJECTS over shared containers.

  `Unit.copy()` (unit_object.py) builds its result with `copy.copy(self.registry)`: a SHALLOW copy, a new
  `UnitRegistry` object whose `lut`, `_unit_object_cache` and `_derived_symbols` are the very same
  dict / dict / set objects as the original's, and whose `_unit_system_id` is a private copy of the memo.
  Such copies are made by ordinary calls (`Unit.get_base_equivalent` returns `self.copy()` when the unit
  already is the base unit, hence `in_base()/in_mks()/in_cgs()` of a quantity already in base units).
  Sharing is sound only as long as every method mutates the containers IN PLACE (`d.clear()`, `d[k] = v`,
  `s.discard(k)`); a method that REBINDS an attribute (`self._derived_symbols = set()`,
  `self._unit_object_cache = {}`) silently separates the objects: a write-back made through one object is
  then recorded where the other object's edits never look.

  The model: a heap of cache cells and derived-set cells, registry handles that point into it, the one
  table (`lut`: no method of the class assigns `self.lut` — translator obligation) and the one object
  heap.  A call through handle `i` is the single-registry step `RegC12.step` on the handle's VIEW of the
  heap; what it leaves behind is stored in place or in a newly allocated cell according to `ACfg`.
-/
import UnytModel.RegistryC12

namespace Unyt.RegC12
open Unyt

/-- how `add` / `modify` / `remove` empty the two private containers (regenerated from the live source) -/
structure ACfg where
  /-- `_forget_derived_symbols` empties the set in place (`.clear()`); `false`: every edit rebinds
      `self._derived_symbols` to a new set (the old set object keeps its elements) -/
  derivedInPlace : Bool
  /-- a successful edit empties `_unit_object_cache` in place (`.clear()`); `false`: it rebinds the
      attribute to a new dict (the old dict keeps its `Unit` objects) -/
  cacheInPlace : Bool
deriving DecidableEq, Repr

/-- every container is mutated in place: all shallow copies stay attached to the same three containers -/
def ACfg.shared : ACfg := ⟨true, true⟩

/-- a `UnitRegistry` object: references to its cache dict and its derived set, and its own memo -/
structure Handle (K : Type) where
  cacheRef : Nat
  dsetRef : Nat
  idMemo : Option (Lut K)
  memoStale : Bool

/-- the first registry object of a session / an object attached to the first containers -/
def Handle.first {K : Type} : Handle K := ⟨0, 0, none, false⟩

structure AState (K : Type) where
  /-- the one table all objects of the family share -/
  lut : Lut K
  /-- every `Unit` object handed out -/
  objs : List (UnitD K)
  /-- heap of `_unit_object_cache` dicts -/
  caches : Nat → List (String × Nat)
  /-- heap of `_derived_symbols` sets -/
  dsets : Nat → List String
  /-- next free cell -/
  next : Nat
  /-- the registry objects, in creation order (`0` is the registry the session started with) -/
  handles : List (Handle K)

/-- a call on a registry object, or `copy.copy(registry)` (what `Unit.copy()` does) -/
inductive AOp (K : Type) where
  | call (h : Nat) (op : Op K)
  | copy (h : Nat)

/-- the history as the single registry of `RegC12.step` sees it: copies are no calls, the handle is forgotten -/
def AOp.erase {K : Type} : AOp K → Option (Op K)
  | .call _ op => some op
  | .copy _ => none

def eraseH {K : Type} (h : List (AOp K)) : List (Op K) := h.filterMap AOp.erase

/-- `f[i] := v` -/
def upd {α : Type} (f : Nat → α) (i : Nat) (v : α) : Nat → α := fun j => if j = i then v else f j

section
variable {K : Type} [Mul K] [OfNat K 1] [OfNat K 0] [RPow K]

/-- the registry object number `i` (an index beyond the objects made so far: an object attached to the
    first containers) -/
def AState.handle (st : AState K) (i : Nat) : Handle K := st.handles.getD i Handle.first

/-- what a registry object sees: the shared table and object heap, ITS cache dict, ITS derived set, ITS memo -/
def AState.view (st : AState K) (hd : Handle K) : RegState K :=
  ⟨st.lut, st.caches hd.cacheRef, st.objs, hd.idMemo, st.dsets hd.dsetRef, hd.memoStale⟩

/-- one call `op` on registry object `i`: `RegC12.step` on the object's view; the resulting cache / derived
    set is stored in place, or — when the edit rebinds the attribute — in a new cell that only this object
    refers to, the old cell keeping what it held (`_forget_derived_symbols` is the first statement of every
    edit, refused or not; the cache is emptied by the last statement of a successful edit) -/
def astep (acfg : ACfg) (cfg : Cfg) (pre : Prefixes K) (parse : String → Except Err (PExpr K))
    (st : AState K) (i : Nat) (op : Op K) : AState K × Out K :=
  let hd := st.handle i
  let r := step cfg pre parse (st.view hd) op
  let s' := r.1
  let rebD := op.isEdit && !acfg.derivedInPlace
  let rebC := op.isEdit && !acfg.cacheInPlace && (match r.2 with | .done => true | _ => false)
  let dref := if rebD then st.next else hd.dsetRef
  let n1 := if rebD then st.next + 1 else st.next
  let cref := if rebC then n1 else hd.cacheRef
  let n2 := if rebC then n1 + 1 else n1
  ({ lut := s'.lut, objs := s'.objs,
     caches := upd st.caches cref s'.cache,
     dsets := upd st.dsets dref s'.derived,
     next := n2,
     handles := st.handles.set i ⟨cref, dref, s'.idMemo, s'.memoStale⟩ }, r.2)

/-- `copy.copy(registry)`: a new object with the same references and a copy of the memo -/
def acopy (st : AState K) (i : Nat) : AState K :=
  { st with handles := st.handles ++ [st.handle i] }

def astepOp (acfg : ACfg) (cfg : Cfg) (pre : Prefixes K) (parse : String → Except Err (PExpr K))
    (st : AState K) : AOp K → AState K
  | .call i op => (astep acfg cfg pre parse st i op).1
  | .copy i => acopy st i

/-- the state after a history of calls on, and copies of, registry objects -/
def arun (acfg : ACfg) (cfg : Cfg) (pre : Prefixes K) (parse : String → Except Err (PExpr K))
    (st : AState K) (h : List (AOp K)) : AState K :=
  h.foldl (astepOp acfg cfg pre parse) st

/-- one new registry whose table is exactly `c` -/
def afresh (c : Lut K) : AState K := ⟨c, [], fun _ => [], fun _ => [], 1, [Handle.first]⟩

end

end Unyt.RegC12
