/-
  UnytModel.NumLitC02 — what a NUMBER token of a unit string is worth (C02: numeric coefficients
  and numeric exponents of unit expressions).

  Models the number pipeline of the string path of `Unit.__new__`:

    unyt/_parsing.py            unit_text_transform = (_auto_positive_symbol, auto_number, rationalize)
    sympy.parsing.sympy_parser  auto_number   — the decision `Float('<tok>')` versus `Integer(<tok>)`:
                                                `'.' in tok or (('e' in tok or 'E' in tok) and not tok.startswith(('0x','0X')))`
                                rationalize   — `Float('<tok>')` is renamed `Rational('<tok>')`
    sympy Rational(str)         fractions.Fraction(str): the exact decimal value of the spelling
                                (`_` digit separators skipped, `e`/`E` exponent with optional sign)
    Python int literals         decimal / 0x / 0o / 0b with `_` separators (`Integer(<tok>)` is
                                evaluated by Python)

  `tokenValue : List Char → Option Rat` is the value the coefficient gets; it is run by the driver
  (`c02.numlit`) on every generated spelling and compared with what `parse_unyt_expr` returns, and
  cross-checked against the tokenizer model of C20 (`Parse.lexNumber`).  Which strings ARE number
  tokens (no `1__0`, no `007`, no `1e`) is the tokenizer's business (C20); this file gives the
  value of a token.  `none` = "not a spelling this model gives a value to".

  The structured literal `DecLit` (digits, optional point, optional exponent part with either
  marker and any sign) and its `render`/`spec` are the vocabulary of the theorems in
  `UnytProofs/C02Num.lean`: every rendered literal is worth exactly what it spells.
-/

namespace Unyt
namespace NumLit

def natToRat (n : Nat) : Rat := ((n : Int) : Rat)

/-- `m × 10^e` exactly -/
def pow10 (m : Nat) (e : Int) : Rat :=
  if e ≥ 0 then natToRat (m * 10 ^ e.toNat) else natToRat m / natToRat (10 ^ e.natAbs)

/-! ### characters -/

def decVal (c : Char) : Option Nat :=
  if 48 ≤ c.toNat ∧ c.toNat ≤ 57 then some (c.toNat - 48) else none

def hexVal (c : Char) : Option Nat :=
  if 48 ≤ c.toNat ∧ c.toNat ≤ 57 then some (c.toNat - 48)
  else if 97 ≤ c.toNat ∧ c.toNat ≤ 102 then some (c.toNat - 87)
  else if 65 ≤ c.toNat ∧ c.toNat ≤ 70 then some (c.toNat - 55) else none

def octVal (c : Char) : Option Nat := if 48 ≤ c.toNat ∧ c.toNat ≤ 55 then some (c.toNat - 48) else none
def binVal (c : Char) : Option Nat := if c = '0' then some 0 else if c = '1' then some 1 else none

/-- value of a run of digits in `base`; the digit separator `_` is skipped; any other
    character makes it `none` -/
def digitsValue (dv : Char → Option Nat) (base : Nat) : List Char → Nat → Option Nat
  | [], acc => some acc
  | c :: cs, acc =>
    if c = '_' then digitsValue dv base cs acc
    else match dv c with
      | some d => digitsValue dv base cs (acc * base + d)
      | none => none

def countDigits (cs : List Char) : Nat := (cs.filter fun c => c ≠ '_').length

/-- split at the first character satisfying `p` (which is dropped): `(before, some after)`,
    or `(all, none)` when there is none -/
def splitAt? (p : Char → Bool) : List Char → List Char × Option (List Char)
  | [] => ([], none)
  | c :: cs => if p c then ([], some cs) else ((c :: (splitAt? p cs).1), (splitAt? p cs).2)

def isExpMarker (c : Char) : Bool := c = 'e' || c = 'E'
def isPoint (c : Char) : Bool := c = '.'

/-! ### `Rational('<tok>')`: the exact decimal value -/

/-- `[+-]?digits` after the exponent marker -/
def signedExp (cs : List Char) : Option Int :=
  match cs with
  | c :: r =>
    if c = '-' then (digitsValue decVal 10 r 0).map fun n => -(n : Int)
    else if c = '+' then (digitsValue decVal 10 r 0).map fun n => (n : Int)
    else (digitsValue decVal 10 cs 0).map fun n => (n : Int)
  | [] => none

/-- `fractions.Fraction('<int>.<frac>[eE][+-]<exp>')`: all mantissa digits as one integer, times
    ten to the written exponent minus the number of fraction digits.  The exponent marker is
    looked for in either case. -/
def decimalValue (cs : List Char) : Option Rat :=
  let me := splitAt? isExpMarker cs
  let ipfp := splitAt? isPoint me.1
  let fr := ipfp.2.getD []
  match digitsValue decVal 10 (ipfp.1 ++ fr) 0, (match me.2 with | none => some 0 | some r => signedExp r) with
  | some m, some e => some (pow10 m (e - countDigits fr))
  | _, _ => none

/-! ### `Integer(<tok>)`: Python's integer literals -/

def intLiteral (cs : List Char) : Option Nat :=
  match cs with
  | a :: c :: r =>
    if a = '0' ∧ (c = 'x' ∨ c = 'X') then digitsValue hexVal 16 r 0
    else if a = '0' ∧ (c = 'o' ∨ c = 'O') then digitsValue octVal 8 r 0
    else if a = '0' ∧ (c = 'b' ∨ c = 'B') then digitsValue binVal 2 r 0
    else digitsValue decVal 10 cs 0
  | _ => digitsValue decVal 10 cs 0

/-! ### sympy's `auto_number` decision and the value of the token -/

inductive NumClass | float | integer
deriving DecidableEq, Repr

def NumClass.str : NumClass → String
  | .float => "float" | .integer => "integer"

/-- `c in tok` -/
def hasChar (c : Char) (cs : List Char) : Bool := cs.any (· == c)

/-- `tok.startswith((p₁, p₂, …))` — used by the test regenerated from the live source
    (`Generated.c02AutoNumberIsFloat`) -/
def startsWithAny (ps : List (List Char)) (cs : List Char) : Bool := ps.any fun p => p.isPrefixOf cs

/-- `tok.startswith(('0x', '0X'))` -/
def startsHex (cs : List Char) : Bool :=
  match cs with
  | a :: c :: _ => a == '0' && (c == 'x' || c == 'X')
  | _ => false

/-- sympy `auto_number`: `'.' in tok or (('e' in tok or 'E' in tok) and not tok.startswith(('0x','0X')))`
    → `Float('<tok>')` (which `rationalize` renames `Rational('<tok>')`), else `Integer(<tok>)` -/
def autoNumberClass (cs : List Char) : NumClass :=
  if hasChar '.' cs || ((hasChar 'e' cs || hasChar 'E' cs) && !startsHex cs) then .float else .integer

/-- the number a NUMBER token contributes to the unit expression -/
def tokenValue (cs : List Char) : Option Rat :=
  match autoNumberClass cs with
  | .float => decimalValue cs
  | .integer => (intLiteral cs).map natToRat

/-! ### structured decimal literals: the vocabulary of the theorems -/

def digitChar (d : Fin 10) : Char := Char.ofNat (48 + d.val)

def renderDigits (ds : List (Fin 10)) : List Char := ds.map digitChar

/-- digits, most significant first -/
def ofDigits (ds : List (Fin 10)) : Nat := ds.foldl (fun a d => a * 10 + d.val) 0

/-- `[eE][+-]?digits` -/
structure ExpPart where
  upper : Bool
  /-- `none`: no sign written; `some false`: `+`; `some true`: `-` -/
  sign : Option Bool
  digits : List (Fin 10)
deriving Repr

def ExpPart.signChars (x : ExpPart) : List Char :=
  match x.sign with | none => [] | some false => ['+'] | some true => ['-']

def ExpPart.marker (x : ExpPart) : Char := if x.upper then 'E' else 'e'

def ExpPart.render (x : ExpPart) : List Char := x.marker :: (x.signChars ++ renderDigits x.digits)

def ExpPart.value (x : ExpPart) : Int :=
  match x.sign with
  | some true => -((ofDigits x.digits : Nat) : Int)
  | _ => ((ofDigits x.digits : Nat) : Int)

/-- `intDs[.fracDs][(e|E)[+-]digits]` — `12`, `2.5`, `5.`, `.5`, `1e3`, `25E-1`, `1.5e-3` -/
structure DecLit where
  intDs : List (Fin 10)
  dot : Bool
  fracDs : List (Fin 10)
  exp : Option ExpPart
deriving Repr

/-- the fraction digits that are written (none without a point) -/
def DecLit.frac (l : DecLit) : List (Fin 10) := if l.dot then l.fracDs else []

def DecLit.pointPart (l : DecLit) : List Char := if l.dot then '.' :: renderDigits l.fracDs else []

def DecLit.expPart (l : DecLit) : List Char := match l.exp with | none => [] | some x => x.render

def DecLit.render (l : DecLit) : List Char := renderDigits l.intDs ++ (l.pointPart ++ l.expPart)

def DecLit.expValue (l : DecLit) : Int := match l.exp with | none => 0 | some x => x.value

/-- what the literal spells: (all mantissa digits) × 10^(exponent − number of fraction digits) -/
def DecLit.spec (l : DecLit) : Rat :=
  pow10 (ofDigits (l.intDs ++ l.frac)) (l.expValue - (l.frac.length : Nat))

/-- the same literal with the other spelling of the exponent marker -/
def DecLit.flipMarker (l : DecLit) : DecLit :=
  { l with exp := l.exp.map fun x => { x with upper := !x.upper } }

end NumLit
end Unyt
