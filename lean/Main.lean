import UnytModel.Driver
open Unyt

def main : IO Unit := do
  let stdin ← IO.getStdin
  let stdout ← IO.getStdout
  loop stdin stdout {}
