import UnytModel.Driver
open Unyt

def main : IO Unit := runDriver baseHandlers
