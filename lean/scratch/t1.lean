import UnytModel.Testing
namespace Unyt.Testing

theorem broadcast2_map {α β γ δ : Type} (g : α → γ) (f : β → δ) (a : List α) (b : List β) :
    broadcast2 (a.map g) (b.map f)
      = (broadcast2 a b).map (fun ps => ps.map (fun p => (g p.1, f p.2))) := by
  match a, b with
  | [x], b => simp [broadcast2, List.map_map, Function.comp_def]
  | [], [y] => simp [broadcast2]
  | x1 :: x2 :: xs, [y] => simp [broadcast2, List.map_map, Function.comp_def]
  | [], [] => simp [broadcast2]
  | [], y1 :: y2 :: ys => simp [broadcast2]
  | x1 :: x2 :: xs, [] => simp [broadcast2]
  | x1 :: x2 :: xs, y1 :: y2 :: ys =>
    simp only [broadcast2, List.map, List.length_cons, List.length_map]
    split <;> simp [List.zip_map, List.map_map, Function.comp_def]
end Unyt.Testing
