import UnytModel.Testing
open Unyt Unyt.Testing
deriving instance DecidableEq for Except
def L : Dim := Dim.dLength
example : allcloseQ false (⟨[1], true, ⟨1, 0, L⟩⟩ : Qty Rat) ⟨[150], true, ⟨1/100, 0, L⟩⟩ (.bare 0) (.bare (6/10)) = .ok true := by decide +kernel
example : allcloseHandler (.qty (⟨[1], true, ⟨1, 0, Dim.one⟩⟩ : Qty Rat)) (.qty ⟨[1], true, ⟨1/100, 0, Dim.one⟩⟩) 0 0 = .ok true := by decide +kernel
