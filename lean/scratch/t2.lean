import Mathlib.Algebra.Order.Field.Basic
import Mathlib.Tactic.FieldSimp
import Mathlib.Tactic.Ring
import Mathlib.Tactic.Linarith
import UnytModel.Testing
import UnytModel.Ref.C19

namespace Unyt.Testing
variable {K : Type} [Field K] [LinearOrder K] [IsStrictOrderedRing K]

theorem mabs_eq_abs (x : K) : mabs x = |x| := by
  unfold mabs
  split
  · rw [abs_of_nonneg ‹_›]
  · rw [abs_of_neg (lt_of_not_ge ‹_›)]

theorem absK_eq_abs (x : K) : Ref.absK x = |x| := by
  unfold Ref.absK
  split
  · rw [abs_of_nonneg ‹_›]
  · rw [abs_of_neg (lt_of_not_ge ‹_›)]

/-- the element rule after the code's conversions, against SI magnitudes -/
theorem iscloseElem_conv (sa sd st rt av x y : K) (hsa : 0 < sa) :
    iscloseElem rt (av * (st / sa)) x (y * (sd / sa)) = true ↔
      (Ref.closeSI rt (av * st) (x * sa) (y * sd) ∨ x * sa = y * sd) := by
  have hne : sa ≠ 0 := ne_of_gt hsa
  simp only [iscloseElem, Bool.or_eq_true, decide_eq_true_eq, beq_iff_eq, Ref.closeSI, mabs_eq_abs,
    absK_eq_abs]
  have e1 : |x * sa - y * sd| = |x - y * (sd / sa)| * sa := by
    rw [← abs_of_pos hsa, ← abs_mul, abs_of_pos hsa]; congr 1; field_simp
  have e2 : |y * sd| = |y * (sd / sa)| * sa := by
    rw [← abs_of_pos hsa, ← abs_mul, abs_of_pos hsa]; congr 1; field_simp
  have e3 : av * st + rt * |y * sd| = (av * (st / sa) + rt * |y * (sd / sa)|) * sa := by
    rw [e2]; field_simp
  have e4 : (x * sa = y * sd) ↔ x = y * (sd / sa) := by
    constructor
    · intro h; field_simp; exact h
    · intro h; rw [h]; field_simp
  rw [e1, e3, e4, mul_le_mul_iff_of_pos_right hsa]

end Unyt.Testing
