/-
  C11 — persisted quantities and units come back meaning and behaving the same.

  The model (`UnytModel/Persist.lean`): the persisted state is the numbers (with dtype and class),
  the unit (`UnitV`: expression, scale, offset, dimension and the identity bit `canon` — "the
  dimension object is built from the library's singleton symbols", which the code tests with `is`),
  and the registry (every row of `lut` with its own identity bit, and `unit_system`).
  `restore cfg` persists and loads on a route whose configuration `cfg` (what travels, what is
  rebuilt, what happens to identity) is one row of `Generated.persistRoutes`, regenerated from the
  live code by single-route probes; `follow` / `runProg` are the follow-up operations (the existing
  dispatcher, unit-algebra, unit-system and conversion models applied to that state).

  * `roundtrip_state_eq_partial` — for EVERY configuration, prefix table, default table and object:
    under the decidable guard `restoreGuard` the restored state EQUALS the original, identity bits
    and user rows included.
  * `roundtrip_state_eq_modulo_identity` — the same with the identity bits set aside, under the
    guard of the configuration that keeps them: what is left of the claim for the present pickle /
    deepcopy routes, which lose every identity bit.
  * `behaviour_congr` — every follow-up PROGRAM gives the same outcome on the restored object
    (follow-ups are functions of the state; the theorem is what turns "equal right after loading"
    into "behaves the same afterwards").
  * `identity_loss_pinned_unary / binaryQ / binarySelf / pow / mul / to / inBase` — which follow-ups can tell
    an object whose identity bit was lost: through the whole dispatcher model (`Ufunc.dispatch`:
    unary path, binary path with its dimension check, zero exception, K/R guard, conversion of the
    second operand, rule functions, multiply/divide post-processing, power path) only those whose
    unit has dimension exactly angle / temperature / logarithmic (and since the C11-01 fix no
    route loses the bit: `identity_kept_on_every_route`).
  * `active_routes_classified` — the regenerated table is the hand-written reference
    (kernel-decided over the whole table): a route that stops persisting something, or stops
    re-interning dimension symbols, breaks this obligation.
  * `C11_full`, `C11_counterexample`, and one kernel-decided counterexample per defect class,
    each on a concrete witness that the harness replays on the real code.
-/
import UnytProofs.Lemmas.C11
import UnytProofs.Lemmas.C11Binary
import UnytProofs.Lemmas.C11InBase
import UnytModel.PersistCheck

set_option linter.unusedSectionVars false
set_option linter.unusedVariables false
set_option linter.unusedSimpArgs false

namespace Unyt.C11
open Unyt Unyt.Persist Unyt.Ufunc

section general
variable {K : Type} [Add K] [Sub K] [Mul K] [Div K] [OfNat K 0] [OfNat K 1] [BEq K] [RPow K]

/-- `roundtrip_state_eq`, guarded: on every route (any configuration), for every object, prefix
    table and default table — if the guard holds, the restored state IS the original state:
    numbers, dtype, class, unit scale / offset / dimension / expression AND identity bit, every
    row of the registry table (user-defined and modified default symbols) with its identity bit,
    and the unit system -/
theorem roundtrip_state_eq_partial (E : EqTests K) (hE : LawfulEq E) (cfg : RouteCfg)
    (pre : Prefixes K) (dflt : Lut K) (x : PObj K)
    (h : restoreGuard E cfg pre dflt x = true) : restore cfg pre dflt x = .ok x := by
  simp only [restoreGuard, Bool.and_eq_true, Bool.or_eq_true] at h
  obtain ⟨⟨⟨⟨hv, hd⟩, hc⟩, hr⟩, hu⟩ := h
  have hR := restoreReg_eq E hE cfg dflt x.reg hr
  unfold restore
  simp only [hR, restoreUnit_eq E hE cfg pre x.reg x.unit hu]
  obtain ⟨vals, dtype, isq, unit, reg⟩ := x
  have h1 : (if cfg.keepsValues = true then vals else []) = vals := by
    rcases hv with hv | hv
    · simp [hv]
    · simp only [List.isEmpty_iff] at hv; subst hv; simp
  have h2 : (if cfg.keepsDtype = true then dtype else "float64") = dtype := by
    rcases hd with hd | hd
    · simp [hd]
    · simp only [beq_iff_eq] at hd; subst hd; simp
  have h3 : (if cfg.keepsClass = true then isq else false) = isq := by
    rcases hc with hc | hc
    · simp [hc]
    · simp only [Bool.not_eq_true'] at hc; subst hc; simp
  simp only [h1, h2, h3]

/-- the round trip with the identity bits set aside: on every route, whatever it does to identity,
    the rest of the state comes back under the guard of the identity-keeping configuration -/
theorem roundtrip_state_eq_modulo_identity (E : EqTests K) (hE : LawfulEq E) (cfg : RouteCfg)
    (pre : Prefixes K) (dflt : Lut K) (x : PObj K)
    (h : restoreGuard E (keepIdentity cfg) pre dflt x = true) :
    (restore cfg pre dflt x).map PObj.erase = .ok x.erase := by
  rw [restore_erase, roundtrip_state_eq_partial E hE (keepIdentity cfg) pre dflt x h]
  rfl

/-- what happens to the identity bit of a unit whose data is carried: exactly the route's effect -/
theorem carried_unit_identity (cfg : RouteCfg) (pre : Prefixes K) (dflt : Lut K) (x y : PObj K)
    (hs : cfg.unitSame = false) (hc : cfg.unitDataCarried = true)
    (h : restore cfg pre dflt x = .ok y) :
    y.unit = { x.unit with canon := cfg.unitCanon.apply x.unit.canon } := by
  unfold restore restoreUnit at h
  simp only [hs, hc, Bool.false_eq_true, if_false, if_true] at h
  by_cases hd : (cfg.unitByDisplayStr && isDeltaDisplay x.unit) = true
  · simp [hd] at h
  · have hd' : ¬(cfg.unitByDisplayStr = true ∧ isDeltaDisplay x.unit = true) := by
      simpa [Bool.and_eq_true] using hd
    simp only [Bool.and_eq_true, hd', if_false, Except.ok.injEq] at h
    rw [← h]

/-- `behaviour_congr`: follow-up operations are functions of the state, so when the round trip is
    exact every follow-up PROGRAM — any sequence drawn from the battery — has the same outcome
    (same numbers, same unit, or same refusal) on the restored object as on the original -/
theorem behaviour_congr (E : EqTests K) (hE : LawfulEq E) (cfg : RouteCfg) (pre : Prefixes K)
    (dflt : Lut K) (C : FCtx K) (x y : PObj K)
    (hg : restoreGuard E cfg pre dflt x = true) (hy : restore cfg pre dflt x = .ok y)
    (ops : List (FollowOp K)) (last : FollowOp K) :
    runProg C ops last y = runProg C ops last x := by
  rw [roundtrip_state_eq_partial E hE cfg pre dflt x hg] at hy
  cases hy; rfl

/-! ### which follow-ups can tell that the identity bit was lost -/

/-- the three identity tests of the code read `true` only on a dimension that is exactly angle /
    temperature / logarithmic -/
theorem identity_tests_base3_only (u : UnitV K) (h : Dim.isBase3 u.dim = false) :
    Ufunc.isAngle u = false ∧ Ufunc.isTemperature u = false ∧ UnitV.isLogarithmic u = false := by
  simp only [Dim.isBase3, Bool.or_eq_false_iff] at h
  obtain ⟨⟨h1, h2⟩, h3⟩ := h
  simp [Ufunc.isAngle, Ufunc.isTemperature, UnitV.isLogarithmic, h1, h2, h3]

/-- … and all three read `false` once the identity bit is lost, whatever the dimension -/
theorem identity_tests_after_loss (u : UnitV K) :
    Ufunc.isAngle { u with canon := false } = false ∧ Ufunc.isTemperature { u with canon := false } = false
      ∧ UnitV.isLogarithmic { u with canon := false } = false := by
  simp [Ufunc.isAngle, Ufunc.isTemperature, UnitV.isLogarithmic]

/-- `x.units ** p` cannot tell unless the dimension is logarithmic -/
theorem identity_loss_pinned_pow (C : FCtx K) (x : PObj K) (p : Rat)
    (h : (x.unit.dim == Dim.dLogarithmic) = false) :
    follow C (.powUnit p) x.loseCanon = follow C (.powUnit p) x := by
  simp [follow, PObj.loseCanon, UnitV.pow, UnitV.isLogarithmic, h]

/-- `x.units * Unit(e)` cannot tell unless the dimension is logarithmic -/
theorem identity_loss_pinned_mul (C : FCtx K) (x : PObj K) (e : UExpr K)
    (h : (x.unit.dim == Dim.dLogarithmic) = false) :
    follow C (.mulUnit e) x.loseCanon = follow C (.mulUnit e) x := by
  simp only [follow, PObj.loseCanon]
  cases unitFromReg C.pre x.reg e with
  | error err => rfl
  | ok u1 =>
    simp [UnitV.mul, UnitV.mulOffset, UnitV.isLogarithmic, UnitV.isTempOrAngle, UnitV.isDimensionless, h]

/-- `x.to(unit)` never can: the conversion factor reads scale, offset, dimension and spelling only -/
theorem identity_loss_pinned_to (C : FCtx K) (x : PObj K) (e : UExpr K) :
    follow C (.toUnit e) x.loseCanon = follow C (.toUnit e) x := by
  simp only [follow, PObj.loseCanon]
  cases unitFromReg C.pre x.reg e with
  | error err => rfl
  | ok u1 => rfl

/-- a unary ufunc (trigonometric functions included) cannot tell that the identity bit was lost
    unless the unit's dimension is exactly angle, temperature or logarithmic -/
theorem identity_loss_pinned_unary (C : FCtx K) (x : PObj K) (f : String)
    (h : Dim.isBase3 x.unit.dim = false) :
    (follow C (.unary f) x.loseCanon).map Res.noCanon = (follow C (.unary f) x).map Res.noCanon := by
  simp only [follow, viaDispatch, PObj.loseCanon, PObj.operand, Ufunc.dispatch]
  apply read_off_canon
  · intro o o' hf hff hm; funext v; simp [hf, hff, hm]
  · exact unaryPath_canon (C.ufunc x.reg) _ rfl _ x.unit (reprOf x.unit) _ _ h


/-- a binary ufunc with a quantity taken from the object's registry (`x + 1 degC`, `x < 1 K`,
    `x * 2 m`, …) cannot tell that the identity bit of `x` was lost unless the dimension of `x` is
    exactly angle, temperature or logarithmic -/
theorem identity_loss_pinned_binaryQ (C : FCtx K) (hb : UeqBlindF C) (x : PObj K) (f : String) (e : UExpr K)
    (v : K) (h : Dim.isBase3 x.unit.dim = false) :
    (follow C (.binaryQ f e v) x.loseCanon).map Res.noCanon = (follow C (.binaryQ f e v) x).map Res.noCanon := by
  simp only [follow, PObj.loseCanon]
  cases unitFromReg C.pre x.reg e with
  | error err => rfl
  | ok u1 =>
    simp only [viaDispatch, PObj.operand, Ufunc.dispatch]
    apply read_off_canon
    · intro o o' hf hff hm; funext a; simp [hf, hff, hm]
    · exact binaryPath_rsim (C.ufunc x.reg) (ueqBlind_of C x.reg hb) _ rfl _ _ _ _
        (rsim_lose x.unit (reprOf x.unit) h) (RSim.refl _) _

/-- … nor can a binary ufunc of the object with itself (`x - x`, `x * x`, `x == x`) -/
theorem identity_loss_pinned_binarySelf (C : FCtx K) (hb : UeqBlindF C) (x : PObj K) (f : String)
    (h : Dim.isBase3 x.unit.dim = false) :
    (follow C (.binarySelf f) x.loseCanon).map Res.noCanon = (follow C (.binarySelf f) x).map Res.noCanon := by
  simp only [follow, PObj.loseCanon, viaDispatch, PObj.operand, Ufunc.dispatch]
  apply read_off_canon
  · intro o o' hf hff hm; funext a; simp [hf, hff, hm]
  · exact binaryPath_rsim (C.ufunc x.reg) (ueqBlind_of C x.reg hb) _ rfl _ _ _ _
      (rsim_lose x.unit (reprOf x.unit) h) (rsim_lose x.unit (reprOf x.unit) h) _


/-- `x.in_base(…)` never can tell: the unit-system conversion reads expression, dimension, scale and
    offset of the unit, never the identity bit (and the result's bit comes from the registry rows) -/
theorem identity_loss_pinned_inBase (C : FCtx K) (x : PObj K) (sys : Option String) :
    follow C (.inBase sys) x.loseCanon = follow C (.inBase sys) x := by
  simp only [follow, PObj.loseCanon]
  cases C.systems.find? (fun S => S.name == sys.getD x.reg.usys) with
  | none => rfl
  | some S =>
    exact inBase_follow_aux C.pre x.reg.rows.lut C.em S x.reg.rows x.vals _ x.unit
      (fun v => inBase_blind C.pre x.reg.rows.lut C.em S x.unit false v)


end general

/-! ### the regenerated route table -/

/-- table obligation: the table regenerated from the live code is the hand-written reference.  Any
    route that persists less, more, or differently than written down in `Ref/C11.lean` — e.g. one
    that stops re-interning dimension symbols, or a deep copy that resets modified default symbols
    again — breaks this. -/
theorem active_routes_classified : Generated.persistRoutes = Ref.c11AsIs := by
  decide

/-- pickle protocols 2…HIGHEST behave alike; 0 and 1 are refused by sympy itself (outside unyt) -/
theorem pickle_protocols_uniform :
    Generated.pickleProtocolsAgree = true ∧ Generated.pickleLowProtocolsRefusedBySympy = true := by
  decide

/-- every route has a row in the reference table -/
theorem route_tables_complete :
    Route.all.all (fun r => (Ref.c11AsIs.get r).isSome) = true := by
  decide

/-! ### the full statement (its counterexamples are kernel-decided in `C11Tab.lean` / `C11Tab2.lean`) -/

section full
attribute [local instance] ratPowStub

/-- the full statement for a route table: EVERY object comes back as it was, on every route
    (and then, by `behaviour_congr`, behaves the same) -/
def RoundTripFull (T : RouteTable) : Prop :=
  ∀ r cfg, T.get r = some cfg → ∀ x : PObj Rat, restore cfg qPre qLut x = .ok x

/-- C11 at full strength for the code as it is now -/
def C11_full : Prop := RoundTripFull Generated.persistRoutes

end full

end Unyt.C11
