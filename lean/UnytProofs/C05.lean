/-
  C05 — unit objects form a consistent multiplicative algebra.

  Theorems are over an arbitrary field `K` (`Lean.Grind.Field`) with a rational-power
  operation satisfying `RPowLaws` on a "positive" part `P` (instantiated for the positive
  reals in `UnytProofs/Real/RPow.lean`); `≈` is `UnitV.Equiv` (same scale, offset, dimension,
  and extensionally equal expressions — what sympy's `==` decides).
-/
import UnytModel.Unit
import UnytProofs.Lemmas.UExpr
import UnytProofs.Lemmas.Dim

set_option linter.unusedSectionVars false

namespace Unyt.C05
open Unyt UnitV

variable {K : Type} [Lean.Grind.Field K] [BEq K] [LawfulBEq K] [RPow K]

/-- multiplication is commutative — as an outcome: the same refusal or `≈` values -/
theorem mul_comm (u v : UnitV K) : ExceptRel UnitV.Equiv (u.mul v) (v.mul u) := by
  have hd : u.dim * v.dim = v.dim * u.dim := Dim.mul_comm' _ _
  have hs : u.scale * v.scale = v.scale * u.scale := by grind
  have he : (u.expr.mul v.expr).Equiv (v.expr.mul u.expr) := by
    refine ⟨by simp only [UExpr.mul]; grind, fun s => ?_⟩
    simp only [UExpr.mul, expOf_append]; grind
  have n1 : Dim.one ≠ Dim.dTemperature := by decide
  have n2 : Dim.one ≠ Dim.dAngle := by decide
  have ho : mulOffset u v = mulOffset v u := by
    simp only [mulOffset]
    cases h3 : u.isDimensionless <;> cases h4 : v.isDimensionless <;>
    cases h5 : u.isTempOrAngle <;> cases h6 : v.isTempOrAngle <;>
    cases h7 : (u.offset != 0) <;> cases h8 : (v.offset != 0) <;>
    simp_all [isDimensionless, isTempOrAngle]
  simp only [UnitV.mul, ho]
  cases h1 : u.isLogarithmic <;> cases h2 : v.isLogarithmic <;>
  cases h3 : u.isDimensionless <;> cases h4 : v.isDimensionless <;>
  simp_all <;>
  (cases mulOffset v u <;> simp_all [ExceptRel, UnitV.Equiv])

/-- what an accepted offset combination is: the offsets add (at most one is non-zero) and
    a non-zero result sits on a temperature/angle dimension -/
theorem mulOffset_ok (u v : UnitV K) (o : K) (hu : u.WF) (hv : v.WF) (h : mulOffset u v = .ok o) :
    o = u.offset + v.offset ∧ (o ≠ 0 → (u.dim * v.dim == Dim.dTemperature || u.dim * v.dim == Dim.dAngle) = true) := by
  have n1 : Dim.one ≠ Dim.dTemperature := by decide
  have n2 : Dim.one ≠ Dim.dAngle := by decide
  simp only [UnitV.WF] at hu hv
  simp only [mulOffset] at h
  by_cases hu0 : u.offset = 0 <;> by_cases hv0 : v.offset = 0
  · simp [hu0, hv0] at h; subst h; constructor <;> grind
  · have hvT := hv hv0
    by_cases c1 : u.isDimensionless = true
    · simp [hu0, hv0, hvT, c1] at h; subst h
      have : u.dim = Dim.one := by simpa [isDimensionless] using c1
      refine ⟨by grind, fun _ => ?_⟩
      rw [this, Dim.one_mul']; simpa [isTempOrAngle] using hvT
    · have c1' : u.isDimensionless = false := by simpa using c1
      have : v.isDimensionless = false := by
        simp only [isDimensionless, isTempOrAngle] at hvT ⊢
        cases hd : (v.dim == Dim.one) with
        | false => rfl
        | true => have := eq_of_beq hd; simp_all
      simp [hu0, hv0, c1', this] at h
  · have huT := hu hu0
    have ud : u.isDimensionless = false := by
      simp only [isDimensionless, isTempOrAngle] at huT ⊢
      cases hd : (u.dim == Dim.one) with
      | false => rfl
      | true => have := eq_of_beq hd; simp_all
    by_cases c2 : v.isDimensionless = true
    · simp [hu0, hv0, huT, c2, ud] at h; subst h
      have : v.dim = Dim.one := by simpa [isDimensionless] using c2
      refine ⟨by grind, fun _ => ?_⟩
      rw [this, Dim.mul_one']; simpa [isTempOrAngle] using huT
    · have c2' : v.isDimensionless = false := by simpa using c2
      simp [hu0, hv0, ud, c2'] at h
  · have huT := hu hu0
    have hvT := hv hv0
    have ud : u.isDimensionless = false := by
      simp only [isDimensionless, isTempOrAngle] at huT ⊢
      cases hd : (u.dim == Dim.one) with
      | false => rfl
      | true => have := eq_of_beq hd; simp_all
    have vd : v.isDimensionless = false := by
      simp only [isDimensionless, isTempOrAngle] at hvT ⊢
      cases hd : (v.dim == Dim.one) with
      | false => rfl
      | true => have := eq_of_beq hd; simp_all
    simp [hu0, hv0, ud, vd] at h

/-- what an accepted product is: scales, dimensions and expressions multiply, the offsets
    add, and well-formedness is preserved -/
theorem mul_ok (u v z : UnitV K) (hu : u.WF) (hv : v.WF) (h : u.mul v = .ok z) :
    z.scale = u.scale * v.scale ∧ z.dim = u.dim * v.dim ∧ z.expr = u.expr.mul v.expr
    ∧ z.offset = u.offset + v.offset ∧ z.WF := by
  simp only [UnitV.mul] at h
  split at h; · contradiction
  split at h; · contradiction
  split at h; · contradiction
  rename_i o ho
  obtain ⟨h1, h2⟩ := mulOffset_ok u v o hu hv ho
  cases h
  refine ⟨rfl, rfl, rfl, h1, ?_⟩
  intro hz
  simpa [isTempOrAngle] using h2 hz

/-- multiplication is associative whenever both bracketings are accepted -/
theorem mul_assoc (u v w a b l r : UnitV K) (hu : u.WF) (hv : v.WF) (hw : w.WF)
    (h1 : u.mul v = .ok a) (h2 : a.mul w = .ok l) (h3 : v.mul w = .ok b) (h4 : u.mul b = .ok r) :
    UnitV.Equiv l r := by
  obtain ⟨as, ad, ae, ao, awf⟩ := mul_ok u v a hu hv h1
  obtain ⟨bs, bd, be, bo, bwf⟩ := mul_ok v w b hv hw h3
  obtain ⟨ls, ld, le, lo, _⟩ := mul_ok a w l awf hw h2
  obtain ⟨rs, rd, re, ro, _⟩ := mul_ok u b r hu bwf h4
  refine ⟨by rw [ls, rs, as, bs]; grind, by rw [lo, ro, ao, bo]; grind,
          by rw [ld, rd, ad, bd]; exact Dim.mul_assoc' _ _ _, ?_⟩
  rw [le, re, ae, be]
  refine ⟨by simp only [UExpr.mul]; grind, fun s => ?_⟩
  simp only [UExpr.mul, expOf_append]; grind


/-- the dimensionless unit is the identity -/
theorem one_mul (u : UnitV K) (hu : u.WF) :
    ∃ z, (UnitV.dimensionless : UnitV K).mul u = .ok z ∧ UnitV.Equiv z u := by
  have n1 : Dim.one ≠ Dim.dTemperature := by decide
  have n2 : Dim.one ≠ Dim.dAngle := by decide
  have hl : (UnitV.dimensionless : UnitV K).isLogarithmic = false := by
    simp [isLogarithmic, UnitV.dimensionless]; decide
  have hdl : (UnitV.dimensionless : UnitV K).isDimensionless = true := by
    simp [isDimensionless, UnitV.dimensionless]
  have ho : mulOffset (UnitV.dimensionless : UnitV K) u = .ok u.offset := by
    simp only [mulOffset, hdl]
    by_cases h0 : u.offset = 0
    · simp [h0, UnitV.dimensionless]
    · have := hu h0
      simp [h0, this, UnitV.dimensionless]
  refine ⟨_, by simp only [UnitV.mul, hl, hdl, ho]; simp; rfl, ?_⟩
  refine ⟨by simp [UnitV.dimensionless]; grind, rfl, by simp [UnitV.dimensionless]; exact Dim.one_mul' _, ?_⟩
  refine ⟨by simp [UnitV.dimensionless, UExpr.mul, UExpr.one]; grind, fun s => ?_⟩
  simp [UnitV.dimensionless, UExpr.mul, UExpr.one]

/-- scale and dimension are homomorphic images of the product (read off `mul_ok`) -/
theorem hom_scale_dim (u v z : UnitV K) (hu : u.WF) (hv : v.WF) (h : u.mul v = .ok z) :
    z.scale = u.scale * v.scale ∧ z.dim = u.dim * v.dim :=
  let ⟨a, b, _, _, _⟩ := mul_ok u v z hu hv h; ⟨a, b⟩

variable (P : K → Prop) (laws : RPowLaws (RPow.rpow (K := K)) P)
include laws

/-- `u * u**-1` is the dimensionless unit (zero-offset, non-logarithmic units; offset units
    refuse, see `offset_inverse_refused`) -/
theorem mul_inv_cancel (u : UnitV K) (ho : u.offset = 0) (hl : u.isLogarithmic = false)
    (hl' : u.dim.pow (-1) ≠ Dim.dLogarithmic) (hs : P u.scale) (hc : P u.expr.coeff) :
    ∃ i z, u.pow (-1) = .ok i ∧ u.mul i = .ok z ∧ UnitV.Equiv z UnitV.dimensionless := by
  have hil : ∀ i : UnitV K, i.dim = u.dim.pow (-1) → (u.isLogarithmic && !i.isDimensionless) = false := by
    intro i _; simp [hl]
  refine ⟨⟨u.expr.pow (-1), RPow.rpow u.scale (-1), 0, u.dim.pow (-1), true⟩, ?_⟩
  have hpow : u.pow (-1) = .ok ⟨u.expr.pow (-1), RPow.rpow u.scale (-1), 0, u.dim.pow (-1), true⟩ := by
    simp [UnitV.pow, hl, ho]
  have hdim : u.dim * u.dim.pow (-1) = Dim.one := by rw [Dim.pow_neg_one]; exact Dim.mul_inv' _
  -- the inverse is logarithmic only if u is (dimension logarithmic^-1 ≠ logarithmic)
  have hilog : (⟨u.expr.pow (-1), RPow.rpow u.scale (-1), 0, u.dim.pow (-1), true⟩ : UnitV K).isLogarithmic = true →
      u.isDimensionless = true → False := by
    intro h1 h2
    have hd : u.dim = Dim.one := by simpa [isDimensionless] using h2
    simp [isLogarithmic, hd, Dim.one_pow] at h1
    exact absurd h1 (by decide)
  have hmo : mulOffset u ⟨u.expr.pow (-1), RPow.rpow u.scale (-1), 0, u.dim.pow (-1), true⟩ = .ok 0 := by
    simp [mulOffset, ho]
  have rs : u.scale * RPow.rpow u.scale (-1) = 1 := by
    have h1 := laws.rpow_one hs
    have h2 := laws.rpow_add (1 : Rat) (-1) hs
    have h3 := laws.rpow_zero hs
    have : (1 : Rat) + -1 = 0 := by grind
    rw [this, h3, h1] at h2; exact h2.symm
  have rc : u.expr.coeff * RPow.rpow u.expr.coeff (-1) = 1 := by
    have h1 := laws.rpow_one hc
    have h2 := laws.rpow_add (1 : Rat) (-1) hc
    have h3 := laws.rpow_zero hc
    have : (1 : Rat) + -1 = 0 := by grind
    rw [this, h3, h1] at h2; exact h2.symm
  by_cases hdl : u.isDimensionless = true
  · have : (⟨u.expr.pow (-1), RPow.rpow u.scale (-1), 0, u.dim.pow (-1), true⟩ : UnitV K).isLogarithmic = false := by
      cases hh : (⟨u.expr.pow (-1), RPow.rpow u.scale (-1), 0, u.dim.pow (-1), true⟩ : UnitV K).isLogarithmic with
      | false => rfl
      | true => exact (hilog hh hdl).elim
    refine ⟨_, hpow, by simp only [UnitV.mul, hl, this, hmo]; simp; rfl, ?_⟩
    refine ⟨rs, rfl, hdim, ⟨rc, fun s => ?_⟩⟩
    simp only [UExpr.mul, UExpr.pow, expOf_append, expOf_scaleF, UnitV.dimensionless, UExpr.one, expOf_nil]; grind
  · have hdl' : u.isDimensionless = false := by simpa using hdl
    have hil2 : (⟨u.expr.pow (-1), RPow.rpow u.scale (-1), 0, u.dim.pow (-1), true⟩ : UnitV K).isLogarithmic = false := by
      simp [isLogarithmic, hl']
    refine ⟨_, hpow, by simp only [UnitV.mul, hl, hdl', hmo, hil2]; simp; rfl, ?_⟩
    refine ⟨rs, rfl, hdim, ⟨rc, fun s => ?_⟩⟩
    simp only [UExpr.mul, UExpr.pow, expOf_append, expOf_scaleF, UnitV.dimensionless, UExpr.one, expOf_nil]; grind

/-- `(u**p)**q == u**(p*q)` -/
theorem pow_pow (u : UnitV K) (p q : Rat) (a b c : UnitV K) (hs : P u.scale) (hc : P u.expr.coeff)
    (h1 : u.pow p = .ok a) (h2 : a.pow q = .ok b) (h3 : u.pow (p * q) = .ok c) : UnitV.Equiv b c := by
  simp only [UnitV.pow] at h1 h2 h3
  split at h1 <;> try contradiction
  split at h1 <;> try contradiction
  split at h2 <;> try contradiction
  split at h2 <;> try contradiction
  split at h3 <;> try contradiction
  split at h3 <;> try contradiction
  cases h1; cases h2; cases h3
  refine ⟨laws.rpow_mul p q hs, rfl, Dim.pow_pow _ _ _, ⟨laws.rpow_mul p q hc, fun s => ?_⟩⟩
  simp only [UExpr.pow, expOf_scaleF]; grind

/-- `(u*v)**p == u**p * v**p` -/
theorem mul_pow (u v : UnitV K) (p : Rat) (m mp up vp r : UnitV K) (hu : u.WF) (hv : v.WF)
    (hsu : P u.scale) (hsv : P v.scale) (hcu : P u.expr.coeff) (hcv : P v.expr.coeff)
    (h1 : u.mul v = .ok m) (h2 : m.pow p = .ok mp)
    (h3 : u.pow p = .ok up) (h4 : v.pow p = .ok vp) (h5 : up.mul vp = .ok r) : UnitV.Equiv mp r := by
  obtain ⟨ms, md, me, _, _⟩ := mul_ok u v m hu hv h1
  simp only [UnitV.pow] at h2 h3 h4
  split at h2 <;> try contradiction
  split at h2 <;> try contradiction
  split at h3 <;> try contradiction
  split at h3 <;> try contradiction
  split at h4 <;> try contradiction
  split at h4 <;> try contradiction
  cases h2; cases h3; cases h4
  have wf0 : ∀ (x : UnitV K), x.offset = 0 → x.WF := fun x hx h => absurd hx h
  obtain ⟨rs, rd, re, ro, _⟩ := mul_ok _ _ r (wf0 _ rfl) (wf0 _ rfl) h5
  refine ⟨?_, ?_, ?_, ?_⟩
  · rw [rs, ms]; exact laws.mul_rpow p hsu hsv
  · rw [ro]; grind
  · rw [rd, md]; exact Dim.mul_pow _ _ _
  · rw [re, me]
    refine ⟨by simp only [UExpr.pow, UExpr.mul]; exact laws.mul_rpow p hcu hcv, fun s => ?_⟩
    simp only [UExpr.pow, UExpr.mul, expOf_append, expOf_scaleF]; grind

omit laws in
/-- offset units have no multiplicative inverse: `degC ** -1` is itself refused (`Unit.__pow__`
    refuses a unit with an offset for every exponent but 0 and 1, fix C08-02) -/
theorem offset_inverse_refused (u : UnitV K) (ho : u.offset ≠ 0) :
    u.pow (-1) = .error .InvalidUnitOperation := by
  have h0 : ((-1 : Rat) != 0) = true := by decide +kernel
  have h1 : ((-1 : Rat) != 1) = true := by decide +kernel
  simp only [UnitV.pow]
  split
  · rfl
  · simp [ho, h0, h1]

omit laws in
/-- equality is decided by scale, offset and dimension only (so `J == N*m == kg*m**2/s**2`) -/
theorem eq_iff_scale_offset_dim (u v : UnitV K) :
    UnitV.eqv u v = true ↔ (u.scale = v.scale ∧ u.offset = v.offset ∧ u.dim = v.dim) := by
  simp [UnitV.eqv, and_assoc]

omit laws in
/-- `as_coeff_unit` returns a coefficient and a unit whose product is the unit as before -/
theorem asCoeffUnit_denotes_same (u : UnitV K) (hc : u.expr.coeff ≠ 0) :
    (u.asCoeffUnit).1 * (u.asCoeffUnit).2.scale = u.scale
    ∧ (u.asCoeffUnit).2.dim = u.dim ∧ (u.asCoeffUnit).2.offset = u.offset
    ∧ (u.asCoeffUnit).2.expr.factors = u.expr.factors := by
  refine ⟨?_, rfl, rfl, rfl⟩
  simp only [UnitV.asCoeffUnit]; grind

end Unyt.C05
