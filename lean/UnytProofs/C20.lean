/-
  C20 — the unit-string interface is total, canonical and re-readable.
-/
import UnytModel.Parse
import UnytModel.Print
import UnytModel.Reparse
import UnytProofs.Lemmas.C20
import UnytProofs.C20Tab0
import UnytProofs.C20Tab1
import UnytProofs.C20Tab2

set_option maxRecDepth 1000000

namespace Unyt.C20
open Unyt Parse Print UExpr C20L Reparse

/-- **print/parse at the layout level.**  For every expression — any rational coefficient, any
    rational exponents, normalised or not — the layout sympy's printer chooses means the
    expression itself: same coefficient, same exponent for every symbol. -/
theorem print_parse_ast (e : UExpr Rat) : (evalAst (printAst e)).Equiv e := by
  have hnf : ∀ t, expOf (normF e.factors) t = expOf e.factors t := fun t => expOf_normF _ t
  have general : (evalAst (.frac (decide (e.coeff < 0))
      (litIf (absQ e.coeff).num.natAbs ++ posItems (normF e.factors))
      (litIf (absQ e.coeff).den ++ negItems (normF e.factors)))).Equiv e := by
    obtain ⟨h1, h2⟩ := evalAst_frac e.coeff (normF e.factors)
    exact ⟨h1, fun t => by rw [h2 t, hnf t]⟩
  unfold printAst
  simp only []
  split
  · next h => exact ⟨rfl, fun t => by rw [← hnf t, h]; rfl⟩
  · next s q h =>
    split
    · next hc =>
      split
      · next hq =>
        refine ⟨by simp [evalAst, evalItems, evalItem, UExpr.mul, hc]; grind, fun t => ?_⟩
        rw [← hnf t, h, hq]
        simp [evalAst, evalItems, evalItem, UExpr.mul, negF]
      · split
        · next hq =>
          refine ⟨by simp [evalAst, evalItems, evalItem, UExpr.mul, hc]; grind, fun t => ?_⟩
          rw [← hnf t, h, hq]
          simp [evalAst, evalItems, evalItem, UExpr.mul, negF]
          grind
        · refine ⟨by simp [evalAst, evalItem_toItem_coeff, hc], fun t => ?_⟩
          rw [← hnf t, h]
          simp [evalAst, evalItem_toItem_factors]
    · exact general
  · exact general

example : printAst ⟨(-3 : Rat) / 2, [("m", 1), ("s", -1), ("kg", -1)]⟩
    = .frac true [.lit 3, .sym "m"] [.lit 2, .sym "kg", .sym "s"] := by decide +kernel
example : render (printAst ⟨1, [("kg", 1), ("m", (2 : Rat) / 3), ("s", (-1 : Rat) / 3)]⟩) = "kg*m**(2/3)/s**(1/3)" := by
  decide +kernel

/-! ### equivalent spellings -/

/-- `x**-1` and `1/x` carry the same exponents, for every factor list -/
theorem inverse_power_exponents (f : Factors) (t : String) :
    expOf (scaleF f (-1)) t = expOf (negF f) t := by
  rw [expOf_scaleF, expOf_negF]; grind

/-- the decimal literal `m·10^e` is the rational it denotes: `0.5 = 1/2`, `1.5 = 3/2`, `1e0 = 1`
    (sympy's `rationalize`), so float and rational exponents are the same number -/
theorem float_literal_is_rational :
    (numValue 5 (-1)).toOption = some ((1 : Rat) / 2) ∧ (numValue 15 (-1)).toOption = some ((3 : Rat) / 2) ∧
    (numValue 25 (-2)).toOption = some ((1 : Rat) / 4) ∧ (numValue 1 0).toOption = some 1 ∧
    (numValue 20 (-1)).toOption = some 2 := by
  decide +kernel

/-- every pair of the hand-written reference list of equivalent spellings — operator spacing,
    `**-1` vs `1/`, float vs rational exponents, unicode vs ASCII micro/ohm/ångström/degree/percent —
    is accepted and parses to one and the same expression -/
theorem spellings_equal :
    (Ref.C20.spacing ++ Ref.C20.inversePower ++ Ref.C20.floatRationalExponent ++ Ref.C20.unicodeAscii).all
      spelledAlike = true := by decide +kernel

/-! ### the atomic table: `str` / `repr` parse back -/

theorem lutKeys_split : lutKeys = chunk 0 ++ (chunk 1 ++ tail 2) := by
  simp only [chunk, tail, chunkSize, Nat.zero_mul, List.drop_zero, Nat.one_mul]
  rw [show (2 * 50 : Nat) = 50 + 50 from rfl, ← List.drop_drop, List.take_append_drop, List.take_append_drop]

/-- **table obligation** over all atomic symbols of the regenerated unit table (the special-cased
    ones included, none exempt): `repr(u)` parses back to `u`, and so does `str(u)` -/
theorem atomic_reparse : lutKeys.all (rowOk []) = true := by
  have h : Ref.C20.strNotReparsed = [] := rfl
  rw [lutKeys_split, List.all_append, List.all_append, ← h, atomic_reparse_chunk0, atomic_reparse_chunk1,
    atomic_reparse_chunk2]; rfl

example : lutKeys.length ≥ 100 := by decide +kernel

theorem isSym_eq {r : Except PErr (UExpr Rat)} {s : String} (h : isSym r s = true) : r = .ok (symE s) := by
  unfold isSym at h
  split at h
  · next e =>
    simp only [Bool.and_eq_true, beq_iff_eq] at h
    cases e; simp_all [symE]
  · cases h

/-- **re-reading gives back the unit, not only the expression.**  The re-parsed expression is *equal*
    (not merely equivalent) to the original one, so every quantity `Unit.__new__` computes from
    (expression, registry) — base value, offset, dimensions, LaTeX, and the hash
    `registry id ⊕ hash(expr)` — is the same: for every function `F` of the expression.
    (That these attributes ARE functions of the expression for a unit built from a string is the
    model `UnitV.ofExpr` of `_get_unit_data_from_expr`, validated by C02; units built by arithmetic can
    carry attributes that are not — findings `offset-compound`, fix C20-04 — and are compared on the
    real library by the direct oracle `reparse|*` only.) -/
theorem atomic_reparse_whole_unit {α : Type} (F : UExpr Rat → α) (s : String) (hs : s ∈ lutKeys) :
    (parseUnit (unitRepr (symE s))).map F = .ok (F (symE s)) ∧
    (unitStr (symE s) = unitRepr (symE s) ∨ (parseUnit (unitStr (symE s))).map F = .ok (F (symE s))) := by
  have h := List.all_eq_true.mp atomic_reparse s hs
  simp only [rowOk, Bool.and_eq_true, Bool.or_eq_true, List.contains_nil, Bool.false_or, beq_iff_eq] at h
  obtain ⟨h1, h2⟩ := h
  refine ⟨by rw [isSym_eq h1]; rfl, ?_⟩
  rcases h2 with h2 | h2
  · exact Or.inl h2
  · exact Or.inr (by rw [isSym_eq h2]; rfl)

/-- the special-cased texts are read back (fix C20-01) -/
theorem delta_deg_reparsed :
    strReparses "delta_degC" = true ∧ strReparses "delta_degF" = true ∧
    unitStr (symE "delta_degC") = "Δ°C" ∧ "delta_degC" ∈ lutKeys ∧ "delta_degF" ∈ lutKeys := by
  decide +kernel

/-- full strength: for every atomic symbol and for the dimensionless unit, `str` and `repr`
    parse back to the unit -/
def C20_reparse_full : Prop :=
  (∀ s, s ∈ lutKeys → strReparses s = true ∧ reprReparses s = true) ∧
  same (parseUnit (unitStr ⟨1, []⟩)) (.ok ⟨1, []⟩) = true ∧
  same (parseUnit (unitRepr ⟨1, []⟩)) (.ok ⟨1, []⟩) = true

/-- the part of `C20_reparse_full` that holds: every atomic symbol (the remaining exception is
    the dimensionless unit, `one_not_reparsed`) -/
theorem C20_reparse_partial : ∀ s, s ∈ lutKeys → reprReparses s = true ∧
    (unitStr (symE s) == unitRepr (symE s) || strReparses s) = true := by
  intro s hs
  have h := List.all_eq_true.mp atomic_reparse s hs
  simpa [rowOk] using h

/-- `str(Unit(''))` and `repr(Unit(''))` are read back as the *symbol* `dimensionless`, a
    different expression -/
theorem one_not_reparsed :
    same (parseUnit "") (.ok ⟨1, []⟩) = true ∧
    same (parseUnit (unitStr ⟨1, []⟩)) (.ok ⟨1, []⟩) = false ∧
    same (parseUnit (unitStr ⟨1, []⟩)) (.ok (symE "dimensionless")) = true ∧
    same (parseUnit (unitRepr ⟨1, []⟩)) (.ok (symE "dimensionless")) = true := by decide +kernel

theorem C20_reparse_counterexample : ¬ C20_reparse_full := by
  intro h
  have h1 := h.2.1
  rw [one_not_reparsed.2.1] at h1
  exact Bool.noConfusion h1

/-! ### totality -/

/-- full strength: the string path answers with a unit or with `UnitParseError`, nothing else -/
def C20_total_full : Prop :=
  ∀ s : String, (∃ e, parseUnit s = .ok e) ∨ parseUnit s = .error .unitParseError

def isErr (r : Except PErr (UExpr Rat)) (c : PErr) : Bool :=
  match r with
  | .error c' => c' == c
  | .ok _ => false

theorem isErr_iff (r : Except PErr (UExpr Rat)) (c : PErr) : isErr r c = true ↔ r = .error c := by
  cases r <;> simp [isErr]

/-- what remains of the escapes of the faithful model: towers and float exponents that do not
    come back (one witness per listed finding) -/
theorem escapes :
    isErr (parseUnit "9**9**9**9") .hang = true ∧
    isErr (parseUnit "1e999999999*m") .hang = true := by decide +kernel

/-- the former escapes are refused with `UnitParseError` (fix C20-02) -/
theorem former_escapes_refused :
    isErr (parseUnit "lat**0.5") .unitParseError = true ∧
    isErr (parseUnit "(-8)**(1/3)") .unitParseError = true ∧
    isErr (parseUnit "m**(2*s)") .unitParseError = true ∧
    isErr (parseUnit "sqrt(lat)*zz") .unitParseError = true := by decide +kernel

theorem C20_total_counterexample : ¬ C20_total_full := by
  intro h
  have e := (isErr_iff _ _).mp escapes.1
  rcases h "9**9**9**9" with ⟨x, hx⟩ | hx
  · rw [e] at hx; cases hx
  · rw [e] at hx; injection hx with h'; exact PErr.noConfusion h'

/-- **where the model is the specification and not the code.**  Outside the vocabulary the model only
    says "outside the vocabulary — the property requires UnitParseError".  The code does not behave
    like that on these three texts (`Unit('m+m')` = 2*m, `Unit('Integer(2)*m')` = 2*m are accepted,
    `Unit("Symbol('')")` raises IndexError): findings `vocab|arith`, `vocab|global-class`,
    `escape|outside-vocabulary|IndexError|unit-data`, replayed on the library by the harness.  The
    clauses "no other exception type escapes" and "nothing outside the vocabulary is evaluated" are
    therefore NOT theorems about the code; they rest on the direct oracles. -/
theorem outside_vocabulary_model_is_specification :
    isErr (parseUnit "m+m") .outOfVocabulary = true ∧
    isErr (parseUnit "Integer(2)*m") .outOfVocabulary = true ∧
    isErr (parseUnit "Symbol('')") .outOfVocabulary = true ∧
    isErr (parseUnit "m.args") .outOfVocabulary = true := by decide +kernel

/-- the same strings without the offending power are refused or accepted normally -/
example : isErr (parseUnit "lat**2") .unitParseError = false ∧ isErr (parseUnit "m**s") .unitParseError = true ∧
    isErr (parseUnit "zz") .unitParseError = true := by decide +kernel

end Unyt.C20
