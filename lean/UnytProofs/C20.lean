import UnytModel.Parse
import UnytModel.Print
namespace Unyt.C20
open Unyt Parse Print
theorem stub : (1 : Nat) = 1 := rfl
end Unyt.C20
