/-
  C08 — Python sequences (list / tuple) of temperature quantities as operands.

  `unyt_array([q0, q1, …])` and every binary ufunc with a list/tuple operand (`arr - [q0, q1]`,
  `np.add((q0, q1), arr)`, `arr -= [q0, q1]`, comparisons) first unify the sequence with
  `_coerce_iterable_units` (`UnytModel.TempSeq.coerceIterable`).  The statements below are about the
  functions the driver executes (`c08.coerce`, `c08.seqadd`, `c08.seqsub`, `c08.seqcmp`), over the exact
  table, for every sequence (any length, any mix of units of the family) and all readings.
-/
import UnytProofs.C08
import UnytProofs.Lemmas.C08Seq

set_option linter.unusedSectionVars false

namespace Unyt.C08
open Unyt Unyt.Temp Unyt.Temp.Ref

section general
variable {K : Type} [Lean.Grind.Field K] [Lean.Grind.IsCharP K 0] [BEq K] [LawfulBEq K]
  [IsClose K] [LawfulIsClose K]

/-- the elements of the sequence are of the kind (point / difference) of its first element — the
    sequences for which the unified array can be read element by element as the original quantities
    (a difference inside a sequence of points is converted as a position on the absolute scale, as
    `.to()` does: `[1 delta_degC, 2 degC] → [1, 275.15] delta_degC`; no arithmetic claim is made there) -/
def SameKindAsFirst (seq : List (TU K × K)) (i : Nat) (h : i < seq.length) : Prop :=
  ∀ d ∈ seq.head?, kind seq[i].1.base = kind d.1.base

/-- unifying a sequence of temperature quantities: the array is labelled with the unit of the first
    element, has one reading per element, and every reading marks the same absolute temperature as
    the element it came from (the exact affine map between the two scales) -/
theorem coerce_iterable_affine (seq : List (TU K × K)) (hw : ∀ e ∈ seq, e.1.WFP)
    (ff : TU K) (ys : List K)
    (h : coerceIterable genSyms genNames exactTab seq = some (ff, ys)) :
    seq.head?.map Prod.fst = some ff ∧ ys.length = seq.length ∧
      ∀ (i : Nat) (h1 : i < seq.length) (h2 : i < ys.length), absK ff ys[i] = absK seq[i].1 seq[i].2 := by
  cases seq with
  | nil => simp [coerceIterable] at h
  | cons d rest =>
    simp only [coerceIterable] at h
    split at h
    · simp only [Option.some.injEq, Prod.mk.injEq] at h
      obtain ⟨rfl, rfl⟩ := h
      refine ⟨rfl, by simp, ?_⟩
      intro i h1 h2
      simp only [List.getElem_map]
      exact temp_conversions_affine _ _ (hw _ (List.getElem_mem h1)) (hw _ (List.mem_cons_self ..)) _
    · rename_i hany
      simp only [Option.some.injEq, Prod.mk.injEq] at h
      obtain ⟨rfl, rfl⟩ := h
      refine ⟨rfl, by simp, ?_⟩
      intro i h1 h2
      simp only [List.getElem_map]
      have hall : ∀ e ∈ d :: rest, unitEq exactTab d.1 e.1 = true := by
        intro e he
        false_or_by_contra
        rename_i hne
        exact hany (List.any_eq_true.2 ⟨e, he, by simpa using hne⟩)
      exact absK_of_unitEq _ _ (hall _ (List.getElem_mem h1)) _

/-- the reading of a same-kind element denotes, in the kind of the sequence, what the element denoted -/
theorem coerce_iterable_den (seq : List (TU K × K)) (hw : ∀ e ∈ seq, e.1.WFP)
    (ff : TU K) (ys : List K)
    (h : coerceIterable genSyms genNames exactTab seq = some (ff, ys))
    (i : Nat) (h1 : i < seq.length) (h2 : i < ys.length) (hk : SameKindAsFirst seq i h1) :
    kind seq[i].1.base = kind ff.base ∧ den (kind ff.base) ff ys[i] = den (kind ff.base) seq[i].1 seq[i].2 := by
  obtain ⟨hh, _, ha⟩ := coerce_iterable_affine seq hw ff ys h
  have hkf : kind seq[i].1.base = kind ff.base := by
    cases seq with
    | nil => simp at h1
    | cons d rest =>
      simp only [List.head?_cons, Option.map_some, Option.some.injEq] at hh
      subst hh
      exact hk d (by simp)
  refine ⟨hkf, ?_⟩
  cases hf : kind ff.base with
  | point => exact ha i h1 h2
  | diff =>
    simp only [den]
    rw [← absK_eq_difK ff hf, ← absK_eq_difK seq[i].1 (hkf.trans hf)]
    exact ha i h1 h2

/-- `array − sequence` / `sequence − array` (operator, `np.subtract`, in-place): when it returns, there
    is one result per pair of elements and each is the difference affine arithmetic gives between the
    array's element and the ORIGINAL element of the sequence (same-kind elements) -/
theorem temp_seq_sub_correct (side : SeqSide) (u0 : TU K) (xs : List K) (seq : List (TU K × K))
    (h0 : u0.WFP) (hw : ∀ e ∈ seq, e.1.WFP) (rs : List (TU K × K))
    (h : tempSeqBinary tempSub side genSyms genNames exactTab u0 xs seq = .ok rs) :
    rs.length = min xs.length seq.length ∧
      ∀ (i : Nat) (hx : i < xs.length) (hs : i < seq.length) (hr : i < rs.length),
        SameKindAsFirst seq i hs →
        match side with
        | .right => subSpec u0 xs[i] seq[i].1 seq[i].2 rs[i]
        | .left => subSpec seq[i].1 seq[i].2 u0 xs[i] rs[i] := by
  unfold tempSeqBinary at h
  split at h
  · cases h
  · rename_i ff ys hc
    obtain ⟨hh, hl, _⟩ := coerce_iterable_affine seq hw ff ys hc
    obtain ⟨hlen, hi⟩ := mapE_ok _ _ _ h
    have hff : ff.WFP := by
      cases seq with
      | nil => simp at hh
      | cons d rest =>
        simp only [List.head?_cons, Option.map_some, Option.some.injEq] at hh
        subst hh
        exact hw d (by simp)
    refine ⟨by simp [hlen, hl], ?_⟩
    intro i hx hs hr hk
    have hy : i < ys.length := by omega
    obtain ⟨hkf, hd⟩ := coerce_iterable_den seq hw ff ys hc i hs hy hk
    have he := hi i (by simp; omega) hr
    simp only [List.getElem_zip] at he
    cases side with
    | right =>
      have hsp := temp_sub_correct u0 ff xs[i] ys[i] h0.1 hff.1 rs[i] he
      simp only [subSpec, hkf] at hsp ⊢
      cases hk0 : kind u0.base <;> cases hk1 : kind ff.base <;> simp only [hk0, hk1, den] at hsp hd ⊢
      all_goals first | trivial | (rw [← hd]; exact hsp)
    | left =>
      have hsp := temp_sub_correct ff u0 ys[i] xs[i] hff.1 h0.1 rs[i] he
      simp only [subSpec, hkf] at hsp ⊢
      cases hk0 : kind u0.base <;> cases hk1 : kind ff.base <;> simp only [hk0, hk1, den] at hsp hd ⊢
      all_goals first | trivial | (rw [← hd]; exact hsp)

/-- `array + sequence` / `sequence + array` (operator, `np.add`, in-place) -/
theorem temp_seq_add_correct (side : SeqSide) (u0 : TU K) (xs : List K) (seq : List (TU K × K))
    (h0 : u0.WFP) (hw : ∀ e ∈ seq, e.1.WFP) (rs : List (TU K × K))
    (h : tempSeqBinary tempAdd side genSyms genNames exactTab u0 xs seq = .ok rs) :
    rs.length = min xs.length seq.length ∧
      ∀ (i : Nat) (hx : i < xs.length) (hs : i < seq.length) (hr : i < rs.length),
        SameKindAsFirst seq i hs →
        match side with
        | .right => addSpec u0 xs[i] seq[i].1 seq[i].2 rs[i]
        | .left => addSpec seq[i].1 seq[i].2 u0 xs[i] rs[i] := by
  unfold tempSeqBinary at h
  split at h
  · cases h
  · rename_i ff ys hc
    obtain ⟨hh, hl, _⟩ := coerce_iterable_affine seq hw ff ys hc
    obtain ⟨hlen, hi⟩ := mapE_ok _ _ _ h
    have hff : ff.WFP := by
      cases seq with
      | nil => simp at hh
      | cons d rest =>
        simp only [List.head?_cons, Option.map_some, Option.some.injEq] at hh
        subst hh
        exact hw d (by simp)
    refine ⟨by simp [hlen, hl], ?_⟩
    intro i hx hs hr hk
    have hy : i < ys.length := by omega
    obtain ⟨hkf, hd⟩ := coerce_iterable_den seq hw ff ys hc i hs hy hk
    have he := hi i (by simp; omega) hr
    simp only [List.getElem_zip] at he
    cases side with
    | right =>
      have hsp := temp_add_correct u0 ff xs[i] ys[i] h0.1 hff.1 rs[i] he
      simp only [addSpec, hkf] at hsp ⊢
      cases hk0 : kind u0.base <;> cases hk1 : kind ff.base <;> simp only [hk0, hk1, den] at hsp hd ⊢
      all_goals first | trivial | (rw [← hd]; exact hsp)
    | left =>
      have hsp := temp_add_correct ff u0 ys[i] xs[i] hff.1 h0.1 rs[i] he
      simp only [addSpec, hkf] at hsp ⊢
      cases hk0 : kind u0.base <;> cases hk1 : kind ff.base <;> simp only [hk0, hk1, den] at hsp hd ⊢
      all_goals first | trivial | (rw [← hd]; exact hsp)

/-- a sequence holding two different offset scales is unified, not combined: no element of it
    reaches the arithmetic in a unit other than the first element's, so the refusals of
    `temp_refuses_mixed_offset_scales` apply to (array unit, first unit) — a Celsius array and a
    sequence that starts with a Fahrenheit reading is refused whatever follows -/
theorem temp_seq_refuses_mixed (side : SeqSide) (u0 : TU K) (xs : List K) (seq : List (TU K × K))
    (h0 : u0.WF) (hw : ∀ e ∈ seq, e.1.WF) (hne : xs ≠ [])
    (hd : ∀ d ∈ seq.head?, differentOffsetScales u0 d.1 = true ∧ differentOffsetScales d.1 u0 = true) :
    (∃ e, tempSeqBinary tempAdd side genSyms genNames exactTab u0 xs seq = .error e) ∧
    (∃ e, tempSeqBinary tempSub side genSyms genNames exactTab u0 xs seq = .error e) ∧
    (∃ e, tempSeqBinary tempCmpArgs side genSyms genNames exactTab u0 xs seq = .error e) := by
  cases seq with
  | nil => simp [tempSeqBinary, coerceIterable]
  | cons d rest =>
    obtain ⟨hd1, hd2⟩ := hd d (by simp)
    have hwd : d.1.WF := hw d (by simp)
    cases xs with
    | nil => exact absurd rfl hne
    | cons x xt =>
      have key : ∀ (y : K),
          (∃ e, seqElem (tempAdd exactTab) side u0 x d.1 y = .error e) ∧
          (∃ e, seqElem (tempSub exactTab) side u0 x d.1 y = .error e) ∧
          (∃ e, seqElem (tempCmpArgs exactTab) side u0 x d.1 y = .error e) := by
        intro y
        cases side with
        | right =>
          obtain ⟨a, b, c⟩ := temp_add_sub_cmp_refuse_mixed u0 d.1 x y h0 hd1
          exact ⟨⟨_, a⟩, ⟨_, b⟩, ⟨_, c⟩⟩
        | left =>
          obtain ⟨a, b, c⟩ := temp_add_sub_cmp_refuse_mixed d.1 u0 y x hwd hd2
          exact ⟨⟨_, a⟩, ⟨_, b⟩, ⟨_, c⟩⟩
      have hco : ∃ y yt, coerceIterable genSyms genNames exactTab (d :: rest) = some (d.1, y :: yt) := by
        simp only [coerceIterable]
        split
        · exact ⟨_, _, rfl⟩
        · exact ⟨_, _, rfl⟩
      obtain ⟨y, yt, hco⟩ := hco
      obtain ⟨⟨e1, a⟩, ⟨e2, b⟩, ⟨e3, c⟩⟩ := key y
      simp only [tempSeqBinary, hco, List.zip_cons_cons, mapE, a, b, c]
      exact ⟨⟨_, rfl⟩, ⟨_, rfl⟩, ⟨_, rfl⟩⟩

end general

/-! ### non-vacuity -/

/-- `unyt_array([20 degC, 68 degF])` is `[20, 20] degC` -/
example : coerceIterable (K := Rat) genSyms genNames exactTab [(⟨none, .degC⟩, 20), (⟨none, .degF⟩, 68)]
    = some (⟨none, .degC⟩, [20, 20]) := by decide +kernel

/-- `[25, 25] degC − [20 degC, 68 degF]` is `[5, 5] delta_degC` -/
example : tempSeqBinary (K := Rat) tempSub .right genSyms genNames exactTab ⟨none, .degC⟩ [25, 25]
    [(⟨none, .degC⟩, 20), (⟨none, .degF⟩, 68)] = .ok [(⟨none, .dC⟩, 5), (⟨none, .dC⟩, 5)] := by decide +kernel

/-- `[1 delta_degF, 9 delta_degC] + [25, 25] degC` is `[25 5/9, 34] degC` -/
example : tempSeqBinary (K := Rat) tempAdd .left genSyms genNames exactTab ⟨none, .degC⟩ [25, 25]
    [(⟨none, .dF⟩, 1), (⟨none, .dC⟩, 9)] = .ok [(⟨none, .degC⟩, 230 / 9), (⟨none, .degC⟩, 34)] := by decide +kernel

example : SameKindAsFirst (K := Rat) [(⟨none, .degC⟩, 20), (⟨none, .degF⟩, 68)] 1 (by decide) := by
  intro d hd; simp at hd; subst hd; rfl

example : differentOffsetScales (K := Rat) ⟨none, .degC⟩ ⟨none, .degF⟩ = true
    ∧ differentOffsetScales (K := Rat) ⟨none, .degF⟩ ⟨none, .degC⟩ = true := by decide +kernel

end Unyt.C08
