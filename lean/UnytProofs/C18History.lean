/-
  C18 — HISTORY: theorems about variants of the code that the live source no longer is (the
  regenerated flags cannot select them any more and no correspondence run validates them):
  `CtuFlags.unpatched` (unit assigned first, no read-only refusal — unyt before bf3be66 / 49ae25b),
  `unitSimplify false` (before 93ee6ec), `reenters = true` (before the raw-buffer post-multiplication).
  Kept because the model is switchable and a revert of the source would make them relevant again;
  NOT part of the check's proof modules (not counted in the evidence).
-/
import UnytProofs.C18
import UnytProofs.C18Equiv

set_option linter.unusedSectionVars false
set_option linter.unusedVariables false
set_option linter.unusedSimpArgs false

namespace Unyt.C18.History
open Unyt Unyt.Effects Unyt.Ufunc Unyt.C18

/-- … was false of the UNPATCHED variant (unyt before fix C18-01): `unyt_array([1, 2, 3], 'km',
    dtype='int8').convert_to_units('m')` raised `ValueError` after `self.units = m`.  The harness replays the
    call on the real code on every run and requires that it now leaves the array untouched. -/
theorem convert_to_units_unpatched_violates :
    let r := runSteps (convertToUnitsSteps .unpatched Generated.liveNumpy Generated.liveRules [] [] []
        ⟨uLen "km" 1000, ⟨.i, 1⟩, true⟩ (.ok (uLen "m" 1)))
    r.err? = some .ValueError ∧ r.effects.length = 1
      ∧ (match r.effects with | [.setUnits u] => u.scale == 1 | _ => false) = true := by
  decide +kernel

theorem C18_convert_to_units_full_unpatched_false : ¬ C18_convert_to_units_full .unpatched Rat := by
  intro h
  have := h Generated.liveNumpy Generated.liveRules [] [] [] ⟨uLen "km" 1000, ⟨.i, 1⟩, true⟩ (.ok (uLen "m" 1)) .ValueError
    ((err?_eq_some _ _).mp (by decide +kernel))
  revert this
  decide +kernel


/-- further late faults of the UNPATCHED variant: `bool` data (NumPy refuses `values *= factor`), a
    read-only float buffer — both leave the array relabelled; a read-only integer buffer is also
    re-typed before `np.copyto` fails, so its bytes are read as floats (`coherent = false`) -/
theorem convert_to_units_unpatched_late_faults :
    let run := fun (d : Dtype) (w : Bool) =>
      runSteps (convertToUnitsSteps .unpatched Generated.liveNumpy Generated.liveRules [] [] []
        ⟨uLen "km" 1000, d, w⟩ (.ok (uLen "m" 1)))
    (run ⟨.b, 1⟩ true).err? = some .TypeError ∧ (run ⟨.b, 1⟩ true).effects.length = 1
    ∧ (run ⟨.f, 8⟩ false).err? = some .ValueError ∧ (run ⟨.f, 8⟩ false).effects.length = 1
    ∧ (run ⟨.i, 8⟩ false).err? = some .ValueError ∧ (run ⟨.i, 8⟩ false).effects.length = 3
    ∧ (applyAll (fun _ x => x) 0 ⟨5, uLen "km" 1000, ⟨.i, 8⟩, true, true⟩ (run ⟨.i, 8⟩ false).effects).coherent = false := by
  decide +kernel


section
open Unyt.Equiv
variable {K : Type} [Add K] [Sub K] [Mul K] [Div K] [OfNat K 0] [OfNat K 1] [BEq K] [RPow K]
/-- the RE-ENTRANT variant of the post-multiplication (`reenters = true`: unyt before fix db741b8):
    for every equivalence with an `out=x` step, every float array whose own unit has a cancellation
    coefficient (`K*cm/angstrom`) and every recursion budget — `convert_to_equivalent` raises
    `RecursionError` after the kernel wrote and the buffer was multiplied once per frame -/
theorem reentrant_equivalence_diverges (fl : CtuFlags) (N : NumpyFacts) (P : DtypeRules) (pre : Prefixes K) (t : Lut K)
    (T : EmTable K) (reg : List EquivRec) (a : Arr K) (c : EquivCall K) (cu : UnitV K) (eq : EquivRec) (f : Formula)
    (h1 : c.convUnit = .ok cu) (h2 : (a.unit.dim == cu.dim) = false) (h3 : findEquiv reg c.name = some eq)
    (h4 : eq.dims.contains a.unit.dim = true) (h5 : eq.convert .inplace a.unit.dim cu.dim = .ok (some f))
    (h6 : acceptsParams reg (some c.name) c.kwargs = true) (h7 : P.outIntKinds.contains a.dtype.kind = false)
    (hre : c.reenters = true) (hw : a.writeable = true) (hoff : offsetRefusal c.powRefuses a.unit f = none)
    (hk : chainKernelRefuses N true a.dtype = none) (hc : (c.selfCoeff == 1) = false)
    (hops : (inplaceOps eq a.unit.dim cu.dim).any (·.outBuf) = true) :
    (runSteps (convertToEquivalentSteps fl N P pre t T reg a c)).result = .error .RuntimeError
    ∧ (runSteps (convertToEquivalentSteps fl N P pre t T reg a c)).effects
        = .kernel "chain" :: List.replicate c.depth (.scale c.selfCoeff) := by
  rw [cte_steps_across fl N P pre t T reg a c cu eq f h1 h2 h3 h4 h5 h6]
  have hpd : promotedDtype N P a.dtype = a.dtype := by
    unfold promotedDtype outPromote; rw [h7]; rfl
  have hpo : promoOut fl N P a = [] := by
    unfold promoOut; rw [h7]; rfl
  simp only [hpd, hpo, List.nil_append, hre, hw, hoff, hk, List.cons_append, runSteps, List.append_assoc]
  exact chain_diverges c.selfCoeff hc c.depth (midUnit cu.dim) _ hops _

end

/-- `x = unyt_array([1., 2.], 'cm/m'); x *= 2.0` under the RE-ENTRANT post-multiplication
    `multiply(out, mul, out=out)` (unyt before fix db741b8; `reenters = true` in the model — the
    flag is regenerated from the source on every run, `source_order_is_modelled`): for EVERY recursion
    budget the call ends in `RecursionError`, having multiplied the buffer once per frame — the data
    are destroyed (observed then: all zeros), the unit label is never assigned -/
theorem reentrant_rescale_diverges :
    ∀ fuel, (inplaceUfunc true false Cw outW fuel rescaleW).result = .error .RuntimeError
      ∧ (inplaceUfunc true false Cw outW fuel rescaleW).effects = List.replicate fuel (.kernel "ufunc") := by
  obtain ⟨u', h1⟩ := isRescaleShape_spec (dispatch Cw rescaleW).effects (by decide +kernel)
  exact inplaceUfunc_diverges Cw outW rescaleW cmPerM u' h1 rfl rfl false


section
variable {K : Type} [Mul K] [Div K] [OfNat K 1] [OfNat K 0] [RPow K] [BEq K]
/-- the UNPATCHED variant of `Unit.simplify()` (before fix C18-02) returned `self` after assigning its
    expression, whenever it returned at all -/
theorem simplify_mutates_and_returns_self (pre : Prefixes K) (t : Lut K) (u : UnitV K) (v : UnitV K) (b : Bool)
    (h : (unitSimplify false pre t u).result = .ok (v, b)) :
    b = true ∧ (unitSimplify false pre t u).effects = [.setExpr v.expr] := by
  unfold unitSimplify at h ⊢
  cases hc : UV.cancelMul pre t u.expr with
  | error e => rw [hc] at h; cases h
  | ok e' => rw [hc] at h; cases h; exact ⟨rfl, rfl⟩

end

/-- the UNPATCHED variant on `(cm/m).simplify()`: the object itself then read `1/100` -/
theorem simplify_unpatched_mutates :
    (match (unitSimplify false [] lutW cmPerM.v).result with | .ok (_, b) => b | _ => false) = true
      ∧ (unitSimplify false [] lutW cmPerM.v).effects.length = 1 := by
  decide +kernel


/-- with the RE-ENTRANT post-multiplication (unyt before fix db741b8) the call never returns: the
    instance of `reentrant_equivalence_diverges` on the regenerated table, budget 7 -/
theorem convert_to_equivalent_reentrant_counterexample :
    let r := runSteps (convertToEquivalentSteps liveFlagsW Generated.liveNumpy Generated.liveRules [] [] []
        Generated.equivalences ⟨kCmPerA, ⟨.f, 8⟩, true⟩ (cteCallW true 7))
    r.err? = some .RuntimeError ∧ r.effects.length = 8 := by
  decide +kernel


end Unyt.C18.History
