/-
  C20 — table obligation, last chunk: rows 100… (open-ended) of the regenerated unit table.
-/
import UnytModel.Reparse

namespace Unyt.C20
open Unyt Reparse

set_option maxRecDepth 1000000 in
/-- for every atomic symbol from row 100 on, `repr` parses back to the symbol and `str` does too
    (`Ref.C20.strNotReparsed` is empty since fix C20-01: no symbol is exempt) -/
theorem atomic_reparse_chunk2 : (tail 2).all (rowOk Ref.C20.strNotReparsed) = true := by decide +kernel

end Unyt.C20
