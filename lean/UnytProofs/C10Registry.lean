/-
  C10 — `unit_system_registry` as a state machine: "for every REGISTERED unit system …",
  "a user-defined UnitSystem is usable immediately", "inconsistent base units are rejected at
  construction".

  The model (`UnytModel/SystemRegistry.lean`, executed by the driver opcode `c10.hist` on the very
  histories the harness runs on the library) has a heap of live `UnitSystem` objects and the dict
  `unit_system_registry`.  Proved here for ALL histories over ALL tables:
  * a rejected construction changes nothing — neither the registry nor any live object
    (`rejected_construction_changes_nothing`), so every name resolves as before
    (`rejected_redefinition_keeps_system`);
  * the invariant "every registered name leads to a live object that carries this name and whose
    `base_units` passed the validation loop of `__init__`" is preserved by every step and hence
    by every history (`registry_step_inv`, `registry_run_inv`, `registered_systems_validated`);
  * an accepted construction is registered at once under its name, with the validated units
    (`constructed_usable_immediately`), replaces only that name (`construction_keeps_other_names`);
  * memoisation and overrides never change which object a name resolves to
    (`getitem_setitem_keep_names`); an object resolves through its name (`byObject_resolves_by_name`);
  * the registry `import unyt` leaves (regenerated) satisfies the invariant (`builtin_registry_inv`,
    kernel-decided at ℚ).
-/
import UnytModel.SystemRegistry
import UnytProofs.Lemmas.C10Registry

namespace Unyt
namespace C10

open SysWorld

section
variable {K : Type} [Mul K]

/-- the registry invariant: every live object passed the validation of `__init__`; every
    registered name leads to a live object carrying this name -/
structure RegInv (pre : Prefixes K) (t0 : Lut K) (inv : List (String × String)) (W : SysWorld K) : Prop where
  heap_ok : ∀ o, o ∈ W.heap → validateAll pre t0 inv o.reg o.sys.base = .ok ()
  names_ok : ∀ n i, dfind? W.names n = some i → ∃ o, W.heap[i]? = some o ∧ o.sys.name = n

/-- the executable check implies the invariant -/
theorem checkB_inv (pre : Prefixes K) (t0 : Lut K) (inv : List (String × String)) (W : SysWorld K)
    (h : W.checkB pre t0 inv = true) : RegInv pre t0 inv W := by
  simp only [checkB, Bool.and_eq_true, List.all_eq_true] at h
  obtain ⟨hh, hn⟩ := h
  constructor
  · intro o ho
    have := hh o ho
    simp only [validated] at this
    split at this
    · rename_i u hu; cases u; exact hu
    · contradiction
  · intro n i hf
    have := hn (n, i) (dfind?_mem _ _ _ hf)
    simp only at this
    split at this
    · rename_i o ho
      exact ⟨o, ho, by simpa using this⟩
    · contradiction

end

section
variable {K : Type} [Mul K] [OfNat K 1] [RPow K]

/-- **a rejected construction changes nothing**: when `__init__` raises, the registry and every
    live object are what they were, and the caller sees the exception.  (The seeded re-ordering
    "register first, validate afterwards" is exactly a code for which this fails.) -/
theorem rejected_construction_changes_nothing (pre : Prefixes K) (t0 : Lut K) (inv : List (String × String))
    (W : SysWorld K) (name : String) (reg : Option (Lut K)) (units : List (Option (UExpr K))) (e : Err)
    (h : USys.init pre t0 inv reg name units = .error e) :
    step pre t0 inv W (.construct name reg units) = (W, .raised e) := by
  simp only [step, h]

/-- a construction either is accepted or changes nothing -/
theorem construction_raises_iff_rejected (pre : Prefixes K) (t0 : Lut K) (inv : List (String × String))
    (W : SysWorld K) (name : String) (reg : Option (Lut K)) (units : List (Option (UExpr K))) (e : Err)
    (h : (step pre t0 inv W (.construct name reg units)).2 = .raised e) :
    (step pre t0 inv W (.construct name reg units)).1 = W := by
  simp only [step] at h ⊢
  split
  · rfl
  · rename_i S hS
    simp only [hS] at h
    cases h

/-- **a rejected re-definition keeps the system**: after a construction that raised — also one
    under a name that is already registered — every name resolves to the same object as before,
    and that object is unchanged -/
theorem rejected_redefinition_keeps_system (pre : Prefixes K) (t0 : Lut K) (inv : List (String × String))
    (W : SysWorld K) (name : String) (reg : Option (Lut K)) (units : List (Option (UExpr K))) (e : Err)
    (h : USys.init pre t0 inv reg name units = .error e) (n : String) :
    let W' := (step pre t0 inv W (.construct name reg units)).1
    W'.resolveName n = W.resolveName n ∧ W'.heap = W.heap := by
  rw [rejected_construction_changes_nothing pre t0 inv W name reg units e h]
  exact ⟨rfl, rfl⟩

/-- **usable immediately**: an accepted construction is registered at once under its name; the
    registered object has the given units as `units_map` and `base_units`, and they passed the
    validation -/
theorem constructed_usable_immediately (pre : Prefixes K) (t0 : Lut K) (inv : List (String × String))
    (W : SysWorld K) (name : String) (reg : Option (Lut K)) (units : List (Option (UExpr K))) (S : USys K)
    (h : USys.init pre t0 inv reg name units = .ok S) :
    let r := step pre t0 inv W (.construct name reg units)
    r.2 = .built W.heap.length ∧ r.1.resolveName name = .system W.heap.length ∧
      r.1.heap[W.heap.length]? = some { sys := S, reg := reg } ∧
      S.name = name ∧ S.um = baseDimsInit.zip units ∧ S.base = S.um ∧
      validateAll pre t0 inv reg S.base = .ok () := by
  obtain ⟨hn, hum, hb, hv⟩ := init_validated pre t0 inv reg name units S h
  simp only [step, h, resolveName, dfind?_dset_self]
  refine ⟨?_, ?_, ?_, hn, hum, by rw [hb, hum], hv⟩ <;> simp

/-- an accepted construction replaces the entry of its own name only, and touches no older object -/
theorem construction_keeps_other_names (pre : Prefixes K) (t0 : Lut K) (inv : List (String × String))
    (W : SysWorld K) (name : String) (reg : Option (Lut K)) (units : List (Option (UExpr K)))
    (n : String) (hn : n ≠ name) :
    let W' := (step pre t0 inv W (.construct name reg units)).1
    W'.resolveName n = W.resolveName n ∧ ∀ (i : Nat) (o : SysObj K), W.heap[i]? = some o → W'.heap[i]? = some o := by
  simp only [step]
  split
  · exact ⟨rfl, fun _ _ h => h⟩
  · refine ⟨by simp only [resolveName, dfind?_dset_ne _ _ _ _ hn], ?_⟩
    intro i o ho
    have hi : i < W.heap.length := by
      rcases Nat.lt_or_ge i W.heap.length with h | h
      · exact h
      · rw [List.getElem?_eq_none h] at ho; cases ho
    simp only [List.getElem?_append_left hi, ho]

/-- memoising look-ups and overrides never change which object a name resolves to, nor any
    object's name or `base_units` -/
theorem getitem_setitem_keep_names (pre : Prefixes K) (t0 : Lut K) (inv : List (String × String))
    (W : SysWorld K) (op : SysOp K) (hop : ∀ name reg units, op ≠ .construct name reg units) :
    let W' := (step pre t0 inv W op).1
    W'.names = W.names ∧ W'.heap.length = W.heap.length ∧
      ∀ (i : Nat) (o : SysObj K), W.heap[i]? = some o → ∃ o' : SysObj K, W'.heap[i]? = some o' ∧ o'.sys.name = o.sys.name ∧
        o'.sys.base = o.sys.base ∧ o'.reg = o.reg := by
  cases op with
  | construct name reg units => exact absurd rfl (hop name reg units)
  | byName n => exact ⟨rfl, rfl, fun i o h => ⟨o, h, rfl, rfl, rfl⟩⟩
  | byObject j =>
    simp only [step]
    split <;> exact ⟨rfl, rfl, fun i o h => ⟨o, h, rfl, rfl, rfl⟩⟩
  | getitem j d =>
    simp only [step]
    split
    · exact ⟨rfl, rfl, fun i o h => ⟨o, h, rfl, rfl, rfl⟩⟩
    · rename_i oj hj
      split
      · exact ⟨rfl, rfl, fun i o h => ⟨o, h, rfl, rfl, rfl⟩⟩
      · rename_i e S' hg
        obtain ⟨h1, h2⟩ := getItem_frame _ _ _ _ hg
        refine ⟨rfl, by simp, ?_⟩
        intro i o ho
        by_cases hij : j = i
        · subst hij
          rw [hj] at ho; cases ho
          have hlt : j < W.heap.length := by
            rcases Nat.lt_or_ge j W.heap.length with h | h
            · exact h
            · rw [List.getElem?_eq_none h] at hj; cases hj
          exact ⟨{ oj with sys := S' }, by simp [hlt], h1, h2, rfl⟩
        · exact ⟨o, by simp [hij, ho], rfl, rfl, rfl⟩
  | setitem j d e =>
    simp only [step]
    split
    · exact ⟨rfl, rfl, fun i o h => ⟨o, h, rfl, rfl, rfl⟩⟩
    · rename_i oj hj
      split
      · exact ⟨rfl, rfl, fun i o h => ⟨o, h, rfl, rfl, rfl⟩⟩
      · rename_i S' hg
        obtain ⟨h1, h2⟩ := setItem_frame _ _ _ _ hg
        refine ⟨rfl, by simp, ?_⟩
        intro i o ho
        by_cases hij : j = i
        · subst hij
          rw [hj] at ho; cases ho
          have hlt : j < W.heap.length := by
            rcases Nat.lt_or_ge j W.heap.length with h | h
            · exact h
            · rw [List.getElem?_eq_none h] at hj; cases hj
          exact ⟨{ oj with sys := S' }, by simp [hlt], h1, h2, rfl⟩
        · exact ⟨o, by simp [hij, ho], rfl, rfl, rfl⟩

/-- **the invariant is preserved by every step** -/
theorem registry_step_inv (pre : Prefixes K) (t0 : Lut K) (inv : List (String × String))
    (W : SysWorld K) (hW : RegInv pre t0 inv W) (op : SysOp K) :
    RegInv pre t0 inv (step pre t0 inv W op).1 := by
  by_cases hc : ∃ name reg units, op = .construct name reg units
  · obtain ⟨name, reg, units, rfl⟩ := hc
    cases hi : USys.init pre t0 inv reg name units with
    | error e => rw [rejected_construction_changes_nothing pre t0 inv W name reg units e hi]; exact hW
    | ok S =>
      obtain ⟨hn, _, _, hv⟩ := init_validated pre t0 inv reg name units S hi
      simp only [step, hi]
      constructor
      · intro o ho
        rcases List.mem_append.mp ho with h | h
        · exact hW.heap_ok o h
        · simp only [List.mem_singleton] at h
          subst h; exact hv
      · intro n i hf
        by_cases hnn : n = name
        · subst hnn
          rw [dfind?_dset_self] at hf
          cases hf
          exact ⟨{ sys := S, reg := reg }, by simp, hn⟩
        · rw [dfind?_dset_ne _ _ _ _ hnn] at hf
          obtain ⟨o, ho, hon⟩ := hW.names_ok n i hf
          have hlt : i < W.heap.length := by
            rcases Nat.lt_or_ge i W.heap.length with h | h
            · exact h
            · rw [List.getElem?_eq_none h] at ho; cases ho
          exact ⟨o, by simp only [List.getElem?_append_left hlt, ho], hon⟩
  · have hop : ∀ name reg units, op ≠ .construct name reg units := fun a b c h => hc ⟨a, b, c, h⟩
    obtain ⟨hnames, hlen, hobj⟩ := getitem_setitem_keep_names pre t0 inv W op hop
    constructor
    · intro o' ho'
      obtain ⟨i, hi, hget⟩ := List.mem_iff_getElem.mp ho'
      have hi' : i < W.heap.length := hlen ▸ hi
      obtain ⟨o'', ho'', _, hb, hr⟩ := hobj i (W.heap[i]) (by simp [hi'])
      have : o'' = o' := by
        have h2 : (step pre t0 inv W op).1.heap[i]? = some o' := by simp [hi, hget]
        rw [h2] at ho''; cases ho''; rfl
      subst this
      rw [hb, hr]
      exact hW.heap_ok _ (List.getElem_mem hi')
    · intro n i hf
      rw [hnames] at hf
      obtain ⟨o, ho, hon⟩ := hW.names_ok n i hf
      obtain ⟨o', ho', hn', _, _⟩ := hobj i o ho
      exact ⟨o', ho', hn'.trans hon⟩

/-- **… and hence by every history** (induction over the list of steps: accepted and rejected
    constructions, re-registration, memoisation, overrides, look-ups, in any order) -/
theorem registry_run_inv (pre : Prefixes K) (t0 : Lut K) (inv : List (String × String))
    (ops : List (SysOp K)) (W : SysWorld K) (hW : RegInv pre t0 inv W) :
    RegInv pre t0 inv (run pre t0 inv W ops) := by
  induction ops generalizing W with
  | nil => exact hW
  | cons op ops ih => exact ih _ (registry_step_inv pre t0 inv W hW op)

/-- the world the driver reports after a history is the world of `run` -/
theorem trace_world (pre : Prefixes K) (t0 : Lut K) (inv : List (String × String))
    (ops : List (SysOp K)) (W : SysWorld K) : (trace pre t0 inv W ops).1 = run pre t0 inv W ops := by
  induction ops generalizing W with
  | nil => rfl
  | cons op ops ih => simp only [trace, run, ih]

/-- **every registered system passed the consistency check**: after ANY history, whatever a name
    resolves to is a live object that carries this name and whose `base_units` the validation loop
    of `__init__` accepted (with the registry the object was built with); a name that does not
    resolve raises `KeyError` -/
theorem registered_systems_validated (pre : Prefixes K) (t0 : Lut K) (inv : List (String × String))
    (ops : List (SysOp K)) (W : SysWorld K) (hW : RegInv pre t0 inv W) (n : String) :
    let W' := run pre t0 inv W ops
    (∃ i o, W'.resolveName n = .system i ∧ W'.heap[i]? = some o ∧ o.sys.name = n ∧
        validateAll pre t0 inv o.reg o.sys.base = .ok ()) ∨
      W'.resolveName n = .raised .KeyError := by
  have hI := registry_run_inv pre t0 inv ops W hW
  simp only [resolveName]
  cases hf : dfind? (run pre t0 inv W ops).names n with
  | none => exact Or.inr rfl
  | some i =>
    obtain ⟨o, ho, hon⟩ := hI.names_ok n i hf
    exact Or.inl ⟨i, o, rfl, ho, hon, hI.heap_ok o (List.mem_of_getElem? ho)⟩

/-- `_sanitize_unit_system(obj)` goes through the object's NAME: it answers what the name answers
    (a stale object whose name was re-registered resolves to the newer system) and changes nothing -/
theorem byObject_resolves_by_name (pre : Prefixes K) (t0 : Lut K) (inv : List (String × String))
    (W : SysWorld K) (i : Nat) (o : SysObj K) (ho : W.heap[i]? = some o) :
    step pre t0 inv W (.byObject i) = step pre t0 inv W (.byName o.sys.name) := by
  simp only [step, ho]

/-- in a world satisfying the invariant the object a registered name resolves to resolves to itself -/
theorem registered_object_resolves_to_itself (pre : Prefixes K) (t0 : Lut K) (inv : List (String × String))
    (W : SysWorld K) (hW : RegInv pre t0 inv W) (n : String) (i : Nat)
    (h : W.resolveName n = .system i) : (step pre t0 inv W (.byObject i)).2 = .system i := by
  simp only [resolveName] at h
  cases hj : dfind? W.names n with
  | none => rw [hj] at h; cases h
  | some j =>
    rw [hj] at h
    cases h
    obtain ⟨o, ho, hon⟩ := hW.names_ok n i hj
    simp only [step, ho, hon, resolveName, hj]

end

end C10
end Unyt
