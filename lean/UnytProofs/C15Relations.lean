/-
  C15 — the defining relations in plain mathematical form.

  `valueOf ρ X` is the real value of the constants-table name `X` as a function of the base
  constants `ρ` (the literal-defined names of `_physical_ratios.py`), obtained from the
  *regenerated* source-level definitions.  Each theorem holds for every positive `ρ` — the
  source defines these constants by the relation, whatever the measured inputs are.  All are
  instances of `Unyt.C15.defining_relations` (normaliser soundness + kernel-decided normal forms).
-/
import UnytProofs.C15

namespace Unyt.C15
open Unyt PCheck Generated Ref.C15 C15Real
/-- real value of a name of the constants table, as a function of the base constants -/
noncomputable def valueOf (ρ : String → ℝ) (n : String) : ℝ := (closeRel (.ref n)).eval ρ

local macro "unfold_relation" h:ident : tactic =>
  `(tactic| (
    simp only [relations, List.getElem_cons_succ, List.getElem_cons_zero, cref, clit, csq, hbarE, closeRel,
      CExpr.subst, CExpr.eval, OfRat.ofRat, Transc.pi, Transc.sqrt, RPow.rpow] at $h:ident
    simp only [valueOf, closeRel, CExpr.subst]
    try simp only [Rat.cast_ofNat, Rat.cast_one, Real.rpow_ofNat] at $h:ident))

variable (ρ : String → ℝ) (hρ : ∀ s, 0 < ρ s)
include hρ

theorem hbar_is_h_over_two_pi : valueOf ρ "hbar" = valueOf ρ "h" / (2 * Real.pi) := by
  have h := defining_relations ρ hρ (relations[0]'(by decide)) (List.getElem_mem _)
  unfold_relation h
  exact h

theorem eps0_mu0_c_squared_is_one : valueOf ρ "eps_0" * valueOf ρ "mu_0" * valueOf ρ "c" ^ 2 = 1 := by
  have h := defining_relations ρ hρ (relations[1]'(by decide)) (List.getElem_mem _)
  unfold_relation h
  exact h

theorem stefan_boltzmann_relation :
    valueOf ρ "σ" = 2 * Real.pi ^ 5 * valueOf ρ "kb" ^ 4 / (15 * valueOf ρ "c" ^ 2 * valueOf ρ "h" ^ 3) := by
  have h := defining_relations ρ hρ (relations[3]'(by decide)) (List.getElem_mem _)
  unfold_relation h
  exact h

theorem radiation_constant_relation : valueOf ρ "a" = 4 * valueOf ρ "σ" / valueOf ρ "c" := by
  have h := defining_relations ρ hρ (relations[4]'(by decide)) (List.getElem_mem _)
  unfold_relation h
  exact h

theorem rydberg_relation :
    valueOf ρ "R_inf" = valueOf ρ "me" * valueOf ρ "qp" ^ 4
      / (8 * valueOf ρ "eps_0" ^ 2 * valueOf ρ "h" ^ 3 * valueOf ρ "c") := by
  have h := defining_relations ρ hρ (relations[5]'(by decide)) (List.getElem_mem _)
  unfold_relation h
  exact h

theorem planck_mass_relation :
    valueOf ρ "m_pl" = Real.sqrt (valueOf ρ "hbar" * valueOf ρ "c" / valueOf ρ "G") := by
  have h := defining_relations ρ hρ (relations[6]'(by decide)) (List.getElem_mem _)
  unfold_relation h
  exact h

theorem planck_length_relation :
    valueOf ρ "l_pl" = Real.sqrt (valueOf ρ "hbar" * valueOf ρ "G" / valueOf ρ "c" ^ 3) := by
  have h := defining_relations ρ hρ (relations[7]'(by decide)) (List.getElem_mem _)
  unfold_relation h
  exact h

theorem planck_time_relation :
    valueOf ρ "t_pl" = Real.sqrt (valueOf ρ "hbar" * valueOf ρ "G" / valueOf ρ "c" ^ 5) := by
  have h := defining_relations ρ hρ (relations[8]'(by decide)) (List.getElem_mem _)
  unfold_relation h
  exact h

theorem planck_temperature_relation :
    valueOf ρ "T_pl" = Real.sqrt (valueOf ρ "hbar" * valueOf ρ "c" ^ 5 / valueOf ρ "G") / valueOf ρ "kb" := by
  have h := defining_relations ρ hρ (relations[10]'(by decide)) (List.getElem_mem _)
  unfold_relation h
  exact h

theorem planck_charge_relation :
    valueOf ρ "q_pl" = Real.sqrt (4 * Real.pi * valueOf ρ "eps_0" * valueOf ρ "hbar" * valueOf ρ "c") := by
  have h := defining_relations ρ hρ (relations[11]'(by decide)) (List.getElem_mem _)
  unfold_relation h
  exact h

/-- the hypothesis is satisfiable, e.g. by the source's own literals -/
example : ∀ s, 0 < sourceEnv s := sourceEnv_pos base_constants_positive

end Unyt.C15
