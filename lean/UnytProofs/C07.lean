/-
  C07 — NumPy functions propagate units covariantly and never drop them silently.

  Shape of the argument:
  * P-gen `degree_rule_covariant`: a result component that is positively homogeneous of multi-degree `d`
    in the operand groups and is labelled `Π u_g^{d_g}` denotes the same physical quantity whatever
    units the operands are written in — for every lawful rational power (ℝ: `Real/C07Real.lean`, where
    the converse `wrong_degree_breaks_covariance` is proved too).
  * P-tab `unit_rule_is_degree`: for every handler × call form of the regenerated table
    (`Generated.ruleRows`: the unit label each handler of the live unyt/_array_functions.py attaches,
    as exponent expressions in the shapes) the label IS the hand-written homogeneity degree
    (`Ref.expected`), symbolically in the shapes — except the literal exclusion list `Ref.exclC07`,
    every entry of which is witnessed by a row (`exclusions_are_real`, and one `…_counterexample` theorem
    per excluded pair below; `np.linalg.det` and `np.einsum`, repaired by `fix:` commits, are positive
    statements now).
  * `same_sound` / `sizeRatio_eq_reduced` (Lemmas/C07): the symbolic comparison is sound for all
    shapes; `a.size // res.size` is the number of factors of a product over any axes.
  * P-tab `dimensional_results_keep_units` (UnytProofs/C07Lists.lean): every function on the hand-written list of
    dimension-preserving functions is either on the default path (then only the correspondence speaks)
    or handled with a unit-carrying result of degree one in its input.
  What the numeric kernels compute (that `np.linalg.det` IS homogeneous of degree n, …) is the
  hand-written reference, not derived; default-path functions are covered by correspondence only.
-/
import UnytModel.UnitRules
import UnytModel.UnitRulesCheck
import UnytModel.Generated.UnitRules
import UnytModel.Generated.Handlers
import UnytModel.Ref.C07Degrees
import UnytModel.Ref.C07Exclusions
import UnytProofs.Lemmas.C07

set_option linter.unusedSectionVars false

namespace Unyt.C07
open Unyt Unyt.UR

section general
variable {K : Type} [Lean.Grind.Field K] [RPow K]
variable (P : K → Prop)

/-- P-gen: let the operands of group `g` be written in units of scale `u g`, and re-expressed in
    units of scale `u' g` (so their numbers are multiplied by `lam g`, `lam g * u' g = u g`).  If a
    result component is positively homogeneous of multi-degree `d` (its number `r` becomes
    `Π lam_g^{d_g} · r`) and the handler labels it `Π u_g^{d_g}`, then the SI magnitude of the
    labelled result is the same in both runs: the result changes only by re-expression. -/
theorem degree_rule_covariant (laws : RPowLaws (RPow.rpow (K := K)) P) (u u' lam : String → K) (d : List (String × Rat)) (r r' : K)
    (hpos : ∀ g, P (u' g) ∧ P (lam g)) (hconv : ∀ g, lam g * u' g = u g)
    (hhom : r' = labelScale lam d * r) :
    labelScale u' d * r' = labelScale u d * r := by
  rw [hhom, ← labelScale_reexpress P laws u u' lam hpos hconv d]
  grind

/-- the same for a unitless result: a scale-invariant component (all degrees zero) is unchanged -/
theorem degree_zero_unchanged (laws : RPowLaws (RPow.rpow (K := K)) P) (lam : String → K) (gs : List String) (r r' : K)
    (hpos : ∀ g, P (lam g))
    (hhom : r' = labelScale lam (gs.map fun g => (g, (0 : Rat))) * r) : r' = r := by
  rw [hhom]
  have : ∀ l : List String, labelScale lam (l.map fun g => (g, (0 : Rat))) = 1 := by
    intro l
    induction l with
    | nil => rfl
    | cons g t ih => simp only [List.map, labelScale, ih, laws.rpow_zero (hpos g)]; grind
  rw [this]; grind

/-- the symbolic comparison carries over to every concrete call: if the table check accepted the
    exponent expression of a leaf against the reference expression, then for ALL shapes (every valid
    environment) the handler's exponent is the reference degree -/
theorem accepted_exponent_is_degree (env : Env) (rule ref : Expo)
    (hv : EnvValidFor (rule.reducedParams ++ ref.reducedParams) env)
    (h : rule.same ref = true) : rule.eval env = ref.eval env :=
  same_sound env rule ref (fun p hp => hv p (List.mem_append_left _ hp))
    (fun p hp => hv p (List.mem_append_right _ hp)) h

end general

/-! ### the regenerated table against the reference -/

/-- the full statement AT THE LEVEL OF THE TABLE: every handler's unit rule is the reference degree (no row
    has a defect).  This is not the property itself — the property for one result component is `CovariantLeaf`
    below, and `C07_partial_property` is the bridge from "no defect" to it (given the reference homogeneity of
    the kernel, which no theorem here establishes). -/
def C07_full : Prop := ∀ r ∈ Generated.ruleRows, rowDefects r = []

/-- P-tab: every defect of every handler × call-form row of the regenerated table is on the literal
    exclusion list (decided by the kernel over the whole table, chunk by chunk) -/
theorem unit_rule_is_degree_0 : tableOk Ref.exclC07 Generated.ruleRows0 = true := by decide +kernel
theorem unit_rule_is_degree_1 : tableOk Ref.exclC07 Generated.ruleRows1 = true := by decide +kernel
theorem unit_rule_is_degree_2 : tableOk Ref.exclC07 Generated.ruleRows2 = true := by decide +kernel
theorem unit_rule_is_degree_3 : tableOk Ref.exclC07 Generated.ruleRows3 = true := by decide +kernel

theorem unit_rule_is_degree : tableOk Ref.exclC07 Generated.ruleRows = true := by
  have h0 := unit_rule_is_degree_0
  have h1 := unit_rule_is_degree_1
  have h2 := unit_rule_is_degree_2
  have h3 := unit_rule_is_degree_3
  simp only [tableOk, Generated.ruleRows, List.all_append, Bool.and_eq_true] at *
  exact ⟨⟨⟨h0, h1⟩, h2⟩, h3⟩

/-- every exclusion is witnessed by a regenerated row (it cannot outlive its finding) -/
theorem exclusions_are_real : exclusionsWitnessed Ref.exclC07 Generated.ruleRows = true := by
  decide +kernel

/-- the `ast` pass (source: all shapes) and the dynamic fit (sampled shapes: 3 data seeds × the catalogue's
    shape classes) give the same shape-dependent exponents.  Both directions, over EVERY row: (i) every
    non-constant exponent the fit found in any leaf or out= label of any row is literally `units ** <that
    expression>` in the handler's source (or a helper it calls); (ii) every non-constant `units ** e` of a
    handler's source is the exponent of every returning row of that function.  So no shape-dependent row
    rests on the fit alone.  What still rests on the sampled shapes: that a CONSTANT fitted exponent is
    constant for all shapes — the source then has no `units ** <non-constant>` at all (by (ii)), so it could
    only vary through a data- or shape-dependent branch in the handler (disclosed in the manifest). -/
theorem static_exponents_match : staticsMatch Generated.staticExpos Generated.ruleRows = true := by
  decide +kernel

/-- which functions have shape-dependent rows at all: `np.prod` and `np.linalg.det` -/
theorem shape_dependent_functions :
    (Generated.ruleRows.all fun r => (rowExpos r).all isConst || r.func == "numpy.prod" || r.func == "numpy.linalg.det") = true := by
  decide +kernel

/-- every handler the probe reaches has a reference entry ("missing" is a defect and is not excludable;
    that the rows cover exactly `_HANDLED_FUNCTIONS` is checked against the live table by the harness) -/
theorem reference_covers_handlers : (Ref.exclC07.all fun e => e.2 != "missing") = true := by
  decide +kernel

/-- partial statement with an explicit decidable guard: rows of functions the exclusion list does not
    mention have no defect at all -/
theorem C07_partial :
    ∀ r ∈ Generated.ruleRows, (Ref.exclC07.all fun e => e.1 != r.func) = true → rowDefects r = [] := by
  intro r hr hguard
  have h := unit_rule_is_degree
  simp only [tableOk, List.all_eq_true] at h
  have hr' := h r hr
  cases hd : rowDefects r with
  | nil => rfl
  | cons d ds =>
    exfalso
    have hd' := hr' d (by rw [hd]; exact List.mem_cons_self ..)
    rw [List.all_eq_true] at hguard
    have hc : (r.func, d) ∈ Ref.exclC07 := by simpa using hd'
    have := hguard (r.func, d) hc
    simp at this

/-- … and what that says for ALL shapes: in a returning row of a function outside the exclusion
    list, for every result leaf the reference gives units to and every operand group, the exponent
    the handler attaches evaluates to the reference degree in every valid call (every shape) — and
    every leaf the reference calls unitless has all exponents zero -/
theorem C07_partial_all_shapes (r : Row) (hr : r ∈ Generated.ruleRows)
    (hguard : (Ref.exclC07.all fun e => e.1 != r.func) = true) (hnr : r.raised = false)
    (specs : List Ref.LeafSpec) (hexp : Ref.expected r.callForm = .leaves specs) :
    specs.length = r.leaves.length ∧
    ∀ p ∈ specs.zip r.leaves,
      (∀ l, p.1 = .units l → ∀ g ∈ r.groups, ∃ e, expectedExpo r l g = some e ∧
          ∀ env, EnvValidFor ((expoOf p.2.expo g).reducedParams ++ e.reducedParams) env →
            (expoOf p.2.expo g).eval env = e.eval env)
      ∧ (p.1 = .unitless → ∀ ge ∈ p.2.expo, ∀ env, EnvValidFor ge.2.reducedParams env →
            ge.2.eval env = some 0) := by
  have hd := C07_partial r hr hguard
  unfold rowDefects at hd
  simp only [hnr, hexp, Bool.false_eq_true, if_false, List.append_eq_nil_iff] at hd
  obtain ⟨⟨hz, _⟩, _⟩ := hd
  by_cases ht : r.tailRepeats = true
  · simp [ht] at hz
  · simp only [ht] at hz
    obtain ⟨hlen, hall⟩ := zipDefects_sound r specs r.leaves 0 hz
    refine ⟨hlen, ?_⟩
    intro p hp
    obtain ⟨j, hj⟩ := hall p hp
    refine ⟨?_, ?_⟩
    · intro l hl g hg
      rw [hl] at hj
      obtain ⟨e, he, hs⟩ := leafDefects_units_sound r j l p.2 hj g hg
      exact ⟨e, he, fun env hv => accepted_exponent_is_degree env _ _ hv hs⟩
    · intro hl ge hge env hv
      rw [hl] at hj
      have hz0 := leafDefects_unitless_sound r j p.2 hj ge hge
      have := same_sound env ge.2 (.const 0) hv (by intro p hp; simp [Expo.reducedParams] at hp) hz0
      simpa [Expo.eval] using this

/-- the executable label (`Leaf.scale`, what the driver evaluates and the correspondence compares with
    `units.base_value`) inherits covariance: whenever the exponents a leaf evaluates to are the
    homogeneity degrees of the component, the labelled SI magnitude is invariant under re-expression -/
theorem labelled_leaf_covariant {K : Type} [Lean.Grind.Field K] [RPow K] (P : K → Prop)
    (laws : RPowLaws (RPow.rpow (K := K)) P) (leaf : Leaf) (env : Env) (d : List (String × Rat))
    (hd : leaf.exponents env = some d) (u u' lam : String → K) (x x' : K)
    (hpos : ∀ g, P (u' g) ∧ P (lam g)) (hconv : ∀ g, lam g * u' g = u g)
    (hhom : x' = labelScale lam d * x) :
    ∃ s s', leaf.scale u env = some s ∧ leaf.scale u' env = some s' ∧ s' * x' = s * x := by
  refine ⟨labelScale u d, labelScale u' d, by simp [Leaf.scale, hd], by simp [Leaf.scale, hd], ?_⟩
  exact degree_rule_covariant P laws u u' lam d x x' hpos hconv hhom

/-- every regenerated label has the scale of the product of the operand scales also when the operand
    units cancel across groups with a numeric coefficient (`kappa = 1`: no handler simplifies the unit of
    its result without applying the simplification coefficient to the numbers; not excludable) -/
theorem labels_apply_coefficient :
    (Generated.ruleRows.all fun r => r.raised || kappaDefects r == []) = true
    ∧ (Ref.exclC07.all fun e => !e.2.startsWith "coefficient") = true := by
  decide +kernel

/-- … and why that is required: if the attached unit's scale is `kap · Π u_g^{d_g}` with a factor `kap`
    that depends on how the operands are written (`kap ≠ kap'`), the SI magnitude of a covariant,
    non-zero result changes under re-expression -/
theorem dropped_coefficient_breaks_covariance {K : Type} [Lean.Grind.Field K]
    (kap kap' L L' x x' : K) (hcov : L' * x' = L * x) (hne : L * x ≠ 0) (hk : kap ≠ kap') :
    (kap' * L') * x' ≠ (kap * L) * x := by
  intro h
  have h1 : kap' * (L * x) = kap * (L * x) := by rw [← hcov]; grind
  have h2 : (kap' - kap) * (L * x) = 0 := by grind
  have h3 : kap' - kap = 0 := by
    have := Lean.Grind.Field.mul_inv_cancel hne
    have h4 : (kap' - kap) * ((L * x) * (L * x)⁻¹) = 0 := by
      rw [← Lean.Grind.Semiring.mul_assoc, h2]; grind
    rw [this] at h4; grind
  exact hk (by grind)

/-! ### the property itself, for one result leaf of one handled call -/

/-- THE PROPERTY for a unit-carrying result component: whatever positive scales `u`, `u'` the operand
    groups are written in (numbers multiplied by `lam g`, `lam g · u' g = u g`), the SI magnitude of the
    labelled component — (scale of the label the handler attaches, `Leaf.scale`, the function the driver
    executes) × (number) — is the same in both runs, GIVEN that the numeric component `x ↦ x'` is
    positively homogeneous with the multi-degree `deg` (the kernel's mathematics: the hand-written reference
    for handled functions; an assumption, validated only by the re-expression oracle). -/
def CovariantLeaf {K : Type} [Lean.Grind.Field K] [RPow K] (P : K → Prop) (leaf : Leaf) (env : Env)
    (deg : List (String × Rat)) : Prop :=
  ∀ (u u' lam : String → K) (x x' : K),
    (∀ g, P (u' g) ∧ P (lam g)) → (∀ g, lam g * u' g = u g) → x' = labelScale lam deg * x →
    ∃ s s', leaf.scale u env = some s ∧ leaf.scale u' env = some s' ∧ s' * x' = s * x

/-- the reference degrees of a leaf, listed along the label's own operand groups -/
def refDegrees (r : Row) (l : List (String × Expo)) (leaf : Leaf) (env : Env) : Option (List (String × Rat)) :=
  leaf.expo.mapM fun (g, _) => ((expectedExpo r l g).bind (·.eval env)).map fun q => (g, q)

/-- every label of a returning row mentions operand groups of the call only (no stale `out`, no unknown) -/
theorem label_groups_are_operand_groups :
    (Generated.ruleRows.all fun r => r.raised || !(Ref.exclC07.all fun e => e.1 != r.func) ||
      r.leaves.all fun l => l.expo.all fun ge => r.groups.contains ge.1) = true := by
  decide +kernel

/-- COMPOSITION (table obligation ⇒ property, leaf by leaf): in a returning row of a function outside the
    exclusion list, every leaf the reference gives units is covariant for every concrete call (every
    shape: any environment in which the reduced counts the expressions mention are what
    `size // result.size` computes), provided the kernel has the reference's homogeneity degrees -/
theorem C07_partial_property {K : Type} [Lean.Grind.Field K] [RPow K] (P : K → Prop)
    (laws : RPowLaws (RPow.rpow (K := K)) P)
    (r : Row) (hr : r ∈ Generated.ruleRows)
    (hguard : (Ref.exclC07.all fun e => e.1 != r.func) = true) (hnr : r.raised = false)
    (specs : List Ref.LeafSpec) (hexp : Ref.expected r.callForm = .leaves specs)
    (p : Ref.LeafSpec × Leaf) (hp : p ∈ specs.zip r.leaves) (l : List (String × Expo)) (hl : p.1 = .units l)
    (env : Env)
    (hv : ∀ g ∈ r.groups, ∀ e, expectedExpo r l g = some e →
      EnvValidFor ((expoOf p.2.expo g).reducedParams ++ e.reducedParams) env)
    (hnodup : (p.2.expo.map (·.1)).Nodup)
    (deg : List (String × Rat)) (hdeg : refDegrees r l p.2 env = some deg) :
    CovariantLeaf P p.2 env deg := by
  obtain ⟨_, hall⟩ := C07_partial_all_shapes r hr hguard hnr specs hexp
  obtain ⟨hunits, _⟩ := hall p hp
  have hkeys : ∀ ge ∈ p.2.expo, ge.1 ∈ r.groups := by
    have h := label_groups_are_operand_groups
    rw [List.all_eq_true] at h
    have h1 := h r hr
    simp only [hnr, hguard, Bool.false_or, Bool.not_true, List.all_eq_true] at h1
    intro ge hge
    have := h1 p.2 (List.of_mem_zip hp).2 ge hge
    simpa using this
  -- the leaf's own exponents ARE the reference degrees
  have hsame : p.2.exponents env = refDegrees r l p.2 env := by
    unfold Leaf.exponents refDegrees
    apply mapM_congr_opt
    intro ge hge
    obtain ⟨g, ex⟩ := ge
    obtain ⟨e, he, heq⟩ := hunits l hl g (hkeys (g, ex) hge)
    have hfind : expoOf p.2.expo g = ex := by
      unfold expoOf
      have := find_of_nodup p.2.expo g ex hge hnodup
      simp [this]
    simp only [he, Option.bind_some]
    rw [← heq env (hv g (hkeys (g, ex) hge) e he), hfind]
  rw [hdeg] at hsame
  intro u u' lam x x' hpos hconv hhom
  exact labelled_leaf_covariant P laws p.2 env deg hsame u u' lam x x' hpos hconv hhom

/-- precise form of the partial statement (guard = the recorded (function, defect) pairs, not whole
    functions): a row none of whose defects is recorded has no defect at all -/
theorem C07_partial_precise :
    ∀ r ∈ Generated.ruleRows, ((rowDefects r).all fun d => !Ref.exclC07.contains (r.func, d)) = true →
      rowDefects r = [] := by
  intro r hr hg
  have h := unit_rule_is_degree
  simp only [tableOk, List.all_eq_true] at h
  cases hd : rowDefects r with
  | nil => rfl
  | cons d ds =>
    exfalso
    have h1 := h r hr d (by rw [hd]; exact List.mem_cons_self ..)
    rw [List.all_eq_true] at hg
    have h2 := hg d (by rw [hd]; exact List.mem_cons_self ..)
    rw [h1] at h2; exact Bool.noConfusion h2

/-- unyt violates the full statement on the unchanged tree -/
theorem C07_counterexample : ¬ C07_full := by
  intro h
  have hb : (Generated.ruleRows.all fun r => (rowDefects r).isEmpty) = true := by
    rw [List.all_eq_true]
    intro r hr
    simp [h r hr]
  have : (Generated.ruleRows.all fun r => (rowDefects r).isEmpty) = false := by decide +kernel
  rw [this] at hb
  exact Bool.noConfusion hb

/-! ### the excluded rows, refuted concretely -/

/-- `np.linalg.det` (after the fix: `a.units ** a.shape[-1]`): the regenerated rule is the matrix order,
    for single matrices and for stacks of any depth alike -/
theorem det_rule_is_matrix_order :
    (Generated.ruleRows.all fun r => r.func != "numpy.linalg.det" || r.raised ||
      (r.leaves.all fun l => l.carries && l.expo == [("0", Expo.dim "a" (-1))])) = true := by decide +kernel

/-- … e.g. units**3 for a (2, 3, 3) stack, where the stack size is 2 -/
example :
    let env : Env := ⟨fun _ => some [2, 3, 3], 2, fun _ => none, fun _ => 0⟩
    (Expo.dim "a" (-1)).eval env = some 3 ∧ (Expo.dim "a" 0).eval env = some 2 := by
  decide +kernel

/-- `np.einsum` (after the fix: product of the operand units): one degree per operand in every row -/
theorem einsum_rule_is_operand_count :
    (Generated.ruleRows.all fun r => r.func != "numpy.einsum" || r.raised || rowDefects r == []) = true
    ∧ (Generated.ruleRows.any fun r => r.func == "numpy.einsum" && r.variant == "inner" && !r.raised
        && r.leaves.all (fun l => l.expo == [("0", Expo.const 2)])) = true := by
  decide +kernel

/-- `np.linalg.lstsq`: the residuals (second leaf) are labelled `b/a`, their degree is `b²` -/
theorem lstsq_counterexample :
    (Generated.ruleRows.any fun r => r.func == "numpy.linalg.lstsq" && !r.raised
      && (rowDefects r).contains "degree:1:1:c:1/c:2") = true := by decide +kernel

/-- `np.prod(x, where=mask)` returns a value although no label can be right -/
theorem prod_where_counterexample :
    (Generated.ruleRows.any fun r => r.func == "numpy.prod" && r.variant == "where" && !r.raised
      && rowDefects r == ["refuse"]) = true := by decide +kernel

/-- the remaining exclusions, one witness each (the defect string names leaf, group, handler exponent /
    reference degree; by `wrong_degree_breaks_covariance` each wrong exponent breaks covariance) -/
theorem lstsq_residuals_a_counterexample :
    (Generated.ruleRows.any fun r => r.func == "numpy.linalg.lstsq" && !r.raised
      && (rowDefects r).contains "degree:1:0:c:-1/c:0") = true := by decide +kernel
theorem histogram_density_weights_counterexample :
    (Generated.ruleRows.any fun r => r.func == "numpy.histogram" && !r.raised
      && (rowDefects r).contains "degree:0:1:c:1/c:0") = true := by decide +kernel
theorem histogram2d_density_weights_counterexample :
    (Generated.ruleRows.any fun r => r.func == "numpy.histogram2d" && !r.raised
      && (rowDefects r).contains "degree:0:2:c:1/c:0") = true := by decide +kernel
theorem prod_initial_counterexample :
    (Generated.ruleRows.any fun r => r.func == "numpy.prod" && !r.raised
      && (rowDefects r).contains "degree:0:0:r:a/k:a+1") = true := by decide +kernel
theorem logspace_base_counterexample :
    (Generated.ruleRows.any fun r => r.func == "numpy.logspace" && !r.raised && rowDefects r == ["refuse"]) = true := by
  decide +kernel
theorem sinc_counterexample :
    (Generated.ruleRows.any fun r => r.func == "numpy.sinc" && !r.raised && rowDefects r == ["refuse"]) = true := by
  decide +kernel

/-! ### non-vacuity -/

/-- `degree_rule_covariant` over ℚ-like data is exercised in `Real/C07Real.lean` (ℝ, `Real.rpow`);
    here: instances of the table obligations -/
example : (Generated.ruleRows.any fun r => r.func == "numpy.linalg.inv" && !r.raised
    && r.leaves.all (fun l => l.carries && l.expo == [("0", Expo.const (-1))]) && rowDefects r == []) = true := by
  decide +kernel

/-- `C07_partial_all_shapes` has instances: a returning, non-excluded row with a `leaves` reference -/
example : (Generated.ruleRows.any fun r => r.func == "numpy.linalg.solve" && !r.raised
    && (Ref.exclC07.all fun e => e.1 != r.func)
    && (match Ref.expected r.callForm with | .leaves [.units _] => true | _ => false)) = true := by
  decide +kernel

/-- the guard of `C07_partial` is met by most of the table -/
example : ((Generated.ruleRows.filter fun r => Ref.exclC07.all fun e => e.1 != r.func).length ≥ 400) = true := by
  decide +kernel

/-- a shape-dependent exponent that IS the degree: `np.prod` (`a.size // res.size` = reduced count) -/
example : (Expo.sizeRatio "a").same (Expo.reduced "a") = true := by decide +kernel

/-- `EnvValid` has instances: the environment of `np.prod(x, axis=1)` on a (4, 3) array -/
example : EnvValid ⟨fun _ => some [4, 3], 4, fun _ => some 3, fun _ => 0⟩ := by
  intro p; simp [Expo.eval, Shape.size]

/-- … and in general for every reduction (Lemmas/C07: `sizeRatio_eq_reduced`) -/
example (axs : List Nat) (keep : Bool) (s : Shape) (h : 0 < Shape.size (Shape.reduceFrom 0 axs keep s)) :
    EnvValid ⟨fun _ => some s, Shape.size (Shape.reduceFrom 0 axs keep s), fun _ => some (reducedCount 0 axs s), fun _ => 0⟩ := by
  intro p
  simp only [Expo.eval, Option.bind_some]
  rw [if_neg (by omega), sizeRatio_eq_reduced axs keep s h]
  rfl

/-- a dimension-preserving function on the default path, one that is handled -/
example : Np.route Generated.npUnsupported Generated.npHandled "numpy.sort" = Np.Route.default := by decide +kernel
example : Np.route Generated.npUnsupported Generated.npHandled "numpy.take" = Np.Route.handled := by decide +kernel

end Unyt.C07
