/-
  C15 — kernel-decided obligation tying the general theorems of `UnytProofs/C15AddConstants.lean`
  to the regenerated tables: for every built-in unit system and every row of `physical_constants`,
  the hypotheses of `materialise_preserves_quantity` are met (the row's unit resolves, is what its own
  expression resolves to, is offset-free; the result unit is offset-free with a non-zero scale) and
  the model's `add_constants` body, run at ℚ on the exact value of the row's double, files a reading
  with the SI magnitude and dimension of the row — or, where the unit is sent to its Gaussian
  partner (an EM unit in a system without a current unit: cgs), the reading is the row's value times
  exactly the `em_conversions` factor.
-/
import UnytModel.AddConstants
import UnytModel.SystemTables
import UnytModel.PhysicalConstantsCheck

namespace Unyt.C15
open Unyt AddConstants Generated PCheck Ref.C15

section
attribute [local instance] ratPowStub

/-- the check for one unit system and one table row (unit factors, exact value) -/
def rowAddOk (S : USys Rat) (fs : List (String × Rat)) (x : Rat) : Bool :=
  match mkUnit c10Pre c10Lut ⟨1, fs⟩ with
  | .error _ => false
  | .ok u =>
    (match mkUnit c10Pre c10Lut u.expr with
     | .ok nu => nu.scale == u.scale && nu.offset == u.offset && nu.dim == u.dim
     | .error _ => false)
    && u.offset == 0
    && (match materialise c10Pre c10Lut c10Em S u x with
        | .error _ => false
        | .ok (y, v) =>
          v.offset == 0 && v.scale != 0 &&
          (if !c10Em.hasDim u.dim || (u.dim.hasCurrent && S.hasCurrent) then
             siMag (y, v) == siMag (x, u) && v.dim == u.dim
           else
             match emHit c10Pre c10Lut c10Em u with
             | some (_, r) => y == x * r.factor && v.dim == r.toDim
             | none => false))

def systemAddOk (S : USys Rat) : Bool :=
  constTable.all fun c => rowAddOk S c.unitFactors (ratOfBits c.value)

def allSystemsAddOk : Bool := (builtinSystems Rat).all systemAddOk

/-- the charge rows take the EM route in every system: with a current (`em-current`), or Gaussian -/
def chargeRoutes : List String :=
  (builtinSystems Rat).map fun S =>
    match mkUnit c10Pre c10Lut (UExpr.sym "C") with
    | .ok u => routeLabel c10Pre c10Lut c10Em S u
    | .error _ => "unit-error"

/-- does the namespace `sid` of the regenerated table belong to a unit system with a current unit
    (`sys:<name>` → the regenerated system of that name; `pc`, `top`, `fresh` and the translator's
    custom system use the default ampere) -/
def spaceSystemHasCurrent (sid : String) : Bool :=
  match sid.toList with
  | 's' :: 'y' :: 's' :: ':' :: rest =>
    match findSystem Rat (String.ofList rest) with
    | some S => S.hasCurrent
    | none => true
  | _ => true

/-- every plain / `_mks` / `hmks` entry has the very dimension of its table row -/
def plainDimIsTable (rows : List MatRow) : Bool :=
  (rowsByConst rows).all fun p => p.2.all fun gr =>
    (gr.1 == .cgs || gr.1 == .hcgs) || gr.2.dim == p.1.spec.dim

/-- a model reading against a regenerated entry: SI magnitude (2⁻⁴⁵ relative), dimension, unit scale -/
def readingMatches (r : Rat × UnitV Rat) (m : MatRow) : Bool :=
  within (siMag r) m.mag guiseTol && r.2.dim == m.dim && within r.2.scale (ratOfBits m.scale) guiseTol

/-- the model of `add_constants`, run on a regenerated unit system, reproduces the regenerated
    namespace of that system: every plain / `_mks` / `_cgs` (and `hmks` / `hcgs`) entry of every row is
    the model's reading, and `_cgs` entries exist only where the model writes one -/
def modelReproduces (S cgsS : USys Rat) (rows : List MatRow) : Bool :=
  (rowsByConst rows).all fun p =>
    match mkUnit c10Pre c10Lut ⟨1, p.1.unitFactors⟩ with
    | .error _ => false
    | .ok u =>
      match addConstantsRow c10Pre c10Lut c10Em S cgsS u (ratOfBits p.1.value) with
      | .error _ => false
      | .ok g =>
        p.2.all fun gr =>
          match gr.1 with
          | .plain => readingMatches g.plain gr.2
          | .mks | .hmks => readingMatches g.mks gr.2
          | .cgs | .hcgs => match g.cgs with | some c => readingMatches c gr.2 | none => false

def modelReproducesAll : Bool :=
  match findSystem Rat "cgs" with
  | none => false
  | some cgsS =>
    spaces.all fun s =>
      match s.1.toList with
      | 's' :: 'y' :: 's' :: ':' :: rest =>
        match findSystem Rat (String.ofList rest) with
        | some S => modelReproduces S cgsS s.2
        | none => true
      | _ => true

/-- the namespaces the obligation really runs on -/
def modelledSpaces : List String :=
  spaces.filterMap fun s =>
    match s.1.toList with
    | 's' :: 'y' :: 's' :: ':' :: rest => (findSystem Rat (String.ofList rest)).map fun _ => s.1
    | _ => none

def plainDimOk : Bool := spaces.all fun s => !spaceSystemHasCurrent s.1 || plainDimIsTable s.2

end

/-- "equal as quantities" admits the Gaussian counterpart only where SI is not available: in every
    namespace built on a unit system that has a current unit, every non-`_cgs` guise of every constant
    has the dimension of its table row (narrows `materialised_match_table`, whose `sameQuantity`
    accepts SI or Gaussian in either direction) -/
theorem plain_guises_keep_dimension_in_current_systems : plainDimOk = true := by decide +kernel

example : (spaces.filter fun s => !spaceSystemHasCurrent s.1).map (·.1) = ["sys:cgs"] := by decide +kernel

/-- **the model reproduces the library's namespaces** (kernel, ℚ at the exact doubles): for each of the
    built-in unit systems, what the model of `add_constants` writes for every row and guise is what the
    regenerated namespace of `add_constants(ns, UnitRegistry(unit_system=…))` holds — SI magnitude and
    unit scale to 2⁻⁴⁵, dimension exactly, `_cgs` present exactly where the model writes it -/
theorem model_reproduces_builtin_namespaces : modelReproducesAll = true := by decide +kernel

example : modelledSpaces.length ≥ 7 := by decide +kernel

/-- every row of `physical_constants`, materialised by the model of `add_constants` for every
    built-in unit system, is the table's quantity (or its Gaussian reading by the table's factor),
    and meets the hypotheses of the general theorem -/
theorem builtin_systems_materialise_table : allSystemsAddOk = true := by decide +kernel

/-- non-vacuity: the seven built-in systems are there, and the coulomb takes the EM route in each —
    with a current unit everywhere except cgs, where it goes to its Gaussian partner (in mks the
    system's charge unit is the coulomb itself: the short-cut) -/
theorem charge_rows_take_the_em_route :
    (builtinSystems Rat).length ≥ 7 ∧
    chargeRoutes.all (fun r => r == "em-current" || r == "em-gaussian" || r == "em-shortcut") = true ∧
    chargeRoutes.count "em-current" ≥ 4 := by decide +kernel

end Unyt.C15
