/-
  C06 — operand identity and early exits (part of property C06: "attaching units never changes which
  computation is carried out").

  Subject: `Np.runGuarded` (UnytModel/NpAlias.lean) = the handler's pre-kernel exits, regenerated from
  the live source (`Generated.handlerExits`), in front of the forwarding interpreter `Np.run`.

  * general theorems (all calls, all alias patterns, all kernels):
      `identity_free_cannot_see_aliasing`  a handler without identity test computes the same on two calls
                                           with equal values, whatever objects sit in the slots
                                           (f(x, x) vs f(x, x.copy()));
      `guarded_values`                     exits guarded by units alone + operands in one unit + faithful
                                           row ⇒ NumPy's numbers on the stripped arguments, aliased or not;
      `identity_exit_skips_kernel`, `identity_exit_is_unfaithful`
                                           a handler WITH an identity exit runs no kernel on every aliased
                                           call: its result is not `numpy f (strip args)` for any kernel;
  * table obligations (kernel `decide` over the regenerated tables):
      `handlers_exits_units_only`          every pre-kernel exit of every handler is guarded by units alone
                                           (no identity test anywhere in a handler or its helpers);
      `aliased_rows_agree_with_exits`      every traced aliased / NaN-aliased / mixed-unit call form did what
                                           the exit list predicts: exit ⇒ no kernel; no exit ⇒ the requested
                                           kernel with the caller's arguments (no defect off the exclusion list);
  * `C06_alias`: the two combined, for every regenerated aliased row.
-/
import UnytModel.NpAlias
import UnytModel.Generated.C06Alias
import UnytModel.Ref.C06Exclusions
import UnytProofs.C06

namespace Unyt.C06
open Unyt Unyt.Np

theorem firstExit_identityFree {V : Type} (env : Env V) (c c' : ObjCall V) (es : List Exit)
    (hfree : identityFree es = true) (hargs : c.args = c'.args) :
    firstExit env c es = firstExit env c' es := by
  induction es with
  | nil => rfl
  | cons e rest ih =>
    simp only [identityFree, List.all_cons, Bool.and_eq_true] at hfree
    have hrest : identityFree rest = true := by simpa [identityFree] using hfree.2
    have hf : Exit.fires env c e = Exit.fires env c' e := by
      cases hk : e.kind
      · simp [Exit.fires, hk, hargs]
      · simp [hk] at hfree
      · simp [Exit.fires, hk, hargs]
    simp only [firstExit, List.find?_cons, hf]
    cases Exit.fires env c' e
    · exact ih hrest
    · rfl

/-- P-gen: a handler none of whose tests looks at operand identity cannot tell two calls with equal
    values apart, whatever objects sit in the slots — `f(x, x)` computes what `f(x, x.copy())` computes -/
theorem identity_free_cannot_see_aliasing {V R : Type} (numpy : Kernel V R) (alt : String → PyVal V)
    (alter : R → R) (unitRule : Args V → String) (env : Env V) (es : List Exit) (row : Row)
    (c c' : ObjCall V) (hfree : identityFree es = true) (hargs : c.args = c'.args) :
    runGuarded numpy alt alter unitRule env es row c = runGuarded numpy alt alter unitRule env es row c' := by
  simp only [runGuarded, firstExit_identityFree env c c' es hfree hargs, hargs]

theorem firstExit_unitsOnly {V : Type} (env : Env V) (c : ObjCall V) (es : List Exit)
    (hu : unitsOnly es = true) (hsame : env.unitsDiffer c.args = false) : firstExit env c es = none := by
  induction es with
  | nil => rfl
  | cons e rest ih =>
    simp only [unitsOnly, List.all_cons, Bool.and_eq_true] at hu
    have hrest : unitsOnly rest = true := by simpa [unitsOnly] using hu.2
    have hk : e.kind = TestKind.units := by simpa using hu.1
    have hf : Exit.fires env c e = false := by simp [Exit.fires, hk, hsame]
    simp only [firstExit, List.find?_cons, hf]
    exact ih hrest

/-- P-gen: early exits guarded by units alone, operands in one unit, faithful row ⇒ for ANY kernel, ANY
    values and ANY alias pattern of the call the handler returns NumPy's numbers on the bare data -/
theorem guarded_values {V R : Type} (numpy : Kernel V R) (hblind : UnitBlind numpy)
    (alt : String → PyVal V) (alter : R → R) (unitRule : Args V → String) (env : Env V)
    (es : List Exit) (row : Row) (c : ObjCall V) (via : Bool) (rest : List (Bool × String))
    (hu : unitsOnly es = true) (hsame : env.unitsDiffer c.args = false)
    (hcall : row.calls = (via, row.func) :: rest) (hok : row.raised = false)
    (hfwd : AllSameOrRaw row.params c.args) (hinj : NoInjected row.params)
    (hpost : row.post ≠ Post.changed) :
    (runGuarded numpy alt alter unitRule env es row c).values
      = some (numpy row.func (stripArgs c.args)) := by
  simp only [runGuarded, firstExit_unitsOnly env c es hu hsame]
  exact run_values_raw numpy hblind alt alter unitRule row c.args via rest hcall hok hfwd hinj hpost

/-- P-gen: a handler with an identity exit answers every aliased call without running a kernel -/
theorem identity_exit_skips_kernel {V R : Type} (numpy : Kernel V R) (alt : String → PyVal V)
    (alter : R → R) (unitRule : Args V → String) (env : Env V) (es : List Exit) (row : Row)
    (c : ObjCall V) (e : Exit) (he : e ∈ es) (hk : e.kind = TestKind.identity) (hal : c.aliased = true) :
    (runGuarded numpy alt alter unitRule env es row c).values = none := by
  have hf : Exit.fires env c e = true := by simp [Exit.fires, hk, hal]
  have hsome : (firstExit env c es).isSome = true := by
    simp only [firstExit, List.find?_isSome]
    exact ⟨e, he, hf⟩
  simp only [runGuarded]
  cases hfe : firstExit env c es with
  | none => simp [hfe] at hsome
  | some e' => cases hr : e'.raises <;> simp [Outcome.values, hr]

/-- … hence it is not a faithful forwarder: its answer is never "the numbers of `numpy f`" -/
theorem identity_exit_is_unfaithful {V R : Type} (numpy : Kernel V R) (alt : String → PyVal V)
    (alter : R → R) (unitRule : Args V → String) (env : Env V) (es : List Exit) (row : Row)
    (c : ObjCall V) (e : Exit) (he : e ∈ es) (hk : e.kind = TestKind.identity) (hal : c.aliased = true) :
    (runGuarded numpy alt alter unitRule env es row c).values ≠ some (numpy row.func (stripArgs c.args)) := by
  rw [identity_exit_skips_kernel numpy alt alter unitRule env es row c e he hk hal]
  simp

/-- P-tab: no handler of the live source (nor a helper it calls) tests operand identity or memory
    overlap, and every kernel-free constant return in front of a kernel call is guarded by the
    operands' units alone -/
theorem handlers_exits_units_only : exitsTableOk Generated.handlerExits = true := by
  decide +kernel

/-- P-tab: every traced aliased (`f(x, x)`), NaN-aliased and mixed-unit call form did what the exit
    list predicts — in particular every `f(x, x)` reached the kernel of `f` with the caller's arguments -/
theorem aliased_rows_agree_with_exits :
    aliasTableOk Ref.exclC06 Generated.handlerExits Generated.aliasRows = true := by
  decide +kernel

/-- P-tab + P-gen: for every handler of the regenerated table, `runGuarded` with ITS exits, on ANY call
    whose operands share one unit — whatever objects sit in the slots — and any faithful row, returns
    NumPy's numbers; and cannot distinguish an aliased call from an un-aliased one with equal values -/
theorem C06_alias {V R : Type} (numpy : Kernel V R) (hblind : UnitBlind numpy)
    (alt : String → PyVal V) (alter : R → R) (unitRule : Args V → String) (env : Env V)
    (f : String) (es : List Exit) (hmem : (f, es) ∈ Generated.handlerExits) :
    (∀ (row : Row) (c c' : ObjCall V), c.args = c'.args →
        runGuarded numpy alt alter unitRule env es row c = runGuarded numpy alt alter unitRule env es row c')
    ∧ (∀ (row : Row) (c : ObjCall V) (via : Bool) (rest : List (Bool × String)),
        env.unitsDiffer c.args = false → row.calls = (via, row.func) :: rest → row.raised = false →
        AllSameOrRaw row.params c.args → NoInjected row.params → row.post ≠ Post.changed →
        (runGuarded numpy alt alter unitRule env es row c).values = some (numpy row.func (stripArgs c.args))) := by
  have hall := handlers_exits_units_only
  simp only [exitsTableOk, List.all_eq_true] at hall
  have hu : unitsOnly es = true := hall (f, es) hmem
  have hfree : identityFree es = true := by
    simp only [unitsOnly, identityFree, List.all_eq_true] at hu ⊢
    intro e he
    have := hu e he
    have hk : e.kind = TestKind.units := by simpa using this
    simp [hk]
  exact ⟨fun row c c' h => identity_free_cannot_see_aliasing numpy alt alter unitRule env es row c c' hfree h,
         fun row c via rest hs hc hok hf hi hp =>
           guarded_values numpy hblind alt alter unitRule env es row c via rest hu hs hc hok hf hi hp⟩

/-! non-vacuity -/

/-- the hypotheses of `identity_exit_skips_kernel` are met by the exit list of a handler that opens
    with `if a1 is a2: return True`, on the call `f(x, x)` -/
example : (runGuarded (fun g (a : Args Nat) => (g, a)) (fun _ => .bare 0) id (fun _ => "u")
      ⟨fun _ => false, fun _ _ => false⟩
      [⟨.identity, false, "a1 is a2"⟩, ⟨.units, false, "u2 != u1"⟩]
      ⟨"numpy.array_equal", "", "", false, [(true, "numpy.array_equal")], [("a1", .same), ("a2", .same)], [], .id⟩
      ⟨[("a1", 0), ("a2", 0)], fun _ => .qty 7 "m"⟩).values = none := by
  rfl

/-- … and the exit list of the live handler reaches the kernel on the same call -/
example : (runGuarded (fun g (a : Args Nat) => (g, a)) (fun _ => .bare 0) id (fun _ => "u")
      ⟨fun _ => false, fun _ _ => false⟩
      (exitsOf Generated.handlerExits "numpy.array_equal")
      ⟨"numpy.array_equal", "", "", false, [(true, "numpy.array_equal")], [("a1", .same), ("a2", .same)], [], .id⟩
      ⟨[("a1", 0), ("a2", 0)], fun _ => .qty 7 "m"⟩).values
    = some ("numpy.array_equal", [("a1", .bare 7), ("a2", .bare 7)]) := by
  rfl

example : ("numpy.array_equal", [⟨TestKind.units, false, "u2 != u1"⟩]) ∈ Generated.handlerExits := by
  decide +kernel

end Unyt.C06
