/-
  C19 — unit-checking helpers decide by physical equality, not by spelling.

  Property theorems about the model `UnytModel/Testing.lean` (the functions the driver executes).
  The tolerance verdict against the SI specification needs an ordered field and lives in
  `UnytProofs/Real/C19Allclose.lean` (`allclose_iff_spec`,
  `C19_full`, `C19_allclose_full`, `rtol_read_by_dimensionless_value`,
  `verdict_is_function_of_si`, `verdict_invariant_reexpress_*`); this file holds everything that
  is core Lean: refusals, the asserting wrappers, the NumPy handlers' unit logic, the decorators,
  and the kernel-evaluated witnesses of the defects.
-/
import UnytProofs.Lemmas.C19
import UnytModel.Ref.C19Source

set_option linter.unusedSectionVars false

namespace Unyt.C19
open Unyt Unyt.Testing

/-! ## the source of `allclose_units` has the shape the model transcribes -/

/-- **`allclose_source_shape`** (kernel-decided, over data regenerated from `/repo` by `ast` on
    every run): the body of the live `unyt.array.allclose_units`, executed symbolically, consists
    of exactly the guards, in exactly the order, with exactly the conversions, handlers, `rtol`
    reading, bare-`atol` expression and final `numpy.allclose` call that
    `Ref.allcloseSourceExpected` lists — the rows `allcloseQ true` was transcribed from.  This ties
    the *structure* of the model to the source; the meaning of the primitives (`in_units`,
    `to_value`, `numpy.allclose`) is tied by the correspondence run. -/
theorem allclose_source_shape : Generated.allcloseSource = Ref.allcloseSourceExpected := by
  decide +kernel

/-! ## `allclose_units` / `assert_allclose_units`: refusals -/
section refusals
variable {K : Type} [Add K] [Sub K] [Mul K] [Div K] [Neg K] [OfNat K 0] [OfNat K 1] [BEq K]
  [LE K] [DecidableLE K]

/-- incommensurable arguments are refused with `False` — whatever the values, the shapes and
    the tolerances (even an `rtol` that would otherwise raise), in both variants -/
theorem incommensurable_false (fixed : Bool) (act des : Qty K) (rtol atol : Tol K)
    (h : des.unit.dim ≠ act.unit.dim) : allcloseQ fixed act des rtol atol = .ok false := by
  have h' : (des.unit.dim != act.unit.dim) = true := by simpa using h
  simp [allcloseQ, inUnits, h']

/-- an `atol` whose own unit is incommensurable with the arguments is refused with `False` -/
theorem atol_incommensurable_false (fixed : Bool) (act des : Qty K) (rtol : Tol K) (x : K)
    (u : TUnit K) (hd : des.unit.dim = act.unit.dim) (hr : rtolDim rtol = Dim.one)
    (h : u.dim ≠ act.unit.dim) : allcloseQ fixed act des rtol (.qty x u) = .ok false := by
  have h' : (u.dim != act.unit.dim) = true := by simpa using h
  simp [allcloseQ, inUnits, hd, hr, atolInActualUnit, h']

/-- an `rtol` with a dimension raises `RuntimeError` (once `desired` is known to be
    commensurable) -/
theorem rtol_with_dimension_raises (fixed : Bool) (act des : Qty K) (r : K) (u : TUnit K)
    (atol : Tol K) (hd : des.unit.dim = act.unit.dim) (h : u.dim ≠ Dim.one) :
    allcloseQ fixed act des (.qty r u) atol = .error .RuntimeError := by
  have h' : (u.dim != Dim.one) = true := by simpa using h
  simp [allcloseQ, inUnits, hd, rtolDim, h']

variable [UnitClose K]

/-- a bare argument is a dimensionless quantity -/
theorem bare_is_dimensionless (fixed : Bool) (xs : List K) (s : Bool) (d : ArgIn K)
    (rtol atol : Tol K) :
    allcloseUnitsWith fixed (.bare xs s) d rtol atol
      = allcloseUnitsWith fixed (.qty ⟨xs, s, nullUnit⟩) d rtol atol := rfl

/-- `assert_allclose_units` passes exactly when `allclose_units` says `True`, raises
    `AssertionError` exactly when it says `False`, and lets its exceptions through -/
theorem assert_allclose_iff (fixed : Bool) (a d : ArgIn K) (rtol atol : Tol K) :
    (assertAllcloseUnitsWith fixed a d rtol atol = .pass ↔
        allcloseUnitsWith fixed a d rtol atol = .ok true)
    ∧ (assertAllcloseUnitsWith fixed a d rtol atol = .assertionError ↔
        allcloseUnitsWith fixed a d rtol atol = .ok false)
    ∧ (∀ e, assertAllcloseUnitsWith fixed a d rtol atol = .raised e ↔
        allcloseUnitsWith fixed a d rtol atol = .error e) := by
  unfold assertAllcloseUnitsWith
  cases allcloseUnitsWith fixed a d rtol atol with
  | error e => simp
  | ok b => cases b <;> simp

/-- hence incommensurable quantities make `assert_allclose_units` raise `AssertionError` -/
theorem assert_incommensurable_raises (fixed : Bool) (act des : Qty K) (rtol atol : Tol K)
    (h : des.unit.dim ≠ act.unit.dim) :
    assertAllcloseUnitsWith fixed (.qty act) (.qty des) rtol atol = .assertionError := by
  rw [(assert_allclose_iff fixed _ _ rtol atol).2.1]
  exact incommensurable_false fixed act des rtol atol h

end refusals

/-- non-vacuity: 1 m against 1 s -/
example : allcloseQ false (⟨[1], true, ⟨1, 0, Dim.dLength⟩⟩ : Qty Rat) ⟨[1], true, ⟨1, 0, Dim.dTime⟩⟩
    (.bare 0) (.bare 0) = .ok false :=
  incommensurable_false _ _ _ _ _ (by decide)

/-! ## kernel-evaluated witnesses of the defects (replayed on the real code by the harness) -/

def q (xs : List Rat) (s : Rat) (d : Dim) : Qty Rat := ⟨xs, xs.length == 1, ⟨s, 0, d⟩⟩

/-- `allclose_units(1 m, 150 cm, rtol=0, atol=0.6)` is `False` (0.5 m is not within 0.6 cm) and
    `True` with the arguments swapped (50 cm is within 0.6 m) — evaluated by the kernel on
    `allcloseUnits`, i.e. with the flag the translator regenerated from the live source; before
    the repair of `allclose_units` the two verdicts were the other way round -/
theorem bare_atol_witness :
    allcloseUnits (.qty (q [1] 1 Dim.dLength)) (.qty (q [150] (1/100) Dim.dLength)) (.bare 0) (.bare (6/10)) = .ok false
    ∧ allcloseUnits (.qty (q [150] (1/100) Dim.dLength)) (.qty (q [1] 1 Dim.dLength)) (.bare 0) (.bare (6/10)) = .ok true := by
  decide +kernel

/-- `allclose_units(1 m, 1.5 m, rtol=1 percent)` is `False` and `allclose_units(1 m, 1.005 m,
    rtol=1 percent)` is `True`: the percent is read as 0.01 (it was read as 1 before the repair) -/
theorem rtol_percent_witness :
    allcloseQ true (q [1] 1 Dim.dLength) (q [3/2] 1 Dim.dLength) (.qty 1 ⟨1/100, 0, Dim.one⟩) (.bare 0)
      = .ok false
    ∧ allcloseQ true (q [1] 1 Dim.dLength) (q [201/200] 1 Dim.dLength) (.qty 1 ⟨1/100, 0, Dim.one⟩) (.bare 0)
      = .ok true := by
  decide +kernel

/-! ## the NumPy handlers — statements about the *executed* comparisons

  These hold for every carrier, in particular for the `Float` instance the driver runs, where unit
  equality is `Unit.__eq__`'s `math.isclose` test (`TUnit.eq` with `UnitClose Float`) and number
  equality is IEEE `==`: "equal units" below means *what `Unit.__eq__` accepts* (scales and
  offsets within 1e-9 relative, same dimensions), not mathematical equality. -/
section executed
variable {K : Type} [Add K] [Sub K] [Mul K] [Div K] [Neg K] [OfNat K 0] [OfNat K 1] [BEq K]
  [LE K] [DecidableLE K] [UnitClose K]

/-- `numpy.array_equal` says `True` exactly when `Unit.__eq__` accepts the two units, the shapes
    are equal and all numbers compare equal — no conversion between commensurable units -/
theorem array_equal_iff_executed (a b : ArgIn K) :
    arrayEqualHandler a b = true ↔
      TUnit.eq (unitsAttr b) (unitsAttr a) = true
      ∧ isScalar a = isScalar b ∧ (rawVals a).length = (rawVals b).length
      ∧ ∀ p ∈ (rawVals a).zip (rawVals b), (p.1 == p.2) = true := by
  unfold arrayEqualHandler npArrayEqual
  by_cases h : TUnit.eq (unitsAttr b) (unitsAttr a) = true
  · simp [h, List.all_eq_true, and_assoc]
  · simp only [Bool.not_eq_true] at h
    simp [h]

/-- `numpy.array_equiv`: `Unit.__eq__` accepts the units, the shapes broadcast, all numbers
    compare equal -/
theorem array_equiv_iff_executed (a b : ArgIn K) :
    arrayEquivHandler a b = true ↔
      TUnit.eq (unitsAttr b) (unitsAttr a) = true
      ∧ ∃ ps, broadcast2 (rawVals a) (rawVals b) = some ps ∧ ∀ p ∈ ps, (p.1 == p.2) = true := by
  unfold arrayEquivHandler npArrayEquiv
  by_cases h : TUnit.eq (unitsAttr b) (unitsAttr a) = true
  · cases hb : broadcast2 (rawVals a) (rawVals b) with
    | none => simp [h]
    | some ps => simp [h, List.all_eq_true]
  · simp only [Bool.not_eq_true] at h
    simp [h]

/-- `assert_array_equal_units` passes only if `Unit.__eq__` accepts the two units (whatever the
    numbers), and when it does accept them it passes exactly when the shape rule holds and all
    numbers compare equal -/
theorem assert_array_equal_units_pass_executed (x y : ArgIn K) :
    (assertArrayEqualUnits x y = .pass → TUnit.eq (unitsAttr x) (unitsAttr y) = true)
    ∧ (TUnit.eq (unitsAttr x) (unitsAttr y) = true →
        (assertArrayEqualUnits x y = .pass ↔
          assertShapesOk x y = true
          ∧ ∃ ps, broadcast2 (rawVals x) (rawVals y) = some ps ∧ ∀ p ∈ ps, (p.1 == p.2) = true)) := by
  constructor
  · intro hp
    by_cases h : TUnit.eq (unitsAttr x) (unitsAttr y) = true
    · exact h
    · exfalso
      simp only [Bool.not_eq_true] at h
      revert hp
      unfold assertArrayEqualUnits
      simp only [h, Bool.false_or]
      repeat' split
      all_goals simp_all
  · intro h
    unfold assertArrayEqualUnits
    simp only [h, Bool.true_or, if_true]
    by_cases hs : assertShapesOk x y = true
    · cases hb : broadcast2 (rawVals x) (rawVals y) with
      | none => simp [hs]
      | some ps =>
        by_cases ha : (ps.all fun p => p.1 == p.2) = true
        · have ha' := ha
          simp only [List.all_eq_true] at ha'
          simpa [hs, ha] using ha'
        · have ha' := ha
          simp only [List.all_eq_true] at ha'
          simpa [hs, ha] using ha'
    · simp [hs]

end executed

/-! ## the same at an exact carrier (`close` is `==`, `==` is `=`): equality of units proper -/
section handlers
variable {K : Type} [Add K] [Sub K] [Mul K] [Div K] [Neg K] [OfNat K 0] [OfNat K 1] [BEq K]
  [LawfulBEq K] [LE K] [DecidableLE K] [UnitClose K]

/-- at a lawful carrier `Unit.__eq__` is equality of `(scale, offset, dimension)` -/
theorem tunit_eq_iff (hc : ∀ a b : K, UnitClose.close a b = (a == b)) (u v : TUnit K) :
    TUnit.eq u v = true ↔ u.scale = v.scale ∧ u.offset = v.offset ∧ u.dim = v.dim := by
  simp [TUnit.eq, hc, and_assoc]

/-- `numpy.array_equal` on quantities / bare arrays: `True` exactly when the units are equal
    (as units: scale, offset and dimension — not spelling), the shapes are equal and all numbers
    are equal.  Commensurable-but-different units are *not* converted: 1 m ≠ 100 cm here. -/
theorem array_equal_iff (hc : ∀ a b : K, UnitClose.close a b = (a == b)) (a b : ArgIn K) :
    arrayEqualHandler a b = true ↔
      ((unitsAttr b).scale = (unitsAttr a).scale ∧ (unitsAttr b).offset = (unitsAttr a).offset
        ∧ (unitsAttr b).dim = (unitsAttr a).dim)
      ∧ isScalar a = isScalar b ∧ (rawVals a).length = (rawVals b).length
      ∧ ∀ p ∈ (rawVals a).zip (rawVals b), p.1 = p.2 := by
  unfold arrayEqualHandler npArrayEqual
  by_cases h : TUnit.eq (unitsAttr b) (unitsAttr a) = true
  · have h' := (tunit_eq_iff hc _ _).mp h
    simp [h, h', List.all_eq_true, and_assoc]
  · have h' := mt (tunit_eq_iff hc _ _).mpr h
    simp only [Bool.not_eq_true] at h
    simp [h, h']

/-- `numpy.array_equiv`: equal units, broadcastable shapes, all numbers equal -/
theorem array_equiv_iff (hc : ∀ a b : K, UnitClose.close a b = (a == b)) (a b : ArgIn K) :
    arrayEquivHandler a b = true ↔
      ((unitsAttr b).scale = (unitsAttr a).scale ∧ (unitsAttr b).offset = (unitsAttr a).offset
        ∧ (unitsAttr b).dim = (unitsAttr a).dim)
      ∧ ∃ ps, broadcast2 (rawVals a) (rawVals b) = some ps ∧ ∀ p ∈ ps, p.1 = p.2 := by
  unfold arrayEquivHandler npArrayEquiv
  by_cases h : TUnit.eq (unitsAttr b) (unitsAttr a) = true
  · have h' := (tunit_eq_iff hc _ _).mp h
    cases hb : broadcast2 (rawVals a) (rawVals b) with
    | none => simp [h]
    | some ps => simp [h, h', List.all_eq_true]
  · have h' := mt (tunit_eq_iff hc _ _).mpr h
    simp only [Bool.not_eq_true] at h
    simp [h, h']

/-- `assert_array_equal_units` passes exactly when the units are equal, the shapes are equal
    or one side is 0-d, and all numbers are equal; otherwise it raises -/
theorem assert_array_equal_units_pass_iff (hc : ∀ a b : K, UnitClose.close a b = (a == b))
    (x y : ArgIn K) :
    assertArrayEqualUnits x y = .pass ↔
      ((unitsAttr x).scale = (unitsAttr y).scale ∧ (unitsAttr x).offset = (unitsAttr y).offset
        ∧ (unitsAttr x).dim = (unitsAttr y).dim)
      ∧ assertShapesOk x y = true
      ∧ ∃ ps, broadcast2 (rawVals x) (rawVals y) = some ps ∧ ∀ p ∈ ps, p.1 = p.2 := by
  unfold assertArrayEqualUnits
  by_cases h : TUnit.eq (unitsAttr x) (unitsAttr y) = true
  · have h' := (tunit_eq_iff hc _ _).mp h
    simp only [h, Bool.true_or, if_true, h', true_and]
    by_cases hs : assertShapesOk x y = true
    · cases hb : broadcast2 (rawVals x) (rawVals y) with
      | none => simp [hs]
      | some ps =>
        by_cases ha : (ps.all fun p => p.1 == p.2) = true
        · have ha' := ha
          simp only [List.all_eq_true, beq_iff_eq] at ha'
          simpa [hs, ha] using ha'
        · have ha' := ha
          simp only [List.all_eq_true, beq_iff_eq] at ha'
          simpa [hs, ha] using ha'
    · simp [hs]
  · have h' := mt (tunit_eq_iff hc _ _).mpr h
    simp only [Bool.not_eq_true] at h
    simp only [h, Bool.false_or, h', false_and, iff_false]
    repeat' split
    all_goals simp_all

/-- two quantities in different, non-dimensionless-null, incommensurable units make the
    `isclose`/`allclose` handlers raise `UnitConversionError` and return nothing -/
theorem handler_incommensurable_raises (a b : Qty K) (rt atl : K)
    (hne : TUnit.eq b.unit a.unit = false) (ha : TUnit.eq a.unit nullUnit = false)
    (hb : TUnit.eq b.unit nullUnit = false) (hd : b.unit.dim ≠ a.unit.dim) :
    allcloseHandler (.qty a) (.qty b) rt atl = .error .UnitConversionError
    ∧ iscloseHandler (.qty a) (.qty b) rt atl = .error .UnitConversionError := by
  have hd' : (b.unit.dim != a.unit.dim) = true := by simpa using hd
  simp [allcloseHandler, iscloseHandler, arrayCompHelper, unitsAttr, hne, ha, hb, inUnits, hd']

/-- … but a side whose unit equals `NULL_UNIT` (a bare array, or a plain dimensionless
    quantity) is *not* refused: it silently adopts the other side's unit and the raw numbers are
    compared (finding `np.allclose|dimensionless-adopts-unit`) -/
theorem handler_null_side_compares_raw (a b : ArgIn K) (rt atl : K)
    (h : TUnit.eq (unitsAttr b) nullUnit = true ∨ TUnit.eq (unitsAttr a) nullUnit = true) :
    allcloseHandler a b rt atl = npAllclose rt atl (rawVals a) (rawVals b) := by
  unfold allcloseHandler arrayCompHelper
  rcases h with h | h
  · simp [h]
  · by_cases hb : TUnit.eq (unitsAttr b) nullUnit = true
    · simp [hb]
    · simp only [Bool.not_eq_true] at hb
      simp [h, hb]

/-- `numpy.allclose` on quantities is `all(numpy.isclose(...))` on the same converted numbers:
    the two handlers cannot disagree -/
theorem handler_allclose_is_all_isclose (a b : ArgIn K) (rt atl : K) :
    allcloseHandler a b rt atl = (iscloseHandler a b rt atl).map (fun bs => bs.all id) := by
  unfold allcloseHandler iscloseHandler npAllclose
  cases arrayCompHelper a b with
  | error e => rfl
  | ok r =>
    obtain ⟨x, y, _⟩ := r
    simp only
    cases npIsclose rt atl x y <;> rfl

end handlers

/-- `numpy.allclose(1 [dimensionless], 1 percent)` is `True` and
    `numpy.allclose(1 [dimensionless], 100 percent)` is `False` (no conversion happens because
    one side equals `NULL_UNIT`), while `numpy.allclose(2 percent, 2 [dimensionless])` … -/
theorem handler_percent_witness :
    allcloseHandler (.qty (q [1] 1 Dim.one)) (.qty (q [1] (1/100) Dim.one)) (0 : Rat) 0 = .ok true
    ∧ allcloseHandler (.qty (q [1] 1 Dim.one)) (.qty (q [100] (1/100) Dim.one)) (0 : Rat) 0 = .ok false
    ∧ allcloseHandler (.qty (q [1] 1 Dim.dLength)) (.bare [1] true) (0 : Rat) 0 = .ok true := by
  decide +kernel

/-- the handler reads a bare `atol` in the *first* argument's unit:
    `numpy.allclose(1 m, 150 cm, rtol=0, atol=0.6)` is `True`, swapped `False` -/
theorem handler_bare_atol_witness :
    allcloseHandler (.qty (q [1] 1 Dim.dLength)) (.qty (q [150] (1/100) Dim.dLength)) (0 : Rat) (6/10) = .ok true
    ∧ allcloseHandler (.qty (q [150] (1/100) Dim.dLength)) (.qty (q [1] 1 Dim.dLength)) (0 : Rat) (6/10) = .ok false := by
  decide +kernel

/-- `array_equal(1 m, 100 cm)` is `False`, `array_equal([1,2] N, [1,2] kg m/s²)` is `True`
    (same scale and dimension, whatever the spelling) -/
theorem array_equal_witness :
    arrayEqualHandler (.qty (q [1] 1 Dim.dLength)) (.qty (q [100] (1/100) Dim.dLength)) = false
    ∧ arrayEqualHandler (.qty (q [1, 2] 1 ⟨1, 1, -2, 0, 0, 0, 0, 0⟩)) (.qty (q [1, 2] 1 ⟨1, 1, -2, 0, 0, 0, 0, 0⟩)) = true := by
  decide +kernel

/-! ## `accepts` / `returns` -/
section decorators
variable {β : Type}

/-- **`accepts_iff_dimension`**: the wrapped function is entered exactly when every supplied
    argument that is named in the decorator has the stated dimension -/
theorem accepts_iff_dimension (argUnits : List (String × Dim)) (varnames : List String)
    (f : Call → Except Err β) (c : Call) :
    (accepts argUnits varnames f c).called = true ↔
      ∀ nv ∈ supplied varnames c, ∀ d, argUnits.lookup nv.1 = some d →
        hasDimensions nv.2.dim d = true := by
  unfold accepts
  cases hfind : (supplied varnames c).find? (acceptsRejects argUnits) with
  | some x =>
    simp only [Bool.false_eq_true, false_iff]
    intro hall
    have hx := List.find?_some hfind
    have hm := List.mem_of_find?_eq_some hfind
    unfold acceptsRejects at hx
    cases hl : argUnits.lookup x.1 with
    | none => simp [hl] at hx
    | some d =>
      have := hall x hm d hl
      simp [hl, this] at hx
  | none =>
    simp only [true_iff]
    intro nv hnv d hd
    have := List.find?_eq_none.mp hfind nv hnv
    unfold acceptsRejects at this
    simpa [hd] using this

/-- **`accepts_checks_before_call`**: on a mismatch the outcome is `TypeError` and the wrapped
    function was not entered; otherwise the outcome is exactly what the function returned -/
theorem accepts_checks_before_call (argUnits : List (String × Dim)) (varnames : List String)
    (f : Call → Except Err β) (c : Call) :
    ((accepts argUnits varnames f c).called = false →
        (accepts argUnits varnames f c).out = .error .TypeError)
    ∧ ((accepts argUnits varnames f c).called = true →
        (accepts argUnits varnames f c).out = f c) := by
  unfold accepts
  cases (supplied varnames c).find? (acceptsRejects argUnits) <;> simp

/-- the check looks at dimensions only: two values of the same dimension — in whatever unit,
    with whatever numbers — are treated alike -/
theorem has_dimensions_ignores_unit (u v : TUnit Rat) (i j : Nat) (d : Dim) (h : u.dim = v.dim) :
    hasDimensions (PyVal.dim ⟨i, some u⟩) d = hasDimensions (PyVal.dim ⟨j, some v⟩) d := by
  simp [PyVal.dim, h]

/-- a value without units counts as dimensionless -/
theorem has_dimensions_bare (i : Nat) (d : Dim) :
    hasDimensions (PyVal.dim ⟨i, none⟩) d = (Dim.one == d) := rfl

/-- **`returns_iff_dimension`**: a call whose wrapped function returned `r` comes back with `r`
    exactly when each checked position of the result tuple has the stated dimension, and with
    `TypeError` otherwise -/
theorem returns_iff_dimension (dims : List Dim) (f : Call → Except Err PyResult) (c : Call)
    (r : PyResult) (hf : f c = .ok r) :
    ((returns dims f c).out = .ok r ↔
        ∀ p ∈ r.asTuple.zip dims, hasDimensions p.1.dim p.2 = true)
    ∧ ((returns dims f c).out = .error .TypeError ↔
        ¬ ∀ p ∈ r.asTuple.zip dims, hasDimensions p.1.dim p.2 = true) := by
  unfold returns
  rw [hf]
  dsimp only
  by_cases h : ((r.asTuple.zip dims).all fun p => hasDimensions p.1.dim p.2) = true
  · have h' := List.all_eq_true.mp h
    rw [if_pos h]
    refine ⟨⟨fun _ => h', fun _ => rfl⟩, ⟨fun hh => ?_, fun hn => absurd h' hn⟩⟩
    exact absurd hh (by simp)
  · have h' : ¬ ∀ p ∈ r.asTuple.zip dims, hasDimensions p.1.dim p.2 = true :=
      fun hh => h (List.all_eq_true.mpr hh)
    rw [if_neg h]
    refine ⟨⟨fun hh => ?_, fun hh => absurd hh h'⟩, ⟨fun _ => h', fun _ => rfl⟩⟩
    exact absurd hh (by simp)

/-- **`returns_does_not_alter_result`**: whatever comes back normally is the very object the
    wrapped function returned; the function is entered exactly once in every case, and its own
    exceptions pass through -/
theorem returns_does_not_alter_result (dims : List Dim) (f : Call → Except Err PyResult)
    (c : Call) :
    (∀ r', (returns dims f c).out = .ok r' → f c = .ok r')
    ∧ (returns dims f c).called = true
    ∧ (∀ e, f c = .error e → (returns dims f c).out = .error e) := by
  unfold returns
  cases hf : f c with
  | error e => simp
  | ok r =>
    by_cases h : ((r.asTuple.zip dims).all fun p => hasDimensions p.1.dim p.2) = true <;> simp [h]

/-- the deprecated `r_unit=` keyword means the same as one positional dimension, and is refused
    (`ValueError`) together with positional dimensions -/
theorem returns_r_unit (d : Dim) (ds : List Dim) :
    returnsDims [] (some d) = .ok [d]
    ∧ (ds ≠ [] → returnsDims ds (some d) = .error .ValueError)
    ∧ returnsDims ds none = .ok ds := by
  refine ⟨rfl, ?_, rfl⟩
  intro h
  cases ds with
  | nil => exact absurd rfl h
  | cons x xs => simp [returnsDims]

/-- **`accepts_history_independent`**: whatever calls were made before on the same decorated
    function — good ones, refused ones, with whatever units — the outcome of a call is the outcome
    of that call on a fresh function.  In the model this is immediate (the model of `accepts` is a
    pure function of the current arguments, as the source's closure keeps no mutable state); that
    the *code* has no memory either is what the correspondence over call sequences checks
    (`c19.accepts_seq`: every call of a generated history is compared with this model). -/
theorem accepts_history_independent (argUnits : List (String × Dim)) (varnames : List String)
    (f : Call → Except Err β) (before : List Call) (c : Call) (after : List Call) :
    (acceptsHistory argUnits varnames f (before ++ c :: after))[before.length]?
      = some (accepts argUnits varnames f c) := by
  induction before with
  | nil => simp [acceptsHistory]
  | cons b bs ih => simpa [acceptsHistory] using ih

/-- hence, at every point of every history, the wrapped function is entered exactly when the
    *current* call's checked arguments have the stated dimensions -/
theorem accepts_history_verdict (argUnits : List (String × Dim)) (varnames : List String)
    (f : Call → Except Err β) (before : List Call) (c : Call) (after : List Call) :
    ((acceptsHistory argUnits varnames f (before ++ c :: after))[before.length]?.map (·.called)
        = some true) ↔
      ∀ nv ∈ supplied varnames c, ∀ d, argUnits.lookup nv.1 = some d →
        hasDimensions nv.2.dim d = true := by
  rw [accepts_history_independent, Option.map_some, Option.some.injEq]
  exact accepts_iff_dimension argUnits varnames f c

/-- the same for `returns` -/
theorem returns_history_independent (dims : List Dim) (f : Call → Except Err PyResult)
    (before : List Call) (c : Call) (after : List Call) :
    (returnsHistory dims f (before ++ c :: after))[before.length]? = some (returns dims f c) := by
  induction before with
  | nil => simp [returnsHistory]
  | cons b bs ih => simpa [returnsHistory] using ih

/-- **the full statement for `accepts`**: the call goes through exactly when every checked
    parameter's *bound* value — supplied or default — has the stated dimension -/
def C19_accepts_full : Prop :=
  ∀ (argUnits : List (String × Dim)) (sig : Sig) (f : Call → Except Err Unit) (c : Call),
    (accepts argUnits sig.varnames f c).called = true ↔
      ∀ p d v, argUnits.lookup p = some d → Bound sig c p v → hasDimensions v.dim d = true

/-- where it holds: every default of a checked parameter that can end up bound has the stated
    dimension (in particular: checked parameters without defaults, or always supplied) -/
def DefaultsChecked (argUnits : List (String × Dim)) (sig : Sig) (c : Call) : Prop :=
  ∀ p d v, argUnits.lookup p = some d → (p, v) ∈ sig.defaults →
    (∃ w, (p, w) ∈ supplied sig.varnames c) ∨ hasDimensions v.dim d = true

theorem accepts_iff_dimension_partial (argUnits : List (String × Dim)) (sig : Sig)
    (f : Call → Except Err β) (c : Call) (hg : DefaultsChecked argUnits sig c) :
    (accepts argUnits sig.varnames f c).called = true ↔
      ∀ p d v, argUnits.lookup p = some d → Bound sig c p v → hasDimensions v.dim d = true := by
  rw [accepts_iff_dimension]
  constructor
  · intro h p d v hl hb
    rcases hb with hs | ⟨hns, hdef⟩
    · exact h (p, v) hs d hl
    · rcases hg p d v hl hdef with ⟨w, hw⟩ | hok
      · exact absurd hw (hns w)
      · exact hok
  · intro h nv hnv d hl
    exact h nv.1 d nv.2 hl (Or.inl hnv)

/-- a default value is never checked: `@accepts(a=length) def f(a=1*s)`, `f()` goes through -/
theorem C19_accepts_counterexample : ¬ C19_accepts_full := by
  intro h
  have := (h [("a", Dim.dLength)] ⟨["a"], [("a", ⟨0, some ⟨1, 0, Dim.dTime⟩⟩)]⟩
    (fun _ => .ok ()) ⟨[], []⟩).mp (by decide)
  have := this "a" Dim.dLength ⟨0, some ⟨1, 0, Dim.dTime⟩⟩ rfl
    (Or.inr ⟨by simp [supplied], by simp⟩)
  revert this
  decide

end decorators

/-- non-vacuity: `@accepts(a=time, v=length/time) def foo(a, v)`, `foo(a=2 s, v=3 m/s)` goes
    through, `foo(2 m, 3 m/s)` raises before the call -/
example :
    (accepts [("a", Dim.dTime), ("v", ⟨0, 1, -1, 0, 0, 0, 0, 0⟩)] ["a", "v"] (fun _ => .ok ())
      ⟨[], [("a", ⟨0, some ⟨1, 0, Dim.dTime⟩⟩), ("v", ⟨1, some ⟨1, 0, ⟨0, 1, -1, 0, 0, 0, 0, 0⟩⟩⟩)]⟩).called = true
    ∧ (accepts [("a", Dim.dTime), ("v", ⟨0, 1, -1, 0, 0, 0, 0, 0⟩)] ["a", "v"] (fun _ => .ok ())
      ⟨[⟨0, some ⟨1, 0, Dim.dLength⟩⟩, ⟨1, some ⟨1, 0, ⟨0, 1, -1, 0, 0, 0, 0, 0⟩⟩⟩], []⟩).called = false := by
  decide

end Unyt.C19
