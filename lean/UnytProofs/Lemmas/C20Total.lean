/-
  Helper lemmas for the guarded totality theorem of C20 (no property statements here):
  integrality of exponents is preserved by the expression arithmetic of the evaluator.
-/
import UnytModel.Parse
import UnytModel.ParseGuard
import UnytProofs.Lemmas.UExpr

namespace Unyt.C20T
open Unyt Parse UExpr

def IsInt (q : Rat) : Prop := q.den = 1

theorem isInt_iff (q : Rat) : IsInt q ↔ ∃ n : Int, q = (n : Rat) := by
  constructor
  · intro h
    exact ⟨q.num, Rat.ext (by simp) (by simp only [Rat.den_intCast]; exact h)⟩
  · rintro ⟨n, rfl⟩; exact Rat.den_intCast n

theorem isInt_add {a b : Rat} (ha : IsInt a) (hb : IsInt b) : IsInt (a + b) := by
  obtain ⟨m, rfl⟩ := (isInt_iff a).mp ha
  obtain ⟨n, rfl⟩ := (isInt_iff b).mp hb
  exact (isInt_iff _).mpr ⟨m + n, (Rat.intCast_add m n).symm⟩

theorem isInt_mul {a b : Rat} (ha : IsInt a) (hb : IsInt b) : IsInt (a * b) := by
  obtain ⟨m, rfl⟩ := (isInt_iff a).mp ha
  obtain ⟨n, rfl⟩ := (isInt_iff b).mp hb
  exact (isInt_iff _).mpr ⟨m * n, (Rat.intCast_mul m n).symm⟩

theorem isInt_neg {a : Rat} (ha : IsInt a) : IsInt (-a) := by
  unfold IsInt at *; simpa using ha

theorem isInt_one : IsInt (1 : Rat) := rfl

/-- every exponent of a factor list is an integer -/
def AllInt (f : Factors) : Prop := ∀ p ∈ f, IsInt p.2

theorem allInt_nil : AllInt [] := by intro p hp; cases hp

theorem allInt_cons {s : String} {q : Rat} {f : Factors} (hq : IsInt q) (hf : AllInt f) : AllInt ((s, q) :: f) := by
  intro p hp
  cases hp with
  | head => exact hq
  | tail _ h => exact hf p h

theorem allInt_append {f g : Factors} (hf : AllInt f) (hg : AllInt g) : AllInt (f ++ g) := by
  intro p hp
  rcases List.mem_append.mp hp with h | h
  · exact hf p h
  · exact hg p h

theorem allInt_negF {f : Factors} (hf : AllInt f) : AllInt (negF f) := by
  intro p hp
  simp only [negF, List.mem_map] at hp
  obtain ⟨a, ha, rfl⟩ := hp
  exact isInt_neg (hf a ha)

theorem allInt_scaleF {f : Factors} {k : Rat} (hf : AllInt f) (hk : IsInt k) : AllInt (scaleF f k) := by
  intro p hp
  simp only [scaleF, List.mem_map] at hp
  obtain ⟨a, ha, rfl⟩ := hp
  exact isInt_mul (hf a ha) hk

theorem allInt_insertF {s : String} {q : Rat} {f : Factors} (hq : IsInt q) (hf : AllInt f) :
    AllInt (insertF s q f) := by
  induction f with
  | nil => exact allInt_cons hq allInt_nil
  | cons p r ih =>
    obtain ⟨t, x⟩ := p
    have hx : IsInt x := hf (t, x) (List.mem_cons_self)
    have hr : AllInt r := fun p hp => hf p (List.mem_cons_of_mem _ hp)
    simp only [insertF]
    split
    · exact allInt_cons (isInt_add hx hq) hr
    · split
      · exact allInt_cons hq (allInt_cons hx hr)
      · exact allInt_cons hx (ih hr)

theorem allInt_sortMerge {f : Factors} (hf : AllInt f) : AllInt (sortMerge f) := by
  induction f with
  | nil => exact allInt_nil
  | cons p r ih =>
    have hp : IsInt p.2 := hf p (List.mem_cons_self)
    have hr : AllInt r := fun q hq => hf q (List.mem_cons_of_mem _ hq)
    simp only [sortMerge, List.foldr_cons]
    exact allInt_insertF hp (ih hr)

theorem allInt_normF {f : Factors} (hf : AllInt f) : AllInt (normF f) := by
  intro p hp
  simp only [normF, dropZeros, List.mem_filter] at hp
  exact allInt_sortMerge hf p hp.1

end Unyt.C20T

namespace Unyt.C20T
open Unyt Parse UExpr

/-- values the guarded fragment can produce: numbers/monomials within the size guard and with
    integer exponents, or the objects `sqrt` / classes (which `finish` refuses) -/
def Good : Val → Prop
  | .mono x => okRat x.coeff = true ∧ AllInt x.factors
  | .fn => True
  | .ty => True
  | .bad _ _ _ => False

/-- an evaluation outcome that is not an escape: a good value, `UnitParseError`, or "not modelled" -/
def Benign : Except PErr Val → Prop
  | .ok v => Good v
  | .error c => c = .unitParseError ∨ c = .unmodelled

theorem benign_upe : Benign (upe : Except PErr Val) := Or.inl rfl
theorem benign_unm : Benign (unm : Except PErr Val) := Or.inr rfl

theorem benign_bind {r : Except PErr Val} {f : Val → Except PErr Val}
    (hr : Benign r) (hf : ∀ v, Good v → Benign (f v)) : Benign (r >>= f) := by
  cases r with
  | error c => exact hr
  | ok v => exact hf v hr

theorem mkMono_benign (c : Rat) (f : Factors) (hf : AllInt f) : Benign (mkMono c f) := by
  unfold mkMono
  split
  · exact benign_unm
  · next hc =>
    split
    · exact ⟨by decide, allInt_nil⟩
    · dsimp only
      split
      · exact ⟨by simpa using hc, allInt_normF hf⟩
      · exact benign_unm

theorem vMul_benign (a b : Val) (ha : Good a) (hb : Good b) : Benign (vMul a b) := by
  cases a <;> cases b <;> simp only [Good] at ha hb <;> simp only [vMul] <;>
    first
    | exact benign_upe
    | exact mkMono_benign _ _ (allInt_append ha.2 hb.2)

theorem vInv_benign (b : Val) (hb : Good b) : Benign (vInv b) := by
  cases b <;> simp only [Good] at hb <;> simp only [vInv]
  · split
    · exact benign_unm
    · exact mkMono_benign _ _ (allInt_negF hb.2)
  · exact benign_upe
  · exact benign_upe

theorem vDiv_benign (a b : Val) (ha : Good a) (hb : Good b) : Benign (vDiv a b) := by
  have key : Benign (do let ib ← vInv b; vMul a ib) :=
    benign_bind (vInv_benign b hb) (fun v hv => vMul_benign a v ha hv)
  cases a <;> cases b <;> simp only [Good] at ha hb <;> simp only [vDiv] <;>
    first
    | exact benign_upe
    | exact key

theorem vNeg_benign (a : Val) (ha : Good a) : Benign (vNeg a) := by
  cases a <;> simp only [Good] at ha <;> simp only [vNeg]
  · exact mkMono_benign _ _ ha.2
  · exact benign_upe
  · exact benign_upe

theorem vPos_benign (a : Val) (ha : Good a) : Benign (vPos a) := by
  cases a <;> simp only [Good] at ha <;> simp only [vPos]
  · exact ha
  · exact benign_upe
  · exact benign_upe

theorem guardRat_cases (q : Rat) :
    (∃ r, guardRat q = .ok r ∧ okRat r = true) ∨ guardRat q = .error .unmodelled := by
  unfold guardRat
  split
  · next hg => exact Or.inl ⟨_, rfl, hg⟩
  · exact Or.inr rfl

theorem bitsOf_le_of_okRat {c : Rat} (h : okRat c = true) :
    bitsOf c.num.natAbs ≤ bitLimit ∧ bitsOf c.den ≤ bitLimit := by
  simpa [okRat] using h

/-- an integer power with a small exponent of a number within the size guard never "hangs" -/
theorem numPowInt_nohang (c : Rat) (n : Int) (hc : okRat c = true) (hn : n.natAbs ≤ 64) :
    (∃ r, numPowInt c n = .ok r ∧ okRat r = true) ∨ numPowInt c n = .error .unmodelled := by
  obtain ⟨h1, h2⟩ := bitsOf_le_of_okRat hc
  unfold numPowInt
  split
  · exact Or.inl ⟨1, rfl, by decide⟩
  · split
    · split
      · exact Or.inl ⟨0, rfl, by decide⟩
      · exact Or.inr rfl
    · split
      · exact Or.inl ⟨1, rfl, by decide⟩
      · split
        · split
          · exact Or.inl ⟨1, rfl, by decide⟩
          · exact Or.inl ⟨-1, rfl, by decide⟩
        · simp only []
          have hw : max (bitsOf c.num.natAbs) (bitsOf c.den) - 1 ≤ 8191 := by
            unfold bitLimit at h1 h2; omega
          have hest : n.natAbs * (max (bitsOf c.num.natAbs) (bitsOf c.den) - 1) ≤ 64 * 8191 :=
            Nat.mul_le_mul hn hw
          split
          · next hh => exfalso; unfold hangBits at hh; omega
          · split
            · exact Or.inr rfl
            · exact guardRat_cases _

theorem vPow_benign (a : Val) (q : Rat) (ha : Good a) (hq : IsInt q) (hb : q.num.natAbs ≤ 64) :
    Benign (vPow a (.mono ⟨q, []⟩)) := by
  cases a with
  | fn => exact benign_upe
  | ty => exact benign_upe
  | bad c r s => exact ha.elim
  | mono x =>
    obtain ⟨hx1, hx2⟩ := ha
    simp only [vPow, List.isEmpty_nil, Bool.not_true, Bool.false_eq_true, if_false]
    split
    · exact ⟨by decide, allInt_nil⟩
    · split
      · split
        · exact ⟨by decide, allInt_nil⟩
        · exact benign_unm
      · have hden : q.den = 1 := hq
        simp only [hden, if_true]
        rcases numPowInt_nohang x.coeff q.num hx1 hb with ⟨r, hr, _⟩ | hr
        · rw [hr]; exact mkMono_benign _ _ (allInt_scaleF hx2 hq)
        · rw [hr]; exact benign_unm

theorem isMonoNum_eq {r : Except PErr Val} {q : Rat} (h : isMonoNum r q = true) : r = .ok (.mono ⟨q, []⟩) := by
  unfold isMonoNum at h
  split at h
  · next x =>
    simp only [Bool.and_eq_true, beq_iff_eq, List.isEmpty_iff] at h
    obtain ⟨h1, h2⟩ := h
    cases x; simp_all
  · cases h

/-- the three spellings of a small integer literal evaluate to that integer -/
theorem lit_table : ∀ k, k < 65 →
    isMonoNum (evalP (.num k 0)) ((k : Nat) : Int) = true ∧
    isMonoNum (evalP (.neg (.num k 0))) (-(((k : Nat) : Int) : Rat)) = true ∧
    isMonoNum (evalP (.pos (.num k 0))) ((k : Nat) : Int) = true := by decide +kernel

theorem evalP_intLit (b : PExpr) (h : intLit b = true) :
    ∃ q : Rat, evalP b = .ok (.mono ⟨q, []⟩) ∧ IsInt q ∧ q.num.natAbs ≤ 64 := by
  have small : ∀ k : Nat, k ≤ 64 → (((k : Nat) : Int) : Rat).num.natAbs ≤ 64 := by
    intro k hk; simpa using hk
  unfold intLit at h
  split at h
  · next k e =>
    simp only [Bool.and_eq_true, beq_iff_eq, decide_eq_true_eq] at h
    obtain ⟨rfl, hk⟩ := h
    exact ⟨_, isMonoNum_eq (lit_table k (by omega)).1, Rat.den_intCast _, small k hk⟩
  · next k e =>
    simp only [Bool.and_eq_true, beq_iff_eq, decide_eq_true_eq] at h
    obtain ⟨rfl, hk⟩ := h
    refine ⟨_, isMonoNum_eq (lit_table k (by omega)).2.1, isInt_neg (Rat.den_intCast _), ?_⟩
    simpa using hk
  · next k e =>
    simp only [Bool.and_eq_true, beq_iff_eq, decide_eq_true_eq] at h
    obtain ⟨rfl, hk⟩ := h
    exact ⟨_, isMonoNum_eq (lit_table k (by omega)).2.2, Rat.den_intCast _, small k hk⟩
  · cases h

theorem numValue_benign (m : Nat) (e : Int) (he : e.natAbs < 10 ^ 8) :
    (∃ q, numValue m e = .ok q ∧ okRat q = true) ∨ numValue m e = .error .unmodelled := by
  unfold numValue
  split
  · next h => omega
  · split
    · exact Or.inr rfl
    · exact guardRat_cases _

theorem vName_good (s : List Char) : Good (vName s) := by
  unfold vName
  simp only []
  split
  · trivial
  · split
    · trivial
    · split
      · trivial
      · exact ⟨(by decide : okRat 1 = true), allInt_cons isInt_one allInt_nil⟩

/-- inside the guard, evaluation never escapes -/
theorem evalP_benign (p : PExpr) (h : simple p = true) : Benign (evalP p) := by
  induction p with
  | num m e =>
    simp only [simple, decide_eq_true_eq] at h
    simp only [evalP]
    rcases numValue_benign m e h with ⟨q, hq, hok⟩ | hq
    · rw [hq]; exact ⟨hok, allInt_nil⟩
    · rw [hq]; exact benign_unm
  | name s =>
    have hs : globalTypes.contains (s.map Char.toNat) = false := by simpa [simple] using h
    simp only [evalP, hs]
    split
    · exact benign_upe
    · exact vName_good s
  | neg e ih => exact benign_bind (ih (by simpa [simple] using h)) (fun v hv => vNeg_benign v hv)
  | pos e ih => exact benign_bind (ih (by simpa [simple] using h)) (fun v hv => vPos_benign v hv)
  | mul a b iha ihb =>
    simp only [simple, Bool.and_eq_true] at h
    exact benign_bind (iha h.1) (fun x hx => benign_bind (ihb h.2) (fun y hy => vMul_benign x y hx hy))
  | div a b iha ihb =>
    simp only [simple, Bool.and_eq_true] at h
    exact benign_bind (iha h.1) (fun x hx => benign_bind (ihb h.2) (fun y hy => vDiv_benign x y hx hy))
  | pow a b iha _ =>
    simp only [simple, Bool.and_eq_true] at h
    obtain ⟨q, hq, hi, hb⟩ := evalP_intLit b h.2
    simp only [evalP, hq]
    exact benign_bind (iha h.1) (fun x hx => vPow_benign x q hx hi hb)
  | call f a _ _ => simp [simple] at h

theorem factorFlags_allInt (f : Factors) (hf : AllInt f) : (factorFlags f).2 = false := by
  induction f with
  | nil => rfl
  | cons p r ih =>
    obtain ⟨s, q⟩ := p
    have hq : q.den = 1 := hf (s, q) (List.mem_cons_self)
    have hr : AllInt r := fun p hp => hf p (List.mem_cons_of_mem _ hp)
    simp only [factorFlags]
    split <;> simp [ih hr, hq]

/-- a good value is turned into a unit or refused with `UnitParseError` -/
theorem finish_good (v : Val) (hv : Good v) :
    (∃ e, finish v = .ok e) ∨ finish v = .error .unitParseError := by
  cases v with
  | fn => exact Or.inr rfl
  | ty => exact Or.inr rfl
  | bad c r s => exact hv.elim
  | mono x =>
    have h2 := factorFlags_allInt x.factors hv.2
    simp only [finish, unitData]
    cases hff : factorFlags x.factors with
    | mk u t =>
      rw [hff] at h2
      simp only at h2
      subst h2
      cases u
      · exact Or.inl ⟨x, rfl⟩
      · exact Or.inr rfl

end Unyt.C20T
