/-
  Helper lemmas for C20 (no property statements here): every error the string path of the model
  can answer is `UnitParseError`, "not modelled" or "does not come back" — never `TypeError` or a
  decoding error (since the fixes C20-02 / C20-03).
-/
import UnytModel.Parse

namespace Unyt.C20W
open Unyt Parse

def Mild (c : PErr) : Prop := c = .unitParseError ∨ c = .unmodelled ∨ c = .hang

theorem mild_upe : Mild .unitParseError := Or.inl rfl
theorem mild_unm : Mild .unmodelled := Or.inr (Or.inl rfl)
theorem mild_hang : Mild .hang := Or.inr (Or.inr rfl)

/-- all errors of a computation are mild -/
def MildR {α : Type} (r : Except PErr α) : Prop := ∀ c, r = .error c → Mild c

theorem mildR_ok {α : Type} (a : α) : MildR (.ok a : Except PErr α) := by intro c h; cases h
theorem mildR_err {α : Type} {c : PErr} (h : Mild c) : MildR (.error c : Except PErr α) := by
  intro c' h'; cases h'; exact h

theorem mildR_map {α β : Type} {r : Except PErr α} (f : α → β) (h : MildR r) : MildR (r.map f) := by
  cases r with
  | error e => intro c hc; cases hc; exact h _ rfl
  | ok a => exact mildR_ok _

theorem mildR_bind {α β : Type} {r : Except PErr α} {f : α → Except PErr β}
    (hr : MildR r) (hf : ∀ a, MildR (f a)) : MildR (r >>= f) := by
  cases r with
  | error e => intro c hc; cases hc; exact hr _ rfl
  | ok a => exact hf a

theorem mildR_ite {α : Type} {c : Prop} [Decidable c] {a b : Except PErr α} (ha : MildR a) (hb : MildR b) :
    MildR (if c then a else b) := by
  split
  · exact ha
  · exact hb

theorem guardRat_mild (q : Rat) : MildR (guardRat q) := by
  unfold guardRat; split
  · exact mildR_ok _
  · exact mildR_err mild_unm

theorem numValue_mild (m : Nat) (e : Int) : MildR (numValue m e) := by
  unfold numValue
  split
  · exact mildR_err mild_hang
  · split
    · exact mildR_err mild_unm
    · exact guardRat_mild _

theorem numPowInt_mild (c : Rat) (n : Int) : MildR (numPowInt c n) := by
  unfold numPowInt
  repeat' split
  all_goals first
    | exact mildR_ok _
    | exact mildR_err mild_unm
    | exact mildR_err mild_hang
    | exact guardRat_mild _
    | (dsimp only; repeat' split) <;> first
        | exact mildR_err mild_unm
        | exact mildR_err mild_hang
        | exact guardRat_mild _

theorem mkMono_mild (c : Rat) (f : Factors) : MildR (mkMono c f) := by
  unfold mkMono
  repeat' split
  all_goals first
    | exact mildR_ok _
    | exact mildR_err mild_unm
    | (dsimp only; split <;> first | exact mildR_ok _ | exact mildR_err mild_unm)

theorem vMul_mild (a b : Val) : MildR (vMul a b) := by
  unfold vMul
  repeat' split
  all_goals first
    | exact mildR_ok _
    | exact mildR_err mild_upe
    | exact mildR_err mild_unm
    | exact mkMono_mild _ _

theorem vInv_mild (b : Val) : MildR (vInv b) := by
  unfold vInv
  repeat' split
  all_goals first
    | exact mildR_ok _
    | exact mildR_err mild_upe
    | exact mildR_err mild_unm
    | exact mkMono_mild _ _

theorem vDiv_mild (a b : Val) : MildR (vDiv a b) := by
  unfold vDiv
  repeat' split
  all_goals first
    | exact mildR_err mild_upe
    | exact mildR_bind (vInv_mild _) (fun x => vMul_mild _ x)

theorem vNeg_mild (a : Val) : MildR (vNeg a) := by
  unfold vNeg
  repeat' split
  all_goals first
    | exact mildR_ok _
    | exact mildR_err mild_upe
    | exact mildR_err mild_unm
    | exact mkMono_mild _ _

theorem vPos_mild (a : Val) : MildR (vPos a) := by
  unfold vPos
  repeat' split
  all_goals first
    | exact mildR_ok _
    | exact mildR_err mild_upe
    | exact mildR_err mild_unm

theorem vPow_mild (a b : Val) : MildR (vPow a b) := by
  unfold vPow
  repeat' split
  all_goals first
    | exact mildR_ok _
    | exact mildR_err mild_upe
    | exact mildR_err mild_unm
    | exact mildR_err mild_hang
    | exact mildR_bind (numPowInt_mild _ _) (fun x => mkMono_mild _ _)
    | (dsimp only; repeat' split) <;> first
        | exact mildR_ok _
        | exact mildR_err mild_unm
        | exact mildR_err mild_hang
        | exact mildR_bind (numPowInt_mild _ _) (fun x => mkMono_mild _ _)

theorem vCall_mild (f a : Val) : MildR (vCall f a) := by
  unfold vCall
  repeat' split
  all_goals first
    | exact mildR_err mild_upe
    | exact mildR_err mild_unm
    | exact vPow_mild _ _

theorem evalP_mild (p : PExpr) : MildR (evalP p) := by
  induction p with
  | num m e => exact mildR_bind (numValue_mild m e) (fun q => mildR_ok _)
  | name s =>
    simp only [evalP]
    split
    · exact mildR_err mild_upe
    · exact mildR_ok _
  | neg e ih => exact mildR_bind ih (fun v => vNeg_mild v)
  | pos e ih => exact mildR_bind ih (fun v => vPos_mild v)
  | mul a b iha ihb => exact mildR_bind iha (fun x => mildR_bind ihb (fun y => vMul_mild x y))
  | div a b iha ihb => exact mildR_bind iha (fun x => mildR_bind ihb (fun y => vDiv_mild x y))
  | pow a b iha ihb => exact mildR_bind iha (fun x => mildR_bind ihb (fun y => vPow_mild x y))
  | call f a iha ihb => exact mildR_bind iha (fun x => mildR_bind ihb (fun y => vCall_mild x y))

theorem finish_mild (v : Val) : MildR (finish v) := by
  unfold finish
  split
  · exact mildR_err mild_upe
  · exact mildR_err mild_upe
  · unfold unitData
    split
    · exact mildR_ok _
    · exact mildR_err mild_upe
  · exact mildR_err mild_upe

end Unyt.C20W

namespace Unyt.C20W
open Unyt Parse

theorem lex_mild : ∀ (fuel depth : Nat) (cs : List Char), MildR (lex fuel depth cs) := by
  intro fuel
  induction fuel with
  | zero => intro d cs; simp only [lex]; exact mildR_err mild_unm
  | succ n ih =>
    intro d cs
    cases cs with
    | nil =>
      simp only [lex]
      split
      · exact mildR_ok _
      · exact mildR_err mild_upe
    | cons c rest =>
      simp only [lex]
      have M : ∀ {f : List Tok → List Tok} {d' : Nat} {cs' : List Char}, MildR (Except.map f (lex n d' cs')) :=
        fun {f d' cs'} => mildR_map f (ih d' cs')
      by_cases h1 : (decide (c = ' ') || decide (c = '\t') || decide (c.toNat = 12)) = true
      · rw [if_pos h1]; exact ih _ _
      rw [if_neg h1]
      by_cases h2 : c = '\r'
      · rw [if_pos h2]; exact mildR_err mild_unm
      rw [if_neg h2]
      by_cases h3 : c = '\n'
      · rw [if_pos h3]
        by_cases hd : d = 0
        · rw [if_pos hd]; exact mildR_err mild_upe
        · rw [if_neg hd]; exact ih _ _
      rw [if_neg h3]
      by_cases h4 : c = '('
      · rw [if_pos h4]; exact M
      rw [if_neg h4]
      by_cases h5 : c = ')'
      · rw [if_pos h5]
        by_cases hd : d = 0
        · rw [if_pos hd]; exact mildR_err mild_upe
        · rw [if_neg hd]; exact M
      rw [if_neg h5]
      by_cases h6 : c = '*'
      · rw [if_pos h6]
        split
        · exact M
        · split
          · split
            · exact M
            · exact M
          · exact M
      rw [if_neg h6]
      by_cases h7 : c = '/'
      · rw [if_pos h7]; exact M
      rw [if_neg h7]
      by_cases h8 : c = '-'
      · rw [if_pos h8]; exact M
      rw [if_neg h8]
      by_cases h9 : c = '+'
      · rw [if_pos h9]; exact M
      rw [if_neg h9]
      apply mildR_ite
      · split
        · exact mildR_err mild_upe
        · apply mildR_ite
          · split
            · apply mildR_ite
              · exact M
              · exact mildR_err mild_upe
            · exact mildR_err mild_upe
          · exact M
      · apply mildR_ite
        · exact M
        · exact mildR_err mild_upe

theorem tokenize_mild (cs : List Char) : MildR (tokenize cs) := by
  unfold tokenize
  dsimp only
  split
  · next e h => intro c hc; cases hc; exact lex_mild _ _ _ _ h
  · split
    · exact mildR_err mild_unm
    · exact mildR_ok _

theorem parseChars_mild (cs : List Char) : MildR (parseChars cs) := by
  unfold parseChars
  dsimp only
  split
  · next e h => intro c hc; cases hc; exact tokenize_mild _ _ h
  · split
    · exact mildR_err mild_upe
    · split
      · next e h => intro c hc; cases hc; exact evalP_mild _ _ h
      · exact finish_mild _

end Unyt.C20W
