/-
  Lemmas for C08 — sequences of temperature quantities as operands (`UnytModel.TempSeq`).
  No property statement here.
-/
import UnytModel.TempSeq
import UnytProofs.Lemmas.C08

set_option linter.unusedSectionVars false

namespace Unyt.Temp

/-- a successful `mapE` has one result per element, each the result of `f` on that element -/
theorem mapE_ok {α β : Type} (f : α → Except Err β) :
    ∀ (l : List α) (rs : List β), mapE f l = .ok rs →
      rs.length = l.length ∧ ∀ (i : Nat) (h : i < l.length) (h' : i < rs.length), f l[i] = .ok rs[i] := by
  intro l
  induction l with
  | nil =>
    intro rs h
    simp only [mapE] at h
    cases h
    exact ⟨rfl, fun i h => absurd h (Nat.not_lt_zero i)⟩
  | cons a as ih =>
    intro rs h
    simp only [mapE] at h
    split at h
    · cases h
    · rename_i b hb
      split at h
      · cases h
      · rename_i bs hbs
        cases h
        obtain ⟨hl, hi⟩ := ih bs hbs
        refine ⟨by simp [hl], ?_⟩
        intro i h1 h2
        cases i with
        | zero => simpa using hb
        | succ j => simpa using hi j (by simpa using h1) (by simpa using h2)

section
variable {K : Type} [Lean.Grind.Field K] [Lean.Grind.IsCharP K 0] [BEq K] [LawfulBEq K]
  [IsClose K] [LawfulIsClose K]

open Unyt.Temp.Ref

/-- units that `Unit.__eq__` identifies mark the same absolute temperature with the same reading -/
theorem absK_of_unitEq (d u : TU K) (h : unitEq exactTab d u = true) (x : K) :
    absK d x = absK u x := by
  obtain ⟨hs, ho⟩ := (unitEq_iff _ _ _).1 h
  rw [absK_eq, absK_eq, hs]
  have : (slope d.base * zero d.base : K) = slope u.base * zero u.base := by
    rcases d with ⟨pd, bd⟩
    rcases u with ⟨pu, bu⟩
    cases bd <;> cases bu <;> simp only [TU.offset, exactTab, zero, slope] at ho ⊢ <;> grind
  rw [this]

/-- a reading in a difference unit: position on the absolute scale = size of the difference -/
theorem absK_eq_difK (u : TU K) (h : kind u.base = .diff) (x : K) : absK u x = difK u x := by
  rcases u with ⟨p, b⟩
  cases b <;> simp [kind] at h <;> simp only [absK, difK, zero] <;> grind

end
end Unyt.Temp
