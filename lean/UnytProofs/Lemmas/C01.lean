/-
  Helper lemmas for C01 (no property statements here).
-/
import UnytModel.Ufunc
import UnytModel.ArrayChecks

set_option linter.unusedSectionVars false
set_option linter.unusedVariables false

namespace Unyt.C01
open Unyt Unyt.Ufunc Unyt.ArrayChecks

/-- what the theorems assume of `Unit.__eq__`: equal units have equal dimensions -/
def UeqSound {K : Type} (ueq : UnitV K → UnitV K → Bool) : Prop :=
  ∀ u v, ueq u v = true → u.dim = v.dim

theorem eqFloat_sound : UeqSound UnitV.eqFloat := by
  intro u v h
  simp only [UnitV.eqFloat, Bool.and_eq_true] at h
  simpa using h.2

theorem eqv_sound {K : Type} [BEq K] : UeqSound (UnitV.eqv (K := K)) := by
  intro u v h
  simp only [UnitV.eqv, Bool.and_eq_true] at h
  simpa using h.2

section
variable {K : Type} [Add K] [Sub K] [Mul K] [Div K] [OfNat K 0] [OfNat K 1] [BEq K] [RPow K]

/-- the zero exception is entered: an operand without units is all zeros -/
def zeroAdoptionApplies (i0 i1 : Operand K) : Bool :=
  (i0.hasNoUnits && i0.data.allZero) || (i1.hasNoUnits && i1.data.allZero)

theorem adoptZero_none (i0 i1 : Operand K) (u0 u1 : UnitR K)
    (h : zeroAdoptionApplies i0 i1 = false) : adoptZero i0 i1 u0 u1 = (u0, u1) := by
  simp only [zeroAdoptionApplies, Bool.or_eq_false_iff] at h
  simp [adoptZero, h.1, h.2]

theorem dim_bne_of_ne {a b : Dim} (h : a ≠ b) : (a != b) = true := by
  simpa using h

theorem dim_bne_false_of_eq {a b : Dim} (h : a = b) : (a != b) = false := by
  simp [h]

/-- a mismatch that no exception of the code covers is refused -/
theorem commensurate_refuse (C : Ctx K) (hs : UeqSound C.ueq) (rule : Rule) (f : String)
    (i0 i1 : Operand K) (u0 u1 : UnitR K)
    (hd : u0.v.dim ≠ u1.v.dim)
    (hz : zeroAdoptionApplies i0 i1 = false)
    (hcmp : rule = .comparison →
      u0.v.isDimensionless = false ∧ u1.v.isDimensionless = false
      ∧ (f == C.T.equalName) = false ∧ (f == C.T.notEqualName) = false) :
    commensurate C rule f i0 i1 u0 u1 = .refuse := by
  have hne : C.ueq u0.v u1.v = false := by
    cases h : C.ueq u0.v u1.v with
    | false => rfl
    | true => exact absurd (hs _ _ h) hd
  simp only [commensurate, hne, adoptZero_none i0 i1 u0 u1 hz, dim_bne_of_ne hd]
  by_cases hr : rule = .comparison
  · obtain ⟨a, b, c, d⟩ := hcmp hr
    subst hr
    simp [a, b, c, d]
  · have : (rule == Rule.comparison) = false := by simpa using hr
    simp [this]

/-- the conversion loop of `_coerce_iterable_units` fails on the first item of another dimension -/
theorem coerceItems_refuses (ff : UnitR K) (items : List (Option (UnitR K)))
    (hall : ∀ o ∈ items, o ≠ none)
    (hex : ∃ v, some v ∈ items ∧ v.v.dim ≠ ff.v.dim) :
    coerceItems ff items = .error .IterableUnitCoercionError := by
  induction items with
  | nil => obtain ⟨v, hv, _⟩ := hex; cases hv
  | cons o rest ih =>
    cases o with
    | none => exact absurd rfl (hall none List.mem_cons_self)
    | some u =>
      simp only [coerceItems]
      by_cases hu : u.v.dim = ff.v.dim
      · simp only [hu, bne_self_eq_false, Bool.false_eq_true, if_false]
        apply ih
        · intro o ho; exact hall o (List.mem_cons_of_mem _ ho)
        · obtain ⟨v, hv, hd⟩ := hex
          cases hv with
          | head => exact absurd hu hd
          | tail _ h => exact ⟨v, h, hd⟩
      · simp [dim_bne_of_ne hu]

end
end Unyt.C01
