/-
  Helper lemmas for C12, part 3: in a state coherent with the contents `c`, every safe call
  answers like the fresh registry `fresh c`.  (No property statement here.)
-/
import UnytProofs.Lemmas.C12Step

set_option linter.unusedSectionVars false
set_option linter.unusedVariables false

namespace Unyt.RegC12
open Unyt

variable {K : Type} [Mul K] [OfNat K 1] [OfNat K 0] [RPow K]
variable (cfg : Cfg) (pre : Prefixes K) (parse : String → Except Err (PExpr K))

theorem invalidate_fresh_find (c : Lut K) (k : String) :
    (invalidate cfg (fresh c)).lut.find? k = c.find? k := by
  cases hp : cfg.purgeDerived <;> simp [invalidate, fresh, hp, find?_eraseKeys]

/-- what the fresh registry answers to `Unit(q, registry=fresh)` -/
theorem fresh_unit (c : Lut K) (q : String) :
    (step cfg pre parse (fresh c) (.unit q)).2 =
      match parse q with
      | .error e => .err e
      | .ok ex =>
        match pureEval pre c ex with
        | none => .err .UnitParseError
        | some u => .unit 0 u := by
  simp only [step, fresh, cfind]
  cases hp : parse q with
  | error e => rfl
  | ok ex =>
    simp only []
    obtain ⟨_, g2⟩ := evalExpr_refines pre c c [] (LutRefines.refl pre c) ex
    rcases he : evalExpr pre c [] ex with ⟨t', D', r⟩
    rw [he] at g2
    simp only [] at g2
    subst g2
    cases pureEval pre c ex <;> rfl

theorem fresh_lookupW (c : Lut K) (k : String) :
    (lookupW pre c [] k).2.2 = resolve pre c k :=
  (lookupW_refines pre c c [] (LutRefines.refl pre c) k).2

theorem step_sim (c : Lut K) (s : RegState K) (h : Coherent pre parse c s) (op : Op K)
    (hsafe : opSafe cfg parse s op = true) :
    Out.Sim (step cfg pre parse s op).2 (step cfg pre parse (fresh c) op).2 := by
  cases op with
  | add sym e => simp only [step, Out.Sim]
  | addInvalid sym => simp only [step, Out.Sim]
  | modifyF sym v =>
    simp only [opSafe] at hsafe
    have hag := find_sym_agree cfg pre parse c _ sym (invalidate_coherent cfg pre parse c s h) hsafe
    have hfr := invalidate_fresh_find cfg c sym
    simp only [step, hag, hfr]
    cases c.find? sym <;> simp only [Out.Sim]
  | modifyQ sym v d own =>
    simp only [opSafe] at hsafe
    have hag := find_sym_agree cfg pre parse c _ sym (invalidate_coherent cfg pre parse c s h) hsafe
    have hfr := invalidate_fresh_find cfg c sym
    simp only [step, hag, hfr]
    cases c.find? sym <;> simp only [Out.Sim]
  | remove sym =>
    simp only [opSafe] at hsafe
    have hag := find_sym_agree cfg pre parse c _ sym (invalidate_coherent cfg pre parse c s h) hsafe
    have hfr := invalidate_fresh_find cfg c sym
    simp only [step, hag, hfr]
    cases c.find? sym <;> simp only [Out.Sim]
  | unit q =>
    rw [fresh_unit]
    obtain ⟨hl, hc, hm⟩ := h
    simp only [step]
    cases hcf : cfind s.cache q with
    | some i =>
      obtain ⟨ex, u, a1, a2, a3⟩ := hc q i (cfind_mem _ _ _ hcf)
      simp only [a1, a2, a3, Out.Sim]
    | none =>
      simp only []
      cases hp : parse q with
      | error e => simp only [Out.Sim]
      | ok ex =>
        simp only []
        obtain ⟨_, g2⟩ := evalExpr_refines pre c s.lut s.derived hl ex
        rcases he : evalExpr pre s.lut s.derived ex with ⟨t', D', r⟩
        rw [he] at g2
        simp only [] at g2
        subst g2
        cases pureEval pre c ex <;> simp only [Out.Sim]
  | contains k =>
    obtain ⟨_, g2⟩ := lookupW_refines pre c s.lut s.derived h.lut k
    have g3 := fresh_lookupW pre c k
    simp only [step, fresh]
    rcases he : lookupW pre s.lut s.derived k with ⟨t', D', r⟩
    rcases he' : lookupW pre c [] k with ⟨t'', D'', r'⟩
    rw [he] at g2; rw [he'] at g3
    simp only [] at g2 g3
    subst g2 g3
    cases resolve pre c k <;> simp only [Out.Sim]
  | getitem k =>
    obtain ⟨_, g2⟩ := lookupW_refines pre c s.lut s.derived h.lut k
    have g3 := fresh_lookupW pre c k
    simp only [step, fresh]
    rcases he : lookupW pre s.lut s.derived k with ⟨t', D', r⟩
    rcases he' : lookupW pre c [] k with ⟨t'', D'', r'⟩
    rw [he] at g2; rw [he'] at g3
    simp only [] at g2 g3
    subst g2 g3
    cases resolve pre c k <;> simp only [Out.Sim]
  | sysId =>
    simp only [opSafe, Bool.and_eq_true, Bool.not_eq_true'] at hsafe
    obtain ⟨hst, hs⟩ := hsafe
    have hfresh : ∀ k, Lut.find? (snapshot cfg (fresh c)) k = c.find? k := fun k =>
      snapshot_eq cfg pre c (fresh c) (LutRefines.refl pre c) (by simp [fresh]) k
    simp only [step]
    cases hmm : s.idMemo with
    | some d =>
      simp only [fresh, Out.Sim]
      intro k
      rw [h.memo hst d hmm k]
      exact (hfresh k).symm
    | none =>
      simp only [fresh, Out.Sim]
      intro k
      rw [snapshot_eq cfg pre c s h.lut hs k]
      exact (hfresh k).symm

/-! ### whole histories -/

theorem run_nil (s : RegState K) : run cfg pre parse s [] = s := rfl

theorem run_cons (s : RegState K) (o : Op K) (h : List (Op K)) :
    run cfg pre parse s (o :: h) = run cfg pre parse (step cfg pre parse s o).1 h := rfl

theorem contents_cons (c : Lut K) (o : Op K) (h : List (Op K)) :
    contents c (o :: h) = contents (specStep c o) h := rfl

theorem run_coherent (h : List (Op K)) :
    ∀ (c : Lut K) (s : RegState K), Coherent pre parse c s → safeRun cfg pre parse s h = true →
      Coherent pre parse (contents c h) (run cfg pre parse s h) := by
  induction h with
  | nil => intro c s hc _; exact hc
  | cons o rest ih =>
    intro c s hc hs
    simp only [safeRun, Bool.and_eq_true] at hs
    rw [run_cons, contents_cons]
    exact ih _ _ (step_coherent cfg pre parse c s hc o hs.1) hs.2

/-- in the repaired configuration the memo is never filled from a pre-update table -/
theorem step_memoStale_repaired (s : RegState K) (op : Op K) (h : s.memoStale = false) :
    (step Cfg.repaired pre parse s op).1.memoStale = false := by
  cases op with
  | add sym e => simp [step, invalidate]
  | addInvalid sym => simp [step, invalidate]
  | modifyF sym v => simp only [step]; split <;> simp [invalidate]
  | modifyQ sym v d own => simp only [step]; split <;> simp [invalidate, Cfg.repaired]
  | remove sym => simp only [step]; split <;> simp [invalidate]
  | unit q =>
    simp only [step]
    split
    · split <;> exact h
    · split
      · exact h
      · split <;> exact h
  | contains k => simp only [step]; split <;> exact h
  | getitem k => simp only [step]; split <;> exact h
  | sysId => simp only [step]; split <;> exact h

/-- in the repaired configuration every step is safe: an edit starts by clearing both layers -/
theorem opSafe_repaired (s : RegState K) (op : Op K) (h : s.memoStale = false) :
    opSafe Cfg.repaired parse s op = true := by
  cases op <;> simp [opSafe, editSafe, invalidate, Cfg.repaired, h]

theorem safeRun_repaired (h : List (Op K)) :
    ∀ s : RegState K, s.memoStale = false → safeRun Cfg.repaired pre parse s h = true := by
  induction h with
  | nil => intro s _; rfl
  | cons o rest ih =>
    intro s hs
    simp only [safeRun, opSafe_repaired parse s o hs, Bool.true_and]
    exact ih _ (step_memoStale_repaired pre parse s o hs)

/-- the objects handed out so far are never touched by a step: the heap only grows -/
theorem step_objs (s : RegState K) (op : Op K) :
    ∃ l, (step cfg pre parse s op).1.objs = s.objs ++ l := by
  have hinv : (invalidate cfg s).objs = s.objs := by
    cases hp : cfg.purgeDerived <;> simp [invalidate, hp]
  cases op with
  | add sym e => exact ⟨[], by simp [step, hinv]⟩
  | addInvalid sym => exact ⟨[], by simp [step, hinv]⟩
  | modifyF sym v =>
    refine ⟨[], ?_⟩
    simp only [step]; split <;> simp [hinv]
  | modifyQ sym v d own =>
    refine ⟨[], ?_⟩
    simp only [step]; split
    · simp [hinv]
    · split <;> simp [hinv]
  | remove sym =>
    refine ⟨[], ?_⟩
    simp only [step]; split <;> simp [hinv]
  | unit q =>
    simp only [step]
    split
    · split <;> exact ⟨[], by simp⟩
    · split
      · exact ⟨[], by simp⟩
      · split
        · exact ⟨[], by simp⟩
        · rename_i u _; exact ⟨[u], rfl⟩
  | contains k =>
    refine ⟨[], ?_⟩
    simp only [step]; split <;> simp
  | getitem k =>
    refine ⟨[], ?_⟩
    simp only [step]; split <;> simp
  | sysId =>
    refine ⟨[], ?_⟩
    simp only [step]; split <;> simp

theorem run_objs (h : List (Op K)) :
    ∀ s : RegState K, ∃ l, (run cfg pre parse s h).objs = s.objs ++ l := by
  induction h with
  | nil => intro s; exact ⟨[], by simp [run_nil]⟩
  | cons o rest ih =>
    intro s
    obtain ⟨l1, h1⟩ := step_objs cfg pre parse s o
    obtain ⟨l2, h2⟩ := ih (step cfg pre parse s o).1
    exact ⟨l1 ++ l2, by rw [run_cons, h2, h1, List.append_assoc]⟩

theorem run_append (h h' : List (Op K)) (s : RegState K) :
    run cfg pre parse s (h ++ h') = run cfg pre parse (run cfg pre parse s h) h' := by
  simp only [run, List.foldl_append]

theorem contents_append (h h' : List (Op K)) (c : Lut K) :
    contents c (h ++ h') = contents (contents c h) h' := by
  simp only [contents, List.foldl_append]

end Unyt.RegC12
