/-
  Helper lemmas for C05 about quotients of dimensions (no property statements here).
-/
import UnytProofs.Lemmas.Dim

namespace Unyt.Dim

theorem div_mul_cancel' (a b : Dim) : a / b * b = a := by
  cases a; cases b; simp only [div_def, mul_def, Dim.mul, Dim.inv, Dim.mk.injEq]; grind

theorem div_eq_mul_pow_neg_one (a b : Dim) : a / b = a * b.pow (-1) := by
  cases a; cases b; simp only [div_def, mul_def, Dim.mul, Dim.inv, Dim.pow, Dim.mk.injEq]; grind

theorem div_self' (a : Dim) : a / a = Dim.one := by
  cases a; simp only [div_def, Dim.mul, Dim.inv, Dim.one, Dim.mk.injEq]; grind

theorem div_one' (a : Dim) : a / Dim.one = a := by
  cases a; simp only [div_def, Dim.mul, Dim.inv, Dim.one, Dim.mk.injEq]; grind

end Unyt.Dim
