/-
  C14, chunk 11 of 16 of the whole-table obligations (kernel-decided in slices; assembled in
  UnytProofs/Lemmas/C14Rows.lean, stated in UnytProofs/C14.lean).
-/
import UnytModel.C14Check
import UnytProofs.Lemmas.C14Chunk07  -- build order only: at most four chunks are decided concurrently

namespace Unyt.C14

/-- every listed name of chunk 11 (four slices of 64 rows) is read by the string route and by the
    three attribute routes as the independent reference reads it -/
theorem names_slice_11_0 : namesSliceOk 11 0 = true := by decide +kernel
theorem names_slice_11_1 : namesSliceOk 11 1 = true := by decide +kernel
theorem names_slice_11_2 : namesSliceOk 11 2 = true := by decide +kernel
theorem names_slice_11_3 : namesSliceOk 11 3 = true := by decide +kernel

/-- prefix spellings 3·11 … 3·11+2 (symbols, then word forms) are rejected on every
    non-prefixable spelling (three slices of 110 spelling rows) -/
theorem nonprefixable_slice_11_0 : nonprefixableSliceOk 11 0 = true := by decide +kernel
theorem nonprefixable_slice_11_1 : nonprefixableSliceOk 11 1 = true := by decide +kernel
theorem nonprefixable_slice_11_2 : nonprefixableSliceOk 11 2 = true := by decide +kernel

/-- the body of `generate_name_alternatives`' outer loop, for the table keys number i ≡ 11 (mod 16),
    started in the state the real generator had there, appends exactly what the real one appended -/
theorem gen_chunk_11 : genChunkOk 11 = true := by decide +kernel

end Unyt.C14
