/-
  Helper lemmas for the program-driven model of `_coerce_iterable_units`
  (`UnytModel/C16CoerceProg.lean`); the property statements are in `UnytProofs/C16.lean` §7b.
-/
import UnytModel.C16CoerceProg

namespace Unyt.CoProg

theorem mapE_ok {α β ε : Type} (g : α → β) (l : List α) :
    mapE (ε := ε) (fun x => .ok (g x)) l = .ok (l.map g) := by
  induction l with
  | nil => rfl
  | cons x xs ih => simp [mapE, ih]

theorem mapE_guard {α β ε : Type} (p : α → Bool) (g : α → β) (e : ε) (l : List α) :
    mapE (fun x => if p x then .ok (g x) else .error e) l
      = if l.all p then .ok (l.map g) else .error e := by
  induction l with
  | nil => rfl
  | cons x xs ih =>
    simp only [mapE, ih, List.all_cons, List.map_cons]
    cases hp : p x <;> cases hq : xs.all p <;> simp

theorem mapE_congr {α β ε : Type} (f g : α → Except ε β) (l : List α) (h : ∀ x ∈ l, f x = g x) :
    mapE f l = mapE g l := by
  induction l with
  | nil => rfl
  | cons x xs ih =>
    simp only [mapE, h x (by simp), ih (fun y hy => h y (by simp [hy]))]

theorem mapE_length {α β ε : Type} (f : α → Except ε β) (l : List α) (vs : List β)
    (h : mapE f l = .ok vs) : vs.length = l.length := by
  induction l generalizing vs with
  | nil => simp [mapE] at h; subst h; rfl
  | cons x xs ih =>
    simp only [mapE] at h
    split at h
    · cases h
    · split at h
      · cases h
      · rename_i ys hys
        cases h
        simp [ih ys hys]

/-- `allAbs` lists every abstract element state -/
theorem allAbs_complete (a : ElemAbs) : a ∈ allAbs := by
  obtain ⟨k, d, u⟩ := a
  cases k <;> cases d <;> cases u <;> decide

end Unyt.CoProg
