/-
  Helper lemmas for C07 (no property statement here):
  * soundness of the symbolic comparison of exponent expressions (`Expo.same`);
  * the shape fact behind "`a.size // res.size` is the number of factors of each product"
    (`Shape.reduceFrom` of the shared shape algebra);
  * the algebra of unit labels `labelScale` under lawful rational powers.
-/
import UnytModel.UnitRules
import UnytModel.UnitRulesCheck

set_option linter.unusedSectionVars false

namespace Unyt.UR

/-! ### symbolic comparison -/

def Atom.eval (env : Env) : Atom → Option Rat
  | .dim p i => (Expo.dim p i).eval env
  | .ratio p => (Expo.sizeRatio p).eval env

def nfEval (env : Env) : Option Atom × Rat → Option Rat
  | (none, c) => some c
  | (some a, c) => (a.eval env).map (· + c)

/-- the environment describes a call in which, for the parameters `ps`, `reduced p` (elements combined
    per result element) is what `p.size // result.size` computes — true of every reduction
    (`sizeRatio_eq_reduced`).  Only the parameters an expression really mentions matter: for the
    expressions without `.reduced` (everything the translator emits, and every reference entry except
    `np.prod`'s) the condition is empty and holds in EVERY environment, in particular in the ones the
    driver builds (`Ops/C07.lean: c07Env`); for `np.prod` the driver's environment carries the measured
    count and `c07.predict` reports whether the condition holds (`envValidForB`). -/
def EnvValidFor (ps : List String) (env : Env) : Prop :=
  ∀ p ∈ ps, (Expo.reduced p).eval env = (Expo.sizeRatio p).eval env

theorem envValidForB_iff (ps : List String) (env : Env) : envValidForB ps env = true ↔ EnvValidFor ps env := by
  simp [envValidForB, EnvValidFor]

/-- the strong form (all parameters) -/
def EnvValid (env : Env) : Prop :=
  ∀ p, (Expo.reduced p).eval env = (Expo.sizeRatio p).eval env

theorem EnvValid.for {env : Env} (h : EnvValid env) (ps : List String) : EnvValidFor ps env :=
  fun p _ => h p

theorem nf_eval (env : Env) :
    ∀ (e : Expo) (x : Option Atom × Rat), EnvValidFor e.reducedParams env → e.nf = some x →
      e.eval env = nfEval env x := by
  intro e
  induction e with
  | const q => intro x _ h; simp only [Expo.nf, Option.some.injEq] at h; subst h; rfl
  | dim p i =>
    intro x _ h; simp only [Expo.nf, Option.some.injEq] at h; subst h
    simp only [nfEval, Atom.eval]
    cases (Expo.dim p i).eval env <;> simp [Rat.add_zero]
  | sizeRatio p =>
    intro x _ h; simp only [Expo.nf, Option.some.injEq] at h; subst h
    simp only [nfEval, Atom.eval]
    cases (Expo.sizeRatio p).eval env <;> simp [Rat.add_zero]
  | reduced p =>
    intro x hv h; simp only [Expo.nf, Option.some.injEq] at h; subst h
    simp only [nfEval, Atom.eval]
    rw [hv p (by simp [Expo.reducedParams])]
    cases (Expo.sizeRatio p).eval env <;> simp [Rat.add_zero]
  | nops p => intro x _ h; simp [Expo.nf] at h
  | unknown => intro x _ h; simp [Expo.nf] at h
  | plusConst e q ih =>
    intro x hv h
    simp only [Expo.nf] at h
    cases hn : e.nf with
    | none => simp [hn] at h
    | some y =>
      obtain ⟨a, c⟩ := y
      simp only [hn, Option.map_some, Option.some.injEq] at h
      subst h
      simp only [Expo.eval, ih (a, c) (by simpa [Expo.reducedParams] using hv) hn]
      cases a with
      | none => simp [nfEval]
      | some at' =>
        simp only [nfEval]
        cases at'.eval env <;> simp [Rat.add_assoc]

/-- `same` is sound: expressions with the same normal form evaluate alike in every call in which the
    reduced counts THEY mention are what `size // result.size` computes -/
theorem same_sound (env : Env) (a b : Expo)
    (hva : EnvValidFor a.reducedParams env) (hvb : EnvValidFor b.reducedParams env)
    (h : a.same b = true) : a.eval env = b.eval env := by
  unfold Expo.same at h
  cases ha : a.nf with
  | none => simp [ha] at h
  | some x =>
    cases hb : b.nf with
    | none => simp [ha, hb] at h
    | some y =>
      simp only [ha, hb, beq_iff_eq] at h
      rw [nf_eval env a x hva ha, nf_eval env b y hvb hb, h]

/-! ### list helpers -/

theorem find_of_nodup (l : List (String × Expo)) (g : String) (ex : Expo)
    (h : (g, ex) ∈ l) (hn : (l.map (·.1)).Nodup) : l.find? (fun x => x.1 == g) = some (g, ex) := by
  induction l with
  | nil => simp at h
  | cons a t ih =>
    simp only [List.map_cons, List.nodup_cons] at hn
    simp only [List.mem_cons] at h
    rcases h with rfl | hin
    · simp [List.find?]
    · have hne : a.1 ≠ g := by
        intro h; apply hn.1; rw [h]; exact List.mem_map_of_mem (f := (·.1)) hin
      have hb : (a.1 == g) = false := by simpa using hne
      simp only [List.find?, hb]
      exact ih hin hn.2

theorem mapM_congr_opt {α β : Type} (f g : α → Option β) :
    ∀ l : List α, (∀ a ∈ l, f a = g a) → l.mapM f = l.mapM g := by
  intro l
  induction l with
  | nil => intro _; rfl
  | cons a t ih =>
    intro h
    simp only [List.mapM_cons, h a (List.mem_cons_self ..), ih (fun b hb => h b (List.mem_cons_of_mem _ hb))]

/-! ### an accepted row: what an empty defect list says, leaf by leaf -/

open Unyt.Ref in
theorem leafDefects_units_sound (r : Row) (i : Nat) (l : List (String × Expo)) (leaf : Leaf)
    (h : leafDefects r i (.units l) leaf = []) :
    ∀ g ∈ r.groups, ∃ e, expectedExpo r l g = some e ∧ (expoOf leaf.expo g).same e = true := by
  intro g hg
  unfold leafDefects at h
  simp only [List.append_eq_nil_iff] at h
  obtain ⟨⟨_, hp⟩, _⟩ := h
  rw [List.filterMap_eq_nil_iff] at hp
  have hg' := hp g hg
  cases he : expectedExpo r l g with
  | none => simp [he] at hg'
  | some e =>
    refine ⟨e, rfl, ?_⟩
    simp only [he] at hg'
    by_cases hs : (expoOf leaf.expo g).same e = true
    · exact hs
    · simp [hs] at hg'

open Unyt.Ref in
theorem leafDefects_unitless_sound (r : Row) (i : Nat) (leaf : Leaf)
    (h : leafDefects r i .unitless leaf = []) :
    ∀ ge ∈ leaf.expo, ge.2.isZero = true := by
  intro ge hge
  unfold leafDefects at h
  simp only at h
  rw [List.filterMap_eq_nil_iff] at h
  have := h ge hge
  by_cases hz : ge.2.isZero = true
  · exact hz
  · simp [hz] at this

open Unyt.Ref in
theorem zipDefects_sound (r : Row) :
    ∀ (ss : List LeafSpec) (ls : List Leaf) (i : Nat), zipDefects r i ss ls = [] →
      ss.length = ls.length ∧ ∀ p ∈ ss.zip ls, ∃ j, leafDefects r j p.1 p.2 = [] := by
  intro ss
  induction ss with
  | nil =>
    intro ls i h
    cases ls with
    | nil => exact ⟨rfl, by intro p hp; simp at hp⟩
    | cons l ls => simp [zipDefects] at h
  | cons s ss ih =>
    intro ls i h
    cases ls with
    | nil => simp [zipDefects] at h
    | cons l ls =>
      simp only [zipDefects, List.append_eq_nil_iff] at h
      obtain ⟨hlen, hrest⟩ := ih ls (i + 1) h.2
      refine ⟨by simp [hlen], ?_⟩
      intro p hp
      simp only [List.zip_cons_cons, List.mem_cons] at hp
      rcases hp with rfl | hp
      · exact ⟨i, h.1⟩
      · exact hrest p hp

/-! ### reductions: `size // result.size` counts the reduced elements -/

/-- product of the dimensions whose position `i, i+1, …` is in `axs` -/
def reducedCount (i : Nat) (axs : List Nat) : Shape → Nat
  | [] => 1
  | d :: s => if i ∈ axs then d * reducedCount (i + 1) axs s else reducedCount (i + 1) axs s

theorem size_eq_reduced_mul (axs : List Nat) (keep : Bool) :
    ∀ (s : Shape) (i : Nat),
      Shape.size s = reducedCount i axs s * Shape.size (Shape.reduceFrom i axs keep s) := by
  intro s
  induction s with
  | nil => intro i; simp [Shape.size, reducedCount, Shape.reduceFrom]
  | cons d t ih =>
    intro i
    simp only [Shape.size, reducedCount, Shape.reduceFrom]
    by_cases h : i ∈ axs
    · cases keep <;> simp only [h, if_true, Shape.size, ih (i + 1)] <;>
        simp [Nat.mul_assoc]
    · simp only [h, if_false, Shape.size, ih (i + 1)]
      rw [Nat.mul_left_comm]

/-- `a.size // res.size` IS the number of elements multiplied into each element of a reduction's
    result, for every shape, every set of axes, with and without `keepdims` (non-empty result) -/
theorem sizeRatio_eq_reduced (axs : List Nat) (keep : Bool) (s : Shape)
    (hpos : 0 < Shape.size (Shape.reduceFrom 0 axs keep s)) :
    Shape.size s / Shape.size (Shape.reduceFrom 0 axs keep s) = reducedCount 0 axs s := by
  rw [size_eq_reduced_mul axs keep s 0]
  exact Nat.mul_div_cancel _ hpos

/-! ### labels -/

variable {K : Type} [Lean.Grind.Field K] [RPow K]

theorem labelScale_reexpress (P : K → Prop) (laws : RPowLaws (RPow.rpow (K := K)) P)
    (u u' lam : String → K)
    (hpos : ∀ g, P (u' g) ∧ P (lam g)) (hconv : ∀ g, lam g * u' g = u g) :
    ∀ d : List (String × Rat), labelScale u' d * labelScale lam d = labelScale u d := by
  intro d
  induction d with
  | nil => simp only [labelScale]; grind
  | cons p r ih =>
    obtain ⟨g, q⟩ := p
    simp only [labelScale]
    have h1 : RPow.rpow (u g) q = RPow.rpow (lam g) q * RPow.rpow (u' g) q := by
      rw [← hconv g]; exact laws.mul_rpow q (hpos g).2 (hpos g).1
    rw [h1, ← ih]
    grind

end Unyt.UR
