/-
  UnytProofs.Lemmas.C11Binary — the binary path of the dispatcher model (`Ufunc.binaryPath`,
  `stdBinary`, `powerPath`, `commensurate`, the rule functions) does not look at an identity bit that
  belongs to a dimension other than angle / temperature / logarithmic.  Helper lemmas for the
  `identity_loss_pinned_binary*` theorems of `UnytProofs/C11.lean` (no property statement here).
-/
import UnytProofs.Lemmas.C11

set_option linter.unusedSectionVars false
set_option linter.unusedVariables false
set_option linter.unusedSimpArgs false

namespace Unyt.C11
open Unyt Unyt.Persist Unyt.Ufunc

section
variable {K : Type} [Add K] [Sub K] [Mul K] [Div K] [OfNat K 0] [OfNat K 1] [BEq K] [RPow K]

/-- the unit-equality test of the context does not look at the identity bit -/
def UeqBlind (C : Ufunc.Ctx K) : Prop :=
  ∀ (a b : UnitV K) (ca cb : Bool), C.ueq { a with canon := ca } { b with canon := cb } = C.ueq a b

/-- `a` is `b`, or `b` with another identity bit where the bit is never read (dimension not one
    of angle / temperature / logarithmic) -/
def RSim (a b : UnitR K) : Prop :=
  a = b ∨ (Dim.isBase3 b.v.dim = false ∧ ∃ c, a = ⟨{ b.v with canon := c }, b.repr⟩)

theorem RSim.refl (a : UnitR K) : RSim a a := Or.inl rfl

theorem rsim_facts {a b : UnitR K} (h : RSim a b) :
    a.repr = b.repr ∧ a.v.dim = b.v.dim ∧ a.v.offset = b.v.offset ∧ a.v.scale = b.v.scale ∧ a.v.expr = b.v.expr
      ∧ isTemperature a.v = isTemperature b.v ∧ isAngle a.v = isAngle b.v ∧ UnitV.isLogarithmic a.v = UnitV.isLogarithmic b.v
      ∧ UnitV.noCanon a.v = UnitV.noCanon b.v := by
  rcases h with h | ⟨hb, c, h⟩
  · subst h; simp
  · obtain ⟨h1, h2, h3⟩ := base3_facts b.v hb
    subst h
    simp [isTemperature, isAngle, UnitV.isLogarithmic, h1, h2, h3, UnitV.noCanon]

theorem ueq_rsim (C : Ufunc.Ctx K) (hb : UeqBlind C) {a0 b0 a1 b1 : UnitR K} (h0 : RSim a0 b0) (h1 : RSim a1 b1) :
    C.ueq a0.v a1.v = C.ueq b0.v b1.v := by
  have e0 : a0.v = { b0.v with canon := a0.v.canon } := by
    obtain ⟨_, hd, ho, hs, he, _⟩ := rsim_facts h0
    cases hv : a0.v; simp [hv] at hd ho hs he ⊢; simp [hd, ho, hs, he]
  have e1 : a1.v = { b1.v with canon := a1.v.canon } := by
    obtain ⟨_, hd, ho, hs, he, _⟩ := rsim_facts h1
    cases hv : a1.v; simp [hv] at hd ho hs he ⊢; simp [hd, ho, hs, he]
  rw [e0, e1]
  have := hb b0.v b1.v a0.v.canon a1.v.canon
  have t0 : ({ b0.v with canon := b0.v.canon } : UnitV K) = b0.v := by cases b0.v; rfl
  have t1 : ({ b1.v with canon := b1.v.canon } : UnitV K) = b1.v := by cases b1.v; rfl
  have := hb b0.v b1.v b0.v.canon b1.v.canon
  rw [t0, t1] at this
  rw [hb b0.v b1.v a0.v.canon a1.v.canon]

theorem mul_rsim {a0 b0 a1 b1 : UnitR K} (h0 : RSim a0 b0) (h1 : RSim a1 b1) :
    UnitV.mul a0.v a1.v = UnitV.mul b0.v b1.v := by
  obtain ⟨_, d0, o0, s0, e0, _, _, l0, _⟩ := rsim_facts h0
  obtain ⟨_, d1, o1, s1, e1, _, _, l1, _⟩ := rsim_facts h1
  simp only [UnitV.mul, UnitV.mulOffset, UnitV.isTempOrAngle, UnitV.isDimensionless, d0, d1, o0, o1, s0, s1, e0, e1, l0, l1]
  try rfl

theorem div_rsim {a0 b0 a1 b1 : UnitR K} (h0 : RSim a0 b0) (h1 : RSim a1 b1) :
    UnitV.div a0.v a1.v = UnitV.div b0.v b1.v := by
  obtain ⟨_, d0, o0, s0, e0, _, _, l0, _⟩ := rsim_facts h0
  obtain ⟨_, d1, o1, s1, e1, _, _, l1, _⟩ := rsim_facts h1
  simp only [UnitV.div, UnitV.isTempOrAngle, UnitV.isDimensionless, d0, d1, o0, o1, s0, s1, e0, e1, l0, l1]
  try rfl

theorem preserveUnits_rsim {a0 b0 a1 b1 : UnitR K} (h0 : RSim a0 b0) (h1 : RSim a1 b1) :
    RSim (preserveUnits a0 (some a1)) (preserveUnits b0 (some b1)) := by
  obtain ⟨_, d0, o0, s0, e0, t0, _, l0, _⟩ := rsim_facts h0
  obtain ⟨_, d1, o1, s1, e1, _, _, l1, _⟩ := rsim_facts h1
  simp only [preserveUnits, t0, o0, o1]
  split
  · exact h0
  · split
    · exact h1
    · exact h0

theorem noCanon_of_rsim {a b : UnitR K} (h : RSim a b) : UnitV.noCanon a.v = UnitV.noCanon b.v :=
  (rsim_facts h).2.2.2.2.2.2.2.2

theorem differenceUnits_rsim (C : Ufunc.Ctx K) (hb : UeqBlind C) {a0 b0 a1 b1 : UnitR K}
    (h0 : RSim a0 b0) (h1 : RSim a1 b1) :
    (differenceUnits C a0 (some a1)).map UnitV.noCanon = (differenceUnits C b0 (some b1)).map UnitV.noCanon := by
  obtain ⟨r0, d0, o0, s0, e0, t0, _, l0, n0⟩ := rsim_facts h0
  obtain ⟨r1, d1, o1, s1, e1, _, _, l1, n1⟩ := rsim_facts h1
  have hp := noCanon_of_rsim (preserveUnits_rsim h0 h1)
  simp only [differenceUnits, t0, o0, r0, r1, ueq_rsim C hb h1 h0]
  split
  · simp [Except.map, hp]
  · split
    · split
      · simp [Except.map, n0]
      · split
        · simp [Except.map, n1]
        · rfl
    · split
      · simp [Except.map, n0]
      · split
        · rfl
        · split
          · rfl
          · rfl

theorem applyRule2_rsim (C : Ufunc.Ctx K) (hb : UeqBlind C) (r : Rule) {a0 b0 a1 b1 : UnitR K}
    (h0 : RSim a0 b0) (h1 : RSim a1 b1) :
    (applyRule2 C r a0 a1).map stripP = (applyRule2 C r b0 b1).map stripP := by
  cases r <;> simp only [applyRule2]
  case preserve => simp [Except.map, stripP, noCanon_of_rsim (preserveUnits_rsim h0 h1)]
  case difference =>
    have := differenceUnits_rsim C hb h0 h1
    cases ha : differenceUnits C a0 (some a1) <;> cases hc : differenceUnits C b0 (some b1) <;>
      simp_all [Except.map, stripP]
  case passthrough => simp [Except.map, stripP, noCanon_of_rsim h0]
  case multiply => rw [mul_rsim h0 h1]
  case divide => rw [div_rsim h0 h1]
  case floorDivide => rw [div_rsim h0 h1]

/-- two operands that the dispatcher cannot tell apart except through their units -/
def OpSim (i j : Operand K) : Prop := i.hasNoUnits = j.hasNoUnits ∧ i.isUnyt = j.isUnyt ∧ i.data = j.data

/-- the verdicts of the dimension check are related -/
def CheckSim : Check K → Check K → Prop
  | .pass a0 a1 cv, .pass b0 b1 cv' => RSim a0 b0 ∧ RSim a1 b1 ∧ cv = cv'
  | .early x, .early y => x = y
  | .refuse, .refuse => True
  | _, _ => False

theorem commensurate_rsim (C : Ufunc.Ctx K) (hb : UeqBlind C) (rule : Rule) (f : String)
    (i0 j0 i1 j1 : Operand K) (hi0 : OpSim i0 j0) (hi1 : OpSim i1 j1)
    {a0 b0 a1 b1 : UnitR K} (h0 : RSim a0 b0) (h1 : RSim a1 b1) :
    CheckSim (commensurate C rule f i0 i1 a0 a1) (commensurate C rule f j0 j1 b0 b1) := by
  simp only [commensurate, ueq_rsim C hb h0 h1]
  split
  · exact ⟨h0, h1, rfl⟩
  · -- the zero exception picks the same side on both
    have hz : RSim (adoptZero i0 i1 a0 a1).1 (adoptZero j0 j1 b0 b1).1 ∧ RSim (adoptZero i0 i1 a0 a1).2 (adoptZero j0 j1 b0 b1).2 := by
      simp only [adoptZero, hi0.1, hi0.2.2, hi1.1, hi1.2.2]
      split
      · exact ⟨h1, h1⟩
      · split
        · exact ⟨h0, h0⟩
        · exact ⟨h0, h1⟩
    obtain ⟨z0, z1⟩ := hz
    generalize (adoptZero i0 i1 a0 a1).1 = A0 at z0 ⊢
    generalize (adoptZero i0 i1 a0 a1).2 = A1 at z1 ⊢
    generalize (adoptZero j0 j1 b0 b1).1 = B0 at z0 ⊢
    generalize (adoptZero j0 j1 b0 b1).2 = B1 at z1 ⊢
    obtain ⟨_, d0, _⟩ := rsim_facts z0
    obtain ⟨_, d1, _⟩ := rsim_facts z1
    simp only [UnitV.isDimensionless, d0, d1]
    by_cases hd : (B0.v.dim != B1.v.dim) = true
    · simp only [hd, if_true]
      by_cases hr : (rule == Rule.comparison) = true
      · simp only [hr, if_true]
        by_cases hA : (B0.v.dim == Dim.one) = true
        · simp only [hA, if_true]; exact ⟨z1, z1, rfl⟩
        · simp only [hA, if_false]
          by_cases hB : (B1.v.dim == Dim.one) = true
          · simp only [hB, if_true]; exact ⟨z0, z0, rfl⟩
          · simp only [hB, if_false]
            by_cases he : (f == C.T.equalName) = true
            · simp only [he, if_true]; rfl
            · simp only [he, if_false]
              by_cases hn : (f == C.T.notEqualName) = true
              · simp only [hn, if_true]; rfl
              · simp only [hn, if_false]; trivial
      · simp only [hr, if_false]; trivial
    · simp only [hd, if_false]; exact ⟨z0, z1, rfl⟩

theorem rsim_eta {a b : UnitR K} (h : RSim a b) : a.v = { b.v with canon := a.v.canon } := by
  obtain ⟨_, hd, ho, hs, he, _⟩ := rsim_facts h
  cases hv : a.v
  simp [hv] at hd ho hs he ⊢
  simp [hd, ho, hs, he]

theorem convertSecond_rsim (C : Ufunc.Ctx K) (rule : Rule) (d : Data) {a0 b0 a1 b1 : UnitR K}
    (h0 : RSim a0 b0) (h1 : RSim a1 b1) : convertSecond C rule a0 a1 d = convertSecond C rule b0 b1 d := by
  obtain ⟨r0, _, o0, s0, _, t0, _⟩ := rsim_facts h0
  obtain ⟨_, _, o1, s1, _, _⟩ := rsim_facts h1
  have hg : getConversionFactor C.pre C.lut a1.v a0.v = getConversionFactor C.pre C.lut b1.v b0.v := by
    rw [rsim_eta h0, rsim_eta h1]; rfl
  simp only [convertSecond, hg, r0, o0, o1, s0, s1, t0]

theorem mulDivPost_rsim (rule : Rule) (m : K) {a0 b0 a1 b1 : UnitR K} (h0 : RSim a0 b0) (h1 : RSim a1 b1)
    (ua ub : Option (UnitV K)) (hu : ua.map UnitV.noCanon = ub.map UnitV.noCanon) :
    (mulDivPost rule a0 a1 m ua).map stripP = (mulDivPost rule b0 b1 m ub).map stripP := by
  obtain ⟨_, d0, o0, _, _, t0, _, _, _⟩ := rsim_facts h0
  obtain ⟨_, d1, o1, _, _, t1, _, _, _⟩ := rsim_facts h1
  simp only [mulDivPost, UnitV.isDimensionless, d0, d1, o0, o1, t0, t1]
  cases ua with
  | none =>
    cases ub with
    | none => rfl
    | some y => simp at hu
  | some x =>
    cases ub with
    | none => simp at hu
    | some y =>
      simp only [Option.map_some, Option.some.injEq, UnitV.noCanon] at hu
      have hs : x.scale = y.scale := by have := congrArg UnitV.scale hu; simpa using this
      have hd : x.dim = y.dim := by have := congrArg UnitV.dim hu; simpa using this
      simp only [hs, hd]
      by_cases h1c : (rule == Rule.multiply || rule == Rule.divide) = true
      · simp only [h1c, if_true]
        by_cases h2c : (b0.v.offset != 0 && isTemperature b0.v || b1.v.offset != 0 && isTemperature b1.v) = true
        · simp only [h2c, if_true]
        · simp only [h2c, if_false]
          by_cases h3c : (y.dim == Dim.one && y.scale != 1 && !b0.v.dim == Dim.one && b0.v.dim == b1.v.dim) = true
          · simp only [h3c, if_true]
          · simp only [h3c, if_false]; simp [Except.map, stripP, UnitV.noCanon, hu]
      · simp only [h1c, if_false]; simp [Except.map, stripP, UnitV.noCanon, hu]

theorem wrapUp_none_result' (T : Tables) (eff : List (Effect K)) (c : Call K) (hc : c.out = .none) (mul : K)
    (unit : Option (UnitV K)) (factor : Option K) (fsz : Option Nat) :
    (wrapUp T eff c false mul unit factor fsz).result
      = .ok { unit := unit, factor := factor, factorItemsize := fsz, mul := mul } := by
  simp [wrapUp, wrapClassFails, finishOut, hc]

/-- the binary path: operands that differ only in identity bits that are never read give the same
    outcome (modulo the bit in the result unit) -/
theorem stdBinary_rsim (C : Ufunc.Ctx K) (hb : UeqBlind C) (c : Call K) (hc : c.out = .none) (rule : Rule)
    (i0 j0 i1 j1 : Operand K) (hi0 : OpSim i0 j0) (hi1 : OpSim i1 j1) (hu0 : j0.isUnyt = true)
    {a0 b0 a1 b1 : UnitR K} (h0 : RSim a0 b0) (h1 : RSim a1 b1) (eff : List (Effect K)) :
    (stdBinary C c rule i0 i1 (some a0) (some a1) eff).result.map stripO
      = (stdBinary C c rule j0 j1 (some b0) (some b1) eff).result.map stripO := by
  obtain ⟨r0, d0, o0, _, _, t0, _, _, _⟩ := rsim_facts h0
  obtain ⟨r1, d1, o1, _, _, t1, _, _, _⟩ := rsim_facts h1
  simp only [stdBinary, defaultUnit, t0, o0, o1, r0, d0, d1]
  by_cases hkr : (rule == Rule.preserve && isTemperature b0.v && b1.v.offset != 0 && b0.v.offset == 0
      && (b0.repr == "K" || b0.repr == "R")) = true
  · simp only [hkr, if_true]
  · simp only [hkr, Bool.false_eq_true, if_false]
    -- floor division of operands of different dimensions falls back to the quotient rule
    by_cases hfd : (rule == Rule.floorDivide && b0.v.dim != b1.v.dim) = true
    · simp only [hfd, if_true]
      have hchk : CheckSim (if Rule.rescales Rule.divide = true then commensurate C Rule.divide c.ufunc i0 i1 a0 a1 else Check.pass a0 a1 false)
          (if Rule.rescales Rule.divide = true then commensurate C Rule.divide c.ufunc j0 j1 b0 b1 else Check.pass b0 b1 false) := by
        by_cases hck : Rule.rescales Rule.divide = true
        · simp only [hck, if_true]; exact commensurate_rsim C hb Rule.divide c.ufunc i0 j0 i1 j1 hi0 hi1 h0 h1
        · simp only [hck, if_false]; exact ⟨h0, h1, rfl⟩
      revert hchk
      generalize (if Rule.rescales Rule.divide = true then commensurate C Rule.divide c.ufunc i0 i1 a0 a1 else Check.pass a0 a1 false) = chkA
      generalize (if Rule.rescales Rule.divide = true then commensurate C Rule.divide c.ufunc j0 j1 b0 b1 else Check.pass b0 b1 false) = chkB
      intro hchk
      cases chkA with
      | refuse =>
        cases chkB with
        | refuse => rfl
        | early y => simp [CheckSim] at hchk
        | pass _ _ _ => simp [CheckSim] at hchk
      | early x =>
        cases chkB with
        | early y => simp only [CheckSim] at hchk; subst hchk; simp only [hc, Bool.false_eq_true, if_false]
        | pass _ _ _ => simp [CheckSim] at hchk
        | refuse => simp [CheckSim] at hchk
      | pass x0 x1 cv =>
        cases chkB with
        | early y => simp [CheckSim] at hchk
        | refuse => simp [CheckSim] at hchk
        | pass y0 y1 cv' =>
          obtain ⟨g0, g1, gc⟩ := hchk
          subst gc
          have hcs := convertSecond_rsim C Rule.divide j1.data g0 g1
          simp only [hi1.2.2, hcs, Bool.false_eq_true, if_false]
          cases hcv : (if cv = true then Except.map some (convertSecond C Rule.divide y0 y1 j1.data) else Except.ok none) with
          | error e => rfl
          | ok cvo =>
            simp only
            have hr := applyRule2_rsim C hb Rule.divide g0 g1
            cases ha : applyRule2 C Rule.divide x0 x1 with
            | error e1 =>
              cases hbb : applyRule2 C Rule.divide y0 y1 with
              | error e2 => simp [ha, hbb, Except.map] at hr; simp [hr]
              | ok p2 => simp [ha, hbb, Except.map] at hr
            | ok p1 =>
              cases hbb : applyRule2 C Rule.divide y0 y1 with
              | error e2 => simp [ha, hbb, Except.map] at hr
              | ok p2 =>
                obtain ⟨m1, ua⟩ := p1
                obtain ⟨m2, ub⟩ := p2
                simp only [ha, hbb, Except.map, stripP, Except.ok.injEq, Prod.mk.injEq] at hr
                obtain ⟨hm, hun⟩ := hr
                subst hm
                simp only
                cases c.kernelErr with
                | some e => rfl
                | none =>
                  simp only
                  have hp := mulDivPost_rsim Rule.divide m1 g0 g1 ua ub hun
                  cases hpa : mulDivPost Rule.divide x0 x1 m1 ua with
                  | error e1 =>
                    cases hpb : mulDivPost Rule.divide y0 y1 m1 ub with
                    | error e2 => simp [hpa, hpb, Except.map] at hp; simp [hp]
                    | ok q2 => simp [hpa, hpb, Except.map] at hp
                  | ok q1 =>
                    cases hpb : mulDivPost Rule.divide y0 y1 m1 ub with
                    | error e2 => simp [hpa, hpb, Except.map] at hp
                    | ok q2 =>
                      obtain ⟨n1, va⟩ := q1
                      obtain ⟨n2, vb⟩ := q2
                      simp only [hpa, hpb, Except.map, stripP, Except.ok.injEq, Prod.mk.injEq] at hp
                      obtain ⟨hn, hvn⟩ := hp
                      subst hn
                      have hu1 : i0.isUnyt = true := by rw [hi0.2.1]; exact hu0
                      simp only [hu1, hu0, Bool.not_true, Bool.false_and,
                        wrapUp_none_result' C.T _ c hc, Except.map, stripO, hvn]
    · simp only [hfd, Bool.false_eq_true, if_false]
      have hchk : CheckSim (if Rule.rescales rule = true then commensurate C rule c.ufunc i0 i1 a0 a1 else Check.pass a0 a1 false)
          (if Rule.rescales rule = true then commensurate C rule c.ufunc j0 j1 b0 b1 else Check.pass b0 b1 false) := by
        by_cases hck : Rule.rescales rule = true
        · simp only [hck, if_true]; exact commensurate_rsim C hb rule c.ufunc i0 j0 i1 j1 hi0 hi1 h0 h1
        · simp only [hck, if_false]; exact ⟨h0, h1, rfl⟩
      revert hchk
      generalize (if Rule.rescales rule = true then commensurate C rule c.ufunc i0 i1 a0 a1 else Check.pass a0 a1 false) = chkA
      generalize (if Rule.rescales rule = true then commensurate C rule c.ufunc j0 j1 b0 b1 else Check.pass b0 b1 false) = chkB
      intro hchk
      cases chkA with
      | refuse =>
        cases chkB with
        | refuse => rfl
        | early y => simp [CheckSim] at hchk
        | pass _ _ _ => simp [CheckSim] at hchk
      | early x =>
        cases chkB with
        | early y => simp only [CheckSim] at hchk; subst hchk; simp only [hc, Bool.false_eq_true, if_false]
        | pass _ _ _ => simp [CheckSim] at hchk
        | refuse => simp [CheckSim] at hchk
      | pass x0 x1 cv =>
        cases chkB with
        | early y => simp [CheckSim] at hchk
        | refuse => simp [CheckSim] at hchk
        | pass y0 y1 cv' =>
          obtain ⟨g0, g1, gc⟩ := hchk
          subst gc
          have hcs := convertSecond_rsim C rule j1.data g0 g1
          simp only [hi1.2.2, hcs, Bool.false_eq_true, if_false]
          cases hcv : (if cv = true then Except.map some (convertSecond C rule y0 y1 j1.data) else Except.ok none) with
          | error e => rfl
          | ok cvo =>
            simp only
            have hr := applyRule2_rsim C hb rule g0 g1
            cases ha : applyRule2 C rule x0 x1 with
            | error e1 =>
              cases hbb : applyRule2 C rule y0 y1 with
              | error e2 => simp [ha, hbb, Except.map] at hr; simp [hr]
              | ok p2 => simp [ha, hbb, Except.map] at hr
            | ok p1 =>
              cases hbb : applyRule2 C rule y0 y1 with
              | error e2 => simp [ha, hbb, Except.map] at hr
              | ok p2 =>
                obtain ⟨m1, ua⟩ := p1
                obtain ⟨m2, ub⟩ := p2
                simp only [ha, hbb, Except.map, stripP, Except.ok.injEq, Prod.mk.injEq] at hr
                obtain ⟨hm, hun⟩ := hr
                subst hm
                simp only
                cases c.kernelErr with
                | some e => rfl
                | none =>
                  simp only
                  have hp := mulDivPost_rsim rule m1 g0 g1 ua ub hun
                  cases hpa : mulDivPost rule x0 x1 m1 ua with
                  | error e1 =>
                    cases hpb : mulDivPost rule y0 y1 m1 ub with
                    | error e2 => simp [hpa, hpb, Except.map] at hp; simp [hp]
                    | ok q2 => simp [hpa, hpb, Except.map] at hp
                  | ok q1 =>
                    cases hpb : mulDivPost rule y0 y1 m1 ub with
                    | error e2 => simp [hpa, hpb, Except.map] at hp
                    | ok q2 =>
                      obtain ⟨n1, va⟩ := q1
                      obtain ⟨n2, vb⟩ := q2
                      simp only [hpa, hpb, Except.map, stripP, Except.ok.injEq, Prod.mk.injEq] at hp
                      obtain ⟨hn, hvn⟩ := hp
                      subst hn
                      have hu1 : i0.isUnyt = true := by rw [hi0.2.1]; exact hu0
                      simp only [hu1, hu0, Bool.not_true, Bool.false_and,
                        wrapUp_none_result' C.T _ c hc, Except.map, stripO, hvn]

theorem pow_rsim {a b : UnitR K} (h : RSim a b) (p : Rat) : UnitV.pow a.v p = UnitV.pow b.v p := by
  obtain ⟨_, d0, o0, s0, e0, _, _, l0, _⟩ := rsim_facts h
  simp only [UnitV.pow, d0, o0, s0, e0, l0]

theorem powerPath_rsim (C : Ufunc.Ctx K) (c : Call K) (hc : c.out = .none)
    (i0 j0 i1 j1 : Operand K) (hi0 : OpSim i0 j0) (hi1 : OpSim i1 j1) (hu0 : j0.isUnyt = true)
    {a0 b0 a1 b1 : UnitR K} (h0 : RSim a0 b0) (h1 : RSim a1 b1) (eff : List (Effect K)) :
    (powerPath C c i0 i1 (some a0) (some a1) eff).result.map stripO
      = (powerPath C c j0 j1 (some b0) (some b1) eff).result.map stripO := by
  obtain ⟨_, d0, _⟩ := rsim_facts h0
  obtain ⟨_, d1, _⟩ := rsim_facts h1
  have hu1 : i0.isUnyt = true := by rw [hi0.2.1]; exact hu0
  simp only [powerPath, defaultUnit, UnitV.isDimensionless, d0, d1, hi0.2.2, hi1.2.2, pow_rsim h0, hu1, hu0,
    Bool.not_true, Bool.false_and]
  rfl

/-- the binary entry of the dispatcher on two `unyt` operands -/
theorem binaryPath_rsim (C : Ufunc.Ctx K) (hb : UeqBlind C) (c : Call K) (hc : c.out = .none)
    (cls0 cls1 : Cls) (d0 d1 : Data) {a0 b0 a1 b1 : UnitR K} (h0 : RSim a0 b0) (h1 : RSim a1 b1)
    (eff : List (Effect K)) :
    (binaryPath C c (.unyt cls0 a0 d0) (.unyt cls1 a1 d1) eff).result.map stripO
      = (binaryPath C c (.unyt cls0 b0 d0) (.unyt cls1 b1 d1) eff).result.map stripO := by
  simp only [binaryPath, coerce, unitsOf]
  split
  · exact powerPath_rsim C c hc _ _ _ _ ⟨rfl, rfl, rfl⟩ ⟨rfl, rfl, rfl⟩ rfl h0 h1 eff
  · cases C.T.ruleOf c.ufunc with
    | none => rfl
    | some rule => exact stdBinary_rsim C hb c hc rule _ _ _ _ ⟨rfl, rfl, rfl⟩ ⟨rfl, rfl, rfl⟩ rfl h0 h1 eff

theorem rsim_lose (u : UnitV K) (rp : String) (h : Dim.isBase3 u.dim = false) :
    RSim (⟨{ u with canon := false }, rp⟩ : UnitR K) ⟨u, rp⟩ := Or.inr ⟨h, false, rfl⟩

/-- the unit-equality test of a follow-up context does not look at the identity bit
    (true of `UnitV.eqv` and of `UnitV.eqFloat`, the two the checks run with) -/
def UeqBlindF (C : FCtx K) : Prop :=
  ∀ (a b : UnitV K) (ca cb : Bool), C.ueq { a with canon := ca } { b with canon := cb } = C.ueq a b

theorem ueqBlind_of (C : FCtx K) (R : PReg K) (h : UeqBlindF C) : UeqBlind (C.ufunc R) := h

end
end Unyt.C11
