/-
  Helper lemmas for C04: what the unit rules return for zero-offset operands (scales multiply /
  divide, dimensions follow, `simplify` only touches the expression), the shape of the
  post-multiplication block, and the conversion factor of commensurable zero-offset units.
-/
import UnytModel.UfuncValue
import UnytModel.Ref.C04Classes
import UnytModel.Shape

set_option linter.unusedSectionVars false

namespace Unyt.UV
open Unyt

variable {K : Type} [Lean.Grind.Field K] [BEq K] [LawfulBEq K] [RPow K]

/-- soundness of the unit-equality test handed to the dispatcher: units it calls equal have
    the same scale, offset and dimension (true of `UnitV.eqv`, i.e. `Unit.__eq__` at a lawful
    carrier; at `Float` the test is `math.isclose`, equal up to 1e-9) -/
def UeqSound (ueq : UnitV K → UnitV K → Bool) : Prop :=
  ∀ a b, ueq a b = true → a.scale = b.scale ∧ a.offset = b.offset ∧ a.dim = b.dim

theorem eqv_sound : UeqSound (UnitV.eqv (K := K)) := by
  intro a b h
  simpa [UnitV.eqv, and_assoc] using h

/-- only the floor-division rule is ever swapped for another -/
theorem effective_of_ne_floorDivide (r : Rule) (h : r ≠ .floorDivide) (b : Bool) : r.effective b = r := by
  cases r <;> cases b <;> first | rfl | decide | exact absurd rfl h

theorem effective_false (r : Rule) : r.effective false = r := by simp [Rule.effective]

theorem conv_zero_offsets (pre : Prefixes K) (t : Lut K) (a b : UnitV K) (ha : a.offset = 0) (hb : b.offset = 0)
    (hd : a.dim = b.dim) : getConversionFactor pre t a b = .ok (a.scale / b.scale, none) := by
  simp [getConversionFactor, ha, hb, hd]

theorem preserveUnits_zero (u0 u1 : UnitV K) (h1 : u1.offset = 0) : (preserveUnits u0 (some u1)).2 = u0 := by
  simp only [preserveUnits]
  split
  · rfl
  · simp [h1]

theorem preserveUnits_fst (u0 : UnitV K) (u1 : Option (UnitV K)) : (preserveUnits u0 u1).1 = 1 := by
  simp only [preserveUnits]
  split
  · rfl
  · split
    · rfl
    · split <;> rfl

theorem mul_zero_offsets (u0 u1 z : UnitV K) (h0 : u0.offset = 0) (h1 : u1.offset = 0) (h : u0.mul u1 = .ok z) :
    z.scale = u0.scale * u1.scale ∧ z.dim = u0.dim * u1.dim ∧ z.offset = 0 ∧ z.expr = u0.expr.mul u1.expr := by
  simp only [UnitV.mul, UnitV.mulOffset, h0, h1] at h
  split at h; · contradiction
  split at h; · contradiction
  simp at h
  subst h
  exact ⟨rfl, rfl, rfl, rfl⟩

theorem div_zero_offsets (u0 u1 z : UnitV K) (h0 : u0.offset = 0) (h1 : u1.offset = 0) (h : u0.div u1 = .ok z) :
    z.scale = u0.scale / u1.scale ∧ z.dim = u0.dim / u1.dim ∧ z.offset = 0 ∧ z.expr = u0.expr.div u1.expr := by
  simp only [UnitV.div, h0, h1] at h
  split at h; · contradiction
  split at h; · contradiction
  simp at h
  subst h
  exact ⟨rfl, rfl, rfl, rfl⟩

theorem pow_ok (u z : UnitV K) (p : Rat) (h : u.pow p = .ok z) :
    z.scale = RPow.rpow u.scale p ∧ z.dim = u.dim.pow p ∧ z.offset = 0 ∧ z.expr = u.expr.pow p := by
  simp only [UnitV.pow] at h
  split at h; · contradiction
  split at h; · contradiction
  cases h
  exact ⟨rfl, rfl, rfl, rfl⟩

/-- true division of zero-offset units succeeds unless a logarithmic unit meets a dimensional one -/
theorem div_ok_of_not_log (u0 u1 : UnitV K) (h0 : u0.offset = 0) (h1 : u1.offset = 0)
    (l0 : u0.isLogarithmic = false) (l1 : u1.isLogarithmic = false) : ∃ z, u0.div u1 = .ok z := by
  simp [UnitV.div, h0, h1, l0, l1]

/-- `simplify` changes nothing but the expression -/
theorem simplify_ok (pre : Prefixes K) (t : Lut K) (r s : UnitV K) (h : simplify pre t r = .ok s) :
    s.scale = r.scale ∧ s.dim = r.dim ∧ s.offset = r.offset ∧ s.canon = r.canon
      ∧ cancelMul pre t r.expr = .ok s.expr := by
  simp only [simplify] at h
  split at h
  · contradiction
  · rename_i e' he; cases h; exact ⟨rfl, rfl, rfl, rfl, he⟩

/-- whatever `simplify` did to the expression: the unit `_multiply_units` returns has the
    product scale divided by the coefficient it returns beside it -/
theorem multiplyUnits_ok (pre : Prefixes K) (t : Lut K) (u0 u1 ur : UnitV K) (m : K)
    (h0 : u0.offset = 0) (h1 : u1.offset = 0) (h : multiplyUnits pre t u0 u1 = .ok (m, ur)) :
    ur.scale = u0.scale * u1.scale / m ∧ ur.dim = u0.dim * u1.dim ∧ ur.offset = 0 := by
  simp only [multiplyUnits] at h
  split at h; · contradiction
  rename_i r hr
  split at h; · contradiction
  rename_i s hs
  obtain ⟨a, b, c, _⟩ := mul_zero_offsets u0 u1 r h0 h1 hr
  obtain ⟨a', b', c', _, _⟩ := simplify_ok pre t r s hs
  simp only [UnitV.asCoeffUnit] at h
  cases h
  exact ⟨by simp [a', a], by simp [b', b], by simp [c', c]⟩

theorem divideUnits_ok (pre : Prefixes K) (t : Lut K) (u0 u1 ur : UnitV K) (m : K)
    (h0 : u0.offset = 0) (h1 : u1.offset = 0) (h : divideUnits pre t u0 u1 = .ok (m, ur)) :
    ur.scale = u0.scale / u1.scale / m ∧ ur.dim = u0.dim / u1.dim ∧ ur.offset = 0 := by
  simp only [divideUnits] at h
  split at h; · contradiction
  rename_i r hr
  split at h; · contradiction
  rename_i s hs
  obtain ⟨a, b, c, _⟩ := div_zero_offsets u0 u1 r h0 h1 hr
  obtain ⟨a', b', c', _, _⟩ := simplify_ok pre t r s hs
  simp only [UnitV.asCoeffUnit] at h
  cases h
  exact ⟨by simp [a', a], by simp [b', b], by simp [c', c]⟩

/-- the two shapes the post-multiplication block can return -/
theorem postMulBlock_ok (u0 u1 unit : UnitV K) (conv m : K) (o : Out K)
    (h : postMulBlock u0 u1 conv m unit = .ok o) :
    o.mul = m ∧ o.conv = conv ∧ o.early = none ∧
    ((o.unit = some unit ∧ o.post = 1) ∨
     (o.unit = some UnitV.dimensionless ∧ o.post = unit.scale ∧ unit.dim = Dim.one)) := by
  simp only [postMulBlock] at h
  split at h; · contradiction
  cases h
  split
  · rename_i hc
    simp only [Bool.and_eq_true, UnitV.isDimensionless, beq_iff_eq] at hc
    exact ⟨rfl, rfl, rfl, Or.inr ⟨rfl, rfl, hc.1.1.1⟩⟩
  · exact ⟨rfl, rfl, rfl, Or.inl ⟨rfl, rfl⟩⟩

/-- a ufunc that is neither trigonometric nor a power-reduction: the unary branch applies the
    rule function to the unit -/
theorem dispatchUnary_plain (ueq : UnitV K → UnitV K → Bool) (pre : Prefixes K) (t : Lut K)
    (f method : String) (r : Rule) (hf : ruleOf f = some r)
    (hnt : Generated.C04.trigOperators.contains f = false)
    (hnr : Generated.C04.reducePowerUfuncs.contains f = false) (u : UnitV K) (n : Nat) :
    dispatchUnary ueq pre t f method u n = (unaryRule ueq pre t r u).map fun p => ⟨p.2, p.1, none⟩ := by
  simp only [dispatchUnary, hnt, hnr, hf, Bool.and_false, Bool.false_and, Bool.false_eq_true, if_false]

/-- `reduce` of multiply / divide on a non-angle unit: the unit to the mapped power -/
theorem dispatchUnary_reduce (ueq : UnitV K → UnitV K → Bool) (pre : Prefixes K) (t : Lut K)
    (f : String) (u : UnitV K) (hA : isAngle u = false)
    (hr : Generated.C04.reducePowerUfuncs.contains f = true) (n : Nat) (p : Int)
    (hp : powerMap f n = some p) :
    dispatchUnary ueq pre t f "reduce" u n = (u.pow (p : Rat)).map fun v => ⟨some v, 1, none⟩ := by
  simp only [dispatchUnary, hA, hr, hp, Bool.false_and, Bool.false_eq_true, if_false, Bool.true_and]
  simp

/-- shape of a successful `_multiply_units` dispatch on two quantities -/
theorem dispatch_multiply_shape (ueq : UnitV K → UnitV K → Bool) (pre : Prefixes K) (t : Lut K)
    (f : String) (hf : ruleOf f = some .multiply) (u0 u1 : UnitV K) (z0 z1 : Bool) (o : Out K)
    (h : dispatchBinary ueq pre t f ⟨some u0, z0⟩ ⟨some u1, z1⟩ none = .ok o) :
    ∃ m unit, multiplyUnits pre t u0 u1 = .ok (m, unit) ∧ postMulBlock u0 u1 1 m unit = .ok o := by
  have hc : Rule.multiply.converts = false := by decide
  have hp : Rule.multiply.postMul = true := by decide
  simp [dispatchBinary, binaryRule, hf, hc, hp, Except.map, effective_of_ne_floorDivide] at h
  split at h; · contradiction
  · rename_i heq
    split at heq <;> simp at heq
  rename_i m unit heq
  split at heq; · contradiction
  rename_i mu hmu
  simp at heq
  obtain ⟨rfl, rfl⟩ := heq
  exact ⟨mu.1, mu.2, hmu, h⟩

theorem dispatch_divide_shape (ueq : UnitV K → UnitV K → Bool) (pre : Prefixes K) (t : Lut K)
    (f : String) (hf : ruleOf f = some .divide) (u0 u1 : UnitV K) (z0 z1 : Bool) (o : Out K)
    (h : dispatchBinary ueq pre t f ⟨some u0, z0⟩ ⟨some u1, z1⟩ none = .ok o) :
    ∃ m unit, divideUnits pre t u0 u1 = .ok (m, unit) ∧ postMulBlock u0 u1 1 m unit = .ok o := by
  have hc : Rule.divide.converts = false := by decide
  have hp : Rule.divide.postMul = true := by decide
  simp [dispatchBinary, binaryRule, hf, hc, hp, Except.map, effective_of_ne_floorDivide] at h
  split at h; · contradiction
  · rename_i heq
    split at heq <;> simp at heq
  rename_i m unit heq
  split at heq; · contradiction
  rename_i mu hmu
  simp at heq
  obtain ⟨rfl, rfl⟩ := heq
  exact ⟨mu.1, mu.2, hmu, h⟩

/-- shape of a successful `power` dispatch -/
theorem dispatch_power_shape (ueq : UnitV K → UnitV K → Bool) (pre : Prefixes K) (t : Lut K)
    (u0 : UnitV K) (z0 z1 : Bool) (p : Rat) (o : Out K)
    (h : dispatchBinary ueq pre t "power" ⟨some u0, z0⟩ ⟨none, z1⟩ (some p) = .ok o) :
    ∃ ur, u0.pow p = .ok ur ∧ o = ⟨some ur, 1, 1, 1, none⟩ := by
  have hf : ruleOf "power" = some .power := by decide
  simp [dispatchBinary, hf, Except.map] at h
  split at h; · contradiction
  rename_i ur hur
  cases h
  exact ⟨ur, hur, rfl⟩

/-- a rescaling rule that succeeds on two quantities had commensurable operands (the
    comparison rule, which has its dimensionless exception, aside) -/
theorem dispatch_converting_ok_dims (ueq : UnitV K → UnitV K → Bool) (hueq : UeqSound ueq)
    (pre : Prefixes K) (t : Lut K) (f : String) (r : Rule) (hf : ruleOf f = some r)
    (hr : r = .preserve ∨ r = .difference) (u0 u1 : UnitV K) (z0 z1 : Bool) (o : Out K)
    (h : dispatchBinary ueq pre t f ⟨some u0, z0⟩ ⟨some u1, z1⟩ none = .ok o) : u0.dim = u1.dim := by
  have hc : r.converts = true := by rcases hr with rfl | rfl <;> decide
  have hnp : (r == Rule.power) = false := by rcases hr with rfl | rfl <;> decide
  have hnc : (r == Rule.comparison) = false := by rcases hr with rfl | rfl <;> decide
  cases he : ueq u0 u1
  · by_cases hd : u0.dim = u1.dim
    · exact hd
    · exfalso
      have hd' : (u0.dim != u1.dim) = true := by simpa using hd
      have hE : ∀ b, r.effective b = r := fun b => effective_of_ne_floorDivide r (by rcases hr with rfl | rfl <;> decide) b
      simp only [dispatchBinary, hf, hnp, hE, hc, hnc] at h
      split at h
      · contradiction
      · simp [he, hd] at h
  · exact (hueq _ _ he).2.2

/-! ### shapes: the size of an array is the length of an axis times the size of the rest -/

theorem foldl_mul_eq_size (s : Shape) (k : Nat) : s.foldl (· * ·) k = k * Shape.size s := by
  induction s generalizing k with
  | nil => simp [Shape.size]
  | cons d r ih => simp only [List.foldl_cons, ih, Shape.size]; rw [Nat.mul_assoc]

theorem size_eq_getD_mul_eraseIdx (s : Shape) (a : Nat) (h : a < s.length) :
    Shape.size s = s.getD a 1 * Shape.size (s.eraseIdx a) := by
  induction s generalizing a with
  | nil => simp at h
  | cons d r ih =>
    cases a with
    | zero => simp [Shape.size]
    | succ a =>
      have h' : a < r.length := by simpa using h
      simp only [List.eraseIdx_cons_succ, Shape.size, List.getD_cons_succ, ih a h']
      rw [Nat.mul_left_comm]

theorem size_pos_of_all_pos (s : Shape) (h : ∀ d ∈ s, 0 < d) : 0 < Shape.size s := by
  induction s with
  | nil => simp [Shape.size]
  | cons d r ih =>
    simp only [Shape.size]
    exact Nat.mul_pos (h d (List.mem_cons_self ..)) (ih fun x hx => h x (List.mem_cons_of_mem _ hx))

end Unyt.UV
