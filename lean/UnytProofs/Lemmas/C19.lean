/-
  Helper lemmas for C19 (core Lean only): list plumbing of the broadcasting pairer, of
  `numpy.allclose` on bare lists, and of the decorators.  No property statement here.
-/
import UnytModel.Testing

namespace Unyt.Testing

/-- mapping both operands commutes with NumPy's broadcasting pairer -/
theorem broadcast2_map {α β γ δ : Type} (g : α → γ) (f : β → δ) (a : List α) (b : List β) :
    broadcast2 (a.map g) (b.map f)
      = (broadcast2 a b).map (fun ps => ps.map (fun p => (g p.1, f p.2))) := by
  match a, b with
  | [x], b => simp [broadcast2, List.map_map, Function.comp_def]
  | [], [y] => simp [broadcast2]
  | x1 :: x2 :: xs, [y] => simp [broadcast2, List.map_map, Function.comp_def]
  | [], [] => simp [broadcast2]
  | [], y1 :: y2 :: ys => simp [broadcast2]
  | x1 :: x2 :: xs, [] => simp [broadcast2]
  | x1 :: x2 :: xs, y1 :: y2 :: ys =>
    simp only [broadcast2, List.map, List.length_cons, List.length_map]
    split <;> simp [List.zip_map]

section
variable {K : Type} [Add K] [Sub K] [Mul K] [Neg K] [OfNat K 0] [BEq K] [LE K] [DecidableLE K]

/-- `numpy.allclose(xs, map f ys)` says yes iff the shapes broadcast and every pair is close -/
theorem npAllclose_map_iff (rt atl : K) (g f : K → K) (xs ys : List K) :
    npAllclose rt atl (xs.map g) (ys.map f) = .ok true ↔
      ∃ ps, broadcast2 xs ys = some ps ∧ ∀ p ∈ ps, iscloseElem rt atl (g p.1) (f p.2) = true := by
  unfold npAllclose npIsclose
  rw [broadcast2_map]
  cases broadcast2 xs ys with
  | none => simp
  | some ps => simp [List.all_eq_true]

theorem npAllclose_iff (rt atl : K) (xs ys : List K) :
    npAllclose rt atl xs ys = .ok true ↔
      ∃ ps, broadcast2 xs ys = some ps ∧ ∀ p ∈ ps, iscloseElem rt atl p.1 p.2 = true := by
  have := npAllclose_map_iff rt atl id id xs ys
  simpa using this

end
end Unyt.Testing
