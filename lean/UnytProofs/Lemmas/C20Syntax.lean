/-
  Helper lemmas for the token-level round trip of C20 (no property statements here):
  what the recursive-descent parser of `UnytModel/Parse.lean` does on the token sequences
  `UnytModel/Print.lean` emits, with explicit fuel.
-/
import UnytModel.PrintSyntax

namespace Unyt.C20S
open Unyt Parse Print

/-- the next token neither continues a primary (`(`) nor a power (`**`) -/
def okNext : List Tok → Bool
  | .lpar :: _ => false
  | .dstar :: _ => false
  | _ => true

/-- the next token does not continue a term either (`*`, `/`) -/
def termStops : List Tok → Bool
  | .lpar :: _ => false
  | .dstar :: _ => false
  | .star :: _ => false
  | .slash :: _ => false
  | _ => true

theorem termStops_okNext {rest : List Tok} (h : termStops rest = true) : okNext rest = true := by
  cases rest with
  | nil => rfl
  | cons t r => cases t <;> simp_all [termStops, okNext]

/-! one-step unfoldings of the parser -/

theorem pTerm_step (f : Nat) (ts : List Tok) :
    pTerm (f + 1) ts = match pFactor f ts with
      | none => none
      | some (e, rest) => pTermLoop f e rest := by simp only [pTerm]; rfl

theorem pTermLoop_star (f : Nat) (lhs : PExpr) (r : List Tok) :
    pTermLoop (f + 1) lhs (.star :: r) = match pFactor f r with
      | none => none
      | some (e, rest) => pTermLoop f (.mul lhs e) rest := by simp only [pTermLoop]; rfl

theorem pTermLoop_slash (f : Nat) (lhs : PExpr) (r : List Tok) :
    pTermLoop (f + 1) lhs (.slash :: r) = match pFactor f r with
      | none => none
      | some (e, rest) => pTermLoop f (.div lhs e) rest := by simp only [pTermLoop]; rfl

theorem pFactor_minus (f : Nat) (r : List Tok) :
    pFactor (f + 1) (.minus :: r) = (pFactor f r).map fun (e, rest) => (.neg e, rest) := by
  simp only [pFactor]

def afterPrimary (f : Nat) : Option (PExpr × List Tok) → Option (PExpr × List Tok)
  | none => none
  | some (b, rest) =>
    match rest with
    | .dstar :: r => (pFactor f r).map fun (e, rest') => (.pow b e, rest')
    | _ => some (b, rest)

theorem pFactor_num_step (f m : Nat) (e : Int) (r : List Tok) :
    pFactor (f + 1) (.num m e :: r) = afterPrimary f (pPrimary f (.num m e :: r)) := by
  simp only [pFactor, afterPrimary]; rfl

theorem pFactor_name_step (f : Nat) (s : List Char) (r : List Tok) :
    pFactor (f + 1) (.name s :: r) = afterPrimary f (pPrimary f (.name s :: r)) := by
  simp only [pFactor, afterPrimary]; rfl

theorem pFactor_lpar_step (f : Nat) (r : List Tok) :
    pFactor (f + 1) (.lpar :: r) = afterPrimary f (pPrimary f (.lpar :: r)) := by
  simp only [pFactor, afterPrimary]; rfl

theorem pPrimary_num (f m : Nat) (e : Int) (r : List Tok) :
    pPrimary (f + 1) (.num m e :: r) = pTrailers f (.num m e) r := by simp only [pPrimary]

theorem pPrimary_name (f : Nat) (s : List Char) (r : List Tok) :
    pPrimary (f + 1) (.name s :: r) = pTrailers f (.name s) r := by simp only [pPrimary]

theorem pPrimary_lpar (f : Nat) (r : List Tok) :
    pPrimary (f + 1) (.lpar :: r) = match pTerm f r with
      | some (e, .rpar :: rest) => pTrailers f e rest
      | _ => none := by simp only [pPrimary]; rfl

theorem pTrailers_lpar (f : Nat) (g : PExpr) (r : List Tok) :
    pTrailers (f + 1) g (.lpar :: r) = match pTerm f r with
      | some (a, .rpar :: rest) => pTrailers f (.call g a) rest
      | _ => none := by simp only [pTrailers]; rfl

theorem afterPrimary_stop (f : Nat) (b : PExpr) (rest : List Tok) (h : okNext rest = true) :
    afterPrimary f (some (b, rest)) = some (b, rest) := by
  cases rest with
  | nil => rfl
  | cons t r => cases t <;> simp_all [afterPrimary, okNext]

theorem afterPrimary_dstar (f : Nat) (b : PExpr) (r : List Tok) :
    afterPrimary f (some (b, .dstar :: r)) = (pFactor f r).map fun (e, rest') => (.pow b e, rest') := rfl

theorem pTrailers_stop (n : Nat) (f : PExpr) (rest : List Tok) (h : okNext rest = true) :
    pTrailers (n + 1) f rest = some (f, rest) := by
  cases rest with
  | nil => simp [pTrailers]
  | cons t r => cases t <;> simp_all [pTrailers, okNext]

theorem pTrailers_dstar (n : Nat) (f : PExpr) (r : List Tok) :
    pTrailers (n + 1) f (.dstar :: r) = some (f, .dstar :: r) := by simp [pTrailers]

theorem pTermLoop_stop (n : Nat) (lhs : PExpr) (rest : List Tok) (h : termStops rest = true) :
    pTermLoop (n + 1) lhs rest = some (lhs, rest) := by
  cases rest with
  | nil => simp [pTermLoop]
  | cons t r => cases t <;> simp_all [pTermLoop, termStops]

theorem pFactor_num (n m : Nat) (e : Int) (rest : List Tok) (h : okNext rest = true) :
    pFactor (n + 3) (.num m e :: rest) = some (.num m e, rest) := by
  rw [pFactor_num_step, pPrimary_num, pTrailers_stop _ _ _ h, afterPrimary_stop _ _ _ h]

theorem pFactor_name (n : Nat) (s : List Char) (rest : List Tok) (h : okNext rest = true) :
    pFactor (n + 3) (.name s :: rest) = some (.name s, rest) := by
  rw [pFactor_name_step, pPrimary_name, pTrailers_stop _ _ _ h, afterPrimary_stop _ _ _ h]

/-- `p`, `-p`, `p/q`, `-p/q` as a term -/
theorem pTerm_ratToks (n : Nat) (q : Rat) (rest : List Tok) (h : termStops rest = true) :
    pTerm (n + 6) (ratToks q ++ rest) = some (ratSyn q, rest) := by
  have hk := termStops_okNext h
  unfold ratToks ratSyn
  by_cases hneg : q < 0 <;> by_cases hden : q.den = 1
  · simp only [hneg, hden, if_true, List.cons_append, List.nil_append]
    rw [pTerm_step, pFactor_minus, pFactor_num (n + 1) _ _ _ hk]
    exact pTermLoop_stop _ _ _ h
  · simp only [hneg, hden, if_true, if_false, List.cons_append, List.nil_append]
    rw [pTerm_step, pFactor_minus, pFactor_num (n + 1) _ _ _ (by rfl)]
    simp only [Option.map_some]
    rw [pTermLoop_slash, pFactor_num (n + 1) _ _ _ hk]
    exact pTermLoop_stop _ _ _ h
  · simp only [hneg, hden, if_true, if_false, List.cons_append, List.nil_append]
    rw [pTerm_step, pFactor_num (n + 2) _ _ _ hk]
    exact pTermLoop_stop _ _ _ h
  · simp only [hneg, hden, if_false, List.cons_append, List.nil_append]
    rw [pTerm_step, pFactor_num (n + 2) _ _ _ (by rfl)]
    simp only []
    rw [pTermLoop_slash, pFactor_num (n + 1) _ _ _ hk]
    exact pTermLoop_stop _ _ _ h

/-- an exponent: a bare non-negative integer or a parenthesised rational -/
theorem pFactor_expToks (n : Nat) (e : Rat) (rest : List Tok) (h : okNext rest = true) :
    pFactor (n + 9) (expToks e ++ rest) = some (expSyn e, rest) := by
  unfold expToks expSyn
  by_cases hb : (e.den = 1 && e ≥ 0) = true
  · simp only [hb, if_true, List.cons_append, List.nil_append]
    exact pFactor_num (n + 6) _ _ _ h
  · simp only [hb, Bool.false_eq_true, if_false, List.cons_append, List.nil_append, List.append_assoc]
    rw [pFactor_lpar_step, pPrimary_lpar, pTerm_ratToks (n + 1) e (.rpar :: rest) (by rfl)]
    simp only []
    rw [pTrailers_stop _ _ _ h, afterPrimary_stop _ _ _ h]

/-- one printed factor -/
theorem pFactor_item (n : Nat) (it : Item) (rest : List Tok) (h : okNext rest = true) :
    pFactor (n + 12) (itemToks it ++ rest) = some (itemSyn it, rest) := by
  cases it with
  | lit k => exact pFactor_num (n + 9) _ _ _ h
  | sym s => exact pFactor_name (n + 9) _ _ h
  | sqrt s =>
    simp only [itemToks, itemSyn, List.cons_append, List.nil_append]
    rw [pFactor_name_step, pPrimary_name, pTrailers_lpar, pTerm_step,
      pFactor_name (n + 5) _ (.rpar :: rest) (by rfl)]
    simp only []
    rw [pTermLoop_stop (n + 7) _ (.rpar :: rest) (by rfl)]
    simp only []
    rw [pTrailers_stop _ _ _ h, afterPrimary_stop _ _ _ h]
  | pow s e =>
    simp only [itemToks, itemSyn, List.cons_append, List.nil_append, List.append_assoc]
    rw [pFactor_name_step, pPrimary_name, pTrailers_dstar (n + 9),
      afterPrimary_dstar, pFactor_expToks (n + 2) e rest h]
    rfl

/-- `*x₁*x₂*…` -/
def starToks : List Item → List Tok
  | [] => []
  | x :: r => Tok.star :: (itemToks x ++ starToks r)

theorem joinToks_cons (x : Item) (r : List Item) : joinToks (x :: r) = itemToks x ++ starToks r := by
  induction r generalizing x with
  | nil => simp [joinToks, starToks]
  | cons y r ih => simp only [joinToks, starToks, ih y, List.append_assoc, List.cons_append, List.nil_append]

theorem okNext_starToks (r : List Item) (rest : List Tok) (h : okNext rest = true) :
    okNext (starToks r ++ rest) = true := by
  cases r with
  | nil => simpa [starToks] using h
  | cons y r => simp [starToks, okNext]

/-- the loop of a term consumes a chain of `*x` and goes on with what follows -/
theorem pTermLoop_chain (n : Nat) (items : List Item) (lhs : PExpr) (rest : List Tok) (h : okNext rest = true) :
    pTermLoop (n + 13 + items.length) lhs (starToks items ++ rest) =
      pTermLoop (n + 13) (chainSyn lhs items) rest := by
  induction items generalizing lhs with
  | nil => simp [starToks, chainSyn]
  | cons x r ih =>
    have hr := okNext_starToks r rest h
    simp only [List.length_cons, starToks, List.cons_append, List.append_assoc, chainSyn]
    rw [show n + 13 + (r.length + 1) = (n + 13 + r.length) + 1 by omega, pTermLoop_star]
    rw [show n + 13 + r.length = (n + 1 + r.length) + 12 by omega]
    rw [pFactor_item (n + 1 + r.length) x (starToks r ++ rest) hr]
    simp only []
    rw [show (n + 1 + r.length) + 12 = n + 13 + r.length by omega]
    exact ih _

/-- a non-empty product as a term -/
theorem pTerm_join (n : Nat) (x : Item) (r : List Item) (rest : List Tok) (h : termStops rest = true) :
    pTerm (n + 15 + r.length) (joinToks (x :: r) ++ rest) = some (joinSyn (x :: r), rest) := by
  have hk := termStops_okNext h
  rw [joinToks_cons, List.append_assoc]
  rw [show n + 15 + r.length = (n + 14 + r.length) + 1 by omega, pTerm_step]
  rw [show n + 14 + r.length = (n + 2 + r.length) + 12 by omega]
  rw [pFactor_item _ x _ (okNext_starToks r rest hk)]
  simp only []
  rw [show (n + 2 + r.length) + 12 = (n + 1) + 13 + r.length by omega]
  rw [pTermLoop_chain (n + 1) r _ rest hk]
  exact pTermLoop_stop _ _ _ h

end Unyt.C20S

namespace Unyt.C20S
open Unyt Parse Print

/-- the tokens of a denominator: nothing, `/x`, or `/(x*y*…)` -/
def denToks : List Item → List Tok
  | [] => []
  | [x] => Tok.slash :: itemToks x
  | b => Tok.slash :: Tok.lpar :: (joinToks b ++ [Tok.rpar])

def denSyn (lhs : PExpr) : List Item → PExpr
  | [] => lhs
  | [x] => .div lhs (itemSyn x)
  | b => .div lhs (joinSyn b)

theorem okNext_denToks (b : List Item) : okNext (denToks b) = true := by
  match b with
  | [] => rfl
  | [_] => rfl
  | _ :: _ :: _ => rfl

theorem pTermLoop_den (n : Nat) (lhs : PExpr) (b : List Item) :
    pTermLoop (n + 20 + b.length) lhs (denToks b) = some (denSyn lhs b, []) := by
  match b with
  | [] => exact pTermLoop_stop _ _ _ (by rfl)
  | [x] =>
    simp only [denToks, denSyn, List.length_cons, List.length_nil]
    rw [show n + 20 + (0 + 1) = (n + 8 + 12) + 1 by omega, pTermLoop_slash]
    have := pFactor_item (n + 8) x [] (by rfl)
    rw [List.append_nil] at this
    rw [this]
    exact pTermLoop_stop _ _ _ (by rfl)
  | x :: y :: r =>
    simp only [denToks, denSyn, List.length_cons]
    rw [show n + 20 + (r.length + 1 + 1) = (n + 20 + r.length + 1) + 1 by omega, pTermLoop_slash,
      show n + 20 + r.length + 1 = (n + 20 + r.length) + 1 by omega, pFactor_lpar_step,
      show n + 20 + r.length = (n + 19 + r.length) + 1 by omega, pPrimary_lpar]
    have := pTerm_join (n + 3) x (y :: r) [Tok.rpar] (by rfl)
    rw [show n + 3 + 15 + (y :: r).length = n + 19 + r.length by simp only [List.length_cons]; omega] at this
    rw [this]
    simp only []
    rw [show n + 19 + r.length = (n + 18 + r.length) + 1 by omega, pTrailers_stop _ _ [] (by rfl)]
    rw [afterPrimary_stop _ _ [] (by rfl)]
    exact pTermLoop_stop _ _ _ (by rfl)

/-- numerator tokens: `1` for an empty numerator -/
def numToks (a : List Item) : List Tok := if a.isEmpty then [Tok.num 1 0] else joinToks a

theorem renderTokens_frac (neg : Bool) (a b : List Item) :
    renderTokens (.frac neg a b) = (if neg then [Tok.minus] else []) ++ numToks a ++ denToks b := by
  unfold renderTokens numToks
  match b with
  | [] => simp [denToks]
  | [x] => simp [denToks]
  | x :: y :: r => simp [denToks]

theorem length_le_joinToks (a : List Item) : a.length ≤ (joinToks a).length := by
  match a with
  | [] => simp [joinToks]
  | [x] => cases x <;> simp [joinToks, itemToks]
  | x :: y :: r =>
    have ih := length_le_joinToks (y :: r)
    simp only [joinToks, List.length_append, List.length_cons, List.length_nil] at ih ⊢
    omega

theorem length_le_denToks (b : List Item) : b.length ≤ (denToks b).length := by
  match b with
  | [] => simp [denToks]
  | [x] => simp [denToks]
  | x :: y :: r =>
    have := length_le_joinToks (x :: y :: r)
    simp only [denToks, List.length_cons, List.length_append, List.length_nil] at this ⊢
    omega

def firstSyn : List Item → PExpr
  | [] => .num 1 0
  | x :: _ => itemSyn x

theorem syn_frac (neg : Bool) (a b : List Item) :
    syn (.frac neg a b) = denSyn (chainSyn (if neg then .neg (firstSyn a) else firstSyn a) a.tail) b := by
  match a, b with
  | [], [] => rfl
  | [], [_] => rfl
  | [], _ :: _ :: _ => rfl
  | _ :: _, [] => rfl
  | _ :: _, [_] => rfl
  | _ :: _, _ :: _ :: _ => rfl

/-- a product layout as a term -/
theorem pTerm_frac (n : Nat) (neg : Bool) (a b : List Item) :
    pTerm (n + 40 + a.length + b.length) (renderTokens (.frac neg a b)) = some (syn (.frac neg a b), []) := by
  rw [renderTokens_frac, syn_frac]
  have hd := okNext_denToks b
  match a with
  | [] =>
    simp only [numToks, List.isEmpty_nil, if_true, firstSyn, List.tail_nil, chainSyn, List.length_nil, Nat.add_zero]
    cases neg
    · simp only [Bool.false_eq_true, if_false, List.nil_append, List.cons_append]
      rw [show n + 40 + b.length = (n + 36 + b.length + 3) + 1 by omega, pTerm_step,
        pFactor_num _ _ _ _ hd]
      simp only []
      rw [show n + 36 + b.length + 3 = (n + 19) + 20 + b.length by omega]
      exact pTermLoop_den _ _ _
    · simp only [if_true, List.cons_append, List.nil_append]
      rw [show n + 40 + b.length = (n + 35 + b.length + 3 + 1) + 1 by omega, pTerm_step, pFactor_minus,
        pFactor_num _ _ _ _ hd]
      simp only [Option.map_some]
      rw [show n + 35 + b.length + 3 + 1 = (n + 19) + 20 + b.length by omega]
      exact pTermLoop_den _ _ _
  | x :: r =>
    have hr : okNext (starToks r ++ denToks b) = true := okNext_starToks r _ hd
    simp only [numToks, List.isEmpty_cons, Bool.false_eq_true, if_false, firstSyn, List.tail_cons,
      List.length_cons, joinToks_cons, List.append_assoc]
    cases neg
    · simp only [Bool.false_eq_true, if_false, List.nil_append]
      rw [show n + 40 + (r.length + 1) + b.length = (n + 28 + r.length + b.length + 12) + 1 by omega, pTerm_step,
        pFactor_item _ x _ hr]
      simp only []
      rw [show n + 28 + r.length + b.length + 12 = (n + 27 + b.length) + 13 + r.length by omega,
        pTermLoop_chain _ r _ _ hd,
        show (n + 27 + b.length) + 13 = (n + 20) + 20 + b.length by omega]
      exact pTermLoop_den _ _ _
    · simp only [if_true, List.cons_append, List.nil_append]
      rw [show n + 40 + (r.length + 1) + b.length = (n + 27 + r.length + b.length + 12 + 1) + 1 by omega, pTerm_step,
        pFactor_minus, pFactor_item _ x _ hr]
      simp only [Option.map_some]
      rw [show n + 27 + r.length + b.length + 12 + 1 = (n + 27 + b.length) + 13 + r.length by omega,
        pTermLoop_chain _ r _ _ hd,
        show (n + 27 + b.length) + 13 = (n + 20) + 20 + b.length by omega]
      exact pTermLoop_den _ _ _

theorem length_frac (neg : Bool) (a b : List Item) :
    a.length + b.length ≤ (renderTokens (.frac neg a b)).length := by
  rw [renderTokens_frac]
  have h1 := length_le_denToks b
  have h2 : a.length ≤ (numToks a).length := by
    unfold numToks
    cases a with
    | nil => simp
    | cons x r => simpa using length_le_joinToks (x :: r)
  simp only [List.length_append]
  omega

end Unyt.C20S
