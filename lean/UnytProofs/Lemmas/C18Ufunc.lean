/-
  Helper lemmas for C18 about the shared dispatcher `Ufunc.dispatch` (no property statements):
  effects without `out=`, runs that raise before the kernel, independence of the outcome from `out=`.
-/
import UnytModel.Effects

set_option linter.unusedSectionVars false
set_option linter.unusedVariables false

namespace Unyt.Effects
open Unyt Unyt.Ufunc

variable {K : Type} [Add K] [Sub K] [Mul K] [Div K] [OfNat K 0] [OfNat K 1] [BEq K] [RPow K]

/-! ### no `out=`: no effects -/

theorem prepOut_none (T : Tables) (f : String) : (prepOut T f .none : List (Effect K)) = [] := rfl

theorem wrapUp_none (T : Tables) (eff : List (Effect K)) (c : Call K) (rp : Bool) (mul : K)
    (unit : Option (UnitV K)) (f : Option K) (fs : Option Nat) (h : c.out = .none) :
    (wrapUp T eff c rp mul unit f fs).effects = eff := by
  unfold wrapUp
  split
  · rfl
  · simp only [h, finishOut, List.append_nil]

theorem unary_none (C : Ctx K) (c : Call K) (inp : Operand K) (eff0 : List (Effect K)) (h : c.out = .none) :
    (unaryPath C c inp eff0).effects = eff0 := by
  unfold unaryPath
  split
  · rfl
  · rfl
  · dsimp only
    split
    · rfl
    · split
      · rfl
      · simp only [h, prepOut_none, kernelWrites, List.append_nil]
        split
        · rfl
        · split
          · rfl
          · dsimp only
            rw [wrapUp_none _ _ _ _ _ _ _ _ h]

theorem stdBinary_none (C : Ctx K) (c : Call K) (rule : Rule) (i0 i1 : Operand K) (u0r u1r : Option (UnitR K))
    (eff0 : List (Effect K)) (h : c.out = .none) : (stdBinary C c rule i0 i1 u0r u1r eff0).effects = eff0 := by
  unfold stdBinary
  dsimp only
  split
  · rfl
  · split
    · rfl
    · simp only [h]
    · split
      · rfl
      · split
        · rfl
        · simp only [h, prepOut_none, kernelWrites, List.append_nil]
          split
          · rfl
          · split
            · rfl
            · dsimp only
              rw [wrapUp_none _ _ _ _ _ _ _ _ h]

theorem powerPath_none (C : Ctx K) (c : Call K) (i0 i1 : Operand K) (u0r c1 : Option (UnitR K))
    (eff0 : List (Effect K)) (h : c.out = .none) : (powerPath C c i0 i1 u0r c1 eff0).effects = eff0 := by
  unfold powerPath
  dsimp only
  split
  · rfl
  · split
    · rfl
    · split
      · rfl
      · simp only [h, prepOut_none, kernelWrites, List.append_nil]
        split
        · rfl
        · rw [wrapUp_none _ _ _ _ _ _ _ _ h]

theorem clipPath_none (C : Ctx K) (c : Call K) (eff0 : List (Effect K)) (h : c.out = .none) :
    (clipPath C c eff0).effects = eff0 := by
  unfold clipPath
  split
  · dsimp only
    split
    · rfl
    · split
      · rfl
      · rw [wrapUp_none _ _ _ _ _ _ _ _ h]; simp only [h, kernelWrites, List.append_nil]
  · rfl

theorem dispatch_none (C : Ctx K) (c : Call K) (h : c.out = .none) : (dispatch C c).effects = [] := by
  unfold dispatch
  dsimp only
  split
  · exact unary_none C c _ [] h
  · unfold binaryPath
    split
    · rfl
    · split
      · rfl
      · dsimp only
        split
        · exact powerPath_none C c _ _ _ _ [] h
        · split
          · rfl
          · exact stdBinary_none C c _ _ _ _ _ [] h
  · split
    · exact clipPath_none C c [] h
    · rfl

/-! ### runs that raise before the kernel writes -/

/-- a run that raised having performed nothing beyond `eff0`, except — when NumPy's own kernel
    refused the call — the re-typing of an integer `out=` that immediately precedes the kernel -/
def Early (C : Ctx K) (c : Call K) (eff0 : List (Effect K)) (r : Run K) : Prop :=
  ∀ e, r.result = .error e →
    r.effects = eff0 ∨ (c.kernelErr.isSome = true ∧ r.effects = eff0 ++ prepOut C.T c.ufunc c.out)

theorem finishOut_ok (b : Bool) (unit : Option (UnitV K)) (o : OutSpec) (h : ∀ os, o ≠ .many os) :
    (finishOut b unit o).2 = none := by
  cases o with
  | none => rfl
  | one oa => simp only [finishOut]; split <;> rfl
  | many os => exact absurd rfl (h os)

theorem wrapUp_never_fails (T : Tables) (eff : List (Effect K)) (c : Call K) (rp : Bool) (mul : K)
    (unit : Option (UnitV K)) (f : Option K) (fs : Option Nat) (h : ∀ os, c.out ≠ .many os)
    (hw : wrapClassFails T c rp unit = false) (e : Err) :
    (wrapUp T eff c rp mul unit f fs).result ≠ .error e := by
  intro he
  unfold wrapUp at he
  rw [hw] at he
  simp only [Bool.false_eq_true, if_false] at he
  rw [finishOut_ok (K := K) (mul == 1) unit c.out h] at he
  cases he

theorem wrapClassFails_false (T : Tables) (c : Call K) (unit : Option (UnitV K)) :
    wrapClassFails T c false unit = false := by
  simp [wrapClassFails]

theorem map_ne_error {α β : Type} (r : Except Err α) (g : α → β) (e : Err) (h : r ≠ .error e) :
    r.map g ≠ .error e := by
  cases r with
  | error e' => intro h'; apply h; simp [Except.map] at h'; rw [h']
  | ok a => intro h'; simp [Except.map] at h'

theorem unary_early (C : Ctx K) (c : Call K) (cl : Cls) (u : UnitR K) (d : Data) (eff0 : List (Effect K))
    (h : ∀ os, c.out ≠ .many os)
    (hru : (unaryRuleResult C c u d).toOption.isSome = true) :
    Early C c eff0 (unaryPath C c (.unyt cl u d) eff0) := by
  intro e
  unfold unaryPath
  dsimp only
  split
  · intro _; left; rfl
  · split
    · intro _; left; rfl
    · split
      · rename_i ke hke
        intro _; right; exact ⟨by rw [hke]; rfl, rfl⟩
      · unfold unaryRuleResult at hru
        generalize (if ((c.ufunc == C.T.multiplyName || c.ufunc == C.T.divideName) && c.method == Method.reduce) = true then
            Except.map (fun x => ((1 : K), some x)) (powerMapUnit C.T c.ufunc u.v (match c.axisLen with | some n => n | none => d.size))
          else match C.T.ruleOf c.ufunc with
            | none => Except.error Err.KeyError
            | some r => applyRule1 C r u) = ru at hru ⊢
        cases ru with
        | error e' => simp [Except.toOption] at hru
        | ok mu =>
          dsimp only
          intro he
          exfalso
          exact map_ne_error _ _ e (wrapUp_never_fails C.T _ c false _ _ _ _ h (wrapClassFails_false _ _ _) e) he

theorem mulDivPost_ok_of_not_muldiv (rule : Rule) (u0 u1 : UnitR K) (mul : K) (unit : Option (UnitV K))
    (h : (rule == .multiply || rule == .divide) = false) :
    mulDivPost rule u0 u1 mul unit = .ok (mul, unit) := by
  unfold mulDivPost
  rw [h]; rfl

theorem mulDivPost_ok_of_no_offset (rule : Rule) (u0 u1 : UnitR K) (mul : K) (unit : Option (UnitV K))
    (h0 : offsetTemperature u0.v = false) (h1 : offsetTemperature u1.v = false) :
    ∃ r, mulDivPost rule u0 u1 mul unit = .ok r := by
  unfold mulDivPost
  unfold offsetTemperature at h0 h1
  split
  · rw [h0, h1]; exact ⟨_, rfl⟩
  · exact ⟨_, rfl⟩

theorem stdBinary_early (C : Ctx K) (c : Call K) (rule : Rule) (i0 i1 : Operand K)
    (u0r u1r : Option (UnitR K)) (eff0 : List (Effect K))
    (h : ∀ os, c.out ≠ .many os) (hu : (i0.isUnyt || i1.isUnyt) = true)
    (hmd : (!(rule == .multiply || rule == .divide || rule == .floorDivide)
            || (!offsetTemperature (defaultUnit u0r).v && !offsetTemperature (defaultUnit u1r).v)) = true) :
    Early C c eff0 (stdBinary C c rule i0 i1 u0r u1r eff0) := by
  intro e
  have hrp : (!(i0.isUnyt) && !(i1.isUnyt)) = false := by
    cases h0 : i0.isUnyt <;> cases h1 : i1.isUnyt <;> simp_all
  unfold stdBinary
  dsimp only
  split
  · intro _; left; rfl
  · generalize hrule' : (if (rule == Rule.floorDivide && (defaultUnit u0r).v.dim != (defaultUnit u1r).v.dim) = true
        then Rule.divide else rule) = rule'
    split
    · intro _; left; rfl
    · rename_i b hchk
      split
      · intro _; left; rfl
      · split
        · intro _; left; rfl
        · intro he; cases he
      · intro he; cases he
    · rename_i u0' u1' conv hchk
      split
      · intro _; left; rfl
      · split
        · intro _; left; rfl
        · split
          · rename_i ke hke
            intro _; right; exact ⟨by rw [hke]; rfl, rfl⟩
          · rename_i mul unit _ _ _
            have hpost : ∃ r, mulDivPost rule' u0' u1' mul unit = .ok r := by
              cases hm : (rule' == .multiply || rule' == .divide) with
              | false => exact ⟨_, mulDivPost_ok_of_not_muldiv rule' u0' u1' mul unit hm⟩
              | true =>
                have hck : rule'.rescales = false := by
                  cases rule' <;> simp [Rule.rescales, Rule.checked] at hm ⊢
                rw [hck] at hchk
                simp only [Bool.false_eq_true, if_false] at hchk
                cases hchk
                have horig : (rule == .multiply || rule == .divide || rule == .floorDivide) = true := by
                  rw [← hrule'] at hm
                  split at hm
                  · rename_i hfd
                    simp only [Bool.and_eq_true] at hfd
                    simp [hfd.1]
                  · simp only [Bool.or_eq_true] at hm ⊢
                    rcases hm with hm | hm
                    · exact Or.inl (Or.inl hm)
                    · exact Or.inl (Or.inr hm)
                rw [horig] at hmd
                simp only [Bool.not_true, Bool.false_or, Bool.and_eq_true, Bool.not_eq_true'] at hmd
                exact mulDivPost_ok_of_no_offset rule' _ _ mul unit hmd.1 hmd.2
            obtain ⟨⟨m', un'⟩, hp⟩ := hpost
            rw [hp]
            simp only
            rw [hrp]
            intro he
            exfalso
            exact map_ne_error _ _ e (wrapUp_never_fails C.T _ c false _ _ _ _ h (wrapClassFails_false _ _ _) e) he

theorem powerPath_early (C : Ctx K) (c : Call K) (i0 i1 : Operand K) (u0r c1 : Option (UnitR K))
    (eff0 : List (Effect K)) (h : ∀ os, c.out ≠ .many os) (hu : (i0.isUnyt || i1.isUnyt) = true) :
    Early C c eff0 (powerPath C c i0 i1 u0r c1 eff0) := by
  intro e
  have hrp : (!(i0.isUnyt) && !(i1.isUnyt)) = false := by
    cases h0 : i0.isUnyt <;> cases h1 : i1.isUnyt <;> simp_all
  unfold powerPath
  dsimp only
  split
  · intro _; left; rfl
  · split
    · intro _; left; rfl
    · split
      · intro _; left; rfl
      · split
        · rename_i ke hke
          intro _; right; exact ⟨by rw [hke]; rfl, rfl⟩
        · rw [hrp]
          intro he
          exact absurd he (wrapUp_never_fails C.T _ c false _ _ _ _ h (wrapClassFails_false _ _ _) e)

theorem clipPath_early (C : Ctx K) (c : Call K) (eff0 : List (Effect K)) (h : ∀ os, c.out ≠ .many os) :
    Early C c eff0 (clipPath C c eff0) := by
  intro e
  unfold clipPath
  split
  · dsimp only
    split
    · intro _; left; rfl
    · split
      · intro _; left; rfl
      · intro he
        exact absurd he (wrapUp_never_fails C.T _ c false _ _ _ _ h (wrapClassFails_false _ _ _) e)
  · intro _; left; rfl

theorem dispatch_failed_early (C : Ctx K) (c : Call K) (e : Err) (hg : ufuncGuard C c = true)
    (he : (dispatch C c).result = .error e) :
    (dispatch C c).effects = []
    ∨ (c.kernelErr.isSome = true ∧ (dispatch C c).effects = prepOut C.T c.ufunc c.out) := by
  unfold ufuncGuard at hg
  simp only [Bool.and_eq_true] at hg
  obtain ⟨⟨hout, hany⟩, hin⟩ := hg
  have h : ∀ os, c.out ≠ .many os := by
    intro os hos; rw [hos] at hout; simp at hout
  have key : Early C c [] (dispatch C c) := by
    unfold dispatch
    dsimp only
    split
    · rename_i inp hinp
      rw [hinp] at hin hany
      cases inp with
      | unyt cl u d => exact unary_early C c cl u d _ h hin
      | bare d => intro e _; left; unfold unaryPath; rfl
      | seq it d => intro e _; left; unfold unaryPath; rfl
    · rename_i i0 i1 hinp
      rw [hinp] at hin hany
      have hu : (i0.isUnyt || i1.isUnyt) = true := by simpa using hany
      unfold binaryPath
      split
      · intro e _; left; rfl
      · rename_i c0 hc0
        split
        · intro e _; left; rfl
        · rename_i c1 hc1
          dsimp only
          split
          · exact powerPath_early C c i0 i1 _ _ _ h hu
          · split
            · intro e _; left; rfl
            · rename_i rule hrule
              apply stdBinary_early C c rule i0 i1 _ _ _ h hu _
              rw [hrule] at hin
              simp only [resolvedUnit, hc0, hc1, resolved] at hin
              exact hin
    · split
      · exact clipPath_early C c _ h
      · intro e _; left; rfl
  simpa using key e he

/-! ### the outcome does not depend on `out=` -/

theorem wrapUp_result_noOut (T : Tables) (eff eff' : List (Effect K)) (c : Call K) (rp : Bool) (mul : K)
    (unit : Option (UnitV K)) (f : Option K) (fs : Option Nat) (o : Outcome K) :
    (wrapUp T eff c rp mul unit f fs).result = .ok o →
    (wrapUp T eff' (noOut c) rp mul unit f fs).result = .ok o := by
  unfold wrapUp
  have : wrapClassFails T (noOut c) rp unit = wrapClassFails T c rp unit := rfl
  rw [this]
  split
  · intro h; cases h
  · simp only [noOut, finishOut]
    split
    · intro h; cases h
    · intro h; exact h

theorem map_ok_transfer {α β : Type} (r r' : Except Err α) (g : α → β) (o : β)
    (h : ∀ a, r = .ok a → r' = .ok a) : r.map g = .ok o → r'.map g = .ok o := by
  cases r with
  | error e => intro h'; simp [Except.map] at h'
  | ok a => intro h'; rw [h a rfl]; exact h'

theorem unary_result_noOut (C : Ctx K) (c : Call K) (inp : Operand K) (eff eff' : List (Effect K)) (o : Outcome K) :
    (unaryPath C c inp eff).result = .ok o → (unaryPath C (noOut c) inp eff').result = .ok o := by
  have hk : (noOut c).kernelErr = c.kernelErr := rfl
  have hu : (noOut c).ufunc = c.ufunc := rfl
  have hm : (noOut c).method = c.method := rfl
  have ha : (noOut c).axisLen = c.axisLen := rfl
  have hi : (noOut c).initial = c.initial := rfl
  unfold unaryPath
  rw [hk, hu, hm, ha, hi]
  cases inp with
  | bare d => intro h; cases h
  | seq it d => intro h; cases h
  | unyt cl u d =>
    dsimp only
    split
    · intro h; cases h
    · split
      · intro h; cases h
      · cases c.kernelErr with
        | some e => intro h; cases h
        | none =>
          dsimp only
          split
          · intro h; cases h
          · dsimp only
            exact map_ok_transfer _ _ _ _ (fun a => wrapUp_result_noOut _ _ _ _ _ _ _ _ _ a)

theorem stdBinary_result_noOut (C : Ctx K) (c : Call K) (rule : Rule) (i0 i1 : Operand K)
    (u0r u1r : Option (UnitR K)) (eff eff' : List (Effect K)) (o : Outcome K) :
    (stdBinary C c rule i0 i1 u0r u1r eff).result = .ok o →
    (stdBinary C (noOut c) rule i0 i1 u0r u1r eff').result = .ok o := by
  have hk : (noOut c).kernelErr = c.kernelErr := rfl
  have hu : (noOut c).ufunc = c.ufunc := rfl
  have ho : (noOut c).out = .none := rfl
  unfold stdBinary
  rw [hk, hu, ho]
  dsimp only
  split
  · intro h; cases h
  · split
    · intro h; cases h
    · dsimp only
      cases c.out with
      | none => exact id
      | one oa =>
        dsimp only
        split
        · intro h; cases h
        · exact id
      | many os => intro h; cases h
    · split
      · intro h; cases h
      · split
        · intro h; cases h
        · cases c.kernelErr with
          | some e => intro h; cases h
          | none =>
            dsimp only
            split
            · intro h; cases h
            · dsimp only
              exact map_ok_transfer _ _ _ _ (fun a => wrapUp_result_noOut _ _ _ _ _ _ _ _ _ a)

theorem powerPath_result_noOut (C : Ctx K) (c : Call K) (i0 i1 : Operand K) (u0r c1 : Option (UnitR K))
    (eff eff' : List (Effect K)) (o : Outcome K) :
    (powerPath C c i0 i1 u0r c1 eff).result = .ok o →
    (powerPath C (noOut c) i0 i1 u0r c1 eff').result = .ok o := by
  have hk : (noOut c).kernelErr = c.kernelErr := rfl
  have hu : (noOut c).ufunc = c.ufunc := rfl
  unfold powerPath
  rw [hk, hu]
  dsimp only
  split
  · intro h; cases h
  · split
    · intro h; cases h
    · split
      · intro h; cases h
      · cases c.kernelErr with
        | some e => intro h; cases h
        | none => exact wrapUp_result_noOut _ _ _ _ _ _ _ _ _ _

theorem clipPath_result_noOut (C : Ctx K) (c : Call K) (eff eff' : List (Effect K)) (o : Outcome K) :
    (clipPath C c eff).result = .ok o → (clipPath C (noOut c) eff').result = .ok o := by
  have hk : (noOut c).kernelErr = c.kernelErr := rfl
  have hi : (noOut c).inputs = c.inputs := rfl
  unfold clipPath
  rw [hk, hi]
  cases c.inputs.head? with
  | none => intro h; cases h
  | some i =>
    cases i with
    | bare d => intro h; cases h
    | seq it d => intro h; cases h
    | unyt cl u0 d =>
      dsimp only
      split
      · intro h; cases h
      · cases c.kernelErr with
        | some e => intro h; cases h
        | none => exact wrapUp_result_noOut _ _ _ _ _ _ _ _ _ _

theorem dispatch_result_noOut (C : Ctx K) (c : Call K) (o : Outcome K) :
    (dispatch C c).result = .ok o → (dispatch C (noOut c)).result = .ok o := by
  have hu : (noOut c).ufunc = c.ufunc := rfl
  have hi : (noOut c).inputs = c.inputs := rfl
  unfold dispatch
  rw [hu, hi]
  dsimp only
  cases c.inputs with
  | nil =>
    dsimp only
    split
    · exact clipPath_result_noOut _ _ _ _ _
    · intro h; cases h
  | cons i0 r =>
    cases r with
    | nil => exact unary_result_noOut _ _ _ _ _ _
    | cons i1 r2 =>
      cases r2 with
      | nil =>
        dsimp only
        unfold binaryPath
        rw [hu]
        cases coerce C.ueq i0 with
        | error e => intro h; cases h
        | ok c0 =>
          dsimp only
          cases coerce C.ueq i1 with
          | error e => intro h; cases h
          | ok c1 =>
            dsimp only
            split
            · exact powerPath_result_noOut _ _ _ _ _ _ _ _ _
            · cases C.T.ruleOf c.ufunc with
              | none => intro h; cases h
              | some rule => exact stdBinary_result_noOut _ _ _ _ _ _ _ _ _ _
      | cons i2 r3 =>
        dsimp only
        split
        · exact clipPath_result_noOut _ _ _ _ _
        · intro h; cases h

/-! ### the re-entrant fix-up -/

/-- "kernel, `multiply(out, mul, out=out)`, label" -/
def isRescaleShape : List (Effect K) → Bool
  | [.writeOut 0, .scaleOut, .setOutUnits 0 _] => true
  | _ => false

theorem isRescaleShape_spec (l : List (Effect K)) (h : isRescaleShape l = true) :
    ∃ u', l = [.writeOut 0, .scaleOut, .setOutUnits 0 u'] := by
  unfold isRescaleShape at h
  split at h
  · exact ⟨_, rfl⟩
  · cases h

/-- the exception a dispatcher run ends with -/
def runErr? (r : Run K) : Option Err :=
  match r.result with
  | .error e => some e
  | .ok _ => none

theorem runErr?_some (r : Run K) (e : Err) (h : runErr? r = some e) : r.result = .error e := by
  unfold runErr? at h
  cases hr : r.result with
  | error e' => rw [hr] at h; simp at h; rw [h]
  | ok o => rw [hr] at h; simp at h

/-- RE-ENTRANT variant (`reenters = true`: `multiply(out, mul, out=out)` on the unyt array, the code
    before fix db741b8): if the call's own effects are "kernel, post-multiplication, label" and the
    nested call is the call itself (the output still carries its old unit), no recursion budget
    suffices: the run ends in `RecursionError` having multiplied the buffer once per frame -/
theorem inplaceUfunc_diverges (C : Ctx K) (o : OutInfo K) (c : Call K) (u : UnitR K) (u' : UnitV K)
    (h1 : (dispatch C c).effects = [.writeOut 0, .scaleOut, .setOutUnits 0 u'])
    (h2 : o.unit = some u) (h3 : nestedCall C o u c.out = c)
    (rg : Bool) :
    ∀ fuel, (inplaceUfunc true rg C o fuel c).result = .error .RuntimeError
      ∧ (inplaceUfunc true rg C o fuel c).effects = List.replicate fuel (.kernel "ufunc") := by
  intro fuel
  induction fuel with
  | zero => exact ⟨rfl, rfl⟩
  | succ n ih =>
    simp [inplaceUfunc, h1, convEffects, h2, h3, ih.1, ih.2, List.replicate_succ]

/-- RAW-BUFFER variant (`reenters = false`): the translation of the dispatcher's effects never
    fails and never recurses -/
theorem convEffects_raw (o : OutInfo K) (nested : K → IRun K) (mul : K) (es : List (Effect K)) :
    (convEffects false o nested mul es).2 = none := by
  induction es with
  | nil => rfl
  | cons e r ih =>
    cases e <;> simp only [convEffects, ih]

/-- … so the verdict is the dispatcher's -/
theorem inplaceUfunc_raw_result (rg : Bool) (C : Ctx K) (o : OutInfo K) (fuel : Nat) (c : Call K)
    (hp : o.promotable = true) (hw : o.writeable = true) :
    (inplaceUfunc false rg C o (fuel + 1) c).result = (dispatch C c).result.map (fun _ => ()) := by
  simp only [inplaceUfunc, hp, hw, Bool.not_true, Bool.and_false, Bool.false_eq_true, if_false, convEffects_raw]
  cases (dispatch C c).result <;> rfl

theorem prepOut_cases (T : Tables) (f : String) (out : OutSpec) :
    (prepOut T f out : List (Effect K)) = [] ∨ (prepOut T f out : List (Effect K)) = [.retypeOut] := by
  unfold prepOut
  cases out with
  | none => left; rfl
  | many os => left; rfl
  | one oa =>
    dsimp only
    split
    · left; rfl
    · split
      · right; rfl
      · left; rfl

/-- which target effects the raw-buffer translation produces from a list of retypes -/
theorem convEffects_raw_retypes (o : OutInfo K) (nested : K → IRun K) (mul : K) (n : Nat) :
    (convEffects false o nested mul (List.replicate n (Effect.retypeOut : Effect K))).1
      = (List.replicate n [Eff.retype o.floatDtype, Eff.castCopy o.floatDtype]).flatten := by
  induction n with
  | zero => rfl
  | succ k ih => simp [List.replicate_succ, convEffects, ih]

end Unyt.Effects
