/-
  Lemmas for `UnytProofs/C14History.lean`: the table algebra and the simulation invariant between
  the registry with its written-back entries and the table the user built.
-/
import UnytModel.NamesHistoryC14

namespace Unyt.NamesHist
open Unyt Unyt.Names

variable {K : Type}

theorem beq_iff (a b : Nat) : Nat.beq a b = true ↔ a = b := by
  constructor
  · exact Nat.eq_of_beq_eq_true
  · intro h; subst h; exact Nat.beq_refl a

theorem memN_true_iff (s : Name) (l : List Name) : memN s l = true ↔ s ∈ l := by
  induction l with
  | nil => simp [memN]
  | cons d ds ih =>
    simp only [memN, List.mem_cons]
    by_cases h : d = s
    · subst h; simp
    · have : Nat.beq d s = false := by
        cases hb : Nat.beq d s
        · rfl
        · exact absurd ((beq_iff _ _).1 hb) h
      simp only [this, Bool.false_eq_true, if_false, ih]
      constructor
      · intro hm; exact Or.inr hm
      · intro hm; rcases hm with hm | hm
        · exact absurd hm.symm h
        · exact hm

namespace Tab

theorem get?_set (t : Tab K) (s : Name) (e : Entry K) (k : Name) :
    (t.set s e).get? k = if k = s then some e else t.get? k := by
  simp only [get?]
  by_cases h : s = k
  · subst h; simp [Nat.beq_refl]
  · have : Nat.beq s k = false := by
      cases hb : Nat.beq s k
      · rfl
      · exact absurd ((beq_iff _ _).1 hb) h
    have h' : ¬ k = s := fun x => h x.symm
    simp [this, h']

theorem get?_erase (t : Tab K) (s : Name) (k : Name) :
    (t.erase s).get? k = if k = s then none else t.get? k := by
  simp only [get?]
  by_cases h : s = k
  · subst h; simp [Nat.beq_refl]
  · have : Nat.beq s k = false := by
      cases hb : Nat.beq s k
      · rfl
      · exact absurd ((beq_iff _ _).1 hb) h
    have h' : ¬ k = s := fun x => h x.symm
    simp [this, h']

theorem get?_fill (t : Tab K) (d : Dict (Entry K)) (k : Name) :
    (t.fill d).get? k = match t.get? k with | some e => some e | none => d.get? k := rfl

theorem get?_eraseAll (t : Tab K) (ds : List Name) (k : Name) :
    (t.eraseAll ds).get? k = if k ∈ ds then none else t.get? k := by
  induction ds with
  | nil => simp [eraseAll]
  | cons d ds ih =>
    simp only [eraseAll, get?_erase, ih, List.mem_cons]
    by_cases h : k = d <;> simp [h]

end Tab

/-- the prefixable part of a table answer: all that a prefix split ever reads of its base -/
def pfx (o : Option (Entry K)) : Option (Entry K) :=
  match o with
  | some e => if e.prefixable then some e else none
  | none => none

theorem derivedF_congr [Mul K] (pre : PrefixesN K) (g g' : Name → Option (Entry K)) (s : Name)
    (h : ∀ w, pfx (g w) = pfx (g' w)) : derivedF pre g s = derivedF pre g' s := by
  unfold derivedF
  cases hc : Names.splitCandidate s with
  | none => rfl
  | some pw =>
    obtain ⟨p, wo⟩ := pw
    simp only
    cases hp : Nat.beq p 0
    · simp only [Bool.false_eq_true, if_false]
      have hw := h wo
      cases hpre : pre.get? p with
      | none => rfl
      | some pv =>
        cases hg : g wo with
        | none =>
          cases hg' : g' wo with
          | none => rfl
          | some e' =>
            simp only [hg, hg', pfx] at hw
            cases he' : e'.prefixable
            · simp [he']
            · simp [he'] at hw
        | some e =>
          cases hg' : g' wo with
          | none =>
            simp only [hg, hg', pfx] at hw
            cases he : e.prefixable
            · simp [he]
            · simp [he] at hw
          | some e' =>
            simp only [hg, hg', pfx] at hw
            cases he : e.prefixable <;> cases he' : e'.prefixable <;> simp [he, he'] at hw ⊢
            subst hw; exact ⟨rfl, rfl, rfl⟩
    · simp

/-- a derived entry is never prefixable -/
theorem derivedF_not_prefixable [Mul K] (pre : PrefixesN K) (g : Name → Option (Entry K)) (s : Name) :
    pfx (derivedF pre g s) = none := by
  unfold derivedF pfx
  cases Names.splitCandidate s with
  | none => rfl
  | some pw =>
    obtain ⟨p, wo⟩ := pw
    simp only
    cases Nat.beq p 0
    · simp only [Bool.false_eq_true, if_false]
      cases pre.get? p with
      | none => rfl
      | some pv =>
        cases g wo with
        | none => rfl
        | some e => cases he : e.prefixable <;> simp [he]
    · simp

/-- the simulation invariant: outside `_derived_symbols` the table is the user's table; a derived
    name is not a user key and holds exactly what the user's table derives for it -/
def Inv [Mul K] (pre : PrefixesN K) (r : Reg K) (c : Contents K) : Prop :=
  ∀ s, (s ∉ r.derived → r.tab.get? s = c s) ∧
       (s ∈ r.derived → c s = none ∧ r.tab.get? s = derivedF pre c s)

theorem Inv.pfx_eq [Mul K] {pre : PrefixesN K} {r : Reg K} {c : Contents K} (h : Inv pre r c) (w : Name) :
    pfx (r.tab.get? w) = pfx (c w) := by
  by_cases hw : w ∈ r.derived
  · obtain ⟨hc, ht⟩ := (h w).2 hw
    rw [ht, hc, derivedF_not_prefixable]; rfl
  · rw [(h w).1 hw]

theorem Inv.derived_eq [Mul K] {pre : PrefixesN K} {r : Reg K} {c : Contents K} (h : Inv pre r c) (s : Name) :
    derivedF pre r.tab.get? s = derivedF pre c s :=
  derivedF_congr pre _ _ s h.pfx_eq

/-- with the invariant, the registry reads every name as a fresh registry over the user's table -/
theorem Inv.lookup_eq [Mul K] {pre : PrefixesN K} {r : Reg K} {c : Contents K} (h : Inv pre r c) (s : Name) :
    lookupF pre r.tab.get? s = lookupF pre c s := by
  unfold lookupF
  by_cases hs : s ∈ r.derived
  · obtain ⟨hc, ht⟩ := (h s).2 hs
    rw [hc]
    cases hg : r.tab.get? s with
    | none => exact h.derived_eq s
    | some e => rw [← ht, hg]
  · rw [(h s).1 hs]
    cases c s with
    | none => exact h.derived_eq s
    | some e => rfl

theorem Inv.forget [Mul K] {pre : PrefixesN K} {r : Reg K} {c : Contents K} (h : Inv pre r c) :
    Inv pre (forget r) c := by
  intro s
  refine ⟨fun _ => ?_, fun hm => ?_⟩
  · simp only [NamesHist.forget, Tab.get?_eraseAll]
    by_cases hs : s ∈ r.derived
    · simp [hs, ((h s).2 hs).1]
    · simp [hs, (h s).1 hs]
  · simp [NamesHist.forget] at hm

theorem forget_derived (r : Reg K) : (forget r).derived = [] := rfl

/-- a state without derived names that satisfies the invariant IS the user's table -/
theorem Inv.of_nil [Mul K] {pre : PrefixesN K} {r : Reg K} {c : Contents K} (h : Inv pre r c)
    (hd : r.derived = []) (s : Name) : r.tab.get? s = c s :=
  (h s).1 (by simp [hd])

theorem Inv.mk_nil [Mul K] {pre : PrefixesN K} {r : Reg K} {c : Contents K}
    (hd : r.derived = []) (ht : ∀ s, r.tab.get? s = c s) : Inv pre r c := by
  intro s
  exact ⟨fun _ => ht s, fun hm => by simp [hd] at hm⟩

theorem fresh_inv [Mul K] (pre : PrefixesN K) (t : Dict (Entry K)) : Inv pre (fresh t) t.get? :=
  Inv.mk_nil rfl (fun _ => rfl)

theorem sound_add {cfg : Cfg} (h : cfg.sound = true) (np : Bool) (k : Repl) : cfg.addForgets np k = true := by
  unfold Cfg.sound at h
  simp only [Bool.and_eq_true] at h
  obtain ⟨⟨⟨⟨⟨⟨⟨⟨⟨⟨⟨⟨a0, a1⟩, a2⟩, a3⟩, a4⟩, a5⟩, a6⟩, a7⟩, _⟩, _⟩, _⟩, _⟩, _⟩ := h
  cases np <;> cases k with
  | absent => assumption
  | derived => assumption
  | user p => cases p <;> assumption

theorem sound_rest {cfg : Cfg} (h : cfg.sound = true) :
    cfg.removeForgets = true ∧ cfg.modifyForgets = true ∧ cfg.dumpSkipsDerived = true ∧ cfg.copyKeepsFlags = true := by
  unfold Cfg.sound at h
  simp only [Bool.and_eq_true] at h
  exact ⟨h.1.1.1.1.2, h.1.1.1.2, h.1.1.2, h.2⟩

/-- one step: the invariant is kept and the answer is the fresh registry's answer -/
theorem step_sim [Mul K] {cfg : Cfg} (hs : cfg.sound = true) (pre : PrefixesN K) (dflt : Dict (Entry K)) (r : Reg K)
    (c : Contents K) (h : Inv pre r c) (op : Op K) :
    Inv pre (step cfg pre dflt r op).1 (absStep dflt c op) ∧ (step cfg pre dflt r op).2 = absOut pre c op := by
  obtain ⟨hrm, hmo, hdu, hcp⟩ := sound_rest hs
  cases op with
  | look s =>
    simp only [step, absStep, absOut]
    have hl := h.lookup_eq s
    unfold lookupF at hl
    cases hg : r.tab.get? s with
    | some e =>
      simp only [hg] at hl ⊢
      refine ⟨h, ?_⟩
      have hx : lookupF pre c s = some e := by unfold lookupF; exact hl.symm
      rw [hx]
    | none =>
      simp only [hg] at hl ⊢
      have hnd : s ∉ r.derived ∨ s ∈ r.derived := by by_cases x : s ∈ r.derived <;> simp [x]
      have hcs : c s = none := by
        rcases hnd with x | x
        · rw [← (h s).1 x]; exact hg
        · exact ((h s).2 x).1
      have hd : derivedF pre r.tab.get? s = derivedF pre c s := h.derived_eq s
      have hout : lookupF pre c s = derivedF pre c s := by unfold lookupF; rw [hcs]
      cases hdv : derivedF pre r.tab.get? s with
      | none =>
        simp only
        exact ⟨h, by rw [hout, ← hd, hdv]⟩
      | some d =>
        simp only
        refine ⟨?_, by rw [hout, ← hd, hdv]⟩
        intro k
        simp only [Tab.get?_set, List.mem_cons]
        by_cases hk : k = s
        · subst hk
          simp only [true_or, not_true_eq_false, false_implies, true_implies, if_true]
          exact ⟨trivial, hcs, by rw [← hd, hdv]⟩
        · simp only [hk, false_or, if_false]
          exact h k
  | add s e =>
    simp only [step, absStep, absOut, sound_add hs, if_true, and_true]
    have hf := h.forget
    refine Inv.mk_nil (by exact forget_derived r) ?_
    intro k
    simp only [Tab.get?_set, update]
    by_cases hk : k = s
    · simp [hk]
    · simp only [hk, if_false]; exact hf.of_nil (forget_derived r) k
  | remove s =>
    simp only [step, absStep, absOut, hrm, if_true]
    have hf := h.forget
    have hget := hf.of_nil (forget_derived r)
    cases hg : (forget r).tab.get? s with
    | none =>
      have hc : c s = none := by rw [← hget s]; exact hg
      simp only [hc, and_true]
      refine Inv.mk_nil (by exact forget_derived r) ?_
      intro k
      simp only [update]
      by_cases hk : k = s
      · subst hk; simp [hg]
      · simp only [hk, if_false]; exact hget k
    | some e0 =>
      have hc : c s = some e0 := by rw [← hget s]; exact hg
      simp only [hc, and_true]
      refine Inv.mk_nil (by exact forget_derived r) ?_
      intro k
      simp only [Tab.get?_erase, update]
      by_cases hk : k = s
      · simp [hk]
      · simp only [hk, if_false]; exact hget k
  | modify s v =>
    simp only [step, absStep, absOut, hmo, if_true]
    have hf := h.forget
    have hget := hf.of_nil (forget_derived r)
    cases hg : (forget r).tab.get? s with
    | none =>
      have hc : c s = none := by rw [← hget s]; exact hg
      simp only [hc, and_true]
      exact hf
    | some e0 =>
      have hc : c s = some e0 := by rw [← hget s]; exact hg
      simp only [hc, and_true]
      refine Inv.mk_nil (by exact forget_derived r) ?_
      intro k
      simp only [Tab.get?_set, update]
      by_cases hk : k = s
      · simp [hk]
      · simp only [hk, if_false]; exact hget k
  | reload =>
    simp only [step, absStep, absOut, hdu, if_true, and_true]
    have hf := h.forget
    refine Inv.mk_nil (by exact forget_derived r) ?_
    intro k
    simp only [loaded, Tab.get?_fill, fillC, hf.of_nil (forget_derived r) k]
    cases c k <;> rfl
  | copy =>
    simp only [step, absStep, absOut, hcp, if_true, and_true]
    exact h

theorem run_sim [Mul K] {cfg : Cfg} (hs : cfg.sound = true) (pre : PrefixesN K) (dflt : Dict (Entry K))
    (ops : List (Op K)) :
    ∀ (r : Reg K) (c : Contents K), Inv pre r c →
      Inv pre (run cfg pre dflt r ops).1 (absRun pre dflt c ops).1 ∧
        (run cfg pre dflt r ops).2 = (absRun pre dflt c ops).2 := by
  induction ops with
  | nil => intro r c h; exact ⟨h, rfl⟩
  | cons op ops ih =>
    intro r c h
    obtain ⟨h1, ho⟩ := step_sim hs pre dflt r c h op
    obtain ⟨h2, hos⟩ := ih _ _ h1
    simp only [run, absRun]
    exact ⟨h2, by rw [ho, hos]⟩

/-! ### the string route with its cache -/

theorem findN_cons {α : Type} (k k' : Name) (v : α) (r : List (Name × α)) :
    findN k ((k', v) :: r) = if k' = k then some v else findN k r := by
  simp only [findN]
  by_cases h : k' = k
  · subst h; simp [Nat.beq_refl]
  · have : Nat.beq k' k = false := by
      cases hb : Nat.beq k' k
      · rfl
      · exact absurd ((beq_iff _ _).1 hb) h
    simp [this, h]

/-- every cached object is what a fresh construction from the user's table would give -/
def CacheInv [Mul K] (rt : Route K) (cache : List (Name × UnitR K)) (c : Contents K) : Prop :=
  ∀ name u, findN name cache = some u → freshUnit rt c name = some u

def InvS [Mul K] (rt : Route K) (r : RegS K) (c : Contents K) : Prop :=
  Inv rt.pre r.reg c ∧ CacheInv rt r.cache c

theorem CacheInv.nil [Mul K] (rt : Route K) (c : Contents K) : CacheInv rt [] c := by
  intro name u h; simp [findN] at h

theorem CacheInv.cons [Mul K] {rt : Route K} {cache : List (Name × UnitR K)} {c : Contents K}
    (h : CacheInv rt cache c) (name : Name) (u : UnitR K) (hu : freshUnit rt c name = some u) :
    CacheInv rt ((name, u) :: cache) c := by
  intro n v hf
  rw [findN_cons] at hf
  by_cases hn : name = n
  · subst hn; simp at hf; subst hf; exact hu
  · simp [hn] at hf; exact h n v hf

theorem update_none_self (c : Contents K) (s : Name) (h : c s = none) : update c s none = c := by
  funext k
  simp only [update]
  by_cases hk : k = s
  · subst hk; simp [h]
  · simp [hk]

theorem freshS_inv [Mul K] (rt : Route K) (t : Dict (Entry K)) : InvS rt (freshS t) t.get? :=
  ⟨fresh_inv rt.pre t, CacheInv.nil rt _⟩

theorem stepS_sim [Mul K] {cfg : Cfg} {cc : CacheCfg} (hs : cfg.sound = true) (hcs : cc.sound = true)
    (rt : Route K) (dflt : Dict (Entry K)) (r : RegS K) (c : Contents K) (h : InvS rt r c) (op : OpS K) :
    InvS rt (stepS cfg cc rt dflt r op).1 (absStepS dflt c op) ∧
      (stepS cfg cc rt dflt r op).2 = absOutS rt c op := by
  have hcc : cc.addClears = true ∧ cc.removeClears = true ∧ cc.modifyClears = true ∧ cc.reloadEmpty = true
      ∧ cc.copyEmpty = true := by
    unfold CacheCfg.sound at hcs
    simp only [Bool.and_eq_true] at hcs
    exact ⟨hcs.1.1.1.1, hcs.1.1.1.2, hcs.1.1.2, hcs.1.2, hcs.2⟩
  cases op with
  | unit name =>
    simp only [stepS, absStepS, absOutS]
    cases hf : findN name r.cache with
    | some u =>
      simp only
      exact ⟨h, by rw [h.2 name u hf]⟩
    | none =>
      simp only
      by_cases h0 : name = 0
      · have hfu : freshUnit rt c name = some .one := by simp [freshUnit, h0]
        simp only [h0, if_true]
        refine ⟨⟨h.1, ?_⟩, ?_⟩
        · rw [← h0]; exact h.2.cons name .one hfu
        · rw [← h0, hfu]
      · simp only [h0, if_false]
        cases hsym : rt.symbolOf name with
        | none =>
          simp only
          refine ⟨h, ?_⟩
          simp [freshUnit, h0, hsym]
        | some s =>
          simp only
          obtain ⟨hi, ho⟩ := step_sim hs rt.pre dflt r.reg c h.1 (.look s)
          cases hst : step cfg rt.pre dflt r.reg (.look s) with
          | mk reg1 out =>
            rw [hst] at hi ho
            simp only [absStep] at hi
            simp only [absOut] at ho
            subst ho
            cases hl : lookupF rt.pre c s with
            | none =>
              simp only
              refine ⟨⟨hi, h.2⟩, ?_⟩
              simp [freshUnit, h0, hsym, hl]
            | some e =>
              simp only
              have hfu : freshUnit rt c name = some (.sym s e) := by simp [freshUnit, h0, hsym, hl]
              exact ⟨⟨hi, h.2.cons name _ hfu⟩, by rw [hfu]⟩
  | op o =>
    simp only [stepS, absStepS, absOutS]
    obtain ⟨hi, ho⟩ := step_sim hs rt.pre dflt r.reg c h.1 o
    cases hst : step cfg rt.pre dflt r.reg o with
    | mk reg1 out =>
      rw [hst] at hi ho
      simp only at hi ho
      subst ho
      simp only
      refine ⟨⟨hi, ?_⟩, trivial⟩
      cases o with
      | look s => simp only [absStep]; exact h.2
      | add s e => simp only [hcc.1, if_true]; exact CacheInv.nil rt _
      | reload => simp only [hcc.2.2.2.1, if_true]; exact CacheInv.nil rt _
      | copy => simp only [hcc.2.2.2.2, if_true]; exact CacheInv.nil rt _
      | remove s =>
        simp only [absOut, absStep]
        rcases Option.eq_none_or_eq_some (c s) with hc | ⟨e0, hc⟩
        · simp only [hc, update_none_self c s hc]; exact h.2
        · simp only [hc, hcc.2.1, if_true]; exact CacheInv.nil rt _
      | modify s v =>
        simp only [absOut, absStep]
        rcases Option.eq_none_or_eq_some (c s) with hc | ⟨e0, hc⟩
        · simp only [hc]; exact h.2
        · simp only [hc, hcc.2.2.1, if_true]; exact CacheInv.nil rt _

theorem runS_sim [Mul K] {cfg : Cfg} {cc : CacheCfg} (hs : cfg.sound = true) (hcs : cc.sound = true)
    (rt : Route K) (dflt : Dict (Entry K)) (ops : List (OpS K)) :
    ∀ (r : RegS K) (c : Contents K), InvS rt r c →
      InvS rt (runS cfg cc rt dflt r ops).1 (absRunS rt dflt c ops).1 ∧
        (runS cfg cc rt dflt r ops).2 = (absRunS rt dflt c ops).2 := by
  induction ops with
  | nil => intro r c h; exact ⟨h, rfl⟩
  | cons op ops ih =>
    intro r c h
    obtain ⟨h1, ho⟩ := stepS_sim hs hcs rt dflt r c h op
    obtain ⟨h2, hos⟩ := ih _ _ h1
    simp only [runS, absRunS]
    exact ⟨h2, by rw [ho, hos]⟩

end Unyt.NamesHist
