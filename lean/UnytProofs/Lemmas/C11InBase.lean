/-
  UnytProofs.Lemmas.C11InBase — the unit-system conversion model (`checkEm`, `emConversion`,
  `getBaseEquivalent`, `inBase`) reads expression, dimension, scale and offset of a unit, never its
  identity bit.  Helper lemmas for `identity_loss_pinned_inBase` (no property statement here).
-/
import UnytProofs.Lemmas.C11

set_option linter.unusedSectionVars false
set_option linter.unusedVariables false
set_option linter.unusedSimpArgs false

namespace Unyt.C11
open Unyt Unyt.Persist

section
variable {K : Type} [Add K] [Sub K] [Mul K] [Div K] [OfNat K 0] [OfNat K 1] [BEq K] [RPow K]

theorem emHit_blind (pre : Prefixes K) (t : Lut K) (T : EmTable K) (u : UnitV K) (c : Bool) :
    emHit pre t T { u with canon := c } = emHit pre t T u := rfl

theorem umMatches_blind (S : USys K) (u : UnitV K) (c : Bool) :
    umMatches S { u with canon := c } = umMatches S u := rfl

/-- `_check_em_conversion` hands the unit on inside its answer, and reads nothing else of the bit -/
theorem checkEm_blind (pre : Prefixes K) (t : Lut K) (T : EmTable K) (S : USys K) (u : UnitV K) (c : Bool) :
    (checkEm pre t T S { u with canon := c }).map (fun o => o.map fun m => (m.conv, m.canon.expr, m.scale))
      = (checkEm pre t T S u).map (fun o => o.map fun m => (m.conv, m.canon.expr, m.scale)) := by
  simp only [checkEm, emHit_blind]
  split
  · rfl
  · split
    · split
      · rfl
      · split
        · split
          · rfl
          · split
            · rfl
            · rfl
        · rfl
    · rfl

theorem emConversion_congr (pre : Prefixes K) (t : Lut K) (m m' : EmMap K)
    (h : (m.conv, m.canon.expr, m.scale) = (m'.conv, m'.canon.expr, m'.scale)) :
    emConversion pre t m = emConversion pre t m' := by
  simp only [Prod.mk.injEq] at h
  obtain ⟨h1, h2, h3⟩ := h
  unfold emConversion
  cases hc : m.conv with
  | none =>
    have hc' : m'.conv = none := by rw [← h1]; exact hc
    simp only [hc, hc', Option.getD_none, h2, h3]
  | some cu =>
    have hc' : m'.conv = some cu := by rw [← h1]; exact hc
    simp only [hc, hc', Option.getD_some, h2, h3]

/-- the two answers of `_check_em_conversion` for a unit and for the same unit with another bit -/
theorem checkEm_cases (pre : Prefixes K) (t : Lut K) (T : EmTable K) (S : USys K) (u : UnitV K) (c : Bool) :
    (∃ e, checkEm pre t T S { u with canon := c } = .error e ∧ checkEm pre t T S u = .error e)
    ∨ (checkEm pre t T S { u with canon := c } = .ok none ∧ checkEm pre t T S u = .ok none)
    ∨ (∃ m m', checkEm pre t T S { u with canon := c } = .ok (some m') ∧ checkEm pre t T S u = .ok (some m)
        ∧ (m'.conv, m'.canon.expr, m'.scale) = (m.conv, m.canon.expr, m.scale)) := by
  have h := checkEm_blind pre t T S u c
  cases ha : checkEm pre t T S { u with canon := c } with
  | error e1 =>
    cases hb : checkEm pre t T S u with
    | error e2 => simp [ha, hb, Except.map] at h; exact Or.inl ⟨e1, rfl, by rw [h]⟩
    | ok o2 => simp [ha, hb, Except.map] at h
  | ok o1 =>
    cases hb : checkEm pre t T S u with
    | error e2 => simp [ha, hb, Except.map] at h
    | ok o2 =>
      simp only [ha, hb, Except.map, Except.ok.injEq] at h
      cases o1 with
      | none =>
        cases o2 with
        | none => exact Or.inr (Or.inl ⟨rfl, rfl⟩)
        | some m => simp at h
      | some m' =>
        cases o2 with
        | none => simp at h
        | some m => simp only [Option.map_some, Option.some.injEq] at h; exact Or.inr (Or.inr ⟨m, m', rfl, rfl, h⟩)

theorem getBaseEquivalent_blind (pre : Prefixes K) (t : Lut K) (T : EmTable K) (S : USys K) (u : UnitV K) (c : Bool) :
    (getBaseEquivalent pre t T S { u with canon := c }).map UnitV.noCanon
      = (getBaseEquivalent pre t T S u).map UnitV.noCanon := by
  unfold getBaseEquivalent
  rcases checkEm_cases pre t T S u c with ⟨e, ha, hb⟩ | ⟨ha, hb⟩ | ⟨m, m', ha, hb, hm⟩
  · rw [ha, hb]; cases e <;> rfl
  · rw [ha, hb]; simp only [umMatches_blind]
    by_cases hmm : umMatches S u = true
    · simp [hmm, Except.map, UnitV.noCanon]
    · simp only [hmm, if_false]; rfl
  · rw [ha, hb]; simp only [umMatches_blind, emConversion_congr pre t m' m hm]
    by_cases hmm : umMatches S u = true
    · simp [hmm, Except.map, UnitV.noCanon]
    · simp only [hmm, Bool.false_eq_true, if_false]; try rfl

theorem inBase_blind (pre : Prefixes K) (t : Lut K) (T : EmTable K) (S : USys K) (u : UnitV K) (c : Bool) (v : K) :
    (inBase pre t T S { u with canon := c } v).map (fun p => (p.1, UnitV.noCanon p.2))
      = (inBase pre t T S u v).map (fun p => (p.1, UnitV.noCanon p.2)) := by
  unfold inBase
  rcases checkEm_cases pre t T S u c with ⟨e, ha, hb⟩ | ⟨ha, hb⟩ | ⟨m, m', ha, hb, hm⟩
  · rw [ha, hb]; cases e <;> rfl
  · rw [ha, hb]
    simp only
    have hg := getBaseEquivalent_blind pre t T S u c
    cases hga : getBaseEquivalent pre t T S { u with canon := c } with
    | error e1 =>
      cases hgb : getBaseEquivalent pre t T S u with
      | error e2 => simp [hga, hgb, Except.map] at hg; simp [hg]
      | ok w2 => simp [hga, hgb, Except.map] at hg
    | ok w1 =>
      cases hgb : getBaseEquivalent pre t T S u with
      | error e2 => simp [hga, hgb, Except.map] at hg
      | ok w2 =>
        simp only [hga, hgb, Except.map, Except.ok.injEq] at hg
        have e1 : w1 = { w2 with canon := w1.canon } := by
          cases w1; cases w2; simp [UnitV.noCanon] at hg ⊢; simp [hg]
        simp only
        rw [e1]
        have : getConversionFactor pre t { u with canon := c } { w2 with canon := w1.canon } = getConversionFactor pre t u w2 := rfl
        rw [this]
        cases getConversionFactor pre t u w2 with
        | error e => rfl
        | ok f => simp [Except.map, UnitV.noCanon]
  · rw [ha, hb]; simp only [umMatches_blind, emConversion_congr pre t m' m hm]
    by_cases hmm : umMatches S u = true
    · simp [hmm, Except.map, UnitV.noCanon]
    · simp only [hmm, Bool.false_eq_true, if_false]; try rfl

theorem inBase_follow_aux (pre : Prefixes K) (t : Lut K) (T : EmTable K) (S : USys K) (rows : PLut K)
    (vals : List K) (u' u : UnitV K)
    (h : ∀ v, (inBase pre t T S u' v).map (fun p => (p.1, UnitV.noCanon p.2))
            = (inBase pre t T S u v).map (fun p => (p.1, UnitV.noCanon p.2))) :
    (match inBase pre t T S u' 0 with
      | .error e => (.error e : Except Err (Res K))
      | .ok (_, w) =>
        .ok ⟨vals.map (fun v => match inBase pre t T S u' v with | .ok (y, _) => y | .error _ => v),
             some { w with canon := exprCanon pre rows w.expr }⟩)
    = (match inBase pre t T S u 0 with
      | .error e => (.error e : Except Err (Res K))
      | .ok (_, w) =>
        .ok ⟨vals.map (fun v => match inBase pre t T S u v with | .ok (y, _) => y | .error _ => v),
             some { w with canon := exprCanon pre rows w.expr }⟩) := by
  have hv : (fun v => match inBase pre t T S u' v with | .ok (y, _) => y | .error _ => v)
      = (fun v => match inBase pre t T S u v with | .ok (y, _) => y | .error _ => v) := by
    funext v
    have hh := h v
    cases ha : inBase pre t T S u' v <;> cases hb : inBase pre t T S u v <;> simp_all [Except.map]
  have h0 := h 0
  cases ha : inBase pre t T S u' 0 with
  | error e1 =>
    cases hb : inBase pre t T S u 0 with
    | error e2 => simp [ha, hb, Except.map] at h0; simp [h0]
    | ok p2 => simp [ha, hb, Except.map] at h0
  | ok p1 =>
    cases hb : inBase pre t T S u 0 with
    | error e2 => simp [ha, hb, Except.map] at h0
    | ok p2 =>
      obtain ⟨y1, w1⟩ := p1
      obtain ⟨y2, w2⟩ := p2
      simp only [ha, hb, Except.map, Except.ok.injEq, Prod.mk.injEq, UnitV.noCanon] at h0
      obtain ⟨_, hw⟩ := h0
      cases w1; cases w2
      simp only [UnitV.mk.injEq] at hw
      obtain ⟨h1, h2, h3, h4, _⟩ := hw
      subst h1 h2 h3 h4
      simp only [hv]

end
end Unyt.C11
