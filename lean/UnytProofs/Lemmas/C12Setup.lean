/-
  Helper lemmas for C12, part 4: a history that first edits and only then looks things up passes
  the guard of the present code.  (No property statement here.)
-/
import UnytProofs.Lemmas.C12Sim

set_option linter.unusedSectionVars false
set_option linter.unusedVariables false

namespace Unyt.RegC12
open Unyt

variable {K : Type} [Mul K] [OfNat K 1] [OfNat K 0] [RPow K]
variable (cfg : Cfg) (pre : Prefixes K) (parse : String → Except Err (PExpr K))

/-- construction, `in`, `[]` -/
def Op.isLookup : Op K → Bool
  | .unit .. | .contains .. | .getitem .. => true
  | _ => false

/-- no residue of look-ups: nothing cached, nothing written back -/
def Clean (s : RegState K) : Prop := s.cache = [] ∧ s.derived = []

theorem clean_fresh (c : Lut K) : Clean (fresh c) := ⟨rfl, rfl⟩

theorem invalidate_clean (s : RegState K) (h : Clean s) : Clean (invalidate cfg s) := by
  obtain ⟨h1, h2⟩ := h
  cases hp : cfg.purgeDerived <;> simp [invalidate, Clean, hp, h1, h2]

theorem editSafe_clean (s : RegState K) (h : Clean s) (sym : String) (d cl : Bool) :
    editSafe parse s sym d cl = true := by
  simp [editSafe, h.1, h.2]

/-- an edit keeps a clean state clean and is safe in it -/
theorem edit_clean (s : RegState K) (h : Clean s) (op : Op K) (he : op.isEdit = true) :
    opSafe cfg parse s op = true ∧ Clean (step cfg pre parse s op).1 := by
  have hi := invalidate_clean cfg s h
  cases op with
  | add sym e =>
    exact ⟨editSafe_clean parse _ hi sym false _, by cases hc : cfg.clearCache <;> simp [step, Clean, cacheAfterEdit, hc, hi.1, hi.2]⟩
  | addInvalid sym => exact ⟨rfl, by simpa [step] using hi⟩
  | modifyF sym v =>
    refine ⟨editSafe_clean parse _ hi sym true _, ?_⟩
    simp only [step]; split
    · exact hi
    · cases hc : cfg.clearCache <;> simp [Clean, cacheAfterEdit, hc, hi.1, hi.2]
  | modifyQ sym v d own =>
    refine ⟨editSafe_clean parse _ hi sym true _, ?_⟩
    simp only [step]; split
    · exact hi
    · cases hc : cfg.clearCache <;> split <;> simp [Clean, cacheAfterEdit, hc, hi.1, hi.2]
  | remove sym =>
    refine ⟨editSafe_clean parse _ hi sym true _, ?_⟩
    simp only [step]; split
    · exact hi
    · cases hc : cfg.clearCache <;> simp [Clean, cacheAfterEdit, hc, hi.1, hi.2]
  | unit q => simp [Op.isEdit] at he
  | contains k => simp [Op.isEdit] at he
  | getitem k => simp [Op.isEdit] at he
  | sysId => simp [Op.isEdit] at he

theorem safeRun_lookups (l : List (Op K)) (hl : ∀ o ∈ l, Op.isLookup o = true) :
    ∀ s : RegState K, safeRun cfg pre parse s l = true := by
  induction l with
  | nil => intro s; rfl
  | cons o rest ih =>
    intro s
    have ho := hl o (List.mem_cons_self)
    have hs : opSafe cfg parse s o = true := by
      cases o <;> first | rfl | simp [Op.isLookup] at ho
    simp only [safeRun, hs, Bool.true_and]
    exact ih (fun o' h' => hl o' (List.mem_cons_of_mem _ h')) _

theorem safeRun_edits_then_lookups (e l : List (Op K)) (he : ∀ o ∈ e, Op.isEdit o = true)
    (hl : ∀ o ∈ l, Op.isLookup o = true) :
    ∀ s : RegState K, Clean s → safeRun cfg pre parse s (e ++ l) = true := by
  induction e with
  | nil => intro s _; exact safeRun_lookups cfg pre parse l hl s
  | cons o rest ih =>
    intro s hs
    obtain ⟨h1, h2⟩ := edit_clean cfg pre parse s hs o (he o List.mem_cons_self)
    simp only [List.cons_append, safeRun, h1, Bool.true_and]
    exact ih (fun o' h' => he o' (List.mem_cons_of_mem _ h')) _ h2

end Unyt.RegC12
