/-
  Helper lemmas for C12, part 5: the conversion model on heap objects.  (No property statement.)
-/
import UnytModel.RegistryC12Conv
import UnytProofs.Lemmas.C12Sim

set_option linter.unusedSectionVars false
set_option linter.unusedVariables false

namespace Unyt.RegC12
open Unyt

variable {K : Type} [Add K] [Sub K] [Mul K] [Div K] [OfNat K 0] [OfNat K 1] [BEq K]

/-- offset-free units: the factor is the ratio of the stored scales, whatever the table, the
    prefix table and the spelling -/
theorem getConversionFactor_offset_free (pre : Prefixes K) (t : Lut K) (u v : UnitV K)
    (hu : (u.offset == 0) = true) (hv : (v.offset == 0) = true) :
    getConversionFactor pre t u v =
      if u.dim != v.dim then .error .UnitConversionError else .ok (u.scale / v.scale, none) := by
  simp only [getConversionFactor, hu, hv, Bool.and_self, if_true]

/-- in general the table is consulted only through `_split_prefix`, which the written-back entries
    do not influence: the conversion is the same against the concrete table and the contents -/
theorem getConversionFactor_refines (pre : Prefixes K) (c t : Lut K) (D : List String)
    (h : LutRefines pre c t D) (u v : UnitV K) :
    getConversionFactor pre t u v = getConversionFactor pre c u v := by
  have hs : ∀ w : UnitV K, w.spelledWithPrefix pre t = w.spelledWithPrefix pre c := by
    intro w
    simp only [UnitV.spelledWithPrefix]
    split
    · rename_i s q _
      rw [splitPrefix_refines pre c t D h]
    · rfl
  simp only [getConversionFactor, hs]

end Unyt.RegC12
