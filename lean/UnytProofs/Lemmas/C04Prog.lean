/-
  Helper lemmas for the program-level theorem of C04: the invariant `Good` every intermediate
  unit of a program satisfies (zero offset, positive scale, scale/dimension in sync with the
  expression, every symbol resolvable with a positive scale, positive coefficient) and its
  preservation by the multiply / divide / power rules including `simplify`.
-/
import UnytModel.UfuncProgram
import UnytProofs.Lemmas.C04Cancel

set_option linter.unusedSectionVars false

namespace Unyt.UV
open Unyt UExpr Unyt.Ref.C04

variable {K : Type} [Lean.Grind.Field K] [BEq K] [LawfulBEq K] [RPow K]

/-! The four general facts below are those of `UnytProofs/C02.lean` (`InSync`, `denote_mul`, `denote_pow`,
    `unit_mul_in_sync`, `unit_pow_in_sync`), restated here so that this file does not import C02's property
    module, whose kernel-decided obligations over the regenerated unit table change with every table fix. -/

/-- (scale, dimension) of a unit value agree with the denotation of its expression -/
def InSync (pre : Prefixes K) (t : Lut K) (u : UnitV K) : Prop :=
  denote pre t u.expr = some (u.scale, u.dim)

theorem denote_mul' (pre : Prefixes K) (t : Lut K) (a b : UExpr K) (va vb : K) (da db : Dim)
    (ha : denote pre t a = some (va, da)) (hb : denote pre t b = some (vb, db)) :
    denote pre t (a.mul b) = some (va * vb, da * db) := by
  simp only [denote] at ha hb ⊢
  simp only [UExpr.mul, denoteF_append]
  cases hfa : denoteF pre t a.factors with
  | none => simp [hfa] at ha
  | some x =>
    cases hfb : denoteF pre t b.factors with
    | none => simp [hfb] at hb
    | some y =>
      obtain ⟨xa, xd⟩ := x; obtain ⟨ya, yd⟩ := y
      simp only [hfa, hfb, Option.some.injEq, Prod.mk.injEq] at ha hb ⊢
      obtain ⟨rfl, rfl⟩ := ha; obtain ⟨rfl, rfl⟩ := hb
      exact ⟨by grind, rfl⟩

theorem unit_mul_in_sync' (pre : Prefixes K) (t : Lut K) (u v z : UnitV K)
    (su : InSync pre t u) (sv : InSync pre t v) (h : u.mul v = .ok z) : InSync pre t z := by
  simp only [UnitV.mul] at h
  split at h; · contradiction
  split at h; · contradiction
  split at h; · contradiction
  cases h
  exact denote_mul' pre t u.expr v.expr _ _ _ _ su sv

theorem denote_pow' (P : K → Prop) (laws : RPowLaws (RPow.rpow (K := K)) P)
    (pre : Prefixes K) (t : Lut K) (a : UExpr K) (p : Rat) (va : K) (da : Dim)
    (hpos : AllPos P pre t a.factors) (hc : P a.coeff)
    (ha : denote pre t a = some (va, da)) :
    denote pre t (a.pow p) = some (RPow.rpow va p, da.pow p) := by
  simp only [denote] at ha ⊢
  obtain ⟨v, d, hv, hpv⟩ := denoteF_pos P laws pre t a.factors hpos
  simp only [UExpr.pow, denoteF_scaleF P laws pre t a.factors p hpos, hv] at ha ⊢
  simp only [Option.some.injEq, Prod.mk.injEq] at ha ⊢
  obtain ⟨rfl, rfl⟩ := ha
  exact ⟨(laws.mul_rpow p hc hpv).symm, rfl⟩

theorem unit_pow_in_sync' (P : K → Prop) (laws : RPowLaws (RPow.rpow (K := K)) P)
    (pre : Prefixes K) (t : Lut K) (u z : UnitV K) (p : Rat)
    (hpos : AllPos P pre t u.expr.factors) (hc : P u.expr.coeff)
    (su : InSync pre t u) (h : u.pow p = .ok z) : InSync pre t z := by
  obtain ⟨a, b, _, d⟩ := pow_ok u z p h
  simp only [InSync, a, b, d]
  exact denote_pow' P laws pre t u.expr p _ _ hpos hc su

/-- what holds of every unit a program meets -/
structure Good (P : K → Prop) (pre : Prefixes K) (t : Lut K) (u : UnitV K) : Prop where
  off : u.offset = 0
  pos : P u.scale
  sync : InSync pre t u
  allpos : AllPos P pre t u.expr.factors
  cpos : P u.expr.coeff

theorem negF_eq_scaleF (f : Factors) : negF f = scaleF f (-1) := by
  simp only [negF, scaleF]
  apply List.map_congr_left
  intro p _
  congr 1
  grind

theorem allPos_append (P : K → Prop) (pre : Prefixes K) (t : Lut K) (a b : Factors)
    (ha : AllPos P pre t a) (hb : AllPos P pre t b) : AllPos P pre t (a ++ b) := by
  intro s q hm
  rcases List.mem_append.mp hm with h | h
  · exact ha s q h
  · exact hb s q h

theorem allPos_scaleF (P : K → Prop) (pre : Prefixes K) (t : Lut K) (a : Factors) (p : Rat)
    (ha : AllPos P pre t a) : AllPos P pre t (scaleF a p) := by
  intro s q hm
  simp only [scaleF, List.mem_map] at hm
  obtain ⟨x, hx, he⟩ := hm
  cases he
  exact ha x.1 x.2 hx

variable (P : K → Prop) (laws : RPowLaws (RPow.rpow (K := K)) P) (hP0 : ∀ x, P x → x ≠ 0)
include laws hP0

theorem rpow_neg_one_eq {x : K} (hx : P x) : RPow.rpow x (-1) = 1 / x := by
  have h := rpow_neg_cancel P laws hx 1
  rw [laws.rpow_one hx] at h
  have := hP0 x hx
  grind

theorem pos_div {a b : K} (ha : P a) (hb : P b) : P (a / b) := by
  have e : a / b = a * RPow.rpow b (-1) := by
    rw [rpow_neg_one_eq P laws hP0 hb]; have := hP0 b hb; grind
  rw [e]; exact laws.pos_mul ha (laws.pos_rpow _ hb)

theorem good_dimensionless (pre : Prefixes K) (t : Lut K) : Good P pre t (UnitV.dimensionless : UnitV K) := by
  refine ⟨rfl, laws.pos_one, ?_, ?_, laws.pos_one⟩
  · simp only [InSync, denote, UnitV.dimensionless, UExpr.one, denoteF]
    congr 2; grind
  · intro s q hm; simp [UnitV.dimensionless, UExpr.one] at hm

/-- the denotation is a homomorphism for quotients -/
theorem denote_div (pre : Prefixes K) (t : Lut K) (a b : UExpr K) (va vb : K) (da db : Dim)
    (hposb : AllPos P pre t b.factors) (hvb : P vb) (hcb : P b.coeff)
    (ha : denote pre t a = some (va, da)) (hb : denote pre t b = some (vb, db)) :
    denote pre t (a.div b) = some (va / vb, da / db) := by
  simp only [denote] at ha hb ⊢
  obtain ⟨wb, eb, hwb, hpwb⟩ := denoteF_pos P laws pre t b.factors hposb
  simp only [UExpr.div, denoteF_append, negF_eq_scaleF, denoteF_scaleF P laws pre t b.factors (-1) hposb, hwb]
  cases hfa : denoteF pre t a.factors with
  | none => simp [hfa] at ha
  | some x =>
    obtain ⟨xa, xd⟩ := x
    simp only [hfa, hwb, Option.some.injEq, Prod.mk.injEq] at ha hb ⊢
    obtain ⟨rfl, rfl⟩ := ha; obtain ⟨rfl, rfl⟩ := hb
    refine ⟨?_, ?_⟩
    · rw [rpow_neg_one_eq P laws hP0 hpwb]
      have := hP0 _ hpwb; have := hP0 _ hcb; grind
    · rw [Dim.pow_neg_one]; rfl

/-- what `_multiply_units` returns on good units: a positive coefficient and a good unit -/
theorem good_multiplyUnits (pre : Prefixes K) (t : Lut K) (u0 u1 ur : UnitV K) (m : K)
    (g0 : Good P pre t u0) (g1 : Good P pre t u1) (h : multiplyUnits pre t u0 u1 = .ok (m, ur)) :
    P m ∧ Good P pre t ur := by
  simp only [multiplyUnits] at h
  split at h; · contradiction
  rename_i r hr
  split at h; · contradiction
  rename_i s hs
  obtain ⟨rs, rd, ro, re⟩ := mul_zero_offsets u0 u1 r g0.off g1.off hr
  have rsync : InSync pre t r := unit_mul_in_sync' pre t u0 u1 r g0.sync g1.sync hr
  obtain ⟨ss, sd, so, _, hcm⟩ := simplify_ok pre t r s hs
  have rpos : AllPos P pre t r.expr.factors := by
    rw [re]; exact allPos_append P pre t _ _ g0.allpos g1.allpos
  have rc : P r.expr.coeff := by rw [re]; exact laws.pos_mul g0.cpos g1.cpos
  obtain ⟨d1, d2, d3⟩ := cancelMul_denote P laws pre t r.expr s.expr rpos hcm
  have hc := d3 rc
  have hc0 := hP0 _ hc
  simp only [UnitV.asCoeffUnit] at h
  cases h
  have rP : P r.scale := by rw [rs]; exact laws.pos_mul g0.pos g1.pos
  refine ⟨hc, ⟨by simp [so, ro], ?_, ?_, d2, laws.pos_one⟩⟩
  · simp only [ss]; exact pos_div P laws hP0 rP hc
  · have hd : denote pre t s.expr = some (r.scale, r.dim) := by rw [d1]; exact rsync
    simp only [InSync, denote] at hd ⊢
    cases hf : denoteF pre t s.expr.factors with
    | none => simp [hf] at hd
    | some x =>
      obtain ⟨v, d⟩ := x
      simp only [hf, Option.some.injEq, Prod.mk.injEq] at hd ⊢
      obtain ⟨e1, e2⟩ := hd
      refine ⟨?_, by rw [sd, e2]⟩
      rw [ss, ← e1]; grind

theorem good_divideUnits (pre : Prefixes K) (t : Lut K) (u0 u1 ur : UnitV K) (m : K)
    (g0 : Good P pre t u0) (g1 : Good P pre t u1) (h : divideUnits pre t u0 u1 = .ok (m, ur)) :
    P m ∧ Good P pre t ur := by
  simp only [divideUnits] at h
  split at h; · contradiction
  rename_i r hr
  split at h; · contradiction
  rename_i s hs
  obtain ⟨rs, rd, ro, re⟩ := div_zero_offsets u0 u1 r g0.off g1.off hr
  have rsync : InSync pre t r := by
    simp only [InSync, re, rs, rd]
    exact denote_div P laws hP0 pre t u0.expr u1.expr _ _ _ _ g1.allpos g1.pos g1.cpos g0.sync g1.sync
  obtain ⟨ss, sd, so, _, hcm⟩ := simplify_ok pre t r s hs
  have rpos : AllPos P pre t r.expr.factors := by
    rw [re]; simp only [UExpr.div, negF_eq_scaleF]
    exact allPos_append P pre t _ _ g0.allpos (allPos_scaleF P pre t _ _ g1.allpos)
  have rc : P r.expr.coeff := by rw [re]; exact pos_div P laws hP0 g0.cpos g1.cpos
  obtain ⟨d1, d2, d3⟩ := cancelMul_denote P laws pre t r.expr s.expr rpos hcm
  have hc := d3 rc
  have hc0 := hP0 _ hc
  simp only [UnitV.asCoeffUnit] at h
  cases h
  have rP : P r.scale := by rw [rs]; exact pos_div P laws hP0 g0.pos g1.pos
  refine ⟨hc, ⟨by simp [so, ro], ?_, ?_, d2, laws.pos_one⟩⟩
  · simp only [ss]; exact pos_div P laws hP0 rP hc
  · have hd : denote pre t s.expr = some (r.scale, r.dim) := by rw [d1]; exact rsync
    simp only [InSync, denote] at hd ⊢
    cases hf : denoteF pre t s.expr.factors with
    | none => simp [hf] at hd
    | some x =>
      obtain ⟨v, d⟩ := x
      simp only [hf, Option.some.injEq, Prod.mk.injEq] at hd ⊢
      obtain ⟨e1, e2⟩ := hd
      refine ⟨?_, by rw [sd, e2]⟩
      rw [ss, ← e1]; grind

theorem good_pow (pre : Prefixes K) (t : Lut K) (u z : UnitV K) (p : Rat)
    (g : Good P pre t u) (h : u.pow p = .ok z) : Good P pre t z := by
  obtain ⟨a, b, c, d⟩ := pow_ok u z p h
  refine ⟨c, by rw [a]; exact laws.pos_rpow _ g.pos,
    unit_pow_in_sync' P laws pre t u z p g.allpos g.cpos g.sync h, ?_, ?_⟩
  · rw [d]; exact allPos_scaleF P pre t _ _ g.allpos
  · rw [d]; exact laws.pos_rpow _ g.cpos

end Unyt.UV
