/-
  C14, chunk 13 of 16 of the whole-table obligations (kernel-decided in slices; assembled in
  UnytProofs/Lemmas/C14Rows.lean, stated in UnytProofs/C14.lean).
-/
import UnytModel.C14Check
import UnytProofs.Lemmas.C14Chunk09  -- build order only: at most four chunks are decided concurrently

namespace Unyt.C14

/-- every listed name of chunk 13 (four slices of 64 rows) is read by the string route and by the
    three attribute routes as the independent reference reads it -/
theorem names_slice_13_0 : namesSliceOk 13 0 = true := by decide +kernel
theorem names_slice_13_1 : namesSliceOk 13 1 = true := by decide +kernel
theorem names_slice_13_2 : namesSliceOk 13 2 = true := by decide +kernel
theorem names_slice_13_3 : namesSliceOk 13 3 = true := by decide +kernel

/-- prefix spellings 3·13 … 3·13+2 (symbols, then word forms) are rejected on every
    non-prefixable spelling (three slices of 110 spelling rows) -/
theorem nonprefixable_slice_13_0 : nonprefixableSliceOk 13 0 = true := by decide +kernel
theorem nonprefixable_slice_13_1 : nonprefixableSliceOk 13 1 = true := by decide +kernel
theorem nonprefixable_slice_13_2 : nonprefixableSliceOk 13 2 = true := by decide +kernel

/-- the body of `generate_name_alternatives`' outer loop, for the table keys number i ≡ 13 (mod 16),
    started in the state the real generator had there, appends exactly what the real one appended -/
theorem gen_chunk_13 : genChunkOk 13 = true := by decide +kernel

end Unyt.C14
