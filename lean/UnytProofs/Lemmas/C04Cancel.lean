/-
  Helper lemmas for C04: `_cancel_mul` (the model's `cancelLoop`) preserves what an expression
  denotes against the table — coefficient times the product of `scale ** exponent`, and the
  product of `dimension ** exponent` — by induction over the cancellation steps; it keeps the
  coefficient in the positive part.  (Builds on the denotation machinery of `Lemmas/Denote.lean`.)
-/
import UnytProofs.Lemmas.Denote
import UnytProofs.Lemmas.C04

set_option linter.unusedSectionVars false

namespace Unyt.UV
open Unyt UExpr

theorem mem_pairs2 {α : Type} (l : List α) (a b : α) (h : (a, b) ∈ pairs2 l) : a ∈ l ∧ b ∈ l := by
  induction l with
  | nil => simp [pairs2] at h
  | cons x r ih =>
    simp only [pairs2, List.mem_append, List.mem_map] at h
    rcases h with ⟨y, hy, he⟩ | h
    · cases he; exact ⟨List.mem_cons_self .., List.mem_cons_of_mem _ hy⟩
    · obtain ⟨h1, h2⟩ := ih h
      exact ⟨List.mem_cons_of_mem _ h1, List.mem_cons_of_mem _ h2⟩

theorem mem_expandFactor (p x : Fac) (h : x ∈ expandFactor p) : x.1 = p.1 := by
  simp only [expandFactor, List.mem_append, List.mem_replicate] at h
  rcases h with h | h
  · split at h
    · simp at h
    · simp at h; rw [h]
  · rw [h.2]

/-- a dimension cancelled by the opposite powers of the two factors of a dimensionless pair -/
theorem Dim.cancel_pair (d da db : Dim) (qa qb : Rat) (h : da.pow qa * db.pow qb = Dim.one) :
    d * (da.pow (-qa) * (db.pow (-qb) * Dim.one)) = d := by
  cases d; cases da; cases db
  simp only [Dim.mul_def, Dim.mul, Dim.pow, Dim.one, Dim.mk.injEq] at h ⊢
  grind

variable {K : Type} [Lean.Grind.Field K] [BEq K] [LawfulBEq K] [RPow K]
variable (P : K → Prop) (laws : RPowLaws (RPow.rpow (K := K)) P)
include laws

theorem allPos_normF (pre : Prefixes K) (t : Lut K) (f : Factors) (h : AllPos P pre t f) :
    AllPos P pre t (normF f) := by
  obtain ⟨_, h2⟩ := denoteF_sortMerge P laws pre t f h
  intro s q hm
  simp only [normF, dropZeros, List.mem_filter] at hm
  exact h2 s q hm.1

theorem expanded_resolves (pre : Prefixes K) (t : Lut K) (f : Factors) (h : AllPos P pre t f)
    (x : Fac) (hx : x ∈ expandedFactors f) : ∃ e, resolve pre t x.1 = some e ∧ P e.scale := by
  simp only [expandedFactors, List.mem_flatMap] at hx
  obtain ⟨p, hp, hxp⟩ := hx
  rw [mem_expandFactor p x hxp]
  exact allPos_normF P laws pre t f h p.1 p.2 hp

theorem rpow_neg_cancel {x : K} (hx : P x) (q : Rat) : RPow.rpow x q * RPow.rpow x (-q) = 1 := by
  have h := laws.rpow_add q (-q) hx
  have e : q + -q = 0 := by grind
  rw [e, laws.rpow_zero hx] at h
  exact h.symm

/-- one cancellation step leaves the denotation unchanged -/
theorem cancel_step_denote (pre : Prefixes K) (t : Lut K) (e : UExpr K) (a b : Fac) (ea eb : Entry K)
    (hpos : AllPos P pre t e.factors) (ha : resolve pre t a.1 = some ea) (hb : resolve pre t b.1 = some eb)
    (hPa : P ea.scale) (hPb : P eb.scale) (hd : ea.dim.pow a.2 * eb.dim.pow b.2 = Dim.one) :
    denote pre t ⟨e.coeff * (RPow.rpow ea.scale a.2 * RPow.rpow eb.scale b.2),
                  e.factors ++ [(a.1, -a.2), (b.1, -b.2)]⟩ = denote pre t e := by
  obtain ⟨v, d, hv, _⟩ := denoteF_pos P laws pre t e.factors hpos
  have h1 := rpow_neg_cancel P laws hPa a.2
  have h2 := rpow_neg_cancel P laws hPb b.2
  simp only [denote, denoteF_append, hv, denoteF, ha, hb, pw_eq P laws hPa, pw_eq P laws hPb,
    Dim.cancel_pair d ea.dim eb.dim a.2 b.2 hd]
  congr 2
  grind

/-- **`_cancel_mul` preserves the denotation** (and positivity of the coefficient, and the
    resolvability of every symbol), whatever pairs it cancels and in whatever order -/
theorem cancelLoop_denote (pre : Prefixes K) (t : Lut K) :
    ∀ (fuel : Nat) (e : UExpr K) (unc : List (Fac × Fac)) (e' : UExpr K),
      AllPos P pre t e.factors → cancelLoop pre t fuel e unc = .ok e' →
      denote pre t e' = denote pre t e ∧ AllPos P pre t e'.factors ∧ (P e.coeff → P e'.coeff) := by
  intro fuel
  induction fuel with
  | zero =>
    intro e unc e' hpos h
    simp only [cancelLoop] at h
    cases h
    exact ⟨rfl, hpos, id⟩
  | succ n ih =>
    intro e unc e' hpos h
    simp only [cancelLoop] at h
    split at h
    · cases h; exact ⟨rfl, hpos, id⟩
    · rename_i a b hfind
      have hmem : (a, b) ∈ pairs2 (expandedFactors e.factors) := by
        have := List.mem_of_find?_eq_some hfind
        simpa using this
      obtain ⟨hma, hmb⟩ := mem_pairs2 _ a b hmem
      obtain ⟨ea, hra, hPa⟩ := expanded_resolves P laws pre t e.factors hpos a hma
      obtain ⟨eb, hrb, hPb⟩ := expanded_resolves P laws pre t e.factors hpos b hmb
      simp only [factorUnit, hra, hrb] at h
      split at h; · contradiction
      rename_i ua hua
      split at h; · contradiction
      rename_i ub hub
      split at h; · contradiction
      rename_i prod hprod
      obtain ⟨as, ad, ao, _⟩ := pow_ok _ ua a.2 hua
      obtain ⟨bs, bd, bo, _⟩ := pow_ok _ ub b.2 hub
      obtain ⟨ps, pd, _, _⟩ := mul_zero_offsets ua ub prod ao bo hprod
      split at h
      · rename_i hdim
        have hdim' : ea.dim.pow a.2 * eb.dim.pow b.2 = Dim.one := by
          have := eq_of_beq hdim
          rw [pd, ad, bd] at this
          exact this
        have hpos2 : AllPos P pre t (e.factors ++ [(a.1, -a.2), (b.1, -b.2)]) := by
          intro s q hm
          rcases List.mem_append.mp hm with hm | hm
          · exact hpos s q hm
          · simp only [List.mem_cons, List.mem_nil_iff, or_false, Prod.mk.injEq] at hm
            rcases hm with ⟨rfl, _⟩ | ⟨rfl, _⟩
            · exact ⟨ea, hra, hPa⟩
            · exact ⟨eb, hrb, hPb⟩
        obtain ⟨i1, i2, i3⟩ := ih _ unc e' hpos2 h
        refine ⟨?_, i2, ?_⟩
        · rw [i1, ps, as, bs]
          exact cancel_step_denote P laws pre t e a b ea eb hpos hra hrb hPa hPb hdim'
        · intro hc
          apply i3
          rw [ps, as, bs]
          exact laws.pos_mul hc (laws.pos_mul (laws.pos_rpow _ hPa) (laws.pos_rpow _ hPb))
      · exact ih _ _ e' hpos h

/-- `_cancel_mul`: the simplified expression denotes what the expression denoted, and its
    coefficient is positive when the original coefficient is -/
theorem cancelMul_denote (pre : Prefixes K) (t : Lut K) (e e' : UExpr K)
    (hpos : AllPos P pre t e.factors) (h : cancelMul pre t e = .ok e') :
    denote pre t e' = denote pre t e ∧ AllPos P pre t e'.factors ∧ (P e.coeff → P e'.coeff) :=
  cancelLoop_denote P laws pre t _ e [] e' hpos h

end Unyt.UV
