/-
  Helper lemmas for C10 (no property statements): `units_map` as an association list,
  memoisation of `UnitSystem.__getitem__`, the denotation of a synthesised unit.
-/
import UnytModel.UnitSystem
import UnytProofs.Lemmas.Denote

set_option linter.unusedSectionVars false

namespace Unyt
open UExpr

section umap
variable {K : Type}

theorem UMap.find?_filter_ne (m : UMap K) (k k' : Dim) :
    UMap.find? (m.filter (fun p => p.1 ≠ k)) k' = if k' = k then none else UMap.find? m k' := by
  induction m with
  | nil => simp [UMap.find?]
  | cons p r ih =>
    obtain ⟨a, e⟩ := p
    by_cases h : a = k
    · subst h
      simp only [List.filter_cons, ne_eq, not_true_eq_false, decide_false]
      simp only [Bool.false_eq_true, if_false, ih, UMap.find?]
      by_cases h2 : k' = a
      · simp [h2]
      · have : ¬ a = k' := fun h => h2 h.symm
        simp [h2, this]
    · have hd : decide (¬ a = k) = true := by simpa using h
      simp only [List.filter_cons, ne_eq, hd, if_true, UMap.find?, ih]
      by_cases h2 : a = k'
      · subst h2; simp [h]
      · simp [h2]

theorem UMap.find?_set (m : UMap K) (k k' : Dim) (v : Option (UExpr K)) :
    UMap.find? (m.set k v) k' = if k' = k then some v else UMap.find? m k' := by
  simp only [UMap.set, UMap.find?, UMap.find?_filter_ne]
  by_cases h : k = k'
  · subst h; simp
  · have : ¬ k' = k := fun h' => h h'.symm
    simp [h, this]

theorem UMap.get?_set (m : UMap K) (k k' : Dim) (e : UExpr K) :
    UMap.get? (m.set k (some e)) k' = if k' = k then some e else UMap.get? m k' := by
  simp only [UMap.get?, UMap.find?_set]
  by_cases h : k' = k <;> simp [h]

end umap

/-! ### memoisation -/
section memo
variable {K : Type} [Mul K] [OfNat K 1] [RPow K]

/-- every base dimension except possibly `current_mks` has a unit -/
def USys.BaseComplete (S : USys K) : Prop :=
  ∀ bd, bd ∈ baseDimsInit → bd ≠ Dim.dCurrent → (S.um.get? bd).isSome = true

theorem baseDimsSympy_mem_init (p : Dim × (Dim → Rat)) (h : p ∈ baseDimsSympy) : p.1 ∈ baseDimsInit := by
  simp only [baseDimsSympy, List.mem_cons, List.not_mem_nil, or_false] at h
  rcases h with h | h | h | h | h | h | h | h <;> subst h <;> decide

theorem synthOver_congr (m m' : UMap K) (d : Dim) (L : List (Dim × (Dim → Rat)))
    (h : ∀ p, p ∈ L → m'.get? p.1 = m.get? p.1) : synthOver m' d L = synthOver m d L := by
  induction L with
  | nil => rfl
  | cons p r ih =>
    obtain ⟨bd, proj⟩ := p
    have h1 := h (bd, proj) (List.mem_cons_self ..)
    have h2 := ih (fun p hp => h p (List.mem_cons_of_mem _ hp))
    simp only [synthOver, baseOf, h1, h2]

theorem USys.getItem_fst (S : USys K) (k : Dim) (e : UExpr K) (S' : USys K)
    (h : S.getItem k = .ok (e, S')) : S.lookup k = .ok e := by
  simp only [USys.getItem] at h
  simp only [USys.lookup]
  split at h
  · rename_i e' he; cases h; simp
  · rename_i hn
    split at h
    · contradiction
    · rename_i hc; cases h; simp [hc]

theorem USys.lookup_getItem (S : USys K) (k : Dim) (e : UExpr K)
    (h : S.lookup k = .ok e) : ∃ S', S.getItem k = .ok (e, S') := by
  simp only [USys.lookup] at h
  simp only [USys.getItem]
  split at h
  · rename_i e' he; cases h; exact ⟨S, by simp⟩
  · rename_i hn
    split at h
    · contradiction
    · rename_i hc; cases h
      exact ⟨{ S with um := S.um.set k (some (synth S.um k)) }, by simp [hc]⟩

/-- the state after `unit_system[k]`: the old map, or the old map with `k ↦ answer` where `k`
    had no unit before -/
theorem USys.getItem_um (S : USys K) (k : Dim) (e : UExpr K) (S' : USys K)
    (h : S.getItem k = .ok (e, S')) :
    (S' = S ∧ S.um.get? k = some e) ∨
    (S.um.get? k = none ∧ (k.hasCurrent && !S.hasCurrent) = false ∧ e = synth S.um k ∧
      S' = { S with um := S.um.set k (some e) }) := by
  simp only [USys.getItem] at h
  split at h
  · rename_i e' he; cases h; exact Or.inl ⟨rfl, he⟩
  · rename_i hn
    split at h
    · contradiction
    · rename_i hc; cases h
      exact Or.inr ⟨hn, by simpa using hc, rfl, rfl⟩

theorem dCurrent_hasCurrent : Dim.dCurrent.hasCurrent = true := by decide

/-- memoisation leaves every answer of the system unchanged (and keeps the base complete) -/
theorem USys.getItem_transparent (S : USys K) (hB : S.BaseComplete) (k : Dim) (e : UExpr K) (S' : USys K)
    (h : S.getItem k = .ok (e, S')) :
    S'.BaseComplete ∧ S'.hasCurrent = S.hasCurrent ∧ ∀ k', S'.lookup k' = S.lookup k' := by
  rcases USys.getItem_um S k e S' h with ⟨rfl, _⟩ | ⟨hn, hc, he, rfl⟩
  · exact ⟨hB, rfl, fun _ => rfl⟩
  · -- `k` is not a base dimension that has a unit, and not `current_mks`
    have hkc : k ≠ Dim.dCurrent := by
      intro hk; subst hk
      have : S.hasCurrent = false := by simp [USys.hasCurrent, hn]
      simp [dCurrent_hasCurrent, this] at hc
    have hkb : ∀ bd, bd ∈ baseDimsInit → bd ≠ k := by
      intro bd hbd hk; subst hk
      have := hB bd hbd hkc
      simp [hn] at this
    have hget : ∀ bd, bd ∈ baseDimsInit → (S.um.set k (some e)).get? bd = S.um.get? bd := by
      intro bd hbd
      rw [UMap.get?_set]; simp [hkb bd hbd]
    have hcur : ({ S with um := S.um.set k (some e) } : USys K).hasCurrent = S.hasCurrent := by
      simp only [USys.hasCurrent, hget Dim.dCurrent (by decide)]
    refine ⟨?_, hcur, ?_⟩
    · intro bd hbd hne
      show ((S.um.set k (some e)).get? bd).isSome = true
      rw [hget bd hbd]; exact hB bd hbd hne
    · intro k'
      have hsyn : ∀ d, synth (S.um.set k (some e)) d = synth S.um d := fun d =>
        synthOver_congr _ _ d _ (fun p hp => hget p.1 (baseDimsSympy_mem_init p hp))
      simp only [USys.lookup, hcur, hsyn]
      show (match (S.um.set k (some e)).get? k' with | some e => _ | none => _) = _
      rw [UMap.get?_set]
      by_cases hk : k' = k
      · subst hk
        simp only [if_true, hn, hc]
        simp [he]
      · simp only [hk, if_false]; rfl

/-- … for any sequence of look-ups -/
theorem USys.memoAll_transparent (ks : List Dim) : ∀ (S : USys K), S.BaseComplete →
    (S.memoAll ks).BaseComplete ∧ ∀ k', (S.memoAll ks).lookup k' = S.lookup k' := by
  induction ks with
  | nil => intro S hB; exact ⟨hB, fun _ => rfl⟩
  | cons k r ih =>
    intro S hB
    simp only [USys.memoAll]
    split
    · rename_i e S' hg
      obtain ⟨hB', _, hl⟩ := USys.getItem_transparent S hB k e S' hg
      obtain ⟨h1, h2⟩ := ih S' hB'
      exact ⟨h1, fun k' => (h2 k').trans (hl k')⟩
    · exact ih S hB

end memo

/-! ### what a synthesised unit denotes -/
section synthden
variable {K : Type} [Lean.Grind.Field K] [RPow K]

/-- the dimension `_get_system_unit_string` spells out, factor by factor -/
def dimOver (d : Dim) : List (Dim × (Dim → Rat)) → Dim
  | [] => Dim.one
  | (bd, proj) :: r => bd.pow (proj d) * dimOver d r

/-- a dimension is the product of the base dimensions to its exponents -/
theorem dimOver_base (d : Dim) : dimOver d baseDimsSympy = d := by
  cases d
  simp only [dimOver, baseDimsSympy, Dim.pow, Dim.mul_def, Dim.mul, Dim.one, Dim.dAngle, Dim.dCurrent,
    Dim.dLength, Dim.dLogarithmic, Dim.dLuminous, Dim.dMass, Dim.dTemperature, Dim.dTime, Dim.mk.injEq]
  grind

theorem allPos_nil (P : K → Prop) (pre : Prefixes K) (t : Lut K) : AllPos P pre t [] := by
  intro s q h; cases h

theorem allPos_append (P : K → Prop) (pre : Prefixes K) (t : Lut K) (a b : Factors)
    (ha : AllPos P pre t a) (hb : AllPos P pre t b) : AllPos P pre t (a ++ b) := by
  intro s q h
  rcases List.mem_append.mp h with h | h
  · exact ha s q h
  · exact hb s q h

theorem allPos_scaleF (P : K → Prop) (pre : Prefixes K) (t : Lut K) (f : Factors) (p : Rat)
    (h : AllPos P pre t f) : AllPos P pre t (scaleF f p) := by
  intro s q hm
  simp only [scaleF, List.mem_map] at hm
  obtain ⟨⟨s', q'⟩, hm', heq⟩ := hm
  simp only [Prod.mk.injEq] at heq
  obtain ⟨rfl, _⟩ := heq
  exact h s' q' hm'

variable (P : K → Prop) (laws : RPowLaws (RPow.rpow (K := K)) P)

/-- an expression whose symbols resolve to positive scales, with a positive coefficient, whose
    factors denote dimension `d` -/
def ExprOK (pre : Prefixes K) (t : Lut K) (e : UExpr K) (d : Dim) : Prop :=
  AllPos P pre t e.factors ∧ P e.coeff ∧ ∃ v, denoteF pre t e.factors = some (v, d)

include laws

theorem exprOK_one (pre : Prefixes K) (t : Lut K) : ExprOK P pre t (UExpr.one : UExpr K) Dim.one :=
  ⟨allPos_nil P pre t, laws.pos_one, 1, rfl⟩

theorem exprOK_mul (pre : Prefixes K) (t : Lut K) (a b : UExpr K) (da db : Dim)
    (ha : ExprOK P pre t a da) (hb : ExprOK P pre t b db) : ExprOK P pre t (a.mul b) (da * db) := by
  obtain ⟨pa, ca, va, hva⟩ := ha
  obtain ⟨pb, cb, vb, hvb⟩ := hb
  refine ⟨allPos_append P pre t _ _ pa pb, laws.pos_mul ca cb, va * vb, ?_⟩
  simp only [UExpr.mul, denoteF_append, hva, hvb]

theorem exprOK_powE (pre : Prefixes K) (t : Lut K) (e : UExpr K) (bd : Dim) (q : Rat)
    (h : ExprOK P pre t e bd) : ExprOK P pre t (powE e q) (bd.pow q) := by
  obtain ⟨pe, ce, v, hv⟩ := h
  simp only [powE]
  split
  · rename_i hq; subst hq; rw [Dim.pow_one]; exact ⟨pe, ce, v, hv⟩
  · refine ⟨allPos_scaleF P pre t _ q pe, laws.pos_rpow q ce, RPow.rpow v q, ?_⟩
    simp only [UExpr.pow, denoteF_scaleF P laws pre t e.factors q pe, hv]

/-- the synthesised expression denotes the dimension that was spelled out -/
theorem synthOver_ok (pre : Prefixes K) (t : Lut K) (m : UMap K) (d : Dim) (L : List (Dim × (Dim → Rat)))
    (h : ∀ p, p ∈ L → p.2 d ≠ 0 → ∃ b, m.get? p.1 = some b ∧ ExprOK P pre t b p.1) :
    ExprOK P pre t (synthOver m d L) (dimOver d L) := by
  induction L with
  | nil => exact exprOK_one P laws pre t
  | cons p r ih =>
    obtain ⟨bd, proj⟩ := p
    have ih' := ih (fun p hp => h p (List.mem_cons_of_mem _ hp))
    simp only [synthOver, dimOver]
    split
    · rename_i h0
      rw [h0, Dim.pow_zero, Dim.one_mul']; exact ih'
    · rename_i h0
      obtain ⟨b, hb, hok⟩ := h (bd, proj) (List.mem_cons_self ..) h0
      have : baseOf m bd = b := by simp [baseOf, hb]
      rw [this]
      exact exprOK_mul P laws pre t _ _ _ _ (exprOK_powE P laws pre t b bd (proj d) hok) ih'

omit laws in
/-- every symbol of the synthesised expression comes from a base unit -/
theorem synthOver_atoms (m : UMap K) (d : Dim) (L : List (Dim × (Dim → Rat))) (s : String)
    (h : expOf (synthOver m d L).factors s ≠ 0) :
    ∃ p, p ∈ L ∧ ∃ b, m.get? p.1 = some b ∧ expOf b.factors s ≠ 0 := by
  induction L with
  | nil => simp [synthOver, UExpr.one] at h
  | cons p r ih =>
    obtain ⟨bd, proj⟩ := p
    simp only [synthOver] at h
    split at h
    · obtain ⟨p, hp, hb⟩ := ih h
      exact ⟨p, List.mem_cons_of_mem _ hp, hb⟩
    · simp only [UExpr.mul, expOf_append] at h
      by_cases h1 : expOf (powE (baseOf m bd) (proj d)).factors s = 0
      · have : expOf (synthOver m d r).factors s ≠ 0 := by
          intro h2; apply h; rw [h1, h2]; grind
        obtain ⟨p, hp, hb⟩ := ih this
        exact ⟨p, List.mem_cons_of_mem _ hp, hb⟩
      · refine ⟨(bd, proj), List.mem_cons_self .., ?_⟩
        have h2 : expOf (baseOf m bd).factors s ≠ 0 := by
          intro h3; apply h1
          simp only [powE]
          split
          · exact h3
          · simp only [UExpr.pow, expOf_scaleF, h3]; grind
        cases hg : m.get? bd with
        | none => simp [baseOf, hg, UExpr.one] at h2
        | some b => exact ⟨b, rfl, by simpa [baseOf, hg] using h2⟩

variable [BEq K] [LawfulBEq K]

/-- `Unit(expr)`: the dimension is the denoted one, the expression is the canonical form -/
theorem mkUnit_spec (pre : Prefixes K) (t : Lut K) (e : UExpr K) (u : UnitV K)
    (h : mkUnit pre t e = .ok u) (hpos : AllPos P pre t e.factors) (v : K) (d : Dim)
    (hd : denoteF pre t e.factors = some (v, d)) :
    u.dim = d ∧ u.expr.factors = normF e.factors := by
  simp only [mkUnit] at h
  split at h
  · rename_i u' t' ho
    cases h
    simp only [UnitV.ofExpr] at ho
    split at ho
    · contradiction
    · rename_i v1 d1 t1 hev
      obtain ⟨hden, hres⟩ := evalFactors_denote pre (normF e.factors) t v1 d1 _ hev
      rw [denoteF_normF P laws pre t e.factors hpos, hd] at hden
      have hdd : d = d1 := by cases hden; rfl
      split at ho
      · rename_i s q hnf
        split at ho
        · rename_i hq1
          split at ho
          · rename_i ent hent
            cases ho
            refine ⟨?_, hnf.symm ▸ rfl⟩
            -- the table row of `s` is what `s` resolves to
            have hq : q = 1 := by
              have : (q == 1) = true := by
                cases h1 : (q == 1) <;> simp [h1] at hq1 ⊢
              exact eq_of_beq this
            subst hq
            have hr : resolve pre t s = some ent := by
              rw [← hres s]; simp only [resolve, lookupUnitSymbol, hent]
            have hd2 := denoteF_normF P laws pre t e.factors hpos
            rw [hnf, hd] at hd2
            simp only [denoteF, hr, Option.some.injEq, Prod.mk.injEq] at hd2
            rw [← hd2.2, Dim.pow_one, Dim.mul_one']
          · contradiction
        · cases ho; exact ⟨hdd.symm, rfl⟩
      · cases ho; exact ⟨hdd.symm, rfl⟩
  · contradiction

end synthden

/-! ### the scale of a synthesised unit -/
section synthscale
variable {K : Type} [Lean.Grind.Field K] [RPow K]

/-- the scale `_get_system_unit_string` spells out: the product of the base units' scales
    (coefficient included) to the exponents of the dimension -/
def scaleOver (sc : Dim → K) (d : Dim) : List (Dim × (Dim → Rat)) → K
  | [] => 1
  | (bd, proj) :: r => if proj d = 0 then scaleOver sc d r else RPow.rpow (sc bd) (proj d) * scaleOver sc d r

variable (P : K → Prop) (laws : RPowLaws (RPow.rpow (K := K)) P)

/-- `ExprOK` with the full scale `s = coefficient × denoted scale` made explicit -/
def DenS (pre : Prefixes K) (t : Lut K) (e : UExpr K) (s : K) (d : Dim) : Prop :=
  AllPos P pre t e.factors ∧ P e.coeff ∧ ∃ v, denoteF pre t e.factors = some (v, d) ∧ P v ∧ e.coeff * v = s

include laws

theorem denS_of_exprOK (pre : Prefixes K) (t : Lut K) (e : UExpr K) (d : Dim) (h : ExprOK P pre t e d) :
    ∃ s, DenS P pre t e s d ∧ denote pre t e = some (s, d) := by
  obtain ⟨hp, hc, v, hv⟩ := h
  obtain ⟨v', d', hv', hpv⟩ := denoteF_pos P laws pre t e.factors hp
  rw [hv] at hv'; cases hv'
  exact ⟨e.coeff * v, ⟨hp, hc, v, hv, hpv, rfl⟩, by simp only [denote, hv]⟩

theorem denS_pos (pre : Prefixes K) (t : Lut K) (e : UExpr K) (s : K) (d : Dim) (h : DenS P pre t e s d) : P s := by
  obtain ⟨_, hc, v, _, hpv, hs⟩ := h
  rw [← hs]; exact laws.pos_mul hc hpv

theorem denS_one (pre : Prefixes K) (t : Lut K) : DenS P pre t (UExpr.one : UExpr K) 1 Dim.one :=
  ⟨allPos_nil P pre t, laws.pos_one, 1, rfl, laws.pos_one, by simp only [UExpr.one]; grind⟩

theorem denS_mul (pre : Prefixes K) (t : Lut K) (a b : UExpr K) (sa sb : K) (da db : Dim)
    (ha : DenS P pre t a sa da) (hb : DenS P pre t b sb db) : DenS P pre t (a.mul b) (sa * sb) (da * db) := by
  obtain ⟨pa, ca, va, hva, hpa, hsa⟩ := ha
  obtain ⟨pb, cb, vb, hvb, hpb, hsb⟩ := hb
  refine ⟨allPos_append P pre t _ _ pa pb, laws.pos_mul ca cb, va * vb, ?_, laws.pos_mul hpa hpb, ?_⟩
  · simp only [UExpr.mul, denoteF_append, hva, hvb]
  · simp only [UExpr.mul]; rw [← hsa, ← hsb]; grind

theorem denS_powE (pre : Prefixes K) (t : Lut K) (e : UExpr K) (s : K) (bd : Dim) (q : Rat)
    (h : DenS P pre t e s bd) : DenS P pre t (powE e q) (RPow.rpow s q) (bd.pow q) := by
  have hs := denS_pos P laws pre t e s bd h
  obtain ⟨pe, ce, v, hv, hpv, hsv⟩ := h
  simp only [powE]
  split
  · rename_i hq; subst hq
    rw [Dim.pow_one, laws.rpow_one hs]
    exact ⟨pe, ce, v, hv, hpv, hsv⟩
  · refine ⟨allPos_scaleF P pre t _ q pe, laws.pos_rpow q ce, RPow.rpow v q, ?_, laws.pos_rpow q hpv, ?_⟩
    · simp only [UExpr.pow, denoteF_scaleF P laws pre t e.factors q pe, hv]
    · simp only [UExpr.pow]; rw [← hsv, laws.mul_rpow q ce hpv]

/-- the synthesised expression denotes the spelled-out scale and dimension -/
theorem synthOver_denS (pre : Prefixes K) (t : Lut K) (m : UMap K) (sc : Dim → K) (d : Dim)
    (L : List (Dim × (Dim → Rat)))
    (h : ∀ p, p ∈ L → p.2 d ≠ 0 → ∃ b, m.get? p.1 = some b ∧ DenS P pre t b (sc p.1) p.1) :
    DenS P pre t (synthOver m d L) (scaleOver sc d L) (dimOver d L) := by
  induction L with
  | nil => exact denS_one P laws pre t
  | cons p r ih =>
    obtain ⟨bd, proj⟩ := p
    have ih' := ih (fun p hp => h p (List.mem_cons_of_mem _ hp))
    simp only [synthOver, dimOver, scaleOver]
    split
    · rename_i h0
      rw [h0, Dim.pow_zero, Dim.one_mul']; exact ih'
    · rename_i h0
      obtain ⟨b, hb, hok⟩ := h (bd, proj) (List.mem_cons_self ..) h0
      have : baseOf m bd = b := by simp [baseOf, hb]
      rw [this]
      exact denS_mul P laws pre t _ _ _ _ _ _ (denS_powE P laws pre t b _ bd (proj d) hok) ih'

variable [BEq K] [LawfulBEq K]

/-- `Unit(expr)`: the scale is coefficient × denoted scale -/
theorem mkUnit_scale (pre : Prefixes K) (t : Lut K) (e : UExpr K) (u : UnitV K)
    (h : mkUnit pre t e = .ok u) (hpos : AllPos P pre t e.factors) (v : K) (d : Dim)
    (hd : denoteF pre t e.factors = some (v, d)) : u.scale = e.coeff * v := by
  simp only [mkUnit] at h
  split at h
  · rename_i u' t' ho
    cases h
    simp only [UnitV.ofExpr] at ho
    split at ho
    · contradiction
    · rename_i v1 d1 t1 hev
      obtain ⟨hden, hres⟩ := evalFactors_denote pre (normF e.factors) t v1 d1 _ hev
      rw [denoteF_normF P laws pre t e.factors hpos, hd] at hden
      have hvv : v = v1 := by cases hden; rfl
      split at ho
      · rename_i s q hnf
        split at ho
        · rename_i hq1
          split at ho
          · rename_i ent hent
            cases ho
            have hqc : q = 1 ∧ e.coeff = 1 := by
              simp only [Bool.and_eq_true, beq_iff_eq] at hq1; exact hq1
            obtain ⟨hq, hc⟩ := hqc
            subst hq
            have hr : resolve pre t s = some ent := by
              rw [← hres s]; simp only [resolve, lookupUnitSymbol, hent]
            have hd2 := denoteF_normF P laws pre t e.factors hpos
            rw [hnf, hd] at hd2
            simp only [denoteF, hr, Option.some.injEq, Prod.mk.injEq, pw, if_true] at hd2
            rw [hc, ← hd2.1]; grind
          · contradiction
        · cases ho; rw [hvv]
      · cases ho; rw [hvv]
  · contradiction

end synthscale

/-! ### small facts used by the `__init__` and `in_base` theorems -/
section misc
variable {K : Type} [Lean.Grind.Field K] [RPow K] [BEq K] [LawfulBEq K]

theorem validateAll_ok (pre : Prefixes K) (t0 : Lut K) (inv : List (String × String)) (reg : Option (Lut K))
    (m : UMap K) (h : validateAll pre t0 inv reg m = .ok ()) :
    ∀ p, p ∈ m → validateBase pre t0 inv reg p.1 p.2 = .ok () := by
  induction m with
  | nil => intro p hp; cases hp
  | cons q r ih =>
    obtain ⟨bd, u⟩ := q
    simp only [validateAll] at h
    split at h
    · contradiction
    · rename_i hv
      intro p hp
      rcases List.mem_cons.mp hp with rfl | hp
      · exact hv
      · exact ih h p hp

omit [Lean.Grind.Field K] [RPow K] [BEq K] [LawfulBEq K] in
theorem splitCandidate_ne (s p w : String) (h : splitCandidate s = some (p, w)) : p ≠ "" := by
  simp only [splitCandidate] at h
  split at h
  · contradiction
  · split at h
    · simp only [Option.some.injEq, Prod.mk.injEq] at h; rw [← h.1]; decide
    · simp only [Option.some.injEq, Prod.mk.injEq] at h
      rw [← h.1]; intro h2
      have := congrArg String.toList h2
      simp at this

omit [Lean.Grind.Field K] [RPow K] [BEq K] [LawfulBEq K] in
theorem splitPrefix_none (pre : Prefixes K) (t : Lut K) (s : String) (h : (splitPrefix pre t s).1 = "") :
    splitPrefix pre t s = ("", s) := by
  simp only [splitPrefix] at h ⊢
  split
  · rfl
  · rename_i p w hc
    have hp := splitCandidate_ne s p w hc
    simp only [hc] at h
    split
    · rfl
    · rename_i pv hpv
      simp only [hpv] at h
      split
      · rename_i e he
        simp only [he] at h
        split
        · rename_i hpre; simp only [hpre, if_true] at h; exact absurd h hp
        · rfl
      · rfl

omit [Lean.Grind.Field K] [RPow K] [BEq K] [LawfulBEq K] in
theorem UMap.find?_mem (m : UMap K) (d : Dim) (v : Option (UExpr K)) (h : m.find? d = some v) : (d, v) ∈ m := by
  induction m with
  | nil => simp [UMap.find?] at h
  | cons p r ih =>
    obtain ⟨d', v'⟩ := p
    simp only [UMap.find?] at h
    split at h
    · rename_i hd; subst hd; cases h; exact List.mem_cons_self ..
    · exact List.mem_cons_of_mem _ (ih h)

omit [Lean.Grind.Field K] [RPow K] [BEq K] [LawfulBEq K] in
theorem UMap.find?_of_key (m : UMap K) (d : Dim) (h : d ∈ m.map (·.1)) : ∃ v, m.find? d = some v := by
  induction m with
  | nil => simp at h
  | cons p r ih =>
    obtain ⟨d', v'⟩ := p
    simp only [UMap.find?]
    by_cases hd : d' = d
    · exact ⟨v', by simp [hd]⟩
    · simp only [hd, if_false]
      simp only [List.map_cons, List.mem_cons] at h
      rcases h with h | h
      · exact absurd h.symm hd
      · exact ih h

variable (pre : Prefixes K) (t : Lut K)

theorem getConversionFactor_dim (u v : UnitV K) (f : K × Option K)
    (h : getConversionFactor pre t u v = .ok f) : u.dim = v.dim := by
  simp only [getConversionFactor] at h
  split at h
  · contradiction
  · rename_i hd; simpa using hd


end misc
end Unyt
