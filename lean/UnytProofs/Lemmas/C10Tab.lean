/-
  Helper lemmas for the C10 table obligations: a Boolean `all` over the atomic rows follows from
  the three chunks that are decided in separate modules.
-/
import UnytModel.SystemTables

namespace Unyt

theorem all_of_chunks {α : Type} (l : List α) (f : α → Bool)
    (h0 : (l.take 50).all f = true) (h1 : ((l.drop 50).take 50).all f = true)
    (h2 : (l.drop 100).all f = true) : l.all f = true := by
  have e1 : l = l.take 50 ++ l.drop 50 := (List.take_append_drop 50 l).symm
  have e2 : l.drop 50 = (l.drop 50).take 50 ++ (l.drop 50).drop 50 := (List.take_append_drop 50 _).symm
  have e3 : (l.drop 50).drop 50 = l.drop 100 := by rw [List.drop_drop]
  rw [e1, List.all_append, e2, List.all_append, e3, h0, h1, h2]; rfl

theorem systemClosedAtomic_of_chunks (sys : String) (excl : List (String × String))
    (h0 : systemClosedAtomicChunk sys excl 0 = true) (h1 : systemClosedAtomicChunk sys excl 1 = true)
    (h2 : systemClosedAtomicChunk sys excl 2 = true) : systemClosedAtomic sys excl = true := by
  unfold systemClosedAtomicChunk at h0 h1 h2
  unfold systemClosedAtomic
  cases hr : rawSystem? sys with
  | none => simp [hr] at h0
  | some r =>
    simp only [hr] at h0 h1 h2 ⊢
    exact all_of_chunks atomicNames _ h0 h1 h2

theorem Lut.find?_mem {K : Type} (t : Lut K) (k : String) (e : Entry K) (h : t.find? k = some e) :
    ∃ e', (k, e') ∈ t := by
  induction t with
  | nil => simp [Lut.find?] at h
  | cons p r ih =>
    obtain ⟨k', e'⟩ := p
    simp only [Lut.find?] at h
    split at h
    · rename_i hk; subst hk; exact ⟨e', List.mem_cons_self ..⟩
    · obtain ⟨e'', he⟩ := ih h; exact ⟨e'', List.mem_cons_of_mem _ he⟩

theorem all_of_chunks4 {α : Type} (l : List α) (f : α → Bool)
    (h0 : ((l.drop 0).take 40).all f = true) (h1 : ((l.drop 40).take 40).all f = true)
    (h2 : ((l.drop 80).take 40).all f = true) (h3 : ((l.drop 120).take l.length).all f = true) :
    l.all f = true := by
  have e3 : (l.drop 120).take l.length = l.drop 120 := by
    apply List.take_of_length_le; simp
  rw [e3] at h3
  rw [List.drop_zero] at h0
  have a1 : l = l.take 40 ++ l.drop 40 := (List.take_append_drop 40 l).symm
  have a2 : l.drop 40 = (l.drop 40).take 40 ++ (l.drop 40).drop 40 := (List.take_append_drop 40 _).symm
  have a3 : (l.drop 40).drop 40 = l.drop 80 := by rw [List.drop_drop]
  have a4 : l.drop 80 = (l.drop 80).take 40 ++ (l.drop 80).drop 40 := (List.take_append_drop 40 _).symm
  have a5 : (l.drop 80).drop 40 = l.drop 120 := by rw [List.drop_drop]
  rw [a1, List.all_append, a2, List.all_append, a3, a4, List.all_append, a5, h0, h1, h2, h3]; rfl

end Unyt
