/-
  Helper lemmas for the C10 table obligations: a Boolean `all` over the atomic rows follows from
  the three chunks that are decided in separate modules.
-/
import UnytModel.SystemTables

namespace Unyt

theorem all_of_chunks {α : Type} (l : List α) (f : α → Bool)
    (h0 : (l.take 50).all f = true) (h1 : ((l.drop 50).take 50).all f = true)
    (h2 : (l.drop 100).all f = true) : l.all f = true := by
  have e1 : l = l.take 50 ++ l.drop 50 := (List.take_append_drop 50 l).symm
  have e2 : l.drop 50 = (l.drop 50).take 50 ++ (l.drop 50).drop 50 := (List.take_append_drop 50 _).symm
  have e3 : (l.drop 50).drop 50 = l.drop 100 := by rw [List.drop_drop]
  rw [e1, List.all_append, e2, List.all_append, e3, h0, h1, h2]; rfl

theorem systemClosedAtomic_of_chunks (sys : String) (excl : List (String × String))
    (h0 : systemClosedAtomicChunk sys excl 0 = true) (h1 : systemClosedAtomicChunk sys excl 1 = true)
    (h2 : systemClosedAtomicChunk sys excl 2 = true) : systemClosedAtomic sys excl = true := by
  unfold systemClosedAtomicChunk at h0 h1 h2
  unfold systemClosedAtomic
  cases hr : rawSystem? sys with
  | none => simp [hr] at h0
  | some r =>
    simp only [hr] at h0 h1 h2 ⊢
    exact all_of_chunks atomicNames _ h0 h1 h2

end Unyt
