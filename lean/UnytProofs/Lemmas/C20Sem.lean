/-
  Helper lemmas for C20 (no property statements here): what the evaluator `evalP` makes of the
  syntax tree of a printed layout — whenever it answers, it answers the layout's meaning.
-/
import UnytModel.PrintSyntax
import UnytProofs.Lemmas.C20
import UnytProofs.Lemmas.C20Syntax

namespace Unyt.C20M
open Unyt Parse Print UExpr

/-- "if the evaluation answers, it answers a monomial equivalent to `spec`" -/
def Sem (r : Except PErr Val) (spec : UExpr Rat) : Prop :=
  ∀ v, r = .ok v → ∃ x, v = .mono x ∧ x.Equiv spec

/-- "if the evaluation answers, it answers exactly the number `q`" -/
def NumSem (r : Except PErr Val) (q : Rat) : Prop :=
  ∀ v, r = .ok v → v = .mono ⟨q, []⟩

theorem bind_ok {α β : Type} {r : Except PErr α} {f : α → Except PErr β} {v : β}
    (h : (r >>= f) = .ok v) : ∃ x, r = .ok x ∧ f x = .ok v := by
  cases r with
  | error e => cases h
  | ok x => exact ⟨x, rfl, h⟩

theorem normF_nil : normF ([] : Factors) = [] := rfl

theorem mkMono_ok {c : Rat} {f : Factors} {v : Val} (h : mkMono c f = .ok v) (hc : c ≠ 0) :
    v = .mono ⟨c, normF f⟩ := by
  unfold mkMono at h
  by_cases h1 : (!okRat c) = true
  · simp only [h1, if_true] at h; cases h
  · simp only [h1, hc, if_false] at h
    by_cases h2 : okFactors (normF f) = true
    · simp only [h2, if_true] at h; cases h; rfl
    · simp only [h2, if_false] at h; cases h

theorem mkMono_num_ok {c : Rat} {v : Val} (h : mkMono c [] = .ok v) : v = .mono ⟨c, []⟩ := by
  by_cases hc : c = 0
  · unfold mkMono at h
    by_cases h1 : (!okRat c) = true
    · simp only [h1, if_true] at h; cases h
    · simp only [h1, hc, if_true, if_false] at h; cases h; rw [hc]
  · exact mkMono_ok h hc

theorem equiv_refl (x : UExpr Rat) : x.Equiv x := ⟨rfl, fun _ => rfl⟩

theorem equiv_trans {x y z : UExpr Rat} (h1 : x.Equiv y) (h2 : y.Equiv z) : x.Equiv z :=
  ⟨h1.1.trans h2.1, fun s => (h1.2 s).trans (h2.2 s)⟩

theorem equiv_normF (c : Rat) (f : Factors) : (⟨c, normF f⟩ : UExpr Rat).Equiv ⟨c, f⟩ :=
  ⟨rfl, fun s => expOf_normF f s⟩

/-- product of answered monomials -/
theorem vMul_sem {x y sx sy : UExpr Rat} {v : Val} (hx : x.Equiv sx) (hy : y.Equiv sy)
    (hnz : sx.coeff * sy.coeff ≠ 0) (h : vMul (.mono x) (.mono y) = .ok v) :
    ∃ z, v = .mono z ∧ z.Equiv (sx.mul sy) := by
  simp only [vMul] at h
  have hc : x.coeff * y.coeff ≠ 0 := by rw [hx.1, hy.1]; exact hnz
  refine ⟨_, mkMono_ok h hc, ?_⟩
  refine ⟨by simp only [UExpr.mul, hx.1, hy.1], fun s => ?_⟩
  simp only [UExpr.mul, expOf_normF, expOf_append, hx.2 s, hy.2 s]

theorem vInv_sem {y sy : UExpr Rat} {v : Val} (hy : y.Equiv sy) (hnz : sy.coeff ≠ 0)
    (h : vInv (.mono y) = .ok v) : ∃ z, v = .mono z ∧ z.Equiv ⟨1 / sy.coeff, negF sy.factors⟩ := by
  simp only [vInv] at h
  have hc : y.coeff ≠ 0 := by rw [hy.1]; exact hnz
  simp only [hc, if_false] at h
  have hi : (1 : Rat) / y.coeff ≠ 0 := by
    intro h0
    have : (1 : Rat) / y.coeff * y.coeff = 1 := Rat.div_mul_cancel hc
    rw [h0, Rat.zero_mul] at this
    exact absurd this (by decide)
  refine ⟨_, mkMono_ok h hi, ?_⟩
  refine ⟨by simp only [hy.1], fun s => ?_⟩
  simp only [expOf_normF, expOf_negF, hy.2 s]

theorem vDiv_sem {x y sx sy : UExpr Rat} {v : Val} (hx : x.Equiv sx) (hy : y.Equiv sy)
    (hnx : sx.coeff ≠ 0) (hny : sy.coeff ≠ 0) (h : vDiv (.mono x) (.mono y) = .ok v) :
    ∃ z, v = .mono z ∧ z.Equiv ⟨sx.coeff / sy.coeff, sx.factors ++ negF sy.factors⟩ := by
  simp only [vDiv] at h
  obtain ⟨ib, h1, h2⟩ := bind_ok h
  obtain ⟨z, rfl, hz⟩ := vInv_sem hy hny h1
  have hi : (1 : Rat) / sy.coeff ≠ 0 := by
    intro h0
    have : (1 : Rat) / sy.coeff * sy.coeff = 1 := Rat.div_mul_cancel hny
    rw [h0, Rat.zero_mul] at this
    exact absurd this (by decide)
  have hnz : sx.coeff * (⟨1 / sy.coeff, negF sy.factors⟩ : UExpr Rat).coeff ≠ 0 := by
    simp only []
    intro h0
    rcases Rat.mul_eq_zero.mp h0 with h | h
    · exact hnx h
    · exact hi h
  obtain ⟨w, rfl, hw⟩ := vMul_sem hx hz hnz h2
  refine ⟨w, rfl, equiv_trans hw ⟨?_, fun s => rfl⟩⟩
  simp only [UExpr.mul, Rat.div_def, Rat.one_mul]

theorem vNeg_sem {x sx : UExpr Rat} {v : Val} (hx : x.Equiv sx) (hnz : sx.coeff ≠ 0)
    (h : vNeg (.mono x) = .ok v) : ∃ z, v = .mono z ∧ z.Equiv ⟨-sx.coeff, sx.factors⟩ := by
  simp only [vNeg] at h
  have hc : -x.coeff ≠ 0 := by
    rw [hx.1]; intro h0; exact hnz (by have := congrArg (fun t => -t) h0; simpa using this)
  refine ⟨_, mkMono_ok h hc, ⟨by simp only [hx.1], fun s => ?_⟩⟩
  simp only [expOf_normF, hx.2 s]

end Unyt.C20M

namespace Unyt.C20M
open Unyt Parse Print UExpr

/-- an ordinary unit symbol: not `sqrt`, not a class of `global_dict`, and a fixed point of the
    name table — the NAME token `s` evaluates to the symbol `s` -/
def Ordinary (s : String) : Prop := vName s.toList = .mono ⟨1, [(s, 1)]⟩

theorem numValue_zero_exp (n : Nat) : numValue n 0 = guardRat ((((n : Nat) : Int) : Rat)) := by
  unfold numValue
  have h1 : ¬ ((0 : Int).natAbs ≥ 10 ^ 8) := by decide
  have h2 : ¬ ((0 : Int).natAbs > 2000) := by decide
  have h3 : (0 : Int) ≥ 0 := by decide
  simp only [h1, h2, h3, if_false, if_true, Int.toNat_zero, Nat.pow_zero, Nat.mul_one]

theorem numValue_int_ok {n : Nat} {q : Rat} (h : numValue n 0 = .ok q) : q = (((n : Nat) : Int) : Rat) := by
  rw [numValue_zero_exp] at h
  unfold guardRat at h
  by_cases hk : okRat (((n : Nat) : Int) : Rat) = true
  · simp only [hk, if_true] at h; cases h; rfl
  · simp only [hk] at h; cases h

theorem evalP_num_sem (n : Nat) : NumSem (evalP (.num n 0)) (((n : Nat) : Int) : Rat) := by
  intro v h
  simp only [evalP] at h
  obtain ⟨q, h1, h2⟩ := bind_ok h
  cases h2
  rw [numValue_int_ok h1]

theorem evalP_neg_num_sem (n : Nat) : NumSem (evalP (.neg (.num n 0))) (-(((n : Nat) : Int) : Rat)) := by
  intro v h
  simp only [evalP] at h
  obtain ⟨x, h1, h2⟩ := bind_ok h
  rw [evalP_num_sem n x h1] at h2
  simp only [vNeg] at h2
  exact mkMono_num_ok h2

/-- `p`, `-p`, `p/q`, `-p/q` evaluate to the rational they spell -/
theorem evalP_ratSyn_sem (q : Rat) : NumSem (evalP (ratSyn q)) q := by
  intro v h
  have habs := C20L.nonneg_num_div_den (absQ q) (C20L.absQ_nonneg q)
  have hden : (absQ q).den = q.den := by unfold absQ; split <;> simp
  have hnum : (absQ q).num.natAbs = q.num.natAbs := by unfold absQ; split <;> simp
  rw [hden, hnum] at habs
  have hq : (if q < 0 then (-1 : Rat) else 1) * ((((q.num.natAbs : Nat) : Int) : Rat) / (((q.den : Nat) : Int) : Rat)) = q := by
    rw [habs]; exact C20L.sign_mul_absQ q
  have hd0 : (((q.den : Nat) : Int) : Rat) ≠ 0 := by
    simp only [Rat.intCast_natCast, ne_eq, Rat.natCast_eq_zero_iff]; exact q.den_nz
  have hD1 : (((1 : Nat) : Int) : Rat) = 1 := rfl
  unfold ratSyn at h
  generalize hN : (((q.num.natAbs : Nat) : Int) : Rat) = N at hq
  generalize hD : (((q.den : Nat) : Int) : Rat) = D at hq hd0
  by_cases hneg : q < 0 <;> by_cases hd : q.den = 1
  · simp only [hneg, hd, if_true] at h
    rw [evalP_neg_num_sem _ v h, hN]
    have : D = 1 := by rw [← hD, hd, hD1]
    simp only [hneg, if_true, this] at hq
    congr 2; rw [← hq]; grind
  · simp only [hneg, hd, if_true, if_false, evalP] at h
    obtain ⟨x, h1, h2⟩ := bind_ok h
    obtain ⟨y, h3, h4⟩ := bind_ok h2
    have hx := evalP_neg_num_sem q.num.natAbs x (by simpa [evalP] using h1)
    rw [hx, evalP_num_sem q.den y h3, hN, hD] at h4
    simp only [vDiv, vInv, hd0, if_false] at h4
    obtain ⟨ib, h5, h6⟩ := bind_ok h4
    have h5' : mkMono (1 / D) [] = .ok ib := by simpa [negF] using h5
    rw [mkMono_num_ok h5'] at h6
    simp only [vMul, List.append_nil] at h6
    rw [mkMono_num_ok h6]
    simp only [hneg, if_true] at hq
    congr 2; rw [← hq]; grind
  · simp only [hneg, hd, if_true, if_false] at h
    rw [evalP_num_sem _ v h, hN]
    have : D = 1 := by rw [← hD, hd, hD1]
    simp only [hneg, if_false, this] at hq
    congr 2; rw [← hq]; grind
  · simp only [hneg, hd, if_false, evalP] at h
    obtain ⟨x, h1, h2⟩ := bind_ok h
    obtain ⟨y, h3, h4⟩ := bind_ok h2
    have hx := evalP_num_sem q.num.natAbs x (by simpa [evalP] using h1)
    rw [hx, evalP_num_sem q.den y h3, hN, hD] at h4
    simp only [vDiv, vInv, hd0, if_false] at h4
    obtain ⟨ib, h5, h6⟩ := bind_ok h4
    have h5' : mkMono (1 / D) [] = .ok ib := by simpa [negF] using h5
    rw [mkMono_num_ok h5'] at h6
    simp only [vMul, List.append_nil] at h6
    rw [mkMono_num_ok h6]
    simp only [hneg, if_false] at hq
    congr 2; rw [← hq]; grind

end Unyt.C20M

namespace Unyt.C20M
open Unyt Parse Print UExpr

theorem ratRoot_one {k : Nat} {r : Rat} (hk : k ≠ 0) (h : ratRoot 1 k = some r) : r = 1 := by
  unfold ratRoot at h
  have hn : (1 : Rat).num.natAbs = 1 := rfl
  have hd : (1 : Rat).den = 1 := rfl
  simp only [hn, hd] at h
  by_cases hb : k > bitLimit
  · simp only [hb, if_true, decide_true, Bool.and_self] at h
    cases h; rfl
  · simp only [hb, if_false] at h
    by_cases hp : (iroot 1 k ^ k = 1 && iroot 1 k ^ k = 1) = true
    · simp only [hp, if_true] at h
      have h1 : iroot 1 k ^ k = 1 := by simpa using hp
      have h2 : iroot 1 k = 1 := by
        rcases Nat.pow_eq_one.mp h1 with h | h
        · exact h
        · exact absurd h hk
      rw [h2] at h
      cases h; decide +kernel
    · simp only [hp] at h; cases h

theorem numPowInt_one (n : Int) : numPowInt 1 n = .ok 1 := by
  unfold numPowInt
  by_cases h : n = 0
  · simp [h]
  · simp only [h, if_false]
    have h10 : ¬ ((1 : Rat) = 0) := by decide
    simp only [h10, if_false, if_true]

/-- a symbol to a rational power -/
theorem vPow_sym_sem (s : String) (e : Rat) (v : Val)
    (h : vPow (.mono ⟨1, [(s, 1)]⟩) (.mono ⟨e, []⟩) = .ok v) :
    ∃ z, v = .mono z ∧ z.Equiv ⟨1, [(s, e)]⟩ := by
  have h10 : ¬ ((1 : Rat) = 0) := by decide
  have h1p : (1 : Rat) > 0 := by decide
  have key : ∀ v, mkMono 1 (scaleF [(s, 1)] e) = .ok v → ∃ z, v = .mono z ∧ z.Equiv ⟨1, [(s, e)]⟩ := by
    intro v hv
    refine ⟨_, mkMono_ok hv h10, rfl, fun t => ?_⟩
    simp only [expOf_normF, expOf_scaleF, expOf_cons, expOf_nil]
    grind
  simp only [vPow, List.isEmpty_nil, Bool.not_true, Bool.false_eq_true, if_false] at h
  by_cases he : e = 0
  · simp only [he, if_true] at h
    cases h
    refine ⟨_, rfl, rfl, fun t => ?_⟩
    simp only [he, expOf_cons, expOf_nil]; grind
  · simp only [he, h10, if_false] at h
    by_cases hd : e.den = 1
    · simp only [hd, if_true, numPowInt_one] at h
      exact key v h
    · simp only [hd, h1p, if_false, if_true] at h
      cases hr : ratRoot 1 e.den with
      | none => rw [hr] at h; cases h
      | some r =>
        rw [hr] at h
        rw [ratRoot_one e.den_nz hr] at h
        simp only [numPowInt_one] at h
        exact key v h

end Unyt.C20M

namespace Unyt.C20M
open Unyt Parse Print UExpr

theorem sem_congr {r : Except PErr Val} {s s' : UExpr Rat} (h : Sem r s) (he : s.Equiv s') : Sem r s' := by
  intro v hv
  obtain ⟨x, hx, hxe⟩ := h v hv
  exact ⟨x, hx, equiv_trans hxe he⟩

theorem numSem_sem {r : Except PErr Val} {q : Rat} (h : NumSem r q) : Sem r ⟨q, []⟩ := by
  intro v hv
  exact ⟨_, h v hv, equiv_refl _⟩

/-- what a printed factor must satisfy for its evaluation to be predictable: literals are not
    zero, names are ordinary unit symbols -/
def ItemOK : Item → Prop
  | .lit n => n ≠ 0
  | .sym s => Ordinary s
  | .sqrt s => Ordinary s
  | .pow s _ => Ordinary s

theorem sqrt_is_fn : vName "sqrt".toList = .fn := by
  have h : globalFns.contains ("sqrt".toList.map Char.toNat) = true := by decide +kernel
  have h0 : ("sqrt".toList.map Char.toNat == [0]) = false := by decide +kernel
  unfold vName
  simp only [h, h0, if_true, Bool.false_eq_true, if_false]

theorem evalP_expSyn_sem (e : Rat) : NumSem (evalP (expSyn e)) e := by
  unfold expSyn
  by_cases hb : (e.den = 1 && e ≥ 0) = true
  · simp only [hb, if_true]
    have hb' : e.den = 1 ∧ 0 ≤ e := by simpa using hb
    have h1 : e.den = 1 := hb'.1
    have h2 : 0 ≤ e := hb'.2
    have := C20L.nonneg_num_div_den e h2
    rw [h1] at this
    have hD1 : (((1 : Nat) : Int) : Rat) = 1 := rfl
    rw [hD1] at this
    intro v hv
    rw [evalP_num_sem _ v hv]
    congr 2
    rw [← this]; grind
  · simp only [hb]
    exact evalP_ratSyn_sem e

theorem evalP_name_ok {s : String} (h : Ordinary s) : evalP (.name s.toList) = .ok (.mono ⟨1, [(s, 1)]⟩) := by
  simp only [evalP]
  by_cases h0 : (s.toList.map Char.toNat == [0]) = true
  · exfalso
    unfold Ordinary vName at h
    simp only [h0, if_true] at h
    cases h
  · by_cases h1 : globalTypes.contains (s.toList.map Char.toNat) = true
    · exfalso
      unfold Ordinary vName at h
      simp only [h0, h1, if_true] at h
      by_cases h2 : globalFns.contains (s.toList.map Char.toNat) = true
      · simp only [h2, if_true] at h; cases h
      · simp only [h2] at h; cases h
    · simp only [h0, h1]; rw [h]; rfl

theorem evalP_item_sem (it : Item) (h : ItemOK it) : Sem (evalP (itemSyn it)) (evalItem it) := by
  cases it with
  | lit n => exact numSem_sem (evalP_num_sem n)
  | sym s =>
    intro v hv
    rw [itemSyn, evalP_name_ok h] at hv
    cases hv
    exact ⟨_, rfl, equiv_refl _⟩
  | sqrt s =>
    intro v hv
    simp only [itemSyn, evalP] at hv
    obtain ⟨x, h1, h2⟩ := bind_ok hv
    obtain ⟨y, h3, h4⟩ := bind_ok h2
    cases h1
    rw [sqrt_is_fn] at h4
    have hy : y = .mono ⟨1, [(s, 1)]⟩ := by
      have := evalP_name_ok h
      simp only [evalP] at this
      rw [this] at h3; cases h3; rfl
    rw [hy] at h4
    simp only [vCall] at h4
    exact vPow_sym_sem s ((1 : Rat) / 2) v h4
  | pow s e =>
    intro v hv
    simp only [itemSyn, evalP] at hv
    obtain ⟨x, h1, h2⟩ := bind_ok hv
    obtain ⟨y, h3, h4⟩ := bind_ok h2
    have hx : x = .mono ⟨1, [(s, 1)]⟩ := by
      have := evalP_name_ok h
      simp only [evalP] at this
      rw [this] at h1; cases h1; rfl
    rw [hx, evalP_expSyn_sem e y h3] at h4
    exact vPow_sym_sem s e v h4

theorem evalItem_coeff_nz (it : Item) (h : ItemOK it) : (evalItem it).coeff ≠ 0 := by
  cases it with
  | lit n =>
    simp only [evalItem, ne_eq, Rat.intCast_natCast, Rat.natCast_eq_zero_iff]
    exact h
  | sym s => simp only [evalItem]; decide
  | sqrt s => simp only [evalItem]; decide
  | pow s e => simp only [evalItem]; decide

theorem rat_mul_ne_zero {a b : Rat} (ha : a ≠ 0) (hb : b ≠ 0) : a * b ≠ 0 := by
  intro h
  rcases Rat.mul_eq_zero.mp h with h | h
  · exact ha h
  · exact hb h

theorem evalItems_coeff_nz (l : List Item) (h : ∀ it ∈ l, ItemOK it) : (evalItems l).coeff ≠ 0 := by
  induction l with
  | nil => simp only [evalItems]; decide
  | cons x r ih =>
    simp only [evalItems, UExpr.mul]
    exact rat_mul_ne_zero (evalItem_coeff_nz x (h x List.mem_cons_self))
      (ih (fun it hi => h it (List.mem_cons_of_mem _ hi)))

/-- evaluation of a product node -/
theorem evalP_mul_sem {a b : PExpr} {sa sb : UExpr Rat} (ha : Sem (evalP a) sa) (hb : Sem (evalP b) sb)
    (hnz : sa.coeff * sb.coeff ≠ 0) : Sem (evalP (.mul a b)) (sa.mul sb) := by
  intro v hv
  simp only [evalP] at hv
  obtain ⟨x, h1, h2⟩ := bind_ok hv
  obtain ⟨y, h3, h4⟩ := bind_ok h2
  obtain ⟨x', rfl, hx⟩ := ha x h1
  obtain ⟨y', rfl, hy⟩ := hb y h3
  exact vMul_sem hx hy hnz h4

theorem evalP_div_sem {a b : PExpr} {sa sb : UExpr Rat} (ha : Sem (evalP a) sa) (hb : Sem (evalP b) sb)
    (hna : sa.coeff ≠ 0) (hnb : sb.coeff ≠ 0) :
    Sem (evalP (.div a b)) ⟨sa.coeff / sb.coeff, sa.factors ++ negF sb.factors⟩ := by
  intro v hv
  simp only [evalP] at hv
  obtain ⟨x, h1, h2⟩ := bind_ok hv
  obtain ⟨y, h3, h4⟩ := bind_ok h2
  obtain ⟨x', rfl, hx⟩ := ha x h1
  obtain ⟨y', rfl, hy⟩ := hb y h3
  exact vDiv_sem hx hy hna hnb h4

theorem evalP_neg_sem {a : PExpr} {sa : UExpr Rat} (ha : Sem (evalP a) sa) (hna : sa.coeff ≠ 0) :
    Sem (evalP (.neg a)) ⟨-sa.coeff, sa.factors⟩ := by
  intro v hv
  simp only [evalP] at hv
  obtain ⟨x, h1, h2⟩ := bind_ok hv
  obtain ⟨x', rfl, hx⟩ := ha x h1
  exact vNeg_sem hx hna h2

/-- a left-nested product of printed factors -/
theorem chain_sem (items : List Item) (lhs : PExpr) (sl : UExpr Rat) (hl : Sem (evalP lhs) sl)
    (hnz : sl.coeff ≠ 0) (hok : ∀ it ∈ items, ItemOK it) :
    Sem (evalP (chainSyn lhs items)) (sl.mul (evalItems items)) := by
  induction items generalizing lhs sl with
  | nil =>
    refine sem_congr hl ⟨?_, fun t => ?_⟩
    · simp only [evalItems, UExpr.mul, Rat.mul_one]
    · simp only [evalItems, UExpr.mul, List.append_nil]
  | cons x r ih =>
    have hx := hok x List.mem_cons_self
    have hr : ∀ it ∈ r, ItemOK it := fun it hi => hok it (List.mem_cons_of_mem _ hi)
    have hcx := evalItem_coeff_nz x hx
    have h1 : Sem (evalP (.mul lhs (itemSyn x))) (sl.mul (evalItem x)) :=
      evalP_mul_sem hl (evalP_item_sem x hx) (rat_mul_ne_zero hnz hcx)
    have h2 := ih (.mul lhs (itemSyn x)) (sl.mul (evalItem x)) h1
      (by simp only [UExpr.mul]; exact rat_mul_ne_zero hnz hcx) hr
    simp only [chainSyn]
    refine sem_congr h2 ⟨?_, fun t => ?_⟩
    · simp only [evalItems, UExpr.mul, Rat.mul_assoc]
    · simp only [evalItems, UExpr.mul, List.append_assoc]

theorem join_sem (x : Item) (r : List Item) (hok : ∀ it ∈ x :: r, ItemOK it) :
    Sem (evalP (joinSyn (x :: r))) (evalItems (x :: r)) := by
  have hx := hok x List.mem_cons_self
  have hr : ∀ it ∈ r, ItemOK it := fun it hi => hok it (List.mem_cons_of_mem _ hi)
  exact chain_sem r (itemSyn x) (evalItem x) (evalP_item_sem x hx) (evalItem_coeff_nz x hx) hr

end Unyt.C20M

namespace Unyt.C20M
open Unyt Parse Print UExpr C20S

/-- the denominator part: nothing, `/x`, or `/(x*y*…)` -/
theorem den_sem (n : PExpr) (sn : UExpr Rat) (b : List Item) (hn : Sem (evalP n) sn) (hnz : sn.coeff ≠ 0)
    (hok : ∀ it ∈ b, ItemOK it) :
    Sem (evalP (denSyn n b)) ⟨sn.coeff / (evalItems b).coeff, sn.factors ++ negF (evalItems b).factors⟩ := by
  match b, hok with
  | [], _ =>
    refine sem_congr hn ⟨?_, fun t => ?_⟩
    · simp only [evalItems, Rat.div_def]; grind
    · simp only [evalItems, negF, List.map_nil, List.append_nil]
  | [x], hok =>
    have hx := hok x List.mem_cons_self
    have h := evalP_div_sem hn (evalP_item_sem x hx) hnz (evalItem_coeff_nz x hx)
    simp only [denSyn]
    refine sem_congr h ⟨?_, fun t => ?_⟩
    · simp only [evalItems, UExpr.mul, Rat.mul_one]
    · simp only [evalItems, UExpr.mul, List.append_nil]
  | x :: y :: r, hok =>
    have h := evalP_div_sem hn (join_sem x (y :: r) hok) hnz (evalItems_coeff_nz _ hok)
    simp only [denSyn]
    exact h

theorem firstSyn_sem (neg : Bool) (a : List Item) (hok : ∀ it ∈ a, ItemOK it) :
    Sem (evalP (chainSyn (if neg then .neg (firstSyn a) else firstSyn a) a.tail))
      ⟨(if neg then -1 else 1) * (evalItems a).coeff, (evalItems a).factors⟩ := by
  have one_sem : Sem (evalP (.num 1 0)) ⟨1, []⟩ := numSem_sem (evalP_num_sem 1)
  have h1nz : (1 : Rat) ≠ 0 := by decide
  match a, hok with
  | [], _ =>
    simp only [firstSyn, List.tail_nil, chainSyn, evalItems]
    cases neg
    · simp only [Bool.false_eq_true, if_false]
      refine sem_congr one_sem ⟨?_, fun _ => rfl⟩
      simp only [Rat.mul_one]
    · simp only [if_true]
      refine sem_congr (evalP_neg_sem one_sem h1nz) ⟨?_, fun _ => rfl⟩
      simp only [Rat.mul_one]
  | x :: r, hok =>
    have hx := hok x List.mem_cons_self
    have hr : ∀ it ∈ r, ItemOK it := fun it hi => hok it (List.mem_cons_of_mem _ hi)
    have hcx := evalItem_coeff_nz x hx
    simp only [firstSyn, List.tail_cons]
    cases neg
    · simp only [Bool.false_eq_true, if_false]
      refine sem_congr (chain_sem r _ _ (evalP_item_sem x hx) hcx hr) ⟨?_, fun _ => rfl⟩
      simp only [evalItems, UExpr.mul, Rat.one_mul]
    · simp only [if_true]
      have hneg := evalP_neg_sem (evalP_item_sem x hx) hcx
      have hnz : -(evalItem x).coeff ≠ 0 := by
        intro h0; exact hcx (by have := congrArg (fun t => -t) h0; simpa using this)
      refine sem_congr (chain_sem r _ _ hneg hnz hr) ⟨?_, fun _ => rfl⟩
      simp only [evalItems, UExpr.mul]; grind

/-- all printed factors of a layout are predictable -/
def AstOK : Ast → Prop
  | .num _ => True
  | .lone it => ItemOK it
  | .frac _ a b => (∀ it ∈ a, ItemOK it) ∧ (∀ it ∈ b, ItemOK it)

/-- **meaning of the syntax tree of a layout**: whenever the evaluator answers on `syn a`, it
    answers a monomial equivalent to `evalAst a` -/
theorem layout_sem (a : Ast) (h : AstOK a) : Sem (evalP (syn a)) (evalAst a) := by
  cases a with
  | num q => exact numSem_sem (evalP_ratSyn_sem q)
  | lone it => exact evalP_item_sem it h
  | frac neg a b =>
    obtain ⟨ha, hb⟩ := h
    rw [syn_frac]
    have hN := firstSyn_sem neg a ha
    have hna := evalItems_coeff_nz a ha
    have hsnz : (if neg = true then (-1 : Rat) else 1) * (evalItems a).coeff ≠ 0 := by
      cases neg
      · simp only [Bool.false_eq_true, if_false, Rat.one_mul]; exact hna
      · simp only [if_true]; exact rat_mul_ne_zero (by decide) hna
    have hD := den_sem _ _ b hN hsnz hb
    refine sem_congr hD ⟨?_, fun _ => rfl⟩
    simp only [evalAst, Rat.div_def, Rat.mul_assoc]

end Unyt.C20M

namespace Unyt.C20M
open Unyt Parse Print UExpr

theorem toItem_ok (s : String) (q : Rat) (h : Ordinary s) : ItemOK (toItem s q) := by
  unfold toItem
  split
  · exact h
  · split <;> exact h

theorem posItems_ok (f : Factors) (h : ∀ p ∈ f, Ordinary p.1) : ∀ it ∈ posItems f, ItemOK it := by
  induction f with
  | nil => intro it hi; cases hi
  | cons p r ih =>
    obtain ⟨s, q⟩ := p
    have hs : Ordinary s := h (s, q) List.mem_cons_self
    have hr := ih (fun p hp => h p (List.mem_cons_of_mem _ hp))
    intro it hi
    simp only [posItems] at hi
    split at hi
    · rcases List.mem_cons.mp hi with rfl | hi
      · exact toItem_ok s q hs
      · exact hr it hi
    · exact hr it hi

theorem negItems_ok (f : Factors) (h : ∀ p ∈ f, Ordinary p.1) : ∀ it ∈ negItems f, ItemOK it := by
  induction f with
  | nil => intro it hi; cases hi
  | cons p r ih =>
    obtain ⟨s, q⟩ := p
    have hs : Ordinary s := h (s, q) List.mem_cons_self
    have hr := ih (fun p hp => h p (List.mem_cons_of_mem _ hp))
    intro it hi
    simp only [negItems] at hi
    split at hi
    · rcases List.mem_cons.mp hi with rfl | hi
      · exact toItem_ok s (-q) hs
      · exact hr it hi
    · exact hr it hi

theorem litIf_ok (n : Nat) (hn : n ≠ 0) : ∀ it ∈ litIf n, ItemOK it := by
  intro it hi
  unfold litIf at hi
  split at hi
  · cases hi
  · rcases List.mem_cons.mp hi with rfl | hi
    · exact hn
    · cases hi

theorem append_ok {a b : List Item} (ha : ∀ it ∈ a, ItemOK it) (hb : ∀ it ∈ b, ItemOK it) :
    ∀ it ∈ a ++ b, ItemOK it := by
  intro it hi
  rcases List.mem_append.mp hi with h | h
  · exact ha it h
  · exact hb it h

theorem absQ_num_ne_zero (c : Rat) (hc : c ≠ 0) : (absQ c).num.natAbs ≠ 0 := by
  unfold absQ
  split
  · simp only [Rat.neg_num, Int.natAbs_neg, ne_eq, Int.natAbs_eq_zero, Rat.num_eq_zero]; exact hc
  · simp only [ne_eq, Int.natAbs_eq_zero, Rat.num_eq_zero]; exact hc

theorem nil_ok : ∀ it ∈ ([] : List Item), ItemOK it := by intro it hi; cases hi

theorem single_ok (x : Item) (h : ItemOK x) : ∀ it ∈ [x], ItemOK it := by
  intro it hi
  rcases List.mem_cons.mp hi with rfl | hi
  · exact h
  · cases hi

/-- the layout of an expression with a non-zero coefficient over ordinary symbols is predictable -/
theorem printAst_ok (e : UExpr Rat) (hc : e.coeff ≠ 0) (hs : ∀ p ∈ normF e.factors, Ordinary p.1) :
    AstOK (printAst e) := by
  have general : AstOK (.frac (decide (e.coeff < 0))
      (litIf (absQ e.coeff).num.natAbs ++ posItems (normF e.factors))
      (litIf (absQ e.coeff).den ++ negItems (normF e.factors))) :=
    ⟨append_ok (litIf_ok _ (absQ_num_ne_zero _ hc)) (posItems_ok _ hs),
     append_ok (litIf_ok _ (absQ e.coeff).den_nz) (negItems_ok _ hs)⟩
  unfold printAst
  simp only []
  split
  · trivial
  · next s q h =>
    have hso : Ordinary s := by
      have := hs (s, q) (by rw [h]; exact List.mem_cons_self)
      exact this
    split
    · split
      · exact ⟨nil_ok, single_ok _ hso⟩
      · split
        · exact ⟨nil_ok, single_ok _ hso⟩
        · exact toItem_ok s q hso
    · exact general
  · exact general

/-- decidable form of `Ordinary` -/
def isOrdinary (s : String) : Bool :=
  match vName s.toList with
  | .mono x => x.coeff == 1 && x.factors == [(s, 1)]
  | _ => false

theorem ordinary_of_isOrdinary {s : String} (h : isOrdinary s = true) : Ordinary s := by
  unfold isOrdinary at h
  unfold Ordinary
  split at h
  · next x hx =>
    simp only [Bool.and_eq_true, beq_iff_eq] at h
    rw [hx]; cases x; simp_all
  · cases h

end Unyt.C20M

namespace Unyt.C20M
open Unyt Parse

/-- the evaluator answers with a monomial -/
def answersMono (r : Except PErr Val) : Bool :=
  match r with
  | .ok (.mono _) => true
  | _ => false

end Unyt.C20M

namespace Unyt.C20M
open Unyt Parse Print UExpr

theorem numPowInt_neg_one {c r : Rat} (hc : c ≠ 0) (h : numPowInt c (-1) = .ok r) : r = 1 / c := by
  unfold numPowInt at h
  have hn : ¬ ((-1 : Int) = 0) := by decide
  simp only [hn, hc, if_false] at h
  by_cases h1 : c = 1
  · simp only [h1, if_true] at h; cases h; rw [h1]; decide +kernel
  · simp only [h1, if_false] at h
    by_cases h2 : c = -1
    · have hm : ¬ ((-1 : Int) % 2 = 0) := by decide
      simp only [h2, if_true, hm, if_false] at h; cases h; rw [h2]; decide +kernel
    · simp only [h2, if_false] at h
      split at h
      · cases h
      · split at h
        · cases h
        · unfold guardRat at h
          split at h
          · cases h
            have hneg : ¬ ((-1 : Int) ≥ 0) := by decide
            simp only [ratPowInt, hneg, if_false]
            show (1 : Rat) / ratPowNat c 1 = 1 / c
            simp only [ratPowNat, Rat.one_mul]
          · cases h

end Unyt.C20M
