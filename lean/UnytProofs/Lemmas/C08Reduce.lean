/-
  Lemmas for C08 — folds of readings (`UnytModel.TempReduce`).  No property statement here.
-/
import UnytModel.TempReduce
import UnytModel.Ref.C08Reduce
import UnytProofs.Lemmas.C08Seq

set_option linter.unusedSectionVars false

namespace Unyt.Temp

section
variable {K : Type} [Lean.Grind.Field K] [Lean.Grind.IsCharP K 0] [BEq K] [LawfulBEq K]
  [IsClose K] [LawfulIsClose K]

open Unyt.Temp.Ref

theorem difK_foldAdd (u : TU K) (xs : List K) : ∀ a : K, difK u (foldAdd a xs) = difK u a + sumDif u xs := by
  induction xs with
  | nil => intro a; simp only [foldAdd, sumDif]; grind
  | cons x xs ih => intro a; simp only [foldAdd, sumDif, ih, difK_eq]; grind

theorem difK_foldSub (u : TU K) (xs : List K) : ∀ a : K, difK u (foldSub a xs) = difK u a - sumDif u xs := by
  induction xs with
  | nil => intro a; simp only [foldSub, sumDif]; grind
  | cons x xs ih => intro a; simp only [foldSub, sumDif, ih, difK_eq]; grind

/-- a position moved by readings of its own unit: the absolute temperature moves by their size -/
theorem absK_foldAdd (u : TU K) (xs : List K) : ∀ a : K, absK u (foldAdd a xs) = absK u a + sumDif u xs := by
  induction xs with
  | nil => intro a; simp only [foldAdd, sumDif]; grind
  | cons x xs ih => intro a; simp only [foldAdd, sumDif, ih, absK_eq, difK_eq]; grind

end
end Unyt.Temp
