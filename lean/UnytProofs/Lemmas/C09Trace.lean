/-
  C09 helper lemmas (no Mathlib): substitution is composition, a chain without `out=x` never
  changes the input buffer, membership in the enumerations the table checks range over.
-/
import UnytModel.Equivalencies
import UnytModel.Ref.C09

namespace Unyt.Equiv
open Unyt

section
variable {K : Type} [Add K] [Sub K] [Mul K] [Div K] [RPow K] [HasSqrt K] [OfRat K]

/-- evaluating `f.subst g` at input `v` is evaluating `f` at input `g(v)` -/
theorem eval_subst (ρ : String → K) (v : K) (f g : Formula) :
    (f.subst g).eval (withX ρ v) = f.eval (withX ρ (g.eval (withX ρ v))) := by
  induction f with
  | atom a =>
    by_cases h : a = "x"
    · subst h; simp [Formula.subst, Formula.eval, withX]
    · simp [Formula.subst, Formula.eval, withX, h]
  | lit q => simp [Formula.subst, Formula.eval]
  | mul a b iha ihb => simp only [Formula.subst, Formula.eval, iha, ihb]
  | div a b iha ihb => simp only [Formula.subst, Formula.eval, iha, ihb]
  | sub a b iha ihb => simp only [Formula.subst, Formula.eval, iha, ihb]
  | add a b iha ihb => simp only [Formula.subst, Formula.eval, iha, ihb]
  | sqrt a iha => simp only [Formula.subst, Formula.eval, iha]
  | pow a q iha => simp only [Formula.subst, Formula.eval, iha]

end

/-- one recorded call without `out=x` leaves the buffer as it was -/
theorem stepOp_pure (alias : Bool) (s s' : RunState) (op : Op) (hp : op.outBuf = false)
    (h : stepOp alias s op = some s') : s'.buf = s.buf := by
  unfold stepOp at h
  cases ha : resolveArgs alias s op.args with
  | none => simp [ha] at h
  | some args =>
    cases hr : op.fn.apply args with
    | none => simp [ha, hr] at h
    | some r =>
      simp [ha, hr, hp] at h
      subst h
      rfl

/-- a chain none of whose calls has `out=x` leaves the buffer as it was -/
theorem runOps_pure (alias : Bool) (ops : List Op) (s s' : RunState)
    (hp : ops.all (fun op => !op.outBuf) = true) (h : runOps alias s ops = some s') :
    s'.buf = s.buf := by
  induction ops generalizing s with
  | nil => simp [runOps] at h; subst h; rfl
  | cons op rest ih =>
    simp only [List.all_cons, Bool.and_eq_true, Bool.not_eq_true'] at hp
    simp only [runOps] at h
    cases h1 : stepOp alias s op with
    | none => simp [h1] at h
    | some s1 =>
      simp [h1] at h
      have := ih s1 (by simpa using hp.2) h
      rw [this, stepOp_pure alias s s1 op hp.1 h1]

/-- a trace none of whose calls has `out=x`, once run, has left `x` in the buffer -/
theorem Trace.run_pure (alias : Bool) (t : Trace) (r : Formula × Option Formula)
    (hp : t.ops.all (fun op => !op.outBuf) = true) (h : t.run alias = some r) :
    r.1 = Formula.x := by
  unfold Trace.run at h
  cases hs : runOps alias ⟨Formula.x, []⟩ t.ops with
  | none => simp [hs] at h
  | some s =>
    have hb := runOps_pure alias t.ops _ s hp hs
    simp only [hs] at h
    cases hr : t.ret with
    | none => simp [hr] at h; subst h; exact hb
    | some a =>
      simp only [hr] at h
      cases hv : resolveArg alias s a with
      | none => simp [hv] at h
      | some v => simp [hv] at h; subst h; exact hb

/-- the final step of the in-place forms (`convert_to_units`: `values *= factor`, then subtract
    the offset) gives the same reading and label as the final step of the copying forms
    (`in_units`) — any carrier, no arithmetic laws needed -/
theorem convertToUnits_eq_inUnits {K : Type} [Add K] [Sub K] [Mul K] [Div K] [OfNat K 0] [OfNat K 1]
    [BEq K] (pre : Prefixes K) (t : Lut K) (u target : UnitV K) (x : K) :
    convertToUnits pre t (x, u) target = inUnits pre t u x target := by
  simp only [convertToUnits, inUnits]
  cases getConversionFactor pre t u target with
  | error e => rfl
  | ok f =>
    obtain ⟨r, o⟩ := f
    cases o with
    | none => rfl
    | some v => simp only [applyFactor]

/-- which members a list of dimensions has does not depend on its order -/
theorem contains_of_sameDims {a b : List Dim} (h : Ref.C09.sameDims a b = true) (d : Dim) :
    a.contains d = b.contains d := by
  unfold Ref.C09.sameDims at h
  simp only [Bool.and_eq_true, List.all_eq_true] at h
  obtain ⟨⟨hab, hba⟩, _⟩ := h
  by_cases hd : d ∈ a
  · have : d ∈ b := by simpa using hab d hd
    simp [hd, this]
  · have : d ∉ b := fun hb => hd (by simpa using hba d hb)
    simp [hd, this]

theorem mem_orderedPairs {ds : List Dim} {a b : Dim} (ha : a ∈ ds) (hb : b ∈ ds) (hab : a ≠ b) :
    (a, b) ∈ orderedPairs ds := by
  unfold orderedPairs
  simp only [List.mem_flatMap, List.mem_map, List.mem_filter]
  exact ⟨a, ha, b, ⟨hb, by simpa using fun h => hab h.symm⟩, rfl⟩

theorem mem_orderedTriples {ds : List Dim} {a b c : Dim} (ha : a ∈ ds) (hb : b ∈ ds) (hc : c ∈ ds)
    (hab : a ≠ b) (hac : a ≠ c) (hbc : b ≠ c) : (a, b, c) ∈ orderedTriples ds := by
  unfold orderedTriples
  simp only [List.mem_flatMap, List.mem_map, List.mem_filter]
  refine ⟨a, ha, b, ⟨hb, by simpa using fun h => hab h.symm⟩, c, ⟨hc, ?_⟩, rfl⟩
  simp only [Bool.and_eq_true, bne_iff_ne, ne_eq]
  exact ⟨fun h => hac h.symm, fun h => hbc h.symm⟩

end Unyt.Equiv
