/-
  Helper lemmas about the unit table, prefix splitting and the write-back of derived entries.
-/
import UnytModel.Lut

namespace Unyt
variable {K : Type}

theorem Lut.find?_filter_ne (t : Lut K) (k k' : String) :
    Lut.find? (t.filter (fun p => p.1 ≠ k)) k' = if k' = k then none else Lut.find? t k' := by
  induction t with
  | nil => simp [Lut.find?]
  | cons p r ih =>
    obtain ⟨a, e⟩ := p
    by_cases h : a = k
    · subst h
      simp only [List.filter_cons, ne_eq, not_true_eq_false, decide_false]
      simp only [Bool.false_eq_true, if_false, ih, Lut.find?]
      by_cases h2 : k' = a
      · simp [h2]
      · have : ¬ a = k' := fun h => h2 h.symm
        simp [h2, this]
    · have hd : decide (¬ a = k) = true := by simpa using h
      simp only [List.filter_cons, ne_eq, hd, if_true, Lut.find?, ih]
      by_cases h2 : a = k'
      · subst h2; simp [h]
      · simp [h2]

theorem Lut.find?_set (t : Lut K) (k k' : String) (e : Entry K) :
    Lut.find? (t.set k e) k' = if k' = k then some e else Lut.find? t k' := by
  simp only [Lut.set, Lut.find?, Lut.find?_filter_ne]
  by_cases h : k = k'
  · subst h; simp
  · have : ¬ k' = k := fun h' => h h'.symm
    simp [h, this]

theorem Lut.find?_erase (t : Lut K) (k k' : String) :
    Lut.find? (t.erase k) k' = if k' = k then none else Lut.find? t k' :=
  Lut.find?_filter_ne t k k'

/-- what an accepted split is -/
theorem splitPrefix_spec (pre : Prefixes K) (t : Lut K) (s p w : String)
    (h : splitPrefix pre t s = (p, w)) (hp : p ≠ "") :
    splitCandidate s = some (p, w) ∧ (∃ pv, pre.find? p = some pv) ∧
      ∃ e, t.find? w = some e ∧ e.prefixable = true := by
  simp only [splitPrefix] at h
  split at h
  · simp at h; exact (hp h.1).elim
  · rename_i p' w' hc
    split at h
    · simp at h; exact (hp h.1).elim
    · rename_i pv hpv
      split at h
      · rename_i e he
        split at h
        · rename_i hpre
          simp at h; obtain ⟨rfl, rfl⟩ := h
          exact ⟨hc, ⟨pv, hpv⟩, e, he, hpre⟩
        · simp at h; exact (hp h.1).elim
      · simp at h; exact (hp h.1).elim

/-- `_lookup_unit_symbol` on a string that is not itself a table key and splits as `p ++ w` -/
theorem lookup_split [Mul K] (pre : Prefixes K) (t : Lut K) (s p w : String)
    (hn : t.find? s = none) (h : splitPrefix pre t s = (p, w)) (hp : p ≠ "") :
    ∃ pv e, pre.find? p = some pv ∧ t.find? w = some e ∧
      lookupUnitSymbol pre t s =
        .ok ({ scale := e.scale * pv, dim := e.dim, offset := e.offset, prefixable := false },
             t.set s { scale := e.scale * pv, dim := e.dim, offset := e.offset, prefixable := false }) := by
  obtain ⟨_, ⟨pv, hpv⟩, e, he, _⟩ := splitPrefix_spec pre t s p w h hp
  refine ⟨pv, e, hpv, he, ?_⟩
  simp only [lookupUnitSymbol, hn, h, hp, if_false, he, hpv]

/-- a failed look-up leaves no trace; a successful one either hits the table or splits -/
theorem lookup_cases [Mul K] (pre : Prefixes K) (t : Lut K) (s : String) (d : Entry K) (t' : Lut K)
    (h : lookupUnitSymbol pre t s = .ok (d, t')) :
    (t.find? s = some d ∧ t' = t) ∨
    (t.find? s = none ∧ d.prefixable = false ∧ t' = t.set s d) := by
  simp only [lookupUnitSymbol] at h
  split at h
  · rename_i e he; simp at h; obtain ⟨rfl, rfl⟩ := h; exact Or.inl ⟨he, rfl⟩
  · rename_i hn
    split at h
    · contradiction
    · split at h
      · simp at h; obtain ⟨rfl, rfl⟩ := h; exact Or.inr ⟨hn, rfl, rfl⟩
      · contradiction

/-- the write-back of a derived entry does not change how any string splits -/
theorem splitPrefix_set_derived (pre : Prefixes K) (t : Lut K) (s : String) (d : Entry K)
    (hn : t.find? s = none) (hd : d.prefixable = false) (k : String) :
    splitPrefix pre (t.set s d) k = splitPrefix pre t k := by
  simp only [splitPrefix]
  split
  · rfl
  · rename_i p w hc
    split
    · rfl
    · simp only [Lut.find?_set]
      by_cases hw : w = s
      · subst hw; simp [hn, hd]
      · simp [hw]

/-- the write-back of a derived entry does not change what any string resolves to -/
theorem resolve_set_derived [Mul K] (pre : Prefixes K) (t : Lut K) (s : String) (d : Entry K) (t' : Lut K)
    (h : lookupUnitSymbol pre t s = .ok (d, t')) (k : String) :
    resolve pre t' k = resolve pre t k := by
  rcases lookup_cases pre t s d t' h with ⟨_, rfl⟩ | ⟨hn, hd, rfl⟩
  · rfl
  · by_cases hk : k = s
    · subst hk
      have : resolve pre t k = some d := by simp only [resolve, h]
      rw [this]
      simp only [resolve, lookupUnitSymbol, Lut.find?_set, if_true]
    · simp only [resolve, lookupUnitSymbol, Lut.find?_set, hk, if_false,
        splitPrefix_set_derived pre t s d hn hd k]
      cases hf : t.find? k with
      | some e => rfl
      | none =>
        simp only []
        by_cases hp : (splitPrefix pre t k).1 = ""
        · simp [hp]
        · simp only [hp, if_false]
          by_cases hw : (splitPrefix pre t k).2 = s
          · obtain ⟨_, _, e, he, _⟩ := splitPrefix_spec pre t k (splitPrefix pre t k).1 (splitPrefix pre t k).2 rfl hp
            rw [hw, hn] at he; contradiction
          · simp only [hw, if_false]
            cases t.find? (splitPrefix pre t k).2 <;> cases pre.find? (splitPrefix pre t k).1 <;> rfl

end Unyt
