/-
  Helper lemmas for C14: the kernel-decided slices and chunks assembled, and what the per-name
  Boolean check says when unfolded.
-/
import UnytModel.C14Check
import UnytProofs.Lemmas.C14
import UnytProofs.Lemmas.C14Chunk00
import UnytProofs.Lemmas.C14Chunk01
import UnytProofs.Lemmas.C14Chunk02
import UnytProofs.Lemmas.C14Chunk03
import UnytProofs.Lemmas.C14Chunk04
import UnytProofs.Lemmas.C14Chunk05
import UnytProofs.Lemmas.C14Chunk06
import UnytProofs.Lemmas.C14Chunk07
import UnytProofs.Lemmas.C14Chunk08
import UnytProofs.Lemmas.C14Chunk09
import UnytProofs.Lemmas.C14Chunk10
import UnytProofs.Lemmas.C14Chunk11
import UnytProofs.Lemmas.C14Chunk12
import UnytProofs.Lemmas.C14Chunk13
import UnytProofs.Lemmas.C14Chunk14
import UnytProofs.Lemmas.C14Chunk15

namespace Unyt.C14
open Unyt Unyt.Names Unyt.Generated.C14

theorem all_of_slices4 {α : Type} (l : List α) (f : α → Bool) (n : Nat) (hl : l.length ≤ 4 * n)
    (h0 : (sliceOf l 0 n).all f = true) (h1 : (sliceOf l 1 n).all f = true)
    (h2 : (sliceOf l 2 n).all f = true) (h3 : (sliceOf l 3 n).all f = true) : l.all f = true := by
  have e : l = l.take n ++ ((l.drop n).take n ++ (((l.drop n).drop n).take n ++
      ((((l.drop n).drop n).drop n).take n ++ (((l.drop n).drop n).drop n).drop n))) := by
    simp only [List.take_append_drop]
  have hnil : (((l.drop n).drop n).drop n).drop n = [] := by
    simp only [List.drop_drop]; exact List.drop_eq_nil_of_le (by omega)
  simp only [sliceOf, Nat.zero_mul, List.drop_zero, Nat.one_mul] at h0 h1 h2 h3
  have h2' : (((l.drop n).drop n).take n).all f = true := by
    simp only [List.drop_drop]; rw [show n + n = 2 * n by omega]; exact h2
  have h3' : ((((l.drop n).drop n).drop n).take n).all f = true := by
    simp only [List.drop_drop]; rw [show n + n + n = 3 * n by omega]; exact h3
  rw [e, hnil]
  simp only [List.all_append, h0, h1, h2', h3', List.all_nil, Bool.and_self]

theorem all_of_slices3 {α : Type} (l : List α) (f : α → Bool) (n : Nat) (hl : l.length ≤ 3 * n)
    (h0 : (sliceOf l 0 n).all f = true) (h1 : (sliceOf l 1 n).all f = true)
    (h2 : (sliceOf l 2 n).all f = true) : l.all f = true := by
  have e : l = l.take n ++ ((l.drop n).take n ++ (((l.drop n).drop n).take n ++
      ((l.drop n).drop n).drop n)) := by
    simp only [List.take_append_drop]
  have hnil : ((l.drop n).drop n).drop n = [] := by
    simp only [List.drop_drop]; exact List.drop_eq_nil_of_le (by omega)
  simp only [sliceOf, Nat.zero_mul, List.drop_zero, Nat.one_mul] at h0 h1 h2
  have h2' : (((l.drop n).drop n).take n).all f = true := by
    simp only [List.drop_drop]; rw [show n + n = 2 * n by omega]; exact h2
  rw [e, hnil]
  simp only [List.all_append, h0, h1, h2', List.all_nil, Bool.and_self]

theorem slices_cover : slicesCover = true := by decide +kernel

theorem chunk_length (i : Nat) (hi : i < 16) : (rowsChunk i).length ≤ 4 * 64 := by
  have h := slices_cover
  simp only [slicesCover, Bool.and_eq_true, List.all_eq_true, List.mem_range, decide_eq_true_eq] at h
  exact h.1 i hi

theorem base_length : baseRowsC.length ≤ 3 * 110 := by
  have h := slices_cover
  simp only [slicesCover, Bool.and_eq_true, decide_eq_true_eq] at h
  exact h.2

theorem names_chunks : ∀ i, i < 16 → namesChunkOk i = true
  | 0, _ => all_of_slices4 _ _ 64 (chunk_length _ (by omega)) names_slice_00_0 names_slice_00_1 names_slice_00_2 names_slice_00_3
  | 1, _ => all_of_slices4 _ _ 64 (chunk_length _ (by omega)) names_slice_01_0 names_slice_01_1 names_slice_01_2 names_slice_01_3
  | 2, _ => all_of_slices4 _ _ 64 (chunk_length _ (by omega)) names_slice_02_0 names_slice_02_1 names_slice_02_2 names_slice_02_3
  | 3, _ => all_of_slices4 _ _ 64 (chunk_length _ (by omega)) names_slice_03_0 names_slice_03_1 names_slice_03_2 names_slice_03_3
  | 4, _ => all_of_slices4 _ _ 64 (chunk_length _ (by omega)) names_slice_04_0 names_slice_04_1 names_slice_04_2 names_slice_04_3
  | 5, _ => all_of_slices4 _ _ 64 (chunk_length _ (by omega)) names_slice_05_0 names_slice_05_1 names_slice_05_2 names_slice_05_3
  | 6, _ => all_of_slices4 _ _ 64 (chunk_length _ (by omega)) names_slice_06_0 names_slice_06_1 names_slice_06_2 names_slice_06_3
  | 7, _ => all_of_slices4 _ _ 64 (chunk_length _ (by omega)) names_slice_07_0 names_slice_07_1 names_slice_07_2 names_slice_07_3
  | 8, _ => all_of_slices4 _ _ 64 (chunk_length _ (by omega)) names_slice_08_0 names_slice_08_1 names_slice_08_2 names_slice_08_3
  | 9, _ => all_of_slices4 _ _ 64 (chunk_length _ (by omega)) names_slice_09_0 names_slice_09_1 names_slice_09_2 names_slice_09_3
  | 10, _ => all_of_slices4 _ _ 64 (chunk_length _ (by omega)) names_slice_10_0 names_slice_10_1 names_slice_10_2 names_slice_10_3
  | 11, _ => all_of_slices4 _ _ 64 (chunk_length _ (by omega)) names_slice_11_0 names_slice_11_1 names_slice_11_2 names_slice_11_3
  | 12, _ => all_of_slices4 _ _ 64 (chunk_length _ (by omega)) names_slice_12_0 names_slice_12_1 names_slice_12_2 names_slice_12_3
  | 13, _ => all_of_slices4 _ _ 64 (chunk_length _ (by omega)) names_slice_13_0 names_slice_13_1 names_slice_13_2 names_slice_13_3
  | 14, _ => all_of_slices4 _ _ 64 (chunk_length _ (by omega)) names_slice_14_0 names_slice_14_1 names_slice_14_2 names_slice_14_3
  | 15, _ => all_of_slices4 _ _ 64 (chunk_length _ (by omega)) names_slice_15_0 names_slice_15_1 names_slice_15_2 names_slice_15_3
  | n + 16, h => absurd h (by omega)

theorem nonprefixable_slices : ∀ i, i < 16 → ∀ j, j < 3 → nonprefixableSliceOk i j = true
  | 0, _ => fun j hj => match j, hj with
    | 0, _ => nonprefixable_slice_00_0 | 1, _ => nonprefixable_slice_00_1 | 2, _ => nonprefixable_slice_00_2
    | k + 3, h => absurd h (by omega)
  | 1, _ => fun j hj => match j, hj with
    | 0, _ => nonprefixable_slice_01_0 | 1, _ => nonprefixable_slice_01_1 | 2, _ => nonprefixable_slice_01_2
    | k + 3, h => absurd h (by omega)
  | 2, _ => fun j hj => match j, hj with
    | 0, _ => nonprefixable_slice_02_0 | 1, _ => nonprefixable_slice_02_1 | 2, _ => nonprefixable_slice_02_2
    | k + 3, h => absurd h (by omega)
  | 3, _ => fun j hj => match j, hj with
    | 0, _ => nonprefixable_slice_03_0 | 1, _ => nonprefixable_slice_03_1 | 2, _ => nonprefixable_slice_03_2
    | k + 3, h => absurd h (by omega)
  | 4, _ => fun j hj => match j, hj with
    | 0, _ => nonprefixable_slice_04_0 | 1, _ => nonprefixable_slice_04_1 | 2, _ => nonprefixable_slice_04_2
    | k + 3, h => absurd h (by omega)
  | 5, _ => fun j hj => match j, hj with
    | 0, _ => nonprefixable_slice_05_0 | 1, _ => nonprefixable_slice_05_1 | 2, _ => nonprefixable_slice_05_2
    | k + 3, h => absurd h (by omega)
  | 6, _ => fun j hj => match j, hj with
    | 0, _ => nonprefixable_slice_06_0 | 1, _ => nonprefixable_slice_06_1 | 2, _ => nonprefixable_slice_06_2
    | k + 3, h => absurd h (by omega)
  | 7, _ => fun j hj => match j, hj with
    | 0, _ => nonprefixable_slice_07_0 | 1, _ => nonprefixable_slice_07_1 | 2, _ => nonprefixable_slice_07_2
    | k + 3, h => absurd h (by omega)
  | 8, _ => fun j hj => match j, hj with
    | 0, _ => nonprefixable_slice_08_0 | 1, _ => nonprefixable_slice_08_1 | 2, _ => nonprefixable_slice_08_2
    | k + 3, h => absurd h (by omega)
  | 9, _ => fun j hj => match j, hj with
    | 0, _ => nonprefixable_slice_09_0 | 1, _ => nonprefixable_slice_09_1 | 2, _ => nonprefixable_slice_09_2
    | k + 3, h => absurd h (by omega)
  | 10, _ => fun j hj => match j, hj with
    | 0, _ => nonprefixable_slice_10_0 | 1, _ => nonprefixable_slice_10_1 | 2, _ => nonprefixable_slice_10_2
    | k + 3, h => absurd h (by omega)
  | 11, _ => fun j hj => match j, hj with
    | 0, _ => nonprefixable_slice_11_0 | 1, _ => nonprefixable_slice_11_1 | 2, _ => nonprefixable_slice_11_2
    | k + 3, h => absurd h (by omega)
  | 12, _ => fun j hj => match j, hj with
    | 0, _ => nonprefixable_slice_12_0 | 1, _ => nonprefixable_slice_12_1 | 2, _ => nonprefixable_slice_12_2
    | k + 3, h => absurd h (by omega)
  | 13, _ => fun j hj => match j, hj with
    | 0, _ => nonprefixable_slice_13_0 | 1, _ => nonprefixable_slice_13_1 | 2, _ => nonprefixable_slice_13_2
    | k + 3, h => absurd h (by omega)
  | 14, _ => fun j hj => match j, hj with
    | 0, _ => nonprefixable_slice_14_0 | 1, _ => nonprefixable_slice_14_1 | 2, _ => nonprefixable_slice_14_2
    | k + 3, h => absurd h (by omega)
  | 15, _ => fun j hj => match j, hj with
    | 0, _ => nonprefixable_slice_15_0 | 1, _ => nonprefixable_slice_15_1 | 2, _ => nonprefixable_slice_15_2
    | k + 3, h => absurd h (by omega)
  | n + 16, h => absurd h (by omega)

theorem nonprefixable_chunks (i : Nat) (hi : i < 16) : nonprefixableChunkOk i = true := by
  simp only [nonprefixableChunkOk, List.all_eq_true]
  intro p hp
  have h (j : Nat) (hj : j < 3) : (sliceOf baseRowsC j 110).all (rejectRow p) = true := by
    have := nonprefixable_slices i hi j hj
    simp only [nonprefixableSliceOk, List.all_eq_true] at this
    exact List.all_eq_true.mpr (this p hp)
  exact all_of_slices3 _ _ 110 base_length (h 0 (by omega)) (h 1 (by omega)) (h 2 (by omega))

theorem gen_chunks : ∀ k, k < 16 → genChunkOk k = true
  | 0, _ => gen_chunk_00
  | 1, _ => gen_chunk_01
  | 2, _ => gen_chunk_02
  | 3, _ => gen_chunk_03
  | 4, _ => gen_chunk_04
  | 5, _ => gen_chunk_05
  | 6, _ => gen_chunk_06
  | 7, _ => gen_chunk_07
  | 8, _ => gen_chunk_08
  | 9, _ => gen_chunk_09
  | 10, _ => gen_chunk_10
  | 11, _ => gen_chunk_11
  | 12, _ => gen_chunk_12
  | 13, _ => gen_chunk_13
  | 14, _ => gen_chunk_14
  | 15, _ => gen_chunk_15
  | n + 16, h => absurd h (by omega)

theorem genKey_all (i : Nat) (hi : i < lutC.length) : genKeyOk i = true := by
  have h := gen_chunks (i % 16) (Nat.mod_lt _ (by omega))
  simp only [genChunkOk, List.all_eq_true] at h
  exact h i (by simp [keysOfChunk, List.mem_filter, List.mem_range, hi])

/-- a row of the whole table lies in one of the 16 chunks -/
theorem mem_allRows {r : NameRow} (h : r ∈ allRows) : ∃ i, i < 16 ∧ r ∈ rowsChunk i := by
  simp only [allRows, List.mem_append] at h
  rcases h with h | h | h | h | h | h | h | h | h | h | h | h | h | h | h | h
  · exact ⟨0, by omega, h⟩
  · exact ⟨1, by omega, h⟩
  · exact ⟨2, by omega, h⟩
  · exact ⟨3, by omega, h⟩
  · exact ⟨4, by omega, h⟩
  · exact ⟨5, by omega, h⟩
  · exact ⟨6, by omega, h⟩
  · exact ⟨7, by omega, h⟩
  · exact ⟨8, by omega, h⟩
  · exact ⟨9, by omega, h⟩
  · exact ⟨10, by omega, h⟩
  · exact ⟨11, by omega, h⟩
  · exact ⟨12, by omega, h⟩
  · exact ⟨13, by omega, h⟩
  · exact ⟨14, by omega, h⟩
  · exact ⟨15, by omega, h⟩

/-- … and conversely -/
theorem mem_chunk_allRows {r : NameRow} : ∀ i, r ∈ rowsChunk i → r ∈ allRows
  | 0, h => by simp only [allRows, List.mem_append]; simp only [rowsChunk] at h; simp [h]
  | 1, h => by simp only [allRows, List.mem_append]; simp only [rowsChunk] at h; simp [h]
  | 2, h => by simp only [allRows, List.mem_append]; simp only [rowsChunk] at h; simp [h]
  | 3, h => by simp only [allRows, List.mem_append]; simp only [rowsChunk] at h; simp [h]
  | 4, h => by simp only [allRows, List.mem_append]; simp only [rowsChunk] at h; simp [h]
  | 5, h => by simp only [allRows, List.mem_append]; simp only [rowsChunk] at h; simp [h]
  | 6, h => by simp only [allRows, List.mem_append]; simp only [rowsChunk] at h; simp [h]
  | 7, h => by simp only [allRows, List.mem_append]; simp only [rowsChunk] at h; simp [h]
  | 8, h => by simp only [allRows, List.mem_append]; simp only [rowsChunk] at h; simp [h]
  | 9, h => by simp only [allRows, List.mem_append]; simp only [rowsChunk] at h; simp [h]
  | 10, h => by simp only [allRows, List.mem_append]; simp only [rowsChunk] at h; simp [h]
  | 11, h => by simp only [allRows, List.mem_append]; simp only [rowsChunk] at h; simp [h]
  | 12, h => by simp only [allRows, List.mem_append]; simp only [rowsChunk] at h; simp [h]
  | 13, h => by simp only [allRows, List.mem_append]; simp only [rowsChunk] at h; simp [h]
  | 14, h => by simp only [allRows, List.mem_append]; simp only [rowsChunk] at h; simp [h]
  | 15, h => by simp only [allRows, List.mem_append]; simp only [rowsChunk] at h; simp [h]
  | n + 16, h => by simp [rowsChunk] at h

theorem memN_mem {k : Name} {l : List Name} (h : memN k l = true) : k ∈ l := by
  induction l with
  | nil => simp [memN] at h
  | cons x xs ih =>
    simp only [memN] at h
    split at h
    · rename_i hb
      rw [Nat.eq_of_beq_eq_true hb]; exact List.mem_cons_self
    · exact List.mem_cons_of_mem _ (ih h)

/-- the per-name check, unfolded into the statements about the individual routes -/
theorem nameCheck_parts (r : NameRow) (h : nameCheck r = true) :
    treeOk r = true ∧ stringOk r = true ∧ usOk r = true ∧ topOk r = true ∧ customOk r = true := by
  unfold nameCheck at h
  cases hv : refVerdict r.name with
  | unknown => simp [hv] at h
  | ambiguous => simp [hv] at h
  | unique k c =>
    simp only [hv, Bool.and_eq_true, Bool.or_eq_true] at h
    obtain ⟨ht, ⟨hs, ⟨hu1, hu2⟩, hu3⟩, hc1, hc2⟩ := h
    refine ⟨ht, ?_, ?_, ?_, ?_⟩
    · simp only [stringOk, hv, hs]
    · simp only [usOk, hv, hu1, hu2, Bool.and_self]
    · unfold topOk
      split at hu3
      · rename_i hm; simp only [hm, if_true]; exact hu3
      · rename_i hm
        simp only [hm, hv, topLevelAttr]
        simp only [Bool.false_eq_true, if_false, Bool.and_eq_true]
        exact ⟨hu1, hu3⟩
    · simp only [customOk, hv, hc1, Bool.true_and]
      simpa using hc2

end Unyt.C14
