/-
  Helper lemmas for C12, part 6: the resolution of units does not depend on the id memo.
  `strip` forgets the memo; every step commutes with it, and every call other than
  `unit_system_id` answers the same with and without it.  Hence the table/cache part of the
  invariant is preserved along every history whose *edits* pass the guard, whatever
  `unit_system_id` calls are interleaved.  (No property statement here.)
-/
import UnytProofs.Lemmas.C12Sim

set_option linter.unusedSectionVars false
set_option linter.unusedVariables false

namespace Unyt.RegC12
open Unyt

variable {K : Type} [Mul K] [OfNat K 1] [OfNat K 0] [RPow K]
variable (cfg : Cfg) (pre : Prefixes K) (parse : String → Except Err (PExpr K))

def Op.isSysId : Op K → Bool
  | .sysId => true
  | _ => false

theorem strip_strip (s : RegState K) : strip (strip s) = strip s := rfl

theorem invalidate_strip (s : RegState K) : invalidate cfg (strip s) = invalidate cfg s := by
  cases hp : cfg.purgeDerived <;> simp [invalidate, strip, hp]

theorem strip_invalidate (s : RegState K) : strip (invalidate cfg s) = invalidate cfg s := by
  cases hp : cfg.purgeDerived <;> simp [invalidate, strip, hp]

/-- a step commutes with forgetting the memo -/
theorem strip_step (s : RegState K) (op : Op K) :
    strip (step cfg pre parse (strip s) op).1 = strip (step cfg pre parse s op).1 := by
  cases op with
  | add sym e => simp only [step, invalidate_strip]
  | addInvalid sym => simp only [step, invalidate_strip]
  | modifyF sym v => simp only [step, invalidate_strip]
  | modifyQ sym v d own => simp only [step, invalidate_strip]
  | remove sym => simp only [step, invalidate_strip]
  | unit q =>
    simp only [step, strip]
    split
    · split <;> rfl
    · split
      · rfl
      · split <;> rfl
  | contains k => simp only [step, strip]; split <;> rfl
  | getitem k => simp only [step, strip]; split <;> rfl
  | sysId => simp only [step, strip]; split <;> rfl

/-- every call other than `unit_system_id` answers the same with and without the memo -/
theorem step_out_strip (s : RegState K) (op : Op K) (h : op.isSysId = false) :
    (step cfg pre parse (strip s) op).2 = (step cfg pre parse s op).2 := by
  cases op with
  | add sym e => simp only [step, invalidate_strip]
  | addInvalid sym => simp only [step, invalidate_strip]
  | modifyF sym v => simp only [step, invalidate_strip]
  | modifyQ sym v d own => simp only [step, invalidate_strip]
  | remove sym => simp only [step, invalidate_strip]
  | unit q =>
    simp only [step, strip]
    split
    · split <;> rfl
    · split
      · rfl
      · split <;> rfl
  | contains k => simp only [step, strip]; split <;> rfl
  | getitem k => simp only [step, strip]; split <;> rfl
  | sysId => simp [Op.isSysId] at h

theorem opSafe_strip (s : RegState K) (op : Op K) (h : op.isSysId = false) :
    opSafe cfg parse (strip s) op = opSafe cfg parse s op := by
  cases op <;> first | (simp [Op.isSysId] at h; done) | simp only [opSafe, invalidate_strip] | rfl

theorem coherent_strip (c : Lut K) (s : RegState K) (h : Coherent pre parse c s) :
    Coherent pre parse c (strip s) :=
  ⟨h.lut, h.cache, fun _ d hd => by simp [strip] at hd⟩

/-- the table/cache part of the invariant survives every step whose core guard holds -/
theorem step_coherent_core (c : Lut K) (s : RegState K) (h : Coherent pre parse c (strip s))
    (op : Op K) (hsafe : opSafeCore cfg parse s op = true) :
    Coherent pre parse (specStep c op) (strip (step cfg pre parse s op).1) := by
  by_cases hid : op.isSysId = true
  · cases op <;> simp [Op.isSysId] at hid
    -- `unit_system_id` only fills the memo
    have : strip (step cfg pre parse s Op.sysId).1 = strip s := by
      simp only [step, strip]; split <;> rfl
    rw [this]; exact h
  · have hid' : op.isSysId = false := by simpa using hid
    have hs : opSafe cfg parse (strip s) op = true := by
      rw [opSafe_strip cfg parse s op hid']
      cases op <;> first | exact hsafe | simp [Op.isSysId] at hid'
    have := step_coherent cfg pre parse c (strip s) h op hs
    rw [← strip_step]
    exact coherent_strip pre parse _ _ this

theorem run_coherent_core (h : List (Op K)) :
    ∀ (c : Lut K) (s : RegState K), Coherent pre parse c (strip s) →
      safeRunCore cfg pre parse s h = true →
      Coherent pre parse (contents c h) (strip (run cfg pre parse s h)) := by
  induction h with
  | nil => intro c s hc _; exact hc
  | cons o rest ih =>
    intro c s hc hs
    simp only [safeRunCore, Bool.and_eq_true] at hs
    rw [run_cons, contents_cons]
    exact ih _ _ (step_coherent_core cfg pre parse c s hc o hs.1) hs.2

/-- with a coherent table and cache every safe call other than `unit_system_id` answers like the
    fresh registry, whatever the memo holds -/
theorem step_sim_core (c : Lut K) (s : RegState K) (h : Coherent pre parse c (strip s)) (op : Op K)
    (hid : op.isSysId = false) (hsafe : opSafe cfg parse s op = true) :
    Out.Sim (step cfg pre parse s op).2 (step cfg pre parse (fresh c) op).2 := by
  rw [← step_out_strip cfg pre parse s op hid]
  exact step_sim cfg pre parse c (strip s) h op (by rw [opSafe_strip cfg parse s op hid]; exact hsafe)

/-- when every edit starts by purging the derived entries and ends by emptying the string cache,
    every step passes the core guard -/
theorem opSafeCore_invalidating (hc : cfg.clearCache = true) (hp : cfg.purgeDerived = true)
    (s : RegState K) (op : Op K) : opSafeCore cfg parse s op = true := by
  cases op <;> simp [opSafeCore, opSafe, editSafe, invalidate, hc, hp]

theorem safeRunCore_invalidating (hc : cfg.clearCache = true) (hp : cfg.purgeDerived = true)
    (h : List (Op K)) : ∀ s : RegState K, safeRunCore cfg pre parse s h = true := by
  induction h with
  | nil => intro s; rfl
  | cons o rest ih =>
    intro s
    simp only [safeRunCore, opSafeCore_invalidating cfg parse hc hp s o, ih, Bool.and_self]

theorem opSafe_invalidating (hc : cfg.clearCache = true) (hp : cfg.purgeDerived = true)
    (s : RegState K) (op : Op K) (hid : op.isSysId = false) : opSafe cfg parse s op = true := by
  have := opSafeCore_invalidating cfg parse hc hp s op
  cases op <;> first | exact this | simp [Op.isSysId] at hid

end Unyt.RegC12
