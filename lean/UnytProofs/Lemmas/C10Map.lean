/-
  Helper lemmas for C10: transporting the unit table along a multiplicative map of carriers
  (`ℚ → ℝ`), and the carrier-independent dimension of a factor list.  No Mathlib.
-/
import UnytModel.UnitSystem
import UnytProofs.Lemmas.Lut

set_option linter.unusedSectionVars false

namespace Unyt
variable {K K' : Type}

def Entry.mapK (f : K → K') (e : Entry K) : Entry K' := ⟨f e.scale, e.dim, f e.offset, e.prefixable⟩
def Lut.mapK (f : K → K') (t : Lut K) : Lut K' := t.map fun p => (p.1, p.2.mapK f)
def Prefixes.mapK (f : K → K') (p : Prefixes K) : Prefixes K' := p.map fun x => (x.1, f x.2)
def UExpr.mapK (f : K → K') (e : UExpr K) : UExpr K' := ⟨f e.coeff, e.factors⟩
def UMap.mapK (f : K → K') (m : UMap K) : UMap K' := m.map fun p => (p.1, p.2.map (UExpr.mapK f))
def USys.mapK (f : K → K') (S : USys K) : USys K' := ⟨S.name, S.um.mapK f, S.base.mapK f⟩

theorem Lut.find?_mapK (f : K → K') (t : Lut K) (k : String) :
    (t.mapK f).find? k = (t.find? k).map (Entry.mapK f) := by
  induction t with
  | nil => rfl
  | cons p r ih =>
    obtain ⟨k', e⟩ := p
    simp only [Lut.mapK, List.map_cons, Lut.find?] at ih ⊢
    split
    · rfl
    · exact ih

theorem Prefixes.find?_mapK (f : K → K') (p : Prefixes K) (k : String) :
    (p.mapK f).find? k = (p.find? k).map f := by
  induction p with
  | nil => rfl
  | cons x r ih =>
    obtain ⟨k', v⟩ := x
    simp only [Prefixes.mapK, List.map_cons, Prefixes.find?] at ih ⊢
    split
    · rfl
    · exact ih

theorem splitPrefix_mapK (f : K → K') (pre : Prefixes K) (t : Lut K) (s : String) :
    splitPrefix (pre.mapK f) (t.mapK f) s = splitPrefix pre t s := by
  simp only [splitPrefix, Prefixes.find?_mapK, Lut.find?_mapK]
  split
  · rfl
  · cases pre.find? _ with
    | none => rfl
    | some pv =>
      simp only [Option.map]
      cases t.find? _ with
      | none => rfl
      | some e => simp only [Entry.mapK]; rfl

theorem resolve_mapK [Mul K] [Mul K'] (f : K → K') (hf : ∀ a b, f (a * b) = f a * f b)
    (pre : Prefixes K) (t : Lut K) (s : String) :
    resolve (pre.mapK f) (t.mapK f) s = (resolve pre t s).map (Entry.mapK f) := by
  simp only [resolve, lookupUnitSymbol, Lut.find?_mapK, Prefixes.find?_mapK, splitPrefix_mapK]
  cases t.find? s with
  | some e => rfl
  | none =>
    simp only [Option.map]
    by_cases hp : (splitPrefix pre t s).1 = ""
    · simp only [hp, if_true]
    · simp only [hp, if_false]
      cases t.find? (splitPrefix pre t s).2 with
      | none => rfl
      | some e =>
        cases pre.find? (splitPrefix pre t s).1 with
        | none => rfl
        | some pv => simp only [Entry.mapK, hf]

theorem UMap.find?_mapK (f : K → K') (m : UMap K) (d : Dim) :
    (m.mapK f).find? d = (m.find? d).map (fun o => o.map (UExpr.mapK f)) := by
  induction m with
  | nil => rfl
  | cons p r ih =>
    obtain ⟨d', v⟩ := p
    simp only [UMap.mapK, List.map_cons, UMap.find?] at ih ⊢
    split
    · rfl
    · exact ih

theorem UMap.get?_mapK (f : K → K') (m : UMap K) (d : Dim) :
    (m.mapK f).get? d = (m.get? d).map (UExpr.mapK f) := by
  simp only [UMap.get?, UMap.find?_mapK]
  cases m.find? d with
  | none => rfl
  | some o => cases o <;> rfl

/-- the dimension a factor list denotes, given the dimension each symbol resolves to -/
def dimF (dm : String → Option Dim) : Factors → Option Dim
  | [] => some Dim.one
  | (s, q) :: rest =>
    match dm s, dimF dm rest with
    | some d, some d' => some (d.pow q * d')
    | _, _ => none

theorem denoteF_dimF [Mul K] [OfNat K 1] [RPow K] (pre : Prefixes K) (t : Lut K) (f : Factors) :
    (denoteF pre t f).map (·.2) = dimF (fun s => (resolve pre t s).map (·.dim)) f := by
  induction f with
  | nil => rfl
  | cons p r ih =>
    obtain ⟨s, q⟩ := p
    simp only [denoteF, dimF, ← ih]
    cases resolve pre t s with
    | none => rfl
    | some ent =>
      cases denoteF pre t r with
      | none => rfl
      | some x => rfl

theorem dimF_congr (dm dm' : String → Option Dim) (f : Factors) (h : ∀ s, dm s = dm' s) :
    dimF dm f = dimF dm' f := by
  have : dm = dm' := funext h
  rw [this]

end Unyt

namespace Unyt
variable {K K' : Type}

/-- `UnitSystem.__init__`'s validation (system without registry) only reads names, dimensions and
    prefixability, so it is unchanged by a change of carrier -/
theorem validateBase_mapK [Mul K] [Mul K'] (f : K → K') (pre : Prefixes K) (t0 : Lut K)
    (inv : List (String × String)) (bd : Dim) (u : Option (UExpr K)) :
    validateBase (pre.mapK f) (t0.mapK f) inv none bd (u.map (UExpr.mapK f)) = validateBase pre t0 inv none bd u := by
  cases u with
  | none => rfl
  | some e =>
    simp only [Option.map, validateBase, UExpr.mapK, splitPrefix_mapK, Lut.find?_mapK]
    split
    · split
      · cases invLookup inv _ with
        | none => rfl
        | some c => simp only []; cases t0.find? c <;> rfl
      · rfl
    · rfl

theorem validateAll_mapK [Mul K] [Mul K'] (f : K → K') (pre : Prefixes K) (t0 : Lut K)
    (inv : List (String × String)) (m : UMap K) :
    validateAll (pre.mapK f) (t0.mapK f) inv none (m.mapK f) = validateAll pre t0 inv none m := by
  induction m with
  | nil => rfl
  | cons p r ih =>
    obtain ⟨bd, u⟩ := p
    simp only [UMap.mapK, List.map_cons, validateAll] at ih ⊢
    rw [validateBase_mapK, ih]

end Unyt
