/-
  Helper lemmas for C12, part 8: registry objects over shared containers (`RegistryC12Alias`).
  When every container is mutated in place (`ACfg.shared`) all registry objects stay attached to
  cells 0/0 and the family projects onto the single registry of `RegC12.step` (memo forgotten).
  (No property statement here.)
-/
import UnytModel.RegistryC12Alias
import UnytProofs.Lemmas.C12Core

set_option linter.unusedSectionVars false
set_option linter.unusedVariables false

namespace Unyt.RegC12
open Unyt

variable {K : Type} [Mul K] [OfNat K 1] [OfNat K 0] [RPow K]
variable (cfg : Cfg) (pre : Prefixes K) (parse : String → Except Err (PExpr K))

/-- every registry object refers to the first cache dict and the first derived set -/
def Attached (st : AState K) : Prop := ∀ hd ∈ st.handles, hd.cacheRef = 0 ∧ hd.dsetRef = 0

/-- the family seen as one registry (memo forgotten) -/
def proj (st : AState K) : RegState K := ⟨st.lut, st.caches 0, st.objs, none, st.dsets 0, false⟩

theorem attached_handle (st : AState K) (h : Attached st) (i : Nat) :
    (st.handle i).cacheRef = 0 ∧ (st.handle i).dsetRef = 0 := by
  unfold AState.handle
  rw [List.getD_eq_getElem?_getD]
  cases hi : st.handles[i]? with
  | none => exact ⟨rfl, rfl⟩
  | some hd => exact h hd (List.mem_of_getElem? hi)

theorem strip_view (st : AState K) (hd : Handle K) (hc : hd.cacheRef = 0) (hs : hd.dsetRef = 0) :
    strip (st.view hd) = proj st := by
  simp [strip, AState.view, proj, hc, hs]

theorem attached_afresh (c : Lut K) : Attached (afresh c : AState K) := by
  intro hd h
  simp [afresh] at h
  subst h
  exact ⟨rfl, rfl⟩

theorem proj_afresh (c : Lut K) : proj (afresh c : AState K) = strip (fresh c) := rfl

/-- in-place containers: a call through ANY object acts on the projection as the single-registry step -/
theorem proj_astep (st : AState K) (h : Attached st) (i : Nat) (op : Op K) :
    proj (astep ACfg.shared cfg pre parse st i op).1 = strip (step cfg pre parse (proj st) op).1 := by
  obtain ⟨hc, hs⟩ := attached_handle st h i
  have hv := strip_view st (st.handle i) hc hs
  rw [← hv, strip_step]
  simp [astep, ACfg.shared, proj, strip, upd, hc, hs]

theorem attached_astep (st : AState K) (h : Attached st) (i : Nat) (op : Op K) :
    Attached (astep ACfg.shared cfg pre parse st i op).1 := by
  obtain ⟨hc, hs⟩ := attached_handle st h i
  intro hd hm
  simp only [astep, ACfg.shared, Bool.not_true, Bool.and_false, Bool.false_and] at hm
  rcases List.mem_or_eq_of_mem_set hm with hm | hm
  · exact h hd hm
  · subst hm
    exact ⟨hc, hs⟩

theorem attached_acopy (st : AState K) (h : Attached st) (i : Nat) : Attached (acopy st i) := by
  intro hd hm
  simp only [acopy, List.mem_append, List.mem_singleton] at hm
  rcases hm with hm | hm
  · exact h hd hm
  · subst hm
    exact attached_handle st h i

/-- … and answers as the single registry does (every call but `unit_system_id`, whose memo is per object) -/
theorem astep_out (st : AState K) (h : Attached st) (i : Nat) (op : Op K) (hop : op.isSysId = false) :
    (astep ACfg.shared cfg pre parse st i op).2 = (step cfg pre parse (proj st) op).2 := by
  obtain ⟨hc, hs⟩ := attached_handle st h i
  have hv := strip_view st (st.handle i) hc hs
  rw [← hv, step_out_strip _ _ _ _ _ hop]
  rfl

/-- forgetting the memo commutes with whole histories -/
theorem strip_run (s : RegState K) (h : List (Op K)) :
    strip (run cfg pre parse (strip s) h) = strip (run cfg pre parse s h) := by
  induction h generalizing s with
  | nil => rfl
  | cons o h ih =>
    simp only [run, List.foldl_cons] at ih ⊢
    rw [← ih (step cfg pre parse (strip s) o).1, ← ih (step cfg pre parse s o).1, strip_step]

/-- the family after a history = the single registry after the erased history -/
theorem arun_proj (st : AState K) (s : RegState K) (h : List (AOp K))
    (ha : Attached st) (hp : proj st = strip s) :
    Attached (arun ACfg.shared cfg pre parse st h) ∧
    proj (arun ACfg.shared cfg pre parse st h) = strip (run cfg pre parse s (eraseH h)) := by
  induction h generalizing st s with
  | nil => exact ⟨ha, hp⟩
  | cons o h ih =>
    cases o with
    | call i op =>
      simp only [arun, List.foldl_cons, astepOp, eraseH, List.filterMap_cons, AOp.erase, run] at ih ⊢
      apply ih _ (step cfg pre parse s op).1 (attached_astep cfg pre parse st ha i op)
      rw [proj_astep cfg pre parse st ha i op, hp, strip_step]
    | copy i =>
      simp only [arun, List.foldl_cons, astepOp, eraseH, List.filterMap_cons, AOp.erase] at ih ⊢
      exact ih _ s (attached_acopy st ha i) hp

end Unyt.RegC12
