/-
  Lemmas for C20Arith: exponents under the unit operations, symbols under normalisation.
-/
import UnytModel.UnitArith
import UnytProofs.Lemmas.UExpr
import UnytProofs.Lemmas.C20Sem

namespace Unyt.C20M
open Unyt UExpr UnitArith

theorem half_den : (1/2 : Rat).den = 2 := by decide +kernel

theorem expOf_step_mul (f g : Factors) (s : String) : expOf (step f (.mul g)) s = expOf f s + expOf g s := by
  simp only [step, expOf_append]
theorem expOf_step_div (f g : Factors) (s : String) : expOf (step f (.div g)) s = expOf f s - expOf g s := by
  simp only [step, expOf_append, expOf_negF, Rat.sub_eq_add_neg]
theorem expOf_step_rdiv (f g : Factors) (s : String) : expOf (step f (.rdiv g)) s = expOf g s - expOf f s := by
  simp only [step, expOf_append, expOf_negF, Rat.sub_eq_add_neg]
theorem expOf_step_pow (f : Factors) (p : Rat) (s : String) : expOf (step f (.pow p)) s = expOf f s * powOperand p := by
  simp only [step, expOf_scaleF]

theorem run_cons (f : Factors) (st : Step) (prog : List Step) : run f (st :: prog) = run (step f st) prog := by
  simp only [run, List.foldl_cons]

theorem run_replicate_pow (p : Rat) (n : Nat) (f : Factors) (s : String) :
    expOf (run f (List.replicate n (.pow p))) s = expOf f s * (powOperand p) ^ n := by
  induction n generalizing f with
  | zero => simp [run]
  | succ n ih =>
    rw [List.replicate_succ, run_cons, ih, expOf_step_pow, Rat.pow_succ, Rat.mul_assoc, Rat.mul_comm (powOperand p)]

/-- `Fraction(a, b)` has a denominator of at most `b` (and 1 when `b = 0`, Lean's `a / 0 = 0`) -/
theorem den_div_le (a : Int) (b B : Nat) (hb : b ≤ B) (hB : 1 ≤ B) : ((a : Rat) / ((b : Nat) : Rat)).den ≤ B := by
  have h : ((a : Rat) / ((b : Nat) : Rat)) = Rat.divInt a (b : Int) := by
    rw [Rat.divInt_eq_div]; rfl
  rw [h, Rat.den_divInt]
  split
  · exact hB
  · exact Nat.le_trans (Nat.div_le_self _ _) (by simpa using hb)

/-- loop invariant of `Fraction.limit_denominator`: both convergent denominators stay within the bound -/
theorem ldLoop_inv (B : Nat) (fuel : Nat) (st : LdState) (h0 : st.q0 ≤ B) (h1 : st.q1 ≤ B) :
    (ldLoop B fuel st).q0 ≤ B ∧ (ldLoop B fuel st).q1 ≤ B := by
  induction fuel generalizing st with
  | zero => exact ⟨h0, h1⟩
  | succ n ih =>
    simp only [ldLoop]
    split
    · exact ⟨h0, h1⟩
    · split
      · exact ⟨h0, h1⟩
      · next hq =>
        apply ih
        · exact h1
        · show (↑st.q0 + st.n / st.d * ↑st.q1 : Int).toNat ≤ B
          omega

/-- every symbol of the list is an ordinary unit symbol -/
def FOrd (f : Factors) : Prop := ∀ p ∈ f, Ordinary p.1

/-- the unit operand of a step is over ordinary symbols -/
def StepOrd : Step → Prop
  | .mul g => FOrd g
  | .div g => FOrd g
  | .rdiv g => FOrd g
  | .pow _ => True

theorem FOrd_append {f g : Factors} (hf : FOrd f) (hg : FOrd g) : FOrd (f ++ g) := by
  intro p hp
  rcases List.mem_append.mp hp with h | h
  · exact hf p h
  · exact hg p h

theorem FOrd_negF {f : Factors} (hf : FOrd f) : FOrd (negF f) := by
  intro p hp
  simp only [negF, List.mem_map] at hp
  obtain ⟨a, ha, rfl⟩ := hp
  exact hf a ha

theorem FOrd_scaleF {f : Factors} (q : Rat) (hf : FOrd f) : FOrd (scaleF f q) := by
  intro p hp
  simp only [scaleF, List.mem_map] at hp
  obtain ⟨a, ha, rfl⟩ := hp
  exact hf a ha

theorem FOrd_step {f : Factors} {st : Step} (hf : FOrd f) (hs : StepOrd st) : FOrd (step f st) := by
  cases st with
  | mul g => exact FOrd_append hf hs
  | div g => exact FOrd_append hf (FOrd_negF hs)
  | rdiv g => exact FOrd_append hs (FOrd_negF hf)
  | pow p => exact FOrd_scaleF _ hf

theorem FOrd_run {f : Factors} {prog : List Step} (hf : FOrd f) (hp : ∀ st ∈ prog, StepOrd st) : FOrd (run f prog) := by
  induction prog generalizing f with
  | nil => exact hf
  | cons st r ih =>
    rw [run_cons]
    exact ih (FOrd_step hf (hp st (List.mem_cons_self ..))) (fun t ht => hp t (List.mem_cons_of_mem _ ht))

theorem FOrd_insertF {s : String} {q : Rat} {f : Factors} (hs : Ordinary s) (hf : FOrd f) : FOrd (insertF s q f) := by
  induction f with
  | nil =>
    intro p hp
    simp only [insertF, List.mem_singleton] at hp
    subst hp; exact hs
  | cons a r ih =>
    obtain ⟨t, x⟩ := a
    have ht : Ordinary t := hf (t, x) (List.mem_cons_self ..)
    have hr : FOrd r := fun p hp => hf p (List.mem_cons_of_mem _ hp)
    intro p hp
    simp only [insertF] at hp
    split at hp
    · rcases List.mem_cons.mp hp with h | h
      · subst h; exact ht
      · exact hr p h
    · split at hp
      · rcases List.mem_cons.mp hp with h | h
        · subst h; exact hs
        · exact hf p h
      · rcases List.mem_cons.mp hp with h | h
        · subst h; exact ht
        · exact ih hr p h

theorem FOrd_sortMerge {f : Factors} (hf : FOrd f) : FOrd (sortMerge f) := by
  induction f with
  | nil => intro p hp; cases hp
  | cons a r ih =>
    simp only [sortMerge, List.foldr_cons]
    exact FOrd_insertF (hf a (List.mem_cons_self ..)) (ih fun p hp => hf p (List.mem_cons_of_mem _ hp))

theorem FOrd_normF {f : Factors} (hf : FOrd f) : FOrd (normF f) := by
  intro p hp
  simp only [normF, dropZeros] at hp
  exact FOrd_sortMerge hf p (List.mem_filter.mp hp).1

end Unyt.C20M
