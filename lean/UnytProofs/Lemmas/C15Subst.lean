/-
  Substitution lemma for `CExpr` (C15): evaluating an expression after replacing names by
  expressions is evaluating it in the environment that gives those names the values of the
  expressions.  This is what makes "closed form over the base constants" the same thing as
  "the value Python computed for the name" — any carrier, no Mathlib.
-/
import UnytModel.PhysicalConstants

namespace Unyt.CExpr

variable {K : Type} [Add K] [Sub K] [Mul K] [Div K] [Neg K] [OfRat K] [Transc K] [RPow K]

/-- the environment seen through a substitution -/
def substEnv (σ : List (String × CExpr)) (ρ : String → K) (n : String) : K :=
  match σ.lookup n with
  | some d => d.eval ρ
  | none => ρ n

theorem eval_subst (σ : List (String × CExpr)) (ρ : String → K) (e : CExpr) :
    (e.subst σ).eval ρ = e.eval (substEnv σ ρ) := by
  induction e with
  | lit q => rfl
  | pi => rfl
  | ref n =>
    simp only [subst, eval, substEnv]
    cases σ.lookup n <;> rfl
  | neg a ih => simp only [subst, eval, ih]
  | add a b iha ihb => simp only [subst, eval, iha, ihb]
  | sub a b iha ihb => simp only [subst, eval, iha, ihb]
  | mul a b iha ihb => simp only [subst, eval, iha, ihb]
  | div a b iha ihb => simp only [subst, eval, iha, ihb]
  | pow a q ih => simp only [subst, eval, ih]
  | sqrt a ih => simp only [subst, eval, ih]
  | log a ih => simp only [subst, eval, ih]

end Unyt.CExpr
