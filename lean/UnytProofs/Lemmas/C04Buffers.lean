/-
  Lemmas for UnytProofs/C04Buffers.lean: executing a statement list commutes with every homomorphism of
  value algebras (so the run over the free term algebra determines the run over every carrier).
-/
import UnytModel.UfuncBuffers

namespace Unyt.Buf

variable {V W : Type}

/-- `h` carried through a state (locations and flags unchanged) -/
def St.map (h : V → W) (s : St V) : St W :=
  { mem := s.mem.map h, inp0 := s.inp0, inp1 := s.inp1, outArr := s.outArr, outFunc := s.outFunc,
    ret := s.ret, mulDone := s.mulDone, bad := s.bad }

structure AlgHom (A : Alg V) (B : Alg W) (h : V → W) : Prop where
  scale : ∀ v c, h (A.scale v c) = B.scale (h v) c
  kern : ∀ a b, h (A.kern a b) = B.kern (h a) (h b)

theorem loc_map (h : V → W) (s : St V) (r : Ref) : (s.map h).loc r = s.loc r := by
  cases r <;> rfl

theorem read_map (h : V → W) (s : St V) (r : Ref) : (s.map h).read r = (s.read r).map h := by
  unfold St.read
  rw [loc_map]
  cases s.loc r with
  | none => rfl
  | some l => simp [St.map]

theorem bind_map (h : V → W) (s : St V) (l : Nat) (b : Option Ref) : (s.bind l b).map h = (s.map h).bind l b := by
  cases b with
  | none => rfl
  | some r => cases r <;> rfl

theorem store_map (h : V → W) (s : St V) (v : V) (dst bind : Option Ref) :
    (s.store v dst bind).map h = (s.map h).store (h v) dst bind := by
  unfold St.store
  have hl : dst.bind (s.map h).loc = dst.bind s.loc := by
    cases dst with
    | none => rfl
    | some r => simp [loc_map]
  rw [hl]
  cases dst.bind s.loc with
  | some l => rw [bind_map]; simp [St.map, List.map_set]
  | none => rw [bind_map]; simp [St.map]

theorem guard_map (h : V → W) (fl : Flags) (lo : Nat) (s : St V) (g : List (Atom × Bool)) :
    guardHolds fl lo (s.map h) g = guardHolds fl lo s g := by
  unfold guardHolds
  congr 1

theorem stepInstr_map {A : Alg V} {B : Alg W} {h : V → W} (H : AlgHom A B h) (fl : Flags) (lo : Nat) (s : St V)
    (i : Instr) : (stepInstr A fl lo s i).map h = stepInstr B fl lo (s.map h) i := by
  cases i with
  | scale src c dst bind =>
    simp only [stepInstr, read_map]
    cases s.read src with
    | none => rfl
    | some x => simp [store_map, H.scale]
  | kernel a b dst bind =>
    simp only [stepInstr, read_map]
    cases s.read a <;> cases s.read b <;> simp [store_map, H.kern] <;> rfl
  | viewOut => simp only [stepInstr]; split <;> rfl
  | mulDone => rfl
  | retMul =>
    simp only [stepInstr, read_map]
    have : (s.map h).mulDone = s.mulDone := rfl
    rw [this]
    split
    · cases s.read .outArr with
      | none => rfl
      | some x => simp [store_map, H.scale]
    · rfl
  | unknown w => rfl

theorem step_map {A : Alg V} {B : Alg W} {h : V → W} (H : AlgHom A B h) (fl : Flags) (lo : Nat) (s : St V)
    (st : Stmt) : (step A fl lo s st).map h = step B fl lo (s.map h) st := by
  unfold step
  rw [guard_map]
  split
  · exact stepInstr_map H fl lo s st.instr
  · rfl

/-- running a statement list commutes with algebra homomorphisms (induction over the list) -/
theorem run_map {A : Alg V} {B : Alg W} {h : V → W} (H : AlgHom A B h) (fl : Flags) (lo : Nat)
    (prog : List Stmt) (s : St V) : (run A fl lo prog s).map h = run B fl lo prog (s.map h) := by
  induction prog generalizing s with
  | nil => rfl
  | cons st rest ih =>
    simp only [run, List.foldl_cons] at ih ⊢
    rw [ih, step_map H]

/-- evaluation of terms is a homomorphism from the free algebra -/
theorem eval_hom (A : Alg V) (env : Nat → V) : AlgHom termAlg A (Term.eval A env) :=
  ⟨fun _ _ => rfl, fun _ _ => rfl⟩

theorem eval_expected (A : Alg V) (env : Nat → V) (fl : Flags) (a b : Term) :
    (expected termAlg fl a b).eval A env = expected A fl (a.eval A env) (b.eval A env) := by
  unfold expected
  cases fl.conv <;> cases fl.tdelta <;> cases fl.post <;> cases fl.mulNe1 <;> rfl

theorem forallBool_spec {f : Bool → Bool} (h : forallBool f = true) (b : Bool) : f b = true := by
  unfold forallBool at h
  cases b <;> simp_all

theorem forallLoc_spec {f : Nat → Bool} (h : forallLoc f = true) (l : Nat) (hl : l < 3) : f l = true := by
  unfold forallLoc at h
  have : l = 0 ∨ l = 1 ∨ l = 2 := by omega
  rcases this with rfl | rfl | rfl <;> simp_all

end Unyt.Buf
