/-
  Helper lemmas for C14: the look-up of a symbol in ANY unit table / prefix table, and the
  independence of the symbolic reading from the numeric carrier.
-/
import UnytModel.C14Check

namespace Unyt.Names
open Unyt

variable {K K' : Type}

theorem beq_zero_false {n : Nat} (h : n ≠ 0) : Nat.beq n 0 = false := by
  cases hb : Nat.beq n 0 with
  | false => rfl
  | true => exact absurd (Nat.eq_of_beq_eq_true hb) h

/-- what `_split_prefix` returns when it returns a prefix: the candidate split of the string, a key
    of the prefix table, and a *prefixable* key of the unit table -/
theorem splitPrefix_spec (pre : PrefixesN K) (t : LutN K) (s p b : Name)
    (h : splitPrefix pre t s = (p, b)) (hp : p ≠ 0) :
    splitCandidate s = some (p, b) ∧ (∃ pv, pre.get? p = some pv) ∧
      ∃ e, t.get? b = some e ∧ e.prefixable = true := by
  unfold splitPrefix at h
  split at h
  · cases h; exact absurd rfl hp
  · rename_i p' wo hc
    split at h
    · cases h; exact absurd rfl hp
    · rename_i pv hpv
      split at h
      · rename_i e he
        split at h
        · rename_i hpre
          cases h
          exact ⟨hc, ⟨pv, hpv⟩, e, he, hpre⟩
        · cases h; exact absurd rfl hp
      · cases h; exact absurd rfl hp

theorem lookupSplit_key (pre : PrefixesN K) (t : LutN K) (s : Name) (e : Entry K)
    (h : t.get? s = some e) : lookupSplit pre t s = some (Name.nil, s) := by
  simp only [lookupSplit, h]

theorem lookupUnitSymbol_key [Mul K] (pre : PrefixesN K) (t : LutN K) (s : Name) (e : Entry K)
    (h : t.get? s = some e) : lookupUnitSymbol pre t s = some e := by
  simp only [lookupUnitSymbol, h]

/-- a symbol that is not a table key and is nevertheless read: the reading is the candidate split,
    prefix in the prefix table, base a prefixable key, and the entry is the base entry scaled by
    exactly the prefix value (dimension and offset unchanged) -/
theorem lookupSplit_prefixed [Mul K] (pre : PrefixesN K) (t : LutN K) (s p b : Name)
    (hn : t.get? s = none) (h : lookupSplit pre t s = some (p, b)) :
    p ≠ 0 ∧ splitCandidate s = some (p, b) ∧
    ∃ pv e, pre.get? p = some pv ∧ t.get? b = some e ∧ e.prefixable = true ∧
      lookupUnitSymbol pre t s =
        some { scale := e.scale * pv, dim := e.dim, offset := e.offset, prefixable := false } := by
  simp only [lookupSplit, hn] at h
  split at h
  · cases h
  · rename_i hz
    have hsp : splitPrefix pre t s = (p, b) := Option.some.inj h
    have hp : p ≠ 0 := by
      intro h0; rw [hsp, h0] at hz; exact hz rfl
    obtain ⟨hc, ⟨pv, hpv⟩, e, he, hpre⟩ := splitPrefix_spec pre t s p b hsp hp
    refine ⟨hp, hc, pv, e, hpv, he, hpre, ?_⟩
    simp only [lookupUnitSymbol, hn, hsp, beq_zero_false hp, he, hpv]
    rfl

/-- the symbolic and the numeric look-up fail together -/
theorem lookupSplit_isSome [Mul K] (pre : PrefixesN K) (t : LutN K) (s : Name) :
    (lookupUnitSymbol pre t s).isSome = (lookupSplit pre t s).isSome := by
  cases hn : t.get? s with
  | some e => simp only [lookupUnitSymbol, lookupSplit, hn, Option.isSome]
  | none =>
    cases hl : lookupSplit pre t s with
    | some pb =>
      obtain ⟨p, b⟩ := pb
      obtain ⟨_, _, pv, e, _, _, _, hu⟩ := lookupSplit_prefixed pre t s p b hn hl
      simp only [hu, Option.isSome]
    | none =>
      simp only [lookupSplit, hn] at hl
      split at hl
      · rename_i hz
        simp only [lookupUnitSymbol, hn, hz, if_true, Option.isSome]
      · cases hl

/-- a non-prefixable unit is never the base of a prefixed reading, whatever the string -/
theorem nonprefixable_never_base (pre : PrefixesN K) (t : LutN K) (b : Name) (e : Entry K)
    (hb : t.get? b = some e) (hnp : e.prefixable = false) (s p : Name)
    (h : lookupSplit pre t s = some (p, b)) : p = 0 ∧ s = b := by
  cases hn : t.get? s with
  | some e0 =>
    simp only [lookupSplit, hn] at h
    cases h; exact ⟨rfl, rfl⟩
  | none =>
    simp only [lookupSplit, hn] at h
    split at h
    · cases h
    · rename_i hz
      have hsp : splitPrefix pre t s = (p, b) := Option.some.inj h
      have hp : p ≠ 0 := by
        intro h0; rw [hsp, h0] at hz; exact hz rfl
      obtain ⟨_, _, e', he', hpre⟩ := splitPrefix_spec pre t s p b hsp hp
      rw [hb] at he'; cases he'
      rw [hnp] at hpre; cases hpre

/-- what a dict look-up answers is one of the dict's items -/
theorem Dict.mem_toList_of_get? {α : Type} (d : Dict α) (k : Name) (v : α) (h : d.get? k = some v) :
    (k, v) ∈ d.toList := by
  induction d with
  | leaf => simp [Dict.get?] at h
  | node l k' v' r ihl ihr =>
    simp only [Dict.get?] at h
    simp only [Dict.toList, List.mem_append, List.mem_cons]
    split at h
    · rename_i hb
      cases h
      exact Or.inr (Or.inl (by rw [Nat.eq_of_beq_eq_true hb]))
    · split at h
      · exact Or.inl (ihl h)
      · exact Or.inr (Or.inr (ihr h))

/-! ### the reading does not depend on the numeric carrier -/

theorem splitPrefix_map (f : K → K') (pre : PrefixesN K) (t : LutN K) (s : Name) :
    splitPrefix (pre.map f) (t.map (mapEntry f)) s = splitPrefix pre t s := by
  unfold splitPrefix
  cases splitCandidate s with
  | none => rfl
  | some pw =>
    obtain ⟨p, wo⟩ := pw
    simp only [Dict.get?_map]
    cases pre.get? p with
    | none => rfl
    | some pv =>
      cases t.get? wo with
      | none => rfl
      | some e => rfl

theorem lookupSplit_map (f : K → K') (pre : PrefixesN K) (t : LutN K) (s : Name) :
    lookupSplit (pre.map f) (t.map (mapEntry f)) s = lookupSplit pre t s := by
  unfold lookupSplit
  simp only [Dict.get?_map, splitPrefix_map]
  cases t.get? s with
  | none => rfl
  | some e => rfl

theorem stringReading_mapK (f : K → K') (c : Ctx K) (n : Name) :
    stringReading (c.mapK f) n = stringReading c n := by
  simp only [stringReading, Ctx.mapK, lookupSplit_map]

theorem unitSymbolsAttr_mapK (f : K → K') (c : Ctx K) (n : Name) :
    unitSymbolsAttr (c.mapK f) n = unitSymbolsAttr c n := by
  unfold unitSymbolsAttr
  simp only [stringReading_mapK]
  rfl

theorem topLevelAttr_mapK (f : K → K') (c : Ctx K) (taken : List Name) (n : Name) :
    topLevelAttr (c.mapK f) taken n = topLevelAttr c taken n := by
  simp only [topLevelAttr, unitSymbolsAttr_mapK]

theorem addSymbolsAttr_mapK (f : K → K') (c : Ctx K) (n : Name) :
    addSymbolsAttr (c.mapK f) n = addSymbolsAttr c n := by
  have hc : (c.mapK f).lut.contains n = c.lut.contains n := by
    simp only [Ctx.mapK, Dict.contains, Dict.get?_map, Option.isSome_map]
  simp only [addSymbolsAttr, unitSymbolsAttr_mapK, stringReading_mapK, hc]

/-- the numeric value the string route attaches to a reading: a table key's own row; for a prefix
    reading the base row scaled by exactly the prefix value -/
theorem stringEntry_of_reading [Mul K] [OfNat K 0] [OfNat K 1] (c : Ctx K) (n s p b : Name)
    (h : stringReading c n = some (.sym s p b)) :
    (p = 0 ∧ s = b ∧ ∃ e, c.lut.get? b = some e ∧ stringEntry c n = some e) ∨
    (p ≠ 0 ∧ ∃ pv e, c.pre.get? p = some pv ∧ c.lut.get? b = some e ∧ e.prefixable = true ∧
      stringEntry c n =
        some { scale := e.scale * pv, dim := e.dim, offset := e.offset, prefixable := false }) := by
  unfold stringReading at h
  split at h
  · cases h
  · rename_i hn0
    simp only [Name.force_eq] at h
    split at h
    · cases h
    · rename_i s' hs
      split at h
      · rename_i p' b' hl
        cases h
        cases hk : c.lut.get? s with
        | some e =>
          have := lookupSplit_key c.pre c.lut s e hk
          rw [this] at hl; cases hl
          refine Or.inl ⟨rfl, rfl, e, hk, ?_⟩
          simp only [stringEntry, hn0, Name.force_eq, hs, lookupUnitSymbol_key c.pre c.lut s e hk]
          rfl
        | none =>
          obtain ⟨hp, _, pv, e, hpv, he, hpre, hu⟩ := lookupSplit_prefixed c.pre c.lut s p b hk hl
          refine Or.inr ⟨hp, pv, e, hpv, he, hpre, ?_⟩
          simp only [stringEntry, hn0, Name.force_eq, hs, hu]
          rfl
      · cases h

/-- the string route answers numerically exactly when it answers symbolically -/
theorem stringEntry_isSome [Mul K] [OfNat K 0] [OfNat K 1] (c : Ctx K) (n : Name) :
    (stringEntry c n).isSome = (stringReading c n).isSome := by
  unfold stringEntry stringReading
  split
  · rfl
  · simp only [Name.force_eq]
    cases nameToSymbol c.globals c.inv c.rewritten (parserRewrite n) with
    | none => rfl
    | some s =>
      simp only [lookupSplit_isSome]
      cases lookupSplit c.pre c.lut s with
      | none => rfl
      | some pb => rfl

end Unyt.Names
