/-
  C14, chunk 1 of 16 of the whole-table obligations (kernel-decided in slices; assembled in
  UnytProofs/Lemmas/C14Rows.lean, stated in UnytProofs/C14.lean).
-/
import UnytModel.C14Check

namespace Unyt.C14

/-- every listed name of chunk 1 (four slices of 64 rows) is read by the string route and by the
    three attribute routes as the independent reference reads it -/
theorem names_slice_01_0 : namesSliceOk 1 0 = true := by decide +kernel
theorem names_slice_01_1 : namesSliceOk 1 1 = true := by decide +kernel
theorem names_slice_01_2 : namesSliceOk 1 2 = true := by decide +kernel
theorem names_slice_01_3 : namesSliceOk 1 3 = true := by decide +kernel

/-- prefix spellings 3·1 … 3·1+2 (symbols, then word forms) are rejected on every
    non-prefixable spelling (three slices of 110 spelling rows) -/
theorem nonprefixable_slice_01_0 : nonprefixableSliceOk 1 0 = true := by decide +kernel
theorem nonprefixable_slice_01_1 : nonprefixableSliceOk 1 1 = true := by decide +kernel
theorem nonprefixable_slice_01_2 : nonprefixableSliceOk 1 2 = true := by decide +kernel

/-- the body of `generate_name_alternatives`' outer loop, for the table keys number i ≡ 1 (mod 16),
    started in the state the real generator had there, appends exactly what the real one appended -/
theorem gen_chunk_01 : genChunkOk 1 = true := by decide +kernel

end Unyt.C14
