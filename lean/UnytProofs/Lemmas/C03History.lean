/-
  Helper lemmas for `UnytProofs/C03History.lean`: one in-place conversion preserves the SI
  magnitude; `runHist` distributes over `++`.
-/
import UnytProofs.C03
import UnytModel.ConvHistory

set_option linter.unusedSectionVars false

namespace Unyt.C03
open Unyt

variable {K : Type} [Lean.Grind.Field K] [BEq K] [LawfulBEq K] [RPow K]

/-- a successful in-place conversion: the label is the target and the SI magnitude is kept -/
theorem convertToUnits_ok (pre : Prefixes K) (t : Lut K) (st : K × UnitV K) (tg : UnitV K)
    (hd : st.2.dim = tg.dim) (hs : tg.scale ≠ 0) :
    ∃ v, convertToUnits pre t st tg = .ok (v, tg) ∧ siMagnitude pre t (v, tg) = siMagnitude pre t st := by
  obtain ⟨x, u⟩ := st
  obtain ⟨f, hf, happ⟩ := getConversionFactor_is_affine pre t u tg hd x
  have h1 := (routes_agree pre t u tg x).1
  have h2 := (routes_agree pre t u tg x).2.2 f hf
  refine ⟨applyFactor f x, by rw [h1, h2], ?_⟩
  simp only [siMagnitude, UnitV.prefOffset, happ, convFactorP]
  have hd' : u.dim = tg.dim := hd
  rw [← hd']
  exact conv_preserves_base _ _ _ _ _ hs

theorem runHist_append (pre : Prefixes K) (t : Lut K) (T : EmTable K) (st : K × UnitV K) (a b : List (HOp K)) :
    runHist pre t T st (a ++ b)
      = ((runHist pre t T (runHist pre t T st a).1 b).1,
         (runHist pre t T st a).2 ++ (runHist pre t T (runHist pre t T st a).1 b).2) := by
  induction a generalizing st with
  | nil => simp [runHist]
  | cons op ops ih => simp [runHist, ih]

end Unyt.C03
