/-
  Lemmas for C08 — string facts about prefixed temperature symbols.

  The guards of the temperature logic test `repr(unit)` with `in [...]`, `startswith`, `in` and
  `==`.  For the unprefixed symbols these are closed computations; for a prefixed symbol
  `p ++ name` they depend on the prefix symbol `p`, which ranges over the regenerated
  `unit_prefixes` table: one kernel-decided check over that table (`strFacts_gen`) gives the
  facts for every prefix the library knows.
-/
import UnytModel.TempCheck

namespace Unyt.Temp

/-- for every prefix symbol `s` of the list and every table symbol `b`: `s ++ b` is not "K"/"R",
    does not start with "delta_", is not "degC"/"degF", and does not occur inside any of the six
    unprefixed names -/
def strFactsOK (syms : List Name) : Bool :=
  syms.all fun s => TBase.all.all fun b =>
    !(krLit.contains (s ++ b.name)) && !(startsWith (s ++ b.name) deltaLit)
    && !((s ++ b.name) == TBase.degC.name) && !((s ++ b.name) == TBase.degF.name)
    && TBase.all.all fun b' => !(isInfix (s ++ b.name) b'.name)

theorem strFacts_gen : strFactsOK genSyms = true := by decide +kernel

theorem TBase.mem_all (b : TBase) : b ∈ TBase.all := by cases b <;> simp [TBase.all]

structure StrFacts (s : Name) (b : TBase) : Prop where
  notKR : krLit.contains (s ++ b.name) = false
  notDelta : startsWith (s ++ b.name) deltaLit = false
  notDegC : ((s ++ b.name) == TBase.degC.name) = false
  notDegF : ((s ++ b.name) == TBase.degF.name) = false
  notInfix : ∀ b' : TBase, isInfix (s ++ b.name) b'.name = false

theorem strFacts_of_mem {syms : List Name} (h : strFactsOK syms = true) {s : Name} (hs : s ∈ syms)
    (b : TBase) : StrFacts s b := by
  simp only [strFactsOK, List.all_eq_true, Bool.and_eq_true, Bool.not_eq_eq_eq_not, Bool.not_true] at h
  have := h s hs b (TBase.mem_all b)
  obtain ⟨⟨⟨⟨h1, h2⟩, h3⟩, h4⟩, h5⟩ := this
  exact ⟨h1, h2, h3, h4, fun b' => h5 b' (TBase.mem_all b')⟩

/-- the facts for every prefix of the regenerated table -/
theorem strFacts {s : Name} (hs : s ∈ genSyms) (b : TBase) : StrFacts s b :=
  strFacts_of_mem strFacts_gen hs b

end Unyt.Temp

namespace Unyt.Temp

/-- the unit is the unprefixed symbol `b` -/
def TU.isBare {K : Type} (u : TU K) (b : TBase) : Bool := u.pre.isNone && u.base == b

/-- a unit of the universe: its prefix (if any) is a symbol of the regenerated prefix table with a
    non-zero value -/
def TU.WF {K : Type} [OfNat K 0] (u : TU K) : Prop :=
  match u.pre with
  | none => True
  | some p => p.sym ∈ genSyms ∧ p.val ≠ 0

section
variable {K : Type} [OfNat K 0]

theorem kr_name (b : TBase) : krLit.contains b.name = (b == .K || b == .R) := by cases b <;> decide
theorem delta_name (b : TBase) : startsWith b.name deltaLit = (b == .dC || b == .dF) := by cases b <;> decide
theorem name_beq (b b' : TBase) : (b.name == b'.name) = (b == b') := by cases b <;> cases b' <;> decide

theorem kr_repr (u : TU K) (h : u.WF) : krLit.contains u.repr = (u.isBare .K || u.isBare .R) := by
  cases u with | mk pre base =>
  cases pre with
  | none => simp only [TU.repr, TU.isBare, Option.isNone_none, Bool.true_and]; exact kr_name base
  | some p =>
    simp only [TU.repr, TU.isBare, Option.isNone_some, Bool.false_and, Bool.or_false]
    exact (strFacts h.1 base).notKR

theorem delta_repr (u : TU K) (h : u.WF) :
    startsWith u.repr deltaLit = (u.isBare .dC || u.isBare .dF) := by
  cases u with | mk pre base =>
  cases pre with
  | none => simp only [TU.repr, TU.isBare, Option.isNone_none, Bool.true_and]; exact delta_name base
  | some p =>
    simp only [TU.repr, TU.isBare, Option.isNone_some, Bool.false_and, Bool.or_false]
    exact (strFacts h.1 base).notDelta

theorem degC_repr (u : TU K) (h : u.WF) : (u.repr == TBase.degC.name) = u.isBare .degC := by
  cases u with | mk pre base =>
  cases pre with
  | none => simp only [TU.repr, TU.isBare, Option.isNone_none, Bool.true_and]; exact name_beq base _
  | some p =>
    simp only [TU.repr, TU.isBare, Option.isNone_some, Bool.false_and]
    exact (strFacts h.1 base).notDegC

theorem degF_repr (u : TU K) (h : u.WF) : (u.repr == TBase.degF.name) = u.isBare .degF := by
  cases u with | mk pre base =>
  cases pre with
  | none => simp only [TU.repr, TU.isBare, Option.isNone_none, Bool.true_and]; exact name_beq base _
  | some p =>
    simp only [TU.repr, TU.isBare, Option.isNone_some, Bool.false_and]
    exact (strFacts h.1 base).notDegF

/-- `name b in name b'` for unprefixed symbols -/
def infixTab (b b' : TBase) : Bool := isInfix b.name b'.name

/-- `repr(u) in repr(v)` when `v` is an unprefixed symbol -/
theorem infix_repr_bare (u : TU K) (h : u.WF) (b' : TBase) :
    isInfix u.repr b'.name = (u.pre.isNone && infixTab u.base b') := by
  cases u with | mk pre base =>
  cases pre with
  | none => simp only [TU.repr, infixTab, Option.isNone_none, Bool.true_and]
  | some p =>
    simp only [TU.repr, Option.isNone_some, Bool.false_and]
    exact (strFacts h.1 base).notInfix b'

/-- the only containments among the six names -/
theorem infixTab_eq (b b' : TBase) :
    infixTab b b' = (b == b' || (b == .degC && b' == .dC) || (b == .degF && b' == .dF)) := by
  cases b <;> cases b' <;> decide

/-- the conjunction `s_u in s_v and s_v.startswith("delta_")` of `_difference_units` -/
theorem infix_and_delta (u v : TU K) (hu : u.WF) (hv : v.WF) :
    (isInfix u.repr v.repr && startsWith v.repr deltaLit)
      = (u.pre.isNone && infixTab u.base v.base && (v.isBare .dC || v.isBare .dF)) := by
  rw [delta_repr v hv]
  cases v with | mk pre base =>
  cases pre with
  | none =>
    have := infix_repr_bare u hu base
    simp only [TU.repr] at this ⊢
    rw [this]
  | some p => simp [TU.isBare]

theorem splitFacts_gen : splitFactsOK genSyms genNames = true := by decide +kernel

/-- a unit of the universe whose prefix, if any, sits on a symbol that accepts prefixes -/
def TU.WFP (u : TU K) : Prop := u.WF ∧ (u.pre.isSome = true → Ref.prefixable u.base = true)

/-- `_split_prefix(str(u))[0] != ""` exactly for the prefixed spellings -/
theorem splits_str (u : TU K) (h : u.WFP) :
    splitsPrefix genSyms genNames u.str = u.pre.isSome := by
  have hf := splitFacts_gen
  simp only [splitFactsOK, Bool.and_eq_true, List.all_eq_true, Bool.or_eq_true,
    Bool.not_eq_eq_eq_not, Bool.not_true] at hf
  rcases u with ⟨pre, base⟩
  cases pre with
  | none => simpa [TU.str] using hf.2 base (TBase.mem_all base)
  | some p =>
    have hp : Ref.prefixable base = true := h.2 rfl
    rcases hf.1 p.sym h.1.1 base (TBase.mem_all base) with h' | h'
    · rw [hp] at h'; cases h'
    · simpa [TU.str] using h'

end
end Unyt.Temp
