/-
  Helper lemmas for C17 (no property statements here).
-/
import UnytModel.Dtype
import UnytModel.Ref.C17

namespace Unyt.C17L
open Unyt Unyt.Ref.C17

/-- decidable equality of outcomes (core has none for `Except`) -/
instance decEqExcept {ε α : Type} [DecidableEq ε] [DecidableEq α] : DecidableEq (Except ε α)
  | .ok a, .ok b => if h : a = b then isTrue (by rw [h]) else isFalse (by intro e; cases e; exact h rfl)
  | .error a, .error b => if h : a = b then isTrue (by rw [h]) else isFalse (by intro e; cases e; exact h rfl)
  | .ok _, .error _ => isFalse (by intro e; cases e)
  | .error _, .ok _ => isFalse (by intro e; cases e)

/-- every integer up to `2^p` fits a `p`-bit significand -/
theorem exactIn_of_le (p n : Nat) (hp : 1 ≤ p) (h : n ≤ 2 ^ p) : exactIn p n = true := by
  unfold exactIn
  rcases Nat.lt_or_eq_of_le h with hlt | heq
  · by_cases h0 : n = 0
    · subst h0; simp
    · have : n.log2 < p := (Nat.log2_lt h0).2 hlt
      have e : n.log2 + 1 - p = 0 := by omega
      simp [e, Nat.mod_one]
  · subst heq
    have e : (2 ^ p).log2 + 1 - p = 1 := by rw [Nat.log2_two_pow]; omega
    rw [e]
    obtain ⟨q, rfl⟩ : ∃ q, p = q + 1 := ⟨p - 1, by omega⟩
    simp [Nat.pow_succ]

/-- powers of two fit any significand -/
theorem exactIn_two_pow (p k : Nat) (hp : 1 ≤ p) : exactIn p (2 ^ k) = true := by
  unfold exactIn
  rw [Nat.log2_two_pow]
  have hd : 2 ^ (k + 1 - p) ∣ 2 ^ k := Nat.pow_dvd_pow 2 (by omega)
  simp [Nat.mod_eq_zero_of_dvd hd]

/-- an integer that does not fit exceeds `2^p` -/
theorem lt_of_not_exactIn (p n : Nat) (hp : 1 ≤ p) (h : exactIn p n = false) : 2 ^ p < n := by
  apply Nat.lt_of_not_le
  intro hle
  rw [exactIn_of_le p n hp hle] at h
  exact Bool.noConfusion h

/-- `np.abs` only differs from the absolute value at the most negative integer, a power of two,
    which every significand holds -/
theorem npAbs_of_inexact (p : Nat) (hp : 1 ≤ p) (d : Dtype) (v : Int)
    (h1 : exactIn p v.natAbs = false) : npAbs d v = Int.ofNat v.natAbs := by
  unfold npAbs
  split
  · rename_i hc
    exfalso
    have hv : v.natAbs = 2 ^ (8 * d.size - 1) := by
      rw [hc.2, Int.natAbs_neg]
      exact Int.natAbs_pow 2 _ ▸ rfl
    rw [hv, exactIn_two_pow _ _ hp] at h1
    exact Bool.noConfusion h1
  · rfl

/-- the inclusive threshold test (`np.abs(v) >= 2^p + 1`) fires on **every** integer that does not
    fit a `p`-bit significand -/
theorem largeWarns_of_inexact (P : DtypeRules) (s p : Nat) (hp : 1 ≤ p) (hs : P.largeStrict = false)
    (hL : P.largeInput.lookup s = some (2 ^ p + 1)) (d : Dtype) (v : Int)
    (h1 : exactIn p v.natAbs = false) :
    largeWarns P s d [v] = true := by
  have hgt : 2 ^ p < v.natAbs := lt_of_not_exactIn p _ hp h1
  have habs := npAbs_of_inexact p hp d v h1
  unfold largeWarns
  rw [hL]
  simp only [List.any_cons, List.any_nil, Bool.or_false, habs, hs]
  have hne : (2 ^ p + 1 != 0) = true := by simp
  have hle : 2 ^ p + 1 ≤ v.natAbs := hgt
  have hle' : Int.ofNat v.natAbs ≥ Int.ofNat (2 ^ p + 1) := Int.ofNat_le.2 hle
  simp only [hne, Bool.true_and, Bool.false_eq_true, if_false, decide_eq_true_eq]
  exact hle'

/-- no spurious warning: the inclusive test fires only for magnitudes from the threshold on -/
theorem ge_of_largeWarns (P : DtypeRules) (s L : Nat) (hs : P.largeStrict = false)
    (hL : P.largeInput.lookup s = some L)
    (d : Dtype) (v : Int) (h : largeWarns P s d [v] = true) : L ≤ v.natAbs := by
  unfold largeWarns at h
  rw [hL] at h
  simp only [List.any_cons, List.any_nil, Bool.or_false, Bool.and_eq_true, hs, Bool.false_eq_true,
    if_false, decide_eq_true_eq] at h
  have h2 := h.2
  unfold npAbs at h2
  split at h2
  · rename_i hc
    exfalso
    rw [hc.2] at h2
    have : (0 : Int) ≤ Int.ofNat L := Int.natCast_nonneg L
    have : (0 : Int) < (2 : Int) ^ (8 * d.size - 1) := Int.pow_pos (by omega)
    omega
  · exact Int.ofNat_le.1 h2

/-- `np.any` over an array: the test fires on an array as soon as it fires on one of its elements -/
theorem largeWarns_of_mem (P : DtypeRules) (s : Nat) (d : Dtype) (vs : List Int) (v : Int)
    (hv : v ∈ vs) (h : largeWarns P s d [v] = true) : largeWarns P s d vs = true := by
  unfold largeWarns at *
  cases hL : P.largeInput.lookup s with
  | none => rw [hL] at h; exact Bool.noConfusion h
  | some large =>
    rw [hL] at h
    simp only [List.any_cons, List.any_nil, Bool.or_false, Bool.and_eq_true] at h
    simp only [Bool.and_eq_true, List.any_eq_true]
    exact ⟨h.1, v, hv, h.2⟩

/-- … and only then -/
theorem exists_of_largeWarns (P : DtypeRules) (s : Nat) (d : Dtype) (vs : List Int)
    (h : largeWarns P s d vs = true) : ∃ v ∈ vs, largeWarns P s d [v] = true := by
  unfold largeWarns at *
  cases hL : P.largeInput.lookup s with
  | none => rw [hL] at h; exact Bool.noConfusion h
  | some large =>
    rw [hL] at h
    simp only [Bool.and_eq_true, List.any_eq_true] at h
    obtain ⟨h1, v, hv, h2⟩ := h
    refine ⟨v, hv, ?_⟩
    simp only [List.any_cons, List.any_nil, Bool.or_false, Bool.and_eq_true]
    exact ⟨h1, h2⟩

end Unyt.C17L
