/-
  Helper lemmas about factor lists and the exponent function (no property statements here).
-/
import UnytModel.UExpr

namespace Unyt
open UExpr

@[simp] theorem expOf_nil (s : String) : expOf [] s = 0 := rfl

@[simp] theorem expOf_cons (t : String) (q : Rat) (r : Factors) (s : String) :
    expOf ((t, q) :: r) s = (if t = s then q else 0) + expOf r s := rfl

theorem expOf_append (a b : Factors) (s : String) :
    expOf (a ++ b) s = expOf a s + expOf b s := by
  induction a with
  | nil => simp only [List.nil_append, expOf_nil]; grind
  | cons p r ih => obtain ⟨t, q⟩ := p; simp only [List.cons_append, expOf_cons, ih]; grind

theorem expOf_negF (f : Factors) (s : String) : expOf (negF f) s = - expOf f s := by
  induction f with
  | nil => simp [negF]
  | cons p r ih =>
    obtain ⟨t, q⟩ := p
    have ih' : expOf (List.map (fun p => (p.1, -p.2)) r) s = -expOf r s := ih
    simp only [negF, List.map_cons, expOf_cons, ih']
    split <;> grind

theorem expOf_scaleF (f : Factors) (k : Rat) (s : String) : expOf (scaleF f k) s = expOf f s * k := by
  induction f with
  | nil => simp [scaleF]
  | cons p r ih =>
    obtain ⟨t, q⟩ := p
    have ih' : expOf (List.map (fun p => (p.1, p.2 * k)) r) s = expOf r s * k := ih
    simp only [scaleF, List.map_cons, expOf_cons, ih']
    split <;> grind

theorem expOf_insertF (s : String) (q : Rat) (f : Factors) (t : String) :
    expOf (insertF s q f) t = (if s = t then q else 0) + expOf f t := by
  induction f with
  | nil => simp [insertF]
  | cons p r ih =>
    obtain ⟨u, w⟩ := p
    simp only [insertF]
    split
    · rename_i h; subst h; simp only [expOf_cons]; split <;> grind
    · split
      · simp only [expOf_cons]
      · simp only [expOf_cons, ih]; grind

theorem expOf_sortMerge (f : Factors) (t : String) : expOf (sortMerge f) t = expOf f t := by
  induction f with
  | nil => rfl
  | cons p r ih =>
    obtain ⟨u, w⟩ := p
    have : sortMerge ((u, w) :: r) = insertF u w (sortMerge r) := rfl
    rw [this, expOf_insertF, ih]; rfl

theorem expOf_dropZeros (f : Factors) (t : String) : expOf (dropZeros f) t = expOf f t := by
  induction f with
  | nil => rfl
  | cons p r ih =>
    obtain ⟨u, w⟩ := p
    simp only [dropZeros, List.filter_cons]
    have ih' : expOf (List.filter (fun p => p.2 != 0) r) t = expOf r t := ih
    by_cases h : w = 0
    · subst h; simp [ih']; grind
    · have : ((u, w).2 != 0) = true := by simpa using h
      simp only [this, if_true, expOf_cons, ih']

/-- the canonical form denotes the same exponent function -/
theorem expOf_normF (f : Factors) (t : String) : expOf (normF f) t = expOf f t := by
  simp only [normF, expOf_dropZeros, expOf_sortMerge]

end Unyt
