/-
  Helper lemmas for C12: the refinement relation between the concrete registry state and the
  contents computed from the history, and its preservation by look-ups and by safe edits.
  (No property statement here; those are in `UnytProofs/C12.lean`.)
-/
import UnytModel.RegistryC12
import UnytProofs.Lemmas.Lut

set_option linter.unusedSectionVars false
set_option linter.unusedVariables false

namespace Unyt.RegC12
open Unyt

variable {K : Type}

/-! ### association lists -/

theorem find?_eraseKeys (t : Lut K) (D : List String) (k : String) :
    Lut.find? (eraseKeys t D) k = if k ∈ D then none else Lut.find? t k := by
  induction t with
  | nil => simp [eraseKeys, Lut.find?]
  | cons p r ih =>
    obtain ⟨a, e⟩ := p
    simp only [eraseKeys] at ih ⊢
    by_cases ha : a ∈ D
    · have hc : D.contains a = true := by simpa using ha
      simp only [List.filter_cons, hc, Bool.not_true, Bool.false_eq_true, if_false, ih, Lut.find?]
      by_cases hk : a = k
      · subst hk; simp [ha]
      · simp [hk]
    · have hc : D.contains a = false := by simpa using ha
      simp only [List.filter_cons, hc, Bool.not_false, if_true, Lut.find?, ih]
      by_cases hk : a = k
      · subst hk; simp [ha]
      · simp [hk]

theorem find?_eraseKeys_nil (t : Lut K) (k : String) : Lut.find? (eraseKeys t []) k = Lut.find? t k := by
  simp [find?_eraseKeys]

theorem cfind_mem (l : List (String × Nat)) (q : String) (i : Nat) (h : cfind l q = some i) :
    (q, i) ∈ l := by
  induction l with
  | nil => simp [cfind] at h
  | cons p r ih =>
    obtain ⟨k, j⟩ := p
    simp only [cfind] at h
    split at h
    · rename_i hk; subst hk; simp at h; subst h; simp
    · exact List.mem_cons_of_mem _ (ih h)

/-! ### the concrete table refines the contents -/

/-- `t` is the contents `c` plus derived entries, at the keys `D`, that resolve as in `c` -/
structure LutRefines [Mul K] (pre : Prefixes K) (c t : Lut K) (D : List String) : Prop where
  plain : ∀ k, k ∉ D → t.find? k = c.find? k
  der : ∀ k, k ∈ D → c.find? k = none ∧
    ∃ d, t.find? k = some d ∧ d.prefixable = false ∧ resolve pre c k = some d

section
variable [Mul K]

theorem LutRefines.refl (pre : Prefixes K) (c : Lut K) : LutRefines pre c c [] :=
  ⟨fun _ _ => rfl, fun k hk => by simp at hk⟩

theorem splitPrefix_refines (pre : Prefixes K) (c t : Lut K) (D : List String)
    (h : LutRefines pre c t D) (k : String) : splitPrefix pre t k = splitPrefix pre c k := by
  simp only [splitPrefix]
  split
  · rfl
  · rename_i p w hc
    split
    · rfl
    · by_cases hw : w ∈ D
      · obtain ⟨hcn, d, htd, hdp, _⟩ := h.der w hw
        simp [hcn, htd, hdp]
      · rw [h.plain w hw]

theorem resolve_refines (pre : Prefixes K) (c t : Lut K) (D : List String)
    (h : LutRefines pre c t D) (k : String) : resolve pre t k = resolve pre c k := by
  by_cases hk : k ∈ D
  · obtain ⟨_, d, htd, _, hr⟩ := h.der k hk
    rw [hr]; simp only [resolve, lookupUnitSymbol, htd]
  · have hf := h.plain k hk
    have hs := splitPrefix_refines pre c t D h k
    simp only [resolve, lookupUnitSymbol, hf, hs]
    cases hck : c.find? k with
    | some e => rfl
    | none =>
      simp only []
      by_cases hp : (splitPrefix pre c k).1 = ""
      · simp [hp]
      · simp only [hp, if_false]
        obtain ⟨_, _, e, he, _⟩ :=
          splitPrefix_spec pre c k (splitPrefix pre c k).1 (splitPrefix pre c k).2 rfl hp
        have hw : (splitPrefix pre c k).2 ∉ D := by
          intro hin
          have := (h.der _ hin).1
          rw [this] at he; contradiction
        rw [h.plain _ hw]
        cases c.find? (splitPrefix pre c k).2 <;> cases pre.find? (splitPrefix pre c k).1 <;> rfl

theorem lookupW_refines (pre : Prefixes K) (c t : Lut K) (D : List String)
    (h : LutRefines pre c t D) (s : String) :
    LutRefines pre c (lookupW pre t D s).1 (lookupW pre t D s).2.1 ∧
      (lookupW pre t D s).2.2 = resolve pre c s := by
  have hr := resolve_refines pre c t D h s
  simp only [lookupW]
  cases hl : lookupUnitSymbol pre t s with
  | error e =>
    refine ⟨h, ?_⟩
    rw [← hr]; simp only [resolve, hl]
  | ok r =>
    obtain ⟨e, t'⟩ := r
    have hres : resolve pre c s = some e := by rw [← hr]; simp only [resolve, hl]
    simp only []
    refine ⟨?_, hres.symm⟩
    rcases lookup_cases pre t s e t' hl with ⟨hf, rfl⟩ | ⟨hn, hd, rfl⟩
    · simp only [hf, Option.isNone_some, Bool.false_eq_true, if_false]; exact h
    · simp only [hn, Option.isNone_none, if_true]
      have hsD : s ∉ D := by
        intro hin
        obtain ⟨_, d, htd, _, _⟩ := h.der s hin
        rw [hn] at htd; contradiction
      have hcs : c.find? s = none := by rw [← h.plain s hsD]; exact hn
      constructor
      · intro k hk
        have hks : k ≠ s := fun heq => hk (heq ▸ List.mem_cons_self)
        have hkD : k ∉ D := fun hin => hk (List.mem_cons_of_mem _ hin)
        rw [Lut.find?_set]; simp only [hks, if_false]; exact h.plain k hkD
      · intro k hk
        by_cases hks : k = s
        · subst hks
          exact ⟨hcs, e, by rw [Lut.find?_set]; simp, hd, hres⟩
        · have hkD : k ∈ D := by
            rcases List.mem_cons.mp hk with h1 | h1
            · exact (hks h1).elim
            · exact h1
          obtain ⟨h1, d, h2, h3, h4⟩ := h.der k hkD
          exact ⟨h1, d, by rw [Lut.find?_set]; simp only [hks, if_false]; exact h2, h3, h4⟩

end

section
variable [Mul K] [OfNat K 1] [OfNat K 0] [RPow K]

theorem evalW_refines (pre : Prefixes K) (c : Lut K) (fs : Factors) :
    ∀ (t : Lut K) (D : List String), LutRefines pre c t D →
      LutRefines pre c (evalW pre t D fs).1 (evalW pre t D fs).2.1 ∧
        (evalW pre t D fs).2.2 = denoteF pre c fs := by
  induction fs with
  | nil => intro t D h; exact ⟨h, rfl⟩
  | cons p rest ih =>
    intro t D h
    obtain ⟨s, q⟩ := p
    obtain ⟨h1, h2⟩ := lookupW_refines pre c t D h s
    simp only [evalW, denoteF]
    rcases hl : lookupW pre t D s with ⟨t', D', r⟩
    rw [hl] at h1 h2
    simp only [] at h1 h2
    subst h2
    cases hr : resolve pre c s with
    | none => exact ⟨h1, rfl⟩
    | some ent =>
      simp only []
      obtain ⟨g1, g2⟩ := ih t' D' h1
      rcases he : evalW pre t' D' rest with ⟨t'', D'', r2⟩
      rw [he] at g1 g2
      simp only [] at g1 g2
      subst g2
      cases hd : denoteF pre c rest with
      | none => exact ⟨g1, rfl⟩
      | some vd => obtain ⟨v, d⟩ := vd; exact ⟨g1, rfl⟩

theorem evalExpr_refines (pre : Prefixes K) (c t : Lut K) (D : List String)
    (h : LutRefines pre c t D) (ex : PExpr K) :
    LutRefines pre c (evalExpr pre t D ex).1 (evalExpr pre t D ex).2.1 ∧
      (evalExpr pre t D ex).2.2 = pureEval pre c ex := by
  cases ex with
  | atom s =>
    obtain ⟨h1, h2⟩ := lookupW_refines pre c t D h s
    simp only [evalExpr, pureEval]
    rcases hl : lookupW pre t D s with ⟨t', D', r⟩
    rw [hl] at h1 h2
    simp only [] at h1 h2
    subst h2
    cases hr : resolve pre c s with
    | none => exact ⟨h1, rfl⟩
    | some e => exact ⟨h1, rfl⟩
  | prod co fs =>
    obtain ⟨h1, h2⟩ := evalW_refines pre c fs t D h
    simp only [evalExpr, pureEval]
    rcases hl : evalW pre t D fs with ⟨t', D', r⟩
    rw [hl] at h1 h2
    simp only [] at h1 h2
    subst h2
    cases hr : denoteF pre c fs with
    | none => exact ⟨h1, rfl⟩
    | some vd => obtain ⟨v, d⟩ := vd; exact ⟨h1, rfl⟩

/-! ### an edit of `sym` does not change what strings avoiding `sym` resolve to -/

theorem resolve_agree (pre : Prefixes K) (c c' : Lut K) (sym x : String)
    (h2 : ∀ k, k ≠ sym → c'.find? k = c.find? k) (hx : symAvoids sym x = true) :
    resolve pre c' x = resolve pre c x := by
  simp only [symAvoids, restNe, Bool.and_eq_true, bne_iff_ne, ne_eq] at hx
  obtain ⟨hxs, hrest⟩ := hx
  have hfx := h2 x hxs
  have hsp : splitPrefix pre c' x = splitPrefix pre c x := by
    simp only [splitPrefix]
    split
    · rfl
    · rename_i p w hc
      rw [hc] at hrest
      simp only [bne_iff_ne, ne_eq] at hrest
      rw [h2 w hrest]
  simp only [resolve, lookupUnitSymbol, hfx, hsp]
  cases hck : c.find? x with
  | some e => rfl
  | none =>
    simp only []
    by_cases hp : (splitPrefix pre c x).1 = ""
    · simp [hp]
    · simp only [hp, if_false]
      obtain ⟨hcand, _, _⟩ :=
        splitPrefix_spec pre c x (splitPrefix pre c x).1 (splitPrefix pre c x).2 rfl hp
      rw [hcand] at hrest
      simp only [bne_iff_ne, ne_eq] at hrest
      rw [h2 _ hrest]
      cases c.find? (splitPrefix pre c x).2 <;> cases pre.find? (splitPrefix pre c x).1 <;> rfl

theorem denoteF_agree (pre : Prefixes K) (c c' : Lut K) (sym : String)
    (h2 : ∀ k, k ≠ sym → c'.find? k = c.find? k) (fs : Factors)
    (hx : (fs.all fun p => symAvoids sym p.1) = true) :
    denoteF pre c' fs = denoteF pre c fs := by
  induction fs with
  | nil => rfl
  | cons p rest ih =>
    obtain ⟨s, q⟩ := p
    simp only [List.all_cons, Bool.and_eq_true] at hx
    simp only [denoteF, resolve_agree pre c c' sym s h2 hx.1, ih hx.2]

theorem pureEval_agree (pre : Prefixes K) (c c' : Lut K) (sym : String)
    (h2 : ∀ k, k ≠ sym → c'.find? k = c.find? k) (ex : PExpr K)
    (hx : exprAvoids sym ex = true) : pureEval pre c' ex = pureEval pre c ex := by
  cases ex with
  | atom s => simp only [pureEval, resolve_agree pre c c' sym s h2 (by simpa [exprAvoids] using hx)]
  | prod co fs => simp only [pureEval, denoteF_agree pre c c' sym h2 fs (by simpa [exprAvoids] using hx)]

theorem refines_edit (pre : Prefixes K) (c c' t t' : Lut K) (D : List String) (sym : String)
    (h : LutRefines pre c t D) (hD : ∀ k, k ∈ D → restNe k sym = true)
    (h1 : ∀ k, k ≠ sym → t'.find? k = t.find? k)
    (h2 : ∀ k, k ≠ sym → c'.find? k = c.find? k)
    (h3 : t'.find? sym = c'.find? sym) :
    LutRefines pre c' t' (D.filter (· ≠ sym)) := by
  constructor
  · intro k hk
    by_cases hks : k = sym
    · subst hks; exact h3
    · have hkD : k ∉ D := fun hin => hk (by simp [hin, hks])
      rw [h1 k hks, h2 k hks]; exact h.plain k hkD
  · intro k hk
    simp only [List.mem_filter, decide_eq_true_eq] at hk
    obtain ⟨hkD, hks⟩ := hk
    obtain ⟨g1, d, g2, g3, g4⟩ := h.der k hkD
    refine ⟨by rw [h2 k hks]; exact g1, d, by rw [h1 k hks]; exact g2, g3, ?_⟩
    rw [resolve_agree pre c c' sym k h2 (by simp [symAvoids, hks, hD k hkD])]; exact g4

/-! ### the invariant -/

/-- the concrete state `s` is coherent with the contents `c`: the table refines `c`, every
    cached object is what `c` denotes for its string, a memoised id snapshot equals `c` -/
structure Coherent (pre : Prefixes K) (parse : String → Except Err (PExpr K)) (c : Lut K)
    (s : RegState K) : Prop where
  lut : LutRefines pre c s.lut s.derived
  cache : ∀ q i, (q, i) ∈ s.cache →
    ∃ ex u, parse q = .ok ex ∧ s.objs[i]? = some u ∧ pureEval pre c ex = some u
  memo : s.memoStale = false → ∀ d, s.idMemo = some d → ∀ k, Lut.find? d k = c.find? k

variable (cfg : Cfg) (pre : Prefixes K) (parse : String → Except Err (PExpr K))

theorem coherent_fresh (c : Lut K) : Coherent pre parse c (fresh c) :=
  ⟨LutRefines.refl pre c, fun q i h => by simp [fresh] at h, fun _ d h => by simp [fresh] at h⟩

theorem invalidate_coherent (c : Lut K) (s : RegState K) (h : Coherent pre parse c s) :
    Coherent pre parse c (invalidate cfg s) := by
  obtain ⟨hl, hc, hm⟩ := h
  cases hp : cfg.purgeDerived <;>
    simp only [invalidate, hp, if_true, if_false, Bool.false_eq_true]
  · exact ⟨hl, hc, fun _ d hd => by simp at hd⟩
  · refine ⟨⟨fun k _ => ?_, fun k hk => by simp at hk⟩, hc, fun _ d hd => by simp at hd⟩
    rw [find?_eraseKeys]
    by_cases hk : k ∈ s.derived
    · simp [hk, (hl.der k hk).1]
    · simp [hk, hl.plain k hk]

end

end Unyt.RegC12
