/-
  List helpers for C15: a look-up that succeeds names a member, so a whole-table `all`
  obligation implies the per-row check of any row found by name.
-/
import UnytModel.PhysicalConstantsCheck

namespace Unyt.PCheck
open Unyt Generated

theorem lut_find_mem {K : Type} (t : Lut K) (k : String) (e : Entry K) (h : t.find? k = some e) :
    (k, e) ∈ t := by
  induction t with
  | nil => simp [Lut.find?] at h
  | cons p rest ih =>
    obtain ⟨k', e'⟩ := p
    simp only [Lut.find?] at h
    split at h
    · rename_i hk
      cases h; subst hk; exact List.mem_cons_self
    · exact List.mem_cons_of_mem _ (ih h)

/-- the full unit-vs-constant obligation implies the check of every symbol found by name -/
theorem unitAgree_row (h : unitAndConstantAgree [] = true) (k : String) :
    unitVsConstOkByName k = true ∨ (defaultLut Rat).find? k = none := by
  unfold unitVsConstOkByName
  cases hf : (defaultLut Rat).find? k with
  | none => exact Or.inr rfl
  | some e =>
    left
    unfold unitAndConstantAgree at h
    rw [List.all_eq_true] at h
    have := h (k, e) (lut_find_mem _ k e hf)
    simpa using this

theorem find_mem {α : Type} (l : List α) (p : α → Bool) (a : α) (h : l.find? p = some a) : a ∈ l :=
  List.mem_of_find?_eq_some h

/-- the full values obligation implies the check of every row found by name -/
theorem values_row (h : valuesInClass [] = true) (k : String) :
    valueOkByName k = true ∨ constTable.find? (fun c => c.spec.name == k) = none := by
  unfold valueOkByName
  cases hf : constTable.find? (fun c => c.spec.name == k) with
  | none => exact Or.inr rfl
  | some c =>
    left
    unfold valuesInClass at h
    rw [List.all_eq_true] at h
    have := h c (find_mem _ _ _ hf)
    simpa using this

end Unyt.PCheck
