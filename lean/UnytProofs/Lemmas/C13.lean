/-
  Helper lemmas for C13 (no property statement here): the heap frame facts of
  `UnytModel.RegistryWorld` — what `store`, `regStep`, `create` and `runOp` leave alone.
-/
import UnytModel.RegistryWorld

namespace Unyt.RegWorld
open Unyt RegC12

section
variable {K : Type}

/-! ### cells under `store` -/

theorem lutAt_store_ne (σ : World K) (r : Nat) (ro : RegObj K) (s : RegState K) (c : Nat)
    (h : c ≠ ro.lut) : lutAt (store σ r ro s) c = lutAt σ c := by
  simp only [lutAt, store]
  rw [List.getElem?_set_ne (Ne.symm h)]

theorem lutAt_store_self (σ : World K) (r : Nat) (ro : RegObj K) (s : RegState K)
    (h : ro.lut < σ.luts.length) : lutAt (store σ r ro s) ro.lut = s.lut := by
  simp only [lutAt, store]
  rw [List.getElem?_set_self h]; rfl

theorem cacheAt_store_ne (σ : World K) (r : Nat) (ro : RegObj K) (s : RegState K) (c : Nat)
    (h : c ≠ ro.cache) : cacheAt (store σ r ro s) c = cacheAt σ c := by
  simp only [cacheAt, store]
  rw [List.getElem?_set_ne (Ne.symm h)]

theorem cacheAt_store_self (σ : World K) (r : Nat) (ro : RegObj K) (s : RegState K)
    (h : ro.cache < σ.caches.length) : cacheAt (store σ r ro s) ro.cache = ⟨s.cache, s.objs⟩ := by
  simp only [cacheAt, store]
  rw [List.getElem?_set_self h]; rfl

theorem derivedAt_store_ne (σ : World K) (r : Nat) (ro : RegObj K) (s : RegState K) (c : Nat)
    (h : c ≠ ro.derived) : derivedAt (store σ r ro s) c = derivedAt σ c := by
  simp only [derivedAt, store]
  rw [List.getElem?_set_ne (Ne.symm h)]

theorem derivedAt_store_self (σ : World K) (r : Nat) (ro : RegObj K) (s : RegState K)
    (h : ro.derived < σ.deriveds.length) : derivedAt (store σ r ro s) ro.derived = s.derived := by
  simp only [derivedAt, store]
  rw [List.getElem?_set_self h]; rfl

theorem regs_store_ne (σ : World K) (r r' : Nat) (ro : RegObj K) (s : RegState K) (h : r' ≠ r) :
    (store σ r ro s).regs[r']? = σ.regs[r']? := by
  simp only [store]
  rw [List.getElem?_set_ne (Ne.symm h)]

theorem regs_store_self (σ : World K) (r : Nat) (ro : RegObj K) (s : RegState K)
    (h : r < σ.regs.length) :
    (store σ r ro s).regs[r]? = some { ro with idMemo := s.idMemo, memoStale := s.memoStale } := by
  simp only [store]
  rw [List.getElem?_set_self h]

theorem store_lengths (σ : World K) (r : Nat) (ro : RegObj K) (s : RegState K) :
    (store σ r ro s).luts.length = σ.luts.length ∧ (store σ r ro s).caches.length = σ.caches.length ∧
    (store σ r ro s).deriveds.length = σ.deriveds.length ∧ (store σ r ro s).regs.length = σ.regs.length := by
  simp [store]

theorem store_exported (σ : World K) (r : Nat) (ro : RegObj K) (s : RegState K) :
    (store σ r ro s).exported = σ.exported ∧ (store σ r ro s).systems = σ.systems := ⟨rfl, rfl⟩

/-- the registry sees exactly what was stored through it -/
theorem view_store_self (σ : World K) (r : Nat) (ro : RegObj K) (s : RegState K)
    (hr : ro.InRange σ) :
    view (store σ r ro s) { ro with idMemo := s.idMemo, memoStale := s.memoStale } = s := by
  obtain ⟨h1, h2, h3⟩ := hr
  simp only [view]
  rw [lutAt_store_self σ r ro s h1, cacheAt_store_self σ r ro s h2, derivedAt_store_self σ r ro s h3]

/-- a registry that shares no container with `ro` sees nothing of what is stored through `ro` -/
theorem view_store_sep (σ : World K) (r : Nat) (ro ro' : RegObj K) (s : RegState K)
    (h : Sep ro ro') : view (store σ r ro s) ro' = view σ ro' := by
  obtain ⟨h1, h2, h3⟩ := h
  simp only [view]
  rw [lutAt_store_ne σ r ro s _ (Ne.symm h1), cacheAt_store_ne σ r ro s _ (Ne.symm h2),
      derivedAt_store_ne σ r ro s _ (Ne.symm h3)]

theorem wf_store (σ : World K) (r : Nat) (ro : RegObj K) (s : RegState K) (hw : WF σ)
    (hro : σ.regs[r]? = some ro) : WF (store σ r ro s) := by
  intro r' ro' h'
  have hl := store_lengths σ r ro s
  by_cases hrr : r' = r
  · subst hrr
    have hlt : r' < σ.regs.length := by
      rcases List.getElem?_eq_some_iff.mp hro with ⟨h, _⟩; exact h
    rw [regs_store_self σ r' ro s hlt] at h'
    cases h'
    have := hw r' ro hro
    simp only [RegObj.InRange] at this ⊢
    rw [hl.1, hl.2.1, hl.2.2.1]; exact this
  · rw [regs_store_ne σ r r' ro s hrr] at h'
    have := hw r' ro' h'
    simp only [RegObj.InRange] at this ⊢
    rw [hl.1, hl.2.1, hl.2.2.1]; exact this

end

section
variable {K : Type} [Mul K] [OfNat K 1] [OfNat K 0] [RPow K]
variable (cfg : Cfg) (pre : Prefixes K) (parse : String → Except Err (PExpr K))

/-! ### one call through a registry -/

/-- `regStep` either leaves the world alone or stores C12's step through `r` -/
theorem regStep_cases (σ : World K) (r : Nat) (op : Op K) :
    (regStep cfg pre parse σ r op).1 = σ ∨
    ∃ ro, σ.regs[r]? = some ro ∧
      regStep cfg pre parse σ r op =
        (store σ r ro (step cfg pre parse (view σ ro) op).1, (step cfg pre parse (view σ ro) op).2) := by
  unfold regStep
  split
  · left; rfl
  · rename_i ro hro
    split
    · left; rfl
    · right; exact ⟨ro, hro, rfl⟩

theorem regStep_wf (σ : World K) (r : Nat) (op : Op K) (hw : WF σ) :
    WF (regStep cfg pre parse σ r op).1 := by
  rcases regStep_cases cfg pre parse σ r op with h | ⟨ro, hro, h⟩
  · rw [h]; exact hw
  · rw [h]; exact wf_store σ r ro _ hw hro

/-- registry objects other than `r` are not touched (their addresses and own fields) -/
theorem regStep_regs_ne (σ : World K) (r r' : Nat) (op : Op K) (h : r' ≠ r) :
    (regStep cfg pre parse σ r op).1.regs[r']? = σ.regs[r']? := by
  rcases regStep_cases cfg pre parse σ r op with h1 | ⟨ro, _, h1⟩
  · rw [h1]
  · rw [h1]; exact regs_store_ne σ r r' ro _ h

/-- `r` keeps its three addresses and its class -/
theorem regStep_regs_self (σ : World K) (r : Nat) (op : Op K) (ro : RegObj K)
    (hro : σ.regs[r]? = some ro) :
    ∃ ro', (regStep cfg pre parse σ r op).1.regs[r]? = some ro' ∧ ro'.lut = ro.lut ∧
      ro'.cache = ro.cache ∧ ro'.derived = ro.derived ∧ ro'.frozen = ro.frozen ∧ ro'.usys = ro.usys := by
  rcases regStep_cases cfg pre parse σ r op with h1 | ⟨ro1, hro1, h1⟩
  · rw [h1]; exact ⟨ro, hro, rfl, rfl, rfl, rfl, rfl⟩
  · rw [h1]
    rw [hro] at hro1; cases hro1
    have hlt : r < σ.regs.length := by
      rcases List.getElem?_eq_some_iff.mp hro with ⟨h, _⟩; exact h
    exact ⟨_, regs_store_self σ r ro _ hlt, rfl, rfl, rfl, rfl, rfl⟩

theorem regStep_lengths (σ : World K) (r : Nat) (op : Op K) :
    (regStep cfg pre parse σ r op).1.luts.length = σ.luts.length ∧
    (regStep cfg pre parse σ r op).1.caches.length = σ.caches.length ∧
    (regStep cfg pre parse σ r op).1.deriveds.length = σ.deriveds.length ∧
    (regStep cfg pre parse σ r op).1.regs.length = σ.regs.length := by
  rcases regStep_cases cfg pre parse σ r op with h1 | ⟨ro, _, h1⟩
  · rw [h1]; exact ⟨rfl, rfl, rfl, rfl⟩
  · rw [h1]; exact store_lengths σ r ro _

theorem regStep_exported (σ : World K) (r : Nat) (op : Op K) :
    (regStep cfg pre parse σ r op).1.exported = σ.exported ∧
    (regStep cfg pre parse σ r op).1.systems = σ.systems := by
  rcases regStep_cases cfg pre parse σ r op with h1 | ⟨ro, _, h1⟩
  · rw [h1]; exact ⟨rfl, rfl⟩
  · rw [h1]; exact ⟨rfl, rfl⟩

/-- cell-level frame: a table cell that is not `r`'s is not written -/
theorem regStep_lutAt_ne (σ : World K) (r : Nat) (op : Op K) (ro : RegObj K)
    (hro : σ.regs[r]? = some ro) (c : Nat) (hc : c ≠ ro.lut) :
    lutAt (regStep cfg pre parse σ r op).1 c = lutAt σ c := by
  rcases regStep_cases cfg pre parse σ r op with h1 | ⟨ro1, hro1, h1⟩
  · rw [h1]
  · rw [h1]; rw [hro] at hro1; cases hro1
    exact lutAt_store_ne σ r ro _ c hc

/-- view-level frame: a registry sharing no container with `r` sees nothing of a call through `r` -/
theorem regStep_view_sep (σ : World K) (r : Nat) (op : Op K) (ro ro' : RegObj K)
    (hro : σ.regs[r]? = some ro) (hs : Sep ro ro') :
    view (regStep cfg pre parse σ r op).1 ro' = view σ ro' := by
  rcases regStep_cases cfg pre parse σ r op with h1 | ⟨ro1, hro1, h1⟩
  · rw [h1]
  · rw [h1]; rw [hro] at hro1; cases hro1
    exact view_store_sep σ r ro ro' _ hs

/-- a call through `r` in the world is C12's step on `r`'s view: the new view and the answer -/
theorem regStep_own (σ : World K) (r : Nat) (op : Op K) (ro : RegObj K) (hw : WF σ)
    (hro : σ.regs[r]? = some ro) (hf : (ro.frozen && isModifyOrRemove op) = false) :
    viewOf (regStep cfg pre parse σ r op).1 r = some (step cfg pre parse (view σ ro) op).1 ∧
    (regStep cfg pre parse σ r op).2 = (step cfg pre parse (view σ ro) op).2 := by
  have hlt : r < σ.regs.length := by
    rcases List.getElem?_eq_some_iff.mp hro with ⟨h, _⟩; exact h
  have hstep : regStep cfg pre parse σ r op =
      (store σ r ro (step cfg pre parse (view σ ro) op).1, (step cfg pre parse (view σ ro) op).2) := by
    unfold regStep
    rw [hro]
    simp only [hf, Bool.false_eq_true, if_false]
  rw [hstep]
  refine ⟨?_, rfl⟩
  simp only [viewOf]
  rw [regs_store_self σ r ro _ hlt]
  simp only [Option.map_some]
  rw [view_store_self σ r ro _ (hw r ro hro)]

/-- the refusal of the default registry: nothing changes -/
theorem regStep_frozen (σ : World K) (r : Nat) (op : Op K) (ro : RegObj K)
    (hro : σ.regs[r]? = some ro) (hf : ro.frozen = true) (hop : isModifyOrRemove op = true) :
    regStep cfg pre parse σ r op = (σ, .err .TypeError) := by
  unfold regStep
  rw [hro]
  simp [hf, hop]

end

end Unyt.RegWorld

namespace Unyt.RegWorld
open Unyt RegC12

section
variable {K : Type}

/-! ### the observed registry -/

/-- what stays fixed about an observed registry `r` along a history: its index, its three addresses and
    its class (those of `a`), every address allocated, and no other registry sharing a container with it -/
structure Holds (σ : World K) (r : Nat) (a : RegObj K) : Prop where
  wf : WF σ
  here : ∃ ro, σ.regs[r]? = some ro ∧ ro.lut = a.lut ∧ ro.cache = a.cache ∧ ro.derived = a.derived ∧
    ro.frozen = a.frozen
  sep : ∀ (r' : Nat) (ro' : RegObj K), r' ≠ r → σ.regs[r']? = some ro' → Sep a ro'

/-- the registry object `r` and everything it sees are the same in `σ'` as in `σ` -/
def Untouched (σ σ' : World K) (r : Nat) : Prop :=
  σ'.regs[r]? = σ.regs[r]? ∧ ∀ ro, σ.regs[r]? = some ro → view σ' ro = view σ ro

theorem Untouched.refl (σ : World K) (r : Nat) : Untouched σ σ r := ⟨rfl, fun _ _ => rfl⟩

theorem Untouched.trans {σ σ' σ'' : World K} {r : Nat} (h1 : Untouched σ σ' r) (h2 : Untouched σ' σ'' r) :
    Untouched σ σ'' r := by
  refine ⟨h2.1.trans h1.1, fun ro hro => ?_⟩
  rw [h2.2 ro (h1.1.trans hro), h1.2 ro hro]

theorem Untouched.viewOf {σ σ' : World K} {r : Nat} (h : Untouched σ σ' r) : viewOf σ' r = viewOf σ r := by
  simp only [RegWorld.viewOf]
  rw [h.1]
  cases hr : σ.regs[r]? with
  | none => rfl
  | some ro => simp only [Option.map_some]; rw [h.2 ro hr]

theorem Sep.symm' {a b : RegObj K} (h : Sep a b) : Sep b a := ⟨h.1.symm, h.2.1.symm, h.2.2.symm⟩

/-- `Sep` reads the three addresses only -/
theorem Sep.of_addr {a a' b : RegObj K} (h : Sep a b) (h1 : a'.lut = a.lut) (h2 : a'.cache = a.cache)
    (h3 : a'.derived = a.derived) : Sep a' b := by
  unfold Sep at *; rw [h1, h2, h3]; exact h

theorem getElem?_append_lt {α : Type} (l x : List α) (c : Nat) (h : c < l.length) :
    (l ++ x)[c]? = l[c]? := List.getElem?_append_left h

/-- a world that only grew (cells appended, no cell of `ro` rewritten) shows `ro` the same things -/
theorem view_of_cells (σ σ' : World K) (ro : RegObj K)
    (h1 : lutAt σ' ro.lut = lutAt σ ro.lut) (h2 : cacheAt σ' ro.cache = cacheAt σ ro.cache)
    (h3 : derivedAt σ' ro.derived = derivedAt σ ro.derived) : view σ' ro = view σ ro := by
  simp only [view]; rw [h1, h2, h3]

end

section
variable {K : Type} [Mul K] [OfNat K 1] [OfNat K 0] [RPow K]
variable (cfg : Cfg) (wc : WCfg) (pre : Prefixes K) (parse : String → Except Err (PExpr K))

/-- a call through another registry: the observed one keeps everything -/
theorem regStep_other (σ : World K) (r r' : Nat) (a : RegObj K) (op : Op K) (h : Holds σ r a)
    (hne : r' ≠ r) :
    Holds (regStep cfg pre parse σ r' op).1 r a ∧ Untouched σ (regStep cfg pre parse σ r' op).1 r := by
  obtain ⟨ro, hro, e1, e2, e3, e4⟩ := h.here
  have hregs : (regStep cfg pre parse σ r' op).1.regs[r]? = σ.regs[r]? :=
    regStep_regs_ne cfg pre parse σ r' r op (Ne.symm hne)
  refine ⟨⟨regStep_wf cfg pre parse σ r' op h.wf, ⟨ro, hregs.trans hro, e1, e2, e3, e4⟩, ?_⟩, hregs, ?_⟩
  · intro r'' ro'' hne'' hro''
    by_cases hq : r'' = r'
    · subst hq
      cases hr' : σ.regs[r'']? with
      | none =>
        -- no such registry: the world is unchanged
        have : (regStep cfg pre parse σ r'' op).1 = σ := by unfold regStep; rw [hr']
        rw [this, hr'] at hro''; cases hro''
      | some ro1 =>
        obtain ⟨ro2, h2, l, c, d, _, _⟩ := regStep_regs_self cfg pre parse σ r'' op ro1 hr'
        rw [h2] at hro''; cases hro''
        exact (Sep.of_addr (h.sep r'' ro1 hne'' hr').symm' l c d).symm'
    · rw [regStep_regs_ne cfg pre parse σ r' r'' op hq] at hro''
      exact h.sep r'' ro'' hne'' hro''
  · intro ro0 hro0
    rw [hro] at hro0
    have hro0' : ro = ro0 := Option.some.inj hro0
    subst hro0'
    cases hr' : σ.regs[r']? with
    | none =>
      have : (regStep cfg pre parse σ r' op).1 = σ := by unfold regStep; rw [hr']
      rw [this]
    | some ro1 =>
      have hs : Sep ro1 ro := (Sep.of_addr (h.sep r' ro1 hne hr') e1 e2 e3).symm'
      exact regStep_view_sep cfg pre parse σ r' op ro1 ro hr' hs

theorem regSteps_other (σ : World K) (r r' : Nat) (a : RegObj K) (ops : List (Op K)) (h : Holds σ r a)
    (hne : r' ≠ r) :
    Holds (regSteps cfg pre parse σ r' ops).1 r a ∧ Untouched σ (regSteps cfg pre parse σ r' ops).1 r ∧
    (regSteps cfg pre parse σ r' ops).1.exported = σ.exported := by
  induction ops generalizing σ with
  | nil => exact ⟨h, Untouched.refl σ r, rfl⟩
  | cons op rest ih =>
    have h1 := regStep_other cfg pre parse σ r r' a op h hne
    have hx := (regStep_exported cfg pre parse σ r' op).1
    unfold regSteps
    split
    · rename_i σ' e heq
      have : σ' = (regStep cfg pre parse σ r' op).1 := by rw [heq]
      subst this
      exact ⟨h1.1, h1.2, hx⟩
    · rename_i σ' o _ heq
      have : σ' = (regStep cfg pre parse σ r' op).1 := by rw [heq]
      subst this
      obtain ⟨i1, i2, i3⟩ := ih _ h1.1
      exact ⟨i1, h1.2.trans i2, i3.trans hx⟩

end

end Unyt.RegWorld

namespace Unyt.RegWorld
open Unyt RegC12

section
variable {K : Type}

/-! ### creation: the heap only grows -/

theorem getElem?_append_cases {α : Type} (l x : List α) (i : Nat) (y : α) (h : (l ++ x)[i]? = some y) :
    l[i]? = some y ∨ (l.length ≤ i ∧ y ∈ x) := by
  by_cases hi : i < l.length
  · left; rw [List.getElem?_append_left hi] at h; exact h
  · right
    refine ⟨Nat.le_of_not_lt hi, ?_⟩
    rw [List.getElem?_append_right (Nat.le_of_not_lt hi)] at h
    exact List.mem_of_getElem? h

/-- a world that grew out of `σ` — registries appended, no cell of the observed registry rewritten, the
    new registries in range and sharing nothing with it — keeps the observed registry as it is -/
theorem holds_grow (σ σ' : World K) (r : Nat) (a : RegObj K) (news : List (RegObj K)) (h : Holds σ r a)
    (hl : σ.luts.length ≤ σ'.luts.length) (hc : σ.caches.length ≤ σ'.caches.length)
    (hd : σ.deriveds.length ≤ σ'.deriveds.length)
    (hregs : σ'.regs = σ.regs ++ news)
    (hla : lutAt σ' a.lut = lutAt σ a.lut) (hca : cacheAt σ' a.cache = cacheAt σ a.cache)
    (hda : derivedAt σ' a.derived = derivedAt σ a.derived)
    (hnew : ∀ n ∈ news, n.InRange σ' ∧ Sep a n) :
    Holds σ' r a ∧ Untouched σ σ' r := by
  obtain ⟨ro, hro, e1, e2, e3, e4⟩ := h.here
  have hlt : r < σ.regs.length := by
    rcases List.getElem?_eq_some_iff.mp hro with ⟨h, _⟩; exact h
  have hr' : σ'.regs[r]? = σ.regs[r]? := by rw [hregs]; exact List.getElem?_append_left hlt
  refine ⟨⟨?_, ⟨ro, hr'.trans hro, e1, e2, e3, e4⟩, ?_⟩, hr', ?_⟩
  · intro r1 ro1 h1
    rw [hregs] at h1
    rcases getElem?_append_cases _ _ _ _ h1 with h2 | ⟨_, h2⟩
    · have := h.wf r1 ro1 h2
      exact ⟨Nat.lt_of_lt_of_le this.1 hl, Nat.lt_of_lt_of_le this.2.1 hc, Nat.lt_of_lt_of_le this.2.2 hd⟩
    · exact (hnew ro1 h2).1
  · intro r1 ro1 hne h1
    rw [hregs] at h1
    rcases getElem?_append_cases _ _ _ _ h1 with h2 | ⟨_, h2⟩
    · exact h.sep r1 ro1 hne h2
    · exact (hnew ro1 h2).2
  · intro ro0 hro0
    rw [hro] at hro0
    have : ro = ro0 := Option.some.inj hro0
    subst this
    apply view_of_cells
    · rw [e1]; exact hla
    · rw [e2]; exact hca
    · rw [e3]; exact hda

theorem lutAt_append (σ : World K) (x : List (Lut K)) (c : Nat) (h : c < σ.luts.length) (σ' : World K)
    (hs : σ'.luts = σ.luts ++ x) : lutAt σ' c = lutAt σ c := by
  simp only [lutAt]; rw [hs, List.getElem?_append_left h]

theorem cacheAt_append (σ : World K) (x : List (CacheCell K)) (c : Nat) (h : c < σ.caches.length)
    (σ' : World K) (hs : σ'.caches = σ.caches ++ x) : cacheAt σ' c = cacheAt σ c := by
  simp only [cacheAt]; rw [hs, List.getElem?_append_left h]

theorem derivedAt_append (σ : World K) (x : List (List String)) (c : Nat) (h : c < σ.deriveds.length)
    (σ' : World K) (hs : σ'.deriveds = σ.deriveds ++ x) : derivedAt σ' c = derivedAt σ c := by
  simp only [derivedAt]; rw [hs, List.getElem?_append_left h]

/-- the observed registry's own addresses are allocated -/
theorem Holds.inRange {σ : World K} {r : Nat} {a : RegObj K} (h : Holds σ r a) :
    a.lut < σ.luts.length ∧ a.cache < σ.caches.length ∧ a.derived < σ.deriveds.length := by
  obtain ⟨ro, hro, e1, e2, e3, _⟩ := h.here
  have := h.wf r ro hro
  simp only [RegObj.InRange] at this
  rw [e1, e2, e3] at this; exact this

end

end Unyt.RegWorld

namespace Unyt.RegWorld
open Unyt RegC12

section
variable {K : Type} [Mul K] [OfNat K 1] [OfNat K 0] [RPow K]

set_option linter.unusedSectionVars false

theorem allocLut_spec (luts : List (Lut K)) (sh : LutShare) (a : Nat) (rows : Lut K) :
    ∃ lx, (allocLut luts sh a rows).1 = luts ++ lx ∧
      ((sh = .same ∧ (allocLut luts sh a rows).2 = a) ∨
       (sh ≠ .same ∧ (allocLut luts sh a rows).2 = luts.length ∧ lx.length = 1)) := by
  cases sh
  · exact ⟨[], (List.append_nil _).symm, Or.inl ⟨rfl, rfl⟩⟩
  · exact ⟨[rows], rfl, Or.inr ⟨by decide, rfl, rfl⟩⟩
  · exact ⟨[rows], rfl, Or.inr ⟨by decide, rfl, rfl⟩⟩

theorem allocCache_spec (cs : List (CacheCell K)) (sh : CacheShare) (a : Nat) (cell : CacheCell K) :
    ∃ cx, (allocCache cs sh a cell).1 = cs ++ cx ∧
      ((sh = .same ∧ (allocCache cs sh a cell).2 = a) ∨
       (sh ≠ .same ∧ (allocCache cs sh a cell).2 = cs.length ∧ cx.length = 1)) := by
  cases sh
  · exact ⟨[], (List.append_nil _).symm, Or.inl ⟨rfl, rfl⟩⟩
  · exact ⟨[{}], rfl, Or.inr ⟨by decide, rfl, rfl⟩⟩
  · exact ⟨[cell], rfl, Or.inr ⟨by decide, rfl, rfl⟩⟩

theorem allocDerived_spec (ds : List (List String)) (sh : DerivedShare) (a : Nat) (src : List String) :
    ∃ dx, (allocDerived ds sh a src).1 = ds ++ dx ∧
      ((sh = .same ∧ (allocDerived ds sh a src).2 = a) ∨
       (sh ≠ .same ∧ (allocDerived ds sh a src).2 = ds.length ∧ dx.length = 1)) := by
  cases sh
  · exact ⟨[], (List.append_nil _).symm, Or.inl ⟨rfl, rfl⟩⟩
  · exact ⟨[[]], rfl, Or.inr ⟨by decide, rfl, rfl⟩⟩
  · exact ⟨[src], rfl, Or.inr ⟨by decide, rfl, rfl⟩⟩

/-- what `create` does to the heap: cells are appended, one registry is appended, and each of its three
    addresses is either the source's (shape says `same`) or the next free cell -/
theorem create_spec (σ : World K) (sh : RouteShape) (src : Nat) (ro : RegObj K)
    (hro : σ.regs[src]? = some ro) :
    ∃ (lx : List (Lut K)) (cx : List (CacheCell K)) (dx : List (List String)) (new : RegObj K),
      (create σ sh src).1.luts = σ.luts ++ lx ∧ (create σ sh src).1.caches = σ.caches ++ cx ∧
      (create σ sh src).1.deriveds = σ.deriveds ++ dx ∧ (create σ sh src).1.regs = σ.regs ++ [new] ∧
      (create σ sh src).1.exported = σ.exported ∧ (create σ sh src).1.systems = σ.systems ∧
      ((sh.lut = .same ∧ new.lut = ro.lut) ∨ (sh.lut ≠ .same ∧ new.lut = σ.luts.length ∧ lx.length = 1)) ∧
      ((sh.cache = .same ∧ new.cache = ro.cache) ∨
        (sh.cache ≠ .same ∧ new.cache = σ.caches.length ∧ cx.length = 1)) ∧
      ((sh.derived = .same ∧ new.derived = ro.derived) ∨
        (sh.derived ≠ .same ∧ new.derived = σ.deriveds.length ∧ dx.length = 1)) ∧
      new.frozen = (sh.keepsClass && ro.frozen) := by
  obtain ⟨lx, hl1, hl2⟩ := allocLut_spec σ.luts sh.lut ro.lut (routeRows σ sh (view σ ro))
  obtain ⟨cx, hc1, hc2⟩ := allocCache_spec σ.caches sh.cache ro.cache (cacheAt σ ro.cache)
  obtain ⟨dx, hd1, hd2⟩ := allocDerived_spec σ.deriveds sh.derived ro.derived (view σ ro).derived
  unfold create
  rw [hro]
  exact ⟨lx, cx, dx, _, hl1, hc1, hd1, rfl, rfl, rfl, hl2, hc2, hd2, rfl⟩

end

end Unyt.RegWorld

namespace Unyt.RegWorld
open Unyt RegC12

section
variable {K : Type} [Mul K] [OfNat K 1] [OfNat K 0] [RPow K]
variable (cfg : Cfg) (wc : WCfg) (pre : Prefixes K) (parse : String → Except Err (PExpr K))

/-- a new registry made from `src`: the observed registry keeps everything, provided the route is an
    independent one or the source is another registry -/
theorem create_other (σ : World K) (r : Nat) (a : RegObj K) (sh : RouteShape) (src : Nat)
    (h : Holds σ r a) (hok : src ≠ r ∨ sh.independent = true) :
    Holds (create σ sh src).1 r a ∧ Untouched σ (create σ sh src).1 r ∧
    (create σ sh src).1.exported = σ.exported := by
  cases hsrc : σ.regs[src]? with
  | none =>
    have : (create σ sh src).1 = σ := by unfold create; rw [hsrc]
    rw [this]; exact ⟨h, Untouched.refl σ r, rfl⟩
  | some ro =>
    obtain ⟨lx, cx, dx, new, hl, hc, hd, hr, hx, _, al, ac, ad, _⟩ := create_spec σ sh src ro hsrc
    obtain ⟨i1, i2, i3⟩ := h.inRange
    have hin := h.wf src ro hsrc
    -- the source's addresses are not the observed registry's, unless the route shares nothing anyway
    have hsep : sh.independent = true ∨ Sep a ro := by
      rcases hok with hne | hi
      · exact Or.inr (h.sep src ro hne hsrc)
      · exact Or.inl hi
    have hnewsep : Sep a new := by
      refine ⟨?_, ?_, ?_⟩
      · rcases al with ⟨e, e'⟩ | ⟨_, e', _⟩
        · rw [e']
          rcases hsep with hi | hs
          · simp [RouteShape.independent, e] at hi
          · exact hs.1
        · rw [e']; exact Nat.ne_of_lt i1
      · rcases ac with ⟨e, e'⟩ | ⟨_, e', _⟩
        · rw [e']
          rcases hsep with hi | hs
          · simp [RouteShape.independent, e] at hi
          · exact hs.2.1
        · rw [e']; exact Nat.ne_of_lt i2
      · rcases ad with ⟨e, e'⟩ | ⟨_, e', _⟩
        · rw [e']
          rcases hsep with hi | hs
          · simp [RouteShape.independent, e] at hi
          · exact hs.2.2
        · rw [e']; exact Nat.ne_of_lt i3
    have hnewin : new.InRange (create σ sh src).1 := by
      simp only [RegObj.InRange, hl, hc, hd, List.length_append]
      refine ⟨?_, ?_, ?_⟩
      · rcases al with ⟨_, e'⟩ | ⟨_, e', e''⟩
        · rw [e']; exact Nat.lt_of_lt_of_le hin.1 (Nat.le_add_right _ _)
        · rw [e', e'']; exact Nat.lt_succ_self _
      · rcases ac with ⟨_, e'⟩ | ⟨_, e', e''⟩
        · rw [e']; exact Nat.lt_of_lt_of_le hin.2.1 (Nat.le_add_right _ _)
        · rw [e', e'']; exact Nat.lt_succ_self _
      · rcases ad with ⟨_, e'⟩ | ⟨_, e', e''⟩
        · rw [e']; exact Nat.lt_of_lt_of_le hin.2.2 (Nat.le_add_right _ _)
        · rw [e', e'']; exact Nat.lt_succ_self _
    have := holds_grow σ (create σ sh src).1 r a [new] h
      (by rw [hl, List.length_append]; exact Nat.le_add_right _ _)
      (by rw [hc, List.length_append]; exact Nat.le_add_right _ _)
      (by rw [hd, List.length_append]; exact Nat.le_add_right _ _)
      hr (lutAt_append σ lx _ i1 _ hl) (cacheAt_append σ cx _ i2 _ hc) (derivedAt_append σ dx _ i3 _ hd)
      (by intro n hn; simp only [List.mem_singleton] at hn; subst hn; exact ⟨hnewin, hnewsep⟩)
    exact ⟨this.1, this.2, hx⟩

end

end Unyt.RegWorld

namespace Unyt.RegWorld
open Unyt RegC12

section
variable {K : Type} [Mul K] [OfNat K 1] [OfNat K 0] [RPow K]
variable (cfg : Cfg) (wc : WCfg) (pre : Prefixes K) (parse : String → Except Err (PExpr K))

/-- changing only `exported` / `systems` changes nothing a registry sees -/
theorem holds_exported (σ : World K) (r : Nat) (a : RegObj K) (h : Holds σ r a)
    (ex : List (String × UnitD K)) :
    Holds { σ with exported := ex } r a ∧ Untouched σ { σ with exported := ex } r :=
  ⟨⟨h.wf, h.here, h.sep⟩, rfl, fun _ _ => rfl⟩

theorem holds_systems (σ : World K) (r : Nat) (a : RegObj K) (h : Holds σ r a) (sy : List String) :
    Holds { σ with systems := sy } r a ∧ Untouched σ { σ with systems := sy } r :=
  ⟨⟨h.wf, h.here, h.sep⟩, rfl, fun _ _ => rfl⟩

/-- any operation that is neither a call through the observed registry nor hands one of its containers
    to somebody else: the observed registry object and everything it sees stay as they are -/
theorem runOp_other (σ : World K) (r : Nat) (a : RegObj K) (op : WOp K) (h : Holds σ r a)
    (ht : op.through r = false) (ha : op.aliases r a.lut = false) :
    Holds (runOp cfg wc pre parse σ op).1 r a ∧ Untouched σ (runOp cfg wc pre parse σ op).1 r := by
  obtain ⟨i1, i2, i3⟩ := h.inRange
  cases op with
  | dict t =>
    exact holds_grow σ _ r a [] h (by simp [runOp]) (Nat.le_refl _) (Nat.le_refl _)
      (by simp [runOp]) (lutAt_append σ [t] _ i1 _ rfl) rfl rfl (by intro n hn; cases hn)
  | fresh ad usys =>
    simp only [runOp, pushReg]
    refine holds_grow σ _ r a [_] h (by simp) (by simp) (by simp) rfl
      (lutAt_append σ _ _ i1 _ rfl) (cacheAt_append σ _ _ i2 _ rfl) (derivedAt_append σ _ _ i3 _ rfl) ?_
    intro n hn
    simp only [List.mem_singleton] at hn; subst hn
    exact ⟨⟨by simp, by simp, by simp⟩, Nat.ne_of_lt i1, Nat.ne_of_lt i2, Nat.ne_of_lt i3⟩
  | fromDict c ad =>
    have hc : c ≠ a.lut := by
      simp only [WOp.aliases, beq_eq_false_iff_ne, ne_eq] at ha; exact ha
    simp only [runOp]
    cases hcell : σ.luts[c]? with
    | none => exact ⟨h, Untouched.refl σ r⟩
    | some t =>
      have hclt : c < σ.luts.length := by
        rcases List.getElem?_eq_some_iff.mp hcell with ⟨h, _⟩; exact h
      simp only [pushReg]
      by_cases he : t.isEmpty = true
      · -- an empty dict is replaced by a new one
        simp only [he, if_true]
        refine holds_grow σ _ r a [_] h ?_ (by simp) (by simp) rfl ?_
          (cacheAt_append σ _ _ i2 _ rfl) (derivedAt_append σ _ _ i3 _ rfl) ?_
        · by_cases hd : ad = true <;> simp [hd]
        · by_cases hd : ad = true
          · simp only [hd, if_true, lutAt]
            rw [List.getElem?_set_ne (Nat.ne_of_gt i1), List.getElem?_append_left i1]
          · simp only [hd, lutAt]
            exact congrArg (fun x => Option.getD x []) (List.getElem?_append_left i1)
        · intro n hn
          simp only [List.mem_singleton] at hn; subst hn
          refine ⟨⟨?_, by simp, by simp⟩, Nat.ne_of_lt i1, Nat.ne_of_lt i2, Nat.ne_of_lt i3⟩
          by_cases hd : ad = true <;> simp [hd]
      · simp only [he, if_false, Bool.false_eq_true]
        refine holds_grow σ _ r a [_] h ?_ (by simp) (by simp) rfl ?_
          (cacheAt_append σ _ _ i2 _ rfl) (derivedAt_append σ _ _ i3 _ rfl) ?_
        · by_cases hd : ad = true <;> simp [hd]
        · by_cases hd : ad = true
          · simp only [hd, if_true, lutAt]
            rw [List.getElem?_set_ne hc]
          · simp only [hd, lutAt]; rfl
        · intro n hn
          simp only [List.mem_singleton] at hn; subst hn
          refine ⟨⟨?_, by simp, by simp⟩, Ne.symm hc, Nat.ne_of_lt i2, Nat.ne_of_lt i3⟩
          by_cases hd : ad = true <;> simp [hd, hclt]
  | route sh src =>
    have hok : src ≠ r ∨ sh.independent = true := by
      simp only [WOp.aliases, Bool.and_eq_false_iff, beq_eq_false_iff_ne, ne_eq, Bool.not_eq_false'] at ha
      exact ha
    have := create_other σ r a sh src h hok
    exact ⟨this.1, this.2.1⟩
  | reg r' op =>
    have hne : r' ≠ r := by
      simp only [WOp.through, beq_eq_false_iff_ne, ne_eq] at ht; exact ht
    exact regStep_other cfg pre parse σ r r' a op h hne
  | defineUnit r' sym e =>
    have hne : r' ≠ r := by
      simp only [WOp.through, beq_eq_false_iff_ne, ne_eq] at ht; exact ht
    have s1 := regStep_other cfg pre parse σ r r' a (.contains sym) h hne
    simp only [runOp]
    split
    · rename_i σ1 heq
      have e1 := congrArg Prod.fst heq
      dsimp only at e1
      subst e1
      have s2 := regStep_other cfg pre parse _ r r' a (.add sym e) s1.1 hne
      split
      · rename_i σ2 heq2
        have e2 := congrArg Prod.fst heq2
        dsimp only at e2
        subst e2
        split
        · have s3 := regStep_other cfg pre parse _ r r' a (.unit sym) s2.1 hne
          split
          · rename_i σ3 _ d heq3
            have e3 := congrArg Prod.fst heq3
            dsimp only at e3
            subst e3
            refine ⟨(holds_exported _ r a s3.1 _).1, ?_⟩
            exact s1.2.trans (s2.2.trans (s3.2.trans (holds_exported _ r a s3.1 _).2))
          · rename_i σ3 o _ heq3
            have e3 := congrArg Prod.fst heq3
            dsimp only at e3
            subst e3
            exact ⟨s3.1, s1.2.trans (s2.2.trans s3.2)⟩
        · exact ⟨s2.1, s1.2.trans s2.2⟩
      · rename_i σ2 o _ heq2
        have e2 := congrArg Prod.fst heq2
        dsimp only at e2
        subst e2
        exact ⟨s2.1, s1.2.trans s2.2⟩
    · rename_i σ1 heq
      have e1 := congrArg Prod.fst heq
      dsimp only at e1
      subst e1; exact s1
    · rename_i σ1 o _ _ heq
      have e1 := congrArg Prod.fst heq
      dsimp only at e1
      subst e1; exact s1
  | newSystem r' name bus =>
    have hne : r' ≠ r := by
      simp only [WOp.through, beq_eq_false_iff_ne, ne_eq] at ht; exact ht
    have s1 := regSteps_other cfg pre parse σ r r' a (bus.map .getitem) h hne
    simp only [runOp]
    split
    · rename_i σ1 heq
      have e1 := congrArg Prod.fst heq
      dsimp only at e1
      subst e1; exact ⟨s1.1, s1.2.1⟩
    · rename_i σ1 e _ heq
      have e1 := congrArg Prod.fst heq
      dsimp only at e1
      subst e1; exact ⟨s1.1, s1.2.1⟩
    · rename_i σ1 heq
      have e1 := congrArg Prod.fst heq
      dsimp only at e1
      subst e1
      refine ⟨(holds_systems _ r a s1.1 _).1, ?_⟩
      exact s1.2.1.trans (holds_systems _ r a s1.1 _).2
  | mixed a' b key d =>
    have hne : a' ≠ r := by
      simp only [WOp.through, beq_eq_false_iff_ne, ne_eq] at ht; exact ht
    simp only [runOp]
    cases hra : σ.regs[a']? with
    | none => exact ⟨h, Untouched.refl σ r⟩
    | some ro =>
      by_cases hce : wc.cachesExplicit = true
      · simp only [hce, if_true]
        have hs := h.sep a' ro hne hra
        refine holds_grow σ _ r a [] h (Nat.le_refl _) (by simp) (Nat.le_refl _) (by simp) rfl ?_ rfl
          (by intro n hn; cases hn)
        simp only [cacheAt]
        rw [List.getElem?_set_ne (Ne.symm hs.2.1)]
      · simp only [hce, if_false, Bool.false_eq_true]
        exact ⟨h, Untouched.refl σ r⟩

end

end Unyt.RegWorld

namespace Unyt.RegWorld
open Unyt RegC12

section
variable {K : Type} [Mul K] [OfNat K 1] [OfNat K 0] [RPow K]
variable (cfg : Cfg) (wc : WCfg) (pre : Prefixes K) (parse : String → Except Err (PExpr K))

/-! ### two worlds that show the observed registry the same things -/

/-- `σ` and `τ` both hold the observed registry `r` (same addresses, same class), show it the same
    tables, cache, objects, derived set and memo — and, when it is the default registry, carry the same
    module attributes -/
structure Rel (σ τ : World K) (r : Nat) (a : RegObj K) : Prop where
  left : Holds σ r a
  right : Holds τ r a
  same : ∃ ro₁ ro₂, σ.regs[r]? = some ro₁ ∧ τ.regs[r]? = some ro₂ ∧ view σ ro₁ = view τ ro₂
  exported : r = 0 → σ.exported = τ.exported

/-- a call through the observed registry keeps `Holds` -/
theorem regStep_self_holds (σ : World K) (r : Nat) (a : RegObj K) (op : Op K) (h : Holds σ r a) :
    Holds (regStep cfg pre parse σ r op).1 r a := by
  obtain ⟨ro, hro, e1, e2, e3, e4⟩ := h.here
  obtain ⟨ro', hro', f1, f2, f3, f4, _⟩ := regStep_regs_self cfg pre parse σ r op ro hro
  refine ⟨regStep_wf cfg pre parse σ r op h.wf, ⟨ro', hro', f1.trans e1, f2.trans e2, f3.trans e3, f4.trans e4⟩, ?_⟩
  intro r' ro1 hne h1
  rw [regStep_regs_ne cfg pre parse σ r r' op hne] at h1
  exact h.sep r' ro1 hne h1

/-- the same call through the observed registry in both worlds: same answer, still related -/
theorem regStep_rel (σ τ : World K) (r : Nat) (a : RegObj K) (op : Op K) (h : Rel σ τ r a) :
    (regStep cfg pre parse σ r op).2 = (regStep cfg pre parse τ r op).2 ∧
    Rel (regStep cfg pre parse σ r op).1 (regStep cfg pre parse τ r op).1 r a := by
  obtain ⟨ro₁, ro₂, h1, h2, hv⟩ := h.same
  obtain ⟨x1, hx1, _, _, _, fz1⟩ := h.left.here
  obtain ⟨x2, hx2, _, _, _, fz2⟩ := h.right.here
  rw [h1] at hx1; rw [h2] at hx2
  have ex1 : ro₁ = x1 := Option.some.inj hx1
  have ex2 : ro₂ = x2 := Option.some.inj hx2
  subst ex1; subst ex2
  have hx := regStep_exported cfg pre parse σ r op
  have hy := regStep_exported cfg pre parse τ r op
  have hexp : r = 0 → (regStep cfg pre parse σ r op).1.exported = (regStep cfg pre parse τ r op).1.exported := by
    intro h0; rw [hx.1, hy.1]; exact h.exported h0
  by_cases hf : (ro₁.frozen && isModifyOrRemove op) = true
  · have hf2 : (ro₂.frozen && isModifyOrRemove op) = true := by rw [fz2, ← fz1]; exact hf
    simp only [Bool.and_eq_true] at hf hf2
    rw [regStep_frozen cfg pre parse σ r op ro₁ h1 hf.1 hf.2,
        regStep_frozen cfg pre parse τ r op ro₂ h2 hf2.1 hf2.2]
    exact ⟨rfl, h⟩
  · have hf' : (ro₁.frozen && isModifyOrRemove op) = false := by
      cases hb : (ro₁.frozen && isModifyOrRemove op) with
      | true => exact absurd hb hf
      | false => rfl
    have hf2 : (ro₂.frozen && isModifyOrRemove op) = false := by rw [fz2, ← fz1]; exact hf'
    obtain ⟨o1, o2⟩ := regStep_own cfg pre parse σ r op ro₁ h.left.wf h1 hf'
    obtain ⟨p1, p2⟩ := regStep_own cfg pre parse τ r op ro₂ h.right.wf h2 hf2
    refine ⟨by rw [o2, p2, hv], regStep_self_holds cfg pre parse σ r a op h.left,
      regStep_self_holds cfg pre parse τ r a op h.right, ?_, hexp⟩
    obtain ⟨n1, hn1, _⟩ := regStep_regs_self cfg pre parse σ r op ro₁ h1
    obtain ⟨n2, hn2, _⟩ := regStep_regs_self cfg pre parse τ r op ro₂ h2
    refine ⟨n1, n2, hn1, hn2, ?_⟩
    simp only [viewOf, hn1, hn2, Option.map_some] at o1 p1
    have a1 : view (regStep cfg pre parse σ r op).1 n1 = (step cfg pre parse (view σ ro₁) op).1 :=
      Option.some.inj o1
    have a2 : view (regStep cfg pre parse τ r op).1 n2 = (step cfg pre parse (view τ ro₂) op).1 :=
      Option.some.inj p1
    rw [a1, a2, hv]

theorem regSteps_rel (σ τ : World K) (r : Nat) (a : RegObj K) (ops : List (Op K)) (h : Rel σ τ r a) :
    (regSteps cfg pre parse σ r ops).2 = (regSteps cfg pre parse τ r ops).2 ∧
    Rel (regSteps cfg pre parse σ r ops).1 (regSteps cfg pre parse τ r ops).1 r a := by
  induction ops generalizing σ τ with
  | nil => exact ⟨rfl, h⟩
  | cons op rest ih =>
    obtain ⟨ho, hr⟩ := regStep_rel cfg pre parse σ τ r a op h
    unfold regSteps
    -- both runs see the same answer, so they take the same branch
    rcases hs : regStep cfg pre parse σ r op with ⟨σ', o⟩
    rcases ht : regStep cfg pre parse τ r op with ⟨τ', o'⟩
    rw [hs, ht] at ho hr
    simp only at ho hr
    subst ho
    cases o with
    | err e => exact ⟨rfl, hr⟩
    | done => exact ih σ' τ' hr
    | unit i d => exact ih σ' τ' hr
    | bool b => exact ih σ' τ' hr
    | entry e => exact ih σ' τ' hr
    | sysId s => exact ih σ' τ' hr

end

end Unyt.RegWorld

namespace Unyt.RegWorld
open Unyt RegC12

section
variable {K : Type} [Mul K] [OfNat K 1] [OfNat K 0] [RPow K]
variable (cfg : Cfg) (wc : WCfg) (pre : Prefixes K) (parse : String → Except Err (PExpr K))

theorem rel_exported (σ τ : World K) (r : Nat) (a : RegObj K) (h : Rel σ τ r a)
    (ex₁ ex₂ : List (String × UnitD K)) (he : r = 0 → ex₁ = ex₂) :
    Rel { σ with exported := ex₁ } { τ with exported := ex₂ } r a :=
  ⟨(holds_exported σ r a h.left ex₁).1, (holds_exported τ r a h.right ex₂).1, h.same, he⟩

theorem rel_systems (σ τ : World K) (r : Nat) (a : RegObj K) (h : Rel σ τ r a) (s₁ s₂ : List String) :
    Rel { σ with systems := s₁ } { τ with systems := s₂ } r a :=
  ⟨(holds_systems σ r a h.left s₁).1, (holds_systems τ r a h.right s₂).1, h.same, h.exported⟩

/-- the observed registry's cache cell is the same in two related worlds -/
theorem rel_cache (σ τ : World K) (r : Nat) (a : RegObj K) (h : Rel σ τ r a) :
    cacheAt σ a.cache = cacheAt τ a.cache := by
  obtain ⟨ro₁, ro₂, h1, h2, hv⟩ := h.same
  obtain ⟨x1, hx1, _, c1, _, _⟩ := h.left.here
  obtain ⟨x2, hx2, _, c2, _, _⟩ := h.right.here
  rw [h1] at hx1; rw [h2] at hx2
  have ex1 : ro₁ = x1 := Option.some.inj hx1
  have ex2 : ro₂ = x2 := Option.some.inj hx2
  subst ex1; subst ex2
  simp only [view, RegState.mk.injEq] at hv
  rw [c1, c2] at hv
  obtain ⟨_, hc, ho, _⟩ := hv
  cases hA : cacheAt σ a.cache; cases hB : cacheAt τ a.cache
  rw [hA] at hc ho; rw [hB] at hc ho
  simp only at hc ho; subst hc; subst ho; rfl

/-- the same operation through the observed registry, performed in two related worlds: same answer,
    still related -/
theorem runOp_through (σ τ : World K) (r : Nat) (a : RegObj K) (op : WOp K) (h : Rel σ τ r a)
    (ht : op.through r = true) :
    Rel (runOp cfg wc pre parse σ op).1 (runOp cfg wc pre parse τ op).1 r a := by
  cases op with
  | dict t => simp [WOp.through] at ht
  | fresh ad usys => simp [WOp.through] at ht
  | fromDict c ad => simp [WOp.through] at ht
  | route sh src => simp [WOp.through] at ht
  | reg r' op =>
    have e : r' = r := by simpa [WOp.through] using ht
    subst e
    exact (regStep_rel cfg pre parse σ τ r' a op h).2
  | defineUnit r' sym e =>
    have e' : r' = r := by simpa [WOp.through] using ht
    subst e'
    simp only [runOp]
    obtain ⟨ho1, hr1⟩ := regStep_rel cfg pre parse σ τ r' a (.contains sym) h
    rcases hs1 : regStep cfg pre parse σ r' (.contains sym) with ⟨σ1, o1⟩
    rcases ht1 : regStep cfg pre parse τ r' (.contains sym) with ⟨τ1, o1'⟩
    rw [hs1, ht1] at ho1 hr1; simp only at ho1 hr1; subst ho1
    cases o1 with
    | bool b =>
      cases b with
      | true => exact hr1
      | false =>
        simp only
        obtain ⟨ho2, hr2⟩ := regStep_rel cfg pre parse σ1 τ1 r' a (.add sym e) hr1
        rcases hs2 : regStep cfg pre parse σ1 r' (.add sym e) with ⟨σ2, o2⟩
        rcases ht2 : regStep cfg pre parse τ1 r' (.add sym e) with ⟨τ2, o2'⟩
        rw [hs2, ht2] at ho2 hr2; simp only at ho2 hr2; subst ho2
        cases o2 with
        | done =>
          simp only
          by_cases h0 : r' = 0
          · simp only [h0, if_true]
            subst h0
            obtain ⟨ho3, hr3⟩ := regStep_rel cfg pre parse σ2 τ2 0 a (.unit sym) hr2
            rcases hs3 : regStep cfg pre parse σ2 0 (.unit sym) with ⟨σ3, o3⟩
            rcases ht3 : regStep cfg pre parse τ2 0 (.unit sym) with ⟨τ3, o3'⟩
            rw [hs3, ht3] at ho3 hr3; simp only at ho3 hr3; subst ho3
            cases o3 with
            | unit i d =>
              simp only
              exact rel_exported σ3 τ3 0 a hr3 _ _ (fun _ => by rw [hr3.exported rfl])
            | done => exact hr3
            | err e => exact hr3
            | bool b => exact hr3
            | entry e => exact hr3
            | sysId s => exact hr3
          · simp only [h0, if_false]; exact hr2
        | err e => exact hr2
        | unit i d => exact hr2
        | bool b => exact hr2
        | entry e => exact hr2
        | sysId s => exact hr2
    | done => exact hr1
    | err e => exact hr1
    | unit i d => exact hr1
    | entry e => exact hr1
    | sysId s => exact hr1
  | newSystem r' name bus =>
    have e' : r' = r := by simpa [WOp.through] using ht
    subst e'
    simp only [runOp]
    obtain ⟨ho, hr⟩ := regSteps_rel cfg pre parse σ τ r' a (bus.map .getitem) h
    rcases hs : regSteps cfg pre parse σ r' (bus.map .getitem) with ⟨σ1, o⟩
    rcases ht' : regSteps cfg pre parse τ r' (bus.map .getitem) with ⟨τ1, o'⟩
    rw [hs, ht'] at ho hr; simp only at ho hr; subst ho
    cases o with
    | none => exact rel_systems σ1 τ1 r' a hr _ _
    | some e => cases e <;> exact hr
  | mixed a' b key d =>
    have e' : a' = r := by simpa [WOp.through] using ht
    subst e'
    simp only [runOp]
    obtain ⟨ro₁, ro₂, h1, h2, hv⟩ := h.same
    rw [h1, h2]
    by_cases hce : wc.cachesExplicit = true
    · simp only [hce, if_true]
      obtain ⟨x1, hx1, l1, c1, d1, f1⟩ := h.left.here
      obtain ⟨x2, hx2, l2, c2, d2, f2⟩ := h.right.here
      rw [h1] at hx1; rw [h2] at hx2
      have ex1 : ro₁ = x1 := Option.some.inj hx1
      have ex2 : ro₂ = x2 := Option.some.inj hx2
      subst ex1; subst ex2
      have hcc := rel_cache σ τ a' a h
      obtain ⟨i1, i2, i3⟩ := h.left.inRange
      obtain ⟨j1, j2, j3⟩ := h.right.inRange
      refine ⟨⟨?_, ⟨ro₁, h1, l1, c1, d1, f1⟩, h.left.sep⟩, ⟨?_, ⟨ro₂, h2, l2, c2, d2, f2⟩, h.right.sep⟩,
        ⟨ro₁, ro₂, h1, h2, ?_⟩, h.exported⟩
      · intro r1 ro1 hr1
        have := h.left.wf r1 ro1 hr1
        simpa [RegObj.InRange] using this
      · intro r1 ro1 hr1
        have := h.right.wf r1 ro1 hr1
        simpa [RegObj.InRange] using this
      · simp only [view, RegState.mk.injEq] at hv ⊢
        obtain ⟨v1, v2, v3, v4, v5, v6⟩ := hv
        simp only [lutAt, derivedAt] at v1 v5 ⊢
        refine ⟨v1, ?_, ?_, v4, v5, v6⟩
        · simp only [cacheAt]
          rw [c1, c2, List.getElem?_set_self i2, List.getElem?_set_self j2]
          simp only [Option.getD_some]
          simp only [cacheAt] at hcc
          rw [hcc]
        · simp only [cacheAt]
          rw [c1, c2, List.getElem?_set_self i2, List.getElem?_set_self j2]
          simp only [Option.getD_some]
          simp only [cacheAt] at hcc
          rw [hcc]
    · simp only [hce, if_false, Bool.false_eq_true]
      exact h

end

end Unyt.RegWorld
