/-
  Helper lemmas for the totality theorems of C04: `_cancel_mul` (the model's `cancelLoop`) never refuses
  on an expression whose symbols all resolve to plain table entries (no zero-point offset, no logarithmic
  component) — so the multiply / divide rules return a result for plain zero-offset operands.
-/
import UnytProofs.Lemmas.C04Cancel

set_option linter.unusedSectionVars false

namespace Unyt.UV
open Unyt UExpr

variable {K : Type} [Lean.Grind.Field K] [BEq K] [LawfulBEq K] [RPow K]

/-- every symbol of the list resolves to an entry without offset and without logarithmic component -/
def AllPlain (pre : Prefixes K) (t : Lut K) (f : Factors) : Prop :=
  ∀ s q, (s, q) ∈ f → ∃ e, resolve pre t s = some e ∧ e.offset = 0 ∧ e.dim.logarithmic = 0

theorem sym_of_mem_insertF (s : String) (q : Rat) (f : Factors) (x : Fac) (h : x ∈ insertF s q f) :
    x.1 = s ∨ ∃ y ∈ f, y.1 = x.1 := by
  induction f with
  | nil => simp [insertF] at h; left; rw [h]
  | cons p r ih =>
    obtain ⟨u, w⟩ := p
    simp only [insertF] at h
    split at h
    · rename_i hsu
      rcases List.mem_cons.mp h with h1 | h1
      · left; rw [h1]; exact hsu.symm
      · right; exact ⟨x, List.mem_cons_of_mem _ h1, rfl⟩
    · split at h
      · rcases List.mem_cons.mp h with h1 | h1
        · left; rw [h1]
        · right; exact ⟨x, h1, rfl⟩
      · rcases List.mem_cons.mp h with h1 | h1
        · right; exact ⟨(u, w), List.mem_cons_self .., by rw [h1]⟩
        · rcases ih h1 with h2 | ⟨y, hy, he⟩
          · left; exact h2
          · right; exact ⟨y, List.mem_cons_of_mem _ hy, he⟩

theorem sym_of_mem_sortMerge (f : Factors) : ∀ (x : Fac), x ∈ sortMerge f → ∃ y ∈ f, y.1 = x.1 := by
  induction f with
  | nil => intro x h; simp [sortMerge] at h
  | cons p r ih =>
    intro x h
    have hsm : sortMerge (p :: r) = insertF p.1 p.2 (sortMerge r) := rfl
    rw [hsm] at h
    rcases sym_of_mem_insertF _ _ _ x h with h1 | ⟨y, hy, he⟩
    · exact ⟨p, List.mem_cons_self .., h1.symm⟩
    · obtain ⟨z, hz, hz'⟩ := ih y hy
      exact ⟨z, List.mem_cons_of_mem _ hz, hz'.trans he⟩

theorem sym_of_mem_expanded (f : Factors) (x : Fac) (h : x ∈ expandedFactors f) : ∃ y ∈ f, y.1 = x.1 := by
  simp only [expandedFactors, List.mem_flatMap] at h
  obtain ⟨p, hp, hxp⟩ := h
  simp only [normF, dropZeros, List.mem_filter] at hp
  obtain ⟨y, hy, he⟩ := sym_of_mem_sortMerge f p hp.1
  exact ⟨y, hy, he.trans (mem_expandFactor p x hxp).symm⟩

theorem plain_not_log (d : Dim) (q : Rat) (h : d.logarithmic = 0) : ((d.pow q) == Dim.dLogarithmic) = false := by
  have : (d.pow q).logarithmic = 0 := by simp [Dim.pow, h]
  cases hb : (d.pow q == Dim.dLogarithmic) with
  | false => rfl
  | true =>
    have e := eq_of_beq hb
    rw [e] at this
    simp [Dim.dLogarithmic] at this

/-- a factor unit built from a plain entry: never refused, no offset, not logarithmic -/
theorem factorUnit_plain (pre : Prefixes K) (t : Lut K) (p : Fac) (e : Entry K) (hr : resolve pre t p.1 = some e)
    (ho : e.offset = 0) (hl : e.dim.logarithmic = 0) :
    ∃ u, factorUnit pre t p = .ok u ∧ u.offset = 0 ∧ u.isLogarithmic = false ∧ u.dim = e.dim.pow p.2 := by
  have h1 : ((e.dim) == Dim.dLogarithmic) = false := by
    have := plain_not_log e.dim 1 hl
    rwa [Dim.pow_one] at this
  refine ⟨⟨(UExpr.sym p.1).pow p.2, RPow.rpow e.scale p.2, 0, e.dim.pow p.2, true⟩, ?_, rfl, ?_, rfl⟩
  · simp [factorUnit, hr, UnitV.pow, UnitV.isLogarithmic, h1, ho]
  · simp [UnitV.isLogarithmic, plain_not_log e.dim p.2 hl]

/-- `_cancel_mul` never refuses on plain symbols -/
theorem cancelLoop_total (pre : Prefixes K) (t : Lut K) :
    ∀ (fuel : Nat) (e : UExpr K) (unc : List (Fac × Fac)), AllPlain pre t e.factors →
      ∃ e', cancelLoop pre t fuel e unc = .ok e' := by
  intro fuel
  induction fuel with
  | zero => intro e unc _; exact ⟨e, rfl⟩
  | succ n ih =>
    intro e unc hpl
    simp only [cancelLoop]
    split
    · exact ⟨e, rfl⟩
    · rename_i a b hfind
      have hmem : (a, b) ∈ pairs2 (expandedFactors e.factors) := by
        have := List.mem_of_find?_eq_some hfind
        simpa using this
      obtain ⟨hma, hmb⟩ := mem_pairs2 _ a b hmem
      obtain ⟨ya, hya, hea⟩ := sym_of_mem_expanded e.factors a hma
      obtain ⟨yb, hyb, heb⟩ := sym_of_mem_expanded e.factors b hmb
      obtain ⟨ea, hra, hoa, hla⟩ := hpl ya.1 ya.2 hya
      obtain ⟨eb, hrb, hob, hlb⟩ := hpl yb.1 yb.2 hyb
      rw [hea] at hra; rw [heb] at hrb
      obtain ⟨ua, hua, uao, ual, _⟩ := factorUnit_plain pre t a ea hra hoa hla
      obtain ⟨ub, hub, ubo, ubl, _⟩ := factorUnit_plain pre t b eb hrb hob hlb
      have hmul : ∃ prod, ua.mul ub = .ok prod := by
        simp [UnitV.mul, UnitV.mulOffset, ual, ubl, uao, ubo]
      obtain ⟨prod, hprod⟩ := hmul
      simp only [hua, hub, hprod]
      split
      · apply ih
        intro s q hm
        rcases List.mem_append.mp hm with hm | hm
        · exact hpl s q hm
        · simp only [List.mem_cons, List.mem_nil_iff, or_false, Prod.mk.injEq] at hm
          rcases hm with ⟨rfl, _⟩ | ⟨rfl, _⟩
          · exact ⟨ea, hra, hoa, hla⟩
          · exact ⟨eb, hrb, hob, hlb⟩
      · exact ih _ _ hpl

theorem cancelMul_total (pre : Prefixes K) (t : Lut K) (e : UExpr K) (h : AllPlain pre t e.factors) :
    ∃ e', cancelMul pre t e = .ok e' := cancelLoop_total pre t _ e [] h

end Unyt.UV
