/-
  Helper lemmas for C12, part 2: one step of the registry machine preserves coherence with the
  contents (look-ups always; edits when the guard `opSafe` holds), and answers like the fresh
  registry.  (No property statement here.)
-/
import UnytProofs.Lemmas.C12

set_option linter.unusedSectionVars false
set_option linter.unusedVariables false

namespace Unyt.RegC12
open Unyt

variable {K : Type} [Mul K] [OfNat K 1] [OfNat K 0] [RPow K]
variable (cfg : Cfg) (pre : Prefixes K) (parse : String → Except Err (PExpr K))

/-! ### look-ups -/

theorem unit_coherent (c : Lut K) (s : RegState K) (h : Coherent pre parse c s) (q : String) :
    Coherent pre parse c (step cfg pre parse s (.unit q)).1 := by
  obtain ⟨hl, hc, hm⟩ := h
  simp only [step]
  split
  · split <;> exact ⟨hl, hc, hm⟩
  · split
    · exact ⟨hl, hc, hm⟩
    · rename_i ex hp
      obtain ⟨g1, g2⟩ := evalExpr_refines pre c s.lut s.derived hl ex
      rcases he : evalExpr pre s.lut s.derived ex with ⟨t', D', r⟩
      rw [he] at g1 g2
      simp only [] at g1 g2
      cases r with
      | none => exact ⟨g1, hc, hm⟩
      | some u =>
        refine ⟨g1, ?_, hm⟩
        intro q' i hq
        simp only [List.mem_cons, Prod.mk.injEq] at hq
        rcases hq with ⟨rfl, rfl⟩ | hq
        · exact ⟨ex, u, hp, by simp, g2.symm⟩
        · obtain ⟨ex', u', a1, a2, a3⟩ := hc q' i hq
          refine ⟨ex', u', a1, ?_, a3⟩
          have hlt : i < s.objs.length := by
            rcases Nat.lt_or_ge i s.objs.length with h1 | h1
            · exact h1
            · rw [List.getElem?_eq_none h1] at a2; contradiction
          rw [List.getElem?_append_left hlt]; exact a2

theorem contains_coherent (c : Lut K) (s : RegState K) (h : Coherent pre parse c s) (k : String) :
    Coherent pre parse c (step cfg pre parse s (.contains k)).1 := by
  obtain ⟨hl, hc, hm⟩ := h
  obtain ⟨g1, _⟩ := lookupW_refines pre c s.lut s.derived hl k
  simp only [step]
  rcases he : lookupW pre s.lut s.derived k with ⟨t', D', r⟩
  rw [he] at g1
  cases r with
  | none => exact ⟨hl, hc, hm⟩
  | some e => exact ⟨g1, hc, hm⟩

theorem getitem_coherent (c : Lut K) (s : RegState K) (h : Coherent pre parse c s) (k : String) :
    Coherent pre parse c (step cfg pre parse s (.getitem k)).1 := by
  obtain ⟨hl, hc, hm⟩ := h
  obtain ⟨g1, _⟩ := lookupW_refines pre c s.lut s.derived hl k
  simp only [step]
  rcases he : lookupW pre s.lut s.derived k with ⟨t', D', r⟩
  rw [he] at g1
  cases r with
  | none => exact ⟨hl, hc, hm⟩
  | some e => exact ⟨g1, hc, hm⟩

theorem snapshot_eq (c : Lut K) (s : RegState K) (hl : LutRefines pre c s.lut s.derived)
    (hs : (cfg.idSkipsDerived || s.derived.isEmpty) = true) (k : String) :
    Lut.find? (snapshot cfg s) k = c.find? k := by
  simp only [snapshot]
  cases hi : cfg.idSkipsDerived
  · simp only [hi, Bool.false_or, List.isEmpty_iff] at hs
    simp only [Bool.false_eq_true, if_false]
    exact hl.plain k (by simp [hs])
  · simp only [if_true]
    rw [find?_eraseKeys]
    by_cases hk : k ∈ s.derived
    · simp [hk, (hl.der k hk).1]
    · simp [hk, hl.plain k hk]

theorem sysId_coherent (c : Lut K) (s : RegState K) (h : Coherent pre parse c s)
    (hs : (cfg.idSkipsDerived || s.derived.isEmpty) = true) :
    Coherent pre parse c (step cfg pre parse s .sysId).1 := by
  obtain ⟨hl, hc, hm⟩ := h
  simp only [step]
  split
  · exact ⟨hl, hc, hm⟩
  · refine ⟨hl, hc, ?_⟩
    intro _ d hd k
    simp only [Option.some.injEq] at hd
    subst hd
    exact snapshot_eq cfg pre c s hl hs k

/-! ### edits -/

/-- the cache part of `editSafe`, unpacked -/
theorem editSafe_cache (s : RegState K) (sym : String) (delKey : Bool)
    (h : editSafe parse s sym delKey false = true) (q : String) (i : Nat) (hq : (q, i) ∈ s.cache)
    (hne : delKey = true → q ≠ sym) (ex : PExpr K) (hp : parse q = .ok ex) :
    exprAvoids sym ex = true := by
  simp only [editSafe, Bool.false_or, Bool.and_eq_true, List.all_eq_true] at h
  have := h.2 (q, i) hq
  simp only [hp, Bool.or_eq_true, Bool.and_eq_true, beq_iff_eq] at this
  rcases this with ⟨hd, heq⟩ | h3
  · exact (hne hd heq).elim
  · exact h3

theorem editSafe_derived (s : RegState K) (sym : String) (delKey clears : Bool)
    (h : editSafe parse s sym delKey clears = true) (k : String) (hk : k ∈ s.derived) :
    restNe k sym = true ∧ (delKey = true → k ≠ sym) := by
  simp only [editSafe, Bool.and_eq_true, List.all_eq_true] at h
  have := h.1 k hk
  simp only [Bool.or_eq_true, Bool.not_eq_true', bne_iff_ne, ne_eq] at this
  refine ⟨this.1, fun hd => ?_⟩
  rcases this.2 with h1 | h1
  · rw [hd] at h1; contradiction
  · exact h1

/-- a successful edit of `sym`: both tables change at `sym` only and agree there afterwards; the
    cache afterwards is `cacheAfterEdit` -/
theorem edit_core (c c' : Lut K) (s : RegState K) (sym : String) (delKey : Bool)
    (h : Coherent pre parse c s) (hsafe : editSafe parse s sym delKey cfg.clearCache = true)
    (t' : Lut K)
    (h1 : ∀ k, k ≠ sym → t'.find? k = s.lut.find? k)
    (h2 : ∀ k, k ≠ sym → c'.find? k = c.find? k)
    (h3 : t'.find? sym = c'.find? sym) :
    LutRefines pre c' t' (s.derived.filter (· ≠ sym)) ∧
    (∀ q i, (q, i) ∈ cacheAfterEdit cfg s.cache sym delKey →
      ∃ ex u, parse q = .ok ex ∧ s.objs[i]? = some u ∧ pureEval pre c' ex = some u) := by
  obtain ⟨hl, hc, hm⟩ := h
  refine ⟨?_, ?_⟩
  · exact refines_edit pre c c' s.lut t' s.derived sym hl
      (fun k hk => (editSafe_derived parse s sym delKey _ hsafe k hk).1) h1 h2 h3
  · intro q i hq
    cases hcl : cfg.clearCache
    · rw [hcl] at hsafe
      have hmem : (q, i) ∈ s.cache ∧ (delKey = true → q ≠ sym) := by
        simp only [cacheAfterEdit, hcl, Bool.false_eq_true, if_false] at hq
        cases hd : delKey
        · simp only [hd, Bool.false_eq_true, if_false] at hq
          exact ⟨hq, fun h => by simp at h⟩
        · simp only [hd, if_true, List.mem_filter, decide_eq_true_eq] at hq
          exact ⟨hq.1, fun _ => hq.2⟩
      obtain ⟨ex, u, a1, a2, a3⟩ := hc q i hmem.1
      refine ⟨ex, u, a1, a2, ?_⟩
      rw [pureEval_agree pre c c' sym h2 ex (editSafe_cache parse s sym delKey hsafe q i hmem.1 hmem.2 ex a1)]
      exact a3
    · simp [cacheAfterEdit, hcl] at hq

theorem invalidate_idMemo (s : RegState K) : (invalidate cfg s).idMemo = none := by
  simp only [invalidate]

theorem find?_set_ne (t : Lut K) (sym k : String) (e : Entry K) (h : k ≠ sym) :
    Lut.find? (t.set sym e) k = t.find? k := by
  rw [Lut.find?_set]; simp [h]

theorem find?_erase_ne (t : Lut K) (sym k : String) (h : k ≠ sym) :
    Lut.find? (t.erase sym) k = t.find? k := by
  rw [Lut.find?_erase]; simp [h]

theorem mem_filter_cache (l : List (String × Nat)) (sym q : String) (i : Nat)
    (h : (q, i) ∈ l.filter (·.1 ≠ sym)) : (q, i) ∈ l ∧ (true = true → q ≠ sym) := by
  simp only [List.mem_filter, decide_eq_true_eq] at h
  exact ⟨h.1, fun _ => h.2⟩

/-- in a state where the edit is safe, `sym` is not a derived key (for `modify`/`remove`), so the
    concrete table and the contents agree on whether and how `sym` is defined -/
theorem find_sym_agree (c : Lut K) (s : RegState K) (sym : String)
    (h : Coherent pre parse c s) (hsafe : editSafe parse s sym true cfg.clearCache = true) :
    s.lut.find? sym = c.find? sym := by
  apply h.lut.plain
  intro hin
  exact (editSafe_derived parse s sym true _ hsafe sym hin).2 rfl rfl

theorem edit_coherent (c : Lut K) (s : RegState K) (h : Coherent pre parse c s) (op : Op K)
    (hsafe : opSafe cfg parse s op = true) (hedit : op.isEdit = true) :
    Coherent pre parse (specStep c op) (step cfg pre parse s op).1 := by
  have hi := invalidate_coherent cfg pre parse c s h
  have hmemo := invalidate_idMemo cfg s
  generalize hs1 : invalidate cfg s = s1 at hi hmemo
  cases op with
  | add sym e =>
    simp only [opSafe, hs1] at hsafe
    simp only [step, specStep, hs1]
    have := edit_core cfg pre parse c (c.set sym e) s1 sym false hi hsafe (s1.lut.set sym e)
      (fun k hk => find?_set_ne _ _ _ _ hk) (fun k hk => find?_set_ne _ _ _ _ hk)
      (by simp [Lut.find?_set])
    exact ⟨this.1, this.2, fun _ d hd => by simp [hmemo] at hd⟩
  | addInvalid sym => simp only [step, specStep, hs1]; exact hi
  | modifyF sym v =>
    simp only [opSafe, hs1] at hsafe
    have hag := find_sym_agree cfg pre parse c s1 sym hi hsafe
    simp only [step, specStep, hs1]
    cases hf : c.find? sym with
    | none => rw [hf] at hag; simp only [hag]; exact hi
    | some e =>
      rw [hf] at hag; simp only [hag]
      have := edit_core cfg pre parse c (c.set sym { e with scale := v }) s1 sym true hi hsafe
        (s1.lut.set sym { e with scale := v })
        (fun k hk => find?_set_ne _ _ _ _ hk) (fun k hk => find?_set_ne _ _ _ _ hk)
        (by simp [Lut.find?_set])
      exact ⟨this.1, this.2, fun _ d hd => by simp [hmemo] at hd⟩
  | modifyQ sym v d own =>
    simp only [opSafe, hs1] at hsafe
    have hag := find_sym_agree cfg pre parse c s1 sym hi hsafe
    simp only [step, specStep, hs1]
    cases hf : c.find? sym with
    | none => rw [hf] at hag; simp only [hag]; exact hi
    | some e =>
      rw [hf] at hag; simp only [hag]
      have := edit_core cfg pre parse c (c.set sym { e with scale := v, dim := d }) s1 sym true hi hsafe
        (s1.lut.set sym { e with scale := v, dim := d })
        (fun k hk => find?_set_ne _ _ _ _ hk) (fun k hk => find?_set_ne _ _ _ _ hk)
        (by simp [Lut.find?_set])
      cases hb : (own && !cfg.memoResetLast)
      · simp only [Bool.false_eq_true, if_false]
        exact ⟨this.1, this.2, fun _ d hd => by simp [hmemo] at hd⟩
      · simp only [if_true]
        exact ⟨this.1, this.2, fun hst => by simp at hst⟩
  | remove sym =>
    simp only [opSafe, hs1] at hsafe
    have hag := find_sym_agree cfg pre parse c s1 sym hi hsafe
    simp only [step, specStep, hs1]
    cases hf : c.find? sym with
    | none => rw [hf] at hag; simp only [hag]; exact hi
    | some e =>
      rw [hf] at hag; simp only [hag]
      have := edit_core cfg pre parse c (c.erase sym) s1 sym true hi hsafe
        (s1.lut.erase sym)
        (fun k hk => find?_erase_ne _ _ _ hk) (fun k hk => find?_erase_ne _ _ _ hk)
        (by simp [Lut.find?_erase])
      exact ⟨this.1, this.2, fun _ d hd => by simp [hmemo] at hd⟩
  | unit q => simp [Op.isEdit] at hedit
  | contains k => simp [Op.isEdit] at hedit
  | getitem k => simp [Op.isEdit] at hedit
  | sysId => simp [Op.isEdit] at hedit

/-- every safe step keeps the state coherent with the contents -/
theorem step_coherent (c : Lut K) (s : RegState K) (h : Coherent pre parse c s) (op : Op K)
    (hsafe : opSafe cfg parse s op = true) :
    Coherent pre parse (specStep c op) (step cfg pre parse s op).1 := by
  cases op with
  | unit q => exact unit_coherent cfg pre parse c s h q
  | contains k => exact contains_coherent cfg pre parse c s h k
  | getitem k => exact getitem_coherent cfg pre parse c s h k
  | sysId =>
    simp only [opSafe, Bool.and_eq_true] at hsafe
    exact sysId_coherent cfg pre parse c s h hsafe.2
  | add sym e => exact edit_coherent cfg pre parse c s h _ hsafe rfl
  | addInvalid sym => exact edit_coherent cfg pre parse c s h _ hsafe rfl
  | modifyF sym v => exact edit_coherent cfg pre parse c s h _ hsafe rfl
  | modifyQ sym v d own => exact edit_coherent cfg pre parse c s h _ hsafe rfl
  | remove sym => exact edit_coherent cfg pre parse c s h _ hsafe rfl

end Unyt.RegC12
