/-
  Helper lemmas for C18 about `convert_to_equivalent` (no property statements).
-/
import UnytModel.Effects
import UnytProofs.Lemmas.C18
set_option linter.unusedSectionVars false
set_option linter.unusedVariables false
set_option linter.unusedSimpArgs false
namespace Unyt.Effects
open Unyt Unyt.Equiv
variable {K : Type} [Add K] [Sub K] [Mul K] [Div K] [OfNat K 0] [OfNat K 1] [BEq K] [RPow K]

theorem divergingFixup_run (mul : K) (depth : Nat) (rest : List (Step K)) :
    (runSteps (divergingFixup mul depth ++ rest)).result = .error .RuntimeError
    ∧ (runSteps (divergingFixup mul depth ++ rest)).effects = List.replicate depth (.scale mul) := by
  induction depth with
  | zero => exact ⟨rfl, rfl⟩
  | succ n ih => simp [divergingFixup, runSteps, ih.1, ih.2, List.replicate_succ]

/-- RE-ENTRANT variant: a chain with an `out=x` step, on an input whose own unit has a cancellation
    coefficient, never returns -/
theorem chain_diverges (coeff : K) (hc : (coeff == 1) = false) (depth : Nat) (mid : UnitV K)
    (ops : List Op) (hops : ops.any (·.outBuf) = true) (rest : List (Step K)) :
    (runSteps (chainSteps true none [] none coeff depth mid true ops ++ rest)).result = .error .RuntimeError
    ∧ (runSteps (chainSteps true none [] none coeff depth mid true ops ++ rest)).effects
        = .kernel "chain" :: List.replicate depth (.scale coeff) := by
  induction ops with
  | nil => simp at hops
  | cons op r ih =>
    unfold chainSteps
    by_cases ho : op.outBuf = true
    · simp only [ho, if_true, hc, Bool.false_eq_true, if_false, List.cons_append, List.nil_append, List.append_assoc, runSteps]
      have := divergingFixup_run coeff depth (Step.eff "W:out.units" (Eff.setUnits mid) :: (chainSteps true none [] none coeff depth mid false r ++ rest))
      exact ⟨this.1, by rw [this.2]⟩
    · have ho' : op.outBuf = false := by simpa using ho
      simp only [ho', Bool.false_eq_true, if_false]
      apply ih
      simpa [ho'] using hops

def allEff (s : List (Step K)) : Bool := s.all Step.isEff

theorem allEff_passes (s : List (Step K)) (h : allEff s = true) : s.all Step.passes = true := by
  induction s with
  | nil => rfl
  | cons st r ih =>
    cases st with
    | check t v => simp [allEff, Step.isEff] at h
    | eff t e =>
      simp only [allEff, List.all_cons, Bool.and_eq_true] at h
      simp only [List.all_cons, Step.passes, Bool.true_and]
      exact ih h.2

theorem chain_false_allEff (re : Bool) (r : Option Err) (pm : List (Step K)) (k : Option Err) (c : K) (d : Nat)
    (mid : UnitV K) (ops : List Op) :
    allEff (chainSteps re r pm k c d mid false ops) = true := by
  induction ops with
  | nil => rfl
  | cons op rest ih =>
    unfold chainSteps
    by_cases ho : op.outBuf = true
    · simp only [ho, if_true, Bool.false_eq_true, if_false, allEff, List.all_append, List.all_cons, Step.isEff,
        List.all_nil, Bool.and_true, Bool.true_and]
      exact ih
    · have ho' : op.outBuf = false := by simpa using ho
      simp only [ho', Bool.false_eq_true, if_false]
      exact ih

/-- the chain (raw-buffer post-multiplication, or a unit without coefficient): the unit check, the
    promotion of an integer array, the kernel's own check, then effects only -/
theorem chain_true_shape (re : Bool) (r : Option Err) (pm : List (Step K)) (k : Option Err) (c : K)
    (hc : re = false ∨ (c == 1) = true) (d : Nat) (mid : UnitV K) (ops : List Op) :
    chainSteps re r pm k c d mid true ops = []
    ∨ ∃ tl, allEff tl = true ∧ chainSteps re r pm k c d mid true ops
        = .check "F:unit_operator" r :: (pm ++ .check "W:func(out=out_func)" k :: tl) := by
  induction ops with
  | nil => exact Or.inl rfl
  | cons op rest ih =>
    unfold chainSteps
    by_cases ho : op.outBuf = true
    · have hrest := chain_false_allEff re r pm k c d mid rest
      simp only [allEff] at hrest
      rcases hc with hre | hc1
      · subst hre
        by_cases hc1 : (c == 1) = true
        · refine Or.inr ⟨_, ?_, by simp only [ho, if_true, hc1, List.cons_append, List.nil_append, List.append_nil, List.append_assoc]; rfl⟩
          simp only [allEff, List.all_cons, List.all_append, Step.isEff, Bool.true_and, List.all_nil, Bool.and_true]
          exact hrest
        · have hc0 : (c == 1) = false := by simpa using hc1
          refine Or.inr ⟨_, ?_, by simp only [ho, if_true, hc0, Bool.false_eq_true, if_false, List.cons_append, List.nil_append, List.append_nil, List.append_assoc]; rfl⟩
          simp only [allEff, List.all_cons, List.all_append, Step.isEff, Bool.true_and, List.all_nil, Bool.and_true]
          exact hrest
      · refine Or.inr ⟨_, ?_, by simp only [ho, if_true, hc1, List.cons_append, List.nil_append, List.append_nil, List.append_assoc]; rfl⟩
        simp only [allEff, List.all_cons, List.all_append, Step.isEff, Bool.true_and, List.all_nil, Bool.and_true]
        exact hrest
    · have ho' : op.outBuf = false := by simpa using ho
      simp only [ho', Bool.false_eq_true, if_false]
      exact ih

/-- the steps of `convert_to_equivalent` across dimensions, spelled out -/
theorem cte_steps_across (fl : CtuFlags) (N : NumpyFacts) (P : DtypeRules) (pre : Prefixes K) (t : Lut K) (T : EmTable K)
    (reg : List EquivRec) (a : Arr K) (c : EquivCall K) (cu : UnitV K) (e : EquivRec) (f : Formula)
    (h1 : c.convUnit = .ok cu) (h2 : (a.unit.dim == cu.dim) = false) (h3 : findEquiv reg c.name = some e)
    (h4 : e.dims.contains a.unit.dim = true) (h5 : e.convert .inplace a.unit.dim cu.dim = .ok (some f))
    (h6 : acceptsParams reg (some c.name) c.kwargs = true) :
    convertToEquivalentSteps fl N P pre t T reg a c =
      [.check Tag.mkUnit none, .check Tag.registry none, .check Tag.equivInplace none, .check Tag.hasEquiv none,
       .check Tag.callConvert none] ++
      (chainSteps c.reenters (offsetRefusal c.powRefuses a.unit f) (promoOut fl N P a)
          (chainKernelRefuses N a.writeable (promotedDtype N P a.dtype)) c.selfCoeff c.depth (midUnit cu.dim) true
          (inplaceOps e a.unit.dim cu.dim)
        ++ (.check Tag.callCtu none ::
            convertToUnitsSteps fl N P pre t T { a with unit := midUnit cu.dim, dtype := promotedDtype N P a.dtype } (.ok cu))
        ++ [.eff Tag.setName .clearName]) := by
  unfold convertToEquivalentSteps
  simp only [h1, h2, h3, h4, h5, h6, Bool.false_eq_true, if_false, Bool.not_true, beq_self_eq_true, if_true,
    Bool.and_false, List.cons_append, List.nil_append, List.append_assoc]

/-- what `_float_out_view` does on a writeable array: either it refuses (`astype`) before any effect,
    or every step passes and the effects are the re-typing pair (nothing for a non-integer dtype) -/
theorem promoOut_cases (fl : CtuFlags) (N : NumpyFacts) (P : DtypeRules) (a : Arr K) (hw : a.writeable = true) :
    (∃ e, (runSteps (promoOut fl N P a)).result = .error e ∧ ∀ rest, (runSteps (promoOut fl N P a ++ rest)).effects = [])
    ∨ ((promoOut fl N P a).all Step.passes = true
        ∧ (effSteps (promoOut fl N P a) = []
           ∨ ∃ md, outPromote N P a.dtype = .ok md ∧ effSteps (promoOut fl N P a) = [.retype md, .castCopy md])) := by
  unfold promoOut
  cases hi : P.outIntKinds.contains a.dtype.kind with
  | false => right; simp [effSteps]
  | true =>
    simp only [hw, Bool.not_true, Bool.false_eq_true, if_false, if_true]
    cases hp : outPromote N P a.dtype with
    | error er =>
      left
      refine ⟨er, ?_, ?_⟩
      · cases fl.outRoGuard <;> simp [runSteps]
      · intro rest; cases fl.outRoGuard <;> simp [runSteps]
    | ok md =>
      right
      refine ⟨?_, Or.inr ⟨md, rfl, ?_⟩⟩
      · cases fl.outRoGuard <;> simp [Step.passes]
      · cases fl.outRoGuard <;> simp [effSteps]

/-- the final `convert_to_units` of `convert_to_equivalent` starts from the coherent unit of the
    requested dimension: its dimension check cannot fail -/
theorem ctuPrelude_mid (pre : Prefixes K) (t : Lut K) (T : EmTable K) (cu : UnitV K) :
    ∃ f, (ctuPrelude pre t T (midUnit cu.dim) cu).2 = some f := by
  unfold ctuPrelude
  have h1 : checkEmTo pre t T (midUnit cu.dim : UnitV K) cu = .ok none := by
    unfold checkEmTo
    split
    · rfl
    · have : emHit pre t T (midUnit cu.dim : UnitV K) = none := by
        unfold emHit UnitV.atomName midUnit
        simp [UExpr.one, UExpr.normF, UExpr.sortMerge, UExpr.dropZeros]
      rw [this]
  rw [h1]
  dsimp only
  have h2 : ∃ f, getConversionFactor pre t (midUnit cu.dim : UnitV K) cu = .ok f := by
    unfold getConversionFactor midUnit
    simp only [bne_self_eq_false, Bool.false_eq_true, if_false]
    split <;> exact ⟨_, rfl⟩
  obtain ⟨f, hf⟩ := h2
  rw [hf]
  exact ⟨f, rfl⟩

end Unyt.Effects
