/-
  Helper lemmas for C18 (no property statements here).
-/
import UnytModel.Effects

set_option linter.unusedSectionVars false

namespace Unyt.Effects
open Unyt

variable {K : Type}

theorem runSteps_all_pass (s : List (Step K)) (h : s.all Step.passes = true) :
    (runSteps s).result = .ok () := by
  induction s with
  | nil => rfl
  | cons st r ih =>
    cases st with
    | check t v =>
      cases v with
      | none => simp only [List.all_cons, Bool.and_eq_true] at h; simpa [runSteps] using ih h.2
      | some e => simp [Step.passes] at h
    | eff t e => simp only [List.all_cons, Bool.and_eq_true] at h; simpa [runSteps] using ih h.2

/-- the effects of a run are a prefix of the effect steps of the program, in order -/
def effSteps : List (Step K) → List (Eff K)
  | [] => []
  | .check _ _ :: r => effSteps r
  | .eff _ e :: r => e :: effSteps r

theorem runSteps_effects_prefix (s : List (Step K)) : (runSteps s).effects <+: effSteps s := by
  induction s with
  | nil => simp [runSteps, effSteps]
  | cons st r ih =>
    cases st with
    | check t v =>
      cases v with
      | none => simpa [runSteps, effSteps] using ih
      | some e => simp [runSteps, effSteps]
    | eff t e => simpa [runSteps, effSteps] using ih

theorem runSteps_ok_effects (s : List (Step K)) (h : (runSteps s).result = .ok ()) :
    (runSteps s).effects = effSteps s := by
  induction s with
  | nil => rfl
  | cons st r ih =>
    cases st with
    | check t v =>
      cases v with
      | none => simpa [runSteps, effSteps] using ih (by simpa [runSteps] using h)
      | some e => simp [runSteps] at h
    | eff t e => simp only [runSteps, effSteps]; rw [ih (by simpa [runSteps] using h)]

theorem runSteps_append_ok (a b : List (Step K)) (h : (runSteps a).result = .ok ()) :
    (runSteps (a ++ b)).effects = (runSteps a).effects ++ (runSteps b).effects
    ∧ (runSteps (a ++ b)).result = (runSteps b).result := by
  induction a with
  | nil => simp [runSteps]
  | cons st r ih =>
    cases st with
    | check t v =>
      cases v with
      | none => simpa [runSteps] using ih (by simpa [runSteps] using h)
      | some e => simp [runSteps] at h
    | eff t e =>
      have := ih (by simpa [runSteps] using h)
      simp [runSteps, this.1, this.2]

theorem runSteps_append_err (a b : List (Step K)) (e : Err) (h : (runSteps a).result = .error e) :
    (runSteps (a ++ b)).effects = (runSteps a).effects
    ∧ (runSteps (a ++ b)).result = .error e := by
  induction a with
  | nil => simp [runSteps] at h
  | cons st r ih =>
    cases st with
    | check t v =>
      cases v with
      | none => simpa [runSteps] using ih (by simpa [runSteps] using h)
      | some e' => simp [runSteps] at h ⊢; exact h
    | eff t e' =>
      have := ih (by simpa [runSteps] using h)
      simp [runSteps, this.1, this.2]

theorem err?_eq_some (r : IRun K) (e : Err) : r.err? = some e ↔ r.result = .error e := by
  unfold IRun.err?
  cases r.result <;> simp

theorem err?_eq_none (r : IRun K) : r.err? = none ↔ r.result = .ok () := by
  unfold IRun.err?
  cases r.result <;> simp

theorem runSteps_split_pass (A B : List (Step K)) (hB : B.all Step.passes = true) (e : Err)
    (h : (runSteps (A ++ B)).result = .error e) :
    (runSteps A).result = .error e ∧ (runSteps (A ++ B)).effects = (runSteps A).effects := by
  cases hA : (runSteps A).result with
  | ok u =>
    have := (runSteps_append_ok A B hA).2
    rw [this, runSteps_all_pass B hB] at h
    cases h
  | error e' =>
    have := runSteps_append_err A B e' hA
    rw [this.2] at h
    cases h
    exact ⟨rfl, this.1⟩

def allChecks (s : List (Step K)) : Bool := s.all (fun st => !st.isEff)

theorem noLateFault_checks_append (a b : List (Step K)) (h : allChecks a = true) :
    noLateFault (a ++ b) = noLateFault b := by
  induction a with
  | nil => rfl
  | cons st r ih =>
    cases st with
    | check t v =>
      simp only [allChecks, List.all_cons, Bool.and_eq_true] at h
      simpa [noLateFault] using ih h.2
    | eff t e => simp [allChecks, Step.isEff] at h

theorem noLateFault_of_allChecks (a : List (Step K)) (h : allChecks a = true) : noLateFault a = true := by
  have := noLateFault_checks_append a [] h
  simpa [noLateFault] using this

/-- a list whose steps all pass has no late fault -/
theorem noLateFault_of_passes_tail (s : List (Step K)) (h : s.all Step.passes = true) : noLateFault s = true := by
  induction s with
  | nil => rfl
  | cons st r ih =>
    cases st with
    | check t v => simp only [List.all_cons, Bool.and_eq_true] at h; simpa [noLateFault] using ih h.2
    | eff t e => simp only [List.all_cons, Bool.and_eq_true] at h; simpa [noLateFault] using h.2

theorem effSteps_of_allChecks (a : List (Step K)) (h : allChecks a = true) : effSteps a = [] := by
  induction a with
  | nil => rfl
  | cons st r ih =>
    cases st with
    | check t v =>
      simp only [allChecks, List.all_cons, Bool.and_eq_true] at h
      simpa [effSteps] using ih h.2
    | eff t e => simp [allChecks, Step.isEff] at h

theorem effSteps_append (a b : List (Step K)) : effSteps (a ++ b) = effSteps a ++ effSteps b := by
  induction a with
  | nil => rfl
  | cons st r ih => cases st <;> simp [effSteps, ih]

/-- a program made of checks only never has effects -/
theorem runSteps_allChecks_effects (a : List (Step K)) (h : allChecks a = true) :
    (runSteps a).effects = [] := by
  have h1 := runSteps_effects_prefix a
  rw [effSteps_of_allChecks a h] at h1
  exact List.prefix_nil.mp h1

section ctu
variable [Add K] [Sub K] [Mul K] [Div K] [OfNat K 0] [OfNat K 1] [BEq K] [RPow K]

theorem ctuPrelude_allChecks (pre : Prefixes K) (t : Lut K) (T : EmTable K) (u tg : UnitV K) :
    allChecks (ctuPrelude pre t T u tg).1 = true := by
  unfold ctuPrelude
  split
  · rfl
  · dsimp only
    split
    · rfl
    · split <;> rfl
  · split <;> rfl

/-- the prelude yields a factor exactly when all its checks pass -/
theorem ctuPrelude_some (pre : Prefixes K) (t : Lut K) (T : EmTable K) (u tg : UnitV K) (f : K × Option K)
    (h : (ctuPrelude pre t T u tg).2 = some f) : (ctuPrelude pre t T u tg).1.all Step.passes = true := by
  unfold ctuPrelude at h ⊢
  split at h
  · simp at h
  · dsimp only at h ⊢
    split at h
    · simp at h
    · split at h
      · simp at h
      · rfl
  · split at h
    · simp at h
    · rfl

theorem ctuPrelude_none (pre : Prefixes K) (t : Lut K) (T : EmTable K) (u tg : UnitV K)
    (h : (ctuPrelude pre t T u tg).2 = none) : ∃ e, (runSteps (ctuPrelude pre t T u tg).1).result = .error e := by
  unfold ctuPrelude at h ⊢
  split at h
  · exact ⟨_, rfl⟩
  · dsimp only at h ⊢
    split at h
    · exact ⟨_, rfl⟩
    · split at h
      · exact ⟨_, rfl⟩
      · simp at h
  · split at h
    · exact ⟨_, rfl⟩
    · simp at h

/-- the effects of `values *= f; if offset: np.subtract(values, offset, values)` -/
def mulSubEffects (f : K × Option K) : List (Eff K) :=
  .scale f.1 :: (match offsetTruthy f.2 with | some o => [.shift o] | none => [])

theorem mulSub_ok (N : NumpyFacts) (w : Bool) (d : Dtype) (f : K × Option K)
    (h : (runSteps (mulSub N w d f)).result = .ok ()) :
    w = true ∧ N.imulPyFloatOk.contains d = true
      ∧ (runSteps (mulSub N w d f)).effects = mulSubEffects f := by
  unfold mulSub at h ⊢
  cases w with
  | false => simp [runSteps] at h
  | true =>
    cases hm : N.imulPyFloatOk.contains d with
    | false => rw [hm] at h; simp [runSteps] at h
    | true =>
      refine ⟨rfl, rfl, ?_⟩
      simp only [Bool.not_true, Bool.false_eq_true, if_false, mulSubEffects]
      cases offsetTruthy f.2 <;> simp [runSteps]

theorem applyAll_append (kern : String → K → K) (stored : K) (t : Target K) (a b : List (Eff K)) :
    applyAll kern stored t (a ++ b) = applyAll kern stored (applyAll kern stored t a) b := by
  simp [applyAll, List.foldl_append]

/-- … applied to a target: the numbers go through `applyFactor`, nothing else moves -/
theorem applyAll_mulSub (kern : String → K → K) (stored : K) (t : Target K) (f : K × Option K) :
    applyAll kern stored t (mulSubEffects f) = { t with value := applyFactor f t.value } := by
  obtain ⟨r, o⟩ := f
  cases o with
  | none => simp [mulSubEffects, offsetTruthy, applyAll, Eff.apply, applyFactor]
  | some v =>
    by_cases hz : (v != 0) = true
    · simp [mulSubEffects, offsetTruthy, hz, applyAll, Eff.apply, applyFactor]
    · simp [mulSubEffects, offsetTruthy, hz, applyAll, Eff.apply, applyFactor]

theorem mulSub_all_pass (N : NumpyFacts) (d : Dtype) (f : K × Option K) (hm : N.imulPyFloatOk.contains d = true) :
    (mulSub N true d f).all Step.passes = true := by
  simp only [mulSub, hm]
  cases offsetTruthy f.2 <;> simp [Step.passes]

theorem mulSub_noLate (N : NumpyFacts) (w : Bool) (d : Dtype) (f : K × Option K) (tail : List (Step K))
    (ht : tail.all Step.passes = true) : noLateFault (mulSub N w d f ++ tail) = true := by
  simp only [mulSub, List.cons_append, noLateFault, List.all_append, ht, List.nil_append]
  cases offsetTruthy f.2 <;> simp [Step.passes]

/-- when the data conversion returns: the dtype of C17's `convertToUnitsDtype`, and exactly these effects -/
theorem convertData_ok (fl : CtuFlags) (N : NumpyFacts) (P : DtypeRules) (a : Arr K) (f : K × Option K)
    (h : (runSteps (convertData fl N P a f)).result = .ok ()) :
    ∃ nd pre, convertToUnitsDtype N P a.dtype = .ok nd
      ∧ ((pre = [] ∧ nd = a.dtype) ∨ pre = [Eff.retype nd, Eff.retype nd, Eff.castCopy nd])
      ∧ (runSteps (convertData fl N P a f)).effects = pre ++ mulSubEffects f := by
  unfold convertData at h ⊢
  unfold convertToUnitsDtype
  cases hi : P.inplaceIntKinds.contains a.dtype.kind with
  | false =>
    rw [hi] at h
    simp only [Bool.false_eq_true, if_false] at h ⊢
    obtain ⟨_, hm, hef⟩ := mulSub_ok N a.writeable a.dtype f h
    exact ⟨a.dtype, [], by rw [hm]; rfl, Or.inl ⟨rfl, rfl⟩, by rw [hef]; rfl⟩
  | true =>
    rw [hi] at h
    simp only [if_true] at h ⊢
    by_cases hs : a.dtype.size = P.inplaceRefuseSize
    · simp [hs, runSteps] at h
    · simp only [hs, if_false] at h ⊢
      cases hn : npDtype N P.inplaceKind a.dtype.size with
      | error e => rw [hn] at h; cases hr : fl.roGuard <;> cases hw : a.writeable <;> simp [hr, hw, runSteps] at h
      | ok nd =>
        rw [hn] at h
        refine ⟨nd, [Eff.retype nd, Eff.retype nd, Eff.castCopy nd], rfl, Or.inr rfl, ?_⟩
        cases hr : fl.roGuard <;> cases hw : a.writeable <;> rw [hr, hw] at h <;>
          simp only [Bool.false_eq_true, if_false, if_true, Bool.or_false, Bool.or_true, Bool.true_or, Bool.false_or,
            List.nil_append, List.cons_append, runSteps] at h ⊢
        · cases h
        · obtain ⟨_, _, hef⟩ := mulSub_ok N true nd f h
          rw [hef]
        · cases h
        · obtain ⟨_, _, hef⟩ := mulSub_ok N true nd f h
          rw [hef]

/-- unpatched guard: every step of the data conversion passes -/
theorem convertData_all_pass (fl : CtuFlags) (N : NumpyFacts) (P : DtypeRules) (a : Arr K) (f : K × Option K)
    (hw : a.writeable = true)
    (hd : (match convertToUnitsDtype N P a.dtype with | .ok nd => N.imulPyFloatOk.contains nd | .error _ => false) = true) :
    (convertData fl N P a f).all Step.passes = true := by
  unfold convertData
  unfold convertToUnitsDtype at hd
  cases hi : P.inplaceIntKinds.contains a.dtype.kind with
  | false =>
    rw [hi] at hd
    simp only [Bool.false_eq_true, if_false] at hd ⊢
    cases hm : N.imulPyFloatOk.contains a.dtype with
    | false => rw [hm] at hd; simp at hd
    | true => rw [hw]; exact mulSub_all_pass N a.dtype f hm
  | true =>
    rw [hi] at hd
    simp only [if_true] at hd ⊢
    by_cases hs : a.dtype.size = P.inplaceRefuseSize
    · simp [hs] at hd
    · simp only [hs, if_false] at hd ⊢
      cases hn : npDtype N P.inplaceKind a.dtype.size with
      | error e => rw [hn] at hd; simp at hd
      | ok nd =>
        rw [hn] at hd
        simp only at hd
        have := mulSub_all_pass (K := K) N nd f hd
        cases fl.roGuard <;> simp [hw, Step.passes, this]

/-- patched order (unit last): only the integer route performs an effect before its last fallible step -/
theorem convertData_noLate (fl : CtuFlags) (N : NumpyFacts) (P : DtypeRules) (a : Arr K) (f : K × Option K)
    (tail : List (Step K)) (ht : tail.all Step.passes = true)
    (hg : (!(P.inplaceIntKinds.contains a.dtype.kind) ||
      (match convertToUnitsDtype N P a.dtype with
       | .ok nd => (fl.roGuard || a.writeable) && N.imulPyFloatOk.contains nd
       | .error _ => true)) = true) :
    noLateFault (convertData fl N P a f ++ tail) = true := by
  unfold convertData
  unfold convertToUnitsDtype at hg
  cases hi : P.inplaceIntKinds.contains a.dtype.kind with
  | false =>
    simp only [Bool.false_eq_true, if_false]
    exact mulSub_noLate N a.writeable a.dtype f tail ht
  | true =>
    rw [hi] at hg
    simp only [Bool.not_true, Bool.false_or, if_true] at hg ⊢
    by_cases hs : a.dtype.size = P.inplaceRefuseSize
    · simp only [hs, if_true, List.cons_append, List.nil_append, noLateFault]
      exact noLateFault_of_passes_tail tail ht
    · simp only [hs, if_false] at hg ⊢
      cases hn : npDtype N P.inplaceKind a.dtype.size with
      | error e =>
        cases fl.roGuard <;> simp only [Bool.false_eq_true, if_false, if_true, List.nil_append, List.cons_append, noLateFault] <;>
          exact noLateFault_of_passes_tail tail ht
      | ok nd =>
        rw [hn] at hg
        simp only [Bool.and_eq_true] at hg
        obtain ⟨hw', hm⟩ := hg
        have hmp := mulSub_all_pass (K := K) N nd f hm
        rw [hw']
        cases hr : fl.roGuard <;> simp only [Bool.false_eq_true, if_false, if_true, List.nil_append, List.cons_append,
          noLateFault, List.all_cons, List.all_append, Step.passes, Bool.true_and, hmp, ht, Bool.and_true]

end ctu

end Unyt.Effects
