/-
  Helper lemmas for C18 (no property statements here).
-/
import UnytModel.Effects

set_option linter.unusedSectionVars false

namespace Unyt.Effects
open Unyt

variable {K : Type}

theorem runSteps_all_pass (s : List (Step K)) (h : s.all Step.passes = true) :
    (runSteps s).result = .ok () := by
  induction s with
  | nil => rfl
  | cons st r ih =>
    cases st with
    | check t v =>
      cases v with
      | none => simp only [List.all_cons, Bool.and_eq_true] at h; simpa [runSteps] using ih h.2
      | some e => simp [Step.passes] at h
    | eff t e => simp only [List.all_cons, Bool.and_eq_true] at h; simpa [runSteps] using ih h.2

/-- the effects of a run are a prefix of the effect steps of the program, in order -/
def effSteps : List (Step K) → List (Eff K)
  | [] => []
  | .check _ _ :: r => effSteps r
  | .eff _ e :: r => e :: effSteps r

theorem runSteps_effects_prefix (s : List (Step K)) : (runSteps s).effects <+: effSteps s := by
  induction s with
  | nil => simp [runSteps, effSteps]
  | cons st r ih =>
    cases st with
    | check t v =>
      cases v with
      | none => simpa [runSteps, effSteps] using ih
      | some e => simp [runSteps, effSteps]
    | eff t e => simpa [runSteps, effSteps] using ih

theorem runSteps_ok_effects (s : List (Step K)) (h : (runSteps s).result = .ok ()) :
    (runSteps s).effects = effSteps s := by
  induction s with
  | nil => rfl
  | cons st r ih =>
    cases st with
    | check t v =>
      cases v with
      | none => simpa [runSteps, effSteps] using ih (by simpa [runSteps] using h)
      | some e => simp [runSteps] at h
    | eff t e => simp only [runSteps, effSteps]; rw [ih (by simpa [runSteps] using h)]

theorem runSteps_append_ok (a b : List (Step K)) (h : (runSteps a).result = .ok ()) :
    (runSteps (a ++ b)).effects = (runSteps a).effects ++ (runSteps b).effects
    ∧ (runSteps (a ++ b)).result = (runSteps b).result := by
  induction a with
  | nil => simp [runSteps]
  | cons st r ih =>
    cases st with
    | check t v =>
      cases v with
      | none => simpa [runSteps] using ih (by simpa [runSteps] using h)
      | some e => simp [runSteps] at h
    | eff t e =>
      have := ih (by simpa [runSteps] using h)
      simp [runSteps, this.1, this.2]

theorem runSteps_append_err (a b : List (Step K)) (e : Err) (h : (runSteps a).result = .error e) :
    (runSteps (a ++ b)).effects = (runSteps a).effects
    ∧ (runSteps (a ++ b)).result = .error e := by
  induction a with
  | nil => simp [runSteps] at h
  | cons st r ih =>
    cases st with
    | check t v =>
      cases v with
      | none => simpa [runSteps] using ih (by simpa [runSteps] using h)
      | some e' => simp [runSteps] at h ⊢; exact h
    | eff t e' =>
      have := ih (by simpa [runSteps] using h)
      simp [runSteps, this.1, this.2]

theorem err?_eq_some (r : IRun K) (e : Err) : r.err? = some e ↔ r.result = .error e := by
  unfold IRun.err?
  cases r.result <;> simp

theorem err?_eq_none (r : IRun K) : r.err? = none ↔ r.result = .ok () := by
  unfold IRun.err?
  cases r.result <;> simp

theorem runSteps_split_pass (A B : List (Step K)) (hB : B.all Step.passes = true) (e : Err)
    (h : (runSteps (A ++ B)).result = .error e) :
    (runSteps A).result = .error e ∧ (runSteps (A ++ B)).effects = (runSteps A).effects := by
  cases hA : (runSteps A).result with
  | ok u =>
    have := (runSteps_append_ok A B hA).2
    rw [this, runSteps_all_pass B hB] at h
    cases h
  | error e' =>
    have := runSteps_append_err A B e' hA
    rw [this.2] at h
    cases h
    exact ⟨rfl, this.1⟩

def allChecks (s : List (Step K)) : Bool := s.all (fun st => !st.isEff)

theorem noLateFault_checks_append (a b : List (Step K)) (h : allChecks a = true) :
    noLateFault (a ++ b) = noLateFault b := by
  induction a with
  | nil => rfl
  | cons st r ih =>
    cases st with
    | check t v =>
      simp only [allChecks, List.all_cons, Bool.and_eq_true] at h
      simpa [noLateFault] using ih h.2
    | eff t e => simp [allChecks, Step.isEff] at h

theorem noLateFault_of_allChecks (a : List (Step K)) (h : allChecks a = true) : noLateFault a = true := by
  have := noLateFault_checks_append a [] h
  simpa [noLateFault] using this

theorem effSteps_of_allChecks (a : List (Step K)) (h : allChecks a = true) : effSteps a = [] := by
  induction a with
  | nil => rfl
  | cons st r ih =>
    cases st with
    | check t v =>
      simp only [allChecks, List.all_cons, Bool.and_eq_true] at h
      simpa [effSteps] using ih h.2
    | eff t e => simp [allChecks, Step.isEff] at h

theorem effSteps_append (a b : List (Step K)) : effSteps (a ++ b) = effSteps a ++ effSteps b := by
  induction a with
  | nil => rfl
  | cons st r ih => cases st <;> simp [effSteps, ih]

/-- a program made of checks only never has effects -/
theorem runSteps_allChecks_effects (a : List (Step K)) (h : allChecks a = true) :
    (runSteps a).effects = [] := by
  have h1 := runSteps_effects_prefix a
  rw [effSteps_of_allChecks a h] at h1
  exact List.prefix_nil.mp h1

section ctu
variable [Add K] [Sub K] [Mul K] [Div K] [OfNat K 0] [OfNat K 1] [BEq K] [RPow K]

theorem ctuPrelude_allChecks (pre : Prefixes K) (t : Lut K) (T : EmTable K) (u tg : UnitV K) :
    allChecks (ctuPrelude pre t T u tg).1 = true := by
  unfold ctuPrelude
  split
  · rfl
  · dsimp only
    split
    · rfl
    · split <;> rfl
  · split <;> rfl

/-- the prelude yields a factor exactly when all its checks pass -/
theorem ctuPrelude_some (pre : Prefixes K) (t : Lut K) (T : EmTable K) (u tg : UnitV K) (f : K × Option K)
    (h : (ctuPrelude pre t T u tg).2 = some f) : (ctuPrelude pre t T u tg).1.all Step.passes = true := by
  unfold ctuPrelude at h ⊢
  split at h
  · simp at h
  · dsimp only at h ⊢
    split at h
    · simp at h
    · split at h
      · simp at h
      · rfl
  · split at h
    · simp at h
    · rfl

theorem ctuPrelude_none (pre : Prefixes K) (t : Lut K) (T : EmTable K) (u tg : UnitV K)
    (h : (ctuPrelude pre t T u tg).2 = none) : ∃ e, (runSteps (ctuPrelude pre t T u tg).1).result = .error e := by
  unfold ctuPrelude at h ⊢
  split at h
  · exact ⟨_, rfl⟩
  · dsimp only at h ⊢
    split at h
    · exact ⟨_, rfl⟩
    · split at h
      · exact ⟨_, rfl⟩
      · simp at h
  · split at h
    · exact ⟨_, rfl⟩
    · simp at h

/-- the effects of `values *= f; if offset: np.subtract(values, offset, values)` -/
def mulSubEffects (f : K × Option K) : List (Eff K) :=
  .scale f.1 :: (match offsetTruthy f.2 with | some o => [.shift o] | none => [])

theorem mulSub_ok (N : NumpyFacts) (w : Bool) (d : Dtype) (f : K × Option K)
    (h : (runSteps (mulSub N w d f)).result = .ok ()) :
    w = true ∧ N.imulPyFloatOk.contains d = true
      ∧ (runSteps (mulSub N w d f)).effects = mulSubEffects f := by
  unfold mulSub at h ⊢
  cases w with
  | false => simp [runSteps] at h
  | true =>
    cases hm : N.imulPyFloatOk.contains d with
    | false => rw [hm] at h; simp [runSteps] at h
    | true =>
      refine ⟨rfl, rfl, ?_⟩
      simp only [Bool.not_true, Bool.false_eq_true, if_false, mulSubEffects]
      cases offsetTruthy f.2 <;> simp [runSteps]

theorem applyAll_append (kern : String → K → K) (stored : K) (t : Target K) (a b : List (Eff K)) :
    applyAll kern stored t (a ++ b) = applyAll kern stored (applyAll kern stored t a) b := by
  simp [applyAll, List.foldl_append]

/-- … applied to a target: the numbers go through `applyFactor`, nothing else moves -/
theorem applyAll_mulSub (kern : String → K → K) (stored : K) (t : Target K) (f : K × Option K) :
    applyAll kern stored t (mulSubEffects f) = { t with value := applyFactor f t.value } := by
  obtain ⟨r, o⟩ := f
  cases o with
  | none => simp [mulSubEffects, offsetTruthy, applyAll, Eff.apply, applyFactor]
  | some v =>
    by_cases hz : (v != 0) = true
    · simp [mulSubEffects, offsetTruthy, hz, applyAll, Eff.apply, applyFactor]
    · simp [mulSubEffects, offsetTruthy, hz, applyAll, Eff.apply, applyFactor]

end ctu

end Unyt.Effects
