/-
  Helper lemmas: the denotation of factor lists is invariant under the table write-back,
  multiplicative over append, and invariant under normalisation (given lawful powers).
-/
import UnytModel.Unit
import UnytProofs.Lemmas.Lut
import UnytProofs.Lemmas.Dim
import UnytProofs.Lemmas.UExpr

set_option linter.unusedSectionVars false

namespace Unyt
open UExpr

variable {K : Type} [Lean.Grind.Field K] [RPow K]

theorem denoteF_congr (pre : Prefixes K) (t t' : Lut K) (h : ∀ k, resolve pre t k = resolve pre t' k)
    (f : Factors) : denoteF pre t f = denoteF pre t' f := by
  induction f with
  | nil => rfl
  | cons p r ih => obtain ⟨s, q⟩ := p; simp only [denoteF, h s, ih]

/-- the threaded evaluation computes the pure denotation and leaves resolution unchanged -/
theorem evalFactors_denote (pre : Prefixes K) (f : Factors) :
    ∀ (t : Lut K) (v : K) (d : Dim) (t' : Lut K), evalFactors pre t f = .ok (v, d, t') →
      denoteF pre t f = some (v, d) ∧ ∀ k, resolve pre t' k = resolve pre t k := by
  induction f with
  | nil => intro t v d t' h; simp only [evalFactors] at h; cases h; exact ⟨rfl, fun _ => rfl⟩
  | cons p r ih =>
    obtain ⟨s, q⟩ := p
    intro t v d t' h
    simp only [evalFactors] at h
    split at h
    · contradiction
    · rename_i ent t1 hl
      split at h
      · contradiction
      · rename_i v1 d1 t2 he
        cases h
        obtain ⟨hd, hr⟩ := ih t1 v1 d1 t' he
        have h1 : ∀ k, resolve pre t1 k = resolve pre t k := resolve_set_derived pre t s ent t1 hl
        have hres : resolve pre t s = some ent := by simp only [resolve, hl]
        refine ⟨?_, fun k => (hr k).trans (h1 k)⟩
        rw [denoteF_congr pre t1 t h1] at hd
        simp only [denoteF, hres, hd]

/-- every symbol of the list resolves to an entry with a "positive" scale -/
def AllPos (P : K → Prop) (pre : Prefixes K) (t : Lut K) (f : Factors) : Prop :=
  ∀ s q, (s, q) ∈ f → ∃ e, resolve pre t s = some e ∧ P e.scale

theorem denoteF_append (pre : Prefixes K) (t : Lut K) (a b : Factors) :
    denoteF pre t (a ++ b) =
      match denoteF pre t a, denoteF pre t b with
      | some (va, da), some (vb, db) => some (va * vb, da * db)
      | _, _ => none := by
  induction a with
  | nil =>
    simp only [List.nil_append, denoteF]
    cases denoteF pre t b with
    | none => rfl
    | some x => obtain ⟨vb, db⟩ := x; simp only [Dim.one_mul']; congr 2; grind
  | cons p r ih =>
    obtain ⟨s, q⟩ := p
    simp only [List.cons_append, denoteF, ih]
    cases resolve pre t s with
    | none => rfl
    | some ent =>
      cases denoteF pre t r with
      | none => rfl
      | some x =>
        obtain ⟨va, da⟩ := x
        cases denoteF pre t b with
        | none => rfl
        | some y =>
          obtain ⟨vb, db⟩ := y
          simp only [Dim.mul_assoc']
          congr 2; grind

variable (P : K → Prop) (laws : RPowLaws (RPow.rpow (K := K)) P)
include laws

theorem pw_eq {x : K} (hx : P x) (q : Rat) : pw x q = RPow.rpow x q := by
  simp only [pw]; split
  · rename_i h; subst h; exact (laws.rpow_one hx).symm
  · rfl

theorem denoteF_pos (pre : Prefixes K) (t : Lut K) (f : Factors) (h : AllPos P pre t f) :
    ∃ v d, denoteF pre t f = some (v, d) ∧ P v := by
  induction f with
  | nil => exact ⟨1, Dim.one, rfl, laws.pos_one⟩
  | cons p r ih =>
    obtain ⟨s, q⟩ := p
    obtain ⟨e, he, hp⟩ := h s q (List.mem_cons_self ..)
    obtain ⟨v, d, hv, hpv⟩ := ih (fun s' q' hm => h s' q' (List.mem_cons_of_mem _ hm))
    refine ⟨pw e.scale q * v, e.dim.pow q * d, by simp only [denoteF, he, hv], ?_⟩
    rw [pw_eq P laws hp]; exact laws.pos_mul (laws.pos_rpow q hp) hpv

theorem denoteF_insertF (pre : Prefixes K) (t : Lut K) (s : String) (q : Rat) (f : Factors)
    (h : AllPos P pre t ((s, q) :: f)) :
    denoteF pre t (insertF s q f) = denoteF pre t ((s, q) :: f) := by
  induction f with
  | nil => rfl
  | cons p r ih =>
    obtain ⟨u, w⟩ := p
    obtain ⟨es, hes, hps⟩ := h s q (List.mem_cons_self ..)
    obtain ⟨eu, heu, hpu⟩ := h u w (List.mem_cons_of_mem _ (List.mem_cons_self ..))
    simp only [insertF]
    split
    · rename_i hsu; subst hsu
      rw [heu] at hes; cases hes
      simp only [denoteF, heu]
      cases denoteF pre t r with
      | none => rfl
      | some x =>
        obtain ⟨v, d⟩ := x
        simp only [pw_eq P laws hpu, laws.rpow_add w q hpu, Dim.pow_add, Dim.mul_assoc']
        congr 2
        · grind
        · rw [← Dim.mul_assoc', ← Dim.mul_assoc', Dim.mul_comm' (es.dim.pow w)]
    · split
      · rfl
      · have hr : AllPos P pre t ((s, q) :: r) := by
          intro s' q' hm
          rcases List.mem_cons.mp hm with h1 | h1
          · cases h1; exact ⟨es, hes, hps⟩
          · exact h s' q' (List.mem_cons_of_mem _ (List.mem_cons_of_mem _ h1))
        have := ih hr
        simp only [denoteF, hes, heu] at this ⊢
        rw [this]
        cases denoteF pre t r with
        | none => rfl
        | some x =>
          obtain ⟨v, d⟩ := x
          simp only []
          congr 2
          · grind
          · rw [← Dim.mul_assoc', ← Dim.mul_assoc', Dim.mul_comm' (eu.dim.pow w)]

theorem allPos_insertF (pre : Prefixes K) (t : Lut K) (s : String) (q : Rat) (f : Factors)
    (h : AllPos P pre t ((s, q) :: f)) : AllPos P pre t (insertF s q f) := by
  induction f with
  | nil => exact h
  | cons p r ih =>
    obtain ⟨u, w⟩ := p
    simp only [insertF]
    split
    · rename_i hsu; subst hsu
      intro s' q' hm
      rcases List.mem_cons.mp hm with h1 | h1
      · cases h1; exact h _ w (List.mem_cons_of_mem _ (List.mem_cons_self ..))
      · exact h s' q' (List.mem_cons_of_mem _ (List.mem_cons_of_mem _ h1))
    · split
      · exact h
      · intro s' q' hm
        rcases List.mem_cons.mp hm with h1 | h1
        · cases h1; exact h u w (List.mem_cons_of_mem _ (List.mem_cons_self ..))
        · have hr : AllPos P pre t ((s, q) :: r) := by
            intro s'' q'' hm'
            rcases List.mem_cons.mp hm' with h2 | h2
            · cases h2; exact h s q (List.mem_cons_self ..)
            · exact h s'' q'' (List.mem_cons_of_mem _ (List.mem_cons_of_mem _ h2))
          exact ih hr s' q' h1

theorem denoteF_sortMerge (pre : Prefixes K) (t : Lut K) (f : Factors) (h : AllPos P pre t f) :
    denoteF pre t (sortMerge f) = denoteF pre t f ∧ AllPos P pre t (sortMerge f) := by
  induction f with
  | nil => exact ⟨rfl, h⟩
  | cons p r ih =>
    obtain ⟨s, q⟩ := p
    have hr : AllPos P pre t r := fun s' q' hm => h s' q' (List.mem_cons_of_mem _ hm)
    obtain ⟨ih1, ih2⟩ := ih hr
    have hsm : sortMerge ((s, q) :: r) = insertF s q (sortMerge r) := rfl
    have hall : AllPos P pre t ((s, q) :: sortMerge r) := by
      intro s' q' hm
      rcases List.mem_cons.mp hm with h1 | h1
      · cases h1; exact h s q (List.mem_cons_self ..)
      · exact ih2 s' q' h1
    rw [hsm]
    refine ⟨?_, allPos_insertF P laws pre t s q _ hall⟩
    rw [denoteF_insertF P laws pre t s q _ hall]
    obtain ⟨e, he, _⟩ := h s q (List.mem_cons_self ..)
    simp only [denoteF, he, ih1]

theorem denoteF_dropZeros (pre : Prefixes K) (t : Lut K) (f : Factors) (h : AllPos P pre t f) :
    denoteF pre t (dropZeros f) = denoteF pre t f := by
  induction f with
  | nil => rfl
  | cons p r ih =>
    obtain ⟨s, q⟩ := p
    have hr : AllPos P pre t r := fun s' q' hm => h s' q' (List.mem_cons_of_mem _ hm)
    have ih' := ih hr
    obtain ⟨e, he, hp⟩ := h s q (List.mem_cons_self ..)
    simp only [dropZeros, List.filter_cons] at ih' ⊢
    by_cases hq : q = 0
    · subst hq
      simp only [bne_self_eq_false, Bool.false_eq_true, if_false, ih', denoteF, he]
      cases denoteF pre t r with
      | none => rfl
      | some x =>
        obtain ⟨v, d⟩ := x
        simp only [pw_eq P laws hp, laws.rpow_zero hp, Dim.pow_zero, Dim.one_mul']
        congr 2; grind
    · have : ((s, q).2 != 0) = true := by simpa using hq
      simp only [this, if_true, denoteF, he, ih']

/-- normalisation (merge, sort, drop zeros) does not change what a factor list denotes -/
theorem denoteF_normF (pre : Prefixes K) (t : Lut K) (f : Factors) (h : AllPos P pre t f) :
    denoteF pre t (normF f) = denoteF pre t f := by
  obtain ⟨h1, h2⟩ := denoteF_sortMerge P laws pre t f h
  simp only [normF, denoteF_dropZeros P laws pre t _ h2, h1]

theorem denoteF_scaleF (pre : Prefixes K) (t : Lut K) (f : Factors) (p : Rat) (h : AllPos P pre t f) :
    denoteF pre t (scaleF f p) =
      match denoteF pre t f with
      | some (v, d) => some (RPow.rpow v p, d.pow p)
      | none => none := by
  induction f with
  | nil => simp only [scaleF, List.map_nil, denoteF, laws.one_rpow, Dim.one_pow]
  | cons x r ih =>
    obtain ⟨s, q⟩ := x
    have hr : AllPos P pre t r := fun s' q' hm => h s' q' (List.mem_cons_of_mem _ hm)
    obtain ⟨e, he, hp⟩ := h s q (List.mem_cons_self ..)
    obtain ⟨v, d, hv, hpv⟩ := denoteF_pos P laws pre t r hr
    have ih' := ih hr
    simp only [scaleF, List.map_cons] at ih' ⊢
    simp only [denoteF, he, ih', hv]
    simp only [pw_eq P laws hp, ← laws.rpow_mul q p hp,
      laws.mul_rpow p (laws.pos_rpow q hp) hpv, Dim.mul_pow, Dim.pow_pow]

end Unyt
