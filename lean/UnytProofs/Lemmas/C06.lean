/-
  Helper lemmas for C06 (no property statements here).
-/
import UnytModel.NpHandlers

namespace Unyt.Np

/-- a spec covers a call faithfully: every parameter passed is forwarded stripped -/
def AllSame {V : Type} (spec : List (String × Fwd)) (args : Args V) : Prop :=
  ∀ pv ∈ args, lookupFwd spec pv.1 = some Fwd.same

/-- every parameter passed is forwarded, stripped or raw -/
def AllSameOrRaw {V : Type} (spec : List (String × Fwd)) (args : Args V) : Prop :=
  ∀ pv ∈ args, lookupFwd spec pv.1 = some Fwd.same ∨ lookupFwd spec pv.1 = some Fwd.sameRaw

def NoInjected (spec : List (String × Fwd)) : Prop := ∀ pf ∈ spec, pf.2 ≠ Fwd.injected

theorem injected_nil (spec : List (String × Fwd)) {V : Type} (alt : String → PyVal V)
    (h : NoInjected spec) :
    (spec.filterMap fun (p, f) => if f == Fwd.injected then some (p, alt p) else none) = [] := by
  induction spec with
  | nil => rfl
  | cons x xs ih =>
    have hx : x.2 ≠ Fwd.injected := h x (List.mem_cons_self ..)
    have hxs : NoInjected xs := fun pf hpf => h pf (List.mem_cons_of_mem _ hpf)
    obtain ⟨p, f⟩ := x
    have hf : (f == Fwd.injected) = false := by
      cases f <;> simp_all
    simp only [List.filterMap_cons, hf]
    exact ih hxs

theorem forward_allSame {V : Type} (spec : List (String × Fwd)) (alt : String → PyVal V)
    (args : Args V) (h : AllSame spec args) (hi : NoInjected spec) :
    forward spec alt args = stripArgs args := by
  unfold forward
  rw [injected_nil spec alt hi, List.append_nil]
  induction args with
  | nil => rfl
  | cons x xs ih =>
    have hx := h x (List.mem_cons_self ..)
    have hxs : AllSame spec xs := fun pv hpv => h pv (List.mem_cons_of_mem _ hpv)
    obtain ⟨p, v⟩ := x
    simp only [stripArgs, List.map_cons] at *
    simp only [List.filterMap_cons, hx]
    rw [ih hxs]

/-- stripping is idempotent -/
theorem strip_strip {V : Type} : ∀ v : PyVal V, v.strip.strip = v.strip := by
  intro v
  induction v using PyVal.rec (motive_2 := fun xs => stripList (stripList xs) = stripList xs) with
  | bare v => rfl
  | qty v u => rfl
  | seq xs ih => simp only [PyVal.strip]; rw [ih]
  | nil => rfl
  | cons x xs ihx ihxs => simp only [stripList]; rw [ihx, ihxs]

theorem stripArgs_idem {V : Type} (a : Args V) : stripArgs (stripArgs a) = stripArgs a := by
  induction a with
  | nil => rfl
  | cons x xs ih =>
    obtain ⟨p, v⟩ := x
    simp only [stripArgs, List.map_cons, List.map_map] at *
    rw [strip_strip]
    congr 1

theorem strip_forward_raw {V : Type} (spec : List (String × Fwd)) (alt : String → PyVal V)
    (args : Args V) (h : AllSameOrRaw spec args) (hi : NoInjected spec) :
    stripArgs (forward spec alt args) = stripArgs args := by
  unfold forward
  rw [injected_nil spec alt hi, List.append_nil]
  induction args with
  | nil => rfl
  | cons x xs ih =>
    have hx := h x (List.mem_cons_self ..)
    have hxs : AllSameOrRaw spec xs := fun pv hpv => h pv (List.mem_cons_of_mem _ hpv)
    obtain ⟨p, v⟩ := x
    rcases hx with hx | hx
    · simp only [List.filterMap_cons, hx]
      simp only [stripArgs, List.map_cons] at *
      rw [ih hxs, strip_strip]
    · simp only [List.filterMap_cons, hx]
      simp only [stripArgs, List.map_cons] at *
      rw [ih hxs]

end Unyt.Np
