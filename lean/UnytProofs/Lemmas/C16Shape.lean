/-
  Helper lemmas about the shape algebra (`UnytModel/Shape.lean`) used by `UnytProofs/C16.lean`.
  No property statement lives here.
-/
import UnytModel.Shape

namespace Unyt.Shape

theorem size_append (a b : Shape) : size (a ++ b) = size a * size b := by
  induction a with
  | nil => simp [size]
  | cons d a ih => simp [size, ih, Nat.mul_assoc]

theorem size_reverse (s : Shape) : size s.reverse = size s := by
  induction s with
  | nil => rfl
  | cons d s ih => simp [size_append, size, ih, Nat.mul_comm]

theorem nat_mul_eq_one (a b : Nat) : a * b = 1 ↔ a = 1 ∧ b = 1 := by
  constructor
  · intro h
    have ha : a ∣ 1 := ⟨b, h.symm⟩
    have hb : b ∣ 1 := ⟨a, by rw [Nat.mul_comm]; exact h.symm⟩
    exact ⟨Nat.eq_one_of_dvd_one ha, Nat.eq_one_of_dvd_one hb⟩
  · rintro ⟨rfl, rfl⟩; rfl

theorem size_eq_one_iff (s : Shape) : size s = 1 ↔ ∀ d ∈ s, d = 1 := by
  induction s with
  | nil => simp [size]
  | cons d s ih =>
    simp only [size, List.mem_cons, forall_eq_or_imp]
    rw [← ih]
    exact nat_mul_eq_one _ _

theorem squeeze_eq_nil_iff (s : Shape) : squeeze s = [] ↔ ∀ d ∈ s, d = 1 := by
  simp [squeeze, List.filter_eq_nil_iff]

theorem size_squeeze (s : Shape) : size (squeeze s) = size s := by
  induction s with
  | nil => rfl
  | cons d s ih =>
    by_cases h : d = 1
    · simp [squeeze, h, size] at *; exact ih
    · simp [squeeze, h, size] at *; rw [ih]

theorem bcastRev_eq_nil (a b : List Nat) : bcastRev a b = some [] ↔ a = [] ∧ b = [] := by
  cases a with
  | nil => cases b <;> simp [bcastRev]
  | cons x a =>
    cases b with
    | nil => simp [bcastRev]
    | cons y b =>
      simp only [bcastRev]
      cases bcastRev a b with
      | none => simp
      | some r => simp only []; split <;> (try split) <;> (try split) <;> simp

theorem broadcast_eq_nil_iff (a b : Shape) : broadcast a b = some [] ↔ a = [] ∧ b = [] := by
  simp only [broadcast, Option.map_eq_some_iff, List.reverse_eq_nil_iff]
  constructor
  · rintro ⟨r, hr, rfl⟩
    have := (bcastRev_eq_nil a.reverse b.reverse).1 hr
    simpa using this
  · rintro ⟨rfl, rfl⟩
    exact ⟨[], by simp [bcastRev], rfl⟩

theorem reduceFrom_length_keep (i : Nat) (axs : List Nat) (s : Shape) :
    (reduceFrom i axs true s).length = s.length := by
  induction s generalizing i with
  | nil => rfl
  | cons d s ih => simp only [reduceFrom]; split <;> simp [ih]

theorem reduceFrom_eq_nil_iff (i : Nat) (axs : List Nat) (s : Shape) :
    reduceFrom i axs false s = [] ↔ ∀ j, j < s.length → i + j ∈ axs := by
  induction s generalizing i with
  | nil => simp [reduceFrom]
  | cons d s ih =>
    simp only [reduceFrom]
    by_cases h : i ∈ axs
    · simp only [h, if_true, Bool.false_eq_true, if_false, ih, List.length_cons]
      constructor
      · intro hh j hj
        cases j with
        | zero => simpa using h
        | succ j => have := hh j (by omega); simpa [Nat.add_assoc, Nat.add_comm 1 j] using this
      · intro hh j hj
        have := hh (j + 1) (by omega)
        simpa [Nat.add_assoc, Nat.add_comm 1 j] using this
    · simp only [h, if_false, List.length_cons]
      constructor
      · intro hh; exact absurd hh (by simp)
      · intro hh; exact absurd (by simpa using hh 0 (by omega)) h

theorem size_map_one (s : Shape) : size (s.map (fun _ => 1)) = 1 := by
  induction s with
  | nil => rfl
  | cons d s ih => simp [size, ih]


/-! ### reshape preserves the number of elements -/

theorem reshapeKnown_zero (t : List Int) (p : Nat) (h : reshapeKnown t = (p, 0)) :
    (∀ d ∈ t, ¬ d < 0) ∧ size (t.map Int.toNat) = p := by
  induction t generalizing p with
  | nil => simp [reshapeKnown] at h; subst h; simp [size]
  | cons d t ih =>
    simp only [reshapeKnown] at h
    rcases hk : reshapeKnown t with ⟨p', k'⟩
    rw [hk] at h
    by_cases hd : d < 0
    · simp [hd] at h
    · simp only [hd, if_false, Prod.mk.injEq] at h
      obtain ⟨hp, hk0⟩ := h
      subst hk0
      have := ih p' hk
      refine ⟨?_, ?_⟩
      · intro e he
        rcases List.mem_cons.1 he with rfl | he
        · exact hd
        · exact this.1 e he
      · simp [size, this.2, hp]

theorem map_fill_eq_of_nonneg (t : List Int) (q : Nat) (h : ∀ d ∈ t, ¬ d < 0) :
    t.map (fun d => if d < 0 then q else d.toNat) = t.map Int.toNat := by
  apply List.map_congr_left
  intro d hd
  simp [h d hd]

theorem reshapeKnown_one (t : List Int) (p q : Nat) (h : reshapeKnown t = (p, 1)) :
    size (t.map (fun d => if d < 0 then q else d.toNat)) = q * p := by
  induction t generalizing p with
  | nil => simp [reshapeKnown] at h
  | cons d t ih =>
    simp only [reshapeKnown] at h
    rcases hk : reshapeKnown t with ⟨p', k'⟩
    rw [hk] at h
    by_cases hd : d < 0
    · simp only [hd, if_true, Prod.mk.injEq] at h
      obtain ⟨hp, hk1⟩ := h
      have hk0 : k' = 0 := by omega
      subst hk0; subst hp
      have := reshapeKnown_zero t p' hk
      simp only [List.map_cons, hd, if_true, size]
      rw [map_fill_eq_of_nonneg t q this.1, this.2]
    · simp only [hd, if_false, Prod.mk.injEq] at h
      obtain ⟨hp, hk1⟩ := h
      subst hk1; subst hp
      simp only [List.map_cons, hd, if_false, size, ih p' hk]
      rw [Nat.mul_left_comm]

theorem size_reshape (s : Shape) (t : List Int) (r : Shape) (h : reshape s t = .ok r) :
    size r = size s := by
  unfold reshape at h
  split at h
  · cases h
  · rcases hk : reshapeKnown t with ⟨p, k⟩
    rw [hk] at h
    simp only at h
    by_cases k0 : k = 0
    · subst k0
      simp only [if_true] at h
      split at h
      · rename_i hp
        cases h
        rw [(reshapeKnown_zero t p hk).2, hp]
      · cases h
    · simp only [k0, if_false] at h
      by_cases k1 : k = 1
      · subst k1
        simp only [if_true] at h
        split at h
        · cases h
        · split at h
          · rename_i hmod
            cases h
            rw [reshapeKnown_one t p _ hk]
            exact Nat.div_mul_cancel (Nat.dvd_of_mod_eq_zero hmod)
          · cases h
      · simp [k1] at h

theorem length_reshape (s : Shape) (t : List Int) (r : Shape) (h : reshape s t = .ok r) :
    r.length = t.length := by
  unfold reshape at h
  split at h
  · cases h
  · rcases hk : reshapeKnown t with ⟨p, k⟩
    rw [hk] at h
    simp only at h
    repeat' split at h
    all_goals first | (cases h; done) | (cases h; exact List.length_map _)

/-- indexing with one in-range integer removes the first dimension -/
theorem index_single_int (d : Nat) (s : Shape) (i : Int) (h : intInRange d i = true) :
    index (d :: s) [.int i] = .ok s := by
  simp [index, consumedTotal, Ix.consumed, Ix.isEllipsis, Ix.isAdvanced, walk, h,
        IxAcc.pushBasic, IxAcc.result]

theorem intInRange_ofNat (d i : Nat) (h : i < d) : intInRange d (Int.ofNat i) = true := by
  simp [intInRange]; omega

end Unyt.Shape
