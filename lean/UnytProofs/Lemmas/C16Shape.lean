/-
  Helper lemmas about the shape algebra (`UnytModel/Shape.lean`) used by `UnytProofs/C16.lean`.
  No property statement lives here.
-/
import UnytModel.Shape

namespace Unyt.Shape

theorem size_append (a b : Shape) : size (a ++ b) = size a * size b := by
  induction a with
  | nil => simp [size]
  | cons d a ih => simp [size, ih, Nat.mul_assoc]

theorem size_reverse (s : Shape) : size s.reverse = size s := by
  induction s with
  | nil => rfl
  | cons d s ih => simp [size_append, size, ih, Nat.mul_comm]

theorem nat_mul_eq_one (a b : Nat) : a * b = 1 ↔ a = 1 ∧ b = 1 := by
  constructor
  · intro h
    have ha : a ∣ 1 := ⟨b, h.symm⟩
    have hb : b ∣ 1 := ⟨a, by rw [Nat.mul_comm]; exact h.symm⟩
    exact ⟨Nat.eq_one_of_dvd_one ha, Nat.eq_one_of_dvd_one hb⟩
  · rintro ⟨rfl, rfl⟩; rfl

theorem size_eq_one_iff (s : Shape) : size s = 1 ↔ ∀ d ∈ s, d = 1 := by
  induction s with
  | nil => simp [size]
  | cons d s ih =>
    simp only [size, List.mem_cons, forall_eq_or_imp]
    rw [← ih]
    exact nat_mul_eq_one _ _

theorem squeeze_eq_nil_iff (s : Shape) : squeeze s = [] ↔ ∀ d ∈ s, d = 1 := by
  simp [squeeze, List.filter_eq_nil_iff]

theorem size_squeeze (s : Shape) : size (squeeze s) = size s := by
  induction s with
  | nil => rfl
  | cons d s ih =>
    by_cases h : d = 1
    · simp [squeeze, h, size] at *; exact ih
    · simp [squeeze, h, size] at *; rw [ih]

theorem bcastRev_eq_nil (a b : List Nat) : bcastRev a b = some [] ↔ a = [] ∧ b = [] := by
  cases a with
  | nil => cases b <;> simp [bcastRev]
  | cons x a =>
    cases b with
    | nil => simp [bcastRev]
    | cons y b =>
      simp only [bcastRev]
      cases bcastRev a b with
      | none => simp
      | some r => simp only []; split <;> (try split) <;> (try split) <;> simp

theorem broadcast_eq_nil_iff (a b : Shape) : broadcast a b = some [] ↔ a = [] ∧ b = [] := by
  simp only [broadcast, Option.map_eq_some_iff, List.reverse_eq_nil_iff]
  constructor
  · rintro ⟨r, hr, rfl⟩
    have := (bcastRev_eq_nil a.reverse b.reverse).1 hr
    simpa using this
  · rintro ⟨rfl, rfl⟩
    exact ⟨[], by simp [bcastRev], rfl⟩

theorem reduceFrom_length_keep (i : Nat) (axs : List Nat) (s : Shape) :
    (reduceFrom i axs true s).length = s.length := by
  induction s generalizing i with
  | nil => rfl
  | cons d s ih => simp only [reduceFrom]; split <;> simp [ih]

theorem reduceFrom_eq_nil_iff (i : Nat) (axs : List Nat) (s : Shape) :
    reduceFrom i axs false s = [] ↔ ∀ j, j < s.length → i + j ∈ axs := by
  induction s generalizing i with
  | nil => simp [reduceFrom]
  | cons d s ih =>
    simp only [reduceFrom]
    by_cases h : i ∈ axs
    · simp only [h, if_true, Bool.false_eq_true, if_false, ih, List.length_cons]
      constructor
      · intro hh j hj
        cases j with
        | zero => simpa using h
        | succ j => have := hh j (by omega); simpa [Nat.add_assoc, Nat.add_comm 1 j] using this
      · intro hh j hj
        have := hh (j + 1) (by omega)
        simpa [Nat.add_assoc, Nat.add_comm 1 j] using this
    · simp only [h, if_false, List.length_cons]
      constructor
      · intro hh; exact absurd hh (by simp)
      · intro hh; exact absurd (by simpa using hh 0 (by omega)) h

theorem size_map_one (s : Shape) : size (s.map (fun _ => 1)) = 1 := by
  induction s with
  | nil => rfl
  | cons d s ih => simp [size, ih]


/-! ### reshape preserves the number of elements -/

theorem reshapeKnown_zero (t : List Int) (p : Nat) (h : reshapeKnown t = (p, 0)) :
    (∀ d ∈ t, ¬ d < 0) ∧ size (t.map Int.toNat) = p := by
  induction t generalizing p with
  | nil => simp [reshapeKnown] at h; subst h; simp [size]
  | cons d t ih =>
    simp only [reshapeKnown] at h
    rcases hk : reshapeKnown t with ⟨p', k'⟩
    rw [hk] at h
    by_cases hd : d < 0
    · simp [hd] at h
    · simp only [hd, if_false, Prod.mk.injEq] at h
      obtain ⟨hp, hk0⟩ := h
      subst hk0
      have := ih p' hk
      refine ⟨?_, ?_⟩
      · intro e he
        rcases List.mem_cons.1 he with rfl | he
        · exact hd
        · exact this.1 e he
      · simp [size, this.2, hp]

theorem map_fill_eq_of_nonneg (t : List Int) (q : Nat) (h : ∀ d ∈ t, ¬ d < 0) :
    t.map (fun d => if d < 0 then q else d.toNat) = t.map Int.toNat := by
  apply List.map_congr_left
  intro d hd
  simp [h d hd]

theorem reshapeKnown_one (t : List Int) (p q : Nat) (h : reshapeKnown t = (p, 1)) :
    size (t.map (fun d => if d < 0 then q else d.toNat)) = q * p := by
  induction t generalizing p with
  | nil => simp [reshapeKnown] at h
  | cons d t ih =>
    simp only [reshapeKnown] at h
    rcases hk : reshapeKnown t with ⟨p', k'⟩
    rw [hk] at h
    by_cases hd : d < 0
    · simp only [hd, if_true, Prod.mk.injEq] at h
      obtain ⟨hp, hk1⟩ := h
      have hk0 : k' = 0 := by omega
      subst hk0; subst hp
      have := reshapeKnown_zero t p' hk
      simp only [List.map_cons, hd, if_true, size]
      rw [map_fill_eq_of_nonneg t q this.1, this.2]
    · simp only [hd, if_false, Prod.mk.injEq] at h
      obtain ⟨hp, hk1⟩ := h
      subst hk1; subst hp
      simp only [List.map_cons, hd, if_false, size, ih p' hk]
      rw [Nat.mul_left_comm]

theorem size_reshape (s : Shape) (t : List Int) (r : Shape) (h : reshape s t = .ok r) :
    size r = size s := by
  unfold reshape at h
  split at h
  · cases h
  · rcases hk : reshapeKnown t with ⟨p, k⟩
    rw [hk] at h
    simp only at h
    by_cases k0 : k = 0
    · subst k0
      simp only [if_true] at h
      split at h
      · rename_i hp
        cases h
        rw [(reshapeKnown_zero t p hk).2, hp]
      · cases h
    · simp only [k0, if_false] at h
      by_cases k1 : k = 1
      · subst k1
        simp only [if_true] at h
        split at h
        · cases h
        · split at h
          · rename_i hmod
            cases h
            rw [reshapeKnown_one t p _ hk]
            exact Nat.div_mul_cancel (Nat.dvd_of_mod_eq_zero hmod)
          · cases h
      · simp [k1] at h

theorem length_reshape (s : Shape) (t : List Int) (r : Shape) (h : reshape s t = .ok r) :
    r.length = t.length := by
  unfold reshape at h
  split at h
  · cases h
  · rcases hk : reshapeKnown t with ⟨p, k⟩
    rw [hk] at h
    simp only at h
    repeat' split at h
    all_goals first | (cases h; done) | (cases h; exact List.length_map _)

/-- indexing with one in-range integer removes the first dimension -/
theorem index_single_int (d : Nat) (s : Shape) (i : Int) (h : intInRange d i = true) :
    index (d :: s) [.int i] = .ok s := by
  simp [index, consumedTotal, Ix.consumed, Ix.isEllipsis, Ix.isAdvanced, walk, h,
        IxAcc.pushBasic, IxAcc.result]

theorem intInRange_ofNat (d i : Nat) (h : i < d) : intInRange d (Int.ofNat i) = true := by
  simp [intInRange]; omega

/-! ### full integer indexing -/

/-- every integer is a valid index for the corresponding leading dimension -/
def intsInRange : List Int → Shape → Bool
  | [], _ => true
  | i :: is, d :: s => intInRange d i && intsInRange is s
  | _ :: _, [] => false

theorem intsInRange_length (is : List Int) (s : Shape) (h : intsInRange is s = true) :
    is.length ≤ s.length := by
  induction is generalizing s with
  | nil => simp
  | cons i is ih =>
    cases s with
    | nil => simp [intsInRange] at h
    | cons d s => simp [intsInRange] at h; simp; exact ih s h.2

theorem walk_ints (is : List Int) (s : Shape) (acc : IxAcc) (h : intsInRange is s = true) :
    walk false 0 (is.map Ix.int) s acc = .ok (acc.pushBasic (s.drop is.length)) := by
  induction is generalizing s with
  | nil => simp [walk]
  | cons i is ih =>
    cases s with
    | nil => simp [intsInRange] at h
    | cons d s =>
      simp [intsInRange] at h
      simp [walk, h.1, ih s h.2]

theorem ints_no_ellipsis (is : List Int) : ((is.map Ix.int).filter Ix.isEllipsis).length = 0 := by
  induction is with
  | nil => rfl
  | cons i is ih => simpa [Ix.isEllipsis] using ih

theorem ints_not_advanced (is : List Int) : (is.map Ix.int).any Ix.isAdvanced = false := by
  induction is with
  | nil => rfl
  | cons i is ih => simpa [Ix.isAdvanced] using ih

theorem ints_consumed (is : List Int) : consumedTotal (is.map Ix.int) = is.length := by
  induction is with
  | nil => rfl
  | cons i is ih => simp [consumedTotal, Ix.consumed] at *; omega

/-- `a[i₁, …, i_k]` with in-range integers drops the first `k` dimensions -/
theorem index_ints (is : List Int) (s : Shape) (h : intsInRange is s = true) :
    index s (is.map Ix.int) = .ok (s.drop is.length) := by
  have hl := intsInRange_length is s h
  simp only [index, ints_no_ellipsis, ints_consumed, ints_not_advanced]
  have : ¬ is.length > s.length := by omega
  simp [this, walk_ints is s {} h, IxAcc.pushBasic, IxAcc.result]

/-! ### a lower bound on the rank of an indexing result -/

/-- the least number of dimensions an index item contributes to the result -/
def Ix.minRank : Ix → Nat
  | .newaxis => 1
  | .slice .. => 1
  | .mask .. => 1
  | .fancy sh _ _ => sh.length
  | _ => 0

def IxAcc.rank (a : IxAcc) : Nat := a.pre.length + a.post.length + (a.adv.getD []).length

theorem IxAcc.result_length (a : IxAcc) : a.result.length = a.rank := by
  unfold IxAcc.result IxAcc.rank
  cases a.adv with
  | none => simp
  | some b => simp only [Option.getD]; split <;> simp <;> omega

theorem IxAcc.pushBasic_rank (a : IxAcc) (dims : List Nat) :
    (a.pushBasic dims).rank = a.rank + dims.length := by
  unfold IxAcc.pushBasic IxAcc.rank
  split
  · simp; omega
  · split <;> (simp; omega)

theorem bcastRev_length (a b r : List Nat) (h : bcastRev a b = some r) :
    a.length ≤ r.length ∧ b.length ≤ r.length := by
  induction a generalizing b r with
  | nil => cases b <;> simp [bcastRev] at h <;> subst h <;> simp
  | cons x a ih =>
    cases b with
    | nil => simp [bcastRev] at h; subst h; simp
    | cons y b =>
      simp only [bcastRev] at h
      cases hr : bcastRev a b with
      | none => simp [hr] at h
      | some r' =>
        have := ih b r' hr
        simp only [hr] at h
        repeat' split at h
        all_goals first | (cases h; simp; omega) | cases h

theorem broadcast_length (a b r : Shape) (h : broadcast a b = some r) :
    a.length ≤ r.length ∧ b.length ≤ r.length := by
  simp only [broadcast, Option.map_eq_some_iff] at h
  obtain ⟨r', hr, rfl⟩ := h
  have := bcastRev_length _ _ _ hr
  simpa using this

theorem IxAcc.pushAdv_rank (a a' : IxAcc) (sh : Shape) (h : a.pushAdv sh = .ok a') :
    a.rank ≤ a'.rank ∧ sh.length ≤ a'.rank := by
  unfold IxAcc.pushAdv at h
  cases ha : a.adv with
  | none =>
    simp only [ha] at h; cases h
    simp [IxAcc.rank, ha]
  | some b =>
    simp only [ha] at h
    cases hb : broadcast b sh with
    | none => simp [hb] at h
    | some r =>
      simp only [hb] at h; cases h
      have := broadcast_length b sh r hb
      simp [IxAcc.rank, ha]; omega

/-- the walk never lowers the rank, and every item forces at least its `minRank` -/
theorem walk_rank (hasAdv : Bool) (ell : Nat) (ixs : List Ix) (rest : Shape) (acc acc' : IxAcc)
    (h : walk hasAdv ell ixs rest acc = .ok acc') :
    acc.rank ≤ acc'.rank ∧ ∀ ix ∈ ixs, ix.minRank ≤ acc'.rank := by
  induction ixs generalizing rest acc with
  | nil =>
    simp only [walk] at h; cases h
    exact ⟨by rw [IxAcc.pushBasic_rank]; omega, by simp⟩
  | cons ix ixs ih =>
    cases ix with
    | newaxis =>
      simp only [walk] at h
      have := ih _ _ h
      rw [IxAcc.pushBasic_rank] at this
      refine ⟨by simp at this; omega, ?_⟩
      intro j hj
      rcases List.mem_cons.1 hj with rfl | hj
      · simp [Ix.minRank] at *; omega
      · exact this.2 j hj
    | ellipsis =>
      simp only [walk] at h
      have := ih _ _ h
      rw [IxAcc.pushBasic_rank] at this
      refine ⟨by omega, ?_⟩
      intro j hj
      rcases List.mem_cons.1 hj with rfl | hj
      · simp [Ix.minRank]
      · exact this.2 j hj
    | mask ms nt =>
      simp only [walk] at h
      split at h
      · cases hp : acc.pushAdv [0] with
        | error e => simp [hp] at h
        | ok a1 =>
          simp only [hp] at h
          have h1 := IxAcc.pushAdv_rank _ _ _ hp
          have := ih _ _ h
          refine ⟨by omega, ?_⟩
          intro j hj
          rcases List.mem_cons.1 hj with rfl | hj
          · simp [Ix.minRank] at *; omega
          · exact this.2 j hj
      · split at h
        · cases hp : acc.pushAdv [nt] with
          | error e => simp [hp] at h
          | ok a1 =>
            simp only [hp] at h
            have h1 := IxAcc.pushAdv_rank _ _ _ hp
            have := ih _ _ h
            refine ⟨by omega, ?_⟩
            intro j hj
            rcases List.mem_cons.1 hj with rfl | hj
            · simp [Ix.minRank] at *; omega
            · exact this.2 j hj
        · cases h
    | int i =>
      cases rest with
      | nil => simp [walk] at h
      | cons d rest =>
        simp only [walk] at h
        split at h
        · split at h
          · cases hp : acc.pushAdv [] with
            | error e => simp [hp] at h
            | ok a1 =>
              simp only [hp] at h
              have h1 := IxAcc.pushAdv_rank _ _ _ hp
              have := ih _ _ h
              refine ⟨by omega, ?_⟩
              intro j hj
              rcases List.mem_cons.1 hj with rfl | hj
              · simp [Ix.minRank]
              · exact this.2 j hj
          · have := ih _ _ h
            refine ⟨this.1, ?_⟩
            intro j hj
            rcases List.mem_cons.1 hj with rfl | hj
            · simp [Ix.minRank]
            · exact this.2 j hj
        · cases h
    | slice a b st =>
      cases rest with
      | nil => simp [walk] at h
      | cons d rest =>
        simp only [walk] at h
        split at h
        · cases h
        · have := ih _ _ h
          rw [IxAcc.pushBasic_rank] at this
          refine ⟨by simp at this; omega, ?_⟩
          intro j hj
          rcases List.mem_cons.1 hj with rfl | hj
          · simp [Ix.minRank] at *; omega
          · exact this.2 j hj
    | fancy sh lo hi =>
      cases rest with
      | nil => simp [walk] at h
      | cons d rest =>
        simp only [walk] at h
        split at h
        · cases h
        · cases hp : acc.pushAdv sh with
          | error e => simp [hp] at h
          | ok a1 =>
            simp only [hp] at h
            have h1 := IxAcc.pushAdv_rank _ _ _ hp
            have := ih _ _ h
            have hr : ({ a1 with oob := a1.oob || !(decide (size sh = 0) || (intInRange d lo && intInRange d hi)) } : IxAcc).rank = a1.rank := rfl
            rw [hr] at this
            refine ⟨by omega, ?_⟩
            intro j hj
            rcases List.mem_cons.1 hj with rfl | hj
            · simp [Ix.minRank] at *; omega
            · exact this.2 j hj

/-- a 0-d indexing result needs every item to be an integer, an Ellipsis or a 0-d integer array:
    no slice, no newaxis, no boolean mask, no integer array with dimensions -/
theorem index_scalar_items (s : Shape) (ixs : List Ix) (h : index s ixs = .ok []) :
    ∀ ix ∈ ixs, ix.minRank = 0 := by
  unfold index at h
  simp only at h
  split at h
  · cases h
  · split at h
    · cases h
    · split at h
      · cases h
      · rename_i acc hw
        split at h
        · cases h
        · have hres : acc.result = [] := by injection h
          have hr := walk_rank _ _ _ _ _ _ hw
          have hl := IxAcc.result_length acc
          intro ix hix
          have := hr.2 ix hix
          have h0 : acc.result.length = 0 := by simp [hres]
          omega

/-! ### indexing a 0-d array: every result dimension is 0 or 1 -/

def Small (l : List Nat) : Prop := ∀ d ∈ l, d ≤ 1

theorem Small.append {a b : List Nat} (ha : Small a) (hb : Small b) : Small (a ++ b) := by
  intro d hd
  rcases List.mem_append.1 hd with h | h
  · exact ha d h
  · exact hb d h

theorem size_le_one_of_small (l : List Nat) (h : Small l) : size l ≤ 1 := by
  induction l with
  | nil => simp [size]
  | cons d l ih =>
    have hd : d ≤ 1 := h d (by simp)
    have hl := ih (fun e he => h e (by simp [he]))
    simp only [size]
    calc d * size l ≤ 1 * 1 := Nat.mul_le_mul hd hl
      _ = 1 := rfl

theorem bcastRev_small (a b r : List Nat) (ha : Small a) (hb : Small b) (h : bcastRev a b = some r) :
    Small r := by
  induction a generalizing b r with
  | nil => cases b <;> simp [bcastRev] at h <;> subst h <;> assumption
  | cons x a ih =>
    cases b with
    | nil => simp [bcastRev] at h; subst h; exact ha
    | cons y b =>
      simp only [bcastRev] at h
      cases hr : bcastRev a b with
      | none => simp [hr] at h
      | some r' =>
        have hs := ih b r' (fun e he => ha e (by simp [he])) (fun e he => hb e (by simp [he])) hr
        have hx : x ≤ 1 := ha x (by simp)
        have hy : y ≤ 1 := hb y (by simp)
        simp only [hr] at h
        repeat' split at h
        all_goals first
          | (cases h; intro e he; rcases List.mem_cons.1 he with rfl | he
             · assumption
             · exact hs e he)
          | cases h

theorem broadcast_small (a b r : Shape) (ha : Small a) (hb : Small b) (h : broadcast a b = some r) :
    Small r := by
  simp only [broadcast, Option.map_eq_some_iff] at h
  obtain ⟨r', hr, rfl⟩ := h
  have := bcastRev_small a.reverse b.reverse r' (fun e he => ha e (by simpa using he))
    (fun e he => hb e (by simpa using he)) hr
  intro e he; exact this e (by simpa using he)

/-- invariant of the walk over a 0-d array -/
def IxAcc.SmallAcc (a : IxAcc) : Prop := Small a.pre ∧ Small a.post ∧ Small (a.adv.getD [])

theorem IxAcc.pushBasic_small (a : IxAcc) (dims : List Nat) (ha : a.SmallAcc) (hd : Small dims) :
    (a.pushBasic dims).SmallAcc := by
  unfold IxAcc.pushBasic
  obtain ⟨h1, h2, h3⟩ := ha
  split
  · exact ⟨h1.append hd, h2, h3⟩
  · split
    · exact ⟨h1, h2.append hd, h3⟩
    · exact ⟨h1, h2.append hd, h3⟩

theorem IxAcc.pushAdv_small (a a' : IxAcc) (sh : Shape) (ha : a.SmallAcc) (hs : Small sh)
    (h : a.pushAdv sh = .ok a') : a'.SmallAcc := by
  unfold IxAcc.pushAdv at h
  obtain ⟨h1, h2, h3⟩ := ha
  cases hadv : a.adv with
  | none => simp only [hadv] at h; cases h; exact ⟨h1, h2, hs⟩
  | some b =>
    simp only [hadv] at h
    cases hb : broadcast b sh with
    | none => simp [hb] at h
    | some r =>
      simp only [hb] at h; cases h
      have hbs : Small b := by simpa [hadv] using h3
      exact ⟨h1, h2, broadcast_small b sh r hbs hs hb⟩

theorem IxAcc.result_small (a : IxAcc) (ha : a.SmallAcc) : Small a.result := by
  obtain ⟨h1, h2, h3⟩ := ha
  unfold IxAcc.result
  cases hadv : a.adv with
  | none => exact h1.append h2
  | some b =>
    have hb : Small b := by simpa [hadv] using h3
    simp only
    split
    · exact hb.append (h1.append h2)
    · exact h1.append (hb.append h2)

/-- a boolean scalar index selects at most one element -/
def Ix.validScalarMask : Ix → Prop
  | .mask [] nt => nt ≤ 1
  | _ => True

theorem walk_scalar_small (hasAdv : Bool) (ell : Nat) (ixs : List Ix) (acc acc' : IxAcc)
    (hv : ∀ ix ∈ ixs, ix.validScalarMask) (ha : acc.SmallAcc)
    (h : walk hasAdv ell ixs [] acc = .ok acc') : acc'.SmallAcc := by
  induction ixs generalizing acc with
  | nil =>
    simp only [walk] at h; cases h
    exact IxAcc.pushBasic_small acc [] ha (by intro d hd; cases hd)
  | cons ix ixs ih =>
    have hv' : ∀ j ∈ ixs, j.validScalarMask := fun j hj => hv j (by simp [hj])
    cases ix with
    | newaxis =>
      simp only [walk] at h
      exact ih _ hv' (IxAcc.pushBasic_small acc [1] ha (by intro d hd; simp at hd; omega)) h
    | ellipsis =>
      simp only [walk, List.take_nil, List.drop_nil] at h
      exact ih _ hv' (IxAcc.pushBasic_small acc [] ha (by intro d hd; cases hd)) h
    | mask ms nt =>
      simp only [walk] at h
      split at h
      · rename_i hc; exact absurd rfl hc.2
      · split at h
        · rename_i hc
          have hms : ms = [] := List.length_eq_zero_iff.1 (by simpa using hc.1)
          subst hms
          have hnt : nt ≤ 1 := hv (.mask [] nt) (by simp)
          cases hp : acc.pushAdv [nt] with
          | error e => simp [hp] at h
          | ok a1 =>
            simp only [hp, List.drop_nil] at h
            exact ih _ hv' (IxAcc.pushAdv_small acc a1 [nt] ha (by intro d hd; simp at hd; omega) hp) h
        · cases h
    | int i => simp [walk] at h
    | slice a b st => simp [walk] at h
    | fancy sh lo hi => simp [walk] at h

/-- every index of a 0-d array (newaxis, Ellipsis, boolean scalars, the empty tuple) selects at
    most one element -/
theorem index_scalar_parent_size (ixs : List Ix) (r : Shape)
    (hv : ∀ ix ∈ ixs, ix.validScalarMask) (h : index [] ixs = .ok r) : size r ≤ 1 := by
  unfold index at h
  simp only at h
  split at h
  · cases h
  · split at h
    · cases h
    · split at h
      · cases h
      · rename_i acc hw
        split at h
        · cases h
        · have hres : acc.result = r := by injection h
          have h0 : IxAcc.SmallAcc {} := by
            refine ⟨?_, ?_, ?_⟩ <;> (intro d hd; simp at hd)
          have := walk_scalar_small _ _ ixs {} acc hv h0 hw
          rw [← hres]
          exact size_le_one_of_small _ (IxAcc.result_small acc this)

end Unyt.Shape
