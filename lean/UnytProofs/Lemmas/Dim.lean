/-
  Helper lemmas: dimensions form an abelian group under `*` with rational powers.
-/
import UnytModel.Dim

namespace Unyt.Dim

theorem mul_def (a b : Dim) : a * b = Dim.mul a b := rfl
theorem div_def (a b : Dim) : a / b = Dim.mul a (Dim.inv b) := rfl
theorem one_def : (1 : Dim) = Dim.one := rfl

theorem mul_comm' (a b : Dim) : a * b = b * a := by
  cases a; cases b; simp only [mul_def, Dim.mul, Dim.mk.injEq]; grind

theorem mul_assoc' (a b c : Dim) : a * b * c = a * (b * c) := by
  cases a; cases b; cases c; simp only [mul_def, Dim.mul, Dim.mk.injEq]; grind

theorem one_mul' (a : Dim) : Dim.one * a = a := by
  cases a; simp only [mul_def, Dim.mul, Dim.one, Dim.mk.injEq]; grind

theorem mul_one' (a : Dim) : a * Dim.one = a := by
  cases a; simp only [mul_def, Dim.mul, Dim.one, Dim.mk.injEq]; grind

theorem mul_inv' (a : Dim) : a * Dim.inv a = Dim.one := by
  cases a; simp only [mul_def, Dim.mul, Dim.inv, Dim.one, Dim.mk.injEq]; grind

theorem pow_neg_one (a : Dim) : a.pow (-1) = Dim.inv a := by
  cases a; simp only [Dim.pow, Dim.inv, Dim.mk.injEq]; grind

theorem pow_one (a : Dim) : a.pow 1 = a := by
  cases a; simp only [Dim.pow, Dim.mk.injEq]; grind

theorem pow_zero (a : Dim) : a.pow 0 = Dim.one := by
  cases a; simp only [Dim.pow, Dim.one, Dim.mk.injEq]; grind

theorem pow_pow (a : Dim) (p q : Rat) : (a.pow p).pow q = a.pow (p * q) := by
  cases a; simp only [Dim.pow, Dim.mk.injEq]; grind

theorem mul_pow (a b : Dim) (p : Rat) : (a * b).pow p = a.pow p * b.pow p := by
  cases a; cases b; simp only [mul_def, Dim.mul, Dim.pow, Dim.mk.injEq]; grind

theorem pow_add (a : Dim) (p q : Rat) : a.pow (p + q) = a.pow p * a.pow q := by
  cases a; simp only [mul_def, Dim.mul, Dim.pow, Dim.mk.injEq]; grind

theorem one_pow (p : Rat) : Dim.one.pow p = Dim.one := by
  simp only [Dim.pow, Dim.one, Dim.mk.injEq]; grind

end Unyt.Dim
