/-
  Helper lemmas about the class decisions (`UnytModel/ResultClass.lean`) used by
  `UnytProofs/C16.lean`.  No property statement lives here.
-/
import UnytModel.ResultClass
import UnytProofs.Lemmas.C16Shape

set_option linter.unusedSectionVars false
set_option linter.unusedVariables false
set_option linter.unusedSimpArgs false

namespace Unyt.C16
open Unyt Shape

theorem uarray_not_quantity : PyCls.uarray.isQuantity = false := by decide
theorem uarray_is_unyt : PyCls.uarray.isUnyt = true := by decide
theorem uquantity_is_quantity : PyCls.uquantity.isQuantity = true := by decide
theorem uquantity_is_unyt : PyCls.uquantity.isUnyt = true := by decide
theorem ndarray_not_unyt : PyCls.ndarray.isUnyt = false := by decide

theorem construct_uarray (sh : Shape) : construct .uarray sh = .ok ⟨.uarray, sh⟩ := by
  simp [construct, uarray_not_quantity, uarray_is_unyt]

theorem construct_uquantity_nil : construct .uquantity [] = .ok ⟨.uquantity, []⟩ := by
  simp [construct, uquantity_is_quantity, size]

/-- what a successful `cls(value, unit)` is: that class, that shape, a unyt class, and at most
    one element for the quantity classes -/
theorem construct_ok (cls : PyCls) (sh : Shape) (r : Res) (h : construct cls sh = .ok r) :
    r = ⟨cls, sh⟩ ∧ cls.isUnyt = true ∧ (cls.isQuantity = true → size sh ≤ 1) := by
  unfold construct at h
  by_cases hq : cls.isQuantity = true
  · simp only [hq, if_true] at h
    by_cases hsz : size sh > 1
    · simp [hsz] at h
    · simp only [hsz, if_false] at h
      cases h
      refine ⟨rfl, ?_, fun _ => by omega⟩
      revert hq; cases cls <;> decide
  · simp only [hq, if_false] at h
    by_cases hu : cls.isUnyt = true
    · simp only [hu, if_true] at h; cases h; exact ⟨rfl, hu, fun h' => absurd h' hq⟩
    · simp [hu] at h

theorem viewOp_nonreshape (cls : PyCls) (s : Shape) (op : ViewOp) (hnr : ∀ t l, op ≠ .reshape t l)
    (hne : ∀ k, op ≠ .expandDims k) (hsq : op ≠ .squeeze) (hsa : ∀ ax, op ≠ .squeezeAxis ax) :
    viewOp cls s op = match viewShape s op with | .error e => .error e | .ok s' => .ok ⟨cls, s'⟩ := by
  cases op <;> first | rfl | exact absurd rfl (hnr _ _) | exact absurd rfl (hne _) | exact absurd rfl hsq | exact absurd rfl (hsa _)

/-- `unyt_array.squeeze`: NumPy's shape; a 0-d result of a non-quantity unyt class is re-viewed
    as `unyt_quantity`, everything else keeps its class -/
theorem viewOp_squeezes (cls : PyCls) (s : Shape) (op : ViewOp) (r : Res)
    (hop : op = .squeeze ∨ ∃ ax, op = .squeezeAxis ax) (h : viewOp cls s op = .ok r) :
    ∃ s', viewShape s op = .ok s' ∧ r.shape = s' ∧
      r.cls = (if s' = [] ∧ cls.isUnyt = true ∧ cls.isQuantity = false then .uquantity else cls) := by
  rcases hop with rfl | ⟨ax, rfl⟩
  · simp only [viewOp] at h; cases h
    exact ⟨squeeze s, rfl, rfl, rfl⟩
  · simp only [viewOp] at h
    cases hv : squeezeAxis s ax with
    | error e => simp [hv] at h
    | ok s' => simp only [hv] at h; cases h; exact ⟨s', by simp [viewShape, hv], rfl, rfl⟩

/-- `np.expand_dims` always adds a dimension -/
theorem viewOp_expandDims (cls : PyCls) (s : Shape) (k : Nat) (r : Res)
    (h : viewOp cls s (.expandDims k) = .ok r) :
    r.shape ≠ [] ∧ r.cls = (if cls.isQuantity then .uarray else cls) := by
  simp only [viewOp, expandDims] at h
  split at h
  · cases h
  · rename_i s' hs'
    split at hs'
    · cases hs'; cases h; simp
    · cases hs'

/-- every view-making method other than `repeat` keeps a 0-d object at one element -/
theorem viewShape_scalar (op : ViewOp) (s' : Shape) (hnr : ∀ t l, op ≠ .reshape t l)
    (hrep : ∀ n, op ≠ .repeat_ n) (h : viewShape [] op = .ok s') : size s' = 1 := by
  cases op with
  | squeeze => simp [viewShape, squeeze] at h; subst h; rfl
  | squeezeAxis ax =>
    simp only [viewShape, squeezeAxis] at h
    split at h
    · cases h; rfl
    · simp [normAxis] at h
      split at h <;> first | cases h | (split at h <;> cases h) | skip
      all_goals omega
  | transpose => simp [viewShape, transpose] at h; subst h; rfl
  | transposeAxes p =>
    simp only [viewShape, transposeAxes] at h
    split at h
    · rename_i hc
      have : p = [] := List.length_eq_zero_iff.1 (by simpa using hc.1)
      subst this; cases h; rfl
    · cases h
  | ravel => simp [viewShape, ravel, size] at h; subst h; rfl
  | expandDims k =>
    simp only [viewShape, expandDims] at h
    split at h
    · rename_i hk
      have : k = 0 := by simpa using hk
      subst this; cases h; rfl
    · cases h
  | reshape t l => exact absurd rfl (hnr t l)
  | repeat_ n => exact absurd rfl (hrep n)

theorem viewShape_ne_nil (s : Shape) (op : ViewOp) (s' : Shape) (hs : s ≠ [])
    (hop : match op with | .squeeze | .squeezeAxis _ => False | .reshape t _ => t ≠ [] | _ => True)
    (h : viewShape s op = .ok s') : s' ≠ [] := by
  cases op with
  | squeeze => exact absurd hop id
  | squeezeAxis ax => exact absurd hop id
  | transpose => simp [viewShape, transpose] at h; subst h; simpa using hs
  | transposeAxes p =>
    simp only [viewShape, transposeAxes] at h
    split at h
    · rename_i hc; cases h
      intro hnil
      have : p = [] := by simpa using hnil
      rw [this] at hc; simp at hc; exact hs (List.length_eq_zero_iff.1 hc.1.symm)
    · cases h
  | ravel => simp [viewShape, ravel] at h; subst h; simp
  | expandDims k =>
    simp only [viewShape, expandDims] at h
    split at h
    · cases h; simp
    · cases h
  | reshape t l =>
    simp only [viewShape] at h
    have := length_reshape s t s' h
    intro hnil; rw [hnil] at this; simp at this
    exact hop (List.length_eq_zero_iff.1 this.symm)
  | repeat_ n => simp [viewShape] at h; subst h; simp

theorem zip_map_self {α β : Type} (f : α → β) (l : List α) :
    List.zip (l.map f) l = l.map (fun a => (f a, a)) := by
  induction l with
  | nil => rfl
  | cons a l ih => simp [ih]


end Unyt.C16
