/-
  Helper lemmas for C12, part 10: reading edits through registry objects over shared containers.
  (No property statement here.)
-/
import UnytModel.RegistryC12AliasMacro
import UnytProofs.Lemmas.C12Alias
import UnytProofs.Lemmas.C12Macro

set_option linter.unusedSectionVars false
set_option linter.unusedVariables false

namespace Unyt.RegC12
open Unyt

variable {K : Type} [Mul K] [OfNat K 1] [OfNat K 0] [RPow K]
variable (cfg : Cfg) (pre : Prefixes K) (parse : String → Except Err (PExpr K))

theorem step2_out_strip (s : RegState K) (o1 o2 : Op K) (h2 : o2.isSysId = false) :
    (step cfg pre parse (step cfg pre parse (strip s) o1).1 o2).2
      = (step cfg pre parse (step cfg pre parse s o1).1 o2).2 := by
  rw [← step_out_strip cfg pre parse (step cfg pre parse (strip s) o1).1 o2 h2, strip_step,
      step_out_strip cfg pre parse _ o2 h2]

/-- what a reading edit performs does not depend on the id memo -/
theorem mexpand_strip (s : RegState K) (m : MOp K) :
    mexpand cfg pre parse (strip s) m = mexpand cfg pre parse s m := by
  cases m with
  | prim op => rfl
  | modifyQu sym v q => simp only [mexpand]; rw [step_out_strip cfg pre parse s (.unit q) rfl]
  | defineUnit sym v q p =>
    simp only [mexpand]
    rw [step_out_strip cfg pre parse s (.contains sym) rfl, step2_out_strip cfg pre parse s _ (.unit q) rfl]

theorem mout_strip (s : RegState K) (m : MOp K) (hm : m.isSysId = false) :
    mout cfg pre parse (strip s) m = mout cfg pre parse s m := by
  cases m with
  | prim op =>
    simp only [mout]
    exact step_out_strip cfg pre parse s op (by cases op <;> first | rfl | simp [MOp.isSysId] at hm)
  | modifyQu sym v q =>
    simp only [mout]
    rw [step_out_strip cfg pre parse s (.unit q) rfl]
    split
    · exact step2_out_strip cfg pre parse s _ _ rfl
    · rfl
  | defineUnit sym v q p =>
    simp only [mout]
    rw [step_out_strip cfg pre parse s (.contains sym) rfl, step2_out_strip cfg pre parse s _ (.unit q) rfl]
    split
    · rfl
    · split
      · simp [step]
      · rfl

theorem eraseH_calls_at (i : Nat) (h : List (Op K)) : eraseH (h.map (AOp.call i)) = h := by
  induction h with
  | nil => rfl
  | cons o h ih => simp only [List.map_cons, eraseH, List.filterMap_cons, AOp.erase] at ih ⊢; rw [ih]

theorem proj_strip (st : AState K) : strip (proj st) = proj st := rfl

/-- the primitive calls of a reading edit made through an attached object = those of the single registry -/
theorem mexpand_view (st : AState K) (s : RegState K) (ha : Attached st) (hp : proj st = strip s)
    (i : Nat) (m : MOp K) :
    mexpand cfg pre parse (st.view (st.handle i)) m = mexpand cfg pre parse s m := by
  obtain ⟨hc, hs⟩ := attached_handle st ha i
  rw [← mexpand_strip cfg pre parse (st.view _), strip_view st _ hc hs, hp, mexpand_strip]

theorem mout_view (st : AState K) (s : RegState K) (ha : Attached st) (hp : proj st = strip s)
    (i : Nat) (m : MOp K) (hm : m.isSysId = false) :
    mout cfg pre parse (st.view (st.handle i)) m = mout cfg pre parse s m := by
  obtain ⟨hc, hs⟩ := attached_handle st ha i
  rw [← mout_strip cfg pre parse (st.view _) m hm, strip_view st _ hc hs, hp, mout_strip cfg pre parse s m hm]

/-- the family after a history with reading edits = the single registry after the erased history -/
theorem amrun_proj (st : AState K) (s : RegState K) (h : List (AMOp K))
    (ha : Attached st) (hp : proj st = strip s) :
    Attached (amrun ACfg.shared cfg pre parse st h) ∧
    proj (amrun ACfg.shared cfg pre parse st h) = strip (mrun cfg pre parse s (eraseAM h)) := by
  induction h generalizing st s with
  | nil => exact ⟨ha, hp⟩
  | cons o h ih =>
    cases o with
    | call i m =>
      simp only [amrun, List.foldl_cons, amstepOp, eraseAM, List.filterMap_cons, AMOp.erase, mrun] at ih ⊢
      have key := arun_proj cfg pre parse st s ((mexpand cfg pre parse (st.view (st.handle i)) m).map (AOp.call i)) ha hp
      rw [eraseH_calls_at, mexpand_view cfg pre parse st s ha hp i m] at key
      exact ih _ (mstep cfg pre parse s m).1 (by simpa only [amstep, mexpand_view cfg pre parse st s ha hp i m] using key.1)
        (by simpa only [amstep, mstep, mexpand_view cfg pre parse st s ha hp i m] using key.2)
    | copy i =>
      simp only [amrun, List.foldl_cons, amstepOp, eraseAM, List.filterMap_cons, AMOp.erase] at ih ⊢
      exact ih _ s (attached_acopy st ha i) hp

end Unyt.RegC12
