/-
  Concrete witnesses for the C12 counterexample theorems: a one-prefix, one-symbol world over
  `Rat`, the three short histories that expose the three stale layers, and the evaluation of the
  machine on them by the kernel.  (No property statement here.)
-/
import UnytModel.RegistryC12

namespace Unyt.RegC12.Witness
open Unyt Unyt.RegC12

/-- decidable equality of table rows (declared here under its own name: the shared `Entry` derives
    only `Repr`) -/
instance entryDecEq {K : Type} [DecidableEq K] : DecidableEq (Entry K) := fun a b =>
  decidable_of_iff (a.scale = b.scale ∧ a.dim = b.dim ∧ a.offset = b.offset ∧ a.prefixable = b.prefixable)
    (by cases a; cases b; simp)

deriving instance DecidableEq for Unyt.RegC12.Out

/-- integer powers by repeated multiplication; other exponents are not used by the witnesses -/
instance : RPow Rat := ⟨fun x q => if q.den = 1 then zpowK x q.num else x⟩

def pre : Prefixes Rat := [("k", 1000)]
/-- every string is a bare symbol, except `"foo*s"` -/
def parse (q : String) : Except Err (PExpr Rat) :=
  if q = "foo*s" then .ok (.prod 1 [("foo", 1), ("s", 1)]) else .ok (.atom q)
def t0 : Lut Rat := [("s", ⟨1, Dim.dTime, 0, true⟩)]
def foo2 : Entry Rat := ⟨2, Dim.dLength, 0, true⟩

/-- `r.add("foo", 2.0, length, prefixable=True); Unit("kfoo", registry=r); r.modify("foo", 3.0)` -/
def hModify : List (Op Rat) := [.add "foo" foo2, .unit "kfoo", .modifyF "foo" 3]
/-- `r.add("foo", …); Unit("kfoo", registry=r); r.remove("foo")` -/
def hRemove : List (Op Rat) := [.add "foo" foo2, .unit "kfoo", .remove "foo"]
/-- `r.add("foo", …); Unit("foo*s", registry=r); r.modify("foo", 3.0)` -/
def hCompound : List (Op Rat) := [.add "foo" foo2, .unit "foo*s", .modifyF "foo" 3]
/-- `r.add("foo", …); Unit("foo", registry=r); r.add("foo", 5.0, time)` -/
def hReAdd : List (Op Rat) := [.add "foo" foo2, .unit "foo", .add "foo" ⟨5, Dim.dTime, 0, false⟩]
/-- `r.add("foo", …); Unit("kfoo", registry=r)` then `r.unit_system_id` -/
def hLookup : List (Op Rat) := [.add "foo" foo2, .unit "kfoo"]
/-- `r.add("foo", …); r.modify("foo", quantity of r worth 3 m)` then `r.unit_system_id` -/
def hModQ : List (Op Rat) := [.add "foo" foo2, .modifyQ "foo" 3 Dim.dLength true]

def got (cfg : Cfg) (h : List (Op Rat)) (op : Op Rat) : Out Rat :=
  (step cfg pre parse (run cfg pre parse (fresh t0) h) op).2
def want (cfg : Cfg) (h : List (Op Rat)) (op : Op Rat) : Out Rat :=
  (step cfg pre parse (fresh (contents t0 h)) op).2

end Unyt.RegC12.Witness

namespace Unyt.RegC12.Witness
open Unyt Unyt.RegC12

/-- the two association lists agree on every key either of them mentions -/
def keysAgree (x y : Lut Rat) : Bool :=
  x.all (fun p => y.find? p.1 == x.find? p.1) && y.all (fun p => x.find? p.1 == y.find? p.1)

/-- a Boolean that `Out.Sim` implies (and that the kernel can evaluate) -/
def simB : Out Rat → Out Rat → Bool
  | .done, .done => true
  | .err a, .err b => a == b
  | .unit _ u, .unit _ v => u == v
  | .bool a, .bool b => a == b
  | .entry a, .entry b => a == b
  | .sysId a, .sysId b => keysAgree a b
  | _, _ => false

theorem sim_simB (a b : Out Rat) (h : Out.Sim a b) : simB a b = true := by
  cases a <;> cases b <;> simp only [Out.Sim] at h <;> simp only [simB]
  all_goals first
    | (subst h; exact beq_self_eq_true _)
    | skip
  · rename_i x y
    simp only [keysAgree, Bool.and_eq_true, List.all_eq_true, beq_iff_eq]
    exact ⟨fun p _ => (h p.1).symm, fun p _ => h p.1⟩

end Unyt.RegC12.Witness
