/-
  Helper lemmas for C12, part 9: the reading edits `define_unit` / `modify(sym, quantity)` (`RegistryC12Macro`).
  Given that every primitive call answers like the fresh registry (`hf`, i.e. `FullExceptId cfg` at this carrier),
  the primitive calls a reading edit performs are the same after any history.  (No property statement here.)
-/
import UnytModel.RegistryC12Macro
import UnytProofs.Lemmas.C12Core

set_option linter.unusedSectionVars false
set_option linter.unusedVariables false

namespace Unyt.RegC12
open Unyt

variable {K : Type} [Mul K] [OfNat K 1] [OfNat K 0] [RPow K]
variable (cfg : Cfg) (pre : Prefixes K) (parse : String → Except Err (PExpr K))

theorem sim_isTrue (a b : Out K) (h : Out.Sim a b) : a.isTrue = b.isTrue := by
  cases a <;> cases b <;> simp_all [Out.Sim, Out.isTrue]

theorem sim_unitData (a b : Out K) (h : Out.Sim a b) : a.unitData = b.unitData := by
  cases a <;> cases b <;> simp_all [Out.Sim, Out.unitData]

/-- two observations that both equal a third are equal -/
theorem sim_join (a b z : Out K) (h1 : Out.Sim a z) (h2 : Out.Sim b z) : Out.Sim a b := by
  cases a <;> cases b <;> cases z <;> simp_all [Out.Sim]

theorem unitData_none_sim (a b : Out K) (h : Out.Sim a b) (ha : a.unitData = none) :
    b.unitData = none := by rw [← sim_unitData a b h]; exact ha

/-- every primitive call but `unit_system_id` answers like the fresh registry holding the contents -/
def PrimFull : Prop :=
  ∀ (t0 : Lut K) (h : List (Op K)) (op : Op K), op.isSysId = false →
    Out.Sim (step cfg pre parse (run cfg pre parse (fresh t0) h) op).2
            (step cfg pre parse (fresh (contents t0 h)) op).2

theorem step_fst_run (s : RegState K) (o : Op K) : (step cfg pre parse s o).1 = run cfg pre parse s [o] := rfl

/-- a look-up after the history, then a call: both on the machine and on the fresh registry the call answers
    like the fresh registry (`look` leaves the contents alone) -/
theorem after_look (hf : PrimFull cfg pre parse) (t0 : Lut K) (H : List (Op K)) (look op : Op K)
    (hl : ∀ c : Lut K, specStep c look = c) (hop : op.isSysId = false) :
    Out.Sim (step cfg pre parse (step cfg pre parse (run cfg pre parse (fresh t0) H) look).1 op).2
            (step cfg pre parse (step cfg pre parse (fresh (contents t0 H)) look).1 op).2 := by
  have e1 : (step cfg pre parse (run cfg pre parse (fresh t0) H) look).1
      = run cfg pre parse (fresh t0) (H ++ [look]) := by rw [run_append]; rfl
  have c1 : contents t0 (H ++ [look]) = contents t0 H := by
    rw [contents_append]; exact hl _
  have c2 : contents (contents t0 H) [look] = contents t0 H := hl _
  have a := hf t0 (H ++ [look]) op hop
  have b := hf (contents t0 H) [look] op hop
  rw [← e1, c1] at a
  rw [c2] at b
  exact sim_join _ _ _ a b

/-- the primitive calls a reading edit performs do not depend on the history -/
theorem mexpand_indep (hf : PrimFull cfg pre parse) (t0 : Lut K) (H : List (Op K)) (m : MOp K) :
    mexpand cfg pre parse (run cfg pre parse (fresh t0) H) m
      = mexpand cfg pre parse (fresh (contents t0 H)) m := by
  cases m with
  | prim op => rfl
  | modifyQu sym v q =>
    simp only [mexpand]
    rw [sim_unitData _ _ (hf t0 H (.unit q) rfl)]
  | defineUnit sym v q p =>
    simp only [mexpand]
    rw [sim_isTrue _ _ (hf t0 H (.contains sym) rfl),
        sim_unitData _ _ (after_look cfg pre parse hf t0 H (.contains sym) (.unit q) (fun _ => rfl) rfl)]

/-- …and the caller sees the same -/
theorem mout_sim (hf : PrimFull cfg pre parse) (t0 : Lut K) (H : List (Op K)) (m : MOp K)
    (hm : m.isSysId = false) :
    Out.Sim (mout cfg pre parse (run cfg pre parse (fresh t0) H) m)
            (mout cfg pre parse (fresh (contents t0 H)) m) := by
  cases m with
  | prim op =>
    refine hf t0 H op ?_
    cases op <;> first | rfl | simp [MOp.isSysId] at hm
  | modifyQu sym v q =>
    simp only [mout]
    have a := hf t0 H (.unit q) rfl
    rw [sim_unitData _ _ a]
    cases hu : (step cfg pre parse (fresh (contents t0 H)) (.unit q)).2.unitData with
    | none => exact a
    | some u => exact after_look cfg pre parse hf t0 H (.unit q) _ (fun _ => rfl) rfl
  | defineUnit sym v q p =>
    simp only [mout]
    rw [sim_isTrue _ _ (hf t0 H (.contains sym) rfl)]
    split
    · trivial
    · have a := after_look cfg pre parse hf t0 H (.contains sym) (.unit q) (fun _ => rfl) rfl
      rw [sim_unitData _ _ a]
      cases hu : (step cfg pre parse (step cfg pre parse (fresh (contents t0 H)) (.contains sym)).1 (.unit q)).2.unitData with
      | none => exact a
      | some u => simp [step, Out.Sim]

/-- a history of calls (reading edits included) is a history of primitive calls, and the contents computed by
    the fresh-registry specification of each call are the contents of that primitive history -/
theorem mrun_flat_from (hf : PrimFull cfg pre parse) (t0 : Lut K) (ms : List (MOp K)) (H0 : List (Op K)) :
    ∃ H : List (Op K),
      mrun cfg pre parse (run cfg pre parse (fresh t0) H0) ms = run cfg pre parse (fresh t0) H ∧
      mcontents cfg pre parse (contents t0 H0) ms = contents t0 H := by
  induction ms generalizing H0 with
  | nil => exact ⟨H0, rfl, rfl⟩
  | cons m ms ih =>
    obtain ⟨H, h1, h2⟩ := ih (H0 ++ mexpand cfg pre parse (fresh (contents t0 H0)) m)
    refine ⟨H, ?_, ?_⟩
    · simp only [mrun, List.foldl_cons, mstep] at h1 ⊢
      rw [mexpand_indep cfg pre parse hf, ← run_append]
      exact h1
    · simp only [mcontents, List.foldl_cons, mspec] at h2 ⊢
      rw [← contents_append]
      exact h2

theorem mrun_flat (hf : PrimFull cfg pre parse) (t0 : Lut K) (ms : List (MOp K)) :
    ∃ H : List (Op K), mrun cfg pre parse (fresh t0) ms = run cfg pre parse (fresh t0) H ∧
      mcontents cfg pre parse t0 ms = contents t0 H :=
  mrun_flat_from cfg pre parse hf t0 ms []

end Unyt.RegC12
