/-
  Helper lemmas for C20 (no property statements here): the meaning of the printed layout.
-/
import UnytModel.Print
import UnytProofs.Lemmas.UExpr

namespace Unyt.C20L
open Unyt Parse Print UExpr

theorem evalItem_toItem_factors (s : String) (q : Rat) : (evalItem (toItem s q)).factors = [(s, q)] := by
  unfold toItem
  split
  · next h => simp [evalItem, h]
  · split
    · next h => simp [evalItem, h]
    · simp [evalItem]

theorem evalItem_toItem_coeff (s : String) (q : Rat) : (evalItem (toItem s q)).coeff = 1 := by
  unfold toItem
  split
  · simp [evalItem]
  · split <;> simp [evalItem]

theorem evalItems_append (a b : List Item) :
    (evalItems (a ++ b)).coeff = (evalItems a).coeff * (evalItems b).coeff ∧
    (evalItems (a ++ b)).factors = (evalItems a).factors ++ (evalItems b).factors := by
  induction a with
  | nil => simp [evalItems, Rat.one_mul]
  | cons x r ih =>
    obtain ⟨h1, h2⟩ := ih
    simp only [List.cons_append, evalItems, UExpr.mul, h1, h2, List.append_assoc, Rat.mul_assoc, and_self]

theorem posItems_coeff (f : Factors) : (evalItems (posItems f)).coeff = 1 := by
  induction f with
  | nil => simp [posItems, evalItems]
  | cons p r ih =>
    obtain ⟨s, q⟩ := p
    simp only [posItems]
    split
    · simp [evalItems, UExpr.mul, evalItem_toItem_coeff, ih]
    · exact ih

theorem negItems_coeff (f : Factors) : (evalItems (negItems f)).coeff = 1 := by
  induction f with
  | nil => simp [negItems, evalItems]
  | cons p r ih =>
    obtain ⟨s, q⟩ := p
    simp only [negItems]
    split
    · simp [evalItems, UExpr.mul, evalItem_toItem_coeff, ih]
    · exact ih

/-- numerator items minus denominator items carry exactly the exponents of the factor list -/
theorem expOf_pos_neg (f : Factors) (t : String) :
    expOf (evalItems (posItems f)).factors t - expOf (evalItems (negItems f)).factors t = expOf f t := by
  induction f with
  | nil => simp [posItems, negItems, evalItems]; grind
  | cons p r ih =>
    obtain ⟨s, q⟩ := p
    simp only [posItems, negItems, expOf_cons]
    by_cases hp : q > 0
    · have hn : ¬ q < 0 := by grind
      simp only [hp, hn, if_true, if_false, evalItems, UExpr.mul, evalItem_toItem_factors, List.cons_append,
        List.nil_append, expOf_cons]
      grind
    · by_cases hn : q < 0
      · simp only [hp, hn, if_true, if_false, evalItems, UExpr.mul, evalItem_toItem_factors, List.cons_append,
          List.nil_append, expOf_cons]
        grind
      · have hq : q = 0 := by grind
        simp only [hp, hn, if_false]
        grind

theorem litIf_coeff (n : Nat) : (evalItems (litIf n)).coeff = ((n : Nat) : Int) := by
  unfold litIf
  split
  · next h => subst h; simp [evalItems]
  · simp [evalItems, evalItem, UExpr.mul, Rat.mul_one]

theorem litIf_factors (n : Nat) : (evalItems (litIf n)).factors = [] := by
  unfold litIf
  split <;> simp [evalItems, evalItem, UExpr.mul]

/-- a non-negative rational is its numerator's absolute value over its denominator -/
theorem nonneg_num_div_den (c : Rat) (h : 0 ≤ c) :
    (((c.num.natAbs : Nat) : Int) : Rat) / (((c.den : Nat) : Int) : Rat) = c := by
  have hn : 0 ≤ c.num := Rat.num_nonneg.mpr h
  rw [Int.natAbs_of_nonneg hn]
  have := Rat.mkRat_self c
  rw [Rat.mkRat_eq_div] at this
  rw [Rat.intCast_natCast]; exact this

theorem absQ_nonneg (c : Rat) : 0 ≤ absQ c := by
  unfold absQ; split <;> grind

theorem sign_mul_absQ (c : Rat) : (if c < 0 then (-1 : Rat) else 1) * absQ c = c := by
  unfold absQ; split <;> grind

end Unyt.C20L

namespace Unyt.C20L
open Unyt Parse Print UExpr

/-- the product layout means coefficient `c` and the exponents of `f` -/
theorem evalAst_frac (c : Rat) (f : Factors) :
    (evalAst (.frac (decide (c < 0)) (litIf (absQ c).num.natAbs ++ posItems f)
        (litIf (absQ c).den ++ negItems f))).coeff = c ∧
    ∀ t, expOf (evalAst (.frac (decide (c < 0)) (litIf (absQ c).num.natAbs ++ posItems f)
        (litIf (absQ c).den ++ negItems f))).factors t = expOf f t := by
  obtain ⟨ac, af⟩ := evalItems_append (litIf (absQ c).num.natAbs) (posItems f)
  obtain ⟨bc, bf⟩ := evalItems_append (litIf (absQ c).den) (negItems f)
  constructor
  · simp only [evalAst, ac, bc, litIf_coeff, posItems_coeff, negItems_coeff, Rat.mul_one]
    rw [nonneg_num_div_den _ (absQ_nonneg c)]
    have := sign_mul_absQ c
    by_cases h : c < 0 <;> simp [h] at this ⊢ <;> exact this
  · intro t
    simp only [evalAst, af, bf, litIf_factors, List.nil_append, expOf_append, expOf_negF]
    have := expOf_pos_neg f t
    grind

end Unyt.C20L
