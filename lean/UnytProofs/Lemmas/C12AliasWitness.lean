/-
  Concrete witnesses for the C12 alias counterexample theorems (two registry objects over shared
  containers, `K = Rat`, the one-prefix world of `Lemmas/C12Witness`).  (No property statement here.)
-/
import UnytModel.RegistryC12Alias
import UnytProofs.Lemmas.C12Witness

namespace Unyt.RegC12.Witness
open Unyt Unyt.RegC12

/-- `cp = copy.copy(r)` (what `Unit.copy()` / `in_base()` of a base-unit quantity hands out);
    `r.add("foo", 2.0, length, prefixable=True)`; `Unit("kfoo", registry=cp)`; `r.modify("foo", 3.0)` -/
def hAliasDerived : List (AOp Rat) :=
  [.copy 0, .call 0 (.add "foo" foo2), .call 1 (.unit "kfoo"), .call 0 (.modifyF "foo" 3)]

/-- `cp = copy.copy(r)`; `r.add("foo", …)`; `Unit("foo", registry=cp)`; `r.modify("foo", 3.0)` -/
def hAliasCache : List (AOp Rat) :=
  [.copy 0, .call 0 (.add "foo" foo2), .call 1 (.unit "foo"), .call 0 (.modifyF "foo" 3)]

/-- `r.unit_system_id; cp = copy.copy(r); r.add("foo", …)` then `cp.unit_system_id` -/
def hAliasMemo : List (AOp Rat) := [.call 0 .sysId, .copy 0, .call 0 (.add "foo" foo2)]

/-- what registry object `i` answers after the history -/
def agot (acfg : ACfg) (cfg : Cfg) (h : List (AOp Rat)) (i : Nat) (op : Op Rat) : Out Rat :=
  (astep acfg cfg pre parse (arun acfg cfg pre parse (afresh t0) h) i op).2

end Unyt.RegC12.Witness
