/-
  C14, chunk 2 of 16 of the whole-table obligations (kernel-decided in slices; assembled in
  UnytProofs/Lemmas/C14Rows.lean, stated in UnytProofs/C14.lean).
-/
import UnytModel.C14Check

namespace Unyt.C14

/-- every listed name of chunk 2 (four slices of 64 rows) is read by the string route and by the
    three attribute routes as the independent reference reads it -/
theorem names_slice_02_0 : namesSliceOk 2 0 = true := by decide +kernel
theorem names_slice_02_1 : namesSliceOk 2 1 = true := by decide +kernel
theorem names_slice_02_2 : namesSliceOk 2 2 = true := by decide +kernel
theorem names_slice_02_3 : namesSliceOk 2 3 = true := by decide +kernel

/-- prefix spellings 3·2 … 3·2+2 (symbols, then word forms) are rejected on every
    non-prefixable spelling (three slices of 110 spelling rows) -/
theorem nonprefixable_slice_02_0 : nonprefixableSliceOk 2 0 = true := by decide +kernel
theorem nonprefixable_slice_02_1 : nonprefixableSliceOk 2 1 = true := by decide +kernel
theorem nonprefixable_slice_02_2 : nonprefixableSliceOk 2 2 = true := by decide +kernel

/-- the body of `generate_name_alternatives`' outer loop, for the table keys number i ≡ 2 (mod 16),
    started in the state the real generator had there, appends exactly what the real one appended -/
theorem gen_chunk_02 : genChunkOk 2 = true := by decide +kernel

end Unyt.C14
