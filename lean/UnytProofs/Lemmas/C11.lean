/-
  UnytProofs.Lemmas.C11 — helper lemmas for the C11 theorems (no property statement here).
-/
import UnytModel.Persist

set_option linter.unusedSectionVars false
set_option linter.unusedSimpArgs false
set_option linter.unusedVariables false

namespace Unyt.C11
open Unyt Unyt.Persist Unyt.Ufunc

theorem filterMap_eq_self {α : Type} (f : α → Option α) (l : List α)
    (h : ∀ a ∈ l, f a = some a) : l.filterMap f = l := by
  induction l with
  | nil => rfl
  | cons a t ih =>
    have ha : f a = some a := h a (by simp)
    have ht : t.filterMap f = t := ih (fun b hb => h b (by simp [hb]))
    simp [List.filterMap_cons, ha, ht]

theorem filter_eq_nil_of_all {α : Type} (p q : α → Bool) (l : List α)
    (h : l.all q = true) (hpq : ∀ a, q a = true → p a = false) : l.filter p = [] := by
  induction l with
  | nil => rfl
  | cons a t ih =>
    simp only [List.all_cons, Bool.and_eq_true] at h
    simp [List.filter_cons, hpq a h.1, ih h.2]

section
variable {K : Type} [Add K] [Sub K] [Mul K] [Div K] [OfNat K 0] [OfNat K 1] [BEq K] [RPow K]

/-- a positive answer of the guard's equality tests means equality -/
structure LawfulEq (E : EqTests K) : Prop where
  entry : ∀ a b, E.entry a b = true → a = b
  unit : ∀ a b, E.unit a b = true → a = b

theorem lawful_decide [DecidableEq K] : LawfulEq (EqTests.decide K) :=
  ⟨fun a b h => by simpa [EqTests.decide] using h, fun a b h => by simpa [EqTests.decide] using h⟩

theorem restoreRow_self (E : EqTests K) (hE : LawfulEq E) (cfg : RouteCfg) (dflt : Lut K)
    (p : String × PRow K)
    (h : (match dflt.find? p.1 with
      | some d => (keepsRow cfg p.2.e d || E.entry p.2.e d) && cfg.dfltRowCanon.apply p.2.canon == p.2.canon
      | none => cfg.keepsAdded && cfg.userRowCanon.apply p.2.canon == p.2.canon) = true) :
    restoreRow cfg dflt p = some p := by
  obtain ⟨k, e, c⟩ := p
  unfold restoreRow
  cases hd : dflt.find? k with
  | none =>
    simp only [hd, Bool.and_eq_true, beq_iff_eq] at h
    simp [h.1, h.2]
  | some d =>
    simp only [hd, Bool.and_eq_true, Bool.or_eq_true, beq_iff_eq] at h
    obtain ⟨h1, h2⟩ := h
    cases hk : keepsRow cfg e d with
    | true => simp [h2, hk]
    | false =>
      have : e = d := hE.entry e d (by simpa [hk] using h1)
      simp [h2, this]

theorem restoreRows_eq (E : EqTests K) (hE : LawfulEq E) (cfg : RouteCfg) (dflt : Lut K) (t : PLut K)
    (h : rowsGuard E cfg dflt t = true) : restoreRows cfg dflt t = t := by
  unfold restoreRows
  cases hs : cfg.regSame with
  | true =>
    simp only [rowsGuard, hs, if_true] at h
    simp only [if_true]
    have : ∀ p ∈ t, (fun p : String × PRow K => (p.1, (⟨p.2.e, rowCanonEff cfg dflt p⟩ : PRow K))) p = p := by
      intro p hp
      have := List.all_eq_true.mp h p hp
      simp only [beq_iff_eq] at this
      obtain ⟨k, e, c⟩ := p
      simp only at this
      simp [this]
    calc t.map (fun p => (p.1, (⟨p.2.e, rowCanonEff cfg dflt p⟩ : PRow K))) = t.map id :=
          List.map_congr_left this
      _ = t := List.map_id t
  | false =>
    simp only [rowsGuard, hs, Bool.false_eq_true, if_false, Bool.and_eq_true] at h
    obtain ⟨hall, hrem⟩ := h
    have h1 : t.filterMap (restoreRow cfg dflt) = t := by
      apply filterMap_eq_self
      intro p hp
      exact restoreRow_self E hE cfg dflt p (List.all_eq_true.mp hall p hp)
    have h2 : resurrected cfg dflt t = [] := by
      unfold resurrected
      cases hk : cfg.keepsRemoved with
      | true => simp
      | false =>
        have hall2 : dflt.all (fun p => t.hasKey p.1) = true := by simpa [hk] using hrem
        have : dflt.filter (fun p => !(t.hasKey p.1)) = [] :=
          filter_eq_nil_of_all _ _ dflt hall2 (fun a ha => by simp [ha])
        simp [this]
    simp [h1, h2]

theorem restoreReg_eq (E : EqTests K) (hE : LawfulEq E) (cfg : RouteCfg) (dflt : Lut K) (R : PReg K)
    (h : regGuard E cfg dflt R = true) : restoreReg cfg dflt R = R := by
  simp only [regGuard, Bool.and_eq_true, Bool.or_eq_true, beq_iff_eq] at h
  obtain ⟨hr, hu⟩ := h
  unfold restoreReg
  rw [restoreRows_eq E hE cfg dflt R.rows hr]
  obtain ⟨rows, usys⟩ := R
  rcases hu with (hu | hu) | hu
  · simp [hu]
  · simp [hu]
  · simp only at hu
    subst hu
    cases cfg.regSame <;> cases cfg.keepsUnitSystem <;> simp

theorem restoreUnit_eq (E : EqTests K) (hE : LawfulEq E) (cfg : RouteCfg) (pre : Prefixes K)
    (R : PReg K) (u : UnitV K) (h : unitGuard E cfg pre R u = true) :
    restoreUnit cfg pre R u = .ok u := by
  unfold restoreUnit
  cases hs : cfg.unitSame with
  | true => simp
  | false =>
    simp only [unitGuard, hs, Bool.false_or, Bool.and_eq_true, Bool.not_eq_true'] at h
    obtain ⟨hd, hc⟩ := h
    simp only [hd]
    cases hcar : cfg.unitDataCarried with
    | true =>
      simp only [hcar, if_true, beq_iff_eq] at hc
      obtain ⟨ex, sc, off, dm, cn⟩ := u
      simp only at hc
      simp [hc]
    | false =>
      simp only [hcar] at hc
      cases hu : unitFromReg pre R u.expr with
      | error e => simp [hu] at hc
      | ok v =>
        simp only [hu] at hc
        have : v = u := hE.unit v u hc
        simp [this]

/-! ### setting the identity bits aside -/

theorem lut_map_eraseRow (t : PLut K) : PLut.lut (t.map eraseRow) = PLut.lut t := by
  simp [PLut.lut, eraseRow, List.map_map, Function.comp_def]

theorem hasKey_map_eraseRow (t : PLut K) (k : String) : PLut.hasKey (t.map eraseRow) k = PLut.hasKey t k := by
  simp [PLut.hasKey, eraseRow, List.any_map, Function.comp_def]

theorem restoreRow_erase (cfg : RouteCfg) (dflt : Lut K) (p : String × PRow K) :
    (restoreRow cfg dflt p).map eraseRow = (restoreRow (keepIdentity cfg) dflt p).map eraseRow := by
  have hk : ∀ e d : Entry K, keepsRow (keepIdentity cfg) e d = keepsRow cfg e d := fun _ _ => rfl
  simp only [restoreRow, hk]
  have ha : (keepIdentity cfg).keepsAdded = cfg.keepsAdded := rfl
  cases dflt.find? p.1 with
  | none => rw [ha]; cases cfg.keepsAdded <;> simp [eraseRow]
  | some d => simp [eraseRow]

theorem filterMap_map_congr {α β : Type} (f g : α → Option α) (h : α → β) (l : List α)
    (hfg : ∀ a, (f a).map h = (g a).map h) : (l.filterMap f).map h = (l.filterMap g).map h := by
  induction l with
  | nil => rfl
  | cons a t ih =>
    have := hfg a
    cases hf : f a <;> cases hg : g a <;> simp_all [List.filterMap_cons]

theorem restoreRows_erase (cfg : RouteCfg) (dflt : Lut K) (t : PLut K) :
    (restoreRows cfg dflt t).map eraseRow = (restoreRows (keepIdentity cfg) dflt t).map eraseRow := by
  unfold restoreRows
  have hs : (keepIdentity cfg).regSame = cfg.regSame := rfl
  have hr : resurrected (keepIdentity cfg) dflt t = resurrected cfg dflt t := rfl
  rw [hs, hr]
  cases cfg.regSame with
  | true => simp [eraseRow, List.map_map, Function.comp_def]
  | false =>
    simp only [Bool.false_eq_true, if_false, List.map_append]
    rw [filterMap_map_congr _ _ eraseRow t (restoreRow_erase cfg dflt)]

theorem restoreRows_lut (cfg : RouteCfg) (dflt : Lut K) (t : PLut K) :
    PLut.lut (restoreRows cfg dflt t) = PLut.lut (restoreRows (keepIdentity cfg) dflt t) := by
  rw [← lut_map_eraseRow, restoreRows_erase, lut_map_eraseRow]

theorem restoreReg_erase (cfg : RouteCfg) (dflt : Lut K) (R : PReg K) :
    (restoreReg cfg dflt R).erase = (restoreReg (keepIdentity cfg) dflt R).erase := by
  simp only [restoreReg, PReg.erase, restoreRows_erase cfg dflt R.rows]
  rfl

theorem unitFromReg_erase (pre : Prefixes K) (R R' : PReg K) (e : UExpr K)
    (hl : PLut.lut R.rows = PLut.lut R'.rows) :
    (unitFromReg pre R e).map (fun u => { u with canon := true })
      = (unitFromReg pre R' e).map (fun u => { u with canon := true }) := by
  unfold unitFromReg
  rw [hl]
  cases mkUnit pre (PLut.lut R'.rows) e <;> rfl

theorem restoreUnit_erase (cfg : RouteCfg) (pre : Prefixes K) (R R' : PReg K) (u : UnitV K)
    (hl : PLut.lut R.rows = PLut.lut R'.rows) :
    (restoreUnit cfg pre R u).map (fun u => { u with canon := true })
      = (restoreUnit (keepIdentity cfg) pre R' u).map (fun u => { u with canon := true }) := by
  obtain ⟨a1, a2, a3, a4, a5, a6, a7, a8, a9, a10, a11, a12, a13, a14⟩ := cfg
  simp only [restoreUnit, keepIdentity]
  cases a4 with
  | true => rfl
  | false =>
    simp only [Bool.false_eq_true, if_false]
    by_cases hd : (a5 && isDeltaDisplay u) = true
    · simp only [hd, if_true]
    · simp only [hd, if_false]
      cases a6 with
      | true => rfl
      | false => simpa using unitFromReg_erase pre R R' u.expr hl

/-- the restored object, identity bits set aside, does not depend on what the route does to
    identity bits -/
theorem restore_erase (cfg : RouteCfg) (pre : Prefixes K) (dflt : Lut K) (x : PObj K) :
    (restore cfg pre dflt x).map PObj.erase = (restore (keepIdentity cfg) pre dflt x).map PObj.erase := by
  have hR := restoreReg_erase cfg dflt x.reg
  have hl : PLut.lut (restoreReg cfg dflt x.reg).rows = PLut.lut (restoreReg (keepIdentity cfg) dflt x.reg).rows := by
    simp only [restoreReg]; exact restoreRows_lut cfg dflt x.reg.rows
  have hu := restoreUnit_erase cfg pre (restoreReg cfg dflt x.reg) (restoreReg (keepIdentity cfg) dflt x.reg) x.unit hl
  unfold restore
  have h1 : (keepIdentity cfg).keepsValues = cfg.keepsValues := rfl
  have h2 : (keepIdentity cfg).keepsDtype = cfg.keepsDtype := rfl
  have h3 : (keepIdentity cfg).keepsClass = cfg.keepsClass := rfl
  cases ha : restoreUnit cfg pre (restoreReg cfg dflt x.reg) x.unit <;>
    cases hb : restoreUnit (keepIdentity cfg) pre (restoreReg (keepIdentity cfg) dflt x.reg) x.unit <;>
    simp only [ha, hb, Except.map] at hu ⊢ <;> simp_all [PObj.erase]

/-! ### the dispatcher's unary path does not look at the identity bit of a non-base dimension -/

def stripO (o : Outcome K) : Outcome K := { o with unit := o.unit.map UnitV.noCanon }
def stripP (p : K × Option (UnitV K)) : K × Option (UnitV K) := (p.1, p.2.map UnitV.noCanon)

theorem base3_facts (u : UnitV K) (h : Dim.isBase3 u.dim = false) :
    (u.dim == Dim.dAngle) = false ∧ (u.dim == Dim.dTemperature) = false ∧ (u.dim == Dim.dLogarithmic) = false := by
  simp only [Dim.isBase3, Bool.or_eq_false_iff] at h
  exact ⟨h.1.1, h.1.2, h.2⟩

theorem pow_canon (u : UnitV K) (p : Rat) (h : (u.dim == Dim.dLogarithmic) = false) :
    UnitV.pow { u with canon := false } p = UnitV.pow u p := by
  simp [UnitV.pow, UnitV.isLogarithmic, h]

theorem mul_self_canon (u : UnitV K) (h : (u.dim == Dim.dLogarithmic) = false) :
    UnitV.mul { u with canon := false } { u with canon := false } = UnitV.mul u u := by
  simp [UnitV.mul, UnitV.mulOffset, UnitV.isLogarithmic, UnitV.isTempOrAngle, UnitV.isDimensionless, h]

theorem applyRule1_canon (C : Ufunc.Ctx K) (r : Rule) (u : UnitV K) (rp : String)
    (h : Dim.isBase3 u.dim = false) :
    (applyRule1 C r ⟨{ u with canon := false }, rp⟩).map stripP = (applyRule1 C r ⟨u, rp⟩).map stripP := by
  obtain ⟨h1, h2, h3⟩ := base3_facts u h
  cases r <;>
    simp [applyRule1, differenceUnits, preserveUnits, isTemperature, h2, pow_canon u _ h3, mul_self_canon u h3,
      stripP, UnitV.noCanon, Except.map]

theorem wrapUp_none_result (T : Tables) (eff : List (Effect K)) (c : Call K) (hc : c.out = .none) (mul : K)
    (unit : Option (UnitV K)) (factor : Option K) (fsz : Option Nat) :
    (wrapUp T eff c false mul unit factor fsz).result
      = .ok { unit := unit, factor := factor, factorItemsize := fsz, mul := mul } := by
  simp [wrapUp, wrapClassFails, finishOut, hc]

/-- the tail shared by the paths: the rule's answer is wrapped up and a factor recorded by `post`
    (which does not touch the unit) -/
theorem ru_result_canon (T : Tables) (eff : List (Effect K)) (c : Call K) (hc : c.out = .none)
    (a b : Except Err (K × Option (UnitV K))) (factor : Option K) (fsz : Option Nat)
    (post : Outcome K → Outcome K) (hpost : ∀ o, stripO (post o) = post (stripO o))
    (hab : a.map stripP = b.map stripP) :
    (match a with
      | .error e => (⟨eff, .error e⟩ : Run K)
      | .ok (mul, unit) =>
        ⟨(wrapUp T eff c false mul unit factor fsz).effects,
         (wrapUp T eff c false mul unit factor fsz).result.map post⟩).result.map stripO
    = (match b with
      | .error e => (⟨eff, .error e⟩ : Run K)
      | .ok (mul, unit) =>
        ⟨(wrapUp T eff c false mul unit factor fsz).effects,
         (wrapUp T eff c false mul unit factor fsz).result.map post⟩).result.map stripO := by
  cases a with
  | error e1 =>
    cases b with
    | error e2 => simp [Except.map] at hab; simp [hab]
    | ok p2 => simp [Except.map] at hab
  | ok p1 =>
    cases b with
    | error e2 => simp [Except.map] at hab
    | ok p2 =>
      obtain ⟨m1, u1⟩ := p1
      obtain ⟨m2, u2⟩ := p2
      simp only [Except.map, stripP, Except.ok.injEq, Prod.mk.injEq] at hab
      simp only [wrapUp_none_result T eff c hc, Except.map]
      rw [hpost, hpost]
      simp only [stripO, hab.1, hab.2]

theorem unaryPath_canon (Cx : Ufunc.Ctx K) (c : Call K) (hc : c.out = .none) (cls : Cls) (u : UnitV K)
    (rp : String) (d : Data) (eff : List (Effect K)) (h : Dim.isBase3 u.dim = false) :
    (unaryPath Cx c (.unyt cls ⟨{ u with canon := false }, rp⟩ d) eff).result.map stripO
      = (unaryPath Cx c (.unyt cls ⟨u, rp⟩ d) eff).result.map stripO := by
  obtain ⟨h1, h2, h3⟩ := base3_facts u h
  have hg : ∀ w : UnitV K, getConversionFactor Cx.pre Cx.lut w { u with canon := false }
      = getConversionFactor Cx.pre Cx.lut w u := fun _ => rfl
  simp only [unaryPath, isAngle, h1, Bool.and_false, Bool.false_and, Bool.false_eq_true, if_false, hg]
  have tail : ∀ finit : Option K,
      Except.map stripO
        (match c.kernelErr with
          | some e => (⟨eff ++ prepOut Cx.T c.ufunc c.out, .error e⟩ : Run K)
          | none =>
            match
              (if ((c.ufunc == Cx.T.multiplyName || c.ufunc == Cx.T.divideName) && c.method == Method.reduce) = true then
                Except.map (fun x => ((1 : K), some x))
                  (powerMapUnit Cx.T c.ufunc { u with canon := false }
                    (match c.axisLen with | some n => n | none => d.size))
              else
                match Cx.T.ruleOf c.ufunc with
                | none => Except.error Err.KeyError
                | some r => applyRule1 Cx r ⟨{ u with canon := false }, rp⟩) with
            | .error e => ⟨eff ++ prepOut Cx.T c.ufunc c.out ++ kernelWrites c.out, .error e⟩
            | .ok (mul, unit) =>
              ⟨(wrapUp Cx.T (eff ++ prepOut Cx.T c.ufunc c.out ++ kernelWrites c.out) c false mul unit none none).effects,
               (wrapUp Cx.T (eff ++ prepOut Cx.T c.ufunc c.out ++ kernelWrites c.out) c false mul unit none none).result.map
                 fun (o : Outcome K) => { o with factorInitial := finit }⟩).result
      = Except.map stripO
        (match c.kernelErr with
          | some e => (⟨eff ++ prepOut Cx.T c.ufunc c.out, .error e⟩ : Run K)
          | none =>
            match
              (if ((c.ufunc == Cx.T.multiplyName || c.ufunc == Cx.T.divideName) && c.method == Method.reduce) = true then
                Except.map (fun x => ((1 : K), some x))
                  (powerMapUnit Cx.T c.ufunc u (match c.axisLen with | some n => n | none => d.size))
              else
                match Cx.T.ruleOf c.ufunc with
                | none => Except.error Err.KeyError
                | some r => applyRule1 Cx r ⟨u, rp⟩) with
            | .error e => ⟨eff ++ prepOut Cx.T c.ufunc c.out ++ kernelWrites c.out, .error e⟩
            | .ok (mul, unit) =>
              ⟨(wrapUp Cx.T (eff ++ prepOut Cx.T c.ufunc c.out ++ kernelWrites c.out) c false mul unit none none).effects,
               (wrapUp Cx.T (eff ++ prepOut Cx.T c.ufunc c.out ++ kernelWrites c.out) c false mul unit none none).result.map
                 fun (o : Outcome K) => { o with factorInitial := finit }⟩).result := by
    intro finit
    cases c.kernelErr with
    | some e => rfl
    | none =>
      simp only
      apply ru_result_canon Cx.T _ c hc _ _ none none (fun (o : Outcome K) => { o with factorInitial := finit })
        (fun o => rfl)
      split
      · simp only [powerMapUnit]
        cases Cx.T.powerMap.find? (fun x => x.1 == c.ufunc) with
        | none => rfl
        | some r => simp [pow_canon u _ h3]
      · cases Cx.T.ruleOf c.ufunc with
        | none => rfl
        | some r => exact applyRule1_canon Cx r u rp h
  cases c.initial with
  | none => exact tail none
  | some op =>
    cases op with
    | bare _ => exact tail none
    | seq _ _ => exact tail none
    | unyt _ ui _ =>
      cases hrule : Cx.T.ruleOf c.ufunc with
      | none =>
        have t0 := tail none
        simp only [hrule] at t0 ⊢
        exact t0
      | some r =>
        cases hck : r.checked with
        | false =>
          have t0 := tail none
          simp only [hrule, hck] at t0 ⊢
          exact t0
        | true =>
          cases hgc : getConversionFactor Cx.pre Cx.lut ui.v u with
          | error e => simp only [hck, hgc, if_true]
          | ok fo =>
            have t0 := tail (some fo.1)
            simp only [hrule, hck, hgc, if_true] at t0 ⊢
            exact t0

theorem read_off_canon (vals : List K) (num : Outcome K → K → K)
    (hnum : ∀ o o' : Outcome K, o.factor = o'.factor → o.factorFirst = o'.factorFirst → o.mul = o'.mul → num o = num o')
    (r1 r2 : Except Err (Outcome K)) (h : r1.map stripO = r2.map stripO) :
    (match r1 with
      | .error e => (.error e : Except Err (Res K))
      | .ok o => .ok ⟨vals.map (num o), o.unit⟩).map Res.noCanon
    = (match r2 with
      | .error e => (.error e : Except Err (Res K))
      | .ok o => .ok ⟨vals.map (num o), o.unit⟩).map Res.noCanon := by
  cases r1 with
  | error e1 =>
    cases r2 with
    | error e2 => simp [Except.map] at h; simp [h]
    | ok o2 => simp [Except.map] at h
  | ok o1 =>
    cases r2 with
    | error e2 => simp [Except.map] at h
    | ok o2 =>
      simp only [Except.map, stripO, Except.ok.injEq] at h
      have hf : o1.factor = o2.factor := by
        have := congrArg Outcome.factor h; simpa using this
      have hm : o1.mul = o2.mul := by
        have := congrArg Outcome.mul h; simpa using this
      have hff : o1.factorFirst = o2.factorFirst := by
        have := congrArg Outcome.factorFirst h; simpa using this
      have hu : o1.unit.map UnitV.noCanon = o2.unit.map UnitV.noCanon := by
        have := congrArg Outcome.unit h; simpa using this
      simp only [Except.map, Res.noCanon, hnum o1 o2 hf hff hm, hu]

end
end Unyt.C11
