/-
  Lemmas for C20Cache: the cache invariant of the string branch of `Unit.__new__`.
-/
import UnytModel.UnitCache

namespace Unyt.UnitCache
variable {ε α : Type} (parse parseRaw : Text → Except ε α) (decode : List Nat → Option Text) (decodeErr : ε)

/-- cache invariant: every entry is what the parser makes of its key -/
def Sound (c : Cache α) : Prop := ∀ t u, lookup t c = some u → parse t = .ok u

theorem sound_nil : Sound parse ([] : Cache α) := by intro t u h; cases h

theorem sound_cons {c : Cache α} {t : Text} {u : α} (hc : Sound parse c) (h : parse t = .ok u) :
    Sound parse ((t, u) :: c) := by
  intro t' u' h'
  simp only [lookup] at h'
  split at h'
  · next heq => cases h'; subst heq; exact h
  · exact hc t' u' h'

/-- a call with parser `q` (the full parser, or the raw one that agrees with it wherever the full
    one succeeds) keeps the invariant and hands back what `q` makes of the text -/
theorem callText_sound (q : Text → Except ε α) (hq : ∀ t u, parse t = .ok u → q t = .ok u)
    (store : Bool) (hs : store = true → q = parse) {c : Cache α} (hc : Sound parse c) (t : Text) :
    Sound parse (callText q store c t).2 ∧
    (callText (ε := ε) q store c t).1.value = some (q t) := by
  unfold callText
  cases hl : lookup t c with
  | some u => exact ⟨hc, by simp only [Outcome.value, hq t u (hc t u hl)]⟩
  | none =>
    cases hp : q t with
    | ok u =>
      refine ⟨?_, by simp only [Outcome.value]⟩
      cases store
      · exact hc
      · have := hs rfl; subst this; exact sound_cons q hc hp
    | error e => exact ⟨hc, by simp only [Outcome.value]⟩

theorem callText_fresh (q : Text → Except ε α) (store : Bool) (t : Text) :
    (callText (ε := ε) q store ([] : Cache α) t).1.value = some (q t) := by
  unfold callText
  simp only [lookup]
  cases q t <;> simp only [Outcome.value]

theorem call_sound (hraw : ∀ t u, parse t = .ok u → parseRaw t = .ok u) {c : Cache α} (hc : Sound parse c) (k : Call) :
    Sound parse (call parse parseRaw decode decodeErr c k).2 ∧
    (call parse parseRaw decode decodeErr c k).1.value = (fresh parse parseRaw decode decodeErr k).value := by
  have hfull := callText_sound parse parse (fun _ _ h => h) true (fun _ => rfl) hc
  have hr := callText_sound parse parseRaw hraw false (fun h => by cases h) hc
  cases k with
  | str t =>
    simp only [call, fresh]
    exact ⟨(hfull t).1, by rw [(hfull t).2, callText_fresh]⟩
  | bytes b =>
    simp only [call, fresh]
    cases decode b with
    | none => exact ⟨hc, rfl⟩
    | some t => exact ⟨(hfull t).1, by rw [(hfull t).2, callText_fresh]⟩
  | withData t =>
    simp only [call, fresh]
    exact ⟨(hr t).1, by rw [(hr t).2, callText_fresh]⟩
  | clear => exact ⟨sound_nil parse, rfl⟩

theorem history_sound (hraw : ∀ t u, parse t = .ok u → parseRaw t = .ok u) {c : Cache α} (hc : Sound parse c) (ks : List Call) :
    Sound parse (history parse parseRaw decode decodeErr c ks).2 ∧
    (history parse parseRaw decode decodeErr c ks).1.map Outcome.value
      = ks.map fun k => (fresh parse parseRaw decode decodeErr k).value := by
  induction ks generalizing c with
  | nil => exact ⟨hc, rfl⟩
  | cons k r ih =>
    have h1 := call_sound parse parseRaw decode decodeErr hraw hc k
    have h2 := ih h1.1
    simp only [history, List.map_cons]
    exact ⟨h2.1, by rw [h1.2, h2.2]⟩

/-- a present key stays present, with the same object, through every call but `clear` -/
theorem callText_keeps (q : Text → Except ε α) (store : Bool) (c : Cache α) (t s : Text) (u : α) (h : lookup s c = some u) :
    lookup s (callText q store c t).2 = some u := by
  unfold callText
  cases hl : lookup t c with
  | some v => exact h
  | none =>
    cases hp : q t with
    | error e => exact h
    | ok v =>
      cases store
      · exact h
      · show lookup s ((t, v) :: c) = some u
        simp only [lookup]
        split
        · next heq => subst heq; rw [hl] at h; cases h
        · exact h

end Unyt.UnitCache
