/-
  Lemmas for UnytProofs/C02Num.lean: scanning rendered digit runs.
-/
import UnytModel.NumLitC02

namespace Unyt.NumLit

theorem digitChar_facts : ∀ d : Fin 10,
    decVal (digitChar d) = some d.val ∧ digitChar d ≠ '_' ∧ digitChar d ≠ '.' ∧ digitChar d ≠ 'e' ∧
    digitChar d ≠ 'E' ∧ digitChar d ≠ 'x' ∧ digitChar d ≠ 'X' ∧ digitChar d ≠ 'o' ∧ digitChar d ≠ 'O' ∧
    digitChar d ≠ 'b' ∧ digitChar d ≠ 'B' ∧ digitChar d ≠ '-' ∧ digitChar d ≠ '+' := by decide

theorem decVal_digitChar (d : Fin 10) : decVal (digitChar d) = some d.val := (digitChar_facts d).1

theorem digitsValue_render (ds : List (Fin 10)) (rest : List Char) (acc : Nat) :
    digitsValue decVal 10 (renderDigits ds ++ rest) acc
      = digitsValue decVal 10 rest (ds.foldl (fun a d => a * 10 + d.val) acc) := by
  induction ds generalizing acc with
  | nil => rfl
  | cons d ds ih =>
    have h := digitChar_facts d
    simp only [renderDigits, List.map_cons, List.cons_append, digitsValue, h.2.1, if_false, h.1, List.foldl_cons]
    exact ih _

theorem digitsValue_render_nil (ds : List (Fin 10)) :
    digitsValue decVal 10 (renderDigits ds) 0 = some (ofDigits ds) := by
  have h := digitsValue_render ds [] 0
  simpa [ofDigits, digitsValue] using h

theorem renderDigits_append (a b : List (Fin 10)) : renderDigits (a ++ b) = renderDigits a ++ renderDigits b := by
  simp [renderDigits]

theorem countDigits_render (ds : List (Fin 10)) : countDigits (renderDigits ds) = ds.length := by
  induction ds with
  | nil => rfl
  | cons d ds ih =>
    have h := (digitChar_facts d).2.1
    simp only [countDigits, renderDigits, List.map_cons] at ih ⊢
    simp at ih
    simp [h, ih]

theorem foldl_digits (b : List (Fin 10)) (acc : Nat) :
    b.foldl (fun a d => a * 10 + d.val) acc = acc * 10 ^ b.length + b.foldl (fun a d => a * 10 + d.val) 0 := by
  induction b generalizing acc with
  | nil => simp
  | cons d b ih =>
    simp only [List.foldl_cons, List.length_cons]
    rw [ih (acc * 10 + d.val), ih (0 * 10 + d.val)]
    grind

/-- positional notation: the digits of `a ++ b` are worth `a · 10^|b| + b` -/
theorem ofDigits_append (a b : List (Fin 10)) :
    ofDigits (a ++ b) = ofDigits a * 10 ^ b.length + ofDigits b := by
  simp only [ofDigits, List.foldl_append]
  exact foldl_digits b _

theorem splitAt?_append (p : Char → Bool) (a b : List Char) (h : ∀ c ∈ a, p c = false) :
    splitAt? p (a ++ b) = (a ++ (splitAt? p b).1, (splitAt? p b).2) := by
  induction a with
  | nil => simp
  | cons c a ih =>
    have hc : p c = false := h c (by simp)
    have ih' := ih (fun x hx => h x (by simp [hx]))
    simp [splitAt?, hc, ih']

theorem render_no (p : Char → Bool) (hp : ∀ d : Fin 10, p (digitChar d) = false) (ds : List (Fin 10)) :
    ∀ c ∈ renderDigits ds, p c = false := by
  intro c hc
  simp only [renderDigits, List.mem_map] at hc
  obtain ⟨d, _, rfl⟩ := hc
  exact hp d

theorem hasChar_render (c : Char) (hc : ∀ d : Fin 10, digitChar d ≠ c) (ds : List (Fin 10)) :
    hasChar c (renderDigits ds) = false := by
  simp only [hasChar, renderDigits, List.any_map, List.any_eq_false]
  intro d _
  simpa using hc d

theorem digitChar_preds : ∀ d : Fin 10, isExpMarker (digitChar d) = false ∧ isPoint (digitChar d) = false := by decide

theorem hasChar_append (c : Char) (a b : List Char) : hasChar c (a ++ b) = (hasChar c a || hasChar c b) := by
  simp [hasChar]

theorem marker_isExp (x : ExpPart) : isExpMarker x.marker = true := by
  cases h : x.upper <;> simp [ExpPart.marker, h, isExpMarker]

theorem pointPart_noExp (l : DecLit) : ∀ c ∈ l.pointPart, isExpMarker c = false := by
  unfold DecLit.pointPart
  split
  · intro c hc
    simp only [List.mem_cons] at hc
    rcases hc with rfl | hc
    · decide
    · exact render_no isExpMarker (fun d => (digitChar_preds d).1) _ c hc
  · simp

/-- the mantissa / exponent split of a rendered literal -/
theorem split_exp (l : DecLit) :
    splitAt? isExpMarker l.render
      = (renderDigits l.intDs ++ l.pointPart, l.exp.map fun x => x.signChars ++ renderDigits x.digits) := by
  have hI := render_no isExpMarker (fun d => (digitChar_preds d).1) l.intDs
  rw [DecLit.render, splitAt?_append _ _ _ hI, splitAt?_append _ _ _ (pointPart_noExp l)]
  unfold DecLit.expPart
  cases l.exp with
  | none => simp [splitAt?]
  | some x => simp [ExpPart.render, splitAt?, marker_isExp]

/-- the integer / fraction split of the mantissa -/
theorem split_point (l : DecLit) :
    splitAt? isPoint (renderDigits l.intDs ++ l.pointPart)
      = (renderDigits l.intDs, if l.dot then some (renderDigits l.fracDs) else none) := by
  have hI := render_no isPoint (fun d => (digitChar_preds d).2) l.intDs
  rw [splitAt?_append _ _ _ hI]
  unfold DecLit.pointPart
  cases l.dot <;> simp [splitAt?, isPoint]

theorem signedExp_render (x : ExpPart) (hx : x.digits ≠ []) :
    signedExp (x.signChars ++ renderDigits x.digits) = some x.value := by
  obtain ⟨up, sg, ds⟩ := x
  cases ds with
  | nil => exact absurd rfl hx
  | cons d ds =>
    have h := digitChar_facts d
    have hv := digitsValue_render_nil (d :: ds)
    rcases sg with _ | _ | _
    · simp only [ExpPart.signChars, List.nil_append, ExpPart.value]
      simp only [renderDigits, List.map_cons] at hv ⊢
      simp [signedExp, h.2.2.2.2.2.2.2.2.2.2.2.1, h.2.2.2.2.2.2.2.2.2.2.2.2, hv]
    · have hv := digitsValue_render_nil (d :: ds)
      simp [ExpPart.signChars, ExpPart.value, signedExp, hv]
    · have hv := digitsValue_render_nil (d :: ds)
      simp [ExpPart.signChars, ExpPart.value, signedExp, hv]

theorem hasChar_cons (c a : Char) (r : List Char) : hasChar c (a :: r) = (a == c || hasChar c r) := by
  simp [hasChar]

theorem hasChar_nil (c : Char) : hasChar c [] = false := rfl

theorem hasChar_point_render (ds : List (Fin 10)) : hasChar '.' (renderDigits ds) = false :=
  hasChar_render _ (fun d => (digitChar_facts d).2.2.1) ds
theorem hasChar_e_render (ds : List (Fin 10)) : hasChar 'e' (renderDigits ds) = false :=
  hasChar_render _ (fun d => (digitChar_facts d).2.2.2.1) ds
theorem hasChar_E_render (ds : List (Fin 10)) : hasChar 'E' (renderDigits ds) = false :=
  hasChar_render _ (fun d => (digitChar_facts d).2.2.2.2.1) ds

theorem hasPoint_expPart (l : DecLit) : hasChar '.' l.expPart = false := by
  unfold DecLit.expPart
  cases l.exp with
  | none => rfl
  | some x =>
    obtain ⟨up, sg, ds⟩ := x
    rcases sg with _ | _ | _ <;> cases up <;>
      simp [ExpPart.render, ExpPart.marker, ExpPart.signChars, hasChar_cons, hasChar_point_render]

theorem hasChar_pointPart (l : DecLit) (c : Char) (hc : c ≠ '.') (hf : hasChar c (renderDigits l.fracDs) = false) :
    hasChar c l.pointPart = false := by
  unfold DecLit.pointPart
  cases l.dot
  · rfl
  · simp [hasChar_cons, hf, Ne.symm hc]

theorem hasPoint_render (l : DecLit) : hasChar '.' l.render = l.dot := by
  simp only [DecLit.render, hasChar_append, hasChar_point_render, Bool.false_or, hasPoint_expPart, Bool.or_false]
  unfold DecLit.pointPart
  cases l.dot <;> simp [hasChar_cons, hasChar_nil]

theorem hasExp_expPart (l : DecLit) : (hasChar 'e' l.expPart || hasChar 'E' l.expPart) = l.exp.isSome := by
  unfold DecLit.expPart
  cases l.exp with
  | none => rfl
  | some x =>
    obtain ⟨up, sg, ds⟩ := x
    cases up <;> simp [ExpPart.render, ExpPart.marker, hasChar_cons]

theorem hasExp_render (l : DecLit) : (hasChar 'e' l.render || hasChar 'E' l.render) = l.exp.isSome := by
  simp only [DecLit.render, hasChar_append, hasChar_e_render, hasChar_E_render, Bool.false_or,
    hasChar_pointPart l 'e' (by decide) (hasChar_e_render _), hasChar_pointPart l 'E' (by decide) (hasChar_E_render _)]
  exact hasExp_expPart l

theorem startsWithAny_hex (cs : List Char) :
    startsWithAny [[Char.ofNat 48, Char.ofNat 120], [Char.ofNat 48, Char.ofNat 88]] cs = startsHex cs := by
  have h0 : (Char.ofNat 48) = '0' := by decide
  have hx : (Char.ofNat 120) = 'x' := by decide
  have hX : (Char.ofNat 88) = 'X' := by decide
  rw [h0, hx, hX]
  match cs with
  | [] => rfl
  | [a] => simp [startsWithAny, startsHex, List.isPrefixOf]
  | a :: c :: r =>
    simp only [startsWithAny, startsHex, List.any_cons, List.any_nil, List.isPrefixOf, Bool.or_false, Bool.and_true]
    by_cases ha : a = '0'
    · subst ha
      by_cases h1 : c = 'x'
      · subst h1; decide
      · by_cases h2 : c = 'X'
        · subst h2; decide
        · have h1' : ('x' == c) = false := by simpa using Ne.symm h1
          have h2' : ('X' == c) = false := by simpa using Ne.symm h2
          simp [h1, h2, h1', h2']
    · have ha' : ('0' == a) = false := by simpa using Ne.symm ha
      simp [ha, ha']

theorem startsHex_cons_ne (a : Char) (r : List Char) (h : a ≠ '0') : startsHex (a :: r) = false := by
  cases r <;> simp [startsHex, h]

theorem startsHex_cons_cons (a c : Char) (r : List Char) (h1 : c ≠ 'x') (h2 : c ≠ 'X') :
    startsHex (a :: c :: r) = false := by
  simp [startsHex, h1, h2]

theorem startsHex_render (l : DecLit) : startsHex l.render = false := by
  obtain ⟨i, dot, f, x⟩ := l
  simp only [DecLit.render, DecLit.pointPart, DecLit.expPart]
  match i with
  | [] =>
    cases dot
    · cases x with
      | none => rfl
      | some x => cases hu : x.upper <;> simp [ExpPart.render, ExpPart.marker, hu, renderDigits] <;> exact startsHex_cons_ne _ _ (by decide)
    · exact startsHex_cons_ne _ _ (by decide)
  | [d] =>
    cases dot
    · cases x with
      | none => rfl
      | some x => cases hu : x.upper <;> simp [ExpPart.render, ExpPart.marker, hu, renderDigits] <;> exact startsHex_cons_cons _ _ _ (by decide) (by decide)
    · exact startsHex_cons_cons _ _ _ (by decide) (by decide)
  | d :: d' :: r =>
    have h := digitChar_facts d'
    exact startsHex_cons_cons _ _ _ h.2.2.2.2.2.1 h.2.2.2.2.2.2.1

theorem intLiteral_render (ds : List (Fin 10)) : intLiteral (renderDigits ds) = some (ofDigits ds) := by
  match ds with
  | [] => rfl
  | [d] => exact digitsValue_render_nil [d]
  | d :: d' :: r =>
    have h := digitChar_facts d'
    have hv := digitsValue_render_nil (d :: d' :: r)
    simp only [renderDigits, List.map_cons] at hv ⊢
    simp only [intLiteral, h.2.2.2.2.2.1, h.2.2.2.2.2.2.1, h.2.2.2.2.2.2.2.1, h.2.2.2.2.2.2.2.2.1,
      h.2.2.2.2.2.2.2.2.2.1, h.2.2.2.2.2.2.2.2.2.2.1, or_self, and_false, if_false, hv]

theorem render_plain (l : DecLit) (hd : l.dot = false) (he : l.exp = none) : l.render = renderDigits l.intDs := by
  simp [DecLit.render, DecLit.pointPart, DecLit.expPart, hd, he]


theorem natToRat_mul (a b : Nat) : natToRat (a * b) = natToRat a * natToRat b := by
  simp [natToRat, Rat.intCast_mul]

theorem natToRat_ne_zero (n : Nat) (h : n ≠ 0) : natToRat n ≠ 0 := by
  simp only [natToRat, ne_eq, Rat.intCast_eq_zero_iff]
  omega

theorem mul_div_cancel_rat (x t : Rat) (h : t ≠ 0) : x * t / t = x := by grind

theorem pow10_shift (m : Nat) (e : Int) : pow10 (m * 10) (e - 1) = pow10 m e := by
  unfold pow10
  by_cases h1 : e ≥ 1
  · have h2 : e - 1 ≥ 0 := by omega
    have h3 : e ≥ 0 := by omega
    simp only [h2, h3, if_true]
    have : e.toNat = (e - 1).toNat + 1 := by omega
    rw [this, Nat.pow_succ]
    congr 1
    grind
  · have h2 : ¬ (e - 1 ≥ 0) := by omega
    simp only [h2, if_false]
    by_cases h3 : e ≥ 0
    · have : e = 0 := by omega
      subst this
      simp [natToRat_mul]
      exact mul_div_cancel_rat _ _ (natToRat_ne_zero 10 (by decide))
    · simp only [h3, if_false]
      have : (e - 1).natAbs = e.natAbs + 1 := by omega
      rw [this, Nat.pow_succ, natToRat_mul, natToRat_mul]
      have h10 := natToRat_ne_zero 10 (by decide)
      have hp := natToRat_ne_zero (10 ^ e.natAbs) (by exact Nat.ne_of_gt (Nat.pow_pos (by decide)))
      grind

end Unyt.NumLit
