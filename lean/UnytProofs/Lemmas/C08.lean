/-
  Lemmas for C08 — the skeleton of the additive block of `__array_ufunc__` on temperature units,
  and the exact table's structural facts.  No property statement here.
-/
import UnytModel.Ref.C08
import UnytProofs.Lemmas.C08Str

set_option linter.unusedSectionVars false

deriving instance DecidableEq for Except

namespace Unyt.Temp

/-- `IsClose.close` decides equality (true of `Rat`; the gap to `math.isclose` on doubles is
    outside the theorems) -/
class LawfulIsClose (K : Type) [IsClose K] : Prop where
  close_iff : ∀ a b : K, IsClose.close a b = true ↔ a = b

instance : LawfulIsClose Rat := ⟨fun a b => by simp [IsClose.close]⟩

section
variable {K : Type} [Lean.Grind.Field K] [Lean.Grind.IsCharP K 0] [BEq K] [LawfulBEq K]
  [IsClose K] [LawfulIsClose K]

open Unyt.Temp.Ref

theorem close_eq (a b : K) : IsClose.close a b = (a == b) := by
  by_cases h : a = b
  · subst h; simp [(LawfulIsClose.close_iff a a).2 rfl]
  · have : IsClose.close a b ≠ true := fun hc => h ((LawfulIsClose.close_iff a b).1 hc)
    simp [h, this]

theorem slope_ne (b : TBase) : (slope b : K) ≠ 0 := by
  cases b <;> simp only [slope] <;> grind

theorem scale_exact (u : TU K) : u.scale exactTab = slope u.base * (match u.pre with | none => 1 | some p => p.val) := by
  cases u with | mk pre base => cases pre <;> simp [TU.scale, exactTab] <;> grind

theorem scale_ne (u : TU K) (h : u.WF) : u.scale exactTab ≠ 0 := by
  have hs := slope_ne (K := K) u.base
  cases u with | mk pre base =>
  cases pre with
  | none => simpa [TU.scale, exactTab] using hs
  | some p =>
    simp only [TU.WF] at h
    simp only [TU.scale, exactTab]
    intro h0
    rcases Lean.Grind.Field.of_mul_eq_zero h0 with h1 | h1
    · exact hs h1
    · exact h.2 h1

theorem hasOffset_exact (u : TU K) : hasOffset exactTab u = (kind u.base == .point) := by
  cases u with | mk pre base =>
  cases base <;> simp [hasOffset, TU.offset, exactTab, zero, kind] <;> grind

theorem offset_exact_zero (u : TU K) : (u.offset exactTab == 0) = (kind u.base == .diff) := by
  cases u with | mk pre base =>
  cases base <;> simp [TU.offset, exactTab, zero, kind] <;> grind

theorem difK_eq (u : TU K) (x : K) : difK u x = u.scale exactTab * x := by
  cases u with | mk pre base =>
  cases pre <;> simp only [difK, unprefixed, TU.scale, exactTab] <;> grind

theorem absK_eq (u : TU K) (x : K) :
    absK u x = u.scale exactTab * x - slope u.base * zero u.base := by
  cases u with | mk pre base =>
  cases pre <;> simp only [absK, unprefixed, TU.scale, exactTab] <;> grind

theorem unitEq_iff (tab : TTable K) (u v : TU K) :
    unitEq tab u v = true ↔ u.scale tab = v.scale tab ∧ u.offset tab = v.offset tab := by
  simp [unitEq, close_eq]

/-- the second operand, once through the conversion block, is its reading re-expressed in the
    first operand's scale -/
theorem convSecond_spec {u0 u1 : TU K} {c : Option K} (h0 : u0.WF)
    (h : convSecond exactTab u0 u1 = .ok c) (x1 : K) :
    applyC c x1 * u0.scale exactTab = x1 * u1.scale exactTab := by
  have hs := scale_ne u0 h0
  unfold convSecond at h
  split at h
  · rename_i he
    have := (unitEq_iff _ _ _).1 he
    cases h
    simp only [applyC]; rw [this.1]
  · simp only at h
    split at h
    · cases h
    · cases h
      simp only [applyC]
      grind

theorem tempAdd_ok {tab : TTable K} {u0 u1 : TU K} {x0 x1 : K} {r : TU K × K}
    (h : tempAdd tab u0 x0 u1 x1 = .ok r) :
    ∃ c, convSecond tab u0 u1 = .ok c ∧
      r = (if (!hasOffset tab u0 && hasOffset tab u1) = true then
            (preserveUnits tab u0 u1, applyC (c.map fun _ => u0.scale tab / u1.scale tab) x0 + x1)
          else (preserveUnits tab u0 u1, x0 + applyC c x1)) := by
  unfold tempAdd binaryPrep at h
  split at h
  · rename_i u c hb
    split at hb
    · cases hb
    · split at hb
      · cases hb
      · rename_i c' hc
        simp only [Except.ok.injEq, Prod.mk.injEq, Option.some.injEq] at hb
        refine ⟨c', hc, ?_⟩
        rw [← hb.1, ← hb.2] at h
        split at h <;> cases h <;> simp_all
  · cases h
  · cases h

theorem tempSub_ok {tab : TTable K} {u0 u1 : TU K} {x0 x1 : K} {r : TU K × K}
    (h : tempSub tab u0 x0 u1 x1 = .ok r) :
    ∃ c l, convSecond tab u0 u1 = .ok c ∧ differenceUnits tab u0 (some u1) = .ok l ∧
      r = (l, x0 - applyC c x1) := by
  unfold tempSub binaryPrep at h
  split at h
  · rename_i u c hb
    simp only [show (Rule.difference == Rule.preserve) = false from rfl, Bool.false_and,
      Bool.false_eq_true, if_false] at hb
    split at hb
    · cases hb
    · rename_i c' hc
      split at hb
      · cases hb
      · rename_i l hl
        simp only [Except.ok.injEq, Prod.mk.injEq, Option.some.injEq] at hb
        refine ⟨c', l, hc, hl, ?_⟩
        cases h
        rw [← hb.1, ← hb.2]
  · cases h
  · cases h

/-- equal offsets in the exact table: same kind and the same zero point in kelvin -/
theorem offset_eq_facts (u0 u1 : TU K) (h : u1.offset exactTab = u0.offset exactTab) :
    kind u1.base = kind u0.base ∧ slope u1.base * zero u1.base = (slope u0.base * zero u0.base : K) := by
  rcases u0 with ⟨p0, b0⟩
  rcases u1 with ⟨p1, b1⟩
  cases b0 <;> cases b1 <;> simp only [TU.offset, exactTab, zero, kind, slope] at h ⊢ <;> grind

theorem isBare_iff (u : TU K) (b : TBase) : u.isBare b = true ↔ u = ⟨none, b⟩ := by
  rcases u with ⟨p, b'⟩
  cases p <;> simp [TU.isBare]

/-- point − point of equal scale and zero, labelled with a difference unit of the same size -/
theorem point_point_sub (u0 u1 l : TU K) (x0 x1 y : K)
    (hl : l.scale exactTab = u0.scale exactTab) (hsc : u1.scale exactTab = u0.scale exactTab)
    (hz : slope u1.base * zero u1.base = (slope u0.base * zero u0.base : K)) (hy : y = x1) :
    difK l (x0 - y) = absK u0 x0 - absK u1 x1 := by
  simp only [difK_eq, absK_eq, hl, hsc, hz, hy]; grind

/-! ### the shared unit algebra: every refusal of `Unit.__mul__` / `__truediv__` is `InvalidUnitOperation` -/

theorem mulOffset_error [RPow K] {u v : UnitV K} {e : Err} (h : UnitV.mulOffset u v = .error e) :
    e = .InvalidUnitOperation := by
  unfold UnitV.mulOffset at h
  split at h
  · split at h
    · cases h
    · split at h
      · cases h
      · cases h; rfl
  · cases h

theorem mul_error [RPow K] {u v : UnitV K} {e : Err} (h : UnitV.mul u v = .error e) :
    e = .InvalidUnitOperation := by
  unfold UnitV.mul at h
  split at h
  · cases h; rfl
  · split at h
    · cases h; rfl
    · split at h
      · rename_i e' he; cases h; exact mulOffset_error he
      · cases h

theorem div_error [RPow K] {u v : UnitV K} {e : Err} (h : UnitV.div u v = .error e) :
    e = .InvalidUnitOperation := by
  unfold UnitV.div at h
  split at h
  · cases h; rfl
  · split at h
    · cases h; rfl
    · simp only at h
      split at h
      · rename_i e' he
        cases h
        split at he
        · split at he
          · cases he
          · cases he; rfl
        · cases he
      · cases h

/-- the prefix-aware effective offset of a unit of the universe, times its scale, is the zero
    point of its scale in kelvin -/
theorem eff_spec (u : TU K) (h : u.WFP) :
    effOffset (splitsPrefix genSyms genNames u.str) (u.scale exactTab) (u.offset exactTab)
        * u.scale exactTab = slope u.base * zero u.base := by
  rw [splits_str u h]
  have hs := scale_ne u h.1
  rcases u with ⟨pre, base⟩
  cases pre with
  | none => simp [effOffset, TU.scale, TU.offset, exactTab]; grind
  | some p =>
    have hp : Ref.prefixable base = true := h.2 rfl
    simp only [Option.isSome_some, effOffset, if_true, TU.offset, exactTab]
    cases base <;> simp [Ref.prefixable] at hp <;> simp only [TU.scale, exactTab, slope] at hs ⊢ <;> grind

theorem zero_of_offset_zero (u : TU K) (h : u.offset exactTab = 0) :
    (slope u.base * zero u.base : K) = 0 := by
  rcases u with ⟨p, b⟩
  cases b <;> simp only [TU.offset, exactTab, zero, slope] at h ⊢ <;> grind

/-- the array-level test `u.base_offset and u.dimensions is temperature` on a unit of the family -/
theorem offsetTemp_toUnitV [RPow K] (u : TU K) :
    offsetTemp (toUnitV exactTab u) = onOffsetScale u := by
  have h := hasOffset_exact u
  simp only [hasOffset] at h
  simp only [offsetTemp, toUnitV, h, onOffsetScale]
  simp

/-- the rescaling block refuses only with `InvalidUnitOperation` -/
theorem convSecond_error {tab : TTable K} {u0 u1 : TU K} {e : Err}
    (h : convSecond tab u0 u1 = .error e) : e = .InvalidUnitOperation := by
  unfold convSecond at h
  split at h
  · cases h
  · simp only at h
    split at h
    · cases h; rfl
    · cases h

end
end Unyt.Temp
