/-
  Lemmas for `UnytProofs/C10Registry.lean`: the ordered dict, what `__init__`, `__getitem__`,
  `__setitem__` leave untouched, the per-object part of the registry invariant.
-/
import UnytModel.SystemRegistry

namespace Unyt
namespace C10

section dict
variable {α : Type}

theorem dfind?_dset_self (l : List (String × α)) (n : String) (v : α) : dfind? (dset l n v) n = some v := by
  induction l with
  | nil => simp [dset, dfind?]
  | cons p r ih =>
    obtain ⟨k, w⟩ := p
    by_cases h : k = n
    · simp [dset, dfind?, h]
    · simp [dset, dfind?, h, ih]

theorem dfind?_dset_ne (l : List (String × α)) (n m : String) (v : α) (h : m ≠ n) :
    dfind? (dset l n v) m = dfind? l m := by
  induction l with
  | nil => simp [dset, dfind?, Ne.symm h]
  | cons p r ih =>
    obtain ⟨k, w⟩ := p
    by_cases hk : k = n
    · subst hk
      simp [dset, dfind?, Ne.symm h]
    · by_cases hm : k = m
      · subst hm
        simp [dset, dfind?, h]
      · simp [dset, dfind?, hk, hm, ih]

theorem dfind?_mem (l : List (String × α)) (n : String) (v : α) (h : dfind? l n = some v) : (n, v) ∈ l := by
  induction l with
  | nil => simp [dfind?] at h
  | cons p r ih =>
    obtain ⟨k, w⟩ := p
    by_cases hk : k = n
    · subst hk
      simp [dfind?] at h
      subst h
      exact List.mem_cons_self ..
    · simp [dfind?, hk] at h
      exact List.mem_cons_of_mem _ (ih h)

end dict

section
variable {K : Type} [Mul K]

/-- an accepted construction: the object carries the constructor's name, its `base_units` are the
    validated `units_map` -/
theorem init_validated (pre : Prefixes K) (t0 : Lut K) (inv : List (String × String)) (reg : Option (Lut K))
    (name : String) (units : List (Option (UExpr K))) (S : USys K)
    (h : USys.init pre t0 inv reg name units = .ok S) :
    S.name = name ∧ S.um = baseDimsInit.zip units ∧ S.base = baseDimsInit.zip units ∧
      validateAll pre t0 inv reg S.base = .ok () := by
  simp only [USys.init] at h
  split at h
  · contradiction
  · split at h
    · contradiction
    · rename_i hv
      cases h
      exact ⟨rfl, rfl, rfl, hv⟩

end

section
variable {K : Type} [Mul K] [OfNat K 1] [RPow K]

/-- `__getitem__` writes `units_map` only -/
theorem getItem_frame (S S' : USys K) (d : Dim) (e : UExpr K) (h : S.getItem d = .ok (e, S')) :
    S'.name = S.name ∧ S'.base = S.base := by
  simp only [USys.getItem] at h
  split at h
  · cases h; exact ⟨rfl, rfl⟩
  · split at h
    · contradiction
    · cases h; exact ⟨rfl, rfl⟩

omit [Mul K] [OfNat K 1] [RPow K] in
/-- `__setitem__` writes `units_map` only -/
theorem setItem_frame (S S' : USys K) (d : Dim) (e : UExpr K) (h : S.setItem d e = .ok S') :
    S'.name = S.name ∧ S'.base = S.base := by
  simp only [USys.setItem] at h
  split at h
  · contradiction
  · cases h; exact ⟨rfl, rfl⟩

end

end C10
end Unyt
