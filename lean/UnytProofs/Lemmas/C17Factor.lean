/-
  Helper lemmas for `UnytProofs/C17Factor.lean`.
-/
namespace Unyt.C17FL

/-- a successful `List.lookup` exhibits a member of the association list -/
theorem mem_of_lookup {α β : Type} [BEq α] [LawfulBEq α] (t : List (α × β)) (a : α) (b : β)
    (h : t.lookup a = some b) : (a, b) ∈ t := by
  induction t with
  | nil => simp at h
  | cons p r ih =>
    obtain ⟨k, v⟩ := p
    rw [List.lookup_cons] at h
    split at h
    · rename_i heq
      have hk := eq_of_beq heq
      simp at h
      subst hk; subst h
      exact List.mem_cons_self
    · exact List.mem_cons_of_mem _ (ih h)

end Unyt.C17FL
