/-
  C03 — table obligations of the route agreement (`UnytProofs/C03Routes.lean`), decided in the
  kernel over the regenerated unit table and the regenerated `em_conversions`.
-/
import UnytModel.ConvRoutes

set_option maxRecDepth 1000000

namespace Unyt.C03
open Unyt

/-! ### the table obligations, over the regenerated unit table and `em_conversions` -/

/-- only temperature and angle rows of the regenerated unit table carry an offset -/
theorem table_offsets_wf : lutOffsetsWF = true := by decide +kernel

/-- every partner spelling (all rows × `""` and all SI prefixes) is a zero-offset unit of the
    partner dimension, which is neither temperature nor angle -/
theorem em_partners_offset_free : emPartnersOffsetFree = true := by decide +kernel

/-- both members of every EM pair have a zero offset in the unit table -/
theorem em_rows_zero_offset : emRowsZeroOffset = true := by decide +kernel

section
attribute [local instance] ratPowStub

/-- non-vacuity: 3 mC → statC takes the EM branch in the model over ℚ and both routes return the
    same number -/
example :
    (match mkUnit c10Pre c10Lut (UExpr.sym "mC"), mkUnit c10Pre c10Lut (UExpr.sym "statC") with
     | .ok u, .ok v =>
       (checkEmTo c10Pre c10Lut c10Em u v).toOption.join.isSome
       && (inUnitsEm c10Pre c10Lut c10Em u 3 v).toOption.isSome
       && (inUnitsEm c10Pre c10Lut c10Em u 3 v).toOption.map (·.1)
            == (convertToUnitsEm c10Pre c10Lut c10Em (3, u) v).toOption.map (·.1)
     | _, _ => false) = true := by decide +kernel

end

end Unyt.C03
