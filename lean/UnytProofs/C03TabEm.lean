/-
  C03 — the pairing / inverse obligations of the regenerated `em_conversions` table (the EM
  branch of the inverse law), decided in the kernel.  The Boolean checks are those of
  `UnytModel/SystemTables.lean`.
-/
import UnytModel.SystemTables

set_option maxRecDepth 1000000

namespace Unyt.C03
open Unyt

/-- `em_conversions` is a pairing: every row has a partner row that maps back to it (names and
    dimensions swapped), both names are prefixable rows of the unit table with the stated
    dimensions, and every prefixed partner spelling resolves to a unit of the partner dimension -/
theorem em_table_pairing : emTableOk = true := by decide +kernel

/-- the inverse law on the EM branch: the factors of a row and of its partner row multiply to 1
    within 2⁻⁵⁰ (they are stored as independently rounded doubles), so A → B → A returns the
    original numbers up to rounding -/
theorem em_factors_inverse : emFactorsInverseOk = true := by decide +kernel

end Unyt.C03
