/-
  C10 table obligation, chunk: system `imperial`, atomic rows part 3 of 3 (kernel-decided over the
  regenerated system, unit table and EM table; see `UnytProofs/C10.lean`).
-/
import UnytModel.SystemTables

namespace Unyt.C10

theorem tab_imperial_3 : systemClosedAtomicChunk "imperial" Ref.exclC10 2 = true := by decide +kernel

end Unyt.C10
