/-
  C10 numeric obligation (thorough tier): the crossing branch for every canonical SI prefix, chunk 4 of 4.
-/
import UnytModel.SystemTables

namespace Unyt.C10

theorem tab_pre_em_cross_4 : emCrossOk (canonicalPrefixChunk 3) = true := by decide +kernel

end Unyt.C10
