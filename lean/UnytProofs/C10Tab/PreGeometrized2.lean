/-
  C10 table obligation (thorough tier), chunk: system `geometrized`, SI-prefixed spellings of the
  prefixable units of electromagnetic dimension, prefixes part 2 of 2.
-/
import UnytModel.SystemTables

namespace Unyt.C10

theorem tab_pre_geometrized_2 :
    systemClosedPrefixedEm "geometrized" (prefixHalf 1) Ref.exclC10Prefixed Ref.okC10Prefixed = true := by decide +kernel

end Unyt.C10
