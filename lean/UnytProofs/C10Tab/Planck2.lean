/-
  C10 table obligation, chunk: system `planck`, atomic rows part 2 of 3 (kernel-decided over the
  regenerated system, unit table and EM table; see `UnytProofs/C10.lean`).
-/
import UnytModel.SystemTables

namespace Unyt.C10

theorem tab_planck_2 : systemClosedAtomicChunk "planck" Ref.exclC10 1 = true := by decide +kernel

end Unyt.C10
