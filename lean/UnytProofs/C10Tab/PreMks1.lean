/-
  C10 table obligation (thorough tier), chunk: system `mks`, SI-prefixed spellings of the
  prefixable units of electromagnetic dimension, prefixes part 1 of 2.
-/
import UnytModel.SystemTables

namespace Unyt.C10

theorem tab_pre_mks_1 :
    systemClosedPrefixedEm "mks" (prefixHalf 0) Ref.exclC10Prefixed Ref.okC10Prefixed = true := by decide +kernel

end Unyt.C10
