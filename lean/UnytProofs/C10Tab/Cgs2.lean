/-
  C10 table obligation, chunk: system `cgs`, atomic rows part 2 of 3 (kernel-decided over the
  regenerated system, unit table and EM table; see `UnytProofs/C10.lean`).
-/
import UnytModel.SystemTables

namespace Unyt.C10

theorem tab_cgs_2 : systemClosedAtomicChunk "cgs" Ref.exclC10 1 = true := by decide +kernel

end Unyt.C10
