/-
  C10 numeric obligation (thorough tier), system `imperial`: the EM-table units with the prefixes `m`, `da`.
-/
import UnytModel.SystemTables

namespace Unyt.C10

theorem tab_pre_emnum_imperial : emRouteNumbersSys "imperial" ["m", "da"] = true := by decide +kernel

end Unyt.C10
