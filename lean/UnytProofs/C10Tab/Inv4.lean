/-
  C10 table obligation (thorough tier), chunk 4 of 4: `inv_name_alternatives` maps every key of
  the regenerated unit table to itself (so what `UnitSystem.__init__` infers about a symbol is
  what `Unit(symbol)` resolves to).
-/
import UnytModel.SystemTables

namespace Unyt.C10

theorem tab_inv_4 : invIdOnKeysChunk 3 = true := by decide +kernel

end Unyt.C10
