/-
  C10 table obligation, chunk: system `mks`, atomic rows part 1 of 3 (kernel-decided over the
  regenerated system, unit table and EM table; see `UnytProofs/C10.lean`).
-/
import UnytModel.SystemTables

namespace Unyt.C10

theorem tab_mks_1 : systemClosedAtomicChunk "mks" Ref.exclC10 0 = true := by decide +kernel

end Unyt.C10
