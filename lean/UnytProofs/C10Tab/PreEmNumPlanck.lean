/-
  C10 numeric obligation (thorough tier), system `planck`: the EM-table units with the prefixes `m`, `da`.
-/
import UnytModel.SystemTables

namespace Unyt.C10

theorem tab_pre_emnum_planck : emRouteNumbersSys "planck" ["m", "da"] = true := by decide +kernel

end Unyt.C10
