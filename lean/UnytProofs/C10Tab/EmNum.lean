/-
  C10 numeric obligations on the electromagnetic route (kernel-decided at ℚ over the regenerated
  `em_conversions` and unit table): factor × partner factor = 1 within 2⁻⁵⁰, and the crossing branch
  multiplies by exactly the table's factor with the prefix carried consistently.
-/
import UnytModel.SystemTables

namespace Unyt.C10

theorem tab_em_factors_inverse : emFactorsInverseOk = true := by decide +kernel

theorem tab_em_cross : emCrossOk ["", "m", "k", "da", "μ"] = true := by decide +kernel

end Unyt.C10
