/-
  C10 numeric obligation (thorough tier), system `cgs`: the EM-table units with the prefixes `m`, `da`.
-/
import UnytModel.SystemTables

namespace Unyt.C10

theorem tab_pre_emnum_cgs : emRouteNumbersSys "cgs" ["m", "da"] = true := by decide +kernel

end Unyt.C10
