/-
  C10 numeric obligation, system `cgs`: `in_base` of every EM-table unit (reading 1) keeps the SI
  magnitude where the dimension is kept, applies exactly the table's factor where it crosses, and
  the number is a fixed point whenever the unit is.
-/
import UnytModel.SystemTables

namespace Unyt.C10

theorem tab_emnum_cgs : emRouteNumbersSys "cgs" [""] = true := by decide +kernel

end Unyt.C10
