/-
  C02 — every unit's scale and dimension agree with its definition.

  General theorems (any table, any field with lawful rational powers on its positive part):
  prefixed look-up = prefix × base; `Unit(expr)` computes the denotation of the expression;
  the denotation is a homomorphism for product, quotient and rational power and is invariant
  under sympy's canonicalisation; unit arithmetic keeps (scale, dimension) in sync with the
  expression; `.to()` multiplies by the ratio of scales.
  Table obligations (kernel-decided over the regenerated table at ℚ): every row lies in the
  class of its hand-written reference definition; the prefix table is the SI table.
-/
import UnytModel.Convert
import UnytModel.TableCheck
import UnytProofs.Lemmas.Denote

set_option linter.unusedSectionVars false

namespace Unyt.C02
open Unyt UExpr

variable {K : Type} [Lean.Grind.Field K] [RPow K] [BEq K] [LawfulBEq K]

/-- a prefixed name that is not itself a table key resolves to prefix × base scale, with the
    base unit's dimension and offset -/
theorem lookup_prefixed (pre : Prefixes K) (t : Lut K) (s p w : String)
    (hn : t.find? s = none) (h : splitPrefix pre t s = (p, w)) (hp : p ≠ "") :
    ∃ pv e, pre.find? p = some pv ∧ t.find? w = some e ∧ e.prefixable = true ∧
      resolve pre t s = some { scale := e.scale * pv, dim := e.dim, offset := e.offset, prefixable := false } := by
  obtain ⟨pv, e, hpv, he, hl⟩ := lookup_split pre t s p w hn h hp
  obtain ⟨_, _, e', he', hpre⟩ := splitPrefix_spec pre t s p w h hp
  rw [he] at he'; cases he'
  exact ⟨pv, e, hpv, he, hpre, by simp only [resolve, hl]⟩

/-- a table key resolves to its own row, whatever prefix reading it might also admit -/
theorem table_symbol_wins (pre : Prefixes K) (t : Lut K) (s : String) (e : Entry K)
    (h : t.find? s = some e) : resolve pre t s = some e := by
  simp only [resolve, lookupUnitSymbol, h]

/-- a look-up (with its write-back) never changes what any string resolves to -/
theorem lookup_is_transparent (pre : Prefixes K) (t t' : Lut K) (s : String) (d : Entry K)
    (h : lookupUnitSymbol pre t s = .ok (d, t')) (k : String) :
    resolve pre t' k = resolve pre t k :=
  resolve_set_derived pre t s d t' h k

/-- (scale, dimension) of a unit value agree with the denotation of its expression -/
def InSync (pre : Prefixes K) (t : Lut K) (u : UnitV K) : Prop :=
  denote pre t u.expr = some (u.scale, u.dim)

variable (P : K → Prop) (laws : RPowLaws (RPow.rpow (K := K)) P)
include laws

/-- the denotation is a homomorphism for products -/
theorem denote_mul (pre : Prefixes K) (t : Lut K) (a b : UExpr K) (va vb : K) (da db : Dim)
    (ha : denote pre t a = some (va, da)) (hb : denote pre t b = some (vb, db)) :
    denote pre t (a.mul b) = some (va * vb, da * db) := by
  simp only [denote] at ha hb ⊢
  simp only [UExpr.mul, denoteF_append]
  cases hfa : denoteF pre t a.factors with
  | none => simp [hfa] at ha
  | some x =>
    cases hfb : denoteF pre t b.factors with
    | none => simp [hfb] at hb
    | some y =>
      obtain ⟨xa, xd⟩ := x; obtain ⟨ya, yd⟩ := y
      simp only [hfa, hfb, Option.some.injEq, Prod.mk.injEq] at ha hb ⊢
      obtain ⟨rfl, rfl⟩ := ha; obtain ⟨rfl, rfl⟩ := hb
      exact ⟨by grind, rfl⟩

/-- … for rational powers (positive coefficient and scales) -/
theorem denote_pow (pre : Prefixes K) (t : Lut K) (a : UExpr K) (p : Rat) (va : K) (da : Dim)
    (hpos : AllPos P pre t a.factors) (hc : P a.coeff)
    (ha : denote pre t a = some (va, da)) :
    denote pre t (a.pow p) = some (RPow.rpow va p, da.pow p) := by
  simp only [denote] at ha ⊢
  obtain ⟨v, d, hv, hpv⟩ := denoteF_pos P laws pre t a.factors hpos
  simp only [UExpr.pow, denoteF_scaleF P laws pre t a.factors p hpos, hv] at ha ⊢
  simp only [Option.some.injEq, Prod.mk.injEq] at ha ⊢
  obtain ⟨rfl, rfl⟩ := ha
  exact ⟨(laws.mul_rpow p hc hpv).symm, rfl⟩

/-- … and invariant under canonicalisation of the expression (what sympy does on construction) -/
theorem denote_normalize (pre : Prefixes K) (t : Lut K) (a : UExpr K) (hpos : AllPos P pre t a.factors) :
    denote pre t a.normalize = denote pre t a := by
  simp only [denote, UExpr.normalize, denoteF_normF P laws pre t a.factors hpos]

/-- `Unit(expr, registry)` computes the denotation of the (canonicalised) expression for a
    compound; its table is changed only by transparent write-backs -/
theorem ofExpr_sound (pre : Prefixes K) (t t' : Lut K) (e : UExpr K) (u : UnitV K)
    (hpos : AllPos P pre t e.factors) (h : UnitV.ofExpr pre t e = .ok (u, t')) :
    (∀ k, resolve pre t' k = resolve pre t k) ∧
    (u.offset = 0 → denote pre t e = some (u.scale, u.dim) ∨
        ∃ s ent, normF e.factors = [(s, 1)] ∧ resolve pre t s = some ent ∧ u.scale = ent.scale ∧ u.dim = ent.dim) ∧
    (u.offset ≠ 0 → ∃ s ent, normF e.factors = [(s, 1)] ∧ e.coeff = 1 ∧ resolve pre t s = some ent ∧
        u.scale = ent.scale ∧ u.dim = ent.dim ∧ u.offset = ent.offset) := by
  simp only [UnitV.ofExpr] at h
  split at h
  · contradiction
  · rename_i v d t1 hev
    obtain ⟨hden, hres⟩ := evalFactors_denote pre (normF e.factors) t v d t1 hev
    have hnorm := denoteF_normF P laws pre t e.factors hpos
    have hcomp : denote pre t e = some (e.coeff * v, d) := by
      simp only [denote, ← hnorm, hden]
    split at h
    · rename_i s q hnf
      split at h
      · rename_i hq1
        split at h
        · rename_i ent hent
          cases h
          have hq : q = 1 ∧ e.coeff = 1 := by simpa using hq1
          obtain ⟨rfl, hc⟩ := hq
          have hr1 : resolve pre t' s = some ent := by simp only [resolve, lookupUnitSymbol, hent]
          have hr : resolve pre t s = some ent := (hres s) ▸ hr1
          refine ⟨hres, fun _ => Or.inr ⟨s, ent, hnf, hr, rfl, rfl⟩, fun _ => ⟨s, ent, hnf, hc, hr, rfl, rfl, rfl⟩⟩
        · contradiction
      · cases h; exact ⟨hres, fun _ => Or.inl hcomp, fun h0 => absurd rfl h0⟩
    · cases h; exact ⟨hres, fun _ => Or.inl hcomp, fun h0 => absurd rfl h0⟩

/-- unit multiplication keeps scale and dimension in sync with the expression: the three
    parallel representations never drift -/
theorem unit_mul_in_sync (pre : Prefixes K) (t : Lut K) (u v z : UnitV K)
    (su : InSync pre t u) (sv : InSync pre t v) (h : u.mul v = .ok z) : InSync pre t z := by
  simp only [UnitV.mul] at h
  split at h; · contradiction
  split at h; · contradiction
  split at h; · contradiction
  cases h
  exact denote_mul P laws pre t u.expr v.expr _ _ _ _ su sv

theorem unit_pow_in_sync (pre : Prefixes K) (t : Lut K) (u z : UnitV K) (p : Rat)
    (hpos : AllPos P pre t u.expr.factors) (hc : P u.expr.coeff)
    (su : InSync pre t u) (h : u.pow p = .ok z) : InSync pre t z := by
  simp only [UnitV.pow] at h
  split at h; · contradiction
  split at h; · contradiction
  cases h
  exact denote_pow P laws pre t u.expr p _ _ hpos hc su

omit laws in
/-- `x.to(u₂)` multiplies by `scale(u₁)/scale(u₂)` for zero-offset units -/
theorem to_is_ratio (pre : Prefixes K) (t : Lut K) (u v : UnitV K) (x : K)
    (hd : u.dim = v.dim) (hu : u.offset = 0) (hv : v.offset = 0) :
    inUnits pre t u x v = .ok (x * (u.scale / v.scale), v) := by
  have hde : (u.dim != v.dim) = false := by simp [hd]
  simp [inUnits, getConversionFactor, hde, hu, hv, applyFactor]

/-! ### kernel-decided obligations over the regenerated table -/

omit laws in
/-- every regenerated row (outside the literal exclusion list, each of which is a recorded
    finding) has a reference definition, lies within the tolerance class of that definition and
    has the reference dimension, offset and prefixability -/
theorem table_matches_definitions_partial : tableOk Ref.exclC02 = true := by decide +kernel

omit laws in
/-- the excluded rows really are outside their class: the full statement is false today, and
    an exclusion cannot outlive its finding -/
theorem table_exclusions_fail : Ref.exclC02.all (fun k => !rowOkByName k) = true := by decide +kernel

omit laws in
/-- the full-strength statement -/
def C02_table_full : Prop := tableOk [] = true

omit laws in
theorem C02_table_counterexample : ¬ C02_table_full := by
  unfold C02_table_full; decide +kernel

omit laws in
theorem prefix_table_is_SI : prefixesOk = true := by decide +kernel

omit laws in
/-- all regenerated scales are positive except `lat` (colatitude: negative by design), which
    discharges the positivity hypotheses of the power laws for the real table -/
theorem table_scales_positive :
    (defaultLut Rat).all (fun (k, e) => k == "lat" || decide (0 < e.scale)) = true := by decide +kernel

end Unyt.C02
