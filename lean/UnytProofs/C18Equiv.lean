/-
  C18 — concrete witnesses of the `convert_to_equivalent` theorems on the REGENERATED equivalence
  table (kernel-decided; a module of its own so that it builds in parallel with `UnytProofs/C18.lean`).
-/
import UnytProofs.C18
import UnytModel.Generated.EquivFormulas

namespace Unyt.C18
open Unyt Unyt.Effects Unyt.Ufunc

/-- the variant of the conversion code the live source has (regenerated flags) -/
def liveFlagsW : CtuFlags := ⟨Generated.C18.ctuUnitsLast, Generated.C18.ctuReadonlyGuard, Generated.C18.outReadonlyGuard⟩

/-- witnesses for `convert_to_equivalent`: `unyt_array([25., 26.], 'K*cm/angstrom')` to joule through
    `thermal` on the regenerated equivalence table -/
def dEnergy : Dim := ⟨1, 2, -2, 0, 0, 0, 0, 0⟩
def kCmPerA : UnitV Rat := ⟨⟨1, [("K", 1), ("cm", 1), ("angstrom", -1)]⟩, 100000000, 0, Dim.dTemperature, true⟩
def jouleW : UnitV Rat := ⟨UExpr.sym "J", 1, 0, dEnergy, true⟩
def cteCallW (re : Bool) (depth : Nat) : EquivCall Rat :=
  { convUnit := .ok jouleW, name := "thermal", selfCoeff := 100000000, depth := depth, reenters := re }

/-- with the post-multiplication on the raw buffer (the regenerated flag of the current source) the
    same call returns and has relabelled the array to joule, name cleared -/
theorem convert_to_equivalent_raw_returns :
    let r := runSteps (convertToEquivalentSteps liveFlagsW Generated.liveNumpy Generated.liveRules [] [] []
        Generated.equivalences ⟨kCmPerA, ⟨.f, 8⟩, true⟩ (cteCallW Generated.C18.fixupReenters 7))
    r.err? = none
      ∧ (applyAll (fun _ x => x) 0 ⟨25, kCmPerA, ⟨.f, 8⟩, true, true⟩ r.effects).unit.dim = dEnergy
      ∧ (applyAll (fun _ x => x) 0 ⟨25, kCmPerA, ⟨.f, 8⟩, true, true⟩ r.effects).named = false := by
  decide +kernel

/-- the guard of the partial theorem holds on the current source for every float array: a failing
    `convert_to_equivalent` (here: 25 °C through `thermal`, refused by the unit rule) has done nothing -/
def cteCallC : EquivCall Rat :=
  { convUnit := .ok jouleW, name := "thermal", selfCoeff := 1, reenters := Generated.C18.fixupReenters }

example :
    cteGuard liveFlagsW Generated.liveNumpy Generated.liveRules ⟨degCW.v, ⟨.f, 8⟩, true⟩ cteCallC = true
    ∧ (runSteps (convertToEquivalentSteps liveFlagsW Generated.liveNumpy Generated.liveRules [] [] [] Generated.equivalences
        ⟨degCW.v, ⟨.f, 8⟩, true⟩ cteCallC)).err? = some .InvalidUnitOperation := by
  decide +kernel

end Unyt.C18
