/-
  C03 — conversion histories: what a conversion returns depends only on (numbers, current unit,
  target), never on the conversions made before, on the same object or on temporaries; a chain
  of in-place conversions collapses to the one-shot conversion.

  The theorems are about `runHist`/`stepHist` (`UnytModel/ConvHistory.lean`), the definitions the
  driver opcode `c03.hist` executes and the harness compares with unyt call by call.  An
  implementation whose outputs depend on earlier calls (a memo of conversion factors keyed by
  something coarser than the data the factor depends on) cannot correspond to this model.
-/
import UnytProofs.Lemmas.C03History

set_option linter.unusedSectionVars false

namespace Unyt.C03
open Unyt

variable {K : Type} [Lean.Grind.Field K] [BEq K] [LawfulBEq K] [RPow K]

/-- calls on temporaries never touch the long-lived object, and what they return is the
    one-shot conversion — whatever the state -/
theorem temp_step_stateless (pre : Prefixes K) (t : Lut K) (T : EmTable K) (st : K × UnitV K) (x : K) (u tg : UnitV K) :
    stepHist pre t T st (.temp x u tg) = (st, toValue pre t u x tg)
    ∧ stepHist pre t T st (.tempConvert x u tg) = (st, toValue pre t u x tg) := by
  refine ⟨rfl, ?_⟩
  simp only [stepHist, toValue, (routes_agree pre t u tg x).1]

/-- history independence: after ANY history `ops` from ANY start state, a conversion of a
    temporary returns exactly what it returns as the first call of a fresh process, on both the
    copying and the in-place route -/
theorem hist_temp_independent (pre : Prefixes K) (t : Lut K) (T : EmTable K) (st : K × UnitV K)
    (ops : List (HOp K)) (x : K) (u tg : UnitV K) :
    (runHist pre t T st (ops ++ [.temp x u tg])).2 = (runHist pre t T st ops).2 ++ [toValue pre t u x tg]
    ∧ (runHist pre t T st (ops ++ [.tempConvert x u tg])).2 = (runHist pre t T st ops).2 ++ [toValue pre t u x tg]
    ∧ (runHist pre t T st (ops ++ [.temp x u tg])).1 = (runHist pre t T st ops).1 := by
  simp only [runHist_append, runHist, (temp_step_stateless pre t T _ x u tg).1,
    (temp_step_stateless pre t T _ x u tg).2, and_self]

/-- the same for the base-system routes on temporaries (`in_base`/`in_cgs`/`in_mks` and their
    in-place twins, EM branch included): after ANY history the call returns what `inBase` /
    `convertToBase` return for (numbers, unit, system) alone, and the object is left untouched -/
theorem hist_base_temp_independent (pre : Prefixes K) (t : Lut K) (T : EmTable K) (st : K × UnitV K)
    (ops : List (HOp K)) (S : USys K) (x : K) (u : UnitV K) :
    (runHist pre t T st (ops ++ [.tempBase S x u])).2
        = (runHist pre t T st ops).2 ++ [(inBase pre t T S u x).map (·.1)]
    ∧ (runHist pre t T st (ops ++ [.tempConvertBase S x u])).2
        = (runHist pre t T st ops).2 ++ [(convertToBase pre t T S (x, u)).map (·.1)]
    ∧ (runHist pre t T st (ops ++ [.tempBase S x u])).1 = (runHist pre t T st ops).1
    ∧ (runHist pre t T st (ops ++ [.tempConvertBase S x u])).1 = (runHist pre t T st ops).1 := by
  simp only [runHist_append, runHist, stepHist, and_self]

/-- a copy-route call on the object returns the one-shot conversion of its current state and
    leaves it untouched, whatever happened before -/
theorem hist_peek_current (pre : Prefixes K) (t : Lut K) (T : EmTable K) (st : K × UnitV K)
    (ops : List (HOp K)) (tg : UnitV K) :
    runHist pre t T st (ops ++ [.peek tg])
      = ((runHist pre t T st ops).1,
         (runHist pre t T st ops).2 ++ [toValue pre t (runHist pre t T st ops).1.2 (runHist pre t T st ops).1.1 tg]) := by
  simp only [runHist_append, runHist, stepHist]

/-- invariant of every history whose in-place targets are commensurable with the object and
    have a non-zero scale: the object's dimension and the SI magnitude it denotes never change
    (induction over the history) -/
theorem hist_base_invariant (pre : Prefixes K) (t : Lut K) (T : EmTable K) (ops : List (HOp K)) (st : K × UnitV K)
    (h : ∀ tg ∈ convertTargets ops, tg.dim = st.2.dim ∧ tg.scale ≠ 0) :
    (runHist pre t T st ops).1.2.dim = st.2.dim
    ∧ siMagnitude pre t (runHist pre t T st ops).1 = siMagnitude pre t st := by
  induction ops generalizing st with
  | nil => exact ⟨rfl, rfl⟩
  | cons op ops ih =>
    cases op with
    | convert tg =>
      have htg := h tg (by simp [convertTargets])
      obtain ⟨v, hv, hb⟩ := convertToUnits_ok pre t st tg htg.1.symm htg.2
      have ih' := ih (v, tg) (fun tg' hm => by
        have := h tg' (by simp [convertTargets, hm])
        exact ⟨by rw [this.1, htg.1], this.2⟩)
      simp only [runHist, stepHist, hv]
      exact ⟨by rw [ih'.1]; exact htg.1, by rw [ih'.2, hb]⟩
    | peek tg => simpa [runHist, stepHist, convertTargets] using ih st (by simpa [convertTargets] using h)
    | temp x u tg => simpa [runHist, stepHist, convertTargets] using ih st (by simpa [convertTargets] using h)
    | tempConvert x u tg => simpa [runHist, stepHist, convertTargets] using ih st (by simpa [convertTargets] using h)
    | peekBase S => simpa [runHist, stepHist, convertTargets] using ih st (by simpa [convertTargets] using h)
    | tempBase S x u => simpa [runHist, stepHist, convertTargets] using ih st (by simpa [convertTargets] using h)
    | tempConvertBase S x u => simpa [runHist, stepHist, convertTargets] using ih st (by simpa [convertTargets] using h)

/-- composition over whole histories: after any such history, converting the object to `tg`
    gives the numbers the ORIGINAL object gives when converted to `tg` in one step -/
theorem hist_collapse (pre : Prefixes K) (t : Lut K) (T : EmTable K) (ops : List (HOp K)) (st : K × UnitV K) (tg : UnitV K)
    (h : ∀ u ∈ convertTargets ops, u.dim = st.2.dim ∧ u.scale ≠ 0)
    (hd : tg.dim = st.2.dim) (hs : tg.scale ≠ 0) :
    toValue pre t (runHist pre t T st ops).1.2 (runHist pre t T st ops).1.1 tg = toValue pre t st.2 st.1 tg := by
  obtain ⟨hdim, hbase⟩ := hist_base_invariant pre t T ops st h
  generalize runHist pre t T st ops = r at hdim hbase
  obtain ⟨st', _⟩ := r
  obtain ⟨v1, hv1, hb1⟩ := convertToUnits_ok pre t st' tg (by rw [hd]; exact hdim) hs
  obtain ⟨v2, hv2, hb2⟩ := convertToUnits_ok pre t st tg hd.symm hs
  have e1 : convertToUnits pre t st' tg = inUnits pre t st'.2 st'.1 tg := (routes_agree pre t st'.2 tg st'.1).1
  have e2 : convertToUnits pre t st tg = inUnits pre t st.2 st.1 tg := (routes_agree pre t st.2 tg st.1).1
  simp only [toValue, ← e1, ← e2, hv1, hv2, Except.map]
  have : siMagnitude pre t (v1, tg) = siMagnitude pre t (v2, tg) := by rw [hb1, hb2, hbase]
  simp only [siMagnitude, toBase] at this
  congr 1
  grind

@[instance_reducible] private def ratPowNone : RPow Rat := ⟨fun x _ => x⟩
attribute [local instance] ratPowNone in
/-- non-vacuity over ℚ: 25 °C → K → °F in place, then a Kelvin temporary read in °F -/
example :
    let degC : UnitV Rat := ⟨⟨1, [("degC", 1)]⟩, 1, -27315/100, Dim.dTemperature, true⟩
    let kel : UnitV Rat := ⟨⟨1, [("K", 1)]⟩, 1, 0, Dim.dTemperature, true⟩
    let degF : UnitV Rat := ⟨⟨1, [("degF", 1)]⟩, 5/9, -45967/100, Dim.dTemperature, true⟩
    (runHist [] [] [] ((25 : Rat), degC) [.convert kel, .convert degF, .temp (29315/100) kel degF]).2.map Except.toOption
      = [some (29815/100), some 77, some 68] := by decide +kernel

end Unyt.C03
