/-
  C10 — unit-system base conversion stays inside the system and preserves the quantity.

  General theorems (every well-formed unit system over any unit table, any field with lawful
  rational powers on its positive part): the unit synthesised for a dimension has that dimension
  and only base-unit symbols; memoisation in `units_map` is transparent; `in_base` agrees with
  `get_base_equivalent` on every route; for dimensions outside the EM table `in_base` stays inside
  the system, preserves the SI magnitude and is idempotent; `UnitSystem.__init__` rejects
  inconsistent base units and a system it accepts is well-formed.
  Table obligations (kernel-decided over the regenerated systems, unit table and EM table at ℚ,
  chunked in `UnytProofs/C10Tab/*`): closure of every built-in system over every atomic unit,
  outside a literal exclusion list each entry of which is shown to fail (the EM route of unyt leaves
  the system: findings `<system>|<unit>`); memoised entries are syntheses; entries have their
  dimension; the EM table is a pairing.
-/
import UnytModel.SystemTables
import UnytProofs.Lemmas.C10
import UnytProofs.Lemmas.C10Tab
import UnytProofs.C10Tab.EmNum
import UnytProofs.C10Tab.EmNumCgs
import UnytProofs.C10Tab.EmNumMks
import UnytProofs.C10Tab.EmNumImperial
import UnytProofs.C10Tab.EmNumGalactic
import UnytProofs.C10Tab.EmNumSolar
import UnytProofs.C10Tab.EmNumGeometrized
import UnytProofs.C10Tab.EmNumPlanck
import UnytProofs.C10Tab.Cgs1
import UnytProofs.C10Tab.Cgs2
import UnytProofs.C10Tab.Cgs3
import UnytProofs.C10Tab.Mks1
import UnytProofs.C10Tab.Mks2
import UnytProofs.C10Tab.Mks3
import UnytProofs.C10Tab.Imperial1
import UnytProofs.C10Tab.Imperial2
import UnytProofs.C10Tab.Imperial3
import UnytProofs.C10Tab.Galactic1
import UnytProofs.C10Tab.Galactic2
import UnytProofs.C10Tab.Galactic3
import UnytProofs.C10Tab.Solar1
import UnytProofs.C10Tab.Solar2
import UnytProofs.C10Tab.Solar3
import UnytProofs.C10Tab.Geometrized1
import UnytProofs.C10Tab.Geometrized2
import UnytProofs.C10Tab.Geometrized3
import UnytProofs.C10Tab.Planck1
import UnytProofs.C10Tab.Planck2
import UnytProofs.C10Tab.Planck3

set_option linter.unusedSectionVars false

namespace Unyt.C10
open Unyt UExpr

/-! ## table obligations -/

/-- the systems the obligations below range over are exactly the regenerated registry -/
theorem builtin_system_names :
    Generated.rawSystems.map (·.name) = ["cgs", "mks", "imperial", "galactic", "solar", "geometrized", "planck"] := by
  decide +kernel

/-- **closure over the built-in systems** (P-tab): for every regenerated system and every atomic
    unit of the regenerated unit table outside the literal exclusion list, the model's `in_base`
    either raises `UnitsNotReducible` or returns a unit whose atoms are base units / declared
    units of the system, of the same dimension or its EM counterpart, which `in_base` maps to itself -/
theorem builtin_systems_closed_partial :
    (Generated.rawSystems.map (·.name)).all (fun s => systemClosedAtomic s Ref.exclC10) = true := by
  rw [builtin_system_names]
  simp only [List.all_cons, List.all_nil, Bool.and_true, Bool.and_eq_true]
  exact ⟨systemClosedAtomic_of_chunks _ _ tab_cgs_1 tab_cgs_2 tab_cgs_3,
    systemClosedAtomic_of_chunks _ _ tab_mks_1 tab_mks_2 tab_mks_3,
    systemClosedAtomic_of_chunks _ _ tab_imperial_1 tab_imperial_2 tab_imperial_3,
    systemClosedAtomic_of_chunks _ _ tab_galactic_1 tab_galactic_2 tab_galactic_3,
    systemClosedAtomic_of_chunks _ _ tab_solar_1 tab_solar_2 tab_solar_3,
    systemClosedAtomic_of_chunks _ _ tab_geometrized_1 tab_geometrized_2 tab_geometrized_3,
    systemClosedAtomic_of_chunks _ _ tab_planck_1 tab_planck_2 tab_planck_3⟩

/-- the table obligation without exclusions (the table-level face of `C10_full` below) -/
def C10_table_full : Prop :=
  (Generated.rawSystems.map (·.name)).all (fun s => systemClosedAtomic s []) = true

/-- every excluded row really fails: the full statement is false today and an exclusion cannot
    outlive its finding -/
theorem builtin_exclusions_fail : exclusionsFailAtomic Ref.exclC10 = true := by decide +kernel

/-- witness: `statV.in_base("cgs")` is `V` — outside cgs — and `V.in_base("cgs")` is `statV` again -/
theorem C10_counterexample_row :
    (rawSystem? "cgs").map (fun r => (rowVerdict r "statV", rowVerdict r "V")) = some (.outside, .outside) := by
  decide +kernel

/-- every excluded class of prefixed spellings has a failing member (`m` + unit) -/
theorem builtin_prefixed_exclusions_fail : exclusionsFailPrefixed ["m"] Ref.exclC10Prefixed = true := by
  decide +kernel

/-- memoised entries of the regenerated `units_map`s are exactly what synthesis from the base
    units gives, base entries are the `base_units` copy -/
theorem builtin_memo_entries_are_synthesis : Generated.rawSystems.all memoEntriesOk = true := by decide +kernel

/-- every base and declared unit of a regenerated system has the dimension it is filed under -/
theorem builtin_entries_have_their_dimension : Generated.rawSystems.all entriesDimOk = true := by decide +kernel

theorem builtin_base_keys_complete : Generated.rawSystems.all baseKeysOk = true := by decide +kernel

/-- the regenerated EM table is a pairing of prefixable table units of the stated dimensions -/
theorem em_table_is_a_pairing : emTableOk = true := by decide +kernel

/-- **numbers on the EM route, 1**: the factor of every `em_conversions` row times the factor of
    its partner row is 1 within 2⁻⁵⁰ — crossing over and back returns the original numbers -/
theorem em_factors_inverse : emFactorsInverseOk = true := tab_em_factors_inverse

/-- **numbers on the EM route, 2**: the crossing branch of `_em_conversion` multiplies by exactly
    the table's factor (no offset) and lands on `prefix + partner`, the prefix scaling both units
    alike (bare units and the prefixes `m`, `k`, `da`, `μ`; every canonical prefix in `C10Pre`) -/
theorem em_cross_route_numbers : emCrossOk ["", "m", "k", "da", "μ"] = true := tab_em_cross

/-- **numbers on the EM route, 3**: for every built-in system and every EM-table unit, `in_base`
    keeps the SI magnitude where it keeps the dimension, applies exactly the table's factor where
    it crosses, and reproduces the number whenever it reproduces the unit -/
theorem em_route_numbers :
    (["cgs", "mks", "imperial", "galactic", "solar", "geometrized", "planck"].all fun s =>
      emRouteNumbersSys s [""]) = true := by
  simp only [List.all_cons, List.all_nil, Bool.and_true, Bool.and_eq_true]
  exact ⟨tab_emnum_cgs, tab_emnum_mks, tab_emnum_imperial, tab_emnum_galactic, tab_emnum_solar,
    tab_emnum_geometrized, tab_emnum_planck⟩

/-- the full statement is false on the current tree: `statV.in_base("cgs")` leaves cgs -/
theorem C10_table_counterexample : ¬ C10_table_full := by
  intro h
  have hc : systemClosedAtomic "cgs" [] = true := by
    unfold C10_table_full at h; rw [builtin_system_names] at h
    simp only [List.all_cons, Bool.and_eq_true] at h; exact h.1
  have hbad : (match rawSystem? "cgs" with | some r => rowOkC10 r "statV" | none => true) = false := by
    decide +kernel
  have hmem : "statV" ∈ atomicNames := by decide +kernel
  unfold systemClosedAtomic at hc
  cases hr : rawSystem? "cgs" with
  | none => simp [hr] at hc
  | some r =>
    simp only [hr] at hc hbad
    have := List.all_eq_true.mp hc "statV" hmem
    simp [hbad] at this

/-- no key of the regenerated unit table reads as SI prefix + prefixable unit (half of the
    hypothesis `NamesAgree` of `user_system_usable`; the other half is decided in `C10Pre`) -/
theorem builtin_table_keys_unsplit : keysUnsplitOk = true := by decide +kernel

section examples
attribute [local instance] ratPowStub

/-- non-vacuity of the `in_base` theorems: 5/2 km in mks is 2500 m, its dimension is not an EM
    dimension, and converting the result again returns it unchanged -/
example :
    (match findSystem Rat "mks", mkUnit c10Pre c10Lut (UExpr.sym "km") with
     | some S, .ok u =>
       match inBase c10Pre c10Lut c10Em S u (5 / 2) with
       | .ok (y, v) => (y == 2500 && v.expr.factors == [("m", 1)] && !c10Em.hasDim u.dim && decide (v.scale ≠ 0)
           && (match inBase c10Pre c10Lut c10Em S v y with | .ok (y', v') => y' == y && v'.expr.factors == v.expr.factors | _ => false))
       | _ => false
     | _, _ => false) = true := by decide +kernel

/-- `UnitSystem("bad", "s", "kg", "s")` is rejected with `IllDefinedUnitSystem`;
    `UnitSystem("ok", "km", "g", "yr")` is accepted -/
example :
    ((USys.init c10Pre c10Lut Generated.invNames none "bad"
        ([UExpr.sym "s", UExpr.sym "kg", UExpr.sym "s", UExpr.sym "K", UExpr.sym "rad", UExpr.sym "A", UExpr.sym "cd", UExpr.sym "Np"].map some)).toOption.isNone
     && (USys.init c10Pre c10Lut Generated.invNames none "ok"
        ([UExpr.sym "km", UExpr.sym "g", UExpr.sym "yr", UExpr.sym "K", UExpr.sym "rad", UExpr.sym "A", UExpr.sym "cd", UExpr.sym "Np"].map some)).toOption.isSome) = true := by
  decide +kernel

/-- non-vacuity of `synth_scale` for coefficient-carrying base units: with `2 m`, `3 kg`, `5 s` the
    unit synthesised for density is `(3 kg)·(2 m)⁻³ = 3/8 kg/m³`, for frequency `1/5 s⁻¹` -/
example :
    (let um : UMap Rat := baseDimsInit.zip
        ([⟨2, [("m", 1)]⟩, ⟨3, [("kg", 1)]⟩, ⟨5, [("s", 1)]⟩, UExpr.sym "K", UExpr.sym "rad", UExpr.sym "A",
          UExpr.sym "cd", UExpr.sym "Np"].map some)
     let e := synth um { mass := 1, length := -3 }
     let f := synth um { time := -1 }
     e.coeff == 3 / 8 && UExpr.normF e.factors == [("kg", 1), ("m", -3)]
       && f.coeff == 1 / 5 && UExpr.normF f.factors == [("s", -1)]) = true := by decide +kernel

/-- non-vacuity of `inBase_resolves_in_quantity_registry`: `6 kg` into galactic, once in the default
    table and once in a table where `Msun` is re-valued (`registry.modify("Msun", 2)`): the hypotheses
    hold, both results carry the expression `Msun`; the first has the default scale of `Msun`, the
    second has scale 2 (≠ the default), and each number times ITS scale is the SI magnitude of `6 kg` —
    the one system has no say in the value -/
example :
    (let t' : Lut Rat := Lut.set c10Lut "Msun" { scale := 2, dim := Dim.dMass, offset := 0, prefixable := false }
     match findSystem Rat "galactic", mkUnit c10Pre c10Lut (UExpr.sym "kg"), mkUnit c10Pre t' (UExpr.sym "kg"),
       c10Lut.find? "Msun" with
     | some S, .ok u, .ok u', some ms =>
       u'.dim == u.dim && !umMatches S u && !umMatches S u'
       && (match checkEm c10Pre c10Lut c10Em S u, checkEm c10Pre t' c10Em S u' with | .ok none, .ok none => true | _, _ => false)
       && (match inBase c10Pre c10Lut c10Em S u 6, inBase c10Pre t' c10Em S u' 6 with
           | .ok (y, v), .ok (y', v') =>
             v.expr.factors == [("Msun", 1)] && v'.expr.factors == [("Msun", 1)]
               && v.scale == ms.scale && y * ms.scale == 6 * u.scale
               && v'.scale == 2 && y' * 2 == 6 * u'.scale && ms.scale != 2
           | _, _ => false)
     | _, _, _, _ => false) = true := by decide +kernel

end examples

/-! ## general theorems -/

section general
variable {K : Type} [Lean.Grind.Field K] [RPow K] [BEq K] [LawfulBEq K]
variable (P : K → Prop) (laws : RPowLaws (RPow.rpow (K := K)) P)

/-- a well-formed unit system relative to a unit table: every unit filed in `units_map` is a unit
    of the dimension it is filed under (positive scales, positive coefficient), and every base
    dimension except possibly `current_mks` has a unit -/
structure WF (pre : Prefixes K) (t : Lut K) (S : USys K) : Prop where
  entries : ∀ d e, S.um.get? d = some e → ExprOK P pre t e d
  base : S.BaseComplete

/-- a symbol the system owns: it occurs in a unit filed in `units_map` -/
def Owned (S : USys K) (s : String) : Prop := ∃ d b, S.um.get? d = some b ∧ expOf b.factors s ≠ 0

include laws

/-- **synth_dimension**: in a well-formed system the unit synthesised for dimension `d` denotes
    dimension `d` (with positive scale) -/
theorem synth_dimension (pre : Prefixes K) (t : Lut K) (S : USys K) (hS : WF P pre t S) (d : Dim)
    (hc : d.hasCurrent = true → S.hasCurrent = true) : ExprOK P pre t (synth S.um d) d := by
  have := synthOver_ok P laws pre t S.um d baseDimsSympy (by
    intro p hp h0
    have hmem := baseDimsSympy_mem_init p hp
    by_cases hcur : p.1 = Dim.dCurrent
    · have hproj : p.2 d = d.current := by
        simp only [baseDimsSympy, List.mem_cons, List.not_mem_nil, or_false] at hp
        rcases hp with h | h | h | h | h | h | h | h <;> subst h <;> first | rfl | (exact absurd hcur (by decide))
      have hd : d.hasCurrent = true := by
        simp only [Dim.hasCurrent, bne_iff_ne, ne_eq]; rw [← hproj]; exact h0
      have hs := hc hd
      simp only [USys.hasCurrent, Option.isSome_iff_exists] at hs
      obtain ⟨b, hb⟩ := hs
      rw [hcur]
      exact ⟨b, hb, hS.entries _ b hb⟩
    · have hs := hS.base p.1 hmem hcur
      simp only [Option.isSome_iff_exists] at hs
      obtain ⟨b, hb⟩ := hs
      exact ⟨b, hb, hS.entries _ b hb⟩)
  simp only [synth]
  rw [dimOver_base] at this
  exact this

/-- the SI scale of the unit a system files under a base dimension: coefficient × scale of its
    symbols (a base unit may be a quantity such as `3*Mpc`) -/
def baseScale (pre : Prefixes K) (t : Lut K) (S : USys K) (bd : Dim) : K :=
  match S.um.get? bd with
  | some b => (match denote pre t b with | some (s, _) => s | none => 1)
  | none => 1

/-- **synth_scale**: the unit synthesised for `d` IS the product of the system's base units to the
    exponents of `d`, coefficients included: its expression denotes scale `Π scale(baseᵢ)^eᵢ` and
    dimension `d` — for every well-formed system, also one whose base units carry coefficients -/
theorem synth_scale (pre : Prefixes K) (t : Lut K) (S : USys K) (hS : WF P pre t S) (d : Dim)
    (hc : d.hasCurrent = true → S.hasCurrent = true) :
    denote pre t (synth S.um d) = some (scaleOver (baseScale pre t S) d baseDimsSympy, d) := by
  have := synthOver_denS P laws pre t S.um (baseScale pre t S) d baseDimsSympy (by
    intro p hp h0
    have hmem := baseDimsSympy_mem_init p hp
    have hsome : ∃ b, S.um.get? p.1 = some b := by
      by_cases hcur : p.1 = Dim.dCurrent
      · have hproj : p.2 d = d.current := by
          simp only [baseDimsSympy, List.mem_cons, List.not_mem_nil, or_false] at hp
          rcases hp with h | h | h | h | h | h | h | h <;> subst h <;> first | rfl | (exact absurd hcur (by decide))
        have hd : d.hasCurrent = true := by
          simp only [Dim.hasCurrent, bne_iff_ne, ne_eq]; rw [← hproj]; exact h0
        have hs := hc hd
        simp only [USys.hasCurrent, Option.isSome_iff_exists] at hs
        rw [hcur]; exact hs
      · have hs := hS.base p.1 hmem hcur
        simpa only [Option.isSome_iff_exists] using hs
    obtain ⟨b, hb⟩ := hsome
    obtain ⟨s, hden, hdn⟩ := denS_of_exprOK P laws pre t b p.1 (hS.entries _ b hb)
    refine ⟨b, hb, ?_⟩
    have : baseScale pre t S p.1 = s := by simp only [baseScale, hb, hdn]
    rw [this]; exact hden)
  obtain ⟨_, _, v, hv, _, hsv⟩ := this
  simp only [synth, denote, hv, hsv, dimOver_base]

omit laws in
/-- **synth_atoms**: every symbol of a synthesised unit is a symbol of a base unit -/
theorem synth_atoms (S : USys K) (d : Dim) (s : String) (h : expOf (synth S.um d).factors s ≠ 0) :
    ∃ bd, bd ∈ baseDimsInit ∧ ∃ b, S.um.get? bd = some b ∧ expOf b.factors s ≠ 0 := by
  obtain ⟨p, hp, b, hb, he⟩ := synthOver_atoms S.um d baseDimsSympy s h
  exact ⟨p.1, baseDimsSympy_mem_init p hp, b, hb, he⟩

/-- what `unit_system[d]` answers is a unit of dimension `d` made of symbols the system owns -/
theorem lookup_sound (pre : Prefixes K) (t : Lut K) (S : USys K) (hS : WF P pre t S) (d : Dim) (e : UExpr K)
    (h : S.lookup d = .ok e) : ExprOK P pre t e d ∧ ∀ s, expOf e.factors s ≠ 0 → Owned S s := by
  simp only [USys.lookup] at h
  split at h
  · rename_i e' he; cases h
    exact ⟨hS.entries d _ he, fun s hs => ⟨d, _, he, hs⟩⟩
  · split at h
    · contradiction
    · rename_i hc; cases h
      refine ⟨synth_dimension P laws pre t S hS d ?_, fun s hs => ?_⟩
      · intro hd; cases hcur : S.hasCurrent <;> simp [hd, hcur] at hc ⊢
      · obtain ⟨bd, _, b, hb, he⟩ := synth_atoms S d s hs
        exact ⟨bd, b, hb, he⟩

/-- **memo_transparent**: the growth of `units_map` by `__getitem__` never changes what the system
    answers, for the memoised key or any other, and keeps the system well-formed -/
theorem memo_transparent (pre : Prefixes K) (t : Lut K) (S : USys K) (hS : WF P pre t S) (k : Dim)
    (e : UExpr K) (S' : USys K) (h : S.getItem k = .ok (e, S')) :
    S.lookup k = .ok e ∧ (∀ k', S'.lookup k' = S.lookup k') ∧ WF P pre t S' := by
  obtain ⟨hB', _, hl⟩ := USys.getItem_transparent S hS.base k e S' h
  refine ⟨USys.getItem_fst S k e S' h, hl, ⟨?_, hB'⟩⟩
  intro d b hb
  rcases USys.getItem_um S k e S' h with ⟨rfl, _⟩ | ⟨hn, hc, he, rfl⟩
  · exact hS.entries d b hb
  · simp only [UMap.get?_set] at hb
    by_cases hd : d = k
    · subst hd
      simp only [if_true, Option.some.injEq] at hb
      subst hb; rw [he]
      exact (lookup_sound P laws pre t S hS d _ (he ▸ USys.getItem_fst S d e _ h)).1
    · simp only [hd, if_false] at hb
      exact hS.entries d b hb

omit laws in
/-- … and so does any sequence of look-ups (a history of conversions only ever memoises) -/
theorem memo_history_transparent (S : USys K) (hB : S.BaseComplete) (ks : List Dim) (k' : Dim) :
    (S.memoAll ks).lookup k' = S.lookup k' :=
  (USys.memoAll_transparent ks S hB).2 k'

/-! ### `in_base`, `get_base_equivalent` -/
section inbase
variable (pre : Prefixes K) (t : Lut K) (T : EmTable K)

omit laws in
/-- **in_base agrees with get_base_equivalent** on every route (plain, EM, short-cut): the unit a
    converted quantity carries is the unit `get_base_equivalent` returns -/
theorem inBase_agrees_getBaseEquivalent (S : USys K) (u v : UnitV K) (x y : K)
    (h : inBase pre t T S u x = .ok (y, v)) : getBaseEquivalent pre t T S u = .ok v := by
  simp only [inBase] at h
  cases hc : checkEm pre t T S u with
  | error e => rw [hc] at h; cases e <;> simp at h
  | ok cd =>
    rw [hc] at h
    cases cd with
    | none =>
      simp only [] at h
      split at h
      · contradiction
      · rename_i toUnits hg
        split at h
        · contradiction
        · cases h; exact hg
    | some m =>
      simp only [] at h
      simp only [getBaseEquivalent, hc]
      cases hm : umMatches S u
      · simp only [hm, Bool.false_eq_true, if_false] at h ⊢
        cases he : emConversion pre t m with
        | error e => simp [he] at h
        | ok r =>
          obtain ⟨toUnits, f⟩ := r
          simp only [he, Except.ok.injEq, Prod.mk.injEq] at h ⊢
          exact h.2
      · simp only [hm, if_true, Except.ok.injEq, Prod.mk.injEq] at h ⊢
        exact h.2

omit laws in
/-- … and `in_base` refuses exactly when `get_base_equivalent` refuses with `UnitsNotReducible` -/
theorem inBase_refuses_with_getBaseEquivalent (S : USys K) (u : UnitV K) (x : K)
    (h : getBaseEquivalent pre t T S u = .error .UnitsNotReducible) :
    inBase pre t T S u x = .error .UnitsNotReducible := by
  simp only [getBaseEquivalent] at h
  simp only [inBase]
  cases hc : checkEm pre t T S u with
  | error e => rw [hc] at h; cases e <;> simp at h ⊢
  | ok cd =>
    rw [hc] at h
    cases cd with
    | none => simp only [getBaseEquivalent, hc]; simp only [] at h; rw [h]
    | some m =>
      simp only [] at h ⊢
      cases hm : umMatches S u
      · simp only [hm, Bool.false_eq_true, if_false] at h ⊢
        cases he : emConversion pre t m with
        | error e => simp only [he, Except.error.injEq] at h ⊢; exact h
        | ok r => obtain ⟨toUnits, f⟩ := r; simp [he] at h
      · simp [hm] at h

omit laws in
/-- converting a unit to itself is the identity on values -/
theorem getConversionFactor_self (v : UnitV K) (hv : v.scale ≠ 0) (y : K) :
    ∃ f, getConversionFactor pre t v v = .ok f ∧ applyFactor f y = y := by
  have hde : (v.dim != v.dim) = false := by simp
  simp only [getConversionFactor, hde]
  cases h0 : (v.offset == 0 && v.offset == 0)
  · refine ⟨(v.scale / v.scale, some (v.scale / v.scale * effOffset (v.dim == Dim.dTemperature && v.spelledWithPrefix pre t) v.scale v.offset
        - effOffset (v.dim == Dim.dTemperature && v.spelledWithPrefix pre t) v.scale v.offset)), by simp, ?_⟩
    simp only [applyFactor]
    have : (v.scale / v.scale * effOffset (v.dim == Dim.dTemperature && v.spelledWithPrefix pre t) v.scale v.offset
        - effOffset (v.dim == Dim.dTemperature && v.spelledWithPrefix pre t) v.scale v.offset) = 0 := by grind
    rw [this]; simp; grind
  · refine ⟨(v.scale / v.scale, none), by simp, ?_⟩
    simp only [applyFactor]; grind

omit laws in
theorem checkEm_nonEm (S : USys K) (u : UnitV K) (hD : T.hasDim u.dim = false) :
    checkEm pre t T S u = .ok none := by simp [checkEm, hD]

omit laws in
/-- the structure of a conversion that does not take the EM route (`_check_em_conversion` returns
    `()`: the dimension is not an EM one, or the unit is not one of the table's units — `Mx`,
    `statC/s`, `s/cm` …) -/
theorem inBase_nonEm (S : USys K) (u v : UnitV K) (x y : K) (hc : checkEm pre t T S u = .ok none)
    (h : inBase pre t T S u x = .ok (y, v)) :
    ((umMatches S u = true ∧ v = u) ∨
      (umMatches S u = false ∧ ∃ ex, S.lookup u.dim = .ok ex ∧ mkUnit pre t ex = .ok v)) ∧
    v.dim = u.dim ∧ ∃ f, getConversionFactor pre t u v = .ok f ∧ y = applyFactor f x := by
  have hg := inBase_agrees_getBaseEquivalent pre t T S u v x y h
  simp only [inBase, hc, hg] at h
  split at h
  · contradiction
  · rename_i f hf
    cases h
    refine ⟨?_, (getConversionFactor_dim pre t u v f hf).symm, f, hf, rfl⟩
    simp only [getBaseEquivalent, hc] at hg
    cases hm : umMatches S u
    · simp only [hm, Bool.false_eq_true, if_false] at hg
      refine Or.inr ⟨rfl, ?_⟩
      cases hl : S.lookup u.dim with
      | error e => rw [hl] at hg; cases e <;> simp at hg
      | ok ex => rw [hl] at hg; exact ⟨ex, rfl, hg⟩
    · simp only [hm, if_true] at hg; cases hg; exact Or.inl ⟨rfl, rfl⟩

omit laws in
/-- **in_base is idempotent** (non-EM dimensions, any system): converting the result again
    returns the same unit and the same numbers -/
theorem inBase_idempotent (S : USys K) (u v : UnitV K) (x y : K) (hD : T.hasDim u.dim = false)
    (h : inBase pre t T S u x = .ok (y, v)) (hv : v.scale ≠ 0) :
    inBase pre t T S v y = .ok (y, v) := by
  obtain ⟨hcase, hdim, _⟩ := inBase_nonEm pre t T S u v x y (checkEm_nonEm pre t T S u hD) h
  have hDv : T.hasDim v.dim = false := by rw [hdim]; exact hD
  have hc : checkEm pre t T S v = .ok none := by simp [checkEm, hDv]
  have hg : getBaseEquivalent pre t T S v = .ok v := by
    simp only [getBaseEquivalent, hc]
    cases hm : umMatches S v
    · simp only [Bool.false_eq_true, if_false]
      rcases hcase with ⟨hmu, rfl⟩ | ⟨_, ex, hl, hmk⟩
      · rw [hm] at hmu; cases hmu
      · rw [hdim, hl]; exact hmk
    · simp
  obtain ⟨f, hf, hy⟩ := getConversionFactor_self pre t v hv y
  simp only [inBase, hc, hg, hf, hy]

omit laws in
/-- **in_base preserves the SI magnitude** (non-EM dimensions): the reading in the new unit
    denotes the same quantity, `scale · (value − offset)`, as the reading in the old unit -/
theorem inBase_preserves_SI (S : USys K) (u v : UnitV K) (x y : K) (hc : checkEm pre t T S u = .ok none)
    (h : inBase pre t T S u x = .ok (y, v)) (hv : v.scale ≠ 0) :
    toBase v.scale (effOffset (u.dim == Dim.dTemperature && v.spelledWithPrefix pre t) v.scale v.offset) y
      = toBase u.scale (effOffset (u.dim == Dim.dTemperature && u.spelledWithPrefix pre t) u.scale u.offset) x := by
  obtain ⟨_, _, f, hf, hy⟩ := inBase_nonEm pre t T S u v x y hc h
  subst hy
  simp only [getConversionFactor] at hf
  split at hf
  · contradiction
  · split at hf
    · rename_i h0
      cases hf
      have hu : u.offset = 0 := by simp at h0; exact h0.1
      have hv0 : v.offset = 0 := by simp at h0; exact h0.2
      simp only [applyFactor, toBase, effOffset, hu, hv0]
      split <;> split <;> grind
    · cases hf
      simp only [applyFactor, toBase]
      split
      · grind
      · rename_i hz
        have : (u.scale / v.scale * effOffset (u.dim == Dim.dTemperature && u.spelledWithPrefix pre t) u.scale u.offset
          - effOffset (u.dim == Dim.dTemperature && v.spelledWithPrefix pre t) v.scale v.offset) = 0 := by
          simpa using hz
        grind

omit laws in
/-- **the in-place variant agrees**: `convert_to_base` (= `convert_to_units(get_base_equivalent)`)
    yields the same numbers and the same unit as `in_base`, or the same refusal (dimensions outside
    the EM table) -/
theorem convertToBase_eq_inBase (S : USys K) (u : UnitV K) (x : K) (hc : checkEm pre t T S u = .ok none)
    (hH : T.hasDim u.dim = false ∨ emHit pre t T u = none) :
    convertToBase pre t T S (x, u) = inBase pre t T S u x := by
  simp only [convertToBase, inBase, hc]
  cases hg : getBaseEquivalent pre t T S u with
  | error e => rfl
  | ok target =>
    have hto : checkEmTo pre t T u target = .ok none := by
      rcases hH with hD | hH
      · simp [checkEmTo, hD]
      · simp only [checkEmTo, hH]; split <;> rfl
    simp only [convertToUnitsEm, hto, convertToUnits]
    cases hf : getConversionFactor pre t u target with
    | error e => rfl
    | ok f =>
      obtain ⟨r, o⟩ := f
      cases o with
      | none => rfl
      | some v => simp only [applyFactor]

/-- **in_base stays inside the system** (non-EM dimensions, well-formed system): the result has
    the dimension of the input and every symbol of its unit is owned by the system -/
theorem inBase_inside (S : USys K) (hS : WF P pre t S) (u v : UnitV K) (x y : K) (hc : checkEm pre t T S u = .ok none)
    (h : inBase pre t T S u x = .ok (y, v)) :
    v.dim = u.dim ∧ ∀ s, expOf v.expr.factors s ≠ 0 → Owned S s := by
  obtain ⟨hcase, hdim, _⟩ := inBase_nonEm pre t T S u v x y hc h
  refine ⟨hdim, fun s hs => ?_⟩
  rcases hcase with ⟨hm, rfl⟩ | ⟨_, ex, hl, hmk⟩
  · simp only [umMatches] at hm
    split at hm
    · rename_i e he
      simp only [exprEq, Bool.and_eq_true] at hm
      have hf : normF v.expr.factors = normF e.factors := eq_of_beq hm.2
      refine ⟨v.dim, e, he, ?_⟩
      rw [← expOf_normF, ← hf, expOf_normF]; exact hs
    · contradiction
  · obtain ⟨⟨hpos, _, w, hw⟩, hown⟩ := lookup_sound P laws pre t S hS u.dim ex hl
    obtain ⟨_, hfac⟩ := mkUnit_spec P laws pre t ex v hmk hpos w u.dim hw
    apply hown s
    rw [hfac, expOf_normF] at hs; exact hs

/-- **in_base counts the system's own units**: for a dimension the system neither declares nor
    has memoised (non-EM), the unit the result carries has exactly the scale `Π scale(baseᵢ)^eᵢ`
    of the product of the system's base units — so, with `inBase_preserves_SI`, the returned number
    is the count of that unit — whatever coefficients the base units carry -/
theorem inBase_counts_system_units (S : USys K) (hS : WF P pre t S) (u v : UnitV K) (x y : K)
    (hce : checkEm pre t T S u = .ok none) (hn : S.um.get? u.dim = none)
    (h : inBase pre t T S u x = .ok (y, v)) :
    v.scale = scaleOver (baseScale pre t S) u.dim baseDimsSympy := by
  obtain ⟨hcase, _, _⟩ := inBase_nonEm pre t T S u v x y hce h
  rcases hcase with ⟨hm, _⟩ | ⟨_, ex, hl, hmk⟩
  · simp [umMatches, hn] at hm
  · have hlk := hl
    simp only [USys.lookup, hn] at hl
    split at hl
    · contradiction
    · rename_i hc
      cases hl
      have hcur : u.dim.hasCurrent = true → S.hasCurrent = true := by
        intro hd; cases hs : S.hasCurrent <;> simp [hd, hs] at hc ⊢
      have hsc := synth_scale P laws pre t S hS u.dim hcur
      obtain ⟨⟨hpos, _, w, hw⟩, _⟩ := lookup_sound P laws pre t S hS u.dim _ hlk
      have := mkUnit_scale P laws pre t _ v hmk hpos w u.dim hw
      simp only [denote, hw, Option.some.injEq, Prod.mk.injEq] at hsc
      rw [this]; exact hsc.1

omit laws in
/-- **the result unit is resolved in the QUANTITY's registry.**  A unit system files expressions, not
    values (`USys` carries no table; `UnitSystem.__getitem__` resolves them in the system's registry,
    `get_base_equivalent` rebuilds the unit from the expression in `self.registry`).  For two quantities
    of the same dimension living in registries `t` and `t'` (plain route, no short-cut) `in_base`
    hands both the SAME expression `ex` — the one the system files or synthesises for that dimension —
    and each result is that expression resolved in the table of ITS OWN quantity.  With `synth_scale`
    / `inBase_counts_system_units` (whose table argument is this `t`) the scale of the result is
    computed from the quantity's table, whatever another registry says about the system's symbols. -/
theorem inBase_resolves_in_quantity_registry (t' : Lut K) (S : USys K) (u u' v v' : UnitV K)
    (x x' y y' : K) (hd : u'.dim = u.dim)
    (hc : checkEm pre t T S u = .ok none) (hc' : checkEm pre t' T S u' = .ok none)
    (hm : umMatches S u = false) (hm' : umMatches S u' = false)
    (h : inBase pre t T S u x = .ok (y, v)) (h' : inBase pre t' T S u' x' = .ok (y', v')) :
    ∃ ex, S.lookup u.dim = .ok ex ∧ mkUnit pre t ex = .ok v ∧ mkUnit pre t' ex = .ok v' := by
  obtain ⟨hcase, _, _⟩ := inBase_nonEm pre t T S u v x y hc h
  obtain ⟨hcase', _, _⟩ := inBase_nonEm pre t' T S u' v' x' y' hc' h'
  rcases hcase with ⟨hmm, _⟩ | ⟨_, ex, hl, hmk⟩
  · rw [hm] at hmm; cases hmm
  · rcases hcase' with ⟨hmm', _⟩ | ⟨_, ex', hl', hmk'⟩
    · rw [hm'] at hmm'; cases hmm'
    · rw [hd, hl] at hl'
      cases hl'
      exact ⟨ex, hl, hmk, hmk'⟩

/-! ### the property itself, at the level of the model -/

/-- C10 for one system, one unit and one reading: `in_base` refuses, or it returns a quantity
    whose unit is made of symbols the system owns, has the dimension of the input or its
    electromagnetic counterpart, is the unit `get_base_equivalent` returns, is what the in-place
    variant produces (same number, same unit), and is reproduced — number and unit — when
    `in_base` is applied again -/
def ClosedAt (S : USys K) (u : UnitV K) (x : K) : Prop :=
  match inBase pre t T S u x with
  | .error _ => True
  | .ok (y, v) =>
    (∀ s, expOf v.expr.factors s ≠ 0 → Owned S s)
    ∧ (v.dim = u.dim ∨ ∃ r, r ∈ T ∧ r.dim = u.dim ∧ r.toDim = v.dim)
    ∧ getBaseEquivalent pre t T S u = .ok v
    ∧ convertToBase pre t T S (x, u) = .ok (y, v)
    ∧ inBase pre t T S v y = .ok (y, v)

/-- **the full-strength statement of C10 on the model**: for every system of a class, every unit
    of a class and every reading.  (Preservation of the quantity is `inBase_preserves_SI`; which
    exception class a refusal has is compared with the library by the correspondence run.) -/
def C10_full (Sys : USys K → Prop) (Units : UnitV K → Prop) : Prop :=
  ∀ S, Sys S → ∀ u, Units u → ∀ x, ClosedAt pre t T S u x

/-- **C10 holds for every well-formed system on every unit whose dimension is not an
    electromagnetic one** (the decidable guard): user-defined systems, coefficient-carrying base
    units, compounds, offsets, any reading.  The electromagnetic dimensions are decided row by row
    for the built-in systems (`builtin_systems_closed_partial`, `em_route_numbers`); there the
    statement is false on the current tree (`C10_counterexample`). -/
theorem C10_partial (hP0 : ∀ a : K, P a → a ≠ 0) :
    C10_full pre t T (fun S => WF P pre t S) (fun u => T.hasDim u.dim = false ∧ u.scale ≠ 0) := by
  intro S hS u ⟨hD, hu⟩ x
  have hc := checkEm_nonEm pre t T S u hD
  simp only [ClosedAt]
  cases hib : inBase pre t T S u x with
  | error e => trivial
  | ok r =>
    obtain ⟨y, v⟩ := r
    simp only []
    obtain ⟨hdim, hown⟩ := inBase_inside P laws pre t T S hS u v x y hc hib
    have hv : v.scale ≠ 0 := by
      obtain ⟨hcase, _, _⟩ := inBase_nonEm pre t T S u v x y hc hib
      rcases hcase with ⟨_, rfl⟩ | ⟨_, ex, hl, hmk⟩
      · exact hu
      · obtain ⟨hok, _⟩ := lookup_sound P laws pre t S hS u.dim ex hl
        obtain ⟨sc, hden, _⟩ := denS_of_exprOK P laws pre t ex u.dim hok
        have hps := denS_pos P laws pre t ex sc u.dim hden
        obtain ⟨hpos, _, w, hw, _, hsw⟩ := hden
        rw [mkUnit_scale P laws pre t ex v hmk hpos w u.dim hw, hsw]
        exact hP0 sc hps
    refine ⟨hown, Or.inl hdim, inBase_agrees_getBaseEquivalent pre t T S u v x y hib, ?_,
      inBase_idempotent pre t T S u v x y hD hib hv⟩
    rw [convertToBase_eq_inBase pre t T S u x hc (Or.inl hD)]; exact hib

end inbase
end general
/-! ### the counterexample to the full statement -/
section counterexample
attribute [local instance] ratPowStub

/-- a built-in system as regenerated (at ℚ; only expressions and dimensions are inspected) -/
def BuiltinSys (S : USys Rat) : Prop := ∃ r, r ∈ Generated.rawSystems ∧ S = sysOfRaw Rat r

/-- an atomic unit of the regenerated unit table -/
def TableUnit (u : UnitV Rat) : Prop := ∃ k, k ∈ atomicNames ∧ mkUnit c10Pre c10Lut (UExpr.sym k) = .ok u

/-- **C10 is false on the current tree**: `statV.in_base("cgs")` returns a quantity in `V`, and
    applying `in_base("cgs")` to that does not return it (it goes back to `statV`) -/
theorem C10_counterexample : ¬ C10_full c10Pre c10Lut c10Em BuiltinSys TableUnit := by
  intro h
  have hflip : (match rawSystem? "cgs", mkUnit c10Pre c10Lut (UExpr.sym "statV") with
      | some r, .ok u =>
        (match inBase c10Pre c10Lut c10Em (sysOfRaw Rat r) u 1 with
         | .ok (y, v) =>
           (match inBase c10Pre c10Lut c10Em (sysOfRaw Rat r) v y with
            | .ok (_, w) => exprEq w.expr v.expr
            | .error _ => false)
         | .error _ => true)
      | _, _ => true) = false := by decide +kernel
  have hmem : "statV" ∈ atomicNames := by decide +kernel
  cases hr : rawSystem? "cgs" with
  | none => simp [hr] at hflip
  | some r =>
    cases hu : mkUnit c10Pre c10Lut (UExpr.sym "statV") with
    | error e => simp [hr, hu] at hflip
    | ok u =>
      have hrm : r ∈ Generated.rawSystems := List.mem_of_find?_eq_some hr
      have hcl := h (sysOfRaw Rat r) ⟨r, hrm, rfl⟩ u ⟨"statV", hmem, hu⟩ 1
      simp only [hr, hu] at hflip
      simp only [ClosedAt] at hcl
      cases hib : inBase c10Pre c10Lut c10Em (sysOfRaw Rat r) u 1 with
      | error e => simp [hib] at hflip
      | ok p =>
        obtain ⟨y, v⟩ := p
        simp only [hib] at hflip hcl
        obtain ⟨_, _, _, _, hidem⟩ := hcl
        simp only [hidem] at hflip
        simp [exprEq] at hflip

end counterexample

/-! ### `UnitSystem.__init__` -/
section init
variable {K : Type} [Lean.Grind.Field K] [RPow K] [BEq K] [LawfulBEq K]

/-- what an accepted system is: the eight units filed under the eight base dimensions, each of
    which passed the validation; `base_units` is a copy of `units_map` -/
theorem init_ok (pre : Prefixes K) (t0 : Lut K) (inv : List (String × String)) (reg : Option (Lut K))
    (name : String) (units : List (Option (UExpr K))) (S : USys K)
    (h : USys.init pre t0 inv reg name units = .ok S) :
    units.length = 8 ∧ S.um = baseDimsInit.zip units ∧ S.base = S.um ∧
    ∀ p, p ∈ S.um → validateBase pre t0 inv reg p.1 p.2 = .ok () := by
  simp only [USys.init] at h
  split at h
  · contradiction
  · rename_i hl
    split at h
    · contradiction
    · rename_i hv
      cases h
      exact ⟨by simpa using hl, rfl, rfl, validateAll_ok pre t0 inv reg _ hv⟩

/-- what an accepted base unit is (system without registry): `coefficient × symbol`, and the
    default-table row that `_split_prefix` and `inv_name_alternatives` lead to has the slot's dimension -/
theorem validateBase_ok (pre : Prefixes K) (t0 : Lut K) (inv : List (String × String)) (bd : Dim) (e : UExpr K)
    (h : validateBase pre t0 inv none bd (some e) = .ok ()) :
    ∃ s c ent, normF e.factors = [(s, 1)] ∧ invLookup inv (splitPrefix pre t0 s).2 = some c ∧
      t0.find? c = some ent ∧ ent.dim = bd := by
  simp only [validateBase] at h
  split at h
  · rename_i s q hnf
    split at h
    · rename_i hq; subst hq
      split at h
      · contradiction
      · rename_i c hc
        split at h
        · contradiction
        · rename_i ent hent
          split at h
          · rename_i hd; exact ⟨s, c, ent, hnf, hc, hent, hd⟩
          · contradiction
    · contradiction
  · contradiction

/-- **init_rejects_inconsistent_bases**: a base unit `coefficient × symbol` whose table row (as
    `__init__` infers it) has another dimension than the slot it is passed for makes the
    constructor fail — no system is created -/
theorem init_rejects_inconsistent_bases (pre : Prefixes K) (t0 : Lut K) (inv : List (String × String))
    (name : String) (units : List (Option (UExpr K))) (bd : Dim) (e : UExpr K) (s c : String) (ent : Entry K)
    (hslot : (bd, some e) ∈ baseDimsInit.zip units) (hn : normF e.factors = [(s, 1)])
    (hc : invLookup inv (splitPrefix pre t0 s).2 = some c) (hf : t0.find? c = some ent) (hd : ent.dim ≠ bd) :
    ∀ S, USys.init pre t0 inv none name units ≠ .ok S := by
  intro S h
  obtain ⟨_, hum, _, hval⟩ := init_ok pre t0 inv none name units S h
  have := hval (bd, some e) (hum ▸ hslot)
  obtain ⟨s', c', ent', hn', hc', hf', hd'⟩ := validateBase_ok pre t0 inv bd e this
  rw [hn] at hn'
  simp only [List.cons.injEq, Prod.mk.injEq, and_true] at hn'
  obtain ⟨rfl, _⟩ := hn'
  rw [hc] at hc'; cases hc'
  rw [hf] at hf'; cases hf'
  exact hd hd'

/-- a slot other than `current_mks` cannot be left empty -/
theorem init_requires_base_units (pre : Prefixes K) (t0 : Lut K) (inv : List (String × String)) (reg : Option (Lut K))
    (name : String) (units : List (Option (UExpr K))) (bd : Dim)
    (hslot : (bd, none) ∈ baseDimsInit.zip units) (hb : bd ≠ Dim.dCurrent) :
    ∀ S, USys.init pre t0 inv reg name units ≠ .ok S := by
  intro S h
  obtain ⟨_, hum, _, hval⟩ := init_ok pre t0 inv reg name units S h
  have := hval (bd, none) (hum ▸ hslot)
  simp [validateBase, hb] at this

/-- the facts about the tables under which what `__init__` infers about a symbol is what
    `Unit(symbol)` resolves to: no table key reads as prefix + prefixable unit, and
    `inv_name_alternatives` maps every table key to itself (both decided for the regenerated
    tables below) -/
structure NamesAgree (pre : Prefixes K) (t : Lut K) (inv : List (String × String)) : Prop where
  keys_unsplit : ∀ s e1, t.find? s = some e1 → splitPrefix pre t s = ("", s)
  inv_id : ∀ s e1, t.find? s = some e1 → invLookup inv s = some s

variable (P : K → Prop) (laws : RPowLaws (RPow.rpow (K := K)) P)
include laws

/-- **user_system_usable**: a system that `UnitSystem(...)` accepts (no registry; units as the
    parser produces them: canonical, symbols not aliases; positive scales and coefficients) is
    well-formed — every theorem above applies to it as it stands, before any other call -/
theorem user_system_usable (pre : Prefixes K) (t : Lut K) (inv : List (String × String)) (hT : NamesAgree pre t inv)
    (name : String) (units : List (Option (UExpr K))) (S : USys K)
    (h : USys.init pre t inv none name units = .ok S)
    (hcanon : ∀ e, some e ∈ units → normF e.factors = e.factors ∧ P e.coeff ∧
      ∀ s q, (s, q) ∈ e.factors → (∀ c, invLookup inv s = some c → c = s) ∧
        (∀ ent, resolve pre t s = some ent → P ent.scale)) :
    WF P pre t S := by
  obtain ⟨hlen, hum, _, hval⟩ := init_ok pre t inv none name units S h
  have hentry : ∀ d e, (d, some e) ∈ S.um → ExprOK P pre t e d := by
    intro d e hmem
    obtain ⟨s, c, ent, hn, hc, hf, hd⟩ := validateBase_ok pre t inv d e (hval _ hmem)
    have hu : some e ∈ units := by rw [hum] at hmem; exact (List.of_mem_zip hmem).2
    obtain ⟨hnorm, hco, hsym⟩ := hcanon e hu
    rw [hnorm] at hn
    obtain ⟨hcan, hpos⟩ := hsym s 1 (by rw [hn]; exact List.mem_cons_self ..)
    -- what `Unit(s)` resolves to has the dimension the validation inferred
    have hres : ∃ ent', resolve pre t s = some ent' ∧ ent'.dim = d := by
      match hfs : t.find? s with
      | some e1 =>
        rw [hT.keys_unsplit s e1 hfs] at hc
        rw [hT.inv_id s e1 hfs] at hc; cases hc
        rw [hfs] at hf; cases hf
        exact ⟨ent, by simp only [resolve, lookupUnitSymbol, hfs], hd⟩
      | none =>
        by_cases hp : (splitPrefix pre t s).1 = ""
        · rw [splitPrefix_none pre t s hp] at hc
          have := hcan c hc; subst this
          rw [hfs] at hf; cases hf
        · obtain ⟨_, _, ew, hew, _⟩ := splitPrefix_spec pre t s (splitPrefix pre t s).1 (splitPrefix pre t s).2 rfl hp
          obtain ⟨pv, ew', hpv, hew', hl⟩ := lookup_split pre t s (splitPrefix pre t s).1 (splitPrefix pre t s).2 hfs rfl hp
          rw [hew] at hew'; cases hew'
          have hid := hT.inv_id (splitPrefix pre t s).2 ew hew
          rw [hid] at hc; cases hc
          rw [hew] at hf; cases hf
          exact ⟨{ scale := ent.scale * pv, dim := ent.dim, offset := ent.offset, prefixable := false },
            by simp only [resolve, hl], hd⟩
    obtain ⟨ent', hr, hd'⟩ := hres
    refine ⟨?_, hco, pw ent'.scale 1 * 1, ?_⟩
    · intro s' q' hm
      rw [hn] at hm
      simp only [List.mem_cons, List.not_mem_nil, or_false, Prod.mk.injEq] at hm
      obtain ⟨rfl, rfl⟩ := hm
      exact ⟨ent', hr, hpos ent' hr⟩
    · rw [hn]
      simp only [denoteF, hr, Dim.pow_one, hd']
      rw [Dim.mul_one']
  refine ⟨fun d e hg => ?_, fun bd hbd hne => ?_⟩
  · have hf : S.um.find? d = some (some e) := by
      simp only [UMap.get?] at hg
      split at hg
      · rename_i e' he; cases hg; exact he
      · contradiction
    exact hentry d e (UMap.find?_mem S.um d _ hf)
  · have hk : bd ∈ S.um.map (·.1) := by
      rw [hum, List.map_fst_zip (by rw [hlen]; decide)]; exact hbd
    obtain ⟨v, hv⟩ := UMap.find?_of_key S.um bd hk
    have hmem := UMap.find?_mem S.um bd v hv
    cases v with
    | none => have := hval _ hmem; simp [validateBase, hne] at this
    | some e => simp [UMap.get?, hv]

end init
end Unyt.C10
