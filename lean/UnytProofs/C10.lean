/-
  C10 — unit-system base conversion stays inside the system and preserves the quantity.
  (table obligations; general theorems follow)
-/
import UnytModel.SystemTables
import UnytProofs.Lemmas.C10Tab
import UnytProofs.C10Tab.Cgs1
import UnytProofs.C10Tab.Cgs2
import UnytProofs.C10Tab.Cgs3
import UnytProofs.C10Tab.Mks1
import UnytProofs.C10Tab.Mks2
import UnytProofs.C10Tab.Mks3
import UnytProofs.C10Tab.Imperial1
import UnytProofs.C10Tab.Imperial2
import UnytProofs.C10Tab.Imperial3
import UnytProofs.C10Tab.Galactic1
import UnytProofs.C10Tab.Galactic2
import UnytProofs.C10Tab.Galactic3
import UnytProofs.C10Tab.Solar1
import UnytProofs.C10Tab.Solar2
import UnytProofs.C10Tab.Solar3
import UnytProofs.C10Tab.Geometrized1
import UnytProofs.C10Tab.Geometrized2
import UnytProofs.C10Tab.Geometrized3
import UnytProofs.C10Tab.Planck1
import UnytProofs.C10Tab.Planck2
import UnytProofs.C10Tab.Planck3

namespace Unyt.C10
open Unyt

/-- the systems the obligations below range over are exactly the regenerated registry -/
theorem builtin_system_names :
    Generated.rawSystems.map (·.name) = ["cgs", "mks", "imperial", "galactic", "solar", "geometrized", "planck"] := by
  decide +kernel

/-- **closure over the built-in systems** (P-tab): for every regenerated system and every atomic
    unit of the regenerated unit table outside the literal exclusion list, the model's `in_base`
    either raises `UnitsNotReducible` or returns a unit whose atoms are base units / declared
    units of the system, of the same dimension or its EM counterpart, which `in_base` maps to itself -/
theorem builtin_systems_closed_partial :
    (Generated.rawSystems.map (·.name)).all (fun s => systemClosedAtomic s Ref.exclC10) = true := by
  rw [builtin_system_names]
  simp only [List.all_cons, List.all_nil, Bool.and_true, Bool.and_eq_true]
  exact ⟨systemClosedAtomic_of_chunks _ _ tab_cgs_1 tab_cgs_2 tab_cgs_3,
    systemClosedAtomic_of_chunks _ _ tab_mks_1 tab_mks_2 tab_mks_3,
    systemClosedAtomic_of_chunks _ _ tab_imperial_1 tab_imperial_2 tab_imperial_3,
    systemClosedAtomic_of_chunks _ _ tab_galactic_1 tab_galactic_2 tab_galactic_3,
    systemClosedAtomic_of_chunks _ _ tab_solar_1 tab_solar_2 tab_solar_3,
    systemClosedAtomic_of_chunks _ _ tab_geometrized_1 tab_geometrized_2 tab_geometrized_3,
    systemClosedAtomic_of_chunks _ _ tab_planck_1 tab_planck_2 tab_planck_3⟩

/-- the full-strength statement: no exclusions -/
def C10_full : Prop :=
  (Generated.rawSystems.map (·.name)).all (fun s => systemClosedAtomic s []) = true

/-- every excluded row really fails: the full statement is false today and an exclusion cannot
    outlive its finding -/
theorem builtin_exclusions_fail : exclusionsFailAtomic Ref.exclC10 = true := by decide +kernel

/-- witness: `statV.in_base("cgs")` is `V` — outside cgs — and `V.in_base("cgs")` is `statV` again -/
theorem C10_counterexample_row :
    (rawSystem? "cgs").map (fun r => (rowVerdict r "statV", rowVerdict r "V")) = some (.outside, .outside) := by
  decide +kernel

/-- every excluded class of prefixed spellings has a failing member (`m` + unit) -/
theorem builtin_prefixed_exclusions_fail : exclusionsFailPrefixed ["m"] Ref.exclC10Prefixed = true := by
  decide +kernel

/-- memoised entries of the regenerated `units_map`s are exactly what synthesis from the base
    units gives, base entries are the `base_units` copy -/
theorem builtin_memo_entries_are_synthesis : Generated.rawSystems.all memoEntriesOk = true := by decide +kernel

/-- every base and declared unit of a regenerated system has the dimension it is filed under -/
theorem builtin_entries_have_their_dimension : Generated.rawSystems.all entriesDimOk = true := by decide +kernel

theorem builtin_base_keys_complete : Generated.rawSystems.all baseKeysOk = true := by decide +kernel

/-- the regenerated EM table is a pairing of prefixable table units of the stated dimensions -/
theorem em_table_is_a_pairing : emTableOk = true := by decide +kernel

end Unyt.C10
