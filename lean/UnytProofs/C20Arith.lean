/-
  C20 — units obtainable from UNIT ARITHMETIC, and what a reader of unit strings may do to
  their exponents.

  `Unit.__pow__` rounds its *operand* (`Rational(str(p)).limit_denominator()`, denominator
  ≤ 10**6) but sympy then multiplies exponents exactly, and `__mul__` / `__truediv__` add them
  exactly; so unit arithmetic reaches exponents with arbitrarily large denominators
  (`arith_exponents_unbounded`), the printed text of every such unit is read back with exactly
  the same exponents (`arith_reparse`), and no reader that confines exponents to a bounded set of
  denominators can do that (`bounded_reader_loses`).  All statements are about
  `UnitArith.run` / `UnitArith.limitDenominator`, which the driver executes for the opcodes
  `c20.arith` / `c20.limden`.
-/
import UnytModel.UnitArith
import UnytProofs.Lemmas.C20Arith
import UnytProofs.C20Roundtrip

namespace Unyt.C20
open Unyt Parse Print UExpr C20M Reparse UnitArith

/-- source obligation (regenerated): `Unit.__pow__` is `p = Rational(str(p)).limit_denominator()`
    followed by `self.expr ** p` — the operand is rounded, the result is not -/
theorem pow_rounds_operand_only : Generated.powOperandShape = true := by decide

/-- source obligation (regenerated): the string branch of `Unit.__new__` stores the expression
    `parse_unyt_expr` returned, which is the one sympy's `parse_expr` returned — the reader does
    nothing to exponents after parsing -/
theorem string_branch_keeps_parse : Generated.stringBranchKeepsParse = true := by decide

/-- `limit_denominator` is the identity on every rational whose denominator is within the bound -/
theorem limitDenominator_fixed (B : Nat) (x : Rat) (h : x.den ≤ B) : limitDenominator B x = x := by
  simp only [limitDenominator, h, if_true]

/-- **`limit_denominator` keeps its promise**: for every bound `B ≥ 1` and every rational, the result has
    a denominator of at most `B` (loop invariant `ldLoop_inv`; `k = (B - q0) // q1` keeps `q0 + k*q1 ≤ B`) -/
theorem limitDenominator_den_le (B : Nat) (hB : 1 ≤ B) (x : Rat) : (limitDenominator B x).den ≤ B := by
  unfold limitDenominator
  split
  · assumption
  · have hi := ldLoop_inv B (x.den + 1) ⟨0, 1, 1, 0, x.num, x.den⟩ hB (Nat.zero_le _)
    simp only
    split
    · exact den_div_le _ _ B hi.2 hB
    · apply den_div_le _ _ B _ hB
      have := Nat.div_mul_le_self (B - (ldLoop B (x.den + 1) ⟨0, 1, 1, 0, x.num, x.den⟩).q0) (ldLoop B (x.den + 1) ⟨0, 1, 1, 0, x.num, x.den⟩).q1
      omega

/-- the operand `Unit.__pow__` raises the expression to always has a denominator within the regenerated
    bound — so a single `**` never produces a long exponent from a short one; only *composition* does
    (`arith_exponents_unbounded`) -/
theorem pow_operand_bounded (p : Rat) : (powOperand p).den ≤ Generated.powDenominatorBound :=
  limitDenominator_den_le _ (by decide) p

/-- `u * v`, `u / v`, `v / u`: exponents are added / subtracted exactly, for every symbol -/
theorem mul_adds_exponents (f g : Factors) (s : String) :
    expOf (step f (.mul g)) s = expOf f s + expOf g s ∧
    expOf (step f (.div g)) s = expOf f s - expOf g s ∧
    expOf (step f (.rdiv g)) s = expOf g s - expOf f s :=
  ⟨expOf_step_mul f g s, expOf_step_div f g s, expOf_step_rdiv f g s⟩

/-- `u ** p`: every exponent is multiplied exactly by the rounded operand; in particular by `p`
    itself whenever `p`'s denominator is within the bound -/
theorem pow_scales_exponents (f : Factors) (p : Rat) (s : String) :
    expOf (step f (.pow p)) s = expOf f s * limitDenominator Generated.powDenominatorBound p ∧
    (p.den ≤ Generated.powDenominatorBound → expOf (step f (.pow p)) s = expOf f s * p) := by
  refine ⟨expOf_step_pow f p s, fun h => ?_⟩
  rw [expOf_step_pow, powOperand, limitDenominator_fixed _ _ h]

/-- `n` successive square roots of a symbol: exponent `(1/2)^n`, denominator `2^n` -/
theorem roots_exponent (s : String) (n : Nat) :
    expOf (run [(s, 1)] (List.replicate n (.pow (1/2)))) s = (1/2 : Rat) ^ n ∧
    (expOf (run [(s, 1)] (List.replicate n (.pow (1/2)))) s).den = 2 ^ n := by
  have h : expOf (run [(s, 1)] (List.replicate n (.pow (1/2)))) s = (1/2 : Rat) ^ n := by
    rw [run_replicate_pow]
    have : powOperand (1/2) = 1/2 := limitDenominator_fixed _ _ (by decide +kernel)
    rw [this]
    simp [expOf, Rat.add_zero, Rat.one_mul]
  exact ⟨h, by rw [h, Rat.den_pow, half_den]⟩

/-- **unit arithmetic is not confined by the bound of `__pow__`**: for every bound there is a
    program of ordinary unit operations whose result carries an exponent with a larger denominator -/
theorem arith_exponents_unbounded (B : Nat) :
    ∃ prog : List Step, (∀ st ∈ prog, StepOrd st) ∧ B < (expOf (run [("m", 1)] prog) "m").den := by
  refine ⟨List.replicate B (.pow (1/2)), fun st hst => ?_, ?_⟩
  · rw [List.eq_of_mem_replicate hst]; trivial
  · rw [(roots_exponent "m" B).2]; exact Nat.lt_two_pow_self

/-- **the changed reader cannot be right**: whatever a reader does to the exponents of a parsed
    unit string (`rd`), if its results have bounded denominators then some unit built by unit
    arithmetic is not read back with its own exponent -/
theorem bounded_reader_loses (rd : Rat → Rat) (B : Nat) (h : ∀ q, (rd q).den ≤ B) :
    ∃ prog : List Step, (∀ st ∈ prog, StepOrd st) ∧
      rd (expOf (run [("m", 1)] prog) "m") ≠ expOf (run [("m", 1)] prog) "m" := by
  obtain ⟨prog, hp, hd⟩ := arith_exponents_unbounded B
  refine ⟨prog, hp, fun he => ?_⟩
  have := h (expOf (run [("m", 1)] prog) "m")
  rw [he] at this
  omega

/-- **every unit built by unit arithmetic is re-readable with exactly its exponents**: for every
    start unit and every program over ordinary symbols, the tokens of the printed layout parse,
    and whenever the evaluator answers (and no negative-scale symbol sits under a root) the unit
    is constructed with, for every symbol, exactly the exponent arithmetic produced — no rounding,
    whatever the denominators -/
theorem arith_reparse (f : Factors) (prog : List Step) (hf : FOrd f) (hp : ∀ st ∈ prog, StepOrd st) :
    ∃ p, parseTokens (renderTokens (printAst ⟨1, run f prog⟩)) = some p ∧
      ∀ x, evalP p = .ok (.mono x) → factorFlags x.factors = (false, false) →
        finish (.mono x) = .ok x ∧ x.coeff = 1 ∧ ∀ s, expOf x.factors s = expOf (run f prog) s := by
  obtain ⟨p, h1, h2⟩ := print_parse_roundtrip_unit (⟨1, run f prog⟩ : UExpr Rat) (show (1 : Rat) ≠ 0 by decide)
    (FOrd_normF (FOrd_run hf hp))
  exact ⟨p, h1, fun x hx hfl => ⟨(h2 x hx hfl).1, (h2 x hx hfl).2.1, (h2 x hx hfl).2.2⟩⟩

/-- non-vacuity: `m` is ordinary, twenty square roots exceed the regenerated bound of `__pow__`,
    and the model's reader does read that unit back (kernel-evaluated on the model the driver runs) -/
example : FOrd [("m", 1)] := fun p hp => by
  simp only [List.mem_singleton] at hp; subst hp; exact ordinary_of_isOrdinary (by decide +kernel)
example : Generated.powDenominatorBound < 2 ^ 20 := by decide
example : (match parseUnit (unitStr ⟨1, run [("m", 1)] (List.replicate 20 (.pow (1/2)))⟩) with
           | .ok e => Factors.str (normF e.factors) == "m:1/1048576" | _ => false) = true := by decide +kernel

end Unyt.C20
