/-
  C14 — every documented unit name resolves to exactly one, correctly scaled unit.

  General theorems (ANY unit table, prefix table, alias table, numeric carrier):
    a key of the table always wins over a prefix split; `_split_prefix` only ever returns a prefix
    of the prefix table and a *prefixable* key of the unit table; a prefixed reading is the base
    row scaled by exactly the prefix value (dimension and offset unchanged); a non-prefixable unit
    is never the base of a prefix reading, whatever the string; which rows a name is read from
    does not depend on the numeric carrier (so the symbolic table obligations hold for the `Float`
    tables the driver executes); the attribute routes are the string route of the listing key.
  Table obligations (kernel-decided over the WHOLE regenerated name table, in 16 chunks):
    every listed name is read by the string route exactly as the independent reference reader
    reads it — one reading, symbol / listed spelling before any prefix split, the exact SI prefix —
    and so are `unyt.unit_symbols.<name>`, `unyt.<name>` and the `add_symbols` namespace of a custom
    registry, whose live objects carry the symbol the model predicts; prefixes (symbols and word
    forms) are rejected on every non-prefixable spelling; every prefix × prefixable symbol and every
    prefix word × listed spelling is a listed name; the prefix table is the SI table.
  The statement is at full strength (`C14_full`, proved as `every_name_resolves_correctly`): the 40 names
  `<prefix word>°C` that could not be parsed are repaired by the `fix:` that looks documented names up under
  their rewritten spelling (`_parsing._rewritten_name_alternatives`, regenerated into `rewrittenT`); on an
  unyt without that repair the name obligations fail for exactly those names.
-/
import UnytModel.C14Check
import UnytProofs.Lemmas.C14
import UnytProofs.Lemmas.C14Rows

namespace Unyt.C14
open Unyt Unyt.Names Unyt.Generated.C14

/-! ### general theorems: any table -/

section general
variable {K K' : Type}

/-- a key of the unit table always wins: it is read as itself (no prefix) and answers its own row,
    whatever prefix split the string might also admit -/
theorem table_key_wins [Mul K] (pre : PrefixesN K) (t : LutN K) (s : Name) (e : Entry K)
    (h : t.get? s = some e) :
    Names.lookupSplit pre t s = some (Name.nil, s) ∧ Names.lookupUnitSymbol pre t s = some e :=
  ⟨lookupSplit_key pre t s e h, lookupUnitSymbol_key pre t s e h⟩

/-- `_split_prefix` only ever returns a prefix that is a key of the prefix table and a base that is
    a prefixable key of the unit table — and it is the one candidate split of the string -/
theorem split_returns_table_prefix_and_prefixable_base (pre : PrefixesN K) (t : LutN K)
    (s p b : Name) (h : Names.splitPrefix pre t s = (p, b)) (hp : p ≠ 0) :
    Names.splitCandidate s = some (p, b) ∧ (∃ pv, pre.get? p = some pv) ∧
      ∃ e, t.get? b = some e ∧ e.prefixable = true :=
  splitPrefix_spec pre t s p b h hp

/-- a prefixed reading denotes the base unit scaled by exactly the prefix value, with the base
    unit's dimension and offset -/
theorem prefixed_reading_scales_exactly [Mul K] (pre : PrefixesN K) (t : LutN K) (s p b : Name)
    (hn : t.get? s = none) (h : Names.lookupSplit pre t s = some (p, b)) :
    ∃ pv e, pre.get? p = some pv ∧ t.get? b = some e ∧ e.prefixable = true ∧
      Names.lookupUnitSymbol pre t s =
        some { scale := e.scale * pv, dim := e.dim, offset := e.offset, prefixable := false } :=
  (lookupSplit_prefixed pre t s p b hn h).2.2

/-- non-prefixable units never accept a prefix: if the row `b` is not prefixable, every string
    that is read from row `b` is `b` itself -/
theorem nonprefixable_never_accept_prefix (pre : PrefixesN K) (t : LutN K) (b : Name) (e : Entry K)
    (hb : t.get? b = some e) (hnp : e.prefixable = false) (s p : Name)
    (h : Names.lookupSplit pre t s = some (p, b)) : p = 0 ∧ s = b :=
  nonprefixable_never_base pre t b e hb hnp s p h

/-- the reading of a name does not depend on the numeric carrier of the tables -/
theorem reading_independent_of_carrier (f : K → K') (c : Ctx K) (n : Name) :
    stringReading (c.mapK f) n = stringReading c n
    ∧ unitSymbolsAttr (c.mapK f) n = unitSymbolsAttr c n
    ∧ (∀ taken, topLevelAttr (c.mapK f) taken n = topLevelAttr c taken n)
    ∧ addSymbolsAttr (c.mapK f) n = addSymbolsAttr c n :=
  ⟨stringReading_mapK f c n, unitSymbolsAttr_mapK f c n, fun t => topLevelAttr_mapK f c t n,
   addSymbolsAttr_mapK f c n⟩

/-- the value `Unit(name)` carries is the value of its reading: the row itself for a table key,
    base × prefix for a prefix reading; and it exists exactly when the reading exists -/
theorem string_value_of_reading [Mul K] [OfNat K 0] [OfNat K 1] (c : Ctx K) (n s p b : Name)
    (h : stringReading c n = some (.sym s p b)) :
    (p = 0 ∧ s = b ∧ ∃ e, c.lut.get? b = some e ∧ stringEntry c n = some e) ∨
    (p ≠ 0 ∧ ∃ pv e, c.pre.get? p = some pv ∧ c.lut.get? b = some e ∧ e.prefixable = true ∧
      stringEntry c n =
        some { scale := e.scale * pv, dim := e.dim, offset := e.offset, prefixable := false }) :=
  stringEntry_of_reading c n s p b h

theorem string_value_exists_iff [Mul K] [OfNat K 0] [OfNat K 1] (c : Ctx K) (n : Name) :
    (stringEntry c n).isSome = (stringReading c n).isSome :=
  stringEntry_isSome c n

/-- `unyt.unit_symbols.<name>` is, by construction, the string route applied to the key of
    `name_alternatives` that lists the name; `unyt.<name>` is that object unless the name was
    already bound -/
theorem attribute_routes_are_string_routes (c : Ctx K) (taken : List Name) (n okey nkey : Name)
    (h : c.inv.get? n = some (okey, nkey)) :
    unitSymbolsAttr c n = stringReading c nkey
    ∧ (memN n taken = false → topLevelAttr c taken n = stringReading c nkey)
    ∧ (memN n taken = true → topLevelAttr c taken n = none) := by
  refine ⟨by simp only [unitSymbolsAttr, h], ?_, ?_⟩
  · intro hm; simp only [topLevelAttr, hm, unitSymbolsAttr, h]; rfl
  · intro hm; simp only [topLevelAttr, hm]; rfl

end general

/-- non-vacuity of the general theorems on the regenerated tables: `m` is a table key and wins;
    `km` is not, and is read as `k` × `m` with `k` in the prefix table and `m` prefixable;
    `mile` is a non-prefixable row -/
example : (lutT.get? (Name.ofChars [109])).isSome = true := by decide +kernel
example : lutT.get? (Name.ofChars [107, 109]) = none
    ∧ Names.lookupSplit prefixesT lutT (Name.ofChars [107, 109]) = some (Name.ofChars [107], Name.ofChars [109]) := by
  decide +kernel
example : Names.splitPrefix prefixesT lutT (Name.ofChars [107, 109]) = (Name.ofChars [107], Name.ofChars [109])
    ∧ Name.ofChars [107] ≠ 0 := by decide +kernel
example : (lutT.get? (Name.ofChars [109, 105, 108, 101])).map (·.prefixable) = some false := by decide +kernel
example : stringReading ctxBits (Name.ofChars [107, 109])
    = some (.sym (Name.ofChars [107, 109]) (Name.ofChars [107]) (Name.ofChars [109])) := by decide +kernel
example : invTree.get? (Name.ofChars [109, 101, 116, 101, 114]) = some (Name.ofChars [109], Name.ofChars [109]) := by
  decide +kernel

/-! ### the whole regenerated name table -/

/-- THE FULL STATEMENT: every listed name — `inv_name_alternatives` of the unyt being checked, all
    of it — is read by the string route, by `unyt.unit_symbols`, by the top-level namespace (unless
    shadowed there by a non-unit) and by the `add_symbols` namespace of a custom registry exactly as
    the independent reference reads it: one reading, a table symbol or listed spelling before any
    prefix split, the exact SI prefix; and the live attribute objects carry the predicted symbol. -/
def C14_full : Prop := ∀ r ∈ allRows, nameOk r = true

/-- the full statement holds -/
theorem every_name_resolves_correctly : C14_full := by
  intro r hr
  obtain ⟨i, hi, hm⟩ := mem_allRows hr
  have h := names_chunks i hi
  simp only [namesChunkOk, List.all_eq_true] at h
  exact h r hm

/-- the string route: for every listed name the reference has exactly one reading `(k, c)`, and the
    model reads the name from the row `c` with a prefix of power `k` -/
theorem string_route_reads_as_reference (r : NameRow) (hr : r ∈ allRows) :
    ∃ k c, refVerdict r.name = .unique k c ∧ readingMatches (stringReading ctxBits r.name) k c = true := by
  have h := (nameCheck_parts r (every_name_resolves_correctly r hr)).2.1
  unfold stringOk at h
  cases hv : refVerdict r.name with
  | unknown => simp [hv] at h
  | ambiguous => simp [hv] at h
  | unique k c => exact ⟨k, c, rfl, by simpa [hv] using h⟩

/-- non-vacuity: the table has rows, among them the formerly unparsable `kilo°C` -/
example : (rowsChunk 0).length > 0 := by decide +kernel
example : (invTree.get? (Name.append (Name.ofChars [107, 105, 108, 111]) Ref.C14.degreeSignC)).isSome = true
    ∧ (stringReading ctxBits (Name.append (Name.ofChars [107, 105, 108, 111]) Ref.C14.degreeSignC)).isSome = true := by
  decide +kernel
example : allRows.length = 3872 ∨ allRows.length = invCount := Or.inr (by
  have h := (by decide +kernel : namespacesClosed = true)
  simp only [namespacesClosed, Bool.and_eq_true, beq_iff_eq] at h
  exact h.2)

/-- … and the same holds for the tables at `Float` (what the driver runs) and at `Rat` -/
theorem string_route_reads_as_reference_any_carrier (K : Type) [OfBits K] (r : NameRow)
    (hr : r ∈ allRows) :
    ∃ k c, refVerdict r.name = .unique k c ∧ readingMatches (stringReading (ctx K) r.name) k c = true := by
  obtain ⟨k, c, hv, hm⟩ := string_route_reads_as_reference r hr
  exact ⟨k, c, hv, by simpa only [ctx, stringReading_mapK] using hm⟩

/-- the prefix dict holds SI values -/
theorem prefix_dict_is_SI : prefixDictOk = true := by decide +kernel

/-- THE NUMERIC STATEMENT.  For every listed name (other than the empty alias of `dimensionless`), `Unit(name)` at exact
    arithmetic (the `Rat` tables: every cell the exact value of the double the code holds) is the
    row `c` of the reference's unique reading `(k, c)` — same dimension, same offset — with the
    scale of `c` multiplied by a prefix value that is `10^k` up to the rounding of a double
    (and by nothing at all when the reading has no prefix). -/
theorem listed_name_denotes_prefix_times_unit (r : NameRow) (hr : r ∈ allRows) (hne : r.name ≠ 0) :
    ∃ k c eb e, refVerdict r.name = .unique k c ∧ (ctx Rat).lut.get? c = some eb
      ∧ stringEntry (ctx Rat) r.name = some e ∧ e.dim = eb.dim ∧ e.offset = eb.offset
      ∧ ((k = 0 ∧ e.scale = eb.scale) ∨
         (∃ pv, e.scale = eb.scale * pv ∧ absR (pv - Ref.C14.pow10 k) ≤ Ref.C14.pow10 k / (2 ^ 50 : Nat))) := by
  obtain ⟨k, c, hv, hm⟩ := string_route_reads_as_reference_any_carrier Rat r hr
  cases hsr : stringReading (ctx Rat) r.name with
  | none => simp [hsr, readingMatches] at hm
  | some rd =>
    cases rd with
    | one =>
      -- only the empty string is read as `one`
      unfold stringReading at hsr
      split at hsr
      · rename_i h0; exact absurd (Nat.eq_of_beq_eq_true h0) hne
      · simp only [Name.force_eq] at hsr
        split at hsr
        · cases hsr
        · split at hsr <;> cases hsr
    | sym s p b =>
      simp only [hsr, readingMatches, Bool.and_eq_true, beq_iff_eq] at hm
      obtain ⟨hb, hp⟩ := hm
      have hbc : b = c := Nat.eq_of_beq_eq_true hb
      subst hbc
      rcases string_value_of_reading (ctx Rat) r.name s p b hsr with ⟨hp0, _, eb, heb, hse⟩ | ⟨hp0, pv, eb, hpv, heb, _, hse⟩
      · refine ⟨k, b, eb, eb, hv, heb, hse, rfl, rfl, Or.inl ⟨?_, rfl⟩⟩
        simp only [prefixExp, hp0] at hp
        simpa using hp.symm
      · refine ⟨k, b, eb, _, hv, heb, hse, rfl, rfl, Or.inr ⟨pv, rfl, ?_⟩⟩
        -- the prefix value comes from the regenerated prefix dict, which holds SI values
        have hpe : findN p Ref.C14.prefixSymbols = some k := by
          simp only [prefixExp, beq_zero_false hp0] at hp
          simpa using hp
        simp only [ctx, Ctx.mapK, ctxBits, Dict.get?_map] at hpv
        cases hv0 : prefixesT.get? p with
        | none => simp [hv0] at hpv
        | some v =>
          simp only [hv0, Option.map_some, Option.some.injEq] at hpv
          have hmem := Dict.mem_toList_of_get? prefixesT p v hv0
          have hall := prefix_dict_is_SI
          simp only [prefixDictOk, List.all_eq_true] at hall
          have := hall (p, v) hmem
          simp only [hpe, decide_eq_true_eq] at this
          rw [← hpv]
          exact this

/-- no name has a second, different reading: for every listed name the reference
    reader — which tries every prefix spelling at every position and every spelling of every unit —
    finds a unique reading in the winning class -/
theorem no_second_reading (r : NameRow) (hr : r ∈ allRows) :
    ∃ k c, refVerdict r.name = .unique k c := by
  have h := (nameCheck_parts r (every_name_resolves_correctly r hr)).2.2.1
  unfold usOk at h
  cases hv : refVerdict r.name with
  | unknown => simp [hv] at h
  | ambiguous => simp [hv] at h
  | unique k c => exact ⟨k, c, rfl⟩

/-- the attribute routes agree with the reference for every listed name, and the live
    objects of the three namespaces carry the symbol the model predicts -/
theorem attributes_agree (r : NameRow) (hr : r ∈ allRows) :
    usOk r = true ∧ topOk r = true ∧ customOk r = true ∧ treeOk r = true := by
  obtain ⟨ht, _, hu, htop, hc⟩ := nameCheck_parts r (every_name_resolves_correctly r hr)
  exact ⟨hu, htop, hc, ht⟩

/-- shadowing at top level is pinned to the documented list: every name of `unyt.unit_symbols` whose
    top-level attribute is not a Unit is one of the hand-listed names of physical constants -/
theorem shadowing_is_documented : ∀ n ∈ shadowedC, n ∈ Ref.C14.shadowedByConstants := by
  intro n hn
  have h := (by decide +kernel : namespacesClosed = true)
  simp only [namespacesClosed, Bool.and_eq_true, List.all_eq_true] at h
  exact memN_mem (h.1.1.1.2 n hn).2

/-- every listed name that is not a documented name of a physical constant IS a unit attribute of
    the top-level namespace: the live object carries the symbol of the `unit_symbols` object and the
    model reads it as the reference reads the name — a unit attribute cannot vanish from `unyt.*` or
    be rebound to a non-unit without failing this -/
theorem top_level_unit_unless_documented_constant (r : NameRow) (hr : r ∈ allRows)
    (hd : memN r.name Ref.C14.shadowedByConstants = false) :
    memN r.name shadowedC = false ∧ r.topSym = symOf (unitSymbolsAttr ctxBits r.name)
      ∧ ∃ k c, refVerdict r.name = .unique k c
          ∧ readingMatches (topLevelAttr ctxBits shadowedC r.name) k c = true := by
  have h := (attributes_agree r hr).2.1
  unfold topOk at h
  split at h
  · simp only [Bool.and_eq_true] at h; rw [hd] at h; exact absurd h.2 (by simp)
  · rename_i hm
    cases hv : refVerdict r.name with
    | unknown => simp [hv] at h
    | ambiguous => simp [hv] at h
    | unique k c =>
      simp only [hv, Bool.and_eq_true] at h
      have hm' : memN r.name shadowedC = false := by simpa using hm
      refine ⟨hm', ?_, k, c, rfl, h.1⟩
      have := Nat.eq_of_beq_eq_true h.2
      simpa [topLevelAttr, hm'] using this

/-- non-prefixable units reject prefixes: for every prefix spelling of the regenerated table
    (symbols and word forms) and every spelling of every non-prefixable unit (symbol and listed
    alternatives), the concatenation is not a unit string — unless it is itself a listed name, in
    which case `every_name_resolves_correctly` says what it denotes -/
theorem nonprefixable_reject_prefix : ∀ p ∈ prefixSpellings, rejectsAll p = true := by
  have hc : spellingsCovered = true := by decide +kernel
  intro p hp
  simp only [spellingsCovered, List.all_eq_true, List.any_eq_true, List.mem_range] at hc
  obtain ⟨i, hi, hm⟩ := hc p hp
  have h := nonprefixable_chunks i hi
  simp only [nonprefixableChunkOk, List.all_eq_true] at h
  exact h p (memN_mem hm)

/-- the documented list is complete for prefixes: every prefix symbol × prefixable table symbol and
    every prefix word × listed spelling of a prefixable unit is a listed name (and is therefore
    covered by the theorems above); every table symbol is a listed name -/
theorem prefixed_forms_are_listed : prefixedFormsListed = true ∧ tableSymbolsListed = true := by
  constructor <;> decide +kernel

/-- the regenerated prefix table is the SI table: each symbol and its word form denote the same
    power of ten, which the value equals up to the rounding of a double; no SI prefix is missing -/
theorem prefix_table_is_SI : prefixTableOk = true := by decide +kernel

/-- the regenerated inputs are coherent: the dicts the model walks hold exactly the dumped rows,
    the reference's spelling rows are exactly the table keys plus the aliases of the input table
    (lower-cased as Python does), its search tree holds exactly those rows, alias keys are table
    keys, every non-ASCII character of the inputs has case data, the code-keyed unit table is the
    shared string-keyed one, the readable reference tables are the code tables -/
theorem tables_consistent :
    dictsOk = true ∧ baseRowsOk = true ∧ baseTreeOk = true ∧ altKeysOk = true ∧ charsCovered = true
      ∧ lutMatchesShared = true ∧ refCodesOk = true := by
  refine ⟨?_, ?_, ?_, ?_, ?_, ?_, ?_⟩ <;> decide +kernel

/-- nothing else reaches the namespaces: every unit attribute of `unyt.unit_symbols` and of the
    top-level namespace is a listed name; the custom namespace adds exactly the registry's own
    keys, parsed by the string route; every unit in it belongs to the custom registry; names
    shadowed at top level are listed names; the table, the tree and the row chunks have one size -/
theorem namespaces_closed : namespacesClosed = true := by decide +kernel

/-! ### the generator of the name tables -/

/-- `generate_name_alternatives` is reproduced by the model: for every table key, the body of the
    outer loop (`NameGen.genKey`: the prefix loop, the title-case heuristics with their length and
    case conditions, the duplicate guard and its `u`/`μ` exemption), started in the state the real
    generator had when it reached that key (`seen` = the names listed before it), appends exactly
    the entries of `inv_name_alternatives` / `name_alternatives` that the real generator appended
    there — same names, same order, same canonical names, same listing keys; and the key positions
    partition the whole table.  (The fold of the body over the table is run compiled by the driver
    and compared with the live tables: opcode `c14.gen`.) -/
theorem names_generator_matches :
    (∀ i, i < lutC.length → genKeyOk i = true) ∧ keyStartsOk = true :=
  ⟨genKey_all, by decide +kernel⟩

end Unyt.C14
