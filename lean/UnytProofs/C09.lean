/-
  C09 — equivalence conversions are mutually inverse, pure, and match their formulas.

  `Generated.equivalences` is regenerated on every run by the symbolic tracer
  (`tools/extract.d/c09_equiv_formulas.py`) from the live `unyt/equivalencies.py`: for every
  registered equivalence and every ordered pair of its `_dims`, the ufunc chain `_convert`
  performs, in copy mode and in in-place mode.  The `table_*` theorems are decided by the kernel
  over that *whole* table; the other theorems turn them — through the normaliser soundness
  theorem over ℝ, the substitution lemma and the hand proof for Lorentz — into statements
  quantified over every equivalence, every pair/triple of member dimensions, every positive
  value of the physical constants and keyword parameters, and every positive input.
  The wrapper theorems are about any registry.  Property statements only.
-/
import UnytProofs.Real.C09Lorentz
import UnytProofs.Lemmas.C09Trace
import UnytModel.Generated.EquivFormulas

namespace Unyt.C09
open Unyt Unyt.Equiv Unyt.Generated

/-! ### obligations over the whole regenerated table -/

/-- every ordered pair of `_dims` of every equivalence has a branch, in both modes (no pair
    falls through `_convert` to `None`) -/
theorem table_covered : equivalences.all EquivRec.covered = true := by decide +kernel

/-- registry names are distinct: looking a record up by its `type_name` finds it -/
theorem table_names : namesOk equivalences = true := by decide +kernel

/-- `B→A ∘ A→B` normalises to the identity, for every monomial equivalence and ordered pair -/
theorem table_inverse :
    (equivalences.filter (fun e => e.name != "lorentz")).all EquivRec.inverseOk = true := by
  decide +kernel

/-- `B→C ∘ A→B` and `A→C` have the same normal form, for every equivalence and ordered triple -/
theorem table_paths : equivalences.all EquivRec.pathsOk = true := by decide +kernel

/-- for every branch, the in-place chain — read with a returned object aliasing the buffer and
    read with it being a value of its own — leaves in the caller's array what the copy chain
    returns -/
theorem table_inplace : equivalences.all (fun e => e.branches.all Branch.inplaceOk) = true := by
  decide +kernel

/-- no call of any copy-mode chain has `out=x` -/
theorem table_pure : equivalences.all (fun e => e.branches.all Branch.pureOk) = true := by
  decide +kernel

/-- every branch's result has the dimension that was requested (with the dimensions the
    library's constants actually have) -/
theorem table_dimensions :
    equivalences.all (fun e => e.branches.all (Branch.dimOk (atomDim equivConstants))) = true := by
  decide +kernel

/-- the nine equivalences of the property are registered, each relating exactly the dimensions
    of the hand-written reference -/
theorem table_registry : Ref.C09.registryOk equivalences = true := by decide +kernel

/-- the reference has a formula for every ordered pair of every non-Lorentz equivalence -/
theorem reference_complete : Ref.C09.referenceComplete = true := by decide +kernel

/-- every branch has the normal form of the independently written defining formula -/
theorem table_reference : Ref.C09.formulasOk equivalences = true := by decide +kernel

/-- the two regenerated Lorentz chains have the shapes the hand proof is about -/
theorem table_lorentz_shape : Ref.C09.lorentzOk equivalences = true := by decide +kernel

/-- the constants the formulas read are what the reference says they are (dimension; value to
    10⁻³), and the keyword defaults are the documented ones -/
theorem table_constants :
    Ref.C09.constantsOk equivConstants = true ∧ Ref.C09.defaultsOk equivalences = true := by
  decide +kernel

/-! ### inverse, path and reference laws, for all positive constants, parameters and inputs -/

/-- converting `A → B → A` returns the original value: for every registered equivalence other
    than Lorentz, every ordered pair of distinct member dimensions, every assignment of positive
    reals to constants and keyword parameters, every positive input -/
theorem equiv_inverse (e : EquivRec) (he : e ∈ equivalences) (hl : e.name ≠ "lorentz")
    (a b : Dim) (ha : a ∈ e.dims) (hb : b ∈ e.dims) (hab : a ≠ b)
    (ρ : String → ℝ) (hρ : PosEnv ρ) (x : ℝ) (hx : 0 < x) :
    ∃ f g, e.formula a b = some f ∧ e.formula b a = some g ∧
      g.eval (withX ρ (f.eval (withX ρ x))) = x := by
  have h1 := table_inverse
  rw [List.all_eq_true] at h1
  have h2 := h1 e (List.mem_filter.mpr ⟨he, by simpa using hl⟩)
  unfold EquivRec.inverseOk at h2
  rw [List.all_eq_true] at h2
  have h3 := h2 (a, b) (mem_orderedPairs ha hb hab)
  cases hf : e.formula a b with
  | none => simp [hf] at h3
  | some f =>
    cases hg : e.formula b a with
    | none => simp [hf, hg] at h3
    | some g =>
      simp only [hf, hg, beq_iff_eq] at h3
      refine ⟨f, g, rfl, rfl, ?_⟩
      have hs := norm_sound' (posEnv_withX hρ hx) _ _ h3
      rw [eval_subst] at hs
      rw [hs, idX_eval]
      simp [withX]

/-- converting `A → B → C` agrees with `A → C`: every registered equivalence, every ordered
    triple of distinct member dimensions -/
theorem equiv_path (e : EquivRec) (he : e ∈ equivalences)
    (a b c : Dim) (ha : a ∈ e.dims) (hb : b ∈ e.dims) (hc : c ∈ e.dims)
    (hab : a ≠ b) (hac : a ≠ c) (hbc : b ≠ c)
    (ρ : String → ℝ) (hρ : PosEnv ρ) (x : ℝ) (hx : 0 < x) :
    ∃ f g h, e.formula a b = some f ∧ e.formula b c = some g ∧ e.formula a c = some h ∧
      g.eval (withX ρ (f.eval (withX ρ x))) = h.eval (withX ρ x) := by
  have h1 := table_paths
  rw [List.all_eq_true] at h1
  have h2 := h1 e he
  unfold EquivRec.pathsOk at h2
  rw [List.all_eq_true] at h2
  have h3 := h2 (a, b, c) (mem_orderedTriples ha hb hc hab hac hbc)
  cases hf : e.formula a b with
  | none => simp [hf] at h3
  | some f =>
    cases hg : e.formula b c with
    | none => simp [hf, hg] at h3
    | some g =>
      cases hh : e.formula a c with
      | none => simp [hf, hg, hh] at h3
      | some h =>
        simp only [hf, hg, hh] at h3
        refine ⟨f, g, h, rfl, rfl, rfl, ?_⟩
        have hs := sameMono_sound (posEnv_withX hρ hx) _ _ h3
        rw [eval_subst] at hs
        exact hs

/-- the value is the defining physical formula evaluated with the library's own constants:
    every row of the reference (all ordered pairs of the eight monomial equivalences, by
    `reference_complete`) -/
theorem equiv_matches_reference (r : Ref.C09.Row) (hr : r ∈ Ref.C09.formulas)
    (ρ : String → ℝ) (hρ : PosEnv ρ) :
    ∃ e f, findEquiv equivalences r.equiv = some e ∧ e.formula r.src r.dst = some f ∧
      f.eval ρ = r.formula.eval ρ := by
  have h1 := table_reference
  unfold Ref.C09.formulasOk at h1
  rw [List.all_eq_true] at h1
  have h2 := h1 r hr
  cases he : findEquiv equivalences r.equiv with
  | none => simp [he] at h2
  | some e =>
    cases hf : e.formula r.src r.dst with
    | none => simp [he, hf] at h2
    | some f =>
      simp only [he, hf] at h2
      exact ⟨e, f, rfl, hf, sameMono_sound hρ _ _ h2⟩

/-! ### Lorentz -/

/-- the regenerated Lorentz chains compute `γ = 1/√(1 − v²/c²)` and `v = c √(1 − 1/γ²)` -/
theorem lorentz_matches_reference (ρ : String → ℝ) (hρ : PosEnv ρ) :
    ∃ e f g, findEquiv equivalences "lorentz" = some e ∧
      e.formula Ref.C09.dVelocity Ref.C09.dNone = some f ∧
      e.formula Ref.C09.dNone Ref.C09.dVelocity = some g ∧
      f.eval ρ = lorentzGamma (ρ "c.c") (ρ "x") ∧
      g.eval ρ = lorentzVel (ρ "c.c") (ρ "x") := by
  have h1 := table_lorentz_shape
  unfold Ref.C09.lorentzOk at h1
  cases he : findEquiv equivalences "lorentz" with
  | none => simp [he] at h1
  | some e =>
    cases hf : e.formula Ref.C09.dVelocity Ref.C09.dNone with
    | none => simp [he, hf] at h1
    | some f =>
      cases hg : e.formula Ref.C09.dNone Ref.C09.dVelocity with
      | none => simp [he, hf, hg] at h1
      | some g =>
        simp only [he, hf, hg, Bool.and_eq_true] at h1
        exact ⟨e, f, g, rfl, hf, hg, gammaShape_eval hρ f h1.1.1, velShape_eval hρ g h1.2⟩

/-- `v → γ → v` returns `v` for `0 < v < c` (the real-analysis core, `lorentz_real_inverse_v`,
    holds for `0 ≤ v`; the link to the regenerated chain needs a positive input) -/
theorem lorentz_inverse_v (ρ : String → ℝ) (hρ : PosEnv ρ) (v : ℝ) (hv : 0 < v)
    (hvc : v < ρ "c.c") :
    ∃ e f g, findEquiv equivalences "lorentz" = some e ∧
      e.formula Ref.C09.dVelocity Ref.C09.dNone = some f ∧
      e.formula Ref.C09.dNone Ref.C09.dVelocity = some g ∧
      g.eval (withX ρ (f.eval (withX ρ v))) = v := by
  have hc := hρ "c.c"
  obtain ⟨e, f, g, he, hf, hg, ef, _⟩ := lorentz_matches_reference (withX ρ v) (posEnv_withX hρ hv)
  have hγ : 0 < f.eval (withX ρ v) := by
    rw [ef]; simp only [withX]; exact lorentzGamma_pos hc hv.le hvc
  obtain ⟨e', f', g', he', hf', hg', _, eg⟩ :=
    lorentz_matches_reference (withX ρ (f.eval (withX ρ v))) (posEnv_withX hρ hγ)
  rw [he] at he'; injection he' with he'; subst he'
  rw [hf] at hf'; injection hf' with hf'; subst hf'
  rw [hg] at hg'; injection hg' with hg'; subst hg'
  refine ⟨e, f, g, he, hf, hg, ?_⟩
  rw [eg, ef]
  simp only [withX, if_true]
  exact lorentz_real_inverse_v hc hv.le hvc

/-- `γ → v → γ` returns `γ` for `1 < γ` -/
theorem lorentz_inverse_gamma (ρ : String → ℝ) (hρ : PosEnv ρ) (γ : ℝ) (hγ : 1 < γ) :
    ∃ e f g, findEquiv equivalences "lorentz" = some e ∧
      e.formula Ref.C09.dVelocity Ref.C09.dNone = some f ∧
      e.formula Ref.C09.dNone Ref.C09.dVelocity = some g ∧
      f.eval (withX ρ (g.eval (withX ρ γ))) = γ := by
  have hc := hρ "c.c"
  have hγ0 : 0 < γ := by linarith
  obtain ⟨e, f, g, he, hf, hg, _, eg⟩ := lorentz_matches_reference (withX ρ γ) (posEnv_withX hρ hγ0)
  have hv : 0 < g.eval (withX ρ γ) := by
    rw [eg]; simp only [withX]; exact lorentzVel_pos hc hγ
  obtain ⟨e', f', g', he', hf', hg', ef, _⟩ :=
    lorentz_matches_reference (withX ρ (g.eval (withX ρ γ))) (posEnv_withX hρ hv)
  rw [he] at he'; injection he' with he'; subst he'
  rw [hf] at hf'; injection hf' with hf'; subst hf'
  rw [hg] at hg'; injection hg' with hg'; subst hg'
  refine ⟨e, f, g, he, hf, hg, ?_⟩
  rw [ef, eg]
  simp only [withX, if_true]
  exact lorentz_real_inverse_gamma hc hγ.le

/-- the end points: `v = 0 ↦ γ = 1 ↦ v = 0` and `γ = 1 ↦ v = 0 ↦ γ = 1` (together with
    `lorentz_inverse_v` this is the inverse law on `0 ≤ v < c`, with `lorentz_inverse_gamma` on
    `1 ≤ γ`) -/
theorem lorentz_inverse_endpoints (ρ : String → ℝ) (hρ : PosEnv ρ) :
    ∃ e f g, findEquiv equivalences "lorentz" = some e ∧
      e.formula Ref.C09.dVelocity Ref.C09.dNone = some f ∧
      e.formula Ref.C09.dNone Ref.C09.dVelocity = some g ∧
      f.eval (withX ρ 0) = 1 ∧ g.eval (withX ρ 1) = 0 ∧
      g.eval (withX ρ (f.eval (withX ρ 0))) = 0 ∧ f.eval (withX ρ (g.eval (withX ρ 1))) = 1 := by
  have h1 := table_lorentz_shape
  unfold Ref.C09.lorentzOk at h1
  cases he : findEquiv equivalences "lorentz" with
  | none => simp [he] at h1
  | some e =>
    cases hf : e.formula Ref.C09.dVelocity Ref.C09.dNone with
    | none => simp [he, hf] at h1
    | some f =>
      cases hg : e.formula Ref.C09.dNone Ref.C09.dVelocity with
      | none => simp [he, hf, hg] at h1
      | some g =>
        simp only [he, hf, hg, Bool.and_eq_true] at h1
        have f0 : f.eval (withX ρ 0) = 1 :=
          gammaShape_eval_zero (withX ρ 0) (by simp [withX]) f h1.1.1 h1.1.2
        have g1 : g.eval (withX ρ 1) = 0 := by
          rw [velShape_eval (posEnv_withX hρ one_pos) g h1.2]
          simp [lorentzVel, withX]
        exact ⟨e, f, g, rfl, hf, hg, f0, g1, by rw [f0, g1], by rw [g1, f0]⟩

/-! ### copy versus in-place -/

/-- a chain none of whose calls has `out=x` leaves the caller's array as it was — any chain,
    under either reading -/
theorem pure_chain_keeps_input (al : Bool) (t : Trace) (r : Formula × Option Formula)
    (hp : t.ops.all (fun op => !op.outBuf) = true) (h : t.run al = some r) :
    r.1 = Formula.x :=
  Trace.run_pure al t r hp h

/-- the copying form leaves its input untouched: every branch of every equivalence -/
theorem copy_is_pure (e : EquivRec) (he : e ∈ equivalences) (b : Branch) (hb : b ∈ e.branches) :
    b.copyBuffer = some Formula.x := by
  have h1 := table_pure
  rw [List.all_eq_true] at h1
  have h2 := h1 e he
  rw [List.all_eq_true] at h2
  have hp := h2 b hb
  have h3 := table_inplace
  rw [List.all_eq_true] at h3
  have h4 := h3 e he
  rw [List.all_eq_true] at h4
  have hi := h4 b hb
  unfold Branch.pureOk at hp
  unfold Branch.inplaceOk Branch.formula at hi
  unfold Branch.copyBuffer
  cases hc : b.copy with
  | none => simp [hc] at hp
  | some t =>
    simp only [hc] at hp hi
    cases hr : t.run false with
    | none => simp [hr] at hi
    | some r =>
      have := Trace.run_pure false t r hp hr
      simp [hr, this]

/-- the in-place form leaves in the caller's array the value the copying form returns: every
    branch of every equivalence, under both readings of a returned object -/
theorem inplace_equals_copy (e : EquivRec) (he : e ∈ equivalences) (b : Branch) (hb : b ∈ e.branches)
    (ρ : String → ℝ) (hρ : PosEnv ρ) :
    ∃ f g h, b.formula = some f ∧ b.inplaceFormula true = some g ∧ b.inplaceFormula false = some h ∧
      g.eval ρ = f.eval ρ ∧ h.eval ρ = f.eval ρ := by
  have h3 := table_inplace
  rw [List.all_eq_true] at h3
  have h4 := h3 e he
  rw [List.all_eq_true] at h4
  have hi := h4 b hb
  unfold Branch.inplaceOk at hi
  cases hf : b.formula with
  | none => simp [hf] at hi
  | some f =>
    cases hg : b.inplaceFormula true with
    | none => simp [hf, hg] at hi
    | some g =>
      cases hh : b.inplaceFormula false with
      | none => simp [hf, hg, hh] at hi
      | some h =>
        simp only [hf, hg, hh, Bool.and_eq_true, Bool.or_eq_true, beq_iff_eq] at hi
        refine ⟨f, g, h, rfl, rfl, rfl, ?_, ?_⟩
        · rcases hi.1 with h1 | h1
          · rw [h1]
          · exact (sameMono_sound hρ _ _ h1).symm
        · rcases hi.2 with h1 | h1
          · rw [h1]
          · exact (sameMono_sound hρ _ _ h1).symm

/-! ### the wrappers (`Equivalence.convert`, `to_equivalent`, `convert_to_equivalent`,
    `equivalence=`) — any registry -/

/-- a request the equivalence does not cover raises `InvalidUnitEquivalence`: for any registry,
    either mode, whenever the dimensions differ and the input's or the target's dimension is not
    one of the equivalence's `_dims` -/
theorem uncovered_request_raises (reg : List EquivRec) (m : Mode) (xdim tdim : Dim) (name : String)
    (e : EquivRec) (hf : findEquiv reg name = some e) (hne : xdim ≠ tdim)
    (hun : xdim ∉ e.dims ∨ tdim ∉ e.dims) :
    toEquivalent reg m xdim tdim name = .error .InvalidUnitEquivalence
    ∧ inUnitsRoute reg m xdim tdim (some name) = .error .InvalidUnitEquivalence := by
  have key : toEquivalent reg m xdim tdim name = .error .InvalidUnitEquivalence := by
    unfold toEquivalent
    have h0 : (xdim == tdim) = false := by simpa using hne
    simp only [h0, hf]
    by_cases hx : xdim ∈ e.dims
    · have ht : tdim ∉ e.dims := by
        rcases hun with h | h
        · exact absurd hx h
        · exact h
      simp [hx, EquivRec.convert, ht]
    · simp [hx]
  exact ⟨key, by simp only [inUnitsRoute, key]⟩

/-- … and then no number is produced, whatever the units and the value -/
theorem uncovered_request_returns_nothing {K : Type} [Add K] [Sub K] [Mul K] [Div K] [OfNat K 0]
    [OfNat K 1] [BEq K] [RPow K] [HasSqrt K] [OfRat K] [OfBits K]
    (pre : Prefixes K) (t : Lut K) (reg : List EquivRec) (consts params : List (String × K))
    (m : Mode) (u target : UnitV K) (xv : K) (name : String) (pr : Option Err)
    (e : EquivRec) (hf : findEquiv reg name = some e) (hne : u.dim ≠ target.dim)
    (hun : u.dim ∉ e.dims ∨ target.dim ∉ e.dims) :
    convertValue pr pre t reg consts params m u xv target (some name) = .error .InvalidUnitEquivalence := by
  unfold convertValue convertState
  rw [(uncovered_request_raises reg m u.dim target.dim name e hf hne hun).2]
  rfl

/-- an unknown equivalence name is a `KeyError` (after the same-dimension shortcut) -/
theorem unknown_equivalence_raises (reg : List EquivRec) (m : Mode) (xdim tdim : Dim) (name : String)
    (hf : findEquiv reg name = none) (hne : xdim ≠ tdim) :
    toEquivalent reg m xdim tdim name = .error .KeyError := by
  unfold toEquivalent
  have h0 : (xdim == tdim) = false := by simpa using hne
  simp [h0, hf]

/-- a request between units of the same dimension never consults the equivalence -/
theorem same_dimension_is_plain (reg : List EquivRec) (m : Mode) (d : Dim) (name : String) :
    toEquivalent reg m d d name = .ok .plain := by
  simp [toEquivalent]

/-- a covered request of a built-in equivalence is served by that pair's branch, in both modes -/
theorem covered_request_converts (e : EquivRec) (he : e ∈ equivalences) (m : Mode)
    (a b : Dim) (ha : a ∈ e.dims) (hb : b ∈ e.dims) (hab : a ≠ b) :
    ∃ f, toEquivalent equivalences m a b e.name = .ok (.via f) ∧ e.modeFormula m a b = some f := by
  have hn := table_names
  unfold namesOk at hn
  rw [List.all_eq_true] at hn
  have hfe : findEquiv equivalences e.name = some e := by simpa using hn e he
  have h1 := table_covered
  rw [List.all_eq_true] at h1
  have h2 := h1 e he
  unfold EquivRec.covered at h2
  rw [List.all_eq_true] at h2
  have h3 := h2 (a, b) (mem_orderedPairs ha hb hab)
  simp only [Bool.and_eq_true, Option.isSome_iff_exists] at h3
  have hm : ∃ f, e.modeFormula m a b = some f := by
    cases m
    · exact h3.1
    · exact h3.2
  obtain ⟨f, hf⟩ := hm
  refine ⟨f, ?_, hf⟩
  unfold toEquivalent
  have h0 : (a == b) = false := by simpa using hab
  simp [h0, hfe, ha, hb, EquivRec.convert, hf]

/-! ### units: the value does not depend on how input and target are spelled -/

/-- "whatever units the input and target are expressed in": for a covered request between
    zero-offset units, the SI magnitude of the result is the branch's formula applied to the SI
    magnitude of the input — over any field, for every spelling (scale) of either unit, every
    value and every keyword.  (Offset *targets* go through the affine rule of C03.) -/
theorem convertValue_si {K : Type} [Lean.Grind.Field K] [BEq K] [LawfulBEq K] [RPow K] [HasSqrt K]
    [OfRat K] [OfBits K] (pr : Option Err)
    (pre : Prefixes K) (t : Lut K) (reg : List EquivRec) (consts supplied : List (String × K))
    (m : Mode) (u target : UnitV K) (xv : K) (eqv : Option String) (f : Formula)
    (hroute : inUnitsRoute reg m u.dim target.dim eqv = .ok (.via f))
    (hu : u.offset = 0) (ht : target.offset = 0) (hs : target.scale ≠ 0) (v : K)
    (h : convertValue pr pre t reg consts supplied m u xv target eqv = .ok v) :
    toBase target.scale target.offset v
      = f.eval (mkEnv consts (effectiveParams reg eqv supplied) (toBase u.scale u.offset xv)) := by
  unfold convertValue convertState at h
  simp only [hroute] at h
  by_cases h1 : acceptsParams reg eqv (supplied.map (·.1)) = true
  · by_cases h2 : (f.atoms.all (bound consts (effectiveParams reg eqv supplied))) = true
    · have h3 : (u.offset != 0) = false := by simp [hu]
      simp only [h1, h2, h3, Bool.not_true, Bool.false_and, Bool.false_eq_true, if_false] at h
      replace h : Except.map (fun x => x.1)
          (inUnits pre t ⟨UExpr.one, 1, 0, target.dim, true⟩
            (f.eval (mkEnv consts (effectiveParams reg eqv supplied) (xv * u.scale))) target) = .ok v := by
        cases m
        · exact h
        · simp only [] at h
          rw [convertToUnits_eq_inUnits] at h
          exact h
      have hd : ((target.dim != target.dim) = false) := by simp
      simp only [inUnits, getConversionFactor, hd, ht, Bool.false_eq_true, if_false,
        beq_self_eq_true, Bool.and_self, if_true, Except.map, applyFactor] at h
      injection h with h
      subst h
      simp only [toBase, hu, ht]
      have e1 : u.scale * (xv - 0) = xv * u.scale := by grind
      rw [e1]
      grind
    · simp [h1, h2, Except.map] at h
  · simp [h1, Except.map] at h

/-- an input on an offset scale is refused (no number is produced) whenever the chain touches
    the input with multiply / divide / subtract / add — or with power / sqrt in a library whose
    `Unit.__pow__` refuses offset units -/
theorem offset_input_refused {K : Type} [Add K] [Sub K] [Mul K] [Div K] [OfNat K 0] [OfNat K 1]
    [BEq K] [RPow K] [HasSqrt K] [OfRat K] [OfBits K] (pr : Option Err)
    (pre : Prefixes K) (t : Lut K) (reg : List EquivRec) (consts supplied : List (String × K))
    (m : Mode) (u target : UnitV K) (xv : K) (eqv : Option String) (f : Formula)
    (hroute : inUnitsRoute reg m u.dim target.dim eqv = .ok (.via f))
    (hx : (f.xInArith || (pr.isSome && f.xInPow)) = true) (ho : (u.offset != 0) = true) (v : K) :
    convertValue pr pre t reg consts supplied m u xv target eqv ≠ .ok v := by
  unfold convertValue convertState
  simp only [hroute]
  by_cases h1 : acceptsParams reg eqv (supplied.map (·.1)) = true
  · by_cases h2 : (f.atoms.all (bound consts (effectiveParams reg eqv supplied))) = true
    · by_cases h3 : f.xInArith = true
      · simp [h1, h2, ho, h3, Except.map]
      · have h4 : (pr.isSome && f.xInPow) = true := by simpa [h3] using hx
        simp only [Bool.and_eq_true] at h4
        simp [h1, h2, ho, h3, h4.1, h4.2, Except.map]
    · simp [h1, h2, Except.map]
  · simp [h1, Except.map]

/-- every chain of every equivalence except `effective_temperature` touches its input with
    multiply / divide / subtract, in both modes -/
theorem table_offset_refusal :
    (equivalences.filter (fun e => e.name != "effective_temperature")).all
      (EquivRec.refusesOffsetInput false) = true := by
  decide +kernel

/-- every chain of every equivalence touches its input with multiply / divide / subtract or
    with power / sqrt, in both modes -/
theorem table_offset_refusal_pow :
    equivalences.all (EquivRec.refusesOffsetInput true) = true := by
  decide +kernel

/-- full statement, for a library whose `power`/`sqrt` treat offset units as `pr` says: a
    reading on an offset temperature scale (°C, °F) is never silently converted as if it were
    absolute — no covered request with such an input yields a number.  The statement about the
    library being checked is `C09_offset_full Generated.powRefuses`. -/
def C09_offset_full (pr : Option Err) : Prop :=
  ∀ e ∈ equivalences, ∀ (m : Mode) (a b : Dim), a ∈ e.dims → b ∈ e.dims → a ≠ b →
    ∀ (K : Type) [Add K] [Sub K] [Mul K] [Div K] [OfNat K 0] [OfNat K 1] [BEq K] [RPow K]
      [HasSqrt K] [OfRat K] [OfBits K]
      (pre : Prefixes K) (t : Lut K) (consts supplied : List (String × K)) (u target : UnitV K)
      (xv : K), u.dim = a → target.dim = b → (u.offset != 0) = true →
        ∀ v, convertValue pr pre t equivalences consts supplied m u xv target (some e.name) ≠ .ok v

/-- whatever `power` does: it holds for every equivalence except `effective_temperature`,
    and for that one too when `power` refuses offset units (explicit guard) -/
theorem C09_offset_partial (pr : Option Err) :
    ∀ e ∈ equivalences, (e.name ≠ "effective_temperature" ∨ pr.isSome = true) →
    ∀ (m : Mode) (a b : Dim), a ∈ e.dims → b ∈ e.dims → a ≠ b →
    ∀ (K : Type) [Add K] [Sub K] [Mul K] [Div K] [OfNat K 0] [OfNat K 1] [BEq K] [RPow K]
      [HasSqrt K] [OfRat K] [OfBits K]
      (pre : Prefixes K) (t : Lut K) (consts supplied : List (String × K)) (u target : UnitV K)
      (xv : K), u.dim = a → target.dim = b → (u.offset != 0) = true →
        ∀ v, convertValue pr pre t equivalences consts supplied m u xv target (some e.name) ≠ .ok v := by
  intro e he hguard m a b ha hb hab K _ _ _ _ _ _ _ _ _ _ _ pre t consts supplied u target xv hua htb ho v
  obtain ⟨f, hroute, hmf⟩ := covered_request_converts e he m a b ha hb hab
  have hx : (f.xInArith || (pr.isSome && f.xInPow)) = true := by
    rcases hguard with hne | hpr
    · have h1 := table_offset_refusal
      rw [List.all_eq_true] at h1
      have h2 := h1 e (List.mem_filter.mpr ⟨he, by simpa using hne⟩)
      unfold EquivRec.refusesOffsetInput at h2
      rw [List.all_eq_true] at h2
      have h3 := h2 (a, b) (mem_orderedPairs ha hb hab)
      cases hc : e.modeFormula Mode.copy a b with
      | none => simp [hc] at h3
      | some f1 =>
        cases hi : e.modeFormula Mode.inplace a b with
        | none => simp [hc, hi] at h3
        | some f2 =>
          simp only [hc, hi, Bool.and_eq_true, Bool.false_and, Bool.or_false] at h3
          cases m
          · rw [hc] at hmf; injection hmf with hmf; subst hmf; simp [h3.1]
          · rw [hi] at hmf; injection hmf with hmf; subst hmf; simp [h3.2]
    · have h1 := table_offset_refusal_pow
      rw [List.all_eq_true] at h1
      have h2 := h1 e he
      unfold EquivRec.refusesOffsetInput at h2
      rw [List.all_eq_true] at h2
      have h3 := h2 (a, b) (mem_orderedPairs ha hb hab)
      cases hc : e.modeFormula Mode.copy a b with
      | none => simp [hc] at h3
      | some f1 =>
        cases hi : e.modeFormula Mode.inplace a b with
        | none => simp [hc, hi] at h3
        | some f2 =>
          simp only [hc, hi, Bool.and_eq_true, Bool.true_and] at h3
          cases m
          · rw [hc] at hmf; injection hmf with hmf; subst hmf; simpa [hpr] using h3.1
          · rw [hi] at hmf; injection hmf with hmf; subst hmf; simpa [hpr] using h3.2
  subst hua htb
  exact offset_input_refused pr pre t equivalences consts supplied m u target xv (some e.name) f
    (by simpa [inUnitsRoute] using hroute) hx ho v

/-- in a library whose `power`/`sqrt` refuse offset units the full statement holds -/
theorem C09_offset_holds_if_pow_refuses (err : Err) : C09_offset_full (some err) :=
  fun e he => C09_offset_partial (some err) e he (Or.inr rfl)

section counterexample
open RatCarrier

/-- °C as the regenerated unit table has it -/
def degCRat : UnitV Rat :=
  match (defaultLut Rat).find? "degC" with
  | some ent => ⟨⟨1, [("degC", 1)]⟩, ent.scale, ent.offset, ent.dim, true⟩
  | none => ⟨UExpr.one, 1, 0, Dim.one, true⟩

/-- the coherent SI unit of flux (W/m²) -/
def fluxSI : UnitV Rat := ⟨UExpr.one, 1, 0, Ref.C09.dFlux, true⟩

def constsRat : List (String × Rat) := equivConstants.map (fun c => (c.1, ratOfBits c.2.1))

/-- what the model of a library whose `power` accepts offset units (and such a unyt) returns for
    `(25 °C).to_equivalent("W/m**2", "effective_temperature")` -/
def offsetWitness : Except Err Rat :=
  convertValue none (defaultPrefixes Rat) (defaultLut Rat) equivalences constsRat [] .copy degCRat 25
    fluxSI (some "effective_temperature")

/-- **counterexample** (exact arithmetic on the regenerated tables) for a library whose
    `power` accepts offset units: 25 °C is converted to `σ·25⁴` (≈ 0.022 W/m²) — the reading
    taken as an absolute temperature — whereas the temperature it denotes, 298.15 K, radiates
    `σ·298.15⁴` (≈ 448 W/m²).  The harness replays this input on the real code on every run. -/
theorem C09_offset_counterexample :
    (match offsetWitness, constsRat.find? (fun c => c.1 == "σ") with
      | .ok v, some σ => v == σ.2 * 390625 && v != σ.2 * ((25 + 27315 / 100) ^ 4 : Rat) && decide (0 < σ.2)
      | _, _ => false) = true
    ∧ (degCRat.offset != 0) = true ∧ degCRat.dim = Ref.C09.dTemperature := by
  decide +kernel

/-- hence the full statement fails in such a library -/
theorem C09_offset_fails_if_pow_accepts : ¬ C09_offset_full none := by
  intro hfull
  have hw := C09_offset_counterexample
  cases hv : offsetWitness with
  | error e => simp [hv] at hw
  | ok v =>
    have hmem : ∃ e ∈ equivalences, e.name = "effective_temperature" ∧ Ref.C09.dTemperature ∈ e.dims
        ∧ Ref.C09.dFlux ∈ e.dims ∧ Ref.C09.dTemperature ≠ Ref.C09.dFlux := by decide +kernel
    obtain ⟨e, he, hn, ha, hb, hab⟩ := hmem
    have := hfull e he .copy _ _ ha hb hab Rat (defaultPrefixes Rat) (defaultLut Rat) constsRat []
      degCRat fluxSI 25 hw.2.2 rfl hw.2.1 v
    rw [hn] at this
    exact this hv

end counterexample

/-- the status of the clause follows the probe: the full statement holds exactly when `power`
    refuses offset units -/
theorem C09_offset_status :
    (∀ err, powRefuses = some err → C09_offset_full powRefuses)
    ∧ (powRefuses = none → ¬ C09_offset_full powRefuses) :=
  ⟨fun err h => h ▸ C09_offset_holds_if_pow_refuses err, fun h => h ▸ C09_offset_fails_if_pow_accepts⟩

/-- obligation on the regenerated probe (`np.multiply(k, np.power(1 °C, 4))` run by the translator
    on the tree being checked): a power of a reading on an offset scale is refused, by `power`
    itself or by the multiply applied to it.  True since unyt's `fix:`
    "Unit.__pow__ refusal" (811ae19); a tree in which the probe returns a number breaks this
    obligation (and `C09_offset_fails_if_pow_accepts` says what then goes wrong, with the input the
    harness replays). -/
theorem table_pow_refuses_offset : powRefuses.isSome = true := by decide +kernel

/-- the offset clause at full strength for the library being checked: a reading on an offset
    temperature scale is never silently converted as if it were absolute -/
theorem C09_offset_holds : C09_offset_full powRefuses := by
  cases h : powRefuses with
  | none => have := table_pow_refuses_offset; simp [h] at this
  | some err => exact C09_offset_holds_if_pow_refuses err

/-! ### in-place requests versus copying requests, at the level of the numbers -/

/-- for every ordered pair, the in-place chain leaves *syntactically* the formula the copy
    chain returns (so the two agree on every carrier, `Float` included) -/
theorem table_inplace_syntactic :
    equivalences.all (fun e => (orderedPairs e.dims).all (fun p =>
      e.modeFormula .inplace p.1 p.2 == e.modeFormula .copy p.1 p.2)) = true := by
  decide +kernel

/-- `convert_to_equivalent` / `convert_to_units(equivalence=)` leave in the array the reading and
    the unit label `to_equivalent` / `to` return: every covered request, every unit spelling, value
    and keyword, on every carrier.  In the model the two entry points differ in two places: the chain
    (`modeFormula .inplace` = what the recorded `out=x` chain leaves in the buffer, `.copy` = what the
    recorded copy chain returns) and the last step (`convertToUnits`, the in-place state update, vs
    `inUnits`). -/
def C09_inplace_full : Prop :=
  ∀ e ∈ equivalences, ∀ (a b : Dim), a ∈ e.dims → b ∈ e.dims → a ≠ b →
    ∀ (K : Type) [Add K] [Sub K] [Mul K] [Div K] [OfNat K 0] [OfNat K 1] [BEq K] [RPow K]
      [HasSqrt K] [OfRat K] [OfBits K] (pr : Option Err)
      (pre : Prefixes K) (t : Lut K) (consts supplied : List (String × K)) (u target : UnitV K)
      (xv : K), u.dim = a → target.dim = b →
        convertState pr pre t equivalences consts supplied .inplace u xv target (some e.name)
          = convertState pr pre t equivalences consts supplied .copy u xv target (some e.name)

/-- it holds.  What carries it: the kernel-decided `table_inplace_syntactic` / `table_inplace`
    over the regenerated chains (the content that depends on unyt's source: a chain that aliases
    its own input, drops an `out=`, or diverges from the copy chain fails there) and the agreement
    of the two final steps (`convertToUnits_eq_inUnits`).  The rest of `convertState` is shared by
    both modes by construction of the hand model, so this theorem adds nothing about what else
    `convert_to_equivalent` does to the array (dtype, `name`, views) — that is the direct oracle's
    and the correspondence's job. -/
theorem C09_inplace_holds : C09_inplace_full := by
  intro e he a b ha hb hab K _ _ _ _ _ _ _ _ _ _ _ pr pre t consts supplied u target xv hua htb
  obtain ⟨f, hrf, hmf⟩ := covered_request_converts e he .copy a b ha hb hab
  obtain ⟨g, hrg, hmg⟩ := covered_request_converts e he .inplace a b ha hb hab
  have h1 := table_inplace_syntactic
  rw [List.all_eq_true] at h1
  have h2 := h1 e he
  rw [List.all_eq_true] at h2
  have h3 := h2 (a, b) (mem_orderedPairs ha hb hab)
  simp only [beq_iff_eq] at h3
  have hfg : g = f := by
    rw [hmg, hmf] at h3
    injection h3
  subst hfg hua htb
  unfold convertState
  simp only [inUnitsRoute, hrf, hrg, convertToUnits_eq_inUnits]

/-- same-dimension requests too: `convert_to_units(u, equivalence=…)` / `convert_to_equivalent`
    agree with `to` / `to_equivalent` when the equivalence is not consulted -/
theorem inplace_equals_copy_same_dimension {K : Type} [Add K] [Sub K] [Mul K] [Div K] [OfNat K 0]
    [OfNat K 1] [BEq K] [RPow K] [HasSqrt K] [OfRat K] [OfBits K] (pr : Option Err)
    (pre : Prefixes K) (t : Lut K) (reg : List EquivRec) (consts supplied : List (String × K))
    (u target : UnitV K) (xv : K) (name : String) (hd : u.dim = target.dim) :
    convertState pr pre t reg consts supplied .inplace u xv target (some name)
      = convertState pr pre t reg consts supplied .copy u xv target (some name) := by
  unfold convertState
  simp only [inUnitsRoute, hd, same_dimension_is_plain, convertToUnits_eq_inUnits]

/-! ### `Unit.has_equivalent` / `list_equivalencies` -/

/-- `Unit.has_equivalent(name)` answers by the reference: for each of the nine equivalences and
    *every* dimension, the regenerated registry says "member" exactly when the hand-written
    reference lists the dimension (hence `list_equivalencies` prints exactly the reference's rows) -/
theorem has_equivalent_matches_reference (r : String × List Dim) (hr : r ∈ Ref.C09.registry) (d : Dim) :
    hasEquivalent equivalences d r.1 = .ok (r.2.contains d) := by
  have h1 := table_registry
  unfold Ref.C09.registryOk at h1
  rw [List.all_eq_true] at h1
  have h2 := h1 r hr
  unfold hasEquivalent
  cases he : findEquiv equivalences r.1 with
  | none => simp [he] at h2
  | some e =>
    simp only [he] at h2
    simp only [contains_of_sameDims h2 d]

/-- an unknown name is a `KeyError` -/
theorem has_equivalent_unknown (reg : List EquivRec) (d : Dim) (name : String)
    (h : findEquiv reg name = none) : hasEquivalent reg d name = .error .KeyError := by
  simp [hasEquivalent, h]

/-! ### the property at full strength -/

/-- C09, as a single statement about the regenerated table and the wrapper model -/
def C09_full : Prop :=
  -- there and back (monomial equivalences)
  (∀ e ∈ equivalences, e.name ≠ "lorentz" → ∀ a b, a ∈ e.dims → b ∈ e.dims → a ≠ b →
    ∀ ρ : String → ℝ, PosEnv ρ → ∀ x : ℝ, 0 < x →
      ∃ f g, e.formula a b = some f ∧ e.formula b a = some g ∧
        g.eval (withX ρ (f.eval (withX ρ x))) = x)
  -- via an intermediate member
  ∧ (∀ e ∈ equivalences, ∀ a b c, a ∈ e.dims → b ∈ e.dims → c ∈ e.dims → a ≠ b → a ≠ c → b ≠ c →
    ∀ ρ : String → ℝ, PosEnv ρ → ∀ x : ℝ, 0 < x →
      ∃ f g h, e.formula a b = some f ∧ e.formula b c = some g ∧ e.formula a c = some h ∧
        g.eval (withX ρ (f.eval (withX ρ x))) = h.eval (withX ρ x))
  -- the defining formula
  ∧ (∀ r ∈ Ref.C09.formulas, ∀ ρ : String → ℝ, PosEnv ρ →
      ∃ e f, findEquiv equivalences r.equiv = some e ∧ e.formula r.src r.dst = some f ∧
        f.eval ρ = r.formula.eval ρ)
  -- Lorentz, both ways
  ∧ (∀ ρ : String → ℝ, PosEnv ρ → ∀ v : ℝ, 0 < v → v < ρ "c.c" →
      ∃ e f g, findEquiv equivalences "lorentz" = some e ∧
        e.formula Ref.C09.dVelocity Ref.C09.dNone = some f ∧
        e.formula Ref.C09.dNone Ref.C09.dVelocity = some g ∧
        g.eval (withX ρ (f.eval (withX ρ v))) = v)
  ∧ (∀ ρ : String → ℝ, PosEnv ρ → ∀ γ : ℝ, 1 < γ →
      ∃ e f g, findEquiv equivalences "lorentz" = some e ∧
        e.formula Ref.C09.dVelocity Ref.C09.dNone = some f ∧
        e.formula Ref.C09.dNone Ref.C09.dVelocity = some g ∧
        f.eval (withX ρ (g.eval (withX ρ γ))) = γ)
  -- purity of the copying form, in-place = copy
  ∧ (∀ e ∈ equivalences, ∀ b ∈ e.branches, b.copyBuffer = some Formula.x)
  ∧ (∀ e ∈ equivalences, ∀ b ∈ e.branches, ∀ ρ : String → ℝ, PosEnv ρ →
      ∃ f g h, b.formula = some f ∧ b.inplaceFormula true = some g ∧ b.inplaceFormula false = some h ∧
        g.eval ρ = f.eval ρ ∧ h.eval ρ = f.eval ρ)
  -- uncovered requests raise, covered ones are served
  ∧ (∀ (reg : List EquivRec) (m : Mode) (xdim tdim : Dim) (name : String) (e : EquivRec),
      findEquiv reg name = some e → xdim ≠ tdim → (xdim ∉ e.dims ∨ tdim ∉ e.dims) →
        toEquivalent reg m xdim tdim name = .error .InvalidUnitEquivalence)
  ∧ (∀ e ∈ equivalences, ∀ (m : Mode) (a b : Dim), a ∈ e.dims → b ∈ e.dims → a ≠ b →
      ∃ f, toEquivalent equivalences m a b e.name = .ok (.via f) ∧ e.modeFormula m a b = some f)

theorem C09_holds : C09_full :=
  ⟨equiv_inverse, equiv_path, equiv_matches_reference, lorentz_inverse_v, lorentz_inverse_gamma,
   copy_is_pure, inplace_equals_copy,
   fun reg m xdim tdim name e hf hne hun => (uncovered_request_raises reg m xdim tdim name e hf hne hun).1,
   covered_request_converts⟩

/-! ### non-vacuity: concrete instances meeting the hypotheses -/

/-- a positive environment exists -/
example : PosEnv (fun _ => (2 : ℝ)) := fun _ => by norm_num

/-- `thermal` is a registered non-Lorentz equivalence relating two distinct dimensions -/
example : ∃ e ∈ equivalences, e.name = "thermal" ∧ e.name ≠ "lorentz" ∧
    Ref.C09.dTemperature ∈ e.dims ∧ Ref.C09.dEnergy ∈ e.dims ∧ Ref.C09.dTemperature ≠ Ref.C09.dEnergy := by
  decide +kernel

/-- `spectral` has ordered triples of distinct dimensions -/
example : ∃ e ∈ equivalences, e.name = "spectral" ∧
    Ref.C09.dLength ∈ e.dims ∧ Ref.C09.dRate ∈ e.dims ∧ Ref.C09.dEnergy ∈ e.dims ∧
    Ref.C09.dLength ≠ Ref.C09.dRate ∧ Ref.C09.dLength ≠ Ref.C09.dEnergy ∧ Ref.C09.dRate ≠ Ref.C09.dEnergy := by
  decide +kernel

/-- an uncovered request: mass → temperature through `thermal` -/
example : ∃ e, findEquiv equivalences "thermal" = some e ∧ Ref.C09.dMass ≠ Ref.C09.dTemperature ∧
    (Ref.C09.dMass ∉ e.dims ∨ Ref.C09.dTemperature ∉ e.dims) := by
  decide +kernel

/-- the Lorentz hypotheses are satisfiable: `0 < 1 < c = 2`, `1 < γ = 2` -/
example : (0 : ℝ) < 1 ∧ (1 : ℝ) < (fun _ : String => (2 : ℝ)) "c.c" ∧ (1 : ℝ) < 2 := by
  norm_num

end Unyt.C09
