/-
  C04 — arithmetic results do not depend on the units the operands are written in.

  The library returns `o.value F x₀ x₁ = o.mul * (F x₀ (x₁ * o.conv) * o.post)` labelled with
  `o.unit`, where `o` is the outcome of the dispatcher model (`UnytModel/UfuncValue.lean`) and
  `F` the numeric kernel.  The theorems say: for every kernel of the homogeneity class the
  rule is licensed for (`Ref/C04Classes.lean`), every pair of zero-offset units and all numbers,
  the SI magnitude `scale(o.unit) * value` is `F` of the operands' SI magnitudes and the
  dimension is the one dimensional analysis gives — over any field `K` (`Lean.Grind.Field`),
  with the positive part `P` of `K` abstract (instantiated with `0 < ·` over ℝ, where the
  classes are *proved* for the real functions, in `UnytProofs/Real/C04Homog.lean`).
  Kernel-decided table obligations tie every ufunc of the regenerated `_ufunc_registry` to the
  rule its class licenses.  Property statements only; helper lemmas are in `Lemmas/C04*.lean`.
-/
import UnytModel.UfuncValueCheck
import UnytProofs.Lemmas.C04

set_option linter.unusedSectionVars false

namespace Unyt.C04
open Unyt Unyt.UV Unyt.Ref.C04

variable {K : Type} [Lean.Grind.Field K] [BEq K] [LawfulBEq K] [RPow K]

/-! ### P-tab: the regenerated tables against the reference -/

/-- every rule function named in the regenerated `_ufunc_registry` is one the model has -/
theorem rules_are_known : rulesKnown = true := by decide +kernel

/-- each ufunc's regenerated rule is the one its hand-written homogeneity class licenses —
    outside the literal exclusion list (each entry a recorded finding, see below) -/
theorem rule_matches_class_partial : ruleMatchesClass exclC04 = true := by decide +kernel

/-- the full-strength table statement -/
def C04_table_full : Prop := ruleMatchesClass [] = true

/-- the excluded ufuncs really carry a rule their class does not license: an exclusion cannot
    outlive its finding -/
theorem excluded_rules_fail : exclusionsFail = true := by decide +kernel

theorem C04_table_counterexample : ¬ C04_table_full := by
  unfold C04_table_full; decide +kernel

/-- the tuples `__array_ufunc__` branches on (which rules rescale the second operand, which are
    followed by the post-multiplication block, which reductions are powers, which ufuncs get
    the radian conversion) are the reference ones -/
theorem dispatcher_tuples_match_ref : tuplesOk = true := by decide +kernel

/-- `POWER_MAPPING`: a product of `n` factors has the unit to the `n`, a left-to-right quotient
    of `n` numbers the unit to the `2 − n` -/
theorem power_mapping_matches_ref : powerMapOk = true := by decide +kernel

/-- every rule function of the live registry, called on the translator's probe units, returns
    what the model's rule function returns (coefficient, scale, dimension, expression, refusal) -/
theorem rule_probes_match_model : probesOk = true := by decide +kernel

theorem rule_probes_cover_table : probesCover = true := by decide +kernel

/-- the radian of the regenerated table is the SI unit of angle (scale 1, no offset) -/
theorem radian_is_SI_unit : radianOk = true := by decide +kernel

/-! ### sums, differences, extrema, remainders: the `preserve` / `difference` rules -/

/-- **Preserve-rule covariance.**  For every ufunc mapped to `_preserve_units`, every pair of
    commensurable zero-offset quantities: the call succeeds, the result is labelled with the
    *left* operand's unit, and for every kernel positively homogeneous of degree 1 its SI
    magnitude is the kernel of the operands' SI magnitudes. -/
theorem preserve_rule_covariant (ueq : UnitV K → UnitV K → Bool) (hueq : UeqSound ueq)
    (pre : Prefixes K) (t : Lut K) (f : String) (hf : ruleOf f = some .preserve)
    (u0 u1 : UnitV K) (z0 z1 : Bool) (h0 : u0.offset = 0) (h1 : u1.offset = 0) (hd : u0.dim = u1.dim)
    (hs : u0.scale ≠ 0) :
    ∃ o, dispatchBinary ueq pre t f ⟨some u0, z0⟩ ⟨some u1, z1⟩ none = .ok o ∧ o.unit = some u0 ∧ o.early = none ∧
      ∀ (P : K → Prop) (F : K → K → K), Hom1On P F → P u0.scale → ∀ x0 x1,
        o.si (o.value F x0 x1) = F (u0.scale * x0) (u1.scale * x1) := by
  have hc : Rule.preserve.converts = true := by decide
  have hpm : Rule.preserve.postMul = false := by decide
  have hp := preserveUnits_zero u0 u1 h1
  cases he : ueq u0 u1
  · refine ⟨⟨some u0, u1.scale / u0.scale, 1, 1, none⟩, ?_, rfl, rfl, ?_⟩
    · simp [dispatchBinary, binaryRule, effective_of_ne_floorDivide, hf, h1, hc, hpm, he, hd, conv_zero_offsets pre t u1 u0 h1 h0 hd.symm, hp]
    · intro P F hF hP x0 x1
      simp only [Out.si, Out.value, Out.arg1]
      have := hF _ hP x0 (x1 * (u1.scale / u0.scale))
      grind
  · obtain ⟨e1, _, _⟩ := hueq _ _ he
    refine ⟨⟨some u0, 1, 1, 1, none⟩, ?_, rfl, rfl, ?_⟩
    · simp [dispatchBinary, binaryRule, effective_of_ne_floorDivide, hf, h1, hc, hpm, he, hp]
    · intro P F hF hP x0 x1
      simp only [Out.si, Out.value, Out.arg1]
      have := hF _ hP x0 x1
      grind

example : ruleOf "add" = some .preserve ∧ ruleOf "maximum" = some .preserve ∧ ruleOf "hypot" = some .preserve
    ∧ ruleOf "remainder" = some .preserve := by decide

/-- the same for `subtract` (`_difference_units`) away from the temperature dimension (the
    temperature branch is C08's subject) -/
theorem difference_rule_covariant (ueq : UnitV K → UnitV K → Bool) (hueq : UeqSound ueq)
    (pre : Prefixes K) (t : Lut K) (f : String) (hf : ruleOf f = some .difference)
    (u0 u1 : UnitV K) (z0 z1 : Bool) (h0 : u0.offset = 0) (h1 : u1.offset = 0) (hd : u0.dim = u1.dim)
    (hT : isTemperature u0 = false) (hs : u0.scale ≠ 0) :
    ∃ o, dispatchBinary ueq pre t f ⟨some u0, z0⟩ ⟨some u1, z1⟩ none = .ok o ∧ o.unit = some u0 ∧ o.early = none ∧
      ∀ (P : K → Prop) (F : K → K → K), Hom1On P F → P u0.scale → ∀ x0 x1,
        o.si (o.value F x0 x1) = F (u0.scale * x0) (u1.scale * x1) := by
  have hc : Rule.difference.converts = true := by decide
  have hpm : Rule.difference.postMul = false := by decide
  have hp := preserveUnits_zero u0 u1 h1
  cases he : ueq u0 u1
  · refine ⟨⟨some u0, u1.scale / u0.scale, 1, 1, none⟩, ?_, rfl, rfl, ?_⟩
    · simp [dispatchBinary, binaryRule, effective_of_ne_floorDivide, differenceUnits, hT, hf, hc, hpm, he, hd,
        conv_zero_offsets pre t u1 u0 h1 h0 hd.symm, hp, Except.map, preserveUnits_fst]
    · intro P F hF hP x0 x1
      simp only [Out.si, Out.value, Out.arg1]
      have := hF _ hP x0 (x1 * (u1.scale / u0.scale))
      grind
  · obtain ⟨e1, _, _⟩ := hueq _ _ he
    refine ⟨⟨some u0, 1, 1, 1, none⟩, ?_, rfl, rfl, ?_⟩
    · simp [dispatchBinary, binaryRule, effective_of_ne_floorDivide, differenceUnits, hT, hf, hc, hpm, he, hp, Except.map, preserveUnits_fst]
    · intro P F hF hP x0 x1
      simp only [Out.si, Out.value, Out.arg1]
      have := hF _ hP x0 x1
      grind

example : ruleOf "subtract" = some .difference := by decide

/-- a bare all-zero left operand adopts the quantity's unit: the sum comes back in the unit of
    the left-most *quantity* operand and the numbers are not rescaled -/
theorem add_bare_zero_left (ueq : UnitV K → UnitV K → Bool) (pre : Prefixes K) (t : Lut K)
    (u1 : UnitV K) (h1 : u1.offset = 0) (hne : ueq UnitV.dimensionless u1 = false) (hs : u1.scale ≠ 0) :
    ∃ o, dispatchBinary ueq pre t "add" ⟨none, true⟩ ⟨some u1, false⟩ none = .ok o ∧ o.unit = some u1
      ∧ ∀ (F : K → K → K) x0 x1, o.value F x0 x1 = F x0 x1 := by
  have hf : ruleOf "add" = some .preserve := by decide
  have hc : Rule.preserve.converts = true := by decide
  have hpm : Rule.preserve.postMul = false := by decide
  have hp := preserveUnits_zero u1 u1 h1
  refine ⟨⟨some u1, u1.scale / u1.scale, 1, 1, none⟩, ?_, rfl, ?_⟩
  · simp [dispatchBinary, binaryRule, effective_of_ne_floorDivide, hf, h1, hc, hpm, hne, conv_zero_offsets pre t u1 u1 h1 h1 rfl, hp]
  · intro F x0 x1
    simp only [Out.value, Out.arg1]
    have : x1 * (u1.scale / u1.scale) = x1 := by grind
    rw [this]; grind

/-! ### products and quotients: the `multiply` / `divide` rules, whatever `simplify` did -/

/-- **Multiply-rule covariance.**  Whenever the dispatcher returns an outcome for a ufunc mapped
    to `_multiply_units` on two zero-offset quantities — *whatever* cancellations
    `Unit.simplify` performed, i.e. for any non-zero coefficient it extracted — the dimension of
    the result is the product of the dimensions and, for every bilinear kernel, the SI magnitude
    is the kernel of the SI magnitudes.  Covers the branch in which the scale of a
    dimensionless-ratio result is multiplied into the numbers. -/
theorem multiply_rule_covariant (ueq : UnitV K → UnitV K → Bool) (pre : Prefixes K) (t : Lut K)
    (f : String) (hf : ruleOf f = some .multiply)
    (u0 u1 : UnitV K) (z0 z1 : Bool) (h0 : u0.offset = 0) (h1 : u1.offset = 0)
    (o : Out K) (h : dispatchBinary ueq pre t f ⟨some u0, z0⟩ ⟨some u1, z1⟩ none = .ok o) (hm : o.mul ≠ 0) :
    ∃ ur, o.unit = some ur ∧ ur.dim = u0.dim * u1.dim ∧ o.early = none ∧
      ∀ (F : K → K → K), BiHom F → ∀ x0 x1,
        o.si (o.value F x0 x1) = F (u0.scale * x0) (u1.scale * x1) := by
  have hc : Rule.multiply.converts = false := by decide
  have hp : Rule.multiply.postMul = true := by decide
  simp [dispatchBinary, binaryRule, effective_of_ne_floorDivide, hf, hc, hp, Except.map] at h
  split at h; · contradiction
  · rename_i heq
    split at heq <;> simp at heq
  rename_i m unit heq
  split at heq; · contradiction
  rename_i mu hmu
  simp at heq
  obtain ⟨rfl, rfl⟩ := heq
  obtain ⟨a, b, c⟩ := multiplyUnits_ok pre t u0 u1 mu.2 mu.1 h0 h1 hmu
  obtain ⟨e1, e2, e3, e4⟩ := postMulBlock_ok u0 u1 mu.2 1 mu.1 o h
  rw [e1] at hm
  rcases e4 with ⟨e5, e6⟩ | ⟨e5, e6, e7⟩
  · refine ⟨mu.2, e5, b, e3, ?_⟩
    intro F hF x0 x1
    simp only [Out.si, Out.value, Out.arg1, e5, e1, e2, e6, a]
    have := hF u0.scale u1.scale x0 x1
    grind
  · refine ⟨UnitV.dimensionless, e5, ?_, e3, ?_⟩
    · rw [← b, e7]; rfl
    · intro F hF x0 x1
      simp only [Out.si, Out.value, Out.arg1, e5, e1, e2, e6, a, UnitV.dimensionless]
      have := hF u0.scale u1.scale x0 x1
      grind

example : ruleOf "multiply" = some .multiply ∧ ruleOf "matmul" = some .multiply ∧ ruleOf "vecdot" = some .multiply := by
  decide

/-- **Divide-rule covariance**, for kernels of degree (1, −1) -/
theorem divide_rule_covariant (ueq : UnitV K → UnitV K → Bool) (pre : Prefixes K) (t : Lut K)
    (f : String) (hf : ruleOf f = some .divide)
    (u0 u1 : UnitV K) (z0 z1 : Bool) (h0 : u0.offset = 0) (h1 : u1.offset = 0)
    (o : Out K) (h : dispatchBinary ueq pre t f ⟨some u0, z0⟩ ⟨some u1, z1⟩ none = .ok o) (hm : o.mul ≠ 0) :
    ∃ ur, o.unit = some ur ∧ ur.dim = u0.dim / u1.dim ∧ o.early = none ∧
      ∀ (P : K → Prop) (F : K → K → K), RatioHomOn P F → P u1.scale → ∀ x0 x1,
        o.si (o.value F x0 x1) = F (u0.scale * x0) (u1.scale * x1) := by
  have hc : Rule.divide.converts = false := by decide
  have hp : Rule.divide.postMul = true := by decide
  simp [dispatchBinary, binaryRule, effective_of_ne_floorDivide, hf, hc, hp, Except.map] at h
  split at h; · contradiction
  · rename_i heq
    split at heq <;> simp at heq
  rename_i m unit heq
  split at heq; · contradiction
  rename_i mu hmu
  simp at heq
  obtain ⟨rfl, rfl⟩ := heq
  obtain ⟨a, b, c⟩ := divideUnits_ok pre t u0 u1 mu.2 mu.1 h0 h1 hmu
  obtain ⟨e1, e2, e3, e4⟩ := postMulBlock_ok u0 u1 mu.2 1 mu.1 o h
  rw [e1] at hm
  rcases e4 with ⟨e5, e6⟩ | ⟨e5, e6, e7⟩
  · refine ⟨mu.2, e5, b, e3, ?_⟩
    intro P F hF hP x0 x1
    simp only [Out.si, Out.value, Out.arg1, e5, e1, e2, e6, a]
    have := hF u0.scale u1.scale hP x0 x1
    grind
  · refine ⟨UnitV.dimensionless, e5, ?_, e3, ?_⟩
    · rw [← b, e7]; rfl
    · intro P F hF hP x0 x1
      simp only [Out.si, Out.value, Out.arg1, e5, e1, e2, e6, a, UnitV.dimensionless]
      have := hF u0.scale u1.scale hP x0 x1
      grind

example : ruleOf "divide" = some .divide := by decide

/-! ### comparisons, `arctan2`: kernels of joint degree 0 -/

/-- **Comparison covariance.**  For every ufunc mapped to `_comparison_unit` or `_arctan2_unit`
    and commensurable zero-offset quantities the call succeeds, nothing is multiplied onto the
    result, the label is none (resp. dimensionless), and for every kernel of joint degree 0
    (into any type — `Bool` for the orderings) the result is the kernel of the SI magnitudes. -/
theorem comparison_covariant (ueq : UnitV K → UnitV K → Bool) (hueq : UeqSound ueq)
    (pre : Prefixes K) (t : Lut K) (f : String) (r : Rule) (hf : ruleOf f = some r)
    (hr : r = .comparison ∨ r = .arctan2 ∨ r = .floorDivide)
    (u0 u1 : UnitV K) (z0 z1 : Bool) (h0 : u0.offset = 0) (h1 : u1.offset = 0) (hd : u0.dim = u1.dim)
    (hs : u0.scale ≠ 0) (hdiv : r = .floorDivide → ∃ z, u0.div u1 = .ok z) :
    ∃ o, dispatchBinary ueq pre t f ⟨some u0, z0⟩ ⟨some u1, z1⟩ none = .ok o ∧ o.early = none
      ∧ o.mul = 1 ∧ o.post = 1
      ∧ o.unit = (if r = .comparison then none else some UnitV.dimensionless)
      ∧ ∀ {β : Type} (P : K → Prop) (F : K → K → β), Deg0On P F → P u0.scale → ∀ x0 x1,
        F x0 (o.arg1 x1) = F (u0.scale * x0) (u1.scale * x1) := by
  have hc : r.converts = true := by rcases hr with rfl | rfl | rfl <;> decide
  have hpm : r.postMul = false := by rcases hr with rfl | rfl | rfl <;> decide
  have hE : r.effective (u0.dim != u1.dim) = r := by
    have : (u0.dim != u1.dim) = false := by simp [hd]
    rw [this]; exact effective_false r
  cases he : ueq u0 u1
  · refine ⟨⟨if r = .comparison then none else some UnitV.dimensionless, u1.scale / u0.scale, 1, 1, none⟩,
      ?_, rfl, rfl, rfl, rfl, ?_⟩
    · rcases hr with rfl | rfl | rfl
      · simp [dispatchBinary, binaryRule, hf, hE, effective_false, hc, hpm, he, hd, conv_zero_offsets pre t u1 u0 h1 h0 hd.symm]
      · simp [dispatchBinary, binaryRule, hf, hE, effective_false, hc, hpm, he, hd, conv_zero_offsets pre t u1 u0 h1 h0 hd.symm]
      · obtain ⟨z, hz⟩ := hdiv rfl
        simp [dispatchBinary, binaryRule, hf, hE, effective_false, hc, hpm, he, hd, conv_zero_offsets pre t u1 u0 h1 h0 hd.symm, hz]
    · intro β P F hF hP x0 x1
      simp only [Out.arg1]
      have := hF _ hP x0 (x1 * (u1.scale / u0.scale))
      rw [← this]; congr 1; grind
  · obtain ⟨e1, _, _⟩ := hueq _ _ he
    refine ⟨⟨if r = .comparison then none else some UnitV.dimensionless, 1, 1, 1, none⟩,
      ?_, rfl, rfl, rfl, rfl, ?_⟩
    · rcases hr with rfl | rfl | rfl
      · simp [dispatchBinary, binaryRule, hf, hE, effective_false, hc, hpm, he]
      · simp [dispatchBinary, binaryRule, hf, hE, effective_false, hc, hpm, he]
      · obtain ⟨z, hz⟩ := hdiv rfl
        simp [dispatchBinary, binaryRule, hf, hE, effective_false, hc, hpm, he, hz]
    · intro β P F hF hP x0 x1
      simp only [Out.arg1]
      have := hF _ hP x0 x1
      have e : x1 * 1 = x1 := by grind
      rw [e, ← e1, this]

example : ruleOf "less" = some .comparison ∧ ruleOf "equal" = some .comparison ∧ ruleOf "arctan2" = some .arctan2
    ∧ ruleOf "floor_divide" = some .floorDivide := by
  decide

/-! ### `copysign`: degree 1 in the first argument, 0 in the second -/

/-- **Pass-through rule (binary).**  The result carries the first operand's unit, the second
    operand is not rescaled (and need not be commensurable); covariant for kernels of degree
    (1, 0). -/
theorem passthrough_binary_covariant (ueq : UnitV K → UnitV K → Bool) (pre : Prefixes K) (t : Lut K)
    (f : String) (hf : ruleOf f = some .passthrough) (u0 u1 : UnitV K) (z0 z1 : Bool) :
    ∃ o, dispatchBinary ueq pre t f ⟨some u0, z0⟩ ⟨some u1, z1⟩ none = .ok o ∧ o.unit = some u0 ∧
      ∀ (P : K → Prop) (F : K → K → K), Hom1FirstOn P F → P u0.scale → P u1.scale → ∀ x0 x1,
        o.si (o.value F x0 x1) = F (u0.scale * x0) (u1.scale * x1) := by
  have hc : Rule.passthrough.converts = false := by decide
  have hpm : Rule.passthrough.postMul = false := by decide
  refine ⟨⟨some u0, 1, 1, 1, none⟩, ?_, rfl, ?_⟩
  · simp [dispatchBinary, binaryRule, effective_of_ne_floorDivide, hf, hc, hpm]
  · intro P F hF hP0 hP1 x0 x1
    simp only [Out.si, Out.value, Out.arg1]
    have := hF _ _ hP0 hP1 x0 x1
    grind

example : ruleOf "copysign" = some .passthrough := by decide

/-! ### powers and roots -/

/-- **Power rule.**  `x ** p` carries the unit to the power `p` (scale `s ** p`, dimension to the
    `p`); covariant for kernels of degree `p` — in particular for `x ↦ x ** p` on positive
    reals (`Real/C04Homog.lean`). -/
theorem power_rule (ueq : UnitV K → UnitV K → Bool) (pre : Prefixes K) (t : Lut K)
    (u0 : UnitV K) (z0 z1 : Bool) (p : Rat) (o : Out K)
    (h : dispatchBinary ueq pre t "power" ⟨some u0, z0⟩ ⟨none, z1⟩ (some p) = .ok o) :
    ∃ ur, o.unit = some ur ∧ ur.scale = RPow.rpow u0.scale p ∧ ur.dim = u0.dim.pow p ∧ ur.offset = 0 ∧
      ∀ (P : K → Prop) (G : K → K), DegreeOn P p G → P u0.scale → ∀ x0 x1,
        o.si (o.value (fun a _ => G a) x0 x1) = G (u0.scale * x0) := by
  have hf : ruleOf "power" = some .power := by decide
  simp [dispatchBinary, hf, Except.map] at h
  split at h; · contradiction
  rename_i ur hur
  obtain ⟨a, b, c, _⟩ := pow_ok u0 ur p hur
  cases h
  refine ⟨ur, rfl, a, b, c, ?_⟩
  intro P G hG hP x0 x1
  simp only [Out.si, Out.value, a]
  have := hG _ hP x0
  grind

/-- **Unary power-type rules** (`sqrt`, `cbrt`, `reciprocal`): the unit is raised to the
    rule's degree, which is the degree the reference gives the ufunc -/
theorem unary_degree_rule (ueq : UnitV K → UnitV K → Bool) (pre : Prefixes K) (t : Lut K)
    (f : String) (r : Rule) (q : Rat) (hf : ruleOf f = some r)
    (hr : (r = .sqrt ∧ q = 1 / 2) ∨ (r = .cbrt ∧ q = 1 / 3) ∨ (r = .reciprocal ∧ q = -1))
    (hnt : Generated.C04.trigOperators.contains f = false) (hnr : Generated.C04.reducePowerUfuncs.contains f = false)
    (u : UnitV K) (n : Nat) (o : UOut K) (h : dispatchUnary ueq pre t f "__call__" u n = .ok o) :
    ruleDegree r = some q ∧
    ∃ ur, o.unit = some ur ∧ ur.scale = RPow.rpow u.scale q ∧ ur.dim = u.dim.pow q ∧ ur.offset = 0 ∧
      ∀ (P : K → Prop) (G : K → K), DegreeOn P q G → P u.scale → ∀ x,
        ur.scale * o.value G x = G (u.scale * x) := by
  have key : ∀ v, u.pow q = .ok v → o = ⟨some v, 1, none⟩ →
      ∃ ur, o.unit = some ur ∧ ur.scale = RPow.rpow u.scale q ∧ ur.dim = u.dim.pow q ∧ ur.offset = 0 ∧
      ∀ (P : K → Prop) (G : K → K), DegreeOn P q G → P u.scale → ∀ x,
        ur.scale * o.value G x = G (u.scale * x) := by
    intro v hv ho
    obtain ⟨a, b, c, _⟩ := pow_ok u v q hv
    subst ho
    refine ⟨v, rfl, a, b, c, ?_⟩
    intro P G hG hP x
    simp only [UOut.value, a]
    have := hG _ hP x
    grind
  rcases hr with ⟨rfl, rfl⟩ | ⟨rfl, rfl⟩ | ⟨rfl, rfl⟩ <;>
  · refine ⟨rfl, ?_⟩
    rw [dispatchUnary_plain ueq pre t f "__call__" _ hf hnt hnr] at h
    simp only [unaryRule, Except.map] at h
    split at h; · contradiction
    rename_i pr hpr
    split at hpr; · contradiction
    rename_i v hv
    cases hpr
    exact key v hv (by cases h; rfl)

example : ruleOf "sqrt" = some .sqrt ∧ ruleOf "cbrt" = some .cbrt ∧ ruleOf "reciprocal" = some .reciprocal := by decide

/-- `square` is computed as `unit * unit` -/
theorem square_rule (ueq : UnitV K → UnitV K → Bool) (pre : Prefixes K) (t : Lut K)
    (u : UnitV K) (h0 : u.offset = 0) (n : Nat) (o : UOut K)
    (h : dispatchUnary ueq pre t "square" "__call__" u n = .ok o) :
    ∃ ur, o.unit = some ur ∧ ur.scale = u.scale * u.scale ∧ ur.dim = u.dim * u.dim ∧
      ∀ (G : K → K), SquareHom G → ∀ x, ur.scale * o.value G x = G (u.scale * x) := by
  have hf : ruleOf "square" = some .square := by decide
  have hnt : Generated.C04.trigOperators.contains "square" = false := by decide
  have hnr : Generated.C04.reducePowerUfuncs.contains "square" = false := by decide
  rw [dispatchUnary_plain ueq pre t "square" "__call__" _ hf hnt hnr] at h
  simp only [unaryRule, Except.map] at h
  split at h; · contradiction
  rename_i pr hpr
  split at hpr; · contradiction
  rename_i v hv
  cases hpr
  obtain ⟨a, b, _, _⟩ := mul_zero_offsets u u v h0 h0 hv
  cases h
  refine ⟨v, rfl, a, b, ?_⟩
  intro G hG x
  simp only [UOut.value, a]
  have := hG u.scale x
  grind

/-- **Pass-through rule (unary)**: `negative`, `absolute`, `fabs`, `conjugate`, `positive`, and
    `reduce`/`accumulate` of the `preserve` ufuncs keep the unit; covariant for degree 1 -/
theorem unary_keep_unit_rule (ueq : UnitV K → UnitV K → Bool) (pre : Prefixes K) (t : Lut K)
    (f method : String) (r : Rule) (hf : ruleOf f = some r) (hr : r = .passthrough ∨ r = .preserve)
    (hnt : Generated.C04.trigOperators.contains f = false) (hnr : Generated.C04.reducePowerUfuncs.contains f = false)
    (u : UnitV K) (n : Nat) :
    ∃ o, dispatchUnary ueq pre t f method u n = .ok o ∧ o.unit = some u ∧
      ∀ (P : K → Prop) (G : K → K), Hom1UnaryOn P G → P u.scale → ∀ x,
        u.scale * o.value G x = G (u.scale * x) := by
  refine ⟨⟨some u, 1, none⟩, ?_, rfl, ?_⟩
  · rw [dispatchUnary_plain ueq pre t f method _ hf hnt hnr]
    rcases hr with rfl | rfl <;> simp [unaryRule, preserveUnits, Except.map]
  · intro P G hG hP x
    simp only [UOut.value]
    have := hG _ hP x
    grind

example : ruleOf "negative" = some .passthrough ∧ ruleOf "absolute" = some .passthrough := by decide

/-- **No-unit rule (unary)**: `sign`, `isnan`, … return bare numbers; covariant for degree 0 -/
theorem unary_without_unit_rule (ueq : UnitV K → UnitV K → Bool) (pre : Prefixes K) (t : Lut K)
    (f : String) (hf : ruleOf f = some .withoutUnit)
    (hnt : Generated.C04.trigOperators.contains f = false) (hnr : Generated.C04.reducePowerUfuncs.contains f = false)
    (u : UnitV K) (n : Nat) :
    ∃ o, dispatchUnary ueq pre t f "__call__" u n = .ok o ∧ o.unit = none ∧ o.mul = 1 ∧ o.inConv = none := by
  refine ⟨⟨none, 1, none⟩, ?_, rfl, rfl, rfl⟩
  rw [dispatchUnary_plain ueq pre t f "__call__" _ hf hnt hnr]
  simp [unaryRule, Except.map]

/-! ### reductions of multiply / divide as powers -/

/-- **Reduce as power.**  `np.multiply.reduce` over `n` numbers in unit `u` is labelled `u ** n`
    and `np.divide.reduce` `u ** (2 − n)`: scale `s ** n` resp. `s ** (2 − n)`. -/
theorem reduce_as_power (ueq : UnitV K → UnitV K → Bool) (pre : Prefixes K) (t : Lut K)
    (u : UnitV K) (hA : isAngle u = false) (n : Nat) (o : UOut K) :
    (dispatchUnary ueq pre t "multiply" "reduce" u n = .ok o →
      ∃ ur, o.unit = some ur ∧ ur.scale = RPow.rpow u.scale (n : Int) ∧ ur.dim = u.dim.pow (n : Int) ∧ o.mul = 1) ∧
    (dispatchUnary ueq pre t "divide" "reduce" u n = .ok o →
      ∃ ur, o.unit = some ur ∧ ur.scale = RPow.rpow u.scale ((2 - n : Int) : Rat) ∧
        ur.dim = u.dim.pow ((2 - n : Int) : Rat) ∧ o.mul = 1) := by
  have hm : Generated.C04.reducePowerUfuncs.contains "multiply" = true := by decide
  have hd : Generated.C04.reducePowerUfuncs.contains "divide" = true := by decide
  have cm : powerCoeffs "multiply" = some (1, 0) := by decide
  have cd : powerCoeffs "divide" = some (-1, 2) := by decide
  have pm : powerMap "multiply" n = some (n : Int) := by simp [powerMap, cm]
  have pd : powerMap "divide" n = some (2 - n : Int) := by simp [powerMap, cd]; omega
  constructor
  · intro h
    rw [dispatchUnary_reduce ueq pre t "multiply" u hA hm n _ pm] at h
    simp only [Except.map] at h
    split at h; · contradiction
    rename_i v hv
    obtain ⟨a, b, _, _⟩ := pow_ok u v _ hv
    cases h
    exact ⟨v, rfl, by simpa using a, by simpa using b, rfl⟩
  · intro h
    rw [dispatchUnary_reduce ueq pre t "divide" u hA hd n _ pd] at h
    simp only [Except.map] at h
    split at h; · contradiction
    rename_i v hv
    obtain ⟨a, b, _, _⟩ := pow_ok u v _ hv
    cases h
    exact ⟨v, rfl, by simpa using a, by simpa using b, rfl⟩

/-! ### trigonometric functions of angles -/

/-- **Trig of an angle.**  For `sin`/`cos`/`tan` of a zero-offset angle quantity the kernel
    receives the SI (radian) magnitude `scale * x` — given that the table's `rad` has scale 1
    and no offset, which `radian_is_SI_unit` decides for the regenerated table — and the result
    is a bare number. -/
theorem trig_of_angle (ueq : UnitV K → UnitV K → Bool) (pre : Prefixes K) (t : Lut K)
    (f : String) (hf : ruleOf f = some .withoutUnit) (ht : Generated.C04.trigOperators.contains f = true)
    (u : UnitV K) (hA : isAngle u = true) (h0 : u.offset = 0) (e : Entry K) (hrad : resolve pre t "rad" = some e)
    (he : e.scale = 1 ∧ e.offset = 0 ∧ e.dim = Dim.dAngle) (n : Nat) :
    ∃ o, dispatchUnary ueq pre t f "__call__" u n = .ok o ∧ o.unit = none ∧
      ∀ (G : K → K) x, o.value G x = G (u.scale * x) := by
  have hnr : Generated.C04.reducePowerUfuncs.contains f = false := by
    have : Generated.C04.trigOperators = ["sin", "cos", "tan"] := by decide
    rw [this] at ht
    simp at ht
    rcases ht with rfl | rfl | rfl <;> decide
  have hud : u.dim = Dim.dAngle := by
    simp [isAngle] at hA; exact hA.2
  obtain ⟨es, eo, ed⟩ := he
  have hconv : getConversionFactor pre t u ⟨UExpr.sym "rad", e.scale, e.offset, e.dim, true⟩
      = .ok (u.scale / e.scale, none) := conv_zero_offsets pre t u _ h0 eo (by simp [hud, ed])
  refine ⟨⟨none, 1, some (u.scale / e.scale, none)⟩, ?_, rfl, ?_⟩
  · simp only [dispatchUnary, hA, ht, hnr, Bool.and_self, if_true, tableUnit, hrad, hconv, Except.map, hf,
      unaryRule, Bool.false_and, Bool.false_eq_true, if_false]
  · intro G x
    simp only [UOut.value, applyFactor, es]
    have : x * (u.scale / 1) = u.scale * x := by grind
    rw [this]; grind

example : ruleOf "sin" = some .withoutUnit ∧ Generated.C04.trigOperators.contains "sin" = true := by decide

/-! ### `dot`, `__pow__` -/

/-- **dot.**  `a.dot(b)` is labelled `a.units * b.units` (no simplification) and the numbers are
    the raw `ndarray.dot`: covariant for bilinear kernels. -/
theorem dot_rule (u0 u1 : UnitV K) (h0 : u0.offset = 0) (h1 : u1.offset = 0) (o : Out K)
    (h : dotUnits u0 u1 = .ok o) :
    ∃ ur, o.unit = some ur ∧ ur.dim = u0.dim * u1.dim ∧
      ∀ (F : K → K → K), BiHom F → ∀ x0 x1, o.si (o.value F x0 x1) = F (u0.scale * x0) (u1.scale * x1) := by
  simp only [dotUnits, Except.map] at h
  split at h; · contradiction
  rename_i v hv
  obtain ⟨a, b, _, _⟩ := mul_zero_offsets u0 u1 v h0 h1 hv
  cases h
  refine ⟨v, rfl, b, ?_⟩
  intro F hF x0 x1
  simp only [Out.si, Out.value, Out.arg1, a]
  have := hF u0.scale u1.scale x0 x1
  grind

/-- `x ** 0` is the dimensionless one whatever the unit -/
theorem pow_zero_rule (ueq : UnitV K → UnitV K → Bool) (pre : Prefixes K) (t : Lut K) (u : UnitV K) :
    ∃ o, powDunder ueq pre t u 0 = .ok o ∧ o.unit = some UnitV.dimensionless := by
  exact ⟨⟨some UnitV.dimensionless, 1, 1, 1, none⟩, by simp [powDunder], rfl⟩

/-! ### re-expression invariance -/

/-- **Re-expression invariance (sums, extrema, remainders).**  Writing either operand in another
    commensurable zero-offset unit (same SI magnitudes) changes the result only by
    re-expression: same SI magnitude, and each result is labelled with its own left operand's
    unit. -/
theorem reexpression_invariance_preserve (ueq : UnitV K → UnitV K → Bool) (hueq : UeqSound ueq)
    (pre : Prefixes K) (t : Lut K) (f : String) (hf : ruleOf f = some .preserve)
    (u0 u1 v0 v1 : UnitV K) (z0 z1 : Bool)
    (hu0 : u0.offset = 0) (hu1 : u1.offset = 0) (hv0 : v0.offset = 0) (hv1 : v1.offset = 0)
    (hd : u0.dim = u1.dim) (hd0 : v0.dim = u0.dim) (hd1 : v1.dim = u1.dim)
    (hs : u0.scale ≠ 0) (hs' : v0.scale ≠ 0)
    (x0 x1 y0 y1 : K) (e0 : u0.scale * x0 = v0.scale * y0) (e1 : u1.scale * x1 = v1.scale * y1) :
    ∃ o o', dispatchBinary ueq pre t f ⟨some u0, z0⟩ ⟨some u1, z1⟩ none = .ok o
      ∧ dispatchBinary ueq pre t f ⟨some v0, z0⟩ ⟨some v1, z1⟩ none = .ok o'
      ∧ o.unit = some u0 ∧ o'.unit = some v0
      ∧ ∀ (P : K → Prop) (F : K → K → K), Hom1On P F → P u0.scale → P v0.scale →
          o.si (o.value F x0 x1) = o'.si (o'.value F y0 y1) := by
  obtain ⟨o, h1, h2, _, h3⟩ := preserve_rule_covariant ueq hueq pre t f hf u0 u1 z0 z1 hu0 hu1 hd hs
  obtain ⟨o', h1', h2', _, h3'⟩ := preserve_rule_covariant ueq hueq pre t f hf v0 v1 z0 z1 hv0 hv1
    (by rw [hd0, hd1, hd]) hs'
  refine ⟨o, o', h1, h1', h2, h2', ?_⟩
  intro P F hF hP hP'
  rw [h3 P F hF hP, h3' P F hF hP', e0, e1]

/-- **Re-expression invariance (products).**  Whatever `simplify` cancels in either spelling,
    the two results have the same SI magnitude and the same dimension. -/
theorem reexpression_invariance_multiply (ueq : UnitV K → UnitV K → Bool) (pre : Prefixes K) (t : Lut K)
    (f : String) (hf : ruleOf f = some .multiply) (u0 u1 v0 v1 : UnitV K) (z0 z1 : Bool)
    (hu0 : u0.offset = 0) (hu1 : u1.offset = 0) (hv0 : v0.offset = 0) (hv1 : v1.offset = 0)
    (hd0 : v0.dim = u0.dim) (hd1 : v1.dim = u1.dim)
    (o o' : Out K) (h : dispatchBinary ueq pre t f ⟨some u0, z0⟩ ⟨some u1, z1⟩ none = .ok o)
    (h' : dispatchBinary ueq pre t f ⟨some v0, z0⟩ ⟨some v1, z1⟩ none = .ok o')
    (hm : o.mul ≠ 0) (hm' : o'.mul ≠ 0)
    (x0 x1 y0 y1 : K) (e0 : u0.scale * x0 = v0.scale * y0) (e1 : u1.scale * x1 = v1.scale * y1) :
    (∃ ur vr, o.unit = some ur ∧ o'.unit = some vr ∧ ur.dim = vr.dim) ∧
    ∀ (F : K → K → K), BiHom F → o.si (o.value F x0 x1) = o'.si (o'.value F y0 y1) := by
  obtain ⟨ur, a, b, _, c⟩ := multiply_rule_covariant ueq pre t f hf u0 u1 z0 z1 hu0 hu1 o h hm
  obtain ⟨vr, a', b', _, c'⟩ := multiply_rule_covariant ueq pre t f hf v0 v1 z0 z1 hv0 hv1 o' h' hm'
  refine ⟨⟨ur, vr, a, a', by rw [b, b', hd0, hd1]⟩, ?_⟩
  intro F hF
  rw [c F hF, c' F hF, e0, e1]

/-- **Re-expression invariance (quotients).** -/
theorem reexpression_invariance_divide (ueq : UnitV K → UnitV K → Bool) (pre : Prefixes K) (t : Lut K)
    (f : String) (hf : ruleOf f = some .divide) (u0 u1 v0 v1 : UnitV K) (z0 z1 : Bool)
    (hu0 : u0.offset = 0) (hu1 : u1.offset = 0) (hv0 : v0.offset = 0) (hv1 : v1.offset = 0)
    (hd0 : v0.dim = u0.dim) (hd1 : v1.dim = u1.dim)
    (o o' : Out K) (h : dispatchBinary ueq pre t f ⟨some u0, z0⟩ ⟨some u1, z1⟩ none = .ok o)
    (h' : dispatchBinary ueq pre t f ⟨some v0, z0⟩ ⟨some v1, z1⟩ none = .ok o')
    (hm : o.mul ≠ 0) (hm' : o'.mul ≠ 0)
    (x0 x1 y0 y1 : K) (e0 : u0.scale * x0 = v0.scale * y0) (e1 : u1.scale * x1 = v1.scale * y1) :
    (∃ ur vr, o.unit = some ur ∧ o'.unit = some vr ∧ ur.dim = vr.dim) ∧
    ∀ (P : K → Prop) (F : K → K → K), RatioHomOn P F → P u1.scale → P v1.scale →
      o.si (o.value F x0 x1) = o'.si (o'.value F y0 y1) := by
  obtain ⟨ur, a, b, _, c⟩ := divide_rule_covariant ueq pre t f hf u0 u1 z0 z1 hu0 hu1 o h hm
  obtain ⟨vr, a', b', _, c'⟩ := divide_rule_covariant ueq pre t f hf v0 v1 z0 z1 hv0 hv1 o' h' hm'
  refine ⟨⟨ur, vr, a, a', by rw [b, b', hd0, hd1]⟩, ?_⟩
  intro P F hF hP hP'
  rw [c P F hF hP, c' P F hF hP', e0, e1]

/-- **Re-expression invariance (comparisons).**  The truth value does not depend on the units
    the two sides are written in. -/
theorem reexpression_invariance_comparison (ueq : UnitV K → UnitV K → Bool) (hueq : UeqSound ueq)
    (pre : Prefixes K) (t : Lut K) (f : String) (hf : ruleOf f = some .comparison)
    (u0 u1 v0 v1 : UnitV K) (z0 z1 : Bool)
    (hu0 : u0.offset = 0) (hu1 : u1.offset = 0) (hv0 : v0.offset = 0) (hv1 : v1.offset = 0)
    (hd : u0.dim = u1.dim) (hd0 : v0.dim = u0.dim) (hd1 : v1.dim = u1.dim)
    (hs : u0.scale ≠ 0) (hs' : v0.scale ≠ 0)
    (x0 x1 y0 y1 : K) (e0 : u0.scale * x0 = v0.scale * y0) (e1 : u1.scale * x1 = v1.scale * y1) :
    ∃ o o', dispatchBinary ueq pre t f ⟨some u0, z0⟩ ⟨some u1, z1⟩ none = .ok o
      ∧ dispatchBinary ueq pre t f ⟨some v0, z0⟩ ⟨some v1, z1⟩ none = .ok o'
      ∧ ∀ {β : Type} (P : K → Prop) (F : K → K → β), Deg0On P F → P u0.scale → P v0.scale →
          F x0 (o.arg1 x1) = F y0 (o'.arg1 y1) := by
  obtain ⟨o, h1, _, _, _, _, h3⟩ :=
    comparison_covariant ueq hueq pre t f _ hf (Or.inl rfl) u0 u1 z0 z1 hu0 hu1 hd hs (fun h => by cases h)
  obtain ⟨o', h1', _, _, _, _, h3'⟩ :=
    comparison_covariant ueq hueq pre t f _ hf (Or.inl rfl) v0 v1 z0 z1 hv0 hv1 (by rw [hd0, hd1, hd]) hs' (fun h => by cases h)
  refine ⟨o, o', h1, h1', ?_⟩
  intro β P F hF hP hP'
  rw [h3 P F hF hP, h3' P F hF hP', e0, e1]

/-- non-vacuity: kilometre + metre meets the hypotheses of the theorems above (over ℚ) -/
example : ∃ o, dispatchBinary UnitV.eqv [] kmLut "add" ⟨some uKm, false⟩ ⟨some uM, false⟩ none = .ok o
    ∧ o.unit = some uKm := by
  obtain ⟨o, h, hu, _⟩ := preserve_rule_covariant (K := Rat) UnitV.eqv eqv_sound [] kmLut "add" (by decide)
    uKm uM false false rfl rfl rfl (by decide)
  exact ⟨o, h, hu⟩

/-! ### floor-division (repaired), divmod, heaviside -/

/-- **floor_divide.**  (Full statement; it failed before the `_floor_divide_units` fix, when
    `floor_divide` used the quotient rule: `2 km // 3 m` was 0.)  For commensurable zero-offset
    quantities the divisor is rescaled to the dividend's unit, the result is a pure number, and for
    every kernel of joint degree 0 — ⌊a/b⌋ is one, `Real/C04Homog.floorDiv_deg0` — it is the kernel
    of the SI magnitudes.  (Floor-division of *different* dimensions is outside the claim; there
    the dispatcher falls back to the quotient rule, `floor_divide_incommensurable`.  The rule
    executes `unit1 / unit2` for its refusals, so — like true division — it refuses offset scales
    and logarithmic units (`floor_divide_refuses_like_divide`); hence the two guards.) -/
theorem floor_divide_covariant (ueq : UnitV K → UnitV K → Bool) (hueq : UeqSound ueq)
    (pre : Prefixes K) (t : Lut K) (u0 u1 : UnitV K) (z0 z1 : Bool)
    (h0 : u0.offset = 0) (h1 : u1.offset = 0) (hd : u0.dim = u1.dim) (hs : u0.scale ≠ 0)
    (l0 : u0.isLogarithmic = false) (l1 : u1.isLogarithmic = false) :
    ∃ o, dispatchBinary ueq pre t "floor_divide" ⟨some u0, z0⟩ ⟨some u1, z1⟩ none = .ok o
      ∧ o.unit = some UnitV.dimensionless ∧ o.mul = 1 ∧ o.post = 1
      ∧ ∀ (P : K → Prop) (F : K → K → K), Deg0On P F → P u0.scale → ∀ x0 x1,
        o.si (o.value F x0 x1) = F (u0.scale * x0) (u1.scale * x1) := by
  obtain ⟨o, a, _, b, c, d, e⟩ := comparison_covariant ueq hueq pre t "floor_divide" .floorDivide (by decide)
    (Or.inr (Or.inr rfl)) u0 u1 z0 z1 h0 h1 hd hs (fun _ => div_ok_of_not_log u0 u1 h0 h1 l0 l1)
  have du : o.unit = some UnitV.dimensionless := by simpa using d
  refine ⟨o, a, du, b, c, ?_⟩
  intro P F hF hP x0 x1
  simp only [Out.si, Out.value, du, b, c, UnitV.dimensionless]
  rw [e P F hF hP x0 x1]; grind

/-- the witness of the former counterexample: `2 km // 3 m` is now ⌊2000/3⌋ = 666 in the model -/
example : siOf (dispatchBinary UnitV.eqv [] kmLut "floor_divide" ⟨some uKm, false⟩ ⟨some uM, false⟩ none) floorDivQ 2 3
    = some (floorDivQ 2000 3) := by decide +kernel

/-- the floor-division rule refuses exactly what `Unit.__truediv__` refuses (degC // degC,
    mdegC // mK, dB // dB …), with the same exception -/
theorem floor_divide_refuses_like_divide (ueq : UnitV K → UnitV K → Bool) (pre : Prefixes K) (t : Lut K)
    (u0 u1 : UnitV K) (e : Err) (h : u0.div u1 = .error e) :
    binaryRule ueq pre t .floorDivide u0 u1 = .error e := by
  simp [binaryRule, h]

/-- floor-division of quantities without a common unit is dispatched exactly like `divide` -/
theorem floor_divide_incommensurable (ueq : UnitV K → UnitV K → Bool) (pre : Prefixes K) (t : Lut K)
    (u0 u1 : UnitV K) (z0 z1 : Bool) (hd : u0.dim ≠ u1.dim) :
    dispatchBinary ueq pre t "floor_divide" ⟨some u0, z0⟩ ⟨some u1, z1⟩ none
      = dispatchBinary ueq pre t "divide" ⟨some u0, z0⟩ ⟨some u1, z1⟩ none := by
  have hf : ruleOf "floor_divide" = some .floorDivide := by decide
  have hg : ruleOf "divide" = some .divide := by decide
  have hb : (u0.dim != u1.dim) = true := by simpa using hd
  have e1 : Rule.floorDivide.effective true = .divide := by decide
  have e2 : Rule.divide.effective true = .divide := by decide
  simp [dispatchBinary, hf, hg, hb, e1, e2]

/-- `divmod(2 km, 3 m)`: the `_passthrough_unit` rule neither rescales the divisor nor drops the
    unit of the quotient — the quotient is labelled with a *length* of scale 1000 although
    dimensional analysis makes it a pure number -/
theorem divmod_counterexample :
    labelOf (dispatchBinary UnitV.eqv [] kmLut "divmod" ⟨some uKm, false⟩ ⟨some uM, false⟩ none)
      = some (some (Dim.dLength, 1000))
    ∧ (uKm.dim / uM.dim = Dim.one) := by
  constructor <;> decide +kernel

/-- `heaviside(2 km, 0.5 km)` vs the same quantities in metres: the `_preserve_units` rule labels
    the step value 1 with the argument's unit, so the SI magnitude is 1000 in one spelling and
    1 in the other -/
theorem heaviside_counterexample :
    siOf (dispatchBinary UnitV.eqv [] kmLut "heaviside" ⟨some uKm, false⟩ ⟨some uKm, false⟩ none) heavisideQ 2 (1 / 2)
      = some 1000
    ∧ siOf (dispatchBinary UnitV.eqv [] kmLut "heaviside" ⟨some uM, false⟩ ⟨some uM, false⟩ none) heavisideQ 2000 500
      = some 1 := by
  constructor <;> decide +kernel

/-! ### in-place / `out=` results with a coefficient -/

/-- **out= fix-up on the raw buffer terminates** at once, whatever the out array's old unit, and
    multiplies the data by exactly the coefficient -/
theorem fixup_raw_terminates (pre : Prefixes K) (t : Lut K) (old : UnitV K) (fuel : Nat) (mul : K) :
    fixupLoop false pre t old (fuel + 1) mul = .ok (some mul) := by
  simp only [fixupLoop]
  split
  · rename_i h; rw [eq_of_beq h]
  · simp

/-- **the re-entrant fix-up diverges** exactly in the situation of the repaired defect: the
    coefficient is not 1 and the out array's own (stale) unit, multiplied by a bare number, yields a
    coefficient that is not 1 either — then no amount of fuel suffices (Python: RecursionError) -/
theorem fixup_reentrant_diverges (pre : Prefixes K) (t : Lut K) (old : UnitV K) (m' : K) (u' : UnitV K)
    (hm : multiplyUnits pre t old UnitV.dimensionless = .ok (m', u')) (hm1 : m' ≠ 1) :
    ∀ (fuel : Nat) (mul : K), mul ≠ 1 → fixupLoop true pre t old fuel mul = .ok none := by
  intro fuel
  induction fuel with
  | zero => intro mul _; rfl
  | succ n ih =>
    intro mul hmul
    have e1 : (mul == 1) = false := by simpa using hmul
    simp only [fixupLoop, e1, hm, ih m' hm1]
    simp

/-- non-vacuity of the divergence hypothesis: the unit `km/m` times a bare number simplifies to the
    coefficient 1000 (over ℚ, two-row table) — the array of `x = unyt_array([1, 2], 'km/m'); x *= 2` -/
example : (match multiplyUnits (K := Rat) [] kmLut ⟨⟨1, [("km", 1), ("m", -1)]⟩, 1000, 0, Dim.one, true⟩ UnitV.dimensionless with
    | .ok (m, _) => some m | .error _ => none) = some 1000 := by decide +kernel

/-- **out= fix-up of the code as it is** (the buffer multiplied is read off the source on every run,
    `Generated.C04.fixupReenters`; since fix 8405e15 it is the raw view): it terminates and scales
    the data by exactly the coefficient.  Re-introducing `multiply(out, mul, out=out)` flips the
    regenerated flag and this obligation no longer checks. -/
theorem out_fixup_total (pre : Prefixes K) (t : Lut K) (old : UnitV K) (mul : K) :
    outFixup pre t old mul = .ok (some mul) := by
  have hflag : Generated.C04.fixupReenters = false := by decide
  simp only [outFixup, hflag]
  exact fixup_raw_terminates pre t old 63 mul

/-! ### reductions of multiply / divide: how many factors -/

/-- **reduce count.**  (It failed before the `_apply_power_mapping` fix, when a missing `axis`
    keyword was read as "the whole array": a 3×3 array in km gave km⁹.)  The power the unit is
    raised to (`reduceCount`: `in_shape[axis]`, axis defaulting to 0, `in_size` for `axis=None`) is
    the number of elements NumPy combines into each element of the result — the size of the input
    divided by the size of the result, whose shape is the input's with the reduced axis removed
    (`Ref.reduceCountRef`, over the shape algebra) — for every array without an empty dimension and
    every axis it has. -/
theorem reduce_count_matches_ref (shape : Shape) (axisKw : AxisKw) (hpos : ∀ d ∈ shape, 0 < d)
    (hax : match axisKw with | .absent => 0 < shape.length | .idx a => a < shape.length | .none => True) :
    reduceCount shape axisKw = reduceCountRef shape axisKw := by
  have epos : ∀ a, 0 < Shape.size (shape.eraseIdx a) := fun a =>
    size_pos_of_all_pos _ fun d hd => hpos d (List.mem_of_mem_eraseIdx hd)
  cases axisKw with
  | absent =>
    simp only [reduceCount, reduceCountRef, reduceResultShape]
    rw [size_eq_getD_mul_eraseIdx shape 0 hax, Nat.mul_div_cancel _ (epos 0)]
  | idx a =>
    simp only [reduceCount, reduceCountRef, reduceResultShape]
    rw [size_eq_getD_mul_eraseIdx shape a hax, Nat.mul_div_cancel _ (epos a)]
  | none =>
    simp only [reduceCount, reduceCountRef, reduceResultShape, Shape.size, Nat.div_one]
    rw [foldl_mul_eq_size]; simp

example : reduceCount [3, 3] .absent = 3 ∧ reduceCountRef [3, 3] .absent = 3 ∧ reduceCountRef [2, 3, 4] (.idx 1) = 3
    ∧ reduceCountRef [2, 3, 4] .none = 24 := by decide

/-- the live `_apply_power_mapping`, probed on 2-D and 3-D shapes with and without an axis
    keyword, counts what the model counts -/
theorem reduce_count_probes_match_model : reduceProbesOk = true := by decide +kernel

/-! ### angle units with a zero point, units that share a spelling -/

/-- **Trig of an angle, affine units.**  For `sin`/`cos`/`tan` of a quantity in *any* angle unit of
    the table — including those with a zero-point offset (`lat`, `lon`, custom-registry angle units
    added with `offset=`), whatever the sign of the scale — the kernel receives the SI (radian)
    magnitude `scale * (x - offset)` (`toBase`, the shared affine rule of C03), given that the
    table's `rad` has scale 1 and no offset (`radian_is_SI_unit`).  No positivity is needed. -/
theorem trig_of_angle_affine (ueq : UnitV K → UnitV K → Bool) (pre : Prefixes K) (t : Lut K)
    (f : String) (hf : ruleOf f = some .withoutUnit) (ht : Generated.C04.trigOperators.contains f = true)
    (u : UnitV K) (hA : isAngle u = true) (e : Entry K) (hrad : resolve pre t "rad" = some e)
    (he : e.scale = 1 ∧ e.offset = 0 ∧ e.dim = Dim.dAngle) (n : Nat) :
    ∃ o, dispatchUnary ueq pre t f "__call__" u n = .ok o ∧ o.unit = none ∧ o.mul = 1 ∧
      ∀ (G : K → K) x, o.value G x = G (toBase u.scale u.offset x) := by
  by_cases h0 : u.offset = 0
  · obtain ⟨o, h1, h2, h3⟩ := trig_of_angle ueq pre t f hf ht u hA h0 e hrad he n
    have hm : o.mul = 1 := by
      have hnr : Generated.C04.reducePowerUfuncs.contains f = false := by
        have : Generated.C04.trigOperators = ["sin", "cos", "tan"] := by decide
        rw [this] at ht
        simp at ht
        rcases ht with rfl | rfl | rfl <;> decide
      simp only [dispatchUnary, hA, ht, hnr, Bool.and_self, if_true, tableUnit, hrad, Except.map, hf,
        unaryRule, Bool.false_and, Bool.false_eq_true, if_false] at h1
      split at h1
      · contradiction
      · cases h1; rfl
    refine ⟨o, h1, h2, hm, ?_⟩
    intro G x
    rw [h3 G x]; congr 1
    simp only [toBase, h0]; grind
  · have hnr : Generated.C04.reducePowerUfuncs.contains f = false := by
      have : Generated.C04.trigOperators = ["sin", "cos", "tan"] := by decide
      rw [this] at ht
      simp at ht
      rcases ht with rfl | rfl | rfl <;> decide
    have hud : u.dim = Dim.dAngle := by simp [isAngle] at hA; exact hA.2
    obtain ⟨es, eo, ed⟩ := he
    have hnT : (Dim.dAngle == Dim.dTemperature) = false := by decide
    have hconv : getConversionFactor pre t u ⟨UExpr.sym "rad", e.scale, e.offset, e.dim, true⟩
        = .ok (u.scale / e.scale, some (u.scale / e.scale * u.offset - e.offset)) := by
      simp [getConversionFactor, hud, ed, eo, h0, effOffset, hnT]
    refine ⟨⟨none, 1, some (u.scale / e.scale, some (u.scale / e.scale * u.offset - e.offset))⟩, ?_, rfl, rfl, ?_⟩
    · simp only [dispatchUnary, hA, ht, hnr, Bool.and_self, if_true, tableUnit, hrad, hconv, Except.map, hf,
        unaryRule, Bool.false_and, Bool.false_eq_true, if_false]
    · intro G x
      simp only [UOut.value, applyFactor, es, eo, toBase]
      split
      · have : x * (u.scale / 1) - (u.scale / 1 * u.offset - 0) = u.scale * (x - u.offset) := by grind
        rw [this]; grind
      · rename_i hz
        have hz' : u.scale / 1 * u.offset - 0 = 0 := by simpa using hz
        have : x * (u.scale / 1) = u.scale * (x - u.offset) := by grind
        rw [this]; grind

/-- non-vacuity: a colatitude-like unit (negative scale, zero point 90) over ℚ -/
example : isAngle (⟨UExpr.sym "lat", (-1 : Rat) / 57, 90, Dim.dAngle, true⟩ : UnitV Rat) = true := by decide

/-- **Units that share a spelling.**  Whether the second operand is rescaled is decided by what the
    units *are* (scale, offset, dimension — `Unit.__eq__`), never by how they are written: two
    commensurable units with the very same expression but different scales (the same symbol in two
    registries, or before and after `UnitRegistry.modify`) get the factor `scale₁ / scale₀`. -/
theorem same_spelling_different_scale_rescaled (ueq : UnitV K → UnitV K → Bool) (hueq : UeqSound ueq)
    (pre : Prefixes K) (t : Lut K) (f : String) (r : Rule) (hf : ruleOf f = some r)
    (hr : r = .preserve ∨ r = .comparison ∨ r = .arctan2)
    (u0 u1 : UnitV K) (z0 z1 : Bool) (hexpr : u0.expr = u1.expr) (hne : u0.scale ≠ u1.scale)
    (h0 : u0.offset = 0) (h1 : u1.offset = 0) (hd : u0.dim = u1.dim) :
    ∃ o, dispatchBinary ueq pre t f ⟨some u0, z0⟩ ⟨some u1, z1⟩ none = .ok o ∧ o.conv = u1.scale / u0.scale := by
  have he : ueq u0 u1 = false := by
    cases h : ueq u0 u1 with
    | false => rfl
    | true => exact absurd (hueq _ _ h).1 hne
  have hc : r.converts = true := by rcases hr with rfl | rfl | rfl <;> decide
  have hpm : r.postMul = false := by rcases hr with rfl | rfl | rfl <;> decide
  have hp := preserveUnits_zero u0 u1 h1
  rcases hr with rfl | rfl | rfl
  · exact ⟨⟨some u0, u1.scale / u0.scale, 1, 1, none⟩, by
      simp [dispatchBinary, binaryRule, effective_of_ne_floorDivide, hf, h1, hc, hpm, he, hd, conv_zero_offsets pre t u1 u0 h1 h0 hd.symm, hp], rfl⟩
  · exact ⟨⟨none, u1.scale / u0.scale, 1, 1, none⟩, by
      simp [dispatchBinary, binaryRule, effective_of_ne_floorDivide, hf, hc, hpm, he, hd, conv_zero_offsets pre t u1 u0 h1 h0 hd.symm], rfl⟩
  · exact ⟨⟨some UnitV.dimensionless, u1.scale / u0.scale, 1, 1, none⟩, by
      simp [dispatchBinary, binaryRule, effective_of_ne_floorDivide, hf, hc, hpm, he, hd, conv_zero_offsets pre t u1 u0 h1 h0 hd.symm], rfl⟩

end Unyt.C04
