/-
  C02 — numeric coefficients (and numeric exponents) of unit strings: every spelling of a decimal
  literal is worth exactly what it spells.

  About `NumLit.tokenValue` (UnytModel/NumLitC02.lean), the model of
  `unit_text_transform = (…, auto_number, rationalize)` that the driver runs (`c02.numlit`) on every
  generated spelling: for EVERY structured literal — any digits, with or without a decimal point,
  with or without an exponent part, either exponent marker, any sign —
    * sympy's `auto_number` test sends it to `Rational('<tok>')` exactly when it has a point or an
      exponent part, so `Integer(<tok>)` (evaluated by Python) only ever sees integer literals;
    * its value is (integer digits · 10^k + fraction digits) · 10^(exponent − k), k fraction digits;
    * the case of the exponent marker and the presence of a point never matter;
  and a coefficient `c` in front of a unit expression multiplies the scale by `c` and leaves the
  dimension alone (the denotation theorem that `Unit(expr)` is proved to compute, C02.ofExpr_sound).
-/
import UnytModel.NumLitC02
import UnytModel.Generated.C02NumPipeline
import UnytModel.Convert
import UnytProofs.Lemmas.C02Num
import UnytProofs.Lemmas.Denote

namespace Unyt.C02
open Unyt NumLit

/-- the exponent part (if any) has at least one digit — what Python's tokenizer demands -/
def ExpDigits (l : DecLit) : Prop := ∀ x, l.exp = some x → x.digits ≠ []

/-- sympy's `auto_number` sends a literal to `Float('…')`/`Rational('…')` exactly when it is
    written with a point or an exponent part (either marker) -/
theorem autoNumber_class_of_render (l : DecLit) :
    autoNumberClass l.render = if l.dot || l.exp.isSome then .float else .integer := by
  simp only [autoNumberClass, hasPoint_render, hasExp_render, startsHex_render, Bool.not_false, Bool.and_true]

/-! ### table obligations: the model's decision is the one in the live source -/

/-- the class test regenerated from the live source of the transformation that handles NUMBER
    tokens (its AST, translated by `tools/extract.d/c02_numpipeline.py`) is, on every token, the
    test of the model that the theorems of this file are about -/
theorem autoNumber_test_is_live (cs : List Char) :
    Generated.c02AutoNumberIsFloat cs = (autoNumberClass cs == .float) := by
  have hh : startsWithAny [[Char.ofNat 48, Char.ofNat 120], [Char.ofNat 48, Char.ofNat 88]] cs = startsHex cs :=
    startsWithAny_hex cs
  have h1 : (Char.ofNat 46) = '.' := by decide
  have h2 : (Char.ofNat 101) = 'e' := by decide
  have h3 : (Char.ofNat 69) = 'E' := by decide
  simp only [Generated.c02AutoNumberIsFloat, hh, h1, h2, h3, autoNumberClass]
  cases hasChar '.' cs <;> cases hasChar 'e' cs <;> cases hasChar 'E' cs <;> cases startsHex cs <;> decide

/-- unyt hands NUMBER tokens to sympy's `auto_number` and then `rationalize`: the class test
    decides between `Rational('<tok>')` and `Integer(<tok>)` -/
theorem number_pipeline_is_modelled :
    Generated.c02Transforms = ["unyt._parsing._auto_positive_symbol", "sympy.parsing.sympy_parser.auto_number",
      "sympy.parsing.sympy_parser.rationalize"] ∧
    Generated.c02FloatCtor = "Rational" ∧ Generated.c02IntCtor = "Integer" := by decide

/-- so `Integer(<tok>)`, which Python evaluates before sympy sees it, is only ever handed
    literals without point and without exponent part -/
theorem integer_branch_only_integers (l : DecLit) (h : autoNumberClass l.render = .integer) :
    l.dot = false ∧ l.exp = none := by
  rw [autoNumber_class_of_render] at h
  cases hd : l.dot <;> cases he : l.exp <;> simp_all

/-- `Rational('<tok>')` of a rendered literal is what the literal spells -/
theorem decimal_value_of_render (l : DecLit) (hx : ExpDigits l) : decimalValue l.render = some l.spec := by
  have hfr : (if l.dot then some (renderDigits l.fracDs) else none).getD [] = renderDigits l.frac := by
    unfold DecLit.frac; cases l.dot <;> simp [renderDigits]
  simp only [decimalValue, split_exp, split_point, hfr, ← renderDigits_append, digitsValue_render_nil, countDigits_render]
  cases hexp : l.exp with
  | none => simp [DecLit.spec, DecLit.expValue, hexp]
  | some x => simp [signedExp_render x (hx x hexp), DecLit.spec, DecLit.expValue, hexp]

/-- **every spelling is worth what it spells**: whatever the digits, with or without a point,
    with or without an exponent part, with either exponent marker and any sign, the number the
    token contributes to the unit expression is (all mantissa digits) × 10^(exponent − fraction digits) -/
theorem token_value_is_spelled_value (l : DecLit) (hx : ExpDigits l) : tokenValue l.render = some l.spec := by
  unfold tokenValue
  rw [autoNumber_class_of_render]
  cases hd : l.dot with
  | true => simpa [hd] using decimal_value_of_render l hx
  | false =>
    cases he : l.exp with
    | some x => simpa [hd, he] using decimal_value_of_render l hx
    | none =>
      simp only [Option.isSome_none, Bool.or_self, Bool.false_eq_true, if_false,
        render_plain l hd he, intLiteral_render, Option.map_some]
      simp [DecLit.spec, DecLit.frac, DecLit.expValue, hd, he, pow10]

/-- positional reading of the value: (integer digits · 10^k + fraction digits) · 10^(exponent − k),
    `k` the number of fraction digits written -/
theorem spec_positional (l : DecLit) :
    l.spec = pow10 (ofDigits l.intDs * 10 ^ l.frac.length + ofDigits l.frac) (l.expValue - (l.frac.length : Nat)) := by
  simp only [DecLit.spec, ofDigits_append]

/-- the case of the exponent marker never matters: `25E-1` and `25e-1` are the same number -/
theorem marker_case_irrelevant (l : DecLit) (hx : ExpDigits l) :
    tokenValue l.flipMarker.render = tokenValue l.render := by
  have hx' : ExpDigits l.flipMarker := by
    intro x h
    simp only [DecLit.flipMarker, Option.map_eq_some_iff] at h
    obtain ⟨y, hy, rfl⟩ := h
    exact hx y hy
  have hs : l.flipMarker.spec = l.spec := by
    obtain ⟨i, dot, f, x⟩ := l
    cases x with
    | none => rfl
    | some x => obtain ⟨u, sg, ds⟩ := x; rfl
  rw [token_value_is_spelled_value _ hx', token_value_is_spelled_value _ hx, hs]

/-- only the digit string and (exponent − number of fraction digits) matter: the point may stand
    anywhere (`25E-1`, `2.5`, `0.25e1`, `250.0E-2` …) -/
theorem point_position_irrelevant (l l' : DecLit) (h1 : l.intDs ++ l.frac = l'.intDs ++ l'.frac)
    (h2 : l.expValue - (l.frac.length : Nat) = l'.expValue - (l'.frac.length : Nat)) : l.spec = l'.spec := by
  simp only [DecLit.spec, h1, h2]

/-- a trailing zero after the point changes nothing: `2.50` is `2.5` -/
theorem trailing_zero_irrelevant (l : DecLit) (hd : l.dot = true) :
    ({ l with fracDs := l.fracDs ++ [0] } : DecLit).spec = l.spec := by
  have he : ({ l with fracDs := l.fracDs ++ [0] } : DecLit).expValue = l.expValue := rfl
  have hf : ({ l with fracDs := l.fracDs ++ [0] } : DecLit).frac = l.frac ++ [0] := by simp [DecLit.frac, hd]
  simp only [DecLit.spec, he, hf, ← List.append_assoc, ofDigits_append (l.intDs ++ l.frac) [0]]
  rw [← pow10_shift (ofDigits (l.intDs ++ l.frac)) (l.expValue - (l.frac.length : Nat))]
  congr 1
  simp only [List.length_append, List.length_cons, List.length_nil]
  omega

section coefficient
variable {K : Type} [Lean.Grind.Field K] [RPow K]

/-- a numeric coefficient `c` in front of a unit expression multiplies its scale by `c` and
    leaves its dimension alone: scale(c·u) = c·scale(u), dim(c·u) = dim(u) -/
theorem coefficient_scales (pre : Prefixes K) (t : Lut K) (c : K) (e : UExpr K) (v : K) (d : Dim)
    (h : denote pre t e = some (v, d)) :
    denote pre t ((UExpr.num c).mul e) = some (c * v, d) := by
  simp only [denote, UExpr.mul, UExpr.num, List.nil_append] at h ⊢
  cases hf : denoteF pre t e.factors with
  | none => simp [hf] at h
  | some x =>
    obtain ⟨xv, xd⟩ := x
    simp only [hf, Option.some.injEq, Prod.mk.injEq] at h ⊢
    obtain ⟨rfl, rfl⟩ := h
    exact ⟨by grind, rfl⟩

end coefficient

/-! ### instances (non-vacuity) and the spellings the seeded change C02-d got wrong -/

/-- `25E-1` : digits 2 5, no point, marker `E`, sign `-`, exponent digit 1 -/
def lit25Em1 : DecLit := ⟨[2, 5], false, [], some ⟨true, some true, [1]⟩⟩

example : ExpDigits lit25Em1 := by intro x h; cases h; simp
example : String.ofList lit25Em1.render = "25E-1" := by decide
example : lit25Em1.spec = 5 / 2 := by decide +kernel
example : tokenValue "25E-1".toList = some (5 / 2) := by decide +kernel
example : tokenValue "1.5e-3".toList = tokenValue "15E-4".toList := by decide +kernel
/-- `12` (hypothesis of `integer_branch_only_integers`) and `2.5` (of `trailing_zero_irrelevant`) -/
example : autoNumberClass (⟨[1, 2], false, [], none⟩ : DecLit).render = .integer := by decide +kernel
example : (⟨[2], true, [5], none⟩ : DecLit).dot = true := rfl
example : (⟨[2], true, [5, 0], none⟩ : DecLit).spec = (⟨[2], true, [5], none⟩ : DecLit).spec := by decide +kernel
example : autoNumberClass "1E-3".toList = .float ∧ autoNumberClass "0x1E".toList = .integer := by decide +kernel

end Unyt.C02
