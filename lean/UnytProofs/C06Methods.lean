/-
  C06 — the ndarray-method overrides of unyt/array.py ("… or ndarray method on unyt arrays … produces
  exactly the numbers NumPy produces … attaching units never changes which computation is carried out").

  Subject: `Generated.methodRows` — per redefined method and delegate call site, the kernel delegated to
  and the fate of every parameter the override accepts, regenerated from the LIVE classes by an ast pass —
  read by the same interpreter `Np.run` as the `__array_function__` handlers.

  * `methods_delegate_faithfully` (P-tab)  every override delegates to the ndarray method it redefines (or a
        kernel NumPy documents as equivalent) and feeds every parameter it accepts from its own parameter of
        the same slot — up to the literal exclusion list (copy drops `order`);
  * `every_override_is_modelled` (P-tab)   no redefined value-carrying method is missing from the table;
  * `methods_are_identity_free` (P-tab)    no override tests operand identity / memory overlap;
  * `method_exclusions_are_real` (P-tab)   an exclusion cannot outlive its finding;
  * `C06_methods_values` (P-tab + P-gen)   for every defect-free row, ANY unit-blind kernel and ANY values of
        the parameters the row lists: the override returns the numbers of `ndarray.m` on the bare data;
  * `copy_drops_order`                     the finding at the level of `run`: the kernel never receives `order`.
-/
import UnytModel.NpMethods
import UnytModel.Generated.C06Methods
import UnytModel.Ref.C06MethodExclusions
import UnytProofs.C06

namespace Unyt.C06
open Unyt Unyt.Np

theorem methods_delegate_faithfully :
    methodTableOk Ref.methodEquivC06 Ref.exclC06Methods Generated.methodRows = true := by
  decide +kernel

theorem every_override_is_modelled :
    overridesModelled Generated.methodOverrides Generated.methodRows = true := by
  decide +kernel

theorem methods_are_identity_free :
    (Generated.methodExits.all fun p => p.2.isEmpty) = true := by
  decide +kernel

theorem method_exclusions_are_real :
    methodExclusionsWitnessed Ref.methodEquivC06 Ref.exclC06Methods Generated.methodRows = true := by
  decide +kernel

/-- for every regenerated override row without defect, the interpreter returns NumPy's numbers of the
    SAME method on the stripped arguments — any unit-blind kernel, any values of the listed parameters -/
theorem C06_methods_values {V R : Type} (numpy : Kernel V R) (hblind : UnitBlind numpy)
    (alt : String → PyVal V) (alter : R → R) (unitRule : Args V → String)
    (r : Row) (_hr : r ∈ Generated.methodRows) (hd : defects r = []) (hc : r.calls ≠ []) (hok : r.raised = false)
    (args : Args V) (hcov : ∀ pv ∈ args, ∃ f, lookupFwd r.params pv.1 = some f ∧ (pv.1, f) ∈ r.params) :
    (run numpy alt alter unitRule r args).values = some (numpy r.func (stripArgs args)) := by
  obtain ⟨⟨via, hcall⟩, hps, hpost⟩ := defect_free_row_is_faithful r hd hc
  refine run_values_raw numpy hblind alt alter unitRule r args via [] hcall hok ?_ ?_ hpost
  · intro pv hpv
    obtain ⟨f, hf, hmem⟩ := hcov pv hpv
    have := hps (pv.1, f) hmem
    rcases this with h | h <;> simp_all
  · intro pf hpf
    have := hps pf hpf
    rcases this with h | h <;> simp [h]

/-- the guard is met by all rows but copy (drops `order`) and take (delegates to np.take's handler) -/
example : ((Generated.methodRows.filter fun r => (defects r).isEmpty && !r.calls.isEmpty && !r.raised).length ≥ 10) = true := by
  decide +kernel

/-- regression of the repaired finding `ndarray.copy|dropped:order`, for every kernel: whatever `order` the
    caller passes to `x.copy(order=…)`, the kernel call is `ndarray.copy` and carries exactly that `order` -/
theorem copy_forwards_order {V R : Type} (numpy : Kernel V R) (alt : String → PyVal V) (alter : R → R)
    (unitRule : Args V → String) (o : PyVal V) :
    run numpy alt alter unitRule
        ⟨"ndarray.copy", "unyt_array#0", "bare-view", false, [(true, "ndarray.copy")], [("order", Fwd.same)], [], Post.id⟩
        [("order", o)]
      = Outcome.value (unitRule [("order", o)]) (numpy "ndarray.copy" (stripArgs [("order", o)])) := by
  rfl

/-- every regenerated row of `copy` is the one `copy_forwards_order` speaks about (and there is one) -/
theorem copy_row_is_regenerated :
    ((Generated.methodRows.filter fun r => r.func == "ndarray.copy").all fun r =>
        r.params == [("order", Fwd.same)] && r.calls == [(true, "ndarray.copy")] && r.sig == "bare-view" && !r.raised)
      && (Generated.methodRows.any fun r => r.func == "ndarray.copy") = true := by
  decide +kernel

end Unyt.C06
