/-
  UnytProofs.C18Alias — soundness of the may-alias verdict of UnytModel.AliasFlow, and the table obligation on the
  regenerated abstraction of unyt/_array_functions.py: "array functions without out= leave all their inputs as they were".
-/
import UnytModel.AliasFlow
import UnytModel.Generated.C18Alias
import UnytModel.Ref.C18Alias
import UnytModel.Generated.C18AliasArray
import UnytModel.Ref.C18

namespace Unyt.C18.Alias
open Unyt.AliasFlow

theorem idxOf?_get (ps : List String) (v : String) (k : Nat) (h : idxOf? ps v = some k) : ps[k]? = some v := by
  induction ps generalizing k with
  | nil => simp [idxOf?] at h
  | cons a t ih =>
    simp only [idxOf?] at h
    split at h
    · rename_i hav
      subst hav
      have : k = 0 := by simpa using h.symm
      subst this
      simp
    · cases hk : idxOf? t v with
      | none => simp [hk] at h
      | some j =>
        simp [hk] at h
        subst h
        simpa using ih j hk

/-- the invariant: every name bound to buffer `k` is in `T`, and `k` has been allocated -/
def Inv (T : List String) (k : Nat) (σ : St) : Prop :=
  (∀ v, σ.env v = some k → v ∈ T) ∧ k < σ.next

theorem inv_bindFresh {T k σ} (v : String) (h : Inv T k σ) : Inv T k (σ.bindFresh v) := by
  refine ⟨?_, ?_⟩
  · intro w hw
    simp only [St.bindFresh, upd] at hw
    split at hw
    · have : σ.next = k := by simpa using hw
      have := h.2; omega
    · exact h.1 w hw
  · simp only [St.bindFresh]; have := h.2; omega

theorem step_preserves {prog : List FStmt} {T : List String} {k : Nat} {σ : St} {s : FStmt} (pick : Nat)
    (hs : s ∈ prog) (hc : closedB prog T = true) (hw : writesIn prog T = []) (h : Inv T k σ) :
    Inv T k (step s pick σ) ∧ (step s pick σ).heap k = σ.heap k := by
  cases s with
  | fresh v => exact ⟨inv_bindFresh v h, rfl⟩
  | alias v srcs =>
    simp only [step]
    split
    · rename_i x hx
      split
      · rename_i b hb
        refine ⟨⟨?_, h.2⟩, rfl⟩
        intro w hw'
        simp only [upd] at hw'
        split at hw'
        · rename_i hwv
          subst hwv
          have hbk : b = k := by simpa using hw'
          subst hbk
          have hxT : x ∈ T := h.1 x hb
          have hxs : x ∈ srcs := List.mem_of_getElem? hx
          have := (List.all_eq_true.mp hc) _ hs
          simp only [Bool.or_eq_true, List.all_eq_true, Bool.not_eq_eq_eq_not, Bool.not_true,
            decide_eq_false_iff_not, decide_eq_true_eq] at this
          rcases this with h1 | h1
          · exact absurd hxT (h1 x hxs)
          · exact h1
        · exact h.1 w hw'
      · exact ⟨inv_bindFresh v h, rfl⟩
    · exact ⟨inv_bindFresh v h, rfl⟩
  | write v =>
    simp only [step]
    split
    · rename_i b hb
      refine ⟨⟨h.1, h.2⟩, ?_⟩
      have hne : k ≠ b := by
        intro hkb
        subst hkb
        have hvT : v ∈ T := h.1 v hb
        have : v ∈ writesIn prog T := by
          simp only [writesIn, List.mem_filterMap]
          exact ⟨FStmt.write v, hs, by simp [hvT]⟩
        rw [hw] at this
        cases this
      simp [hne]
    · exact ⟨h, rfl⟩

theorem run_preserves {prog : List FStmt} {T : List String} {k : Nat}
    (hc : closedB prog T = true) (hw : writesIn prog T = []) (trace : List (Nat × Nat)) (σ : St) (h : Inv T k σ) :
    (run prog trace σ).heap k = σ.heap k := by
  induction trace generalizing σ with
  | nil => rfl
  | cons ip t ih =>
    obtain ⟨i, pick⟩ := ip
    simp only [run]
    cases hi : prog[i]? with
    | none => exact ih σ h
    | some s =>
      have hs : s ∈ prog := List.mem_of_getElem? hi
      have := step_preserves pick hs hc hw h
      simp only []
      rw [ih _ this.1, this.2]

/-- **array_function_leaves_inputs_intact** (soundness of the verdict).  For EVERY abstract routine, every
    parameter list, every parameter `p` (the `k`-th), every initial heap, and EVERY execution — any finite sequence of
    the routine's statements in any order and multiplicity, with every "may share" resolved in any way —: if the
    verdict is `mayWrite prog p = false`, the buffer of `p` ends with the version it started with. -/
theorem not_mayWrite_sound (prog : List FStmt) (params : List String) (p : String) (k : Nat)
    (hk : idxOf? params p = some k) (hv : mayWrite prog p = false)
    (trace : List (Nat × Nat)) (h0 : Nat → Nat) :
    (run prog trace (init params h0)).heap k = h0 k := by
  simp only [mayWrite, Bool.not_eq_false', Bool.and_eq_true, decide_eq_true_eq, List.isEmpty_iff] at hv
  obtain ⟨⟨hp, hc⟩, hw⟩ := hv
  have hinv : Inv (taint prog p) k (init params h0) := by
    refine ⟨?_, ?_⟩
    · intro v hvk
      have h1 := idxOf?_get params v k hvk
      have h2 := idxOf?_get params p k hk
      have : v = p := by rw [h1] at h2; simpa using h2
      subst this; exact hp
    · have h2 := idxOf?_get params p k hk
      simp only [init]
      exact (List.getElem?_eq_some_iff.mp h2).1
  exact run_preserves hc hw trace _ hinv

/-- tightness: a write through a name bound to the parameter's buffer IS visible (the verdict is not vacuous) -/
theorem write_is_visible (h0 : Nat → Nat) :
    (run [FStmt.alias "v" ["p"], FStmt.write "v"] [(0, 0), (1, 0)] (init ["p"] h0)).heap 0 = h0 0 + 1 := by
  simp [run, step, init, idxOf?, upd]

/-- every verdict `true` of table `t` is on the list `rev` -/
def cleanB (t : Table) (rev : List (String × String)) : Bool :=
  t.all fun r => r.params.all fun p => !mayWrite (flatOf t r) p || decide ((r.name, p) ∈ rev)

/-- general: in a module whose verdicts are all on the reviewed list, every routine leaves every parameter that is
    NOT on the list exactly as it was — for every execution of the routine with its callees inlined. -/
theorem clean_table_leaves_inputs_intact (t : Table) (rev : List (String × String)) (hclean : cleanB t rev = true)
    (r : Routine) (hr : r ∈ t) (p : String) (k : Nat) (hk : idxOf? r.params p = some k) (hnot : (r.name, p) ∉ rev)
    (trace : List (Nat × Nat)) (h0 : Nat → Nat) :
    (run (flatOf t r) trace (init r.params h0)).heap k = h0 k := by
  have hp : p ∈ r.params := List.mem_of_getElem? (idxOf?_get _ _ _ hk)
  have h1 := (List.all_eq_true.mp ((List.all_eq_true.mp hclean) r hr)) p hp
  simp only [Bool.or_eq_true, Bool.not_eq_eq_eq_not, Bool.not_true, decide_eq_true_eq] at h1
  rcases h1 with h1 | h1
  · exact not_mayWrite_sound _ _ p k hk h1 trace h0
  · exact absurd h1 hnot

/-- TABLE OBLIGATION (kernel-decided on the abstraction regenerated from the live source on every run): the verdict
    table of unyt/_array_functions.py — which parameters may be written, through which in-place statements — IS the
    hand-reviewed reference.  A handler or helper that starts converting / scaling / storing into an argument in place
    (also through a view: slicing, `np.asarray`, `unyt_array(x)`, unpacking) makes this FAIL TO BUILD. -/
theorem verdicts_are_reviewed : verdicts Generated.C18Alias.table = Ref.C18Alias.reviewed := by decide +kernel

theorem live_table_is_clean : cleanB Generated.C18Alias.table Ref.C18Alias.targets = true := by decide +kernel

/-- **array_functions_leave_inputs_intact** on the live source: every routine of unyt/_array_functions.py, every
    parameter that is not a reviewed target (`out`, the first argument of NumPy's in-place functions, the reviewed
    `range` exception), every execution: the parameter's buffer is never written. -/
theorem array_functions_leave_inputs_intact
    (r : Routine) (hr : r ∈ Generated.C18Alias.table) (p : String) (k : Nat) (hk : idxOf? r.params p = some k)
    (hnot : (r.name, p) ∉ Ref.C18Alias.targets) (trace : List (Nat × Nat)) (h0 : Nat → Nat) :
    (run (flatOf Generated.C18Alias.table r) trace (init r.params h0)).heap k = h0 k :=
  clean_table_leaves_inputs_intact _ _ live_table_is_clean r hr p k hk hnot trace h0

/-! ## unyt/array.py: methods of unyt_array / unyt_quantity and the module-level functions -/

theorem array_verdicts_are_reviewed : verdicts Generated.C18AliasArray.table = Ref.C18Alias.reviewedArray := by decide +kernel

theorem array_table_is_clean : cleanB Generated.C18AliasArray.table Ref.C18Alias.targetsArray = true := by decide +kernel

/-- no documented-copying method (hand-written list `Ref.C18.copyingMethods`) has ANY parameter other than `out` / a
    handed-on `kwargs` among the reviewed targets — in particular never `self`, never the other operand -/
theorem copying_methods_never_target_inputs :
    (Ref.C18Alias.targetsArray.filter fun (m, p) => decide (m ∈ Ref.C18.copyingMethods) && p != "out" && p != "kwargs") = [] := by
  decide +kernel

/-- **copying_methods_leave_all_inputs_intact**: for every documented-copying method that array.py defines (to, in_units,
    in_base, in_cgs, in_mks, to_value, to_equivalent, copy, __getitem__, __pow__, dot, take ...), EVERY parameter —
    `self`, the unit / the other operand / the index ... — other than `out` and a handed-on `**kwargs`, and every execution
    of the method with its callees (other methods, property getters, module helpers) inlined: the parameter's buffer is
    never written.  (Views are followed: `.d`, `.ndview`, slicing, `np.asarray(x)`, `unyt_array(x)`; a result that IS the
    input's buffer and is then offset / scaled in place — the C18-c shape — would be flagged.) -/
theorem copying_methods_leave_all_inputs_intact
    (r : Routine) (hr : r ∈ Generated.C18AliasArray.table) (hm : r.name ∈ Ref.C18.copyingMethods)
    (p : String) (k : Nat) (hk : idxOf? r.params p = some k) (hout : p ≠ "out") (hkw : p ≠ "kwargs")
    (trace : List (Nat × Nat)) (h0 : Nat → Nat) :
    (run (flatOf Generated.C18AliasArray.table r) trace (init r.params h0)).heap k = h0 k := by
  apply clean_table_leaves_inputs_intact _ _ array_table_is_clean r hr p k hk
  intro hmem
  have h := copying_methods_never_target_inputs
  have : (r.name, p) ∈ (Ref.C18Alias.targetsArray.filter fun (m, p) =>
      decide (m ∈ Ref.C18.copyingMethods) && p != "out" && p != "kwargs") := by
    simp only [List.mem_filter, Bool.and_eq_true, decide_eq_true_eq, bne_iff_ne, ne_eq]
    exact ⟨hmem, ⟨hm, hout⟩, hkw⟩
  rw [h] at this
  cases this

/-- non-vacuity: `unyt_array.in_units` is in the table and on the list, `self` is its first parameter -/
example : ((Generated.C18AliasArray.table.find? "unyt_array.in_units").map fun r => idxOf? r.params "self") = some (some 0)
    ∧ "unyt_array.in_units" ∈ Ref.C18.copyingMethods := by decide +kernel

/-- non-vacuity: `histogram`'s data argument `a` meets the hypotheses -/
example : (Generated.C18Alias.table.find? "histogram").isSome = true
    ∧ ("histogram", "a") ∉ Ref.C18Alias.targets := by decide +kernel

/-- the seeded shape (C18-d), as an abstract routine: `ilim = r[0:2]; ilim = unyt_array(ilim); ilim.convert_to_units(u)`
    — the verdict is `true`, and an execution that writes the caller's buffer exists -/
def viewConvert : List FStmt := [.alias "ilim" ["r"], .alias "ilim" ["ilim"], .write "ilim"]

theorem view_convert_is_flagged : mayWrite viewConvert "r" = true := by decide

theorem view_convert_writes (h0 : Nat → Nat) :
    (run viewConvert [(0, 0), (1, 0), (2, 0)] (init ["r", "units"] h0)).heap 0 = h0 0 + 1 := by
  simp [viewConvert, run, step, init, idxOf?, upd]

/-- ... while the copying spelling `new = imin.to_value(u)` (a fresh object) is not flagged -/
theorem copy_convert_is_clean :
    mayWrite [.alias "ilim" ["r"], .alias "imin" ["ilim"], .fresh "new", .write "new"] "r" = false := by decide

end Unyt.C18.Alias
