/-
  C18 — the LINK between the hand-written event orders (`Ref.C18.Order.*`, which
  `source_order_is_modelled` proves equal to the orders regenerated from the live source) and the step
  models the driver executes: on a grid of operand descriptors (every dtype of the live universe ×
  writeable / read-only × plain / offset / incommensurable / unparsable requests × every equivalence
  branch of the regenerated table) the sequence of step tags the model emits is a subsequence of the
  reference order.  Editing `Ref.C18.Order` to follow a source reorder without changing the step model
  (or vice versa) breaks these kernel-decided obligations.
-/
import UnytProofs.C18
import UnytModel.Generated.EquivFormulas

namespace Unyt.C18
open Unyt Unyt.Effects Unyt.Ufunc Unyt.Ref.C18

def gridDtypes : List Dtype := Generated.liveNumpy.dtypes
def kW : UnitV Rat := ⟨UExpr.sym "K", 1, 0, Dim.dTemperature, true⟩
def cmW : UnitV Rat := ⟨UExpr.sym "cm", 1/100, 0, Dim.dLength, true⟩
def gridUnits : List (UnitV Rat) := [mW.v, degCW.v]
def gridTargets : List (Except Err (UnitV Rat)) := [.ok cmW, .ok kW, .ok sW.v, .ok mW.v, .error .UnitParseError]

/-- `convert_to_units`: every path of the step model follows the source order -/
theorem convert_to_units_steps_follow_source_order :
    gridDtypes.all (fun d => [true, false].all fun w => gridUnits.all fun u => gridTargets.all fun tg =>
      isSubseq (tags (convertToUnitsSteps liveFlags Generated.liveNumpy Generated.liveRules [] lutW [] ⟨u, d, w⟩ tg))
        Order.convertToUnits) = true := by
  decide +kernel

/-- the whole routine of `convert_to_equivalent` with its callees inlined: the top-level order, each
    `C:self.convert_to_units` followed by the order of `convert_to_units`, `C:this_equiv.convert` followed
    by (up to six — the Lorentz chain has five) `__array_ufunc__` calls with `out=x` -/
def flatConvertToEquivalent : List String :=
  let bin := Order.arrayUfunc.dropWhile (· != "F:_coerce_iterable_units")
  Order.convertToEquivalent.flatMap fun t =>
    if t == "C:self.convert_to_units" then t :: Order.convertToUnits
    else if t == "C:this_equiv.convert" then t :: (List.replicate 6 bin).flatten
    else [t]

def jW : UnitV Rat := ⟨UExpr.sym "J", 1, 0, ⟨1, 2, -2, 0, 0, 0, 0, 0⟩, true⟩
def velW : UnitV Rat := ⟨⟨1, [("m", 1), ("s", -1)]⟩, 1, 0, ⟨0, 1, -1, 0, 0, 0, 0, 0⟩, true⟩
def kgW : UnitV Rat := ⟨UExpr.sym "kg", 1, 0, Dim.dMass, true⟩
/-- (operand unit, requested unit, equivalence, keywords) -/
def gridRequests : List (UnitV Rat × Except Err (UnitV Rat) × String × List String) :=
  [(kW, .ok jW, "thermal", []), (jW, .ok kW, "thermal", []), (degCW.v, .ok jW, "thermal", []),
   (kW, .ok velW, "sound_speed", []), (velW, .ok kW, "sound_speed", []), (jW, .ok velW, "sound_speed", ["gamma"]),
   (kgW, .ok jW, "mass_energy", []), (velW, .ok (UnitV.dimensionless), "lorentz", []),
   (kW, .ok kW, "thermal", []), (kW, .ok mW.v, "thermal", []), (mW.v, .ok jW, "thermal", []),
   (kW, .ok jW, "nope", []), (kW, .ok jW, "thermal", ["mu"]), (kW, .error .UnitParseError, "thermal", [])]

/-- `convert_to_equivalent`: every path of the step model follows the (flattened) source order -/
theorem convert_to_equivalent_steps_follow_source_order :
    gridDtypes.all (fun d => [true, false].all fun w => gridRequests.all fun r => [(1 : Rat), 100].all fun sc =>
      isSubseq (tags (convertToEquivalentSteps liveFlags Generated.liveNumpy Generated.liveRules [] lutW []
          Generated.equivalences ⟨r.1, d, w⟩
          { convUnit := r.2.1, name := r.2.2.1, kwargs := r.2.2.2, selfCoeff := sc, reenters := Generated.C18.fixupReenters,
            powRefuses := Generated.powRefuses }))
        flatConvertToEquivalent) = true := by
  decide +kernel

/-- `convert_to_equivalent` on the LIVE tables, beyond the general guard (`cteGuard` asks for a writeable
    buffer and admits the re-typing pair in its conclusion): on the whole grid — every dtype of the
    universe, writeable AND read-only, every request of `gridRequests`, unit with and without a
    cancellation coefficient — a raising call has performed NO effect at all (the read-only refusal and
    the unit refusal precede the re-typing; NumPy's kernel never refuses a promoted float buffer) -/
theorem convert_to_equivalent_failures_leave_nothing_live :
    gridDtypes.all (fun d => [true, false].all fun w => gridRequests.all fun r => [(1 : Rat), 100].all fun sc =>
      let run := runSteps (convertToEquivalentSteps liveFlags Generated.liveNumpy Generated.liveRules [] lutW []
          Generated.equivalences ⟨r.1, d, w⟩
          { convUnit := r.2.1, name := r.2.2.1, kwargs := r.2.2.2, selfCoeff := sc, reenters := Generated.C18.fixupReenters,
            powRefuses := Generated.powRefuses })
      run.err?.isNone || run.effects.isEmpty) = true := by
  decide +kernel

/-- `convert_to_base/cgs/mks` and `__setitem__` -/
theorem wrappers_and_setitem_follow_source_order :
    ([BaseKind.base, .cgs, .mks].all fun k => gridDtypes.all fun d => [true, false].all fun w =>
        isSubseq (tags (convertToBaseSteps liveFlags Generated.liveNumpy Generated.liveRules [] lutW []
            { name := "t", um := [], base := [] } k ⟨mW.v, d, w⟩))
          ((match k with | .base => Order.convertToBase | .cgs => Order.convertToCgs | .mks => Order.convertToMks).flatMap
            fun t => if t == "C:self.convert_to_units" then t :: Order.convertToUnits else [t]))
    ∧ ([ArrayChecks.SetValue.bare, .withUnits cmW, .withUnits sW.v].all fun v => [none, some Err.ValueError].all fun np =>
        isSubseq (tags (setitemSteps [] lutW UnitV.eqv mW.v v np)) Order.setitem) = true := by
  decide +kernel

/-- the events of `__array_ufunc__` a dispatcher effect stands for -/
def effectTags : Effect Rat → List String
  | .retypeOut => ["W:out.dtype", "W:copyto(out)"]
  | .writeOut _ => ["W:func(out=out_func)"]
  | .scaleOut => ["W:multiply(out=out_func)"]
  | .setOutUnits _ _ => ["W:out.units"]

def gridCalls : List (Call Rat) :=
  let outs : List OutSpec := [.one {}, .one { intDtype := true }, .one { isUnyt := false }]
  outs.flatMap fun o =>
    [ { ufunc := "add", inputs := [.unyt .array mW arrD, .unyt .array mW arrD], out := o },
      { ufunc := "add", inputs := [.unyt .array mW arrD, .unyt .array sW arrD], out := o },
      { ufunc := "add", inputs := [.unyt .array mW arrD, .unyt .array mW arrD], out := o, kernelErr := some .ValueError },
      { ufunc := "multiply", inputs := [.unyt .array cmPerM arrD, .bare num2], out := o },
      { ufunc := "multiply", inputs := [.unyt .array degCW arrD, .bare num2], out := o },
      { ufunc := "floor_divide", inputs := [.unyt .array mW arrD, .unyt .array mW arrD], out := o },
      { ufunc := "power", inputs := [.unyt .array mW arrD, .bare num2], out := o },
      { ufunc := "less", inputs := [.unyt .array mW arrD, .unyt .array mW arrD], out := o } ]

/-- the shared dispatcher's effect list, read as events, follows the source order of `__array_ufunc__`:
    binary calls within the binary part of the routine, one-input calls from its start -/
theorem ufunc_effects_follow_source_order :
    (gridCalls.all fun c =>
        isSubseq (dedup ((dispatch Cw c).effects.flatMap effectTags))
          (Order.arrayUfunc.dropWhile (· != "F:_coerce_iterable_units")))
    ∧ ([OutSpec.one {}, .one { intDtype := true }].all fun o =>
        [("sqrt", mW), ("sqrt", degCW), ("negative", mW), ("isfinite", mW)].all fun p =>
          isSubseq (dedup ((dispatch Cw { ufunc := p.1, inputs := [.unyt .array p.2 arrD], out := o }).effects.flatMap effectTags))
            Order.arrayUfunc) = true := by
  decide +kernel

end Unyt.C18
