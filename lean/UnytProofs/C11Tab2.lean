/-
  C11 — kernel-decided obligations over the regenerated route table and the concrete
  counterexamples (part 2: the other defect classes, the full statement).  Everything here is evaluated at ℚ over the regenerated default
  table (one kernel evaluation per file, shared by the statements); the harness replays every
  witness on the real code.
-/
import UnytProofs.C11

set_option linter.unusedSectionVars false
set_option linter.unusedVariables false

namespace Unyt.C11
open Unyt Unyt.Persist

section witnesses
attribute [local instance] ratPowStub

/-- everything this file decides, evaluated once -/
def tab2 : Bool :=
  allDefectsShow Ref.c11AsIs
    && decide (defectCounts Ref.c11AsIs = [0, 0, 0, 0, 3, 3, 3, 1])
    && (match restoreQ (liveCfg .pickleArray) wStale with | .ok y => y.unit.scale == 5 | .error _ => false)
    && wStale.unit.scale == 3
    && guardQ (asIsCfg .pickleArray) wDelta
    && !(guardQ (asIsCfg .pickleArray) wStale) && !(guardQ (asIsCfg .pickleArray) wNoLb)
    && !(guardQ (asIsCfg .registryJson) wCgs) && !(guardQ (asIsCfg .saveLoadTxt) wUser)
    && !(Dim.isBase3 (qQuantity 2 "km").unit.dim) && Dim.isBase3 wDeg.unit.dim && Dim.isBase3 wK.unit.dim
    && Dim.isBase3 wDB.unit.dim

theorem tab2_decided : tab2 = true := by decide +kernel

/-- the defect classes that remain in the present code: a removed default symbol is back after
    pickle / JSON / text; `unit_system` is lost on those routes; a unit created before `modify` is
    rebound wherever units travel by name; a user-defined unit is unreadable from a text file.
    (No route any more loses dimension identity, sends an unreadable `Δ°C`, or resets a modified
    default symbol: fixes acfd34f, C11-01, C11-02, C11-03.) -/
theorem other_defects_show : allDefectsShow Ref.c11AsIs = true := by
  have h := tab2_decided
  simp only [tab2, Bool.and_eq_true] at h
  exact h.1.1.1.1.1.1.1.1.1.1.1.1

/-- number of routes each class concerns (identity of a carried unit, identity of table rows, display
    string, modified default, removed default, unit system, unit rebound, user rows not carried) -/
theorem defect_classes_inhabited : defectCounts Ref.c11AsIs = [0, 0, 0, 0, 3, 3, 3, 1] := by
  have h := tab2_decided
  simp only [tab2, Bool.and_eq_true, decide_eq_true_eq] at h
  exact h.1.1.1.1.1.1.1.1.1.1.1.2

/-- the same facts for the table regenerated from the live code -/
theorem live_defects_show : allDefectsShow Generated.persistRoutes = true := by
  rw [active_routes_classified]; exact other_defects_show

/-- the full statement is false of the faithful model: a quantity created BEFORE
    `reg.modify('vfoo', 5.0)` (base value 3.0) comes back from pickle with base value 5.0 -/
theorem C11_counterexample : ¬ C11_full := by
  intro h
  have hc : Generated.persistRoutes.get .pickleArray = some (liveCfg .pickleArray) := by decide
  have hx := h .pickleArray _ hc wStale
  have ht := tab2_decided
  simp only [tab2, Bool.and_eq_true, beq_iff_eq] at ht
  have he := ht.1.1.1.1.1.1.1.1.1.1.2
  have h3 := ht.1.1.1.1.1.1.1.1.1.2
  unfold restoreQ at he
  rw [hx] at he
  simp only [beq_iff_eq] at he
  rw [h3] at he
  exact absurd he (by decide)

/-- the guard accepts `2 delta_degC` on the pickle route (the parser reads `Δ°C`) and rejects exactly
    the witnesses of the remaining counterexamples -/
theorem guards_reject_witnesses :
    guardQ (asIsCfg .pickleArray) wDelta = true ∧ guardQ (asIsCfg .pickleArray) wStale = false
      ∧ guardQ (asIsCfg .pickleArray) wNoLb = false ∧ guardQ (asIsCfg .registryJson) wCgs = false
      ∧ guardQ (asIsCfg .saveLoadTxt) wUser = false := by
  have h := tab2_decided
  simp only [tab2, Bool.and_eq_true, Bool.not_eq_true'] at h
  exact ⟨h.1.1.1.1.1.1.1.1.2, h.1.1.1.1.1.1.1.2, h.1.1.1.1.1.1.2, h.1.1.1.1.1.2, h.1.1.1.1.2⟩

/-- the hypothesis of the `identity_loss_pinned_*` theorems is met by ordinary objects (2 km); 90°,
    300 K, 3 dB are exactly outside it -/
theorem pin_hypothesis_inhabited :
    Dim.isBase3 (qQuantity 2 "km").unit.dim = false ∧ Dim.isBase3 wDeg.unit.dim = true
      ∧ Dim.isBase3 wK.unit.dim = true ∧ Dim.isBase3 wDB.unit.dim = true := by
  have h := tab2_decided
  simp only [tab2, Bool.and_eq_true, Bool.not_eq_true'] at h
  exact ⟨h.1.1.1.2, h.1.1.2, h.1.2, h.2⟩

end witnesses

end Unyt.C11
