/-
  C11 — kernel-decided obligations over the regenerated route table and the concrete
  counterexamples (part 2: the other defect classes, the full statement).  Everything here is evaluated at ℚ over the regenerated default
  table (one kernel evaluation per file, shared by the statements); the harness replays every
  witness on the real code.
-/
import UnytProofs.C11

set_option linter.unusedSectionVars false
set_option linter.unusedVariables false

namespace Unyt.C11
open Unyt Unyt.Persist

section witnesses
attribute [local instance] ratPowStub

/-- everything this file decides, evaluated once -/
def tab2 : Bool :=
  allDefectsShow Ref.c11AsIs && allDefectsShow Ref.c11Reinterned
    && decide (defectCounts Ref.c11AsIs = [4, 1, 0, 2, 5, 5, 3, 1])
    && (match restoreQ (liveCfg .pickleArray) wStale with | .ok y => y.unit.scale == 5 | .error _ => false)
    && wStale.unit.scale == 3
    && !(guardQ (asIsCfg .pickleArray) wDeg) && guardQ (keepIdentity (asIsCfg .pickleArray)) wDelta
    && !(guardQ (keepIdentity (asIsCfg .pickleArray)) wStale) && !(guardQ (keepIdentity (asIsCfg .deepcopyArray)) wModG)
    && !(Dim.isBase3 (qQuantity 2 "km").unit.dim) && Dim.isBase3 wDeg.unit.dim && Dim.isBase3 wK.unit.dim
    && Dim.isBase3 wDB.unit.dim

theorem tab2_decided : tab2 = true := by decide +kernel

/-- the other defect classes of the present code, on both reference tables (the candidate fix
    does not touch them): (`Δ°C` unreadable — no route any more); modified default symbol reset by deepcopy; removed
    default symbol resurrected; `unit_system` lost; a unit created before `modify` rebound by
    pickle; a user-defined unit unreadable from a text file -/
theorem other_defects_show : allDefectsShow Ref.c11AsIs = true ∧ allDefectsShow Ref.c11Reinterned = true := by
  have h := tab2_decided
  simp only [tab2, Bool.and_eq_true] at h
  exact ⟨h.1.1.1.1.1.1.1.1.1.1.1.1, h.1.1.1.1.1.1.1.1.1.1.1.2⟩

/-- the classes above are not vacuous: number of routes each concerns in the as-is table
    (identity of a carried unit, identity of table rows, display string, modified default, removed
    default, unit system, unit rebound, user rows not carried) -/
theorem defect_classes_inhabited : defectCounts Ref.c11AsIs = [4, 1, 0, 2, 5, 5, 3, 1] := by
  have h := tab2_decided
  simp only [tab2, Bool.and_eq_true, decide_eq_true_eq] at h
  exact h.1.1.1.1.1.1.1.1.1.1.2

/-- the same facts for the table regenerated from the live code -/
theorem live_defects_show : allDefectsShow Generated.persistRoutes = true := by
  rcases active_routes_classified with h | h <;> rw [h]
  · exact other_defects_show.1
  · exact other_defects_show.2

/-- the full statement is false of the faithful model: a quantity created BEFORE
    `reg.modify('vfoo', 5.0)` (base value 3.0) comes back from pickle with base value 5.0 -/
theorem C11_counterexample : ¬ C11_full := by
  intro h
  have hc : Generated.persistRoutes.get .pickleArray = some (liveCfg .pickleArray) := by decide
  have hx := h .pickleArray _ hc wStale
  have ht := tab2_decided
  simp only [tab2, Bool.and_eq_true, beq_iff_eq] at ht
  have he := ht.1.1.1.1.1.1.1.1.1.2
  have h3 := ht.1.1.1.1.1.1.1.1.2
  unfold restoreQ at he
  rw [hx] at he
  simp only [beq_iff_eq] at he
  rw [h3] at he
  exact absurd he (by decide)

/-- the guards reject exactly the witnesses of the counterexamples (and, since the parser reads
    `Δ°C`, accept `2 delta_degC` on the pickle route modulo identity) -/
theorem guards_reject_witnesses :
    guardQ (asIsCfg .pickleArray) wDeg = false ∧ guardQ (keepIdentity (asIsCfg .pickleArray)) wDelta = true
      ∧ guardQ (keepIdentity (asIsCfg .pickleArray)) wStale = false
      ∧ guardQ (keepIdentity (asIsCfg .deepcopyArray)) wModG = false := by
  have h := tab2_decided
  simp only [tab2, Bool.and_eq_true, Bool.not_eq_true'] at h
  exact ⟨h.1.1.1.1.1.1.1.2, h.1.1.1.1.1.1.2, h.1.1.1.1.1.2, h.1.1.1.1.2⟩

/-- the hypothesis of the `identity_loss_pinned_*` theorems is met by ordinary objects (2 km) and
    is exactly what the three witnesses of `identity_loss_shows_asIs` violate (90°, 300 K, 3 dB) -/
theorem pin_hypothesis_inhabited :
    Dim.isBase3 (qQuantity 2 "km").unit.dim = false ∧ Dim.isBase3 wDeg.unit.dim = true
      ∧ Dim.isBase3 wK.unit.dim = true ∧ Dim.isBase3 wDB.unit.dim = true := by
  have h := tab2_decided
  simp only [tab2, Bool.and_eq_true, Bool.not_eq_true'] at h
  exact ⟨h.1.1.1.2, h.1.1.2, h.1.2, h.2⟩

end witnesses

end Unyt.C11
