/-
  C17 — the Python type of the conversion factor (weak Python float vs strong NumPy scalar) cannot
  change the dtype a conversion returns.

  The factor is `old.base_value / new.base_value`; the live unit table holds Python floats, one
  Python int and `np.float64` scalars (Planck units, bel family).  `float32 * np.float64` is
  float64 in NumPy: it is the explicit cast of the product (`np.asarray(…, dtype=new_dtype)`) on the
  copying routes, and the in-place multiply on the in-place routes, that keep narrow floats / complex
  in their width.  Everything is decided by the kernel over the regenerated tables
  (`Generated/FactorTables.lean`: every entry of the unit table, NumPy's promotion per factor kind,
  the cast rule read from the source, the outcomes observed on the live library per factor kind).
  Property statements only.
-/
import UnytModel.Dtype
import UnytModel.DtypeFactor
import UnytModel.Ref.C17
import UnytModel.Generated.DtypeTables
import UnytModel.Generated.FactorTables
import UnytModel.Ops.C17Factor
import UnytProofs.Lemmas.C17
import UnytProofs.Lemmas.C17Factor

set_option linter.unusedSectionVars false
set_option linter.unusedVariables false
set_option linter.unusedSimpArgs false

namespace Unyt.C17Factor
open Unyt Unyt.Generated Unyt.Ref.C17
open Unyt.C17L (decEqExcept)
attribute [local instance] Unyt.C17L.decEqExcept

abbrev N : NumpyFacts := liveNumpy
abbrev P : DtypeRules := liveRules
abbrev F : FactorFacts := liveFactor
abbrev R : FactorRules := liveFactorRules

/-- the dtypes the property quantifies over -/
def scope : List Dtype := N.dtypes.filter (fun d => d.kind != .b)

/-- every factor kind a conversion between two units of the live table can meet -/
def factorKinds : List FactorKind := factorKindsOf F.baseKinds

def eqOutF : Except Err Dtype → Except Err Dtype → Bool
  | .ok a, .ok b => a == b
  | .error a, .error b => a == b
  | _, _ => false

/-! ## the unit table and the typing of the factor -/

/-- every one of the entries of the live unit table has a base value of one of the listed types
    (nothing else reaches `_get_conversion_factor` from the stock table) -/
theorem unit_table_base_kinds_listed :
    liveUnitBaseKinds.all (fun (_, k) => F.baseKinds.contains k) = true := by
  decide +kernel

/-- hence the factor of a conversion between any two atomic units of the table has one of
    `factorKinds` -/
theorem unit_table_factor_kinds_listed :
    ∀ a ∈ liveUnitBaseKinds, ∀ b ∈ liveUnitBaseKinds, ratioKind a.2 b.2 ∈ factorKinds := by
  have h := unit_table_base_kinds_listed
  have hk : ∀ x ∈ F.baseKinds, ∀ y ∈ F.baseKinds, ratioKind x y ∈ factorKinds := by decide +kernel
  intro a ha b hb
  rw [List.all_eq_true] at h
  have h1 := h a ha
  have h2 := h b hb
  simp only [List.contains_iff_mem] at h1 h2
  exact hk _ h1 _ h2

/-- … and so has the factor of a conversion between **any two `Unit` objects** over the table — bare
    symbols, parsed compound expressions, units built by arithmetic (their base value went through
    `float(...)`) -/
theorem any_units_factor_kind_listed (a b : UnitShape) (k : FactorKind)
    (h : shapeFactorKind liveUnitBaseKinds a b = some k) : k ∈ factorKinds := by
  have hk : ∀ x ∈ F.baseKinds, ∀ y ∈ F.baseKinds, ratioKind x y ∈ factorKinds := by decide +kernel
  have hpy : BaseKind.pyfloat ∈ F.baseKinds := by decide +kernel
  have hall := unit_table_base_kinds_listed
  rw [List.all_eq_true] at hall
  have hb : ∀ u : UnitShape, ∀ x, shapeBaseKind liveUnitBaseKinds u = some x → x ∈ F.baseKinds := by
    intro u x hu
    cases u with
    | other => simp [shapeBaseKind] at hu; subst hu; exact hpy
    | symbol s =>
      simp only [shapeBaseKind] at hu
      have hm : (s, x) ∈ liveUnitBaseKinds := Unyt.C17FL.mem_of_lookup _ _ _ hu
      have := hall (s, x) hm
      simpa [List.contains_iff_mem] using this
  unfold shapeFactorKind at h
  cases ha : shapeBaseKind liveUnitBaseKinds a with
  | none => simp [ha] at h
  | some x =>
    cases hb' : shapeBaseKind liveUnitBaseKinds b with
    | none => simp [ha, hb'] at h
    | some y =>
      simp [ha, hb'] at h
      subst h
      exact hk x (hb a x ha) y (hb b y hb')

/-- the model's typing of `old / new` is what Python/NumPy answer on live base values, for every
    pair of base kinds of the table -/
theorem ratio_kind_matches_observed :
    observedRatio.all (fun (a, b, k) => ratioKind a b == k) = true
    ∧ (F.baseKinds.all fun a => F.baseKinds.all fun b =>
        observedRatio.any fun (a', b', _) => a' == a && b' == b) = true := by
  decide +kernel

/-- the stock table does contain strong factors (the theorems below are not vacuous in that
    direction): a NumPy float64 scalar -/
theorem strong_factor_occurs : FactorKind.npfloat 8 ∈ factorKinds ∧ FactorKind.pyfloat ∈ factorKinds := by
  decide +kernel

/-! ## dtype per route, for every factor kind -/

/-- copy route (`in_units`, `to`): whatever the type of the factor, integers become the float of
    the same item size (at least 16 bits), floats and complex keep their dtype — never raising -/
theorem copy_route_dtype_any_factor :
    ∀ fk ∈ factorKinds, ∀ d ∈ scope,
      eqOutF (copyDtypeStaged N P F R.copyCastKinds.contains fk d) (.ok (expectedDtype d)) = true := by
  decide +kernel

/-- `in_base` likewise -/
theorem in_base_dtype_any_factor :
    ∀ fk ∈ factorKinds, ∀ d ∈ scope,
      eqOutF (inBaseDtypeStaged N P F R.inBaseCastKinds.contains fk d) (.ok (expectedDtype d)) = true := by
  decide +kernel

/-- in-place route: the same dtype, or `ValueError` exactly for the 1-byte integers, whatever the
    type of the factor -/
theorem inplace_route_dtype_any_factor :
    ∀ fk ∈ factorKinds, ∀ d ∈ scope,
      eqOutF (convertToUnitsDtypeF N P F fk d)
        (if mayRaise d then .error .ValueError else .ok (expectedDtype d)) = true := by
  decide +kernel

/-- the copying and the in-place routes agree on the dtype for every factor kind (wherever the
    in-place route returns), on all six same-dimension routes, scalar and array -/
theorem routes_agree_dtype_any_factor :
    ∀ fk ∈ factorKinds, ∀ d ∈ scope, ∀ q ∈ [false, true],
      (mayRaise d ∨
        (eqOutF (routeDtypeF N P F R fk .convertToUnits d q) (routeDtypeF N P F R fk .to d q) = true
         ∧ eqOutF (routeDtypeF N P F R fk .convertToBase d q) (routeDtypeF N P F R fk .inBase d q) = true)) := by
  decide +kernel

/-- float16/float32 (every float) and complex data stay in their width for every factor kind, on
    every same-dimension route that hands back an array -/
theorem float_and_complex_stay_any_factor :
    ∀ fk ∈ factorKinds, ∀ d ∈ scope, (d.kind = .f ∨ d.kind = .c) →
      ∀ r ∈ [Route.to, .inUnits, .inBase, .convertToUnits, .convertToBase],
        eqOutF (routeDtypeF N P F R fk r d false) (.ok d) = true
        ∧ eqOutF (routeDtypeF N P F R fk r d true) (.ok d) = true := by
  decide +kernel

example : FactorKind.npfloat 8 ∈ factorKinds ∧ (⟨.f, 4⟩ : Dtype) ∈ scope := by decide +kernel

/-- **headline**: a conversion between any two `Unit` objects over the live table (whatever the type
    of the factor they produce), of data of any integer / unsigned / float / complex dtype, returns the
    required dtype on the copying routes, the same dtype or `ValueError` (1-byte integers only) on the
    in-place route -/
theorem conversion_dtype_any_units (a b : UnitShape) (k : FactorKind)
    (h : shapeFactorKind liveUnitBaseKinds a b = some k) :
    ∀ d ∈ scope,
      eqOutF (copyDtypeStaged N P F R.copyCastKinds.contains k d) (.ok (expectedDtype d)) = true
      ∧ eqOutF (inBaseDtypeStaged N P F R.inBaseCastKinds.contains k d) (.ok (expectedDtype d)) = true
      ∧ eqOutF (convertToUnitsDtypeF N P F k d)
          (if mayRaise d then .error .ValueError else .ok (expectedDtype d)) = true := by
  intro d hd
  have hk := any_units_factor_kind_listed a b k h
  exact ⟨copy_route_dtype_any_factor k hk d hd, in_base_dtype_any_factor k hk d hd,
         inplace_route_dtype_any_factor k hk d hd⟩

example : shapeFactorKind liveUnitBaseKinds (.symbol "m") (.symbol "l_pl") = some (.npfloat 8)
    ∧ shapeFactorKind liveUnitBaseKinds .other (.symbol "dB") = some (.npfloat 8)
    ∧ shapeFactorKind liveUnitBaseKinds (.symbol "Wh") .other = some .pyfloat := by decide +kernel

/-- the type of the factor is irrelevant to the dtype: every route gives the same outcome for
    every two factor kinds -/
theorem dtype_independent_of_factor_kind :
    ∀ fk₁ ∈ factorKinds, ∀ fk₂ ∈ factorKinds, ∀ r ∈ Route.sameDim, ∀ d ∈ N.dtypes, ∀ q ∈ [false, true],
      eqOutF (routeDtypeF N P F R fk₁ r d q) (routeDtypeF N P F R fk₂ r d q) = true := by
  decide +kernel

/-- with a Python-float factor the staged model is the route model of `UnytModel.Dtype` (the
    theorems of `UnytProofs/C17.lean` are about the same function) -/
theorem staged_model_extends_route_model :
    ∀ r ∈ Route.all, ∀ d ∈ N.dtypes, ∀ q ∈ [false, true],
      eqOutF (routeDtypeF N P F R .pyfloat r d q) (routeDtype N P r d q) = true := by
  decide +kernel

/-! ## the cast of the product is what does it -/

/-- the full statement for a copy route that casts the product for the kinds `cp` only -/
def C17_staged_full (cp : DKind → Bool) : Prop :=
  ∀ fk ∈ factorKinds, ∀ d ∈ scope,
    copyDtypeStaged N P F cp fk d = .ok (expectedDtype d)

/-- A copy route satisfies the dtype statement for every factor kind of the live table **iff** it
    casts the product to the selected dtype for integer, unsigned, float *and* complex data: the
    source does (`liveFactorRules`, next theorem); any variant that leaves float or complex
    products as NumPy promoted them does not — float32 × np.float64 is float64 -/
theorem staged_full_iff_casts_every_kind (cp : DKind → Bool) :
    C17_staged_full cp ↔ (cp .i = true ∧ cp .u = true ∧ cp .f = true ∧ cp .c = true) := by
  constructor
  · intro h
    have hs := strong_factor_occurs.1
    have hi := h (.npfloat 8) hs ⟨.i, 4⟩ (by decide +kernel)
    have hu := h (.npfloat 8) hs ⟨.u, 4⟩ (by decide +kernel)
    have hf := h (.npfloat 8) hs ⟨.f, 4⟩ (by decide +kernel)
    have hc := h (.npfloat 8) hs ⟨.c, 8⟩ (by decide +kernel)
    refine ⟨?_, ?_, ?_, ?_⟩
    · cases hcp : cp .i with
      | true => rfl
      | false =>
        have : copyDtypeStaged N P F cp (.npfloat 8) ⟨.i, 4⟩ = copyDtypeStaged N P F (fun _ => false) (.npfloat 8) ⟨.i, 4⟩ := by
          simp [copyDtypeStaged, hcp]
        rw [this] at hi; revert hi; decide +kernel
    · cases hcp : cp .u with
      | true => rfl
      | false =>
        have : copyDtypeStaged N P F cp (.npfloat 8) ⟨.u, 4⟩ = copyDtypeStaged N P F (fun _ => false) (.npfloat 8) ⟨.u, 4⟩ := by
          simp [copyDtypeStaged, hcp]
        rw [this] at hu; revert hu; decide +kernel
    · cases hcp : cp .f with
      | true => rfl
      | false =>
        have : copyDtypeStaged N P F cp (.npfloat 8) ⟨.f, 4⟩ = copyDtypeStaged N P F (fun _ => false) (.npfloat 8) ⟨.f, 4⟩ := by
          simp [copyDtypeStaged, hcp]
        rw [this] at hf; revert hf; decide +kernel
    · cases hcp : cp .c with
      | true => rfl
      | false =>
        have : copyDtypeStaged N P F cp (.npfloat 8) ⟨.c, 8⟩ = copyDtypeStaged N P F (fun _ => false) (.npfloat 8) ⟨.c, 8⟩ := by
          simp [copyDtypeStaged, hcp]
        rw [this] at hc; revert hc; decide +kernel
  · rintro ⟨hi, hu, hf, hc⟩ fk hfk d hd
    have key : ∀ fk ∈ factorKinds, ∀ d ∈ scope,
        copyDtypeStaged N P F (fun _ => true) fk d = .ok (expectedDtype d) := by decide +kernel
    have hk : cp d.kind = true := by
      have : d.kind ≠ .b := by
        have hb : ∀ d ∈ scope, d.kind ≠ .b := by decide +kernel
        exact hb d hd
      cases hkd : d.kind <;> simp_all
    have : copyDtypeStaged N P F cp fk d = copyDtypeStaged N P F (fun _ => true) fk d := by
      simp [copyDtypeStaged, hk]
    rw [this]; exact key fk hfk d hd

/-- the source casts the product for all four kinds, in `in_units` and in `in_base` (read by the
    `ast` pass on every run) -/
theorem source_casts_every_kind :
    ([DKind.i, .u, .f, .c].all fun k => R.copyCastKinds.contains k && R.inBaseCastKinds.contains k) = true := by
  decide +kernel

/-- so the live source satisfies the full statement -/
theorem live_staged_full : C17_staged_full R.copyCastKinds.contains ∧ C17_staged_full R.inBaseCastKinds.contains := by
  have h := source_casts_every_kind
  constructor <;> rw [staged_full_iff_casts_every_kind] <;> revert h <;> decide +kernel

/-- a copy route that casts integers only (floats and complex "are already in their dtype") does
    not: concrete witness float32 data, Planck-unit factor -/
theorem ints_only_cast_counterexample :
    ¬ C17_staged_full (fun k => k == .i || k == .u)
    ∧ copyDtypeStaged N P F (fun k => k == .i || k == .u) (.npfloat 8) ⟨.f, 4⟩ = .ok ⟨.f, 8⟩ := by
  constructor
  · rw [staged_full_iff_casts_every_kind]; decide
  · decide +kernel

/-! ## the model agrees with the live library, per factor kind -/

/-- every (route, factor kind, dtype, scalar/array) outcome observed on the live library is the
    model's -/
theorem model_matches_observed_factor_routes :
    observedFactorRoutes.all (fun (r, fk, d, q, o) => eqOutF (routeDtypeF N P F R fk r d q) o) = true := by
  decide +kernel

/-- the observed table covers every factor kind × same-dimension route × dtype × shape -/
theorem observed_factor_routes_cover_domain :
    (factorKinds.all fun fk => Route.sameDim.all fun r => N.dtypes.all fun d => [false, true].all fun q =>
        observedFactorRoutes.any fun (r', fk', d', q', _) => r' == r && fk' == fk && d' == d && q' == q) = true := by
  decide +kernel

/-- stated directly on the outcomes observed on the live library (no model involved): for every
    factor kind, outside the excluded cells, every observed conversion outcome is acceptable to the
    reference — in particular float32/float16/complex64 data came back in their own dtype with a
    NumPy-scalar factor as with a Python-float factor -/
theorem observed_factor_outcomes_satisfy_property :
    observedFactorRoutes.all (fun (r, _fk, d, q, o) =>
        d.kind == .b || knownExcluded r d q ||
          (if r == .toValue && q then
             (mayRaise d && (match o with | .error _ => true | .ok _ => false)) ||
             (eqOutF o (.ok ⟨.f, 8⟩) && (expectedDtype d).kind == .f && decide ((expectedDtype d).size ≤ 8)) ||
             (eqOutF o (.ok ⟨.c, 16⟩) && (expectedDtype d).kind == .c && decide ((expectedDtype d).size ≤ 16))
           else acceptable d o)) = true := by
  decide +kernel

/-! ## values: the promoted product, exact carrier -/

/-- with exact casts the dtype in which the product is evaluated is irrelevant: for every factor
    kind the copy route computes the same value as with a Python-float factor (so the value theorems
    of `UnytProofs/C17.lean`, stated for `copyValue`, carry over) -/
theorem exact_copy_value_any_product_dtype {K : Type} [Mul K] [Sub K] [BEq K] [OfNat K 0]
    (ofInt : Int → K) (m₁ m₂ new : Dtype) (e : Elem K) (f : K) (o : Option K)
    (hk : (m₁.kind = .c) = (m₂.kind = .c)) :
    copyValueF (exactOps K ofInt) true m₁ new e f o = copyValueF (exactOps K ofInt) true m₂ new e f o := by
  have hm : ∀ x : Elem K, mulIn (exactOps K ofInt) m₁ x f = mulIn (exactOps K ofInt) m₂ x f := by
    intro x
    cases x <;> simp [mulIn, castElem, exactOps, hk]
  simp [copyValueF, hm]

/-- the casting copy route of this file is the copy route of `UnytModel.Dtype` -/
theorem copyValueF_cast_eq_copyValue {K : Type} [Mul K] [Sub K] [BEq K] [OfNat K 0] (A : NumOps K)
    (m new : Dtype) (e : Elem K) (f : K) (o : Option K) :
    copyValueF A true m new e f o = copyValue A m new e f o := by
  unfold copyValueF copyValue
  cases offsetTruthy o <;> simp

end Unyt.C17Factor
