/-
  C17 — the offset step (`if offset:`; temperatures, lat/lon) per Python type of the offset.

  `in_units`, `convert_to_units` and — since fix C17-05 — `in_base` subtract the offset into the
  buffer (`np.subtract(ret, offset, ret)`), which keeps the dtype whatever the offset's type.  Before
  the fix `in_base` rebound (`ret = ret - offset`), so NumPy's promotion with a *strong* offset (an
  `np.float64`: every conversion between a unit with an offset and a Planck unit / the planck unit
  system) widened float16/float32/complex64 data and the results of integer data; on an unfixed tree
  the `ast` pass reads `inBaseStep := .rebind`, `offset_full`, `live_offset_steps` and the agreement
  theorems fail in the kernel, and the direct oracle reports the six `…|offset=npfloat8` keys
  (`status: fixed`, which suppresses nothing).  `offset_step_full_iff_out_buffer` says why the
  rebinding form cannot satisfy the property.  Kernel-decided over the regenerated tables
  (`Generated/FactorTables.lean`).  Property statements only.
-/
import UnytModel.Dtype
import UnytModel.DtypeFactor
import UnytModel.Ref.C17
import UnytModel.Ref.C17Factor
import UnytModel.Generated.DtypeTables
import UnytModel.Generated.FactorTables
import UnytProofs.Lemmas.C17

set_option linter.unusedSectionVars false
set_option linter.unusedVariables false
set_option linter.unusedSimpArgs false

namespace Unyt.C17Offset
open Unyt Unyt.Generated Unyt.Ref.C17
open Unyt.C17L (decEqExcept)
attribute [local instance] Unyt.C17L.decEqExcept

/- the same parameters and domains as `UnytProofs/C17Factor.lean` (restated so that the two modules
   build in parallel) -/
abbrev N : NumpyFacts := liveNumpy
abbrev P : DtypeRules := liveRules
abbrev F : FactorFacts := liveFactor
abbrev R : FactorRules := liveFactorRules
def scope : List Dtype := N.dtypes.filter (fun d => d.kind != .b)
def factorKinds : List FactorKind := factorKindsOf F.baseKinds
def eqOutF : Except Err Dtype → Except Err Dtype → Bool
  | .ok a, .ok b => a == b
  | .error a, .error b => a == b
  | _, _ => false

abbrev O : OffsetRules := liveOffsetRules

/-- the offset of a live conversion has the Python type of its ratio (observed on conversions found
    in the live table, per factor kind) -/
theorem offset_kind_matches_observed :
    observedOffsetKind.all (fun (r, o) => offsetKind r == o) = true
    ∧ (factorKinds.all fun fk => observedOffsetKind.any fun (r, _) => r == fk) = true := by
  decide +kernel

/-- verdict of the reference on one cell of a conversion with an offset -/
def verdictO (fk : FactorKind) (r : Route) (d : Dtype) (q : Bool) : Bool :=
  if r == .toValue && q then
    match routeDtypeO N P F R O fk true r d q with
    | .error _ => mayRaise d
    | .ok o => (o == ⟨.f, 8⟩ && (expectedDtype d).kind == .f && decide ((expectedDtype d).size ≤ 8))
               || (o == ⟨.c, 16⟩ && (expectedDtype d).kind == .c && decide ((expectedDtype d).size ≤ 16))
  else acceptable d (routeDtypeO N P F R O fk true r d q)

/-- the full statement: with a truthy offset of any kind, every same-dimension route returns the
    required dtype (or raises only where no float of the item size exists) -/
def C17_offset_full : Prop :=
  ∀ fk ∈ factorKinds, ∀ r ∈ Route.sameDim, ∀ d ∈ scope, ∀ q ∈ [false, true],
    knownExcluded r d q = false → verdictO fk r d q = true

/-- **the full statement holds** (fix C17-05): with a truthy offset of any kind, every
    same-dimension route returns the required dtype, for every dtype, scalar and array -/
theorem offset_full : C17_offset_full := by
  unfold C17_offset_full
  decide +kernel

example : FactorKind.npfloat 8 ∈ factorKinds ∧ Route.inBase ∈ Route.sameDim ∧ (⟨.f, 4⟩ : Dtype) ∈ scope
    ∧ knownExcluded .inBase ⟨.f, 4⟩ false = false := by
  decide +kernel

/-- nothing is excluded any more: the guard of the former `offset_dtype_partial` is empty -/
theorem offset_guard_is_empty :
    ∀ fk ∈ factorKinds, ∀ r ∈ Route.sameDim, ∀ d ∈ scope, knownOffsetExcluded r fk d = false := by
  decide +kernel

/-- the former counterexample cell: float32 degC data, `in_base("planck")` — float32 on the copying
    and on the in-place route -/
theorem in_base_offset_keeps_width :
    routeDtypeO N P F R O (.npfloat 8) true .inBase ⟨.f, 4⟩ false = .ok ⟨.f, 4⟩
    ∧ routeDtypeO N P F R O (.npfloat 8) true .convertToBase ⟨.f, 4⟩ false = .ok ⟨.f, 4⟩
    ∧ routeDtypeO N P F R O (.npfloat 8) true .to ⟨.f, 4⟩ false = .ok ⟨.f, 4⟩ := by
  decide +kernel

/-- copying and in-place routes agree on the dtype with an offset of any kind (wherever the in-place
    route returns) -/
theorem routes_agree_dtype_with_offset :
    ∀ fk ∈ factorKinds, ∀ d ∈ scope, ∀ q ∈ [false, true],
      (mayRaise d ∨
        (eqOutF (routeDtypeO N P F R O fk true .convertToUnits d q) (routeDtypeO N P F R O fk true .to d q) = true
         ∧ eqOutF (routeDtypeO N P F R O fk true .convertToBase d q) (routeDtypeO N P F R O fk true .inBase d q) = true)) := by
  decide +kernel

/-- every same-dimension route: the offset's type never changes the dtype — the outcome with an
    offset is the outcome without, for every factor kind, dtype and shape -/
theorem out_buffer_routes_ignore_offset :
    ∀ fk ∈ factorKinds, ∀ r ∈ Route.sameDim,
      ∀ d ∈ scope, ∀ q ∈ [false, true],
        eqOutF (routeDtypeO N P F R O fk true r d q) (routeDtypeF N P F R fk r d q) = true := by
  decide +kernel

/-- without an offset `routeDtypeO` is `routeDtypeF` (the theorems of `C17Factor` are about it) -/
theorem no_offset_is_factor_model :
    ∀ fk ∈ factorKinds, ∀ r ∈ Route.all, ∀ d ∈ N.dtypes, ∀ q ∈ [false, true],
      eqOutF (routeDtypeO N P F R O fk false r d q) (routeDtypeF N P F R fk r d q) = true := by
  decide +kernel

/-- **which form of the offset step satisfies the property**: applied to the (correct) result of
    the product stage, the step keeps the required dtype for every factor kind and dtype iff it
    writes into the buffer; the rebinding form cannot (fix C17-05 made `in_base` use
    `np.subtract(ret, offset, ret)` like `in_units`) -/
theorem offset_step_full_iff_out_buffer (s : OffsetStep) :
    (∀ fk ∈ factorKinds, ∀ d ∈ scope,
        offsetStageDtype N F s (offsetKind fk) (expectedDtype d) = .ok (expectedDtype d))
      ↔ s = .outBuffer := by
  cases s <;> decide +kernel

/-- the live source: all three routes write into the buffer (read by the `ast` pass on every run) -/
theorem live_offset_steps :
    O.copyStep = .outBuffer ∧ O.inplaceStep = .outBuffer ∧ O.inBaseStep = .outBuffer := by
  decide +kernel

/-! ## agreement with the live library on conversions with an offset -/

theorem model_matches_observed_offset_routes :
    observedOffsetRoutes.all (fun (r, fk, d, q, o) => eqOutF (routeDtypeO N P F R O fk true r d q) o) = true := by
  decide +kernel

theorem observed_offset_routes_cover_domain :
    (factorKinds.all fun fk => Route.sameDim.all fun r => N.dtypes.all fun d => [false, true].all fun q =>
        observedOffsetRoutes.any fun (r', fk', d', q', _) => r' == r && fk' == fk && d' == d && q' == q) = true := by
  decide +kernel

/-- directly on the observed outcomes (no model): outside `knownExcluded` every observed
    outcome of a conversion with an offset is acceptable to the reference -/
theorem observed_offset_outcomes_satisfy_property :
    observedOffsetRoutes.all (fun (r, fk, d, q, o) =>
        d.kind == .b || knownExcluded r d q || knownOffsetExcluded r fk d ||
          (if r == .toValue && q then
             (mayRaise d && (match o with | .error _ => true | .ok _ => false)) ||
             (eqOutF o (.ok ⟨.f, 8⟩) && (expectedDtype d).kind == .f && decide ((expectedDtype d).size ≤ 8)) ||
             (eqOutF o (.ok ⟨.c, 16⟩) && (expectedDtype d).kind == .c && decide ((expectedDtype d).size ≤ 16))
           else acceptable d o)) = true := by
  decide +kernel

end Unyt.C17Offset
