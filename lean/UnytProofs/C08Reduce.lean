/-
  C08 — reductions with a start value that carries units (`np.add.reduce(a, initial=q)`,
  `np.sum(a, initial=q)`, `a.sum(initial=q)`, `np.subtract.reduce(a, initial=q)`): the reduction form
  of point ± difference, difference + point, difference ± difference and point − point.

  About `UnytModel.TempReduce.tempReduceInitial`, the function the driver executes (`c08.redinit`),
  over the exact table, for every data unit, every start-value unit (any SI prefix of the regenerated
  prefix table), every number of data readings and all readings.

  The code converts the start value with `.to_value(u)` — as a position on the absolute scale — whatever
  its kind.  That is right when the start value and the data are of the same kind
  (`temp_reduce_initial_{add,sub}_partial`) and wrong whenever they are not: the full statement
  `C08_reduce_initial_full` is FALSE of the faithful model (`C08_reduce_initial_counterexample_*`,
  `temp_reduce_initial_point_plus_difference_never_affine`); the harness replays the witnesses on the
  real code (known findings `wrong-value|add.reduce-initial|…`, `wrong-value|subtract.reduce-initial|…`).
-/
import UnytProofs.C08
import UnytProofs.Lemmas.C08Reduce

set_option linter.unusedSectionVars false

namespace Unyt.C08
open Unyt Unyt.Temp Unyt.Temp.Ref

/-- the reduction clause at full strength: whatever a reduction with a start value returns is what
    affine arithmetic gives (`Ref.reduceInitAddSpec` / `Ref.reduceInitSubSpec`; outside the claim:
    point + point, sums of several points, difference − point) -/
def C08_reduce_initial_full : Prop :=
  ∀ (K : Type) [Lean.Grind.Field K] [Lean.Grind.IsCharP K 0] [BEq K] [LawfulBEq K]
    [IsClose K] [LawfulIsClose K],
    ∀ (u ui : TU K), u.WFP → ui.WFP → ∀ (xs : List K) (xi : K) (r : TU K × K),
      (tempReduceInitial .add genSyms genNames exactTab u xs ui xi = .ok r → reduceInitAddSpec u xs ui xi r)
      ∧ (tempReduceInitial .sub genSyms genNames exactTab u xs ui xi = .ok r → reduceInitSubSpec u xs ui xi r)

section general
variable {K : Type} [Lean.Grind.Field K] [Lean.Grind.IsCharP K 0] [BEq K] [LawfulBEq K]
  [IsClose K] [LawfulIsClose K]

/-- the explicit guard of the partial statements: start value and data are of the same kind -/
def sameKind (u ui : TU K) : Bool := kind ui.base == kind u.base

/-- `q + a[0] + a[1] + …` is the affine sum whenever the start value is of the kind of the data
    (any number of readings) -/
theorem temp_reduce_initial_add_partial (u ui : TU K) (hu : u.WFP) (hi : ui.WFP) (xs : List K) (xi : K)
    (r : TU K × K) (hg : sameKind u ui = true)
    (h : tempReduceInitial .add genSyms genNames exactTab u xs ui xi = .ok r) :
    reduceInitAddSpec u xs ui xi r := by
  simp only [sameKind, beq_iff_eq] at hg
  simp only [tempReduceInitial, reduceUnit] at h
  cases h
  have hc := temp_conversions_affine ui u hi hu xi
  cases hk : kind u.base with
  | point =>
    rw [hk] at hg
    unfold reduceInitAddSpec
    simp only [hk, hg]
  | diff =>
    rw [hk] at hg
    unfold reduceInitAddSpec
    simp only [hk, hg, true_and]
    rw [difK_foldAdd, ← absK_eq_difK u hk, hc, absK_eq_difK ui hg]

/-- `q − a[0] − a[1] − …` is the affine difference whenever the start value is of the kind of the data -/
theorem temp_reduce_initial_sub_partial (u ui : TU K) (hu : u.WFP) (hi : ui.WFP) (xs : List K) (xi : K)
    (r : TU K × K) (hg : sameKind u ui = true)
    (h : tempReduceInitial .sub genSyms genNames exactTab u xs ui xi = .ok r) :
    reduceInitSubSpec u xs ui xi r := by
  simp only [sameKind, beq_iff_eq] at hg
  have hc := temp_conversions_affine ui u hi hu xi
  simp only [tempReduceInitial] at h
  split at h
  · rename_i l hl
    cases h
    cases hk : kind u.base with
    | point =>
      rw [hk] at hg
      match xs with
      | [] => simp [reduceInitSubSpec, hk, hg]
      | [x] =>
        have hs := temp_sub_reduce_correct u (tempConv genSyms genNames exactTab ui u xi) x hu.1 l hl
        simp only [subSpec, hk] at hs
        simp only [reduceInitSubSpec, hk, hg, foldSub]
        rw [← hc]
        exact hs
      | _ :: _ :: _ => simp [reduceInitSubSpec, hk, hg]
    | diff =>
      rw [hk] at hg
      have hl' : l = u := by
        simp only [reduceUnit, differenceUnits, hasOffset_exact, hk] at hl
        simpa [Except.map] using hl.symm
      subst hl'
      unfold reduceInitSubSpec
      simp only [hk, hg, true_and]
      rw [difK_foldSub, ← absK_eq_difK l hk, hc, absK_eq_difK ui hg]
  · cases h
  · cases h

/-- one point plus a difference start value is NEVER the affine sum: the code converts the difference
    as a position (`(9 delta_degF).to_value(degC) = −268.15`), so the returned reading is off by the
    zero point of the data's scale — for every offset unit, every difference unit and all readings -/
theorem temp_reduce_initial_point_plus_difference_never_affine (u ui : TU K) (hu : u.WFP) (hi : ui.WFP)
    (x xi : K) (r : TU K × K) (hp : kind u.base = .point) (hd : kind ui.base = .diff)
    (h : tempReduceInitial .add genSyms genNames exactTab u [x] ui xi = .ok r) :
    ¬ reduceInitAddSpec u [x] ui xi r := by
  simp only [tempReduceInitial, reduceUnit] at h
  cases h
  have hc := temp_conversions_affine ui u hi hu xi
  unfold reduceInitAddSpec
  simp only [hp, hd, foldAdd, true_and]
  intro hs
  rw [absK_eq_difK ui hd] at hc
  rw [← hc] at hs
  have hz : (slope u.base * zero u.base : K) ≠ 0 := by
    rcases u with ⟨p, b⟩
    cases b <;> simp [kind] at hp <;> simp only [slope, zero] <;> grind
  simp only [absK_eq] at hs
  grind

/-- differences summed onto a point start value are NEVER labelled as the point they denote: the
    result keeps the data's difference unit -/
theorem temp_reduce_initial_difference_plus_point_never_affine (u ui : TU K) (xs : List K) (xi : K)
    (r : TU K × K) (hd : kind u.base = .diff) (hp : kind ui.base = .point)
    (h : tempReduceInitial .add genSyms genNames exactTab u xs ui xi = .ok r) :
    ¬ reduceInitAddSpec u xs ui xi r := by
  simp only [tempReduceInitial, reduceUnit] at h
  cases h
  unfold reduceInitAddSpec
  simp only [hd, hp]
  intro hs
  exact absurd hs.1 (by decide)

end general

/-- `np.add.reduce([25] degC, initial=9 delta_degF)`: the model (like the library) returns −243.15 degC;
    affine arithmetic gives 30 degC -/
theorem C08_reduce_initial_counterexample_point_difference :
    tempReduceInitial (K := Rat) .add genSyms genNames exactTab ⟨none, .degC⟩ [25] ⟨none, .dF⟩ 9
      = .ok (⟨none, .degC⟩, -24315 / 100)
    ∧ ¬ reduceInitAddSpec (K := Rat) ⟨none, .degC⟩ [25] ⟨none, .dF⟩ 9 (⟨none, .degC⟩, -24315 / 100) := by
  refine ⟨by decide +kernel, fun h => ?_⟩
  obtain ⟨_, h2⟩ := h
  exact absurd h2 (by decide +kernel)

/-- `np.add.reduce([1, 2] delta_degC, initial=5 degC)`: returns 281.15 delta_degC; affine arithmetic
    gives the point 8 degC -/
theorem C08_reduce_initial_counterexample_difference_point :
    tempReduceInitial (K := Rat) .add genSyms genNames exactTab ⟨none, .dC⟩ [1, 2] ⟨none, .degC⟩ 5
      = .ok (⟨none, .dC⟩, 28115 / 100)
    ∧ ¬ reduceInitAddSpec (K := Rat) ⟨none, .dC⟩ [1, 2] ⟨none, .degC⟩ 5 (⟨none, .dC⟩, 28115 / 100) := by
  refine ⟨by decide +kernel, fun h => ?_⟩
  obtain ⟨h1, _⟩ := h
  exact absurd h1 (by decide)

/-- `np.subtract.reduce([1, 2] delta_degC, initial=25 degC)`: returns 295.15 delta_degC; affine
    arithmetic gives the point 22 degC -/
theorem C08_reduce_initial_counterexample_sub :
    tempReduceInitial (K := Rat) .sub genSyms genNames exactTab ⟨none, .dC⟩ [1, 2] ⟨none, .degC⟩ 25
      = .ok (⟨none, .dC⟩, 29515 / 100)
    ∧ ¬ reduceInitSubSpec (K := Rat) ⟨none, .dC⟩ [1, 2] ⟨none, .degC⟩ 25 (⟨none, .dC⟩, 29515 / 100) := by
  refine ⟨by decide +kernel, fun h => ?_⟩
  obtain ⟨h1, _⟩ := h
  exact absurd h1 (by decide)

/-- hence the reduction clause at full strength is false of the model of the current code -/
theorem C08_reduce_initial_full_fails : ¬ C08_reduce_initial_full := by
  intro h
  have h1 := (h Rat ⟨none, .degC⟩ ⟨none, .dF⟩ ⟨trivial, by simp⟩ ⟨trivial, by simp⟩ [25] 9
    (⟨none, .degC⟩, -24315 / 100)).1 C08_reduce_initial_counterexample_point_difference.1
  exact C08_reduce_initial_counterexample_point_difference.2 h1

/-! ### non-vacuity -/

/-- `np.add.reduce([9, 18] delta_degF, initial=5 delta_degC)` is 36 delta_degF -/
example : tempReduceInitial (K := Rat) .add genSyms genNames exactTab ⟨none, .dF⟩ [9, 18] ⟨none, .dC⟩ 5
    = .ok (⟨none, .dF⟩, 36) := by decide +kernel
example : sameKind (K := Rat) ⟨none, .dF⟩ ⟨none, .dC⟩ = true := by decide
/-- `np.subtract.reduce([25] degC, initial=68 degF)` is −5 delta_degC -/
example : tempReduceInitial (K := Rat) .sub genSyms genNames exactTab ⟨none, .degC⟩ [25] ⟨none, .degF⟩ 68
    = .ok (⟨none, .dC⟩, -5) := by decide +kernel
example : (⟨none, .degC⟩ : TU Rat).WFP := ⟨trivial, by simp⟩

end Unyt.C08
