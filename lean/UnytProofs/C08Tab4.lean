/-
  C08 — kernel-decided obligations over the regenerated temperature tables, part 4: conversion
  factors and offsets from the regenerated table against those from the exact table.
-/
import UnytModel.TempCheck

namespace Unyt.C08
open Unyt Unyt.Temp

/-- as `temp_generated_numbers_close`, for the factor and offset of every conversion between two units of the universe -/
theorem temp_generated_conversions_close : numbersCloseConv = true := by decide +kernel

end Unyt.C08
