/-
  C08 — kernel-decided obligations over the regenerated temperature tables (rebuilt whenever
  /repo's tables, prefix table, ufunc registry or guard literals change).  Property statements only.
-/
import UnytModel.TempCheck

namespace Unyt.C08
open Unyt Unyt.Temp

/-! ### the regenerated tables (kernel-decided, rebuilt whenever /repo's tables change) -/

/-- the regenerated rows are `(1, 0)`, `(5/9, 0)`, `(1, −273.15)`, `(5/9, −459.67)`, `(1, 0)`,
    `(5/9, 0)` within 2⁻⁵⁰, with K, degC, delta_degC prefixable -/
theorem temp_rows_exact : rowsExact = true := by decide +kernel

/-- exactly (no tolerance): only degC / degF carry an offset, each delta unit has the size of its
    point unit, K that of delta_degC, R that of delta_degF, no scale is zero -/
theorem temp_rows_structure : rowsStructure = true := by decide +kernel

/-- degC and degF are the only temperature rows with an offset -/
theorem temp_universe_closed : universeClosed = true := by decide +kernel

/-- `unit_prefixes` is the SI prefix table -/
theorem temp_prefixes_exact : prefixesExact = true := by decide +kernel

/-- add / subtract / comparisons / multiply / divide / power / sqrt / … are registered with the
    unit rules the model assumes -/
theorem temp_rules_match : rulesMatch = true := by decide +kernel

/-- the literals of the guards in the current source are the ones the model uses -/
theorem temp_code_constants_match : codeConstantsMatch = true := by decide +kernel

/-- on every ordered pair of units the regenerated tables admit (all 22 prefixes on both sides) the
    additive block takes the same decisions — refusal, label, whether the second operand is
    rescaled — on the table the code holds as on the exact table the theorems are about -/
theorem temp_generated_decisions_add : decisionsMatchRule .preserve = true := by decide +kernel

/-- the same for the refusals of `*`, `/`, squaring, roots and `diff_helper` -/
theorem temp_generated_decisions_other : decisionsMatchOther = true := by decide +kernel

end Unyt.C08
