/-
  C13 — registries are isolated from each other and the default registry is read-only.

  Property statements only (helper lemmas: `UnytProofs/Lemmas/C13.lean`).  The model is
  `UnytModel/RegistryWorld.lean`: a heap of tables / string caches / derived-symbol sets, registry objects
  holding three addresses, and `RegC12.step` (the C12 registry machine) run on a registry's view of the heap.

  What is proved, for every world, every history and every configuration of the C12 machine:
    * `call_is_c12_step`        a call through a registry IS the C12 step on what that registry sees
    * `frame`                   … and changes nothing any registry sharing no container with it sees
    * `independent_route_isolated`, `fresh_registry_isolated`, `lut_argument_isolated`
                                a registry made by a route whose shape shares nothing (resp. by
                                `UnitRegistry()`, resp. from a dict nobody else holds) shares nothing with any
                                registry that existed, and creating it changed nothing they see
    * `noninterference`         along ANY interleaved history that never hands a container of `r` to someone
                                else, `r` ends up seeing exactly what it sees after its own calls alone; and
                                every further call through it answers the same (`isolation_answers`)
    * `default_refuses`         `modify`/`remove` through the non-modifiable registry: TypeError, world unchanged
    * `default_invariant`, `default_answers_like_startup`, `default_table_only_gains_derived_rows`
                                whatever happens elsewhere, as long as nobody `add`s to / `define_unit`s in the
                                default registry, its table is the start-up table plus written-back prefixed rows
                                that resolve as the start-up table resolves them, and every unit construction,
                                `in`, `[]` through it answers like the start-up table
    * `exported_only_by_default_define`  the `unyt` module attributes change only by `define_unit` in the default registry
    * `mixed_uses_left_and_writes_nothing`  `u * v` across registries (explicit-data units are not cached)
  and, over the regenerated route table (kernel-decided): every route the property lists as an independent way
  of making a registry has a shape that shares nothing (`independent_routes_share_nothing`), `__init__` is as
  modelled, explicit-data units are not cached, mixed results carry the left registry, the default registry refuses.
-/
import UnytProofs.Lemmas.C13
import UnytProofs.Lemmas.C12Core
import UnytProofs.Lemmas.C12Setup
import UnytModel.Generated.RegistryRoutes
import UnytModel.Generated.RegistryC12Cfg
import UnytModel.Ref.C13

set_option linter.unusedSectionVars false
set_option linter.unusedVariables false

namespace Unyt.C13
open Unyt RegC12 RegWorld

section general
variable {K : Type} [Mul K] [OfNat K 1] [OfNat K 0] [RPow K]
variable (cfg : Cfg) (wc : WCfg) (pre : Prefixes K) (parse : String → Except Err (PExpr K))

/-! ## one call -/

/-- a call through registry `r` in the world is the C12 machine's step on `r`'s view of the heap: the
    answer is the machine's answer and `r` afterwards sees the machine's next state -/
theorem call_is_c12_step (σ : World K) (r : Nat) (op : Op K) (ro : RegObj K) (hw : WF σ)
    (hro : σ.regs[r]? = some ro) (hf : (ro.frozen && isModifyOrRemove op) = false) :
    viewOf (runOp cfg wc pre parse σ (.reg r op)).1 r = some (step cfg pre parse (view σ ro) op).1 ∧
    (runOp cfg wc pre parse σ (.reg r op)).2 = .out (step cfg pre parse (view σ ro) op).2 := by
  obtain ⟨h1, h2⟩ := regStep_own cfg pre parse σ r op ro hw hro hf
  exact ⟨h1, by simp only [runOp]; rw [h2]⟩

/-- `frame`: a call through `r` changes nothing that a registry sharing no container with `r` sees, and
    does not touch that registry object -/
theorem frame (σ : World K) (r r' : Nat) (op : Op K) (ro ro' : RegObj K) (hro : σ.regs[r]? = some ro)
    (hro' : σ.regs[r']? = some ro') (hne : r' ≠ r) (hs : Sep ro ro') :
    (runOp cfg wc pre parse σ (.reg r op)).1.regs[r']? = some ro' ∧
    view (runOp cfg wc pre parse σ (.reg r op)).1 ro' = view σ ro' := by
  simp only [runOp]
  exact ⟨(regStep_regs_ne cfg pre parse σ r r' op hne).trans hro',
    regStep_view_sep cfg pre parse σ r op ro ro' hro hs⟩

/-- cell-level frame: a call through `r` writes no table other than `r`'s own — in particular not the
    module-level `default_unit_symbol_lut` (cell 0) unless `r` was handed that very dict -/
theorem frame_tables (σ : World K) (r : Nat) (op : Op K) (ro : RegObj K) (hro : σ.regs[r]? = some ro)
    (c : Nat) (hc : c ≠ ro.lut) :
    lutAt (runOp cfg wc pre parse σ (.reg r op)).1 c = lutAt σ c := by
  simp only [runOp]; exact regStep_lutAt_ne cfg pre parse σ r op ro hro c hc

example : (⟨1, 1, 1, none, false, "mks", true⟩ : RegObj Rat).lut ≠ (0 : Nat) := by decide

/-! ## creation -/

/-- every registry of a well-formed world is an observed registry in the sense of `Holds` as soon as no
    other registry shares a container with it -/
theorem holds_of_sep (σ : World K) (r : Nat) (ro : RegObj K) (hw : WF σ) (hro : σ.regs[r]? = some ro)
    (hs : ∀ (r' : Nat) (ro' : RegObj K), r' ≠ r → σ.regs[r']? = some ro' → Sep ro ro') : Holds σ r ro :=
  ⟨hw, ⟨ro, hro, rfl, rfl, rfl, rfl⟩, hs⟩

/-- a registry made from `src` by a route whose shape shares nothing: it shares no container with any
    registry that existed (so `frame` and `noninterference` apply to it from its first moment), and every
    existing registry — the source included — sees what it saw -/
theorem independent_route_isolated (σ : World K) (sh : RouteShape) (src : Nat) (ro : RegObj K) (hw : WF σ)
    (hsrc : σ.regs[src]? = some ro) (hi : sh.independent = true) :
    ∃ new, (runOp cfg wc pre parse σ (.route sh src)).1.regs[σ.regs.length]? = some new ∧
      WF (runOp cfg wc pre parse σ (.route sh src)).1 ∧
      (∀ (r' : Nat) (ro' : RegObj K), σ.regs[r']? = some ro' →
        (runOp cfg wc pre parse σ (.route sh src)).1.regs[r']? = some ro' ∧ Sep new ro' ∧
        view (runOp cfg wc pre parse σ (.route sh src)).1 ro' = view σ ro') := by
  simp only [runOp]
  obtain ⟨lx, cx, dx, new, hl, hc, hd, hr, _, _, al, ac, ad, _⟩ := create_spec σ sh src ro hsrc
  simp only [RouteShape.independent, Bool.and_eq_true, bne_iff_ne, ne_eq] at hi
  obtain ⟨⟨il, ic⟩, id⟩ := hi
  have nl : new.lut = σ.luts.length ∧ lx.length = 1 := by
    rcases al with ⟨e, _⟩ | ⟨_, e⟩
    · exact absurd e il
    · exact e
  have nc : new.cache = σ.caches.length ∧ cx.length = 1 := by
    rcases ac with ⟨e, _⟩ | ⟨_, e⟩
    · exact absurd e ic
    · exact e
  have nd : new.derived = σ.deriveds.length ∧ dx.length = 1 := by
    rcases ad with ⟨e, _⟩ | ⟨_, e⟩
    · exact absurd e id
    · exact e
  refine ⟨new, ?_, ?_, ?_⟩
  · rw [hr]; simp
  · intro r1 ro1 h1
    rw [hr] at h1
    simp only [RegObj.InRange, hl, hc, hd, List.length_append]
    rcases getElem?_append_cases _ _ _ _ h1 with h2 | ⟨_, h2⟩
    · have := hw r1 ro1 h2
      exact ⟨Nat.lt_of_lt_of_le this.1 (Nat.le_add_right _ _), Nat.lt_of_lt_of_le this.2.1 (Nat.le_add_right _ _),
        Nat.lt_of_lt_of_le this.2.2 (Nat.le_add_right _ _)⟩
    · simp only [List.mem_singleton] at h2; subst h2
      rw [nl.1, nl.2, nc.1, nc.2, nd.1, nd.2]
      exact ⟨Nat.lt_succ_self _, Nat.lt_succ_self _, Nat.lt_succ_self _⟩
  · intro r' ro' h'
    have hin := hw r' ro' h'
    have hlt : r' < σ.regs.length := by
      rcases List.getElem?_eq_some_iff.mp h' with ⟨h, _⟩; exact h
    refine ⟨?_, ⟨?_, ?_, ?_⟩, ?_⟩
    · rw [hr, List.getElem?_append_left hlt]; exact h'
    · rw [nl.1]; exact Ne.symm (Nat.ne_of_lt hin.1)
    · rw [nc.1]; exact Ne.symm (Nat.ne_of_lt hin.2.1)
    · rw [nd.1]; exact Ne.symm (Nat.ne_of_lt hin.2.2)
    · exact view_of_cells _ _ ro' (lutAt_append σ lx _ hin.1 _ hl) (cacheAt_append σ cx _ hin.2.1 _ hc)
        (derivedAt_append σ dx _ hin.2.2 _ hd)

/-- `UnitRegistry(add_default_symbols=…, unit_system=…)` without `lut=`: all three containers are new,
    the table holds a COPY of the module-level defaults (or nothing) -/
theorem fresh_registry_isolated (σ : World K) (ad : Bool) (usys : String) (hw : WF σ) :
    ∃ new, (runOp cfg wc pre parse σ (.fresh ad usys)).1.regs[σ.regs.length]? = some new ∧
      view (runOp cfg wc pre parse σ (.fresh ad usys)).1 new = fresh (if ad then globalLut σ else []) ∧
      (∀ (r' : Nat) (ro' : RegObj K), σ.regs[r']? = some ro' →
        (runOp cfg wc pre parse σ (.fresh ad usys)).1.regs[r']? = some ro' ∧ Sep new ro' ∧
        view (runOp cfg wc pre parse σ (.fresh ad usys)).1 ro' = view σ ro') := by
  simp only [runOp, pushReg]
  refine ⟨{ lut := σ.luts.length, cache := σ.caches.length, derived := σ.deriveds.length, usys := usys },
    by simp, ?_, ?_⟩
  · simp [view, lutAt, cacheAt, derivedAt, fresh]
  · intro r' ro' h'
    have hin := hw r' ro' h'
    have hlt : r' < σ.regs.length := by
      rcases List.getElem?_eq_some_iff.mp h' with ⟨h, _⟩; exact h
    refine ⟨?_, ⟨?_, ?_, ?_⟩, ?_⟩
    · rw [List.getElem?_append_left hlt]; exact h'
    · exact Ne.symm (Nat.ne_of_lt hin.1)
    · exact Ne.symm (Nat.ne_of_lt hin.2.1)
    · exact Ne.symm (Nat.ne_of_lt hin.2.2)
    · exact view_of_cells _ _ ro' (lutAt_append σ _ _ hin.1 _ rfl) (cacheAt_append σ _ _ hin.2.1 _ rfl)
        (derivedAt_append σ _ _ hin.2.2 _ rfl)

/-- `UnitRegistry(lut=d, add_default_symbols=…)` with a dict `d` that no registry holds: the new registry
    keeps `d` (by reference — or a new dict if `d` is empty), gets its own cache and derived set, shares
    nothing with any registry that existed, and nothing they see changed (the defaults are written into `d`,
    which only the new registry holds) -/
theorem lut_argument_isolated (σ : World K) (c : Nat) (ad : Bool) (t : Lut K) (hw : WF σ)
    (hc : σ.luts[c]? = some t)
    (hfree : ∀ (r' : Nat) (ro' : RegObj K), σ.regs[r']? = some ro' → ro'.lut ≠ c) :
    ∃ new, (runOp cfg wc pre parse σ (.fromDict c ad)).1.regs[σ.regs.length]? = some new ∧
      (∀ (r' : Nat) (ro' : RegObj K), σ.regs[r']? = some ro' →
        (runOp cfg wc pre parse σ (.fromDict c ad)).1.regs[r']? = some ro' ∧ Sep new ro' ∧
        view (runOp cfg wc pre parse σ (.fromDict c ad)).1 ro' = view σ ro') := by
  have hclt : c < σ.luts.length := by
    rcases List.getElem?_eq_some_iff.mp hc with ⟨h, _⟩; exact h
  simp only [runOp, hc, pushReg]
  by_cases he : t.isEmpty = true
  · simp only [he, if_true]
    refine ⟨{ lut := σ.luts.length, cache := σ.caches.length, derived := σ.deriveds.length }, by simp, ?_⟩
    intro r' ro' h'
    have hin := hw r' ro' h'
    have hlt : r' < σ.regs.length := by
      rcases List.getElem?_eq_some_iff.mp h' with ⟨h, _⟩; exact h
    refine ⟨by rw [List.getElem?_append_left hlt]; exact h',
      ⟨Ne.symm (Nat.ne_of_lt hin.1), Ne.symm (Nat.ne_of_lt hin.2.1), Ne.symm (Nat.ne_of_lt hin.2.2)⟩, ?_⟩
    apply view_of_cells
    · by_cases hd : ad = true
      · simp only [hd, if_true, lutAt]
        rw [List.getElem?_set_ne (Nat.ne_of_gt hin.1), List.getElem?_append_left hin.1]
      · simp only [hd, lutAt]
        exact congrArg (fun x => Option.getD x []) (List.getElem?_append_left hin.1)
    · exact cacheAt_append σ _ _ hin.2.1 _ rfl
    · exact derivedAt_append σ _ _ hin.2.2 _ rfl
  · simp only [he, if_false, Bool.false_eq_true]
    refine ⟨{ lut := c, cache := σ.caches.length, derived := σ.deriveds.length }, by simp, ?_⟩
    intro r' ro' h'
    have hin := hw r' ro' h'
    have hlt : r' < σ.regs.length := by
      rcases List.getElem?_eq_some_iff.mp h' with ⟨h, _⟩; exact h
    have hne := hfree r' ro' h'
    refine ⟨by rw [List.getElem?_append_left hlt]; exact h',
      ⟨Ne.symm hne, Ne.symm (Nat.ne_of_lt hin.2.1), Ne.symm (Nat.ne_of_lt hin.2.2)⟩, ?_⟩
    apply view_of_cells
    · by_cases hd : ad = true
      · simp only [hd, if_true, lutAt]
        rw [List.getElem?_set_ne (Ne.symm hne)]
      · simp only [hd, lutAt]; rfl
    · exact cacheAt_append σ _ _ hin.2.1 _ rfl
    · exact derivedAt_append σ _ _ hin.2.2 _ rfl

/-- a route that copies the table and the derived set (a deep copy) hands back a registry that, at the
    moment of copying, holds the same rows and the same written-back keys as its source: with an empty cache
    it resolves every string as a source with an empty cache would -/
theorem copy_route_sees_source_table (σ : World K) (sh : RouteShape) (src : Nat) (ro : RegObj K)
    (hsrc : σ.regs[src]? = some ro) (hl : sh.lut = .copy) (ha : sh.addMissingDefaults = false)
    (hd : sh.derived = .copy) (hc : sh.cache = .empty) :
    ∃ new, (create σ sh src).1.regs[σ.regs.length]? = some new ∧
      (view (create σ sh src).1 new).lut = (view σ ro).lut ∧
      (view (create σ sh src).1 new).derived = (view σ ro).derived ∧
      (view (create σ sh src).1 new).cache = [] := by
  unfold create
  rw [hsrc]
  simp only [pushReg, hl, hd, hc, allocLut, allocCache, allocDerived, routeRows, ha]
  refine ⟨{ lut := σ.luts.length, cache := σ.caches.length, derived := σ.deriveds.length,
            idMemo := if sh.keepsMemo = true then ro.idMemo else none,
            memoStale := if sh.keepsMemo = true then ro.memoStale else false,
            usys := if sh.keepsUsys = true then ro.usys else "mks", frozen := sh.keepsClass && ro.frozen },
    by simp, ?_, ?_, ?_⟩ <;> simp [view, lutAt, cacheAt, derivedAt]

/-! ## histories -/

theorem rel_refl (σ : World K) (r : Nat) (a : RegObj K) (h : Holds σ r a) : Rel σ σ r a := by
  obtain ⟨ro, hro, _⟩ := h.here
  exact ⟨h, h, ⟨ro, ro, hro, hro, rfl⟩, fun _ => rfl⟩

/-- operations that are not calls through the default registry leave the module attributes alone -/
theorem exported_only_by_default_define (σ : World K) (op : WOp K)
    (h : ∀ sym e, op ≠ .defineUnit 0 sym e) :
    (runOp cfg wc pre parse σ op).1.exported = σ.exported := by
  cases op with
  | dict t => rfl
  | fresh ad usys => rfl
  | fromDict c ad =>
    simp only [runOp]
    cases σ.luts[c]? with
    | none => rfl
    | some t => rfl
  | route sh src =>
    simp only [runOp]
    cases hs : σ.regs[src]? with
    | none => unfold create; rw [hs]
    | some ro =>
      obtain ⟨_, _, _, _, _, _, _, _, hx, _⟩ := create_spec σ sh src ro hs
      exact hx
  | reg r op => simp only [runOp]; exact (regStep_exported cfg pre parse σ r op).1
  | defineUnit r sym e =>
    have hr : r ≠ 0 := fun h0 => h sym e (by rw [h0])
    simp only [runOp]
    have e1 := (regStep_exported cfg pre parse σ r (.contains sym)).1
    split
    · rename_i σ1 heq
      have q1 := congrArg Prod.fst heq; dsimp only at q1; subst q1
      have e2 := (regStep_exported cfg pre parse (regStep cfg pre parse σ r (.contains sym)).1 r (.add sym e)).1
      split
      · rename_i σ2 heq2
        have q2 := congrArg Prod.fst heq2; dsimp only at q2; subst q2
        simp only [hr, if_false]; exact e2.trans e1
      · rename_i σ2 o _ heq2
        have q2 := congrArg Prod.fst heq2; dsimp only at q2; subst q2
        exact e2.trans e1
    · rename_i σ1 heq
      have q1 := congrArg Prod.fst heq; dsimp only at q1; subst q1; exact e1
    · rename_i σ1 o _ _ heq
      have q1 := congrArg Prod.fst heq; dsimp only at q1; subst q1; exact e1
  | newSystem r name bus =>
    simp only [runOp]
    have key : ∀ (ops : List (Op K)) (σ : World K), (regSteps cfg pre parse σ r ops).1.exported = σ.exported := by
      intro ops
      induction ops with
      | nil => intro σ; rfl
      | cons op rest ih =>
        intro σ
        unfold regSteps
        have e1 := (regStep_exported cfg pre parse σ r op).1
        split
        · rename_i σ' e heq
          have q := congrArg Prod.fst heq; dsimp only at q; subst q; exact e1
        · rename_i σ' o _ heq
          have q := congrArg Prod.fst heq; dsimp only at q; subst q
          exact (ih _).trans e1
    have k := key (bus.map .getitem) σ
    split
    · rename_i σ1 heq
      have q := congrArg Prod.fst heq; dsimp only at q; subst q; exact k
    · rename_i σ1 e _ heq
      have q := congrArg Prod.fst heq; dsimp only at q; subst q; exact k
    · rename_i σ1 heq
      have q := congrArg Prod.fst heq; dsimp only at q; subst q; exact k
  | mixed a b key d =>
    simp only [runOp]
    cases σ.regs[a]? with
    | none => rfl
    | some ro => by_cases hc : wc.cachesExplicit = true <;> simp [hc]

/-- **non-interference.**  `r` is a registry no other registry shares a container with (`Holds`); `H` is
    any interleaved history of operations on the world — creations by any route, calls through any registry,
    `define_unit`, unit systems, mixed-registry arithmetic — in which nobody is handed one of `r`'s
    containers (`aliases`: `UnitRegistry(lut=r.lut)`, a shallow copy of `r`).  Then after `H` the registry
    `r` sees exactly what it sees after the sub-history of its own calls (`H.filter (through r)`). -/
theorem noninterference (σ τ : World K) (r : Nat) (a : RegObj K) (h : Rel σ τ r a) (H : List (WOp K))
    (hal : ∀ op ∈ H, op.aliases r a.lut = false) :
    Rel (runW cfg wc pre parse σ H) (runW cfg wc pre parse τ (H.filter (·.through r))) r a := by
  induction H generalizing σ τ with
  | nil => exact h
  | cons op rest ih =>
    have hal' : ∀ op ∈ rest, op.aliases r a.lut = false := fun o ho => hal o (List.mem_cons_of_mem _ ho)
    by_cases ht : op.through r = true
    · simp only [List.filter_cons, ht, if_true, runW, List.foldl_cons]
      exact ih _ _ (runOp_through cfg wc pre parse σ τ r a op h ht) hal'
    · have ht' : op.through r = false := by
        cases hb : op.through r with
        | true => exact absurd hb ht
        | false => rfl
      simp only [List.filter_cons, ht', Bool.false_eq_true, if_false, runW, List.foldl_cons]
      obtain ⟨hh, hu⟩ := runOp_other cfg wc pre parse σ r a op h.left ht' (hal op (List.mem_cons_self ..))
      refine ih _ _ ⟨hh, h.right, ?_, ?_⟩ hal'
      · obtain ⟨ro₁, ro₂, h1, h2, hv⟩ := h.same
        exact ⟨ro₁, ro₂, hu.1.trans h1, h2, (hu.2 ro₁ h1).trans hv⟩
      · intro h0
        have : (runOp cfg wc pre parse σ op).1.exported = σ.exported := by
          apply exported_only_by_default_define
          intro sym e he
          subst he; subst h0
          simp [WOp.through] at ht'
        rw [this]; exact h.exported h0

/-- what `r` sees after the interleaved history is what it sees after its own calls alone -/
theorem isolation_view (σ0 : World K) (r : Nat) (a : RegObj K) (h : Holds σ0 r a) (H : List (WOp K))
    (hal : ∀ op ∈ H, op.aliases r a.lut = false) :
    viewOf (runW cfg wc pre parse σ0 H) r = viewOf (runW cfg wc pre parse σ0 (H.filter (·.through r))) r := by
  obtain ⟨ro₁, ro₂, h1, h2, hv⟩ := (noninterference cfg wc pre parse σ0 σ0 r a (rel_refl σ0 r a h) H hal).same
  simp only [viewOf, h1, h2, Option.map_some, hv]

/-- … and every further call through `r` answers the same: nothing done through the other registries
    changes what `r` resolves -/
theorem isolation_answers (σ0 : World K) (r : Nat) (a : RegObj K) (h : Holds σ0 r a) (H : List (WOp K))
    (hal : ∀ op ∈ H, op.aliases r a.lut = false) (op : Op K) :
    (runOp cfg wc pre parse (runW cfg wc pre parse σ0 H) (.reg r op)).2 =
    (runOp cfg wc pre parse (runW cfg wc pre parse σ0 (H.filter (·.through r))) (.reg r op)).2 := by
  have := noninterference cfg wc pre parse σ0 σ0 r a (rel_refl σ0 r a h) H hal
  simp only [runOp]
  rw [(regStep_rel cfg pre parse _ _ r a op this).1]

/-- the routes whose shape shares nothing never count as aliasing, whoever the source is -/
theorem independent_route_never_aliases (sh : RouteShape) (hi : sh.independent = true) (r lc src : Nat) :
    (WOp.route sh src : WOp K).aliases r lc = false := by
  simp [WOp.aliases, hi]

/-! ## the default registry -/

/-- `modify` and `remove` through the non-modifiable registry always refuse, and refuse before doing
    anything: the world is unchanged -/
theorem default_refuses (σ : World K) (r : Nat) (ro : RegObj K) (op : Op K) (hro : σ.regs[r]? = some ro)
    (hf : ro.frozen = true) (hop : isModifyOrRemove op = true) :
    runOp cfg wc pre parse σ (.reg r op) = (σ, .out (.err .TypeError)) := by
  simp only [runOp]
  rw [regStep_frozen cfg pre parse σ r op ro hro hf hop]

example : isModifyOrRemove (.modifyF "m" (2 : Rat)) = true ∧ isModifyOrRemove (.remove "m" : Op Rat) = true ∧
    isModifyOrRemove (.modifyQ "m" (2 : Rat) Dim.one true) = true := ⟨rfl, rfl, rfl⟩

/-- operations that may change what the default registry *contains*: `add` through it, `define_unit`
    in it (`modify`/`remove` are refused; everything else through it is a look-up) -/
def WOp.editsDefault : WOp K → Bool
  | .reg 0 (.add ..) => true
  | .defineUnit 0 _ _ => true
  | _ => false

/-- the default registry (registry 0) is coherent with the start-up table `G`: its table is `G` plus
    written-back prefixed rows that resolve as `G` resolves them, every cached unit is what `G` denotes -/
def DefaultOK (G : Lut K) (σ : World K) : Prop :=
  ∃ ro, σ.regs[0]? = some ro ∧ Coherent pre parse G (strip (view σ ro))

theorem nonEdit_safe (s : RegState K) (G : Lut K) (op : Op K)
    (h : ∀ sym e, op ≠ .add sym e) (hm : isModifyOrRemove op = false) :
    opSafeCore cfg parse s op = true ∧ specStep G op = G := by
  cases op <;> first
    | exact ⟨rfl, rfl⟩
    | (exfalso; exact h _ _ rfl)
    | simp [isModifyOrRemove] at hm

theorem regStep_default_ok (G : Lut K) (σ : World K) (a : RegObj K) (hH : Holds σ 0 a) (hfz : a.frozen = true)
    (hok : DefaultOK pre parse G σ) (op : Op K) (hne : ∀ sym e, op ≠ .add sym e) :
    DefaultOK pre parse G (regStep cfg pre parse σ 0 op).1 := by
  obtain ⟨ro, hro, hc⟩ := hok
  obtain ⟨x, hx, _, _, _, fz⟩ := hH.here
  rw [hro] at hx
  have : ro = x := Option.some.inj hx
  subst this
  by_cases hm : isModifyOrRemove op = true
  · rw [regStep_frozen cfg pre parse σ 0 op ro hro (fz.trans hfz) hm]
    exact ⟨ro, hro, hc⟩
  · have hm' : isModifyOrRemove op = false := by
      cases hb : isModifyOrRemove op with
      | true => exact absurd hb hm
      | false => rfl
    have hf : (ro.frozen && isModifyOrRemove op) = false := by rw [hm']; simp
    obtain ⟨o1, _⟩ := regStep_own cfg pre parse σ 0 op ro hH.wf hro hf
    obtain ⟨n, hn, _⟩ := regStep_regs_self cfg pre parse σ 0 op ro hro
    simp only [viewOf, hn, Option.map_some] at o1
    have hv : view (regStep cfg pre parse σ 0 op).1 n = (step cfg pre parse (view σ ro) op).1 :=
      Option.some.inj o1
    obtain ⟨hs, hsp⟩ := nonEdit_safe cfg parse (view σ ro) G op hne hm'
    have := step_coherent_core cfg pre parse G (view σ ro) hc op hs
    rw [hsp] at this
    exact ⟨n, hn, by rw [hv]; exact this⟩

theorem regSteps_default_ok (G : Lut K) (a : RegObj K) (hfz : a.frozen = true) (ops : List (Op K))
    (hne : ∀ op ∈ ops, ∀ sym e, op ≠ .add sym e) (σ : World K) (hH : Holds σ 0 a)
    (hok : DefaultOK pre parse G σ) :
    DefaultOK pre parse G (regSteps cfg pre parse σ 0 ops).1 := by
  induction ops generalizing σ with
  | nil => exact hok
  | cons op rest ih =>
    have h1 := regStep_default_ok cfg pre parse G σ a hH hfz hok op (hne op (List.mem_cons_self ..))
    have hH1 := regStep_self_holds cfg pre parse σ 0 a op hH
    unfold regSteps
    split
    · rename_i σ' e heq
      have q := congrArg Prod.fst heq; dsimp only at q; subst q; exact h1
    · rename_i σ' o _ heq
      have q := congrArg Prod.fst heq; dsimp only at q; subst q
      exact ih (fun o ho => hne o (List.mem_cons_of_mem _ ho)) _ hH1 h1

/-- **the default registry's contents are invariant.**  One step of ANY operation on the world — through
    any registry, any creation route, unit systems, mixed arithmetic — other than `add`/`define_unit`
    in the default registry itself and other than handing the default registry's dict to somebody
    (`UnitRegistry(lut=default_unit_registry.lut)`, a shallow copy of it), keeps the default registry
    coherent with the start-up table.  (Explicit-data units must not be cached: `wc.cachesExplicit = false`,
    an obligation over the regenerated configuration below.) -/
theorem default_invariant (G : Lut K) (σ : World K) (a : RegObj K) (hH : Holds σ 0 a) (hfz : a.frozen = true)
    (hwc : wc.cachesExplicit = false) (hok : DefaultOK pre parse G σ) (op : WOp K)
    (hed : WOp.editsDefault op = false) (hal : op.aliases 0 a.lut = false) :
    Holds (runOp cfg wc pre parse σ op).1 0 a ∧ DefaultOK pre parse G (runOp cfg wc pre parse σ op).1 := by
  by_cases ht : op.through 0 = true
  · have hH' := (runOp_through cfg wc pre parse σ σ 0 a op (rel_refl σ 0 a hH) ht).left
    refine ⟨hH', ?_⟩
    cases op with
    | dict t => simp [WOp.through] at ht
    | fresh ad usys => simp [WOp.through] at ht
    | fromDict c ad => simp [WOp.through] at ht
    | route sh src => simp [WOp.through] at ht
    | reg r op =>
      have e : r = 0 := by simpa [WOp.through] using ht
      subst e
      simp only [runOp]
      apply regStep_default_ok cfg pre parse G σ a hH hfz hok op
      intro sym e he; subst he; simp [WOp.editsDefault] at hed
    | defineUnit r sym e =>
      have e' : r = 0 := by simpa [WOp.through] using ht
      subst e'; simp [WOp.editsDefault] at hed
    | newSystem r name bus =>
      have e' : r = 0 := by simpa [WOp.through] using ht
      subst e'
      have k := regSteps_default_ok cfg pre parse G a hfz (bus.map .getitem)
        (by intro o ho sym e he; subst he; simp at ho) σ hH hok
      simp only [runOp]
      split
      · rename_i σ1 heq
        have q := congrArg Prod.fst heq; dsimp only at q; subst q; exact k
      · rename_i σ1 e _ heq
        have q := congrArg Prod.fst heq; dsimp only at q; subst q; exact k
      · rename_i σ1 heq
        have q := congrArg Prod.fst heq; dsimp only at q; subst q
        obtain ⟨ro, hro, hc⟩ := k
        exact ⟨ro, hro, hc⟩
    | mixed a' b key d =>
      simp only [runOp]
      cases σ.regs[a']? with
      | none => exact hok
      | some ro => simp only [hwc, Bool.false_eq_true, if_false]; exact hok
  · have ht' : op.through 0 = false := by
      cases hb : op.through 0 with
      | true => exact absurd hb ht
      | false => rfl
    obtain ⟨hh, hu⟩ := runOp_other cfg wc pre parse σ 0 a op hH ht' hal
    obtain ⟨ro, hro, hc⟩ := hok
    exact ⟨hh, ro, hu.1.trans hro, by rw [hu.2 ro hro]; exact hc⟩

/-- … hence along every history without such an operation -/
theorem default_invariant_run (G : Lut K) (a : RegObj K) (hfz : a.frozen = true)
    (hwc : wc.cachesExplicit = false) (H : List (WOp K))
    (hed : ∀ op ∈ H, WOp.editsDefault op = false) (hal : ∀ op ∈ H, op.aliases 0 a.lut = false)
    (σ : World K) (hH : Holds σ 0 a) (hok : DefaultOK pre parse G σ) :
    Holds (runW cfg wc pre parse σ H) 0 a ∧ DefaultOK pre parse G (runW cfg wc pre parse σ H) := by
  induction H generalizing σ with
  | nil => exact ⟨hH, hok⟩
  | cons op rest ih =>
    obtain ⟨h1, h2⟩ := default_invariant cfg wc pre parse G σ a hH hfz hwc hok op
      (hed op (List.mem_cons_self ..)) (hal op (List.mem_cons_self ..))
    simp only [runW, List.foldl_cons]
    exact ih (fun o ho => hed o (List.mem_cons_of_mem _ ho)) (fun o ho => hal o (List.mem_cons_of_mem _ ho)) _ h1 h2

/-- under the invariant every unit construction, `in` and `[]` through the default registry answers like
    a registry holding exactly the start-up table -/
theorem default_answers_like_startup (G : Lut K) (σ : World K) (a : RegObj K) (hH : Holds σ 0 a)
    (hok : DefaultOK pre parse G σ) (op : Op K) (hl : Op.isLookup op = true) :
    Out.Sim (regStep cfg pre parse σ 0 op).2 (step cfg pre parse (fresh G) op).2 := by
  obtain ⟨ro, hro, hc⟩ := hok
  have hm : isModifyOrRemove op = false := by cases op <;> first | rfl | simp [Op.isLookup] at hl
  have hf : (ro.frozen && isModifyOrRemove op) = false := by rw [hm]; simp
  obtain ⟨_, o2⟩ := regStep_own cfg pre parse σ 0 op ro hH.wf hro hf
  rw [o2]
  apply step_sim_core cfg pre parse G (view σ ro) hc op
  · cases op <;> first | rfl | simp [Op.isLookup] at hl
  · cases op <;> first | rfl | simp [Op.isLookup] at hl

/-- … and its table is the start-up table plus written-back prefixed rows: a key that was not written
    back holds the start-up row (or is absent as at start-up); a written-back key was absent at start-up
    and holds the row the start-up table resolves it to -/
theorem default_table_only_gains_derived_rows (G : Lut K) (σ : World K) (hok : DefaultOK pre parse G σ) :
    ∃ ro, σ.regs[0]? = some ro ∧
      (∀ k, k ∉ derivedAt σ ro.derived → Lut.find? (lutAt σ ro.lut) k = G.find? k) ∧
      (∀ k, k ∈ derivedAt σ ro.derived → G.find? k = none ∧
        ∃ d, Lut.find? (lutAt σ ro.lut) k = some d ∧ resolve pre G k = some d) := by
  obtain ⟨ro, hro, hc⟩ := hok
  refine ⟨ro, hro, ?_, ?_⟩
  · intro k hk; exact hc.lut.plain k hk
  · intro k hk
    obtain ⟨h1, d, h2, _, h3⟩ := hc.lut.der k hk
    exact ⟨h1, d, h2, h3⟩

/-! ## mixing two registries -/

/-- `u * v` with `u` from registry `a` and `v` from registry `b`: the result belongs to `a`, and — explicit-data
    units not being cached — nothing at all is written -/
theorem mixed_uses_left_and_writes_nothing (σ : World K) (a b : Nat) (key : String) (d : UnitD K)
    (ro : RegObj K) (hro : σ.regs[a]? = some ro) (hwc : wc.cachesExplicit = false) :
    runOp cfg wc pre parse σ (.mixed a b key d) = (σ, .unitIn a) := by
  simp only [runOp, hro, hwc, Bool.false_eq_true, if_false]

/-- whatever the configuration, a mixed operation never writes anything the right operand's registry sees
    (unless the two registries share their string cache) -/
theorem mixed_never_writes_right (σ : World K) (a b : Nat) (key : String) (d : UnitD K) (ra rb : RegObj K)
    (ha : σ.regs[a]? = some ra) (hb : σ.regs[b]? = some rb) (hne : ra.cache ≠ rb.cache) :
    view (runOp cfg wc pre parse σ (.mixed a b key d)).1 rb = view σ rb := by
  simp only [runOp, ha]
  by_cases hc : wc.cachesExplicit = true
  · simp only [hc, if_true]
    apply view_of_cells
    · rfl
    · simp only [cacheAt]; rw [List.getElem?_set_ne hne]
    · rfl
  · simp only [hc, Bool.false_eq_true, if_false]

end general

/-! ## the regenerated configuration (kernel-decided obligations over `Generated/RegistryRoutes.lean`) -/

/-- every route the property lists as an independent way of making a registry was measured, and its
    shape shares none of the three containers with the source (nor, for the sibling rows, with the
    registry restored next to it) -/
theorem independent_routes_share_nothing :
    Ref.C13.independentRoutes.all (fun n =>
      match Generated.registryRoutes.lookup n with
      | some sh => sh.independent
      | none => false) = true := by decide

/-- the shallow copies share all three containers (what the model of `copy.copy` assumes) and no probe raised -/
theorem shallow_routes_share_everything :
    Ref.C13.sharingByDesign.all (fun n =>
      match Generated.registryRoutes.lookup n with
      | some sh => sh.lut == .same && sh.cache == .same && sh.derived == .same
      | none => false) = true ∧ Generated.registryRouteErrors = [] := by decide

/-- `UnitRegistry.__init__` is as `runOp` models it: `lut=` is kept by reference, an empty dict is
    replaced, the defaults are written into the caller's dict, and a registry made without `lut=` shares
    no table, cache or derived set with the module, the default registry or another fresh registry -/
theorem init_is_as_modelled : Generated.initShape = ⟨true, true, true, false, false⟩ := by decide

/-- units built with explicit data are not put into a string cache; a mixed-registry result carries the
    left operand's registry and no table row is written; cached units of a copied cache point at the new
    registry and copied tables carry the rows over; the default registry refuses `modify`/`remove`;
    `define_unit` in a custom registry leaves the `unyt` namespace and the default table alone; arithmetic inside
    one of two registries with identical contents never returns units of the other (the rule caches are keyed
    by the operands' registries — repaired by `fix:` ea1f881) -/
theorem world_cfg_obligations :
    Generated.worldCfg.cachesExplicit = false ∧ Generated.mixedUsesLeft = true ∧
    Generated.mixedWritesTable = false ∧ Generated.routeUnitsRebound = true ∧
    Generated.routeRowsCarried = true ∧ Generated.defaultRefuses = true ∧
    Generated.defineUnitLeaks = false ∧ Generated.ruleCacheLeaks = false := by decide

/-- `noninterference` at the live configuration: every route of the list is alias-free whoever the source is -/
theorem live_routes_never_alias {K : Type} [Mul K] [OfNat K 1] [OfNat K 0] [RPow K] (n : String) (sh : RouteShape)
    (hn : n ∈ Ref.C13.independentRoutes) (hs : Generated.registryRoutes.lookup n = some sh)
    (r lc src : Nat) : (WOp.route sh src : WOp K).aliases r lc = false := by
  have h := independent_routes_share_nothing
  rw [List.all_eq_true] at h
  have := h n hn
  rw [hs] at this
  exact independent_route_never_aliases sh this r lc src

/-! ## non-vacuity: a concrete world meeting the hypotheses -/

namespace Witness

/-- integer powers only (what the witness uses) -/
@[instance_reducible] def ratPow : RPow Rat := ⟨fun x q => if q.den = 1 then zpowK x q.num else x⟩
attribute [local instance] ratPow

def G : Lut Rat := [("m", ⟨1, Dim.dLength, 0, true⟩), ("s", ⟨1, Dim.dTime, 0, true⟩)]
def pre : Prefixes Rat := [("k", 1000)]
def parse (q : String) : Except Err (PExpr Rat) := .ok (.atom q)

/-- start-up: cell 0 = the module table, registry 0 = the default registry (its own copy, frozen) -/
def σ0 : World Rat :=
  { luts := [G, G], caches := [{}], deriveds := [[]],
    regs := [{ lut := 1, cache := 0, derived := 0, frozen := true }] }

def deep : RouteShape := ⟨.copy, false, .empty, .copy, false, true, true⟩
def shallow : RouteShape := ⟨.same, false, .same, .same, true, true, true⟩

/-- a user registry, a deep copy of it, edits through the copy, look-ups through the default registry -/
def H : List (WOp Rat) :=
  [.fresh true "mks", .reg 1 (.add "code_length" ⟨3, Dim.dLength, 0, true⟩), .route deep 1,
   .reg 2 (.modifyF "code_length" 10), .reg 2 (.unit "kcode_length"), .reg 0 (.unit "km"),
   .reg 0 (.modifyF "m" 2), .reg 1 (.unit "code_length")]

def run (h : List (WOp Rat)) : World Rat := runW Cfg.repaired ⟨false⟩ pre parse σ0 h

def answer (σ : World Rat) (r : Nat) (q : String) : Option Rat :=
  match (regStep Cfg.repaired pre parse σ r (.unit q)).2 with
  | .unit _ d => some d.scale
  | _ => none

/-- the edit through the deep copy (registry 2) is not seen by its source (registry 1) nor by the default
    registry, whose `modify` was refused; the shallow copy (registry 3) does see edits through its source -/
theorem isolation_witness :
    answer (run H) 1 "code_length" = some 3 ∧ answer (run H) 2 "code_length" = some 10 ∧
    answer (run H) 2 "kcode_length" = some 10000 ∧ answer (run H) 0 "m" = some 1 ∧
    answer (run H) 0 "km" = some 1000 ∧ answer (run H) 0 "code_length" = none ∧
    answer (run (H ++ [.route shallow 1, .reg 1 (.modifyF "code_length" 4)])) 3 "code_length" = some 4 := by
  decide +kernel

end Witness

example : Holds Witness.σ0 0 ⟨1, 0, 0, none, false, "mks", true⟩ := by
  refine ⟨?_, ⟨_, rfl, rfl, rfl, rfl, rfl⟩, ?_⟩
  · intro r ro h
    match r, h with
    | 0, h => cases h; exact ⟨by decide, by decide, by decide⟩
  · intro r' ro' hne h
    match r', h with
    | 0, _ => exact absurd rfl hne

end Unyt.C13
