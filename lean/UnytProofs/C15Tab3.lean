/-
  C15 — kernel-decided obligations over the regenerated table of materialised constants, part 3:
  constants built for another registry / unit system equal the default ones.
-/
import UnytModel.PhysicalConstantsCheck

namespace Unyt.C15
open Unyt PCheck Generated

/-- the constants `add_constants` builds for a fresh registry, for a registry of every built-in
    unit system (cgs, mks, imperial, galactic, solar, geometrized, planck) and of a custom unit
    system equal those of `unyt.physical_constants`, entry by entry -/
theorem registries_equal : allSpaces (registryEqual pcRows) = true := by decide +kernel

/-- the quantities of the top-level `unyt` namespace are those of `unyt.physical_constants`,
    bit for bit, under the same names (`import_units`: constants are imported first and win) -/
theorem top_level_is_physical_constants : bitwiseEqual pcRows topRows = true := by decide +kernel

end Unyt.C15
