/-
  C15 — kernel-decided obligations over the regenerated table of materialised constants, part 3:
  constants built for another registry / unit system equal the default ones; the values
  against the published ones; the stored doubles against the symbolic definitions.
-/
import UnytModel.PhysicalConstantsCheck
import UnytProofs.Lemmas.C15List

namespace Unyt.C15
open Unyt PCheck Generated Ref.C15

/-- the constants `add_constants` builds for a fresh registry, for a registry of every built-in
    unit system (cgs, mks, imperial, galactic, solar, geometrized, planck) and of a custom unit
    system equal those of `unyt.physical_constants`, entry by entry -/
theorem registries_equal : allSpaces (registryEqual pcRows) = true := by decide +kernel

/-- the quantities of the top-level `unyt` namespace are those of `unyt.physical_constants`,
    bit for bit, under the same names (`import_units`: constants are imported first and win) -/
theorem top_level_is_physical_constants : bitwiseEqual pcRows topRows = true := by decide +kernel

/-- the SI scale and dimension recorded for the unit string of every row of `physical_constants`
    are those the regenerated unit table gives for its factors (`kg` = k·g, `mol**-1`, `N/A**2` …) -/
theorem const_units_resolve : constUnitsOk = true := by decide +kernel

/-! ### values against the published ones; doubles against the symbolic definitions -/

def C15_values_full : Prop := valuesInClass [] = true

/-- every row of `physical_constants` (outside the exclusion list) has a reference value, the
    reference dimension, and lies within the tolerance stated for that row
    (`Ref.C15.rows`: 2⁻⁴⁵ for c and gₙ, 2·10⁻⁹ μ₀ ε₀, 2.5·10⁻⁸ e, 10⁻⁷ N_A σ_T, 2.5·10⁻⁷ mₑ h ħ,
    5·10⁻⁷ R_∞, 10⁻⁶ m_p k_B σ a q_pl, 5·10⁻⁵ Planck units, 7·10⁻⁵ m_H, 10⁻⁴ G M_sun, 5·10⁻⁴ planets T_cmb) -/
theorem values_in_class_partial : valuesInClass exclValue = true := by decide +kernel

/-- the constants fixed exactly by the 2019 SI (`h`, `qp`, `kb`) carry, digit for digit (2⁻⁴⁵), the
    recommended value of CODATA 2010, CODATA 2014 or the exact SI value -/
theorem si2019_constants_follow_an_edition : editionsOk = true := by decide +kernel

theorem value_exclusions_fail : exclValue.all (fun k => !valueOkByName k) = true := by decide +kernel

theorem C15_values_counterexample : ¬ C15_values_full := by
  intro h
  have hrow := values_row h "Mearth"
  have hfail : valueOkByName "Mearth" = false := by decide +kernel
  have hfound : (constTable.find? (fun c => c.spec.name == "Mearth")).isSome = true := by decide +kernel
  rcases hrow with h1 | h1
  · rw [hfail] at h1; cases h1
  · rw [h1] at hfound; cases hfound

/-- every value cell of `physical_constants`: the double the table holds has the sign of, and
    its square is within 2·2⁻⁴⁵ of the square of, the exact value of the cell's source-level
    definition (at both ends of the enclosure of π) -/
theorem const_cells_match_doubles : constCellsMatchDoubles = true := by decide +kernel

/-- the same for every scale cell of the unit table (except `B` = ln(10)/2, not a monomial) -/
theorem unit_cells_match_doubles : unitCellsMatchDoubles = true := by decide +kernel

end Unyt.C15
