/-
  C20 — the token-level round trip: the token sequence of every printed layout is parsed,
  by the recursive-descent parser the driver executes, into exactly the syntax tree Python's
  grammar assigns to it.  No hypothesis on the layout: any sign, any coefficient, any number
  of numerator and denominator factors, any rational exponents, any symbol names.
-/
import UnytModel.PrintSyntax
import UnytProofs.Lemmas.C20Syntax

namespace Unyt.C20
open Unyt Parse Print C20S

/-- `parseTokens (renderTokens a) = syn a` for every layout `a` -/
theorem tokens_roundtrip (a : Ast) : parseTokens (renderTokens a) = some (syn a) := by
  unfold parseTokens
  cases a with
  | num q =>
    have h := pTerm_ratToks (4 * (renderTokens (.num q)).length + 34) q [] (by rfl)
    rw [List.append_nil] at h
    simp only [renderTokens, syn] at h ⊢
    rw [h]
  | lone it =>
    have h := pTerm_join (4 * (renderTokens (.lone it)).length + 25) it [] [] (by rfl)
    simp only [joinToks, List.append_nil, List.length_nil, Nat.add_zero, joinSyn, chainSyn] at h
    simp only [renderTokens, syn] at h ⊢
    rw [h]
  | frac neg a b =>
    have hl := length_frac neg a b
    have h := pTerm_frac (4 * (renderTokens (.frac neg a b)).length - a.length - b.length) neg a b
    rw [show 4 * (renderTokens (.frac neg a b)).length - a.length - b.length + 40 + a.length + b.length
        = 4 * (renderTokens (.frac neg a b)).length + 40 by omega] at h
    rw [h]

/-- in particular for the layout of any expression -/
theorem print_tokens_roundtrip (e : UExpr Rat) :
    parseTokens (renderTokens (printAst e)) = some (syn (printAst e)) := tokens_roundtrip _

example : syn (printAst ⟨(-3 : Rat) / 2, [("m", 1), ("s", -1)]⟩)
    = .div (.mul (.neg (.num 3 0)) (.name ['m'])) (.mul (.num 2 0) (.name ['s'])) := by decide +kernel

end Unyt.C20
